(* Lemmas about Common/ParseStr.v: split of a written line, strip, decimal printing / parsing round trips. *)
From Coq Require Import List Bool Arith NArith ZArith Ascii String Lia.
From Molli Require Import Common.ParseStr.
Import ListNotations.
Local Open Scope char_scope.
Local Open Scope list_scope.

Ltac ascii_cases c := destruct c as [[] [] [] [] [] [] [] []].

(* ---------------------------------------------------------------- str_eqb *)
Lemma ascii_eqb_eq a b : ascii_eqb a b = true <-> a = b.
Proof. unfold ascii_eqb. apply Ascii.eqb_eq. Qed.
Lemma ascii_eqb_refl a : ascii_eqb a a = true.
Proof. now apply ascii_eqb_eq. Qed.
Lemma ascii_eqb_neq a b : a <> b -> ascii_eqb a b = false.
Proof. intros H. destruct (ascii_eqb a b) eqn:E; [|reflexivity]. apply ascii_eqb_eq in E. contradiction. Qed.
Lemma str_eqb_eq a : forall b, str_eqb a b = true <-> a = b.
Proof.
  induction a as [|x a IH]; intros [|y b]; simpl; split; intros H; try reflexivity; try discriminate.
  - apply andb_prop in H. destruct H as [H1 H2]. apply ascii_eqb_eq in H1. apply IH in H2. now subst.
  - injection H as -> ->. rewrite ascii_eqb_refl. simpl. now apply IH.
Qed.
Lemma str_eqb_refl a : str_eqb a a = true.
Proof. now apply str_eqb_eq. Qed.

(* ---------------------------------------------------------------- split (probe str_split_line.v) *)
Definition nonws (c : ascii) : bool := negb (is_ws c).
Definition all_ws (s : str) : Prop := forallb is_ws s = true.
Definition tok (t : str) : Prop := t <> [] /\ forallb nonws t = true.

Lemma split_aux_tok t : forall cur s, forallb nonws t = true -> split_aux cur (t ++ s) = split_aux (rev t ++ cur) s.
Proof.
  induction t as [|c t IH]; intros cur s H; [reflexivity|]. simpl in H. apply andb_prop in H. destruct H as [Hc Ht].
  simpl. unfold nonws in Hc. apply negb_true_iff in Hc. rewrite Hc. rewrite IH by exact Ht. simpl. now rewrite <- app_assoc.
Qed.
Lemma split_ws w : forall s, all_ws w -> split (w ++ s) = split s.
Proof.
  unfold split, all_ws. induction w as [|c w IH]; intros s H; [reflexivity|]. simpl in H. apply andb_prop in H.
  destruct H as [Hc Hw]. simpl. rewrite Hc. now apply IH.
Qed.
Lemma split_all_ws w : all_ws w -> split w = [].
Proof. intros H. rewrite <- (app_nil_r w). rewrite split_ws by exact H. reflexivity. Qed.
Lemma split_tok_sep t c s : tok t -> is_ws c = true -> split (t ++ c :: s) = t :: split s.
Proof.
  intros [Hne Ht] Hc. unfold split. rewrite split_aux_tok by exact Ht. rewrite app_nil_r. simpl. rewrite Hc.
  destruct (rev t) eqn:E.
  - exfalso. apply Hne. apply (f_equal (@rev ascii)) in E. rewrite rev_involutive in E. exact E.
  - rewrite <- E, rev_involutive. reflexivity.
Qed.
Lemma split_tok_end t : tok t -> split t = [t].
Proof.
  intros [Hne Ht]. unfold split. rewrite <- (app_nil_r t) at 1. rewrite split_aux_tok by exact Ht. rewrite app_nil_r. simpl.
  destruct (rev t) eqn:E.
  - exfalso. apply Hne. apply (f_equal (@rev ascii)) in E. rewrite rev_involutive in E. exact E.
  - rewrite <- E, rev_involutive. reflexivity.
Qed.
(* a written line: tokens each followed by a NON-EMPTY blank separator, optional last token without separator *)
Fixpoint wline (pairs : list (str * str)) (last : str) : str :=
  match pairs with [] => last | (t, sep) :: ps => t ++ sep ++ wline ps last end.
Theorem split_wline lead pairs last :
  all_ws lead -> Forall (fun p => tok (fst p) /\ snd p <> [] /\ all_ws (snd p)) pairs -> (last = [] \/ tok last) ->
  split (lead ++ wline pairs last) = map fst pairs ++ (match last with [] => [] | _ => [last] end).
Proof.
  intros Hl Hp Hlast. rewrite split_ws by exact Hl. clear lead Hl.
  induction pairs as [|[t sep] ps IH]; simpl.
  - destruct Hlast as [->|Ht]; [reflexivity|]. rewrite split_tok_end by exact Ht.
    destruct last; [destruct Ht as [Hne _]; contradiction|reflexivity].
  - inversion Hp as [|x l [Ht [Hne Hs]] Hps]; subst. simpl in *. destruct sep as [|c sep]; [contradiction|].
    unfold all_ws in Hs. simpl in Hs. apply andb_prop in Hs. destruct Hs as [Hc Hs]. simpl.
    rewrite split_tok_sep; [|exact Ht|exact Hc]. rewrite split_ws by exact Hs. rewrite IH by exact Hps. reflexivity.
Qed.

(* every token produced by split is a token; needed for "int(line) succeeds => the line is one token" *)
Lemma forallb_rev {A} (f : A -> bool) l : forallb f (rev l) = forallb f l.
Proof.
  induction l as [|a l IH]; [reflexivity|]. simpl. rewrite forallb_app, IH. simpl. rewrite andb_true_r. apply andb_comm.
Qed.

(* ---------------------------------------------------------------- strip *)
Lemma drop_ws_decomp s : exists w, s = w ++ drop_ws s /\ all_ws w.
Proof.
  induction s as [|c s [w [E Hw]]]; [exists []; split; reflexivity|]. simpl. destruct (is_ws c) eqn:Hc.
  - exists (c :: w). split; [simpl; now rewrite <- E|]. unfold all_ws. simpl. now rewrite Hc.
  - exists []. split; reflexivity.
Qed.
Lemma drop_ws_nonws c s : is_ws c = false -> drop_ws (c :: s) = c :: s.
Proof. intros H. simpl. now rewrite H. Qed.
Lemma strip_decomp s : exists w1 w2, s = w1 ++ strip s ++ w2 /\ all_ws w1 /\ all_ws w2.
Proof.
  destruct (drop_ws_decomp s) as [w1 [E1 H1]]. destruct (drop_ws_decomp (rev (drop_ws s))) as [w2 [E2 H2]].
  exists w1, (rev w2). repeat split; [|exact H1|unfold all_ws; now rewrite forallb_rev].
  unfold strip. rewrite <- rev_app_distr, <- E2, rev_involutive. exact E1.
Qed.
Lemma strip_tok t : tok t -> strip t = t.
Proof.
  intros [Hne Ht]. unfold strip. destruct t as [|c t]; [contradiction|].
  simpl in Ht. apply andb_prop in Ht. destruct Ht as [Hc Ht]. unfold nonws in Hc. apply negb_true_iff in Hc.
  rewrite drop_ws_nonws by exact Hc.
  assert (Hr : forallb nonws (rev (c :: t)) = true).
  { rewrite forallb_rev. simpl. unfold nonws at 1. now rewrite Hc, Ht. }
  destruct (rev (c :: t)) as [|d r] eqn:E.
  - apply (f_equal (@rev ascii)) in E. rewrite rev_involutive in E. discriminate.
  - simpl in Hr. apply andb_prop in Hr. destruct Hr as [Hd _]. unfold nonws in Hd. apply negb_true_iff in Hd.
    rewrite drop_ws_nonws by exact Hd. rewrite <- E. apply rev_involutive.
Qed.

(* ---------------------------------------------------------------- digits *)
Definition dval (c : ascii) : N := match digit_val c with Some d => d | None => 0%N end.
Definition val_from (acc : N) (s : str) : N := fold_left (fun a c => (a * 10 + dval c)%N) s acc.
Definition stops (r : str) : Prop := match r with [] => True | c :: _ => is_digit c = false /\ c <> "_" end.
Definition all_digits (s : str) : Prop := forallb is_digit s = true.

Lemma is_digit_nonws c : is_digit c = true -> nonws c = true.
Proof. ascii_cases c; vm_compute; congruence. Qed.
Lemma is_digit_val c : is_digit c = true -> digit_val c = Some (dval c).
Proof. unfold is_digit, dval. destruct (digit_val c); [reflexivity|discriminate]. Qed.
Lemma is_digit_not_us c : is_digit c = true -> ascii_eqb c "_" = false.
Proof. ascii_cases c; vm_compute; congruence. Qed.
Lemma is_digit_not_sign c : is_digit c = true -> ascii_eqb c "-" = false /\ ascii_eqb c "+" = false /\ ascii_eqb c "." = false.
Proof. ascii_cases c; vm_compute; intros; repeat split; congruence. Qed.
Lemma is_digit_lower c : is_digit c = true -> lower c = c.
Proof. ascii_cases c; vm_compute; congruence. Qed.
Lemma all_digits_nonws s : all_digits s -> forallb nonws s = true.
Proof.
  unfold all_digits. induction s as [|c s IH]; [reflexivity|]. simpl. intros H. apply andb_prop in H. destruct H as [Hc Hs].
  rewrite is_digit_nonws by exact Hc. now apply IH.
Qed.

Lemma digit_char_ok d : (d < 10)%N -> is_digit (digit_char d) = true /\ dval (digit_char d) = d.
Proof.
  intros H.
  assert (E : (d = 0 \/ d = 1 \/ d = 2 \/ d = 3 \/ d = 4 \/ d = 5 \/ d = 6 \/ d = 7 \/ d = 8 \/ d = 9)%N) by lia.
  repeat (destruct E as [->|E]; [split; reflexivity|]). subst. split; reflexivity.
Qed.

Lemma digits_loop_stop acc n r : stops r -> digits_loop acc n r = (acc, n, r).
Proof.
  destruct r as [|c r]; [reflexivity|]. intros [Hd Hu]. simpl. unfold is_digit in Hd.
  destruct (digit_val c); [discriminate|]. now rewrite ascii_eqb_neq.
Qed.
Lemma digits_loop_digits ds : forall acc n r, all_digits ds -> stops r ->
  digits_loop acc n (ds ++ r) = (val_from acc ds, (n + List.length ds)%nat, r).
Proof.
  induction ds as [|c ds IH]; intros acc n r Hd Hr.
  - simpl. rewrite Nat.add_0_r. now apply digits_loop_stop.
  - unfold all_digits in Hd. simpl in Hd. apply andb_prop in Hd. destruct Hd as [Hc Hds].
    simpl. rewrite (is_digit_val c Hc). rewrite IH by assumption. f_equal. f_equal. simpl. lia.
Qed.
Lemma take_digits_all ds r : ds <> [] -> all_digits ds -> stops r ->
  take_digits (ds ++ r) = Some (val_from 0 ds, List.length ds, r).
Proof.
  intros Hne Hd Hr. destruct ds as [|c ds]; [contradiction|].
  unfold all_digits in Hd. simpl in Hd. apply andb_prop in Hd. destruct Hd as [Hc Hds].
  simpl. rewrite (is_digit_val c Hc). rewrite digits_loop_digits by assumption. reflexivity.
Qed.

Lemma val_from_app acc a b : val_from acc (a ++ b) = val_from (val_from acc a) b.
Proof. unfold val_from. apply fold_left_app. Qed.

Lemma all_digits_app a b : all_digits a -> all_digits b -> all_digits (a ++ b).
Proof. unfold all_digits. intros Ha Hb. now rewrite forallb_app, Ha, Hb. Qed.

Lemma fixed_digits_ok w : forall f, all_digits (fixed_digits w f) /\ List.length (fixed_digits w f) = w /\
                                    val_from 0 (fixed_digits w f) = (f mod 10 ^ N.of_nat w)%N.
Proof.
  induction w as [|w IH]; intros f.
  - repeat split. simpl. now rewrite N.mod_1_r.
  - destruct (IH (f / 10)%N) as [Hd [Hl Hv]].
    assert (Hm : (f mod 10 < 10)%N) by (apply N.mod_lt; lia).
    destruct (digit_char_ok _ Hm) as [Hc Hcv].
    cbn [fixed_digits]. repeat split.
    + apply all_digits_app; [exact Hd|]. unfold all_digits. simpl. now rewrite Hc.
    + rewrite app_length, Hl. simpl. lia.
    + rewrite val_from_app, Hv. cbn [val_from fold_left]. rewrite Hcv.
      rewrite Nat2N.inj_succ, N.pow_succ_r by lia.
      rewrite (N.mod_mul_r f 10 (10 ^ N.of_nat w)) by (try lia; apply N.pow_nonzero; lia). lia.
Qed.

Lemma drop_zeros_ok s : all_digits s -> all_digits (drop_zeros s) /\ val_from 0 (drop_zeros s) = val_from 0 s.
Proof.
  induction s as [|c s IH]; intros H; [split; [exact H|reflexivity]|].
  unfold all_digits in H. simpl in H. apply andb_prop in H. destruct H as [Hc Hs]. simpl.
  destruct (ascii_eqb c "0") eqn:E.
  - apply ascii_eqb_eq in E. subst c. destruct (IH Hs) as [H1 H2]. split; [exact H1|]. rewrite H2. reflexivity.
  - split; [|reflexivity]. unfold all_digits. simpl. now rewrite Hc, Hs.
Qed.

Lemma print_N_ok n : all_digits (print_N n) /\ print_N n <> [] /\ val_from 0 (print_N n) = n.
Proof.
  unfold print_N. set (w := N.to_nat (N.size n)).
  destruct (fixed_digits_ok w n) as [Hd [_ Hv]]. destruct (drop_zeros_ok _ Hd) as [Hd' Hv'].
  assert (Hn : (n mod 10 ^ N.of_nat w = n)%N).
  { apply N.mod_small. unfold w. rewrite N2Nat.id. eapply N.lt_le_trans; [apply N.size_gt|].
    apply N.pow_le_mono_l. lia. }
  destruct (drop_zeros (fixed_digits w n)) as [|c r] eqn:E.
  - repeat split; [discriminate|]. simpl in Hv'. rewrite Hv, Hn in Hv'. now rewrite <- Hv'.
  - repeat split; [exact Hd'|discriminate|]. now rewrite Hv', Hv, Hn.
Qed.

Lemma all_digits_tok s : s <> [] -> all_digits s -> tok s.
Proof. intros Hne Hd. split; [exact Hne|now apply all_digits_nonws]. Qed.

(* int(str(n)) = n *)
Lemma parse_int_print_N n : parse_int (print_N n) = Some (Z.of_N n).
Proof.
  destruct (print_N_ok n) as [Hd [Hne Hv]]. unfold parse_int. rewrite strip_tok by (now apply all_digits_tok).
  destruct (print_N n) as [|c s] eqn:E; [contradiction|].
  assert (Hc : is_digit c = true) by (unfold all_digits in Hd; simpl in Hd; now apply andb_prop in Hd).
  destruct (is_digit_not_sign c Hc) as [H1 [H2 _]]. unfold take_sign. rewrite H1, H2.
  rewrite <- (app_nil_r (c :: s)). rewrite take_digits_all; [|discriminate|exact Hd|exact I]. rewrite Hv. reflexivity.
Qed.

(* ---------------------------------------------------------------- float(format(x, ".6f")) *)
Lemma pow10_6 : pow10 6 = million.
Proof. reflexivity. Qed.

Lemma print_dec6_tok neg mag : tok (print_dec6 neg mag).
Proof.
  unfold print_dec6. destruct (print_N_ok (mag / million)) as [Hd [Hne _]].
  destruct (fixed_digits_ok 6 (mag mod million)) as [Hf _].
  split.
  - destruct neg; simpl; [discriminate|]. destruct (print_N (mag / million)); [contradiction|discriminate].
  - rewrite forallb_app, forallb_app. rewrite (all_digits_nonws _ Hd). cbn [forallb]. rewrite (all_digits_nonws _ Hf).
    destruct neg; reflexivity.
Qed.

Lemma not_word_digit c s w : is_digit c = true -> (forall d r, w = d :: r -> is_digit d = false) -> w <> [] ->
  str_eqb (map lower (c :: s)) w = false.
Proof.
  intros Hc Hw Hne. destruct w as [|d r]; [contradiction|]. simpl. rewrite (is_digit_lower c Hc).
  destruct (ascii_eqb c d) eqn:E; [|reflexivity]. apply ascii_eqb_eq in E. subst d.
  specialize (Hw c r eq_refl). congruence.
Qed.

Lemma parse_number_dec6 mag :
  parse_number (print_N (mag / million) ++ "." :: fixed_digits 6 (mag mod million)) = Some (mag, (-6)%Z).
Proof.
  destruct (print_N_ok (mag / million)) as [Hd [Hne Hv]].
  destruct (fixed_digits_ok 6 (mag mod million)) as [Hf [Hl Hfv]].
  unfold parse_number. rewrite take_digits_all; [|exact Hne|exact Hd|split; [reflexivity|discriminate]].
  cbn [ascii_eqb]. replace (ascii_eqb "." ".") with true by reflexivity.
  rewrite <- (app_nil_r (fixed_digits 6 (mag mod million))).
  rewrite take_digits_all; [|destruct (fixed_digits 6 (mag mod million)); [discriminate Hl|discriminate]|exact Hf|exact I].
  cbn [parse_exp option_map]. rewrite Hv, Hfv, Hl, pow10_6. f_equal. f_equal.
  change (10 ^ N.of_nat 6)%N with million. rewrite N.mod_mod by (unfold million; lia).
  rewrite N.mul_comm. symmetry. apply N.div_mod. unfold million. lia.
Qed.

Lemma parse_float_digit_head (neg0 : bool) c r m e :
  is_digit c = true -> tok ((if neg0 then ["-"] else @nil ascii) ++ c :: r) -> parse_number (c :: r) = Some (m, e) ->
  parse_float ((if neg0 then ["-"] else @nil ascii) ++ c :: r) = Some (FNum neg0 m e).
Proof.
  intros Hc Htok Hp. unfold parse_float. rewrite strip_tok by exact Htok.
  destruct (is_digit_not_sign c Hc) as [H1 [H2 _]].
  assert (W1 : str_eqb (map lower (c :: r)) w_inf || str_eqb (map lower (c :: r)) w_infinity = false).
  { apply orb_false_iff; split; (apply not_word_digit; [exact Hc| |discriminate]);
      intros d r' Hdr; injection Hdr as Hd' Hr'; subst d; reflexivity. }
  assert (W2 : str_eqb (map lower (c :: r)) w_nan = false).
  { apply not_word_digit; [exact Hc| |discriminate]. intros d r' Hdr; injection Hdr as Hd' Hr'; subst d; reflexivity. }
  destruct neg0.
  - change (["-"] ++ c :: r) with ("-" :: c :: r). unfold take_sign.
    replace (ascii_eqb "-" "-") with true by reflexivity. rewrite W1, W2, Hp. reflexivity.
  - change ([] ++ c :: r) with (c :: r). unfold take_sign. rewrite H1, H2. rewrite W1, W2, Hp. reflexivity.
Qed.

Theorem parse_float_print_dec6 neg mag : parse_float (print_dec6 neg mag) = Some (FNum neg mag (-6)).
Proof.
  pose proof (print_dec6_tok neg mag) as Htok. pose proof (parse_number_dec6 mag) as Hp. unfold print_dec6 in *.
  destruct (print_N_ok (mag / million)) as [Hd [Hne _]].
  destruct (print_N (mag / million)) as [|c s] eqn:E; [contradiction|].
  assert (Hc : is_digit c = true) by (unfold all_digits in Hd; simpl in Hd; now apply andb_prop in Hd).
  change ((c :: s) ++ "." :: fixed_digits 6 (mag mod million)) with (c :: (s ++ "." :: fixed_digits 6 (mag mod million))) in *.
  now apply parse_float_digit_head.
Qed.

(* ---------------------------------------------------------------- padding *)
Lemma blanks_ws n : all_ws (blanks n).
Proof. unfold all_ws, blanks. induction n; [reflexivity|]. simpl. exact IHn. Qed.
Lemma all_ws_app a b : all_ws a -> all_ws b -> all_ws (a ++ b).
Proof. unfold all_ws. intros Ha Hb. now rewrite forallb_app, Ha, Hb. Qed.
Lemma all_ws_cons_blank a : all_ws a -> all_ws (" " :: a).
Proof. unfold all_ws. simpl. auto. Qed.

(* ---------------------------------------------------------------- int(line) succeeds only on a one-token line *)
Lemma digits_loop_rest_aux k0 : forall s, (List.length s <= k0)%nat -> forall acc n v k r,
  digits_loop acc n s = (v, k, r) -> exists p, s = p ++ r /\ forallb nonws p = true.
Proof.
  induction k0 as [|k0 IH]; intros s Hlen acc n v k r H.
  - destruct s; [|simpl in Hlen; lia]. simpl in H. injection H as _ _ <-. exists []. split; reflexivity.
  - destruct s as [|c s]; simpl in H.
    + injection H as _ _ <-. exists []. split; reflexivity.
    + simpl in Hlen. destruct (digit_val c) eqn:Ec.
      * apply IH in H; [|lia]. destruct H as [p [-> Hp]]. exists (c :: p). split; [reflexivity|].
        simpl. rewrite Hp. rewrite is_digit_nonws; [reflexivity|]. unfold is_digit. now rewrite Ec.
      * destruct (ascii_eqb c "_") eqn:Eu.
        -- destruct s as [|c2 s2].
           ++ injection H as _ _ <-. exists []. split; reflexivity.
           ++ destruct (digit_val c2) eqn:Ec2.
              ** simpl in Hlen. apply IH in H; [|lia]. destruct H as [p [-> Hp]]. exists (c :: c2 :: p). split; [reflexivity|].
                 simpl. rewrite Hp. apply ascii_eqb_eq in Eu. subst c.
                 rewrite (is_digit_nonws c2); [reflexivity|]. unfold is_digit. now rewrite Ec2.
              ** injection H as _ _ <-. exists []. split; reflexivity.
        -- injection H as _ _ <-. exists []. split; reflexivity.
Qed.
Lemma digits_loop_rest acc n s v k r : digits_loop acc n s = (v, k, r) ->
  exists p, s = p ++ r /\ forallb nonws p = true.
Proof. apply (digits_loop_rest_aux (List.length s)). lia. Qed.

Lemma parse_int_one_token l z : parse_int l = Some z -> exists t, split l = [t].
Proof.
  unfold parse_int. intros H. destruct (strip_decomp l) as [w1 [w2 [El [H1 H2]]]].
  destruct (take_sign (strip l)) as [neg s] eqn:Es.
  destruct (take_digits s) as [[[v k] r]|] eqn:Et; [|discriminate]. destruct r; [|discriminate].
  assert (Hs : s <> [] /\ forallb nonws s = true).
  { unfold take_digits in Et. destruct s as [|c s']; [discriminate|]. split; [discriminate|].
    destruct (digit_val c) eqn:Ec; [|discriminate]. injection Et as Et.
    apply digits_loop_rest in Et. destruct Et as [p [-> Hp]]. rewrite app_nil_r. simpl. rewrite Hp.
    rewrite is_digit_nonws; [reflexivity|]. unfold is_digit. now rewrite Ec. }
  assert (Hstrip : tok (strip l)).
  { unfold take_sign in Es. destruct (strip l) as [|c r]; [injection Es as _ <-; destruct Hs; contradiction|].
    destruct (ascii_eqb c "-") eqn:E1; [|destruct (ascii_eqb c "+") eqn:E2].
    - injection Es as _ <-. apply ascii_eqb_eq in E1. subst c. split; [discriminate|]. simpl. now destruct Hs as [_ ->].
    - injection Es as _ <-. apply ascii_eqb_eq in E2. subst c. split; [discriminate|]. simpl. now destruct Hs as [_ ->].
    - injection Es as _ <-. exact Hs. }
  exists (strip l). rewrite El at 1. rewrite split_ws by exact H1.
  destruct w2 as [|c w2].
  - rewrite app_nil_r. now apply split_tok_end.
  - unfold all_ws in H2. simpl in H2. apply andb_prop in H2. destruct H2 as [Hc Hw2].
    rewrite split_tok_sep by assumption. now rewrite split_all_ws.
Qed.

(* ---------------------------------------------------------------- split of a prefix of a line *)
(* t is a non-empty prefix of u *)
Definition nprefix (t u : str) : Prop := t <> [] /\ exists r, u = t ++ r.

Lemma split_aux_head cur s : cur <> [] -> exists x rest, split_aux cur s = (rev cur ++ x) :: rest.
Proof.
  revert cur. induction s as [|c s IH]; intros cur Hne.
  - simpl. destruct cur; [contradiction|]. exists [], []. now rewrite app_nil_r.
  - simpl. destruct (is_ws c).
    + destruct cur; [contradiction|]. exists [], (split_aux [] s). now rewrite app_nil_r.
    + destruct (IH (c :: cur)) as [x [rest E]]; [discriminate|]. exists (c :: x), rest. rewrite E. simpl.
      now rewrite <- app_assoc.
Qed.

(* splitting the first b characters of a line gives a prefix of the line's tokens, possibly followed by a
   non-empty prefix of the next token *)
Lemma split_aux_firstn s : forall cur b,
  exists j p, split_aux cur (firstn b s) = firstn j (split_aux cur s) ++ p /\
              (p = [] \/ exists t, p = [t] /\ nprefix t (nth j (split_aux cur s) [])).
Proof.
  induction s as [|c s IH]; intros cur b.
  - rewrite firstn_nil. simpl. destruct cur as [|d cur].
    + exists 0%nat, []. split; [reflexivity|now left].
    + exists 1%nat, []. split; [reflexivity|now left].
  - destruct b as [|b].
    + simpl firstn. destruct cur as [|d cur].
      * exists 0%nat, []. split; [reflexivity|now left].
      * exists 0%nat, [rev (d :: cur)]. split; [reflexivity|]. right. exists (rev (d :: cur)). split; [reflexivity|].
        destruct (split_aux_head (d :: cur) (c :: s)) as [x [rest E]]; [discriminate|]. rewrite E. simpl nth.
        split; [|now exists x]. intros H. apply (f_equal (@rev ascii)) in H. rewrite rev_involutive in H. discriminate.
    + simpl firstn. cbn [split_aux]. destruct (is_ws c).
      * destruct cur as [|d cur].
        -- apply IH.
        -- destruct (IH [] b) as [j [p [E Hp]]]. exists (S j), p. split; [simpl; now rewrite E|exact Hp].
      * apply IH.
Qed.
Lemma split_firstn s b :
  exists j p, split (firstn b s) = firstn j (split s) ++ p /\
              (p = [] \/ exists t, p = [t] /\ nprefix t (nth j (split s) [])).
Proof. apply split_aux_firstn. Qed.
