(* Real-number instance of Common/Field3.v and the generic linear-algebra facts every geometric
   property needs: orthogonal maps preserve dot products / distances, proper ones signed volumes. *)
From Coq Require Import Reals Nsatz Lra List ZArith.
From Molli Require Import Common.Field3.
Import ListNotations.
Local Open Scope R_scope.

Definition Rleb (x y : R) : bool := if Rle_dec x y then true else false.
Definition ROps : Fops R := {|
  f0 := 0; f1 := 1; fadd := Rplus; fsub := Rminus; fmul := Rmult; fdiv := Rdiv; fopp := Ropp;
  fleb := Rleb; fofZ := IZR |}.

Lemma Rleb_true x y : Rleb x y = true <-> x <= y.
Proof. unfold Rleb. destruct (Rle_dec x y); split; intros; try reflexivity; try assumption; try discriminate; contradiction. Qed.
Lemma Rleb_false x y : Rleb x y = false <-> y < x.
Proof. unfold Rleb. destruct (Rle_dec x y); split; intros; try reflexivity; try discriminate; lra. Qed.

Notation vecR := (vec R).
Notation matR := (mat R).

(* expose the arithmetic of every Field3 operation *)
Ltac f3 := cbv [vzero vadd vsub vopp vscale vdiv dot cross norm2 dist2 triple signed_volume outer eye
                mmap2 mmap madd msub mscale mdivs mtrans mmul vm mv det trace
                ROps f0 f1 fadd fsub fmul fdiv fopp].
Ltac f3_in H := cbv [vzero vadd vsub vopp vscale vdiv dot cross norm2 dist2 triple signed_volume outer eye
                mmap2 mmap madd msub mscale mdivs mtrans mmul vm mv det trace
                ROps f0 f1 fadd fsub fmul fdiv fopp] in H.
Ltac vdestruct :=
  repeat match goal with
         | M : matR |- _ => destruct M as [[[[? ?] ?] [[? ?] ?]] [[? ?] ?]]
         | v : vecR |- _ => destruct v as [[? ?] ?]
         end.
(* split an equation between two triples / matrices into its component equations *)
Ltac eqs H := f3_in H; injection H; clear H; intros.
Ltac veq := repeat match goal with |- (_, _) = (_, _) => apply f_equal2 end.

Definition orth (M : matR) : Prop := mmul ROps M (mtrans M) = eye ROps.
Definition proper (M : matR) : Prop := orth M /\ det ROps M = 1.
Definition unit (a : vecR) : Prop := dot ROps a a = 1.

Lemma eye_proper : proper (eye ROps).
Proof. split; [unfold orth|]; f3; veq; ring. Qed.

Lemma vm_vsub (x y : vecR) (M : matR) : vm ROps (vsub ROps x y) M = vsub ROps (vm ROps x M) (vm ROps y M).
Proof. vdestruct. f3. veq; ring. Qed.
Lemma vm_vadd (x y : vecR) (M : matR) : vm ROps (vadd ROps x y) M = vadd ROps (vm ROps x M) (vm ROps y M).
Proof. vdestruct. f3. veq; ring. Qed.
Lemma vm_eye (x : vecR) : vm ROps x (eye ROps) = x.
Proof. vdestruct. f3. veq; ring. Qed.
Lemma vm_mmul (x : vecR) (A B : matR) : vm ROps x (mmul ROps A B) = vm ROps (vm ROps x A) B.
Proof. vdestruct. f3. veq; ring. Qed.

Lemma mmul_assoc (A B C : matR) : mmul ROps (mmul ROps A B) C = mmul ROps A (mmul ROps B C).
Proof. vdestruct. f3. veq; ring. Qed.
Lemma mtrans_mmul (A B : matR) : mtrans (mmul ROps A B) = mmul ROps (mtrans B) (mtrans A).
Proof. vdestruct. f3. veq; ring. Qed.
Lemma mmul_eye_l (A : matR) : mmul ROps (eye ROps) A = A.
Proof. vdestruct. f3. veq; ring. Qed.
Lemma mmul_eye_r (A : matR) : mmul ROps A (eye ROps) = A.
Proof. vdestruct. f3. veq; ring. Qed.
Lemma det_mmul (A B : matR) : det ROps (mmul ROps A B) = det ROps A * det ROps B.
Proof. vdestruct. f3. ring. Qed.
Lemma det_mtrans (A : matR) : det ROps (mtrans A) = det ROps A.
Proof. vdestruct. f3. ring. Qed.

Lemma orth_mmul (A B : matR) : orth A -> orth B -> orth (mmul ROps A B).
Proof.
  unfold orth. intros HA HB.
  rewrite mtrans_mmul, mmul_assoc, <- (mmul_assoc B), HB, mmul_eye_l. exact HA.
Qed.
Lemma proper_mmul (A B : matR) : proper A -> proper B -> proper (mmul ROps A B).
Proof.
  intros [HA DA] [HB DB]. split; [apply orth_mmul; assumption|].
  rewrite det_mmul, DA, DB. ring.
Qed.

(* a row vector times an orthogonal matrix: dot products, hence lengths and distances, are kept *)
Lemma orth_preserves_dot (M : matR) (x y : vecR) :
  orth M -> dot ROps (vm ROps x M) (vm ROps y M) = dot ROps x y.
Proof. unfold orth. intros H. vdestruct. eqs H. f3. nsatz. Qed.

Lemma orth_preserves_dist2 (M : matR) (x y : vecR) :
  orth M -> dist2 ROps (vm ROps x M) (vm ROps y M) = dist2 ROps x y.
Proof. intros H. unfold dist2, norm2. rewrite <- vm_vsub. apply orth_preserves_dot, H. Qed.

(* ... and the triple product is multiplied by the determinant *)
Lemma triple_vm (M : matR) (x y z : vecR) :
  triple ROps (vm ROps x M) (vm ROps y M) (vm ROps z M) = det ROps M * triple ROps x y z.
Proof. vdestruct. f3. ring. Qed.

Lemma proper_preserves_signed_volume (M : matR) (p0 p1 p2 p3 : vecR) :
  proper M ->
  signed_volume ROps (vm ROps p0 M) (vm ROps p1 M) (vm ROps p2 M) (vm ROps p3 M) = signed_volume ROps p0 p1 p2 p3.
Proof.
  intros [_ D]. unfold signed_volume. rewrite <- !vm_vsub, triple_vm, D. ring.
Qed.

(* translations *)
Lemma translate_preserves_dist2 (v x y : vecR) : dist2 ROps (vadd ROps x v) (vadd ROps y v) = dist2 ROps x y.
Proof. vdestruct. f3. ring. Qed.
Lemma translate_preserves_signed_volume (v p0 p1 p2 p3 : vecR) :
  signed_volume ROps (vadd ROps p0 v) (vadd ROps p1 v) (vadd ROps p2 v) (vadd ROps p3 v) = signed_volume ROps p0 p1 p2 p3.
Proof. vdestruct. f3. ring. Qed.

(* ---- update_rows: the frame lemma for row-selective edits ---- *)
Lemma update_from_length {A} sel (f : A -> A) l : forall i, length (update_from sel f i l) = length l.
Proof. induction l as [|x l IH]; intros i; simpl; [reflexivity | now rewrite IH]. Qed.
Lemma update_from_nth {A} sel (f : A -> A) (d : A) l : forall i k, (k < length l)%nat ->
  nth k (update_from sel f i l) d = if sel (i + k)%nat then f (nth k l d) else nth k l d.
Proof.
  induction l as [|x l IH]; intros i k Hk; simpl in Hk; [inversion Hk|].
  destruct k as [|k]; simpl.
  - now rewrite Nat.add_0_r.
  - rewrite IH by (apply Nat.succ_lt_mono; exact Hk). now rewrite Nat.add_succ_r.
Qed.
Lemma update_rows_length {A} sel (f : A -> A) l : length (update_rows sel f l) = length l.
Proof. apply update_from_length. Qed.
Lemma update_rows_nth {A} sel (f : A -> A) (d : A) l k : (k < length l)%nat ->
  nth k (update_rows sel f l) d = if sel k then f (nth k l d) else nth k l d.
Proof. intros Hk. unfold update_rows. now rewrite update_from_nth. Qed.
Lemma update_from_compose {A} sel (f g : A -> A) l : forall i,
  update_from sel g i (update_from sel f i l) = update_from sel (fun x => g (f x)) i l.
Proof. induction l as [|x l IH]; intros i; simpl; [reflexivity|]. rewrite IH. now destruct (sel i). Qed.
Lemma update_rows_compose {A} sel (f g : A -> A) l :
  update_rows sel g (update_rows sel f l) = update_rows sel (fun x => g (f x)) l.
Proof. apply update_from_compose. Qed.
Lemma in_idx_spec idx i : in_idx idx i = true <-> In i idx.
Proof.
  unfold in_idx. rewrite existsb_exists. split.
  - intros [x [Hx E]]. apply Nat.eqb_eq in E. now subst.
  - intros H. exists i. split; [exact H | apply Nat.eqb_refl].
Qed.
