(* Correspondence plumbing: which cases of a generated list fail a boolean check. *)
From Coq Require Import List Bool Arith.
Import ListNotations.

Fixpoint bad_from {A} (chk : A -> bool) (i : nat) (l : list A) : list nat :=
  match l with
  | [] => []
  | x :: r => if chk x then bad_from chk (S i) r else i :: bad_from chk (S i) r
  end.

Definition bad_indices {A} (chk : A -> bool) (l : list A) : list nat := bad_from chk 0 l.

Lemma bad_from_nil_forall {A} (chk : A -> bool) l : forall i,
  bad_from chk i l = [] -> forall x, In x l -> chk x = true.
Proof.
  induction l as [|a l IH]; intros i H x Hx; [destruct Hx|].
  simpl in H. destruct (chk a) eqn:E; [|discriminate].
  destruct Hx as [<-|Hx]; [exact E|]. eapply IH; eauto.
Qed.

Lemma bad_indices_nil_forall {A} (chk : A -> bool) l :
  bad_indices chk l = [] -> forall x, In x l -> chk x = true.
Proof. apply bad_from_nil_forall. Qed.
