(* C16: the small integer / half-integer expression language into which the hydrogen-count arithmetic of
   Structure.add_implicit_hydrogens is extracted (tie S, Gen/HaddExpr.v), and its denotation.

   Leaves: the integer attributes of the atom (valence electrons, formal charge, formal spin) and
   ceil / floor of its bonded valence, a rational (sums of Bond.order: half-integers for the standard bond
   types, any rational for FractionalOrder bonds).  No proofs here. *)
From Coq Require Import ZArith QArith Qround.

Inductive hexpr :=
| EInt (z : Z)
| EVe                      (* a.valence_electrons *)
| EFc                      (* a.formal_charge *)
| ESpin                    (* a.formal_spin *)
| ECeilBv                  (* ceil(self.bonded_valence(a)) *)
| EFloorBv                 (* floor(self.bonded_valence(a)) *)
| EAdd (a b : hexpr) | ESub (a b : hexpr) | ENeg (a : hexpr)
| EAbs (a : hexpr) | EMax (a b : hexpr) | EMin (a b : hexpr).

Record henv := mkHenv { v_ve : Z; v_fc : Z; v_spin : Z; v_bv : Q }.

Fixpoint denote (v : henv) (e : hexpr) : Z :=
  match e with
  | EInt z => z
  | EVe => v_ve v
  | EFc => v_fc v
  | ESpin => v_spin v
  | ECeilBv => Qceiling (v_bv v)
  | EFloorBv => Qfloor (v_bv v)
  | EAdd a b => (denote v a + denote v b)%Z
  | ESub a b => (denote v a - denote v b)%Z
  | ENeg a => (- denote v a)%Z
  | EAbs a => Z.abs (denote v a)
  | EMax a b => Z.max (denote v a) (denote v b)
  | EMin a b => Z.min (denote v a) (denote v b)
  end.

(* The specification, written from the text of the property:
     max(0, 4 - |4 - (valence electrons - formal charge - |spin|)| - ceil(bonded valence)) *)
Definition count_spec (v : henv) : Z :=
  Z.max 0 (4 - Z.abs (4 - (v_ve v - v_fc v - Z.abs (v_spin v))) - Qceiling (v_bv v)).

(* Bond.order as tabulated (tie T, Gen/Valence.v): a constant for the bond type, or the bond's own f_order *)
Inductive ord := OConst (q : Q) | OFrac.
