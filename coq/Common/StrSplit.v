(* Python text primitives used by the mol2 codec (C07): strings as lists of Unicode code points,
   `str.isspace`, argument-less `str.split()`, `str.strip()`, iteration of a text stream over its
   lines, left/right padding of format specs -- with the lemmas the round-trip proof needs.
   The generic part (Section Split) is the design probe probes/str_split_line.v. *)
From Coq Require Import String Ascii.
From Coq Require Import List Bool NArith Lia.
Import ListNotations.

Definition str := list N.          (* one N per code point *)

Fixpoint u8 (s : string) : str :=  (* ASCII literal -> str *)
  match s with EmptyString => [] | String a r => N_of_ascii a :: u8 r end.

Fixpoint str_eqb (a b : str) : bool :=
  match a, b with
  | [], [] => true
  | x :: a', y :: b' => N.eqb x y && str_eqb a' b'
  | _, _ => false
  end.

Lemma str_eqb_eq a : forall b, str_eqb a b = true <-> a = b.
Proof.
  induction a as [|x a IH]; intros [|y b]; simpl; split; intros H; try reflexivity; try discriminate.
  - apply andb_prop in H. destruct H as [H1 H2]. apply N.eqb_eq in H1. apply IH in H2. now subst.
  - injection H as -> ->. rewrite N.eqb_refl. simpl. now apply IH.
Qed.

Lemma str_eqb_refl a : str_eqb a a = true.
Proof. now apply str_eqb_eq. Qed.

(* Py_UNICODE_ISSPACE: what str.split() / str.strip() treat as blank *)
Definition pyws (c : N) : bool :=
  ((9 <=? c) && (c <=? 13) || (28 <=? c) && (c <=? 32) || (c =? 133) || (c =? 160) || (c =? 5760)
   || (8192 <=? c) && (c <=? 8202) || (c =? 8232) || (c =? 8233) || (c =? 8239) || (c =? 8287)
   || (c =? 12288))%N.

Section Split.
Context {A : Type} (ws : A -> bool).

(* Python str.split() with no argument: maximal runs of non-whitespace *)
Fixpoint split_aux (cur : list A) (s : list A) : list (list A) :=
  match s with
  | [] => match cur with [] => [] | _ => [rev cur] end
  | c :: s' => if ws c then match cur with [] => split_aux [] s' | _ => rev cur :: split_aux [] s' end
               else split_aux (c :: cur) s'
  end.
Definition split (s : list A) := split_aux [] s.
Definition all_ws (s : list A) := forallb ws s = true.
Definition tokb (t : list A) : bool := match t with [] => false | _ => forallb (fun c => negb (ws c)) t end.
Definition tok (t : list A) := t <> [] /\ forallb (fun c => negb (ws c)) t = true.

Lemma tokb_tok t : tokb t = true <-> tok t.
Proof.
  unfold tokb, tok. destruct t as [|c t]; split; intros H; try discriminate.
  - destruct H as [H _]. now elim H.
  - split; [discriminate|exact H].
  - now destruct H.
Qed.

Lemma split_aux_tok t : forall cur s, forallb (fun c => negb (ws c)) t = true ->
  split_aux cur (t ++ s) = split_aux (rev t ++ cur) s.
Proof.
  induction t as [|c t IH]; intros cur s H; [reflexivity|]. simpl in H. apply andb_prop in H. destruct H as [Hc Ht].
  simpl. apply negb_true_iff in Hc. rewrite Hc. rewrite IH by exact Ht. simpl. now rewrite <- app_assoc.
Qed.
Lemma split_ws w : forall s, all_ws w -> split (w ++ s) = split s.
Proof.
  unfold split, all_ws. induction w as [|c w IH]; intros s H; [reflexivity|]. simpl in H. apply andb_prop in H. destruct H as [Hc Hw].
  simpl. rewrite Hc. now apply IH.
Qed.
Lemma split_tok_sep t c s : tok t -> ws c = true -> split (t ++ c :: s) = t :: split s.
Proof.
  intros [Hne Ht] Hc. unfold split. rewrite split_aux_tok by exact Ht. rewrite app_nil_r. simpl. rewrite Hc.
  destruct (rev t) eqn:E.
  - exfalso. apply Hne. apply (f_equal (@rev A)) in E. rewrite rev_involutive in E. exact E.
  - rewrite <- E, rev_involutive. reflexivity.
Qed.
Lemma split_tok_end t : tok t -> split t = [t].
Proof.
  intros [Hne Ht]. unfold split. rewrite <- (app_nil_r t) at 1. rewrite split_aux_tok by exact Ht. rewrite app_nil_r. simpl.
  destruct (rev t) eqn:E.
  - exfalso. apply Hne. apply (f_equal (@rev A)) in E. rewrite rev_involutive in E. exact E.
  - rewrite <- E, rev_involutive. reflexivity.
Qed.

(* a written line: optional leading blanks, tokens each followed by a NON-EMPTY blank separator,
   optional last token without separator *)
Fixpoint line (pairs : list (list A * list A)) (last : list A) : list A :=
  match pairs with [] => last | (t, sep) :: ps => t ++ sep ++ line ps last end.

Theorem split_line lead pairs last :
  all_ws lead -> Forall (fun p => tok (fst p) /\ snd p <> [] /\ all_ws (snd p)) pairs -> (last = [] \/ tok last) ->
  split (lead ++ line pairs last) = map fst pairs ++ (match last with [] => [] | _ => [last] end).
Proof.
  intros Hl Hp Hlast. rewrite split_ws by exact Hl. clear lead Hl.
  induction pairs as [|[t sep] ps IH]; simpl.
  - destruct Hlast as [->|Ht]; [reflexivity|]. rewrite split_tok_end by exact Ht.
    destruct last; [destruct Ht as [Hne _]; contradiction|reflexivity].
  - inversion Hp as [|x l [Ht [Hne Hs]] Hps]; subst. simpl in *. destruct sep as [|c sep]; [contradiction|].
    unfold all_ws in Hs. simpl in Hs. apply andb_prop in Hs. destruct Hs as [Hc Hs]. simpl.
    rewrite split_tok_sep; [|exact Ht|exact Hc]. rewrite split_ws by exact Hs. rewrite IH by exact Hps. reflexivity.
Qed.

(* trailing blanks do not matter to split *)
Lemma split_aux_ws_end w : all_ws w -> forall cur, split_aux cur w = split_aux cur [].
Proof.
  unfold all_ws. induction w as [|c w IH]; intros H cur; [reflexivity|]. simpl in H. apply andb_prop in H.
  destruct H as [Hc Hw]. simpl. rewrite Hc. rewrite (IH Hw []). simpl. destruct cur; reflexivity.
Qed.
Lemma split_aux_app_ws s : forall cur w, all_ws w -> split_aux cur (s ++ w) = split_aux cur s.
Proof.
  induction s as [|c s IH]; intros cur w Hw.
  - simpl app. now apply split_aux_ws_end.
  - simpl. destruct (ws c); [destruct cur|]; now rewrite IH.
Qed.

(* str.strip() *)
Fixpoint lstrip (s : list A) : list A :=
  match s with [] => [] | c :: s' => if ws c then lstrip s' else s end.
Fixpoint rstrip (s : list A) : list A :=
  match s with
  | [] => []
  | c :: s' => match rstrip s' with [] => if ws c then [] else [c] | r => c :: r end
  end.
Definition strip (s : list A) := rstrip (lstrip s).

Lemma lstrip_split s : split (lstrip s) = split s.
Proof.
  unfold split. induction s as [|c s IH]; [reflexivity|]. simpl. destruct (ws c) eqn:E; [exact IH|].
  simpl. now rewrite E.
Qed.
Lemma rstrip_spec s : exists w, all_ws w /\ s = rstrip s ++ w.
Proof.
  induction s as [|c s [w [Hw IH]]]; [exists []; split; reflexivity|].
  simpl. destruct (rstrip s) as [|r rs] eqn:E.
  - destruct (ws c) eqn:Ec.
    + exists (c :: w). split; [unfold all_ws in *; simpl; now rewrite Ec|]. simpl in IH. now rewrite IH.
    + exists w. split; [exact Hw|]. simpl in IH. simpl. now rewrite IH.
  - exists w. split; [exact Hw|]. rewrite IH at 1. reflexivity.
Qed.
Lemma rstrip_split s : split (rstrip s) = split s.
Proof.
  destruct (rstrip_spec s) as [w [Hw E]]. rewrite E at 2. unfold split. now rewrite split_aux_app_ws.
Qed.
Lemma strip_split s : split (strip s) = split s.
Proof. unfold strip. now rewrite rstrip_split, lstrip_split. Qed.

Lemma rstrip_tok_end s t : tok t -> rstrip (s ++ t) = s ++ t.
Proof.
  intros [Hne Ht]. induction s as [|c s IH].
  - simpl. induction t as [|c t IHt]; [now elim Hne|]. simpl in Ht. apply andb_prop in Ht. destruct Ht as [Hc Ht].
    apply negb_true_iff in Hc. simpl. destruct t as [|d t].
    + simpl. now rewrite Hc.
    + rewrite IHt by (discriminate || exact Ht). reflexivity.
  - simpl. rewrite IH. destruct (s ++ t) eqn:E; [|reflexivity].
    apply app_eq_nil in E. destruct E as [_ E]. now elim Hne.
Qed.
End Split.

Arguments tok {A} ws t.
Arguments tokb {A} ws t.
Arguments all_ws {A} ws s.

(* ------------------------------------------------------------------ lines of a text stream *)
(* Iterating a StringIO yields the segments ended by "\n" (newline is not translated) and a final
   unterminated segment when it is not empty.  The terminator is dropped here because every consumer
   strips the line. *)
Definition NL : N := 10%N.
Fixpoint lines_aux (cur : str) (s : str) : list str :=
  match s with
  | [] => match cur with [] => [] | _ => [rev cur] end
  | c :: s' => if N.eqb c NL then rev cur :: lines_aux [] s' else lines_aux (c :: cur) s'
  end.
Definition lines_of (s : str) : list str := lines_aux [] s.
Definition nl_free (l : str) : Prop := forallb (fun c => negb (N.eqb c NL)) l = true.
Definition text_of (ls : list str) : str := concat (map (fun l => l ++ [NL]) ls).

Lemma lines_aux_nlfree l : forall cur s, nl_free l -> lines_aux cur (l ++ s) = lines_aux (rev l ++ cur) s.
Proof.
  unfold nl_free. induction l as [|c l IH]; intros cur s H; [reflexivity|]. simpl in H. apply andb_prop in H.
  destruct H as [Hc Hl]. apply negb_true_iff in Hc. simpl. rewrite Hc. rewrite IH by exact Hl. simpl.
  now rewrite <- app_assoc.
Qed.
Lemma lines_of_cons l s : nl_free l -> lines_of (l ++ NL :: s) = l :: lines_of s.
Proof.
  intros H. unfold lines_of. rewrite lines_aux_nlfree by exact H. rewrite app_nil_r. simpl.
  now rewrite rev_involutive.
Qed.
Theorem lines_of_text ls : Forall nl_free ls -> lines_of (text_of ls) = ls.
Proof.
  induction 1 as [|l ls Hl _ IH]; [reflexivity|]. unfold text_of in *. simpl. rewrite <- app_assoc. simpl.
  rewrite lines_of_cons by exact Hl. now rewrite IH.
Qed.

Lemma tok_nl_free t : forallb (fun c => negb (pyws c)) t = true -> nl_free t.
Proof.
  unfold nl_free. induction t as [|c t IH]; intros H; [reflexivity|]. simpl in *. apply andb_prop in H.
  destruct H as [Hc Ht]. rewrite IH by exact Ht. rewrite andb_true_r. apply negb_true_iff.
  destruct (N.eqb c NL) eqn:E; [|reflexivity]. apply N.eqb_eq in E. subst c. discriminate.
Qed.
Lemma nl_free_app a b : nl_free a -> nl_free b -> nl_free (a ++ b).
Proof. unfold nl_free. intros. rewrite forallb_app. now apply andb_true_intro. Qed.

(* ------------------------------------------------------------------ padding of format specs *)
Definition SP : N := 32%N.
Definition spaces (n : nat) : str := repeat SP n.
Definition lpad (w : nat) (t : str) : str := spaces (w - length t) ++ t.   (* {t:>w} *)
Definition rpad (w : nat) (t : str) : str := t ++ spaces (w - length t).   (* {t:<w} *)

Lemma spaces_ws n : all_ws pyws (spaces n).
Proof. unfold all_ws, spaces. induction n; [reflexivity|]. simpl. exact IHn. Qed.
Lemma spaces_nl_free n : nl_free (spaces n).
Proof. unfold nl_free, spaces. induction n; [reflexivity|]. simpl. exact IHn. Qed.
