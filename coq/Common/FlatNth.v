(* Indexing into `flat_map g l` when every block `g a` has the same length n: block i, offset k sits at i*n + k.
   (C-order raveling of a rectangular nested array; used by C19 for the distance matrices and the mesh grid.) *)
From Coq Require Import List Arith Lia.
Import ListNotations.

Lemma flat_map_uniform_length {A F} (g : A -> list F) (n : nat) (l : list A) :
  (forall a, In a l -> length (g a) = n) -> length (flat_map g l) = (length l * n)%nat.
Proof.
  induction l as [|a l IH]; intros H; simpl; [reflexivity|].
  rewrite app_length, IH by (intros; apply H; now right).
  rewrite (H a) by now left. reflexivity.
Qed.

Lemma flat_map_uniform_nth {A F} (g : A -> list F) (n : nat) (da : A) (d : F) (l : list A) :
  (forall a, In a l -> length (g a) = n) ->
  forall i k, (i < length l)%nat -> (k < n)%nat ->
  nth (i * n + k) (flat_map g l) d = nth k (g (nth i l da)) d.
Proof.
  induction l as [|a l IH]; intros H i k Hi Hk; simpl in Hi; [lia|].
  assert (Ha : length (g a) = n) by (apply H; now left).
  destruct i as [|i]; simpl.
  - apply app_nth1. lia.
  - rewrite app_nth2 by lia. rewrite Ha.
    replace (n + i * n + k - n)%nat with (i * n + k)%nat by lia.
    apply IH; [intros; apply H; now right | lia | exact Hk].
Qed.

Lemma NoDup_app_intro {A} (l m : list A) :
  NoDup l -> NoDup m -> (forall x, In x l -> In x m -> False) -> NoDup (l ++ m).
Proof.
  induction l as [|a l IH]; intros Hl Hm Hd; simpl; [exact Hm|].
  inversion Hl as [|? ? Hn Hl']; subst. constructor.
  - rewrite in_app_iff. intros [H|H]; [exact (Hn H) | exact (Hd a (or_introl eq_refl) H)].
  - apply IH; [exact Hl' | exact Hm | intros x Hx; apply Hd; now right].
Qed.

(* distinct blocks are disjoint and every block is duplicate-free *)
Lemma NoDup_flat_map {A B} (g : A -> list B) (l : list A) :
  NoDup l -> (forall a, In a l -> NoDup (g a)) ->
  (forall a b x, In a l -> In b l -> In x (g a) -> In x (g b) -> a = b) ->
  NoDup (flat_map g l).
Proof.
  induction l as [|a l IH]; intros Hl Hg Hd; simpl; [constructor|].
  inversion Hl as [|? ? Hn Hl']; subst.
  apply NoDup_app_intro.
  - apply Hg. now left.
  - apply IH; [exact Hl' | intros; apply Hg; now right | intros a' b x Ha Hb; apply Hd; now right].
  - intros x Hx Hx'. apply in_flat_map in Hx' as [b [Hb Hxb]].
    assert (a = b) by (apply (Hd a b x); [now left | now right | exact Hx | exact Hxb]).
    subst. exact (Hn Hb).
Qed.
