(* 3-vectors and 3x3 matrices over an abstract record of field operations.

   Numeric models are written ONCE against `Fops F` and instantiated twice:
     - with `R`  (Common/Field3R.v)  for theorems (ring / field / nsatz / nra),
     - with `Q`  (`QOps` below)      for execution by `vm_compute` in correspondence shards,
   so the term a theorem talks about and the term that is run against the implementation
   are the same Gallina definition.  No proofs about R in this file (stdlib Q only), so
   that model files and generated case files do not have to load the Reals library. *)
From Coq Require Import List ZArith QArith Qabs Bool.
Import ListNotations.

Record Fops (F : Type) := mkFops {
  f0 : F; f1 : F;
  fadd : F -> F -> F; fsub : F -> F -> F; fmul : F -> F -> F; fdiv : F -> F -> F;
  fopp : F -> F;
  fleb : F -> F -> bool;          (* decidable `<=` (classical on R, computed on Q) *)
  fofZ : Z -> F                   (* integer literals: lengths, constants *)
}.
Arguments f0 {F}. Arguments f1 {F}. Arguments fadd {F}. Arguments fsub {F}. Arguments fmul {F}.
Arguments fdiv {F}. Arguments fopp {F}. Arguments fleb {F}. Arguments fofZ {F}.

(* Q instance. Every result is reduced so that long computations keep small numerators. *)
Definition QOps : Fops Q := {|
  f0 := 0%Q; f1 := 1%Q;
  fadd := fun x y => Qred (x + y); fsub := fun x y => Qred (x - y);
  fmul := fun x y => Qred (x * y); fdiv := fun x y => Qred (x / y);
  fopp := fun x => Qopp x;
  fleb := Qle_bool;
  fofZ := inject_Z |}.

Section Ops.
Context {F : Type} (o : Fops F).
Local Notation "x + y" := (fadd o x y).
Local Notation "x - y" := (fsub o x y).
Local Notation "x * y" := (fmul o x y).
Local Notation "x / y" := (fdiv o x y).
Local Notation "0" := (f0 o).
Local Notation "1" := (f1 o).

Definition fltb (x y : F) : bool := negb (fleb o y x).
Definition fnat (n : nat) : F := fofZ o (Z.of_nat n).

Definition vec := (F * F * F)%type.
Definition mat := (vec * vec * vec)%type.          (* three ROWS *)

Definition vzero : vec := (0, 0, 0).
Definition vadd (a b : vec) : vec := let '(a1,a2,a3) := a in let '(b1,b2,b3) := b in (a1+b1, a2+b2, a3+b3).
Definition vsub (a b : vec) : vec := let '(a1,a2,a3) := a in let '(b1,b2,b3) := b in (a1-b1, a2-b2, a3-b3).
Definition vopp (a : vec) : vec := let '(a1,a2,a3) := a in (fopp o a1, fopp o a2, fopp o a3).
Definition vscale (k : F) (a : vec) : vec := let '(a1,a2,a3) := a in (k*a1, k*a2, k*a3).
Definition vdiv (a : vec) (k : F) : vec := let '(a1,a2,a3) := a in (a1/k, a2/k, a3/k).
Definition dot (a b : vec) : F := let '(a1,a2,a3) := a in let '(b1,b2,b3) := b in a1*b1 + a2*b2 + a3*b3.
Definition cross (a b : vec) : vec :=
  let '(a1,a2,a3) := a in let '(b1,b2,b3) := b in (a2*b3 - a3*b2, a3*b1 - a1*b3, a1*b2 - a2*b1).
Definition norm2 (a : vec) : F := dot a a.
Definition dist2 (a b : vec) : F := norm2 (vsub a b).
(* scalar triple product a . (b x c): six times the signed volume of the tetrahedron 0,a,b,c *)
Definition triple (a b c : vec) : F := dot a (cross b c).
(* handedness of the ordered quadruple p0 p1 p2 p3 (a stereocentre and/or its neighbours) *)
Definition signed_volume (p0 p1 p2 p3 : vec) : F := triple (vsub p1 p0) (vsub p2 p0) (vsub p3 p0).

Definition outer (a b : vec) : mat :=
  let '(a1,a2,a3) := a in let '(b1,b2,b3) := b in
  ((a1*b1, a1*b2, a1*b3), (a2*b1, a2*b2, a2*b3), (a3*b1, a3*b2, a3*b3)).
Definition eye : mat := ((1,0,0),(0,1,0),(0,0,1)).
Definition mmap2 (f : F -> F -> F) (A B : mat) : mat :=
  let '((a11,a12,a13),(a21,a22,a23),(a31,a32,a33)) := A in
  let '((b11,b12,b13),(b21,b22,b23),(b31,b32,b33)) := B in
  ((f a11 b11, f a12 b12, f a13 b13), (f a21 b21, f a22 b22, f a23 b23), (f a31 b31, f a32 b32, f a33 b33)).
Definition mmap (f : F -> F) (A : mat) : mat :=
  let '((a11,a12,a13),(a21,a22,a23),(a31,a32,a33)) := A in
  ((f a11, f a12, f a13), (f a21, f a22, f a23), (f a31, f a32, f a33)).
Definition madd : mat -> mat -> mat := mmap2 (fadd o).
Definition msub : mat -> mat -> mat := mmap2 (fsub o).
Definition mscale (k : F) : mat -> mat := mmap (fun x => k * x).
Definition mdivs (A : mat) (k : F) : mat := mmap (fun x => x / k) A.
Definition mtrans (A : mat) : mat :=
  let '((a11,a12,a13),(a21,a22,a23),(a31,a32,a33)) := A in
  ((a11,a21,a31),(a12,a22,a32),(a13,a23,a33)).
Definition mmul (A B : mat) : mat :=
  let '((a11,a12,a13),(a21,a22,a23),(a31,a32,a33)) := A in
  let '((b11,b12,b13),(b21,b22,b23),(b31,b32,b33)) := B in
  ((a11*b11+a12*b21+a13*b31, a11*b12+a12*b22+a13*b32, a11*b13+a12*b23+a13*b33),
   (a21*b11+a22*b21+a23*b31, a21*b12+a22*b22+a23*b32, a21*b13+a22*b23+a23*b33),
   (a31*b11+a32*b21+a33*b31, a31*b12+a32*b22+a33*b32, a31*b13+a32*b23+a33*b33)).
(* row vector times matrix:  a @ A  (the convention of `coords @ R` in the implementation) *)
Definition vm (a : vec) (A : mat) : vec :=
  let '(a1,a2,a3) := a in let '((b11,b12,b13),(b21,b22,b23),(b31,b32,b33)) := A in
  (a1*b11+a2*b21+a3*b31, a1*b12+a2*b22+a3*b32, a1*b13+a2*b23+a3*b33).
(* matrix times column vector:  A @ a *)
Definition mv (A : mat) (a : vec) : vec := vm a (mtrans A).
Definition det (A : mat) : F :=
  let '((a11,a12,a13),(a21,a22,a23),(a31,a32,a33)) := A in
  a11*(a22*a33 - a23*a32) - a12*(a21*a33 - a23*a31) + a13*(a21*a32 - a22*a31).
Definition trace (A : mat) : F := let '((a11,_,_),(_,a22,_),(_,_,a33)) := A in a11 + a22 + a33.

(* lists of points (an (n,3) coordinate array, row i = atom i) *)
Definition vsum (X : list vec) : vec := fold_right vadd vzero X.
Definition centroid (X : list vec) : vec := vdiv (vsum X) (fnat (length X)).
Definition select (idx : list nat) (X : list vec) : list vec := map (fun i => nth i X vzero) idx.
End Ops.

Arguments vec F : clear implicits.
Arguments mat F : clear implicits.

(* ---- row-selective update: the frame of `parent.coords[idx] = f(parent.coords[idx])` ---- *)
Fixpoint update_from {A} (sel : nat -> bool) (f : A -> A) (i : nat) (l : list A) : list A :=
  match l with
  | [] => []
  | x :: r => (if sel i then f x else x) :: update_from sel f (S i) r
  end.
Definition update_rows {A} (sel : nat -> bool) (f : A -> A) (l : list A) : list A := update_from sel f 0 l.
Definition in_idx (idx : list nat) (i : nat) : bool := existsb (Nat.eqb i) idx.

(* ---- Q helpers for comparing an exact model value with an observed float (as exact rational) ---- *)
Definition Qclose (eps x y : Q) : bool := Qle_bool (Qabs (x - y)) eps.
Definition vcloseQ (eps : Q) (u v : vec Q) : bool :=
  let '(u1,u2,u3) := u in let '(v1,v2,v3) := v in Qclose eps u1 v1 && Qclose eps u2 v2 && Qclose eps u3 v3.
Definition mcloseQ (eps : Q) (A B : mat Q) : bool :=
  let '(a1,a2,a3) := A in let '(b1,b2,b3) := B in vcloseQ eps a1 b1 && vcloseQ eps a2 b2 && vcloseQ eps a3 b3.
Fixpoint rows_closeQ (eps : Q) (X Y : list (vec Q)) : bool :=
  match X, Y with
  | [], [] => true
  | x :: X', y :: Y' => vcloseQ eps x y && rows_closeQ eps X' Y'
  | _, _ => false
  end.
(* `n` is accepted as the square root of `sq` when it is positive and n^2 is within sq * 2^-60.
   (Square roots are irrational in general; the harness supplies a ~70-bit dyadic witness, the
   model checks it. The theorems over R are stated for the exact root.) *)
Definition sqrt_witness_ok (n sq : Q) : bool :=
  Qle_bool 0 n && negb (Qle_bool n 0) && Qle_bool (Qabs (n * n - sq)) (sq * (1 # 1152921504606846976)).
