(* A tiny command language with exceptions and try/finally: the control skeleton of a context manager.
   [exec faults c] runs c from a normal state; a call named n raises iff [faults n].  The result is the
   trace of calls attempted (with whether each raised) and whether an exception is propagating at the end. *)
From Coq Require Import List Bool String.
Import ListNotations.

Inductive cmd :=
| Call (n : string)
| Seq (c1 c2 : cmd)
| TryFin (body fin : cmd)      (* try: body  finally: fin *)
| Skip.

Definition trace := list (string * bool).      (* (call, raised?) in execution order *)

Fixpoint exec (faults : string -> bool) (c : cmd) : trace * bool :=
  match c with
  | Call n => ([(n, faults n)], faults n)
  | Skip => ([], false)
  | Seq c1 c2 =>
      let '(t1, e1) := exec faults c1 in
      if e1 then (t1, true) else let '(t2, e2) := exec faults c2 in (t1 ++ t2, e2)
  | TryFin b f =>
      let '(t1, e1) := exec faults b in
      let '(t2, e2) := exec faults f in
      (t1 ++ t2, e1 || e2)          (* the finally block always runs; an exception of either propagates *)
  end.

Fixpoint names (c : cmd) : list string :=
  match c with
  | Call n => [n]
  | Skip => []
  | Seq a b | TryFin a b => names a ++ names b
  end.

Definition mem (n : string) (l : list string) : bool := existsb (String.eqb n) l.

Fixpoint subsets (l : list string) : list (list string) :=
  match l with
  | [] => [[]]
  | x :: r => let s := subsets r in map (cons x) s ++ s
  end.

(* decide a property of (trace, exn) for every fault assignment over the names of c *)
Definition forall_faults (c : cmd) (chk : (string -> bool) -> trace * bool -> bool) : bool :=
  forallb (fun S => chk (fun n => mem n S) (exec (fun n => mem n S) c)) (subsets (names c)).

(* helpers to state session properties on traces *)
Definition called (n : string) (t : trace) : bool := existsb (fun p => String.eqb n (fst p)) t.
Definition called_ok (n : string) (t : trace) : bool := existsb (fun p => String.eqb n (fst p) && negb (snd p)) t.
Definition last_call (t : trace) : option string := match rev t with [] => None | p :: _ => Some (fst p) end.
Fixpoint before (a b : string) (t : trace) : bool :=     (* some a occurs, and every b occurs after the first a *)
  match t with
  | [] => false
  | p :: r => if String.eqb a (fst p) then true else if String.eqb b (fst p) then false else before a b r
  end.
