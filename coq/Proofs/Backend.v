(* C02, collection level: inside a writing session every listed key is readable, for every buffer size. *)
From Coq Require Import ZArith NArith List Bool Lia.
Import ListNotations.
From Molli Require Import Model.UKV Proofs.UKVBase Proofs.UKV Model.Backend.
Open Scope N_scope.

(* the state of a backend inside a writing session whose buffered puts are all going to succeed:
   fresh distinct keys, sizes within the block-header limits *)
Record BInv (H : bytes) (rs : list kv) (f : bytes) (b : backend) : Prop := {
  bi_file : f = H ++ blocks rs;
  bi_hdr : hdr_ok H;
  bi_wf : Forall wfkv rs;
  bi_full : full H rs (uk b);
  bi_open : closed (uk b) = false;
  bi_mode : md (uk b) = MA;
  bi_has : has_uk b = true;
  bi_qwf : Forall wfkv (queue b);
  bi_nodup : NoDup (map fst (rs ++ queue b));
  bi_listed : forall k, In k (bkeys b) -> In k (map fst (rs ++ queue b));
  bi_writing : st b = SWriting
}.

Lemma wfkv_wfb k v : wfkv (k, v) -> wfb k v = true.
Proof. intros [A B]. simpl in *. unfold wfb. apply andb_true_intro. split; apply N.ltb_lt; assumption. Qed.

(* flushing a queue of valid puts writes every one of them, in order, and cannot fail *)
Lemma flush_loop_valid H : forall q fuel rs f h ks u bs r s,
  (length q < fuel)%nat ->
  f = H ++ blocks rs -> full H rs h -> closed h = false -> md h = MA ->
  Forall wfkv q -> NoDup (map fst (rs ++ q)) ->
  exists h', flush_loop fuel f (mkb h true q ks u bs r s) =
             (H ++ blocks (rs ++ q), mkb h' true [] ks 0%Z bs r s, None)
             /\ full H (rs ++ q) h' /\ closed h' = false /\ md h' = MA.
Proof.
  induction q as [|[k v] q IH]; intros fuel rs f h ks u bs r s Hf Ef Hfull Hc Hm Hq Hnd.
  - destruct fuel as [|fuel]; [simpl in Hf; lia|]. simpl. exists h. rewrite app_nil_r. subst f.
    split; [reflexivity|split; [exact Hfull|split; assumption]].
  - destruct fuel as [|fuel]; [simpl in Hf; lia|]. cbn [flush_loop queue has_uk negb uk bkeys used bufsize ro st].
    inversion Hq as [|x l Hkv Hq']; subst x l.
    assert (Ha : assoc rs k = None).
    { apply assoc_none_iff. rewrite map_app in Hnd. simpl in Hnd. apply NoDup_remove_2 in Hnd.
      intros Hin. apply Hnd. apply in_or_app. left. exact Hin. }
    destruct (put_ok H rs h k v Hfull Hc Hm Ha (wfkv_wfb k v Hkv)) as [h1 [Ep [Hf1 [Hm1 Hc1]]]].
    subst f. rewrite Ep.
    destruct (IH fuel (rs ++ [(k, v)]) (H ++ blocks (rs ++ [(k, v)])) h1 ks u bs r s) as [h' [E [A [B C]]]];
      try assumption; try reflexivity; [simpl in Hf; lia| |].
    + rewrite <- app_assoc. exact Hnd.
    + exists h'. cbn [bkeys used bufsize ro st]. rewrite E. rewrite <- !app_assoc in *. simpl in *.
      split; [reflexivity|split; [exact A|split; [exact B|exact C]]].
Qed.

Lemma flush_valid H rs f b : BInv H rs f b ->
  exists b', flush f b = (H ++ blocks (rs ++ queue b), b', None) /\ queue b' = [] /\ bkeys b' = bkeys b /\
             BInv H (rs ++ queue b) (H ++ blocks (rs ++ queue b)) b'.
Proof.
  intros I. destruct b as [h hu q ks u bs r s]. destruct I as [Ef Hh Hwf Hfull Hc Hm Hhas Hq Hnd Hl Hw]. simpl in *. subst hu.
  destruct (flush_loop_valid H q (S (length q)) rs f h ks u bs r s (Nat.lt_succ_diag_r _) Ef Hfull Hc Hm Hq Hnd) as [h' [E [A [B C]]]].
  unfold flush. cbn [queue]. rewrite E. eexists. split; [reflexivity|]. split; [reflexivity|]. split; [reflexivity|].
  constructor; simpl; try assumption; try reflexivity.
  - apply Forall_app. split; assumption.
  - constructor.
  - rewrite app_nil_r. exact Hnd.
  - rewrite app_nil_r. exact Hl.
Qed.

Lemma assoc_in_keys rs k : In k (map fst rs) -> exists v, assoc rs k = Some v.
Proof.
  intros Hin. destruct (assoc rs k) as [v|] eqn:E; [exists v; reflexivity|].
  apply assoc_none_iff in E. contradiction.
Qed.

(* Inside a writing session every key the collection lists is readable -- whatever the buffer size, i.e.
   whether or not the put has reached the file yet -- and the value is the one that was put. *)
Theorem listed_readable H rs f b k :
  BInv H rs f b -> In k (bkeys b) ->
  exists v f' b', b_get f b k = (f', b', BVal v) /\ assoc (rs ++ queue b) k = Some v.
Proof.
  intros I Hk. pose proof (bi_listed _ _ _ _ I k Hk) as Hin.
  destruct (assoc_in_keys _ _ Hin) as [v Hv]. exists v.
  unfold b_get, writing. rewrite (bi_writing _ _ _ _ I). cbn [andb].
  destruct (existsb (fun p => beq k (fst p)) (queue b)) eqn:Eq.
  - destruct (flush_valid H rs f b I) as [b' [E [Eq' [Ek I']]]]. rewrite E.
    rewrite (bi_has _ _ _ _ I'). simpl.
    pose proof (get_spec H (rs ++ queue b) [] (uk b') k (bi_full _ _ _ _ I') (bi_open _ _ _ _ I')) as G.
    rewrite app_nil_r in G. rewrite G, Hv. eexists. eexists. split; [reflexivity|first [exact Hv|reflexivity]].
  - rewrite (bi_has _ _ _ _ I). simpl.
    assert (Hrs : assoc rs k = Some v).
    { assert (Hq : ~ In k (map fst (queue b))).
      { intros Hc. apply in_map_iff in Hc. destruct Hc as [p [Ep Hp]].
        assert (existsb (fun p => beq k (fst p)) (queue b) = true).
        { apply existsb_exists. exists p. split; [exact Hp|]. rewrite Ep. apply beq_refl. }
        congruence. }
      clear - Hv Hq. induction rs as [|p rs IH]; simpl in *.
      - exfalso. apply Hq. apply assoc_some_in in Hv. apply (in_map fst) in Hv. exact Hv.
      - destruct (beq k (fst p)); [exact Hv|apply IH; exact Hv]. }
    pose proof (get_spec H rs [] (uk b) k (bi_full _ _ _ _ I) (bi_open _ _ _ _ I)) as G.
    rewrite app_nil_r in G. rewrite <- (bi_file _ _ _ _ I) in G. rewrite G, Hrs.
    eexists. eexists. split; [reflexivity|first [exact Hv|reflexivity]].
Qed.

(* a put of a fresh, well-sized key keeps the session state valid and lists the key, for EVERY buffer size *)
Theorem put_keeps_valid H rs f b k v :
  BInv H rs f b -> ro b = false -> ~ In k (map fst (rs ++ queue b)) -> wfkv (k, v) ->
  exists rs' f' b', b_put f b k v = (f', b', BOk) /\ BInv H rs' f' b' /\ In k (bkeys b') /\
                    assoc (rs' ++ queue b') k = Some v.
Proof.
  intros I Hro Hfresh Hkv. unfold b_put. rewrite Hro.
  set (b1 := mkb (uk b) (has_uk b) (queue b ++ [(k, v)]) (set_add (bkeys b) k)
                 (used b + Z.of_N (len k) + Z.of_N (len v))%Z (bufsize b) false (st b)).
  assert (I1 : BInv H rs f b1).
  { destruct I as [Ef Hh Hwf Hfull Hc Hm Hhas Hq Hnd Hl Hw]. constructor; simpl; try assumption.
    - apply Forall_app. split; [exact Hq|constructor; [exact Hkv|constructor]].
    - rewrite app_assoc, map_app. simpl. apply NoDup_snoc; assumption.
    - intros k0 Hk0. unfold set_add in Hk0. rewrite app_assoc, map_app. simpl. apply in_or_app.
      destruct (existsb (beq k0) (bkeys b)) eqn:E0.
      + destruct (existsb (beq k) (bkeys b)); [left; apply Hl; exact Hk0|].
        apply in_app_or in Hk0. destruct Hk0 as [Hk0|[<-|[]]]; [left; apply Hl; exact Hk0|right; left; reflexivity].
      + destruct (existsb (beq k) (bkeys b)); [left; apply Hl; exact Hk0|].
        apply in_app_or in Hk0. destruct Hk0 as [Hk0|[<-|[]]]; [left; apply Hl; exact Hk0|right; left; reflexivity]. }
  assert (Hk1 : In k (bkeys b1)).
  { simpl. unfold set_add. destruct (existsb (beq k) (bkeys b)) eqn:E.
    - apply existsb_exists in E. destruct E as [x [Hx Ex]]. apply beq_eq in Ex. subst x. exact Hx.
    - apply in_or_app. right. left. reflexivity. }
  assert (Hv1 : assoc (rs ++ queue b1) k = Some v).
  { apply assoc_in; [exact (bi_nodup _ _ _ _ I1)|]. simpl. apply in_or_app. right. apply in_or_app. right. left. reflexivity. }
  fold b1. destruct (bufsize b1 <? used b1)%Z.
  - destruct (flush_valid H rs f b1 I1) as [b2 [E [Eq [Ek I2]]]]. rewrite E.
    exists (rs ++ queue b1), (H ++ blocks (rs ++ queue b1)), b2. split; [reflexivity|].
    split; [exact I2|]. split; [rewrite Ek; exact Hk1|]. rewrite Eq, app_nil_r. exact Hv1.
  - exists rs, f, b1. split; [reflexivity|]. split; [exact I1|]. split; [exact Hk1|exact Hv1].
Qed.

(* ---------- a flush that fails: exactly the puts before the doomed one reach the file ---------- *)
Lemma put_doomed H rs h k v :
  full H rs h -> closed h = false -> md h = MA ->
  (assoc rs k <> None \/ wfb k v = false) ->
  exists e, put (H ++ blocks rs) h k v = (H ++ blocks rs, h, RErr e).
Proof.
  intros [Ht He] Hc Hm Hd. unfold put. rewrite Hc, Hm. simpl.
  destruct (assoc rs k) as [v0|] eqn:Ea.
  - assert (Hl : exists r0, lookup (toc h) k = Some r0).
    { rewrite Ht. pose proof (lookup_index_assoc rs (len H) k) as L. rewrite Ea in L.
      destruct (lookup (index_from (len H) rs) k) as [r0|]; [exists r0; reflexivity|contradiction]. }
    destruct Hl as [r0 Hl]. rewrite Hl. exists EKey. reflexivity.
  - destruct Hd as [Hd|Hd]; [congruence|].
    assert (Hl : lookup (toc h) k = None).
    { rewrite Ht. pose proof (lookup_index_assoc rs (len H) k) as L. rewrite Ea in L.
      destruct (lookup (index_from (len H) rs) k); [contradiction|reflexivity]. }
    rewrite Hl. unfold enc_block. fold (wfb k v). rewrite Hd. exists EStruct. reflexivity.
Qed.

(* queue = good ++ (k,v) :: rest with every put of [good] valid and (k,v) doomed (its key is already stored or
   buffered before it, or a size is out of range): flush writes exactly [good], drops (k,v), keeps [rest]
   buffered, reports the error, and the listing becomes stored keys + still-buffered keys. *)
Theorem flush_fails_atomically H : forall good fuel rs f h ks u bs r s k v rest,
  (length good + S (length rest) < fuel)%nat ->
  f = H ++ blocks rs -> full H rs h -> closed h = false -> md h = MA ->
  Forall wfkv good -> NoDup (map fst (rs ++ good)) ->
  (assoc (rs ++ good) k <> None \/ wfb k v = false) ->
  exists h' e,
    flush_loop fuel f (mkb h true (good ++ (k, v) :: rest) ks u bs r s) =
      (H ++ blocks (rs ++ good),
       mkb h' true rest (set_union (keys h') (map fst rest)) u bs r s, Some e)
    /\ full H (rs ++ good) h' /\ closed h' = false /\ md h' = MA.
Proof.
  induction good as [|[k0 v0] good IH]; intros fuel rs f h ks u bs r s k v rest Hf Ef Hfull Hc Hm Hq Hnd Hd.
  - destruct fuel as [|fuel]; [simpl in Hf; lia|]. rewrite app_nil_r in *. simpl app.
    cbn [flush_loop queue has_uk negb uk bkeys used bufsize ro st]. subst f.
    destruct (put_doomed H rs h k v Hfull Hc Hm Hd) as [e Ep]. rewrite Ep.
    exists h, (berr_of e). split; [reflexivity|split; [exact Hfull|split; assumption]].
  - destruct fuel as [|fuel]; [simpl in Hf; lia|]. simpl app.
    cbn [flush_loop queue has_uk negb uk bkeys used bufsize ro st].
    inversion Hq as [|x l Hkv Hq']; subst x l.
    assert (Ha : assoc rs k0 = None).
    { apply assoc_none_iff. rewrite map_app in Hnd. simpl in Hnd. apply NoDup_remove_2 in Hnd.
      intros Hin. apply Hnd. apply in_or_app. left. exact Hin. }
    destruct (put_ok H rs h k0 v0 Hfull Hc Hm Ha (wfkv_wfb k0 v0 Hkv)) as [h1 [Ep [Hf1 [Hm1 Hc1]]]].
    subst f. rewrite Ep.
    destruct (IH fuel (rs ++ [(k0, v0)]) (H ++ blocks (rs ++ [(k0, v0)])) h1 ks u bs r s k v rest) as [h' [e [E [A [B C]]]]];
      try assumption; try reflexivity.
    + simpl in Hf. lia.
    + rewrite <- app_assoc. exact Hnd.
    + rewrite <- app_assoc. exact Hd.
    + exists h', e. rewrite E. rewrite <- !app_assoc in *. simpl in *.
      split; [reflexivity|split; [exact A|split; [exact B|exact C]]].
Qed.

(* ---------- derived views of a collection: items / values / contains / len ---------- *)
(* a get of a listed key inside a writing session: besides serving the value that was put it keeps the session state
   valid, moves buffered puts to the file in order at most (stored ++ buffered is unchanged as a list), and leaves
   the listing alone *)
Lemma b_get_inv H rs f b k :
  BInv H rs f b -> In k (bkeys b) ->
  exists v rs' f' b', b_get f b k = (f', b', BVal v) /\ assoc (rs ++ queue b) k = Some v /\
                      BInv H rs' f' b' /\ rs' ++ queue b' = rs ++ queue b /\ bkeys b' = bkeys b.
Proof.
  intros I Hk. destruct (listed_readable H rs f b k I Hk) as [v [f' [b' [E Hv]]]].
  exists v. unfold b_get, writing in *. rewrite (bi_writing _ _ _ _ I) in *. cbn [andb] in *.
  destruct (existsb (fun p => beq k (fst p)) (queue b)) eqn:Eq.
  - destruct (flush_valid H rs f b I) as [b2 [E2 [Eq2 [Ek2 I2]]]]. rewrite E2 in *.
    rewrite (bi_has _ _ _ _ I2) in *. simpl in *.
    exists (rs ++ queue b), (H ++ blocks (rs ++ queue b)), b2.
    destruct (get (H ++ blocks (rs ++ queue b)) (uk b2) k) as [| v0 | | |]; try discriminate.
    inversion E; subst. split; [reflexivity|]. split; [exact Hv|]. split; [exact I2|].
    split; [rewrite Eq2, app_nil_r; reflexivity|exact Ek2].
  - rewrite (bi_has _ _ _ _ I) in *. simpl in *. exists rs, f, b.
    destruct (get f (uk b) k) as [| v0 | | |]; try discriminate.
    inversion E; subst. split; [reflexivity|]. split; [exact Hv|]. split; [exact I|]. split; reflexivity.
Qed.

Lemma b_items_loop_spec H : forall ks rs f b acc,
  BInv H rs f b -> (forall k, In k ks -> In k (bkeys b)) ->
  exists l rs' f' b', b_items_loop ks f b acc = (f', b', BItems (rev acc ++ l)) /\
                      map fst l = ks /\ (forall k v, In (k, v) l -> assoc (rs ++ queue b) k = Some v) /\
                      BInv H rs' f' b' /\ rs' ++ queue b' = rs ++ queue b /\ bkeys b' = bkeys b.
Proof.
  induction ks as [|k ks IH]; intros rs f b acc I Hin.
  - exists [], rs, f, b. simpl. rewrite app_nil_r. split; [reflexivity|]. split; [reflexivity|].
    split; [intros k v []|]. split; [exact I|]. split; reflexivity.
  - destruct (b_get_inv H rs f b k I (Hin k (or_introl eq_refl))) as [v [rs1 [f1 [b1 [E [Hv [I1 [Eq Ek]]]]]]]].
    cbn [b_items_loop]. rewrite E.
    destruct (IH rs1 f1 b1 ((k, v) :: acc) I1) as [l [rs2 [f2 [b2 [E2 [Hl [Hv2 [I2 [Eq2 Ek2]]]]]]]]].
    { intros k0 Hk0. rewrite Ek. apply Hin. right. exact Hk0. }
    exists ((k, v) :: l), rs2, f2, b2. rewrite E2. simpl. rewrite <- app_assoc. simpl.
    split; [reflexivity|]. split; [rewrite Hl; reflexivity|].
    split; [|split; [exact I2|split; [congruence|congruence]]].
    intros k0 v0 [Hx|Hx]; [inversion Hx; subst; exact Hv|]. rewrite <- Eq. apply Hv2. exact Hx.
Qed.

(* items() inside a writing session, for every buffer size: one pair per listed key, each with the bytes that were put
   (stored or still buffered), no failure, the session state stays valid and the listing is unchanged *)
Theorem items_exact H rs f b :
  BInv H rs f b ->
  exists l rs' f' b', b_items f b = (f', b', BItems l) /\ map fst l = bkeys b /\
                      (forall k v, In (k, v) l -> assoc (rs ++ queue b) k = Some v) /\
                      BInv H rs' f' b' /\ rs' ++ queue b' = rs ++ queue b /\ bkeys b' = bkeys b.
Proof.
  intros I. unfold b_items.
  destruct (b_items_loop_spec H (bkeys b) rs f b [] I (fun k Hk => Hk)) as [l [rs' [f' [b' [E R]]]]].
  exists l, rs', f', b'. split; [exact E|exact R].
Qed.

Theorem values_exact H rs f b :
  BInv H rs f b ->
  exists l f' b', b_items f b = (f', b', BItems l) /\ b_values f b = (f', b', BVals (map snd l)).
Proof.
  intros I. destruct (items_exact H rs f b I) as [l [rs' [f' [b' [E _]]]]]. exists l, f', b'.
  split; [exact E|]. unfold b_values. rewrite E. reflexivity.
Qed.

(* when the listing is the whole key set (as after update_keys and any number of accepted puts), items() is the whole
   abstract map: every stored or buffered binding appears *)
Theorem items_complete H rs f b :
  BInv H rs f b -> (forall k, In k (map fst (rs ++ queue b)) -> In k (bkeys b)) ->
  exists l f' b', b_items f b = (f', b', BItems l) /\
                  forall k v, assoc (rs ++ queue b) k = Some v -> In (k, v) l.
Proof.
  intros I Hall. destruct (items_exact H rs f b I) as [l [rs' [f' [b' [E [Hk [Hv _]]]]]]].
  exists l, f', b'. split; [exact E|]. intros k v Ha.
  assert (Hin : In k (map fst l)).
  { rewrite Hk. apply Hall. apply assoc_some_in in Ha. apply (in_map fst) in Ha. exact Ha. }
  apply in_map_iff in Hin. destruct Hin as [[k0 v0] [Ek Hp]]. simpl in Ek. subst k0.
  pose proof (Hv k v0 Hp) as Hv0. rewrite Ha in Hv0. inversion Hv0; subst. exact Hp.
Qed.

(* membership and length answer from the listing *)
Theorem contains_listed (bs : list backend) f i k :
  snd (bstep (f, bs) (CContains i k)) = BBool true <-> In k (bkeys (nth i bs b0)).
Proof.
  simpl. split.
  - intros E. inversion E as [E']. apply existsb_exists in E'. destruct E' as [x [Hx Ex]].
    apply beq_eq in Ex. subst x. exact Hx.
  - intros Hin. f_equal. apply existsb_exists. exists k. split; [exact Hin|apply beq_refl].
Qed.
