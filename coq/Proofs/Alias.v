(* C06 -- proofs about the heap model of Model/Alias.v:
   locality of observation, reachability, the frame rule for every mutation and every
   interleaved history, and soundness of `copy_row` (independence and faithfulness for every
   heap and every row that meets the specification). *)
From Coq Require Import List ZArith Bool Arith Lia.
Import ListNotations.
From Molli Require Import Model.Alias.

(* ------------------------------------------------------------------ lists and the heap *)
Lemma get_app_old : forall h x l, l < length h -> get (h ++ x) l = get h l.
Proof. intros h x l Hl. unfold get. now rewrite app_nth1. Qed.

Lemma get_app_new : forall h x k, get (h ++ x) (length h + k) = nth k x CFree.
Proof. intros h x k. unfold get. now rewrite app_nth2_plus. Qed.

Lemma get_app_last : forall h c, get (h ++ [c]) (length h) = c.
Proof. intros h c. unfold get. rewrite app_nth2 by lia. now rewrite Nat.sub_diag. Qed.

Lemma get_oob : forall h l, length h <= l -> get h l = CFree.
Proof. intros h l Hl. unfold get. now rewrite nth_overflow. Qed.

Lemma length_upd : forall h l c, length (upd l c h) = length h.
Proof. induction h as [|x r IH]; intros [|l] c; simpl; auto. Qed.

Lemma get_upd_other : forall h l l' c, l <> l' -> get (upd l c h) l' = get h l'.
Proof.
  unfold get. induction h as [|x r IH]; intros [|l] [|l'] c Hne; simpl; auto; try congruence.
Qed.

Lemma get_upd_same : forall h l c, l < length h -> get (upd l c h) l = c.
Proof.
  unfold get. induction h as [|x r IH]; intros [|l] c Hl; simpl in *; try lia; auto.
  apply IH. lia.
Qed.

Lemma mem_In : forall l s, mem l s = true <-> In l s.
Proof.
  intros l s. unfold mem. rewrite existsb_exists. split.
  - intros [x [Hx He]]. apply Nat.eqb_eq in He. now subst.
  - intros H. exists l. split; auto. apply Nat.eqb_refl.
Qed.

Lemma length_mapi : forall A B (f : nat -> A -> B) l i, length (mapi_from f i l) = length l.
Proof. induction l as [|x r IH]; intros i; simpl; auto. Qed.

Lemma nth_mapi : forall A B (f : nat -> A -> B) l i j d d',
  j < length l -> nth j (mapi_from f i l) d = f (i + j) (nth j l d').
Proof.
  induction l as [|x r IH]; intros i j d d' Hj; simpl in *; [lia|].
  destruct j as [|j]; [now rewrite Nat.add_0_r|].
  rewrite IH with (d' := d') by lia. f_equal. lia.
Qed.

Lemma In_mapi : forall A B (f : nat -> A -> B) l i y,
  In y (mapi_from f i l) -> exists j x, j < length l /\ nth_error l j = Some x /\ y = f (i + j) x.
Proof.
  induction l as [|x r IH]; intros i y H; simpl in *; [destruct H|].
  destruct H as [<-|H].
  - exists 0, x. repeat split; [lia| now rewrite Nat.add_0_r].
  - destruct (IH _ _ H) as [j [x' [Hj [Hn Hy]]]]. exists (S j), x'. repeat split; [lia|exact Hn|].
    rewrite Hy. f_equal. lia.
Qed.

Lemma map_mapi : forall A B C (g : B -> C) (g' : A -> C) (f : nat -> A -> B) l i,
  (forall j x, nth_error l j = Some x -> g (f (i + j) x) = g' x) ->
  map g (mapi_from f i l) = map g' l.
Proof.
  induction l as [|x r IH]; intros i H; simpl; auto. f_equal.
  - specialize (H 0 x eq_refl). now rewrite Nat.add_0_r in H.
  - apply IH. intros j y Hy. specialize (H (S j) y Hy). now replace (S i + j) with (i + S j) by lia.
Qed.

Lemma index_of_lt : forall a l i, index_of a l = Some i -> i < length l.
Proof.
  induction l as [|x r IH]; intros i H; simpl in *; [discriminate|].
  destruct (Nat.eqb x a); [inversion H; lia|].
  destruct (index_of a r) as [k|]; simpl in H; [|discriminate]. inversion H. specialize (IH k eq_refl). lia.
Qed.

Lemma index_of_offset : forall A (l : list A) b s i,
  i < length l -> index_of (b + (s + i)) (mapi_from (fun j _ => b + j) s l) = Some i.
Proof.
  induction l as [|x r IH]; intros b s i Hi; simpl in *; [lia|].
  destruct i as [|i].
  - rewrite Nat.add_0_r, Nat.eqb_refl. reflexivity.
  - destruct (Nat.eqb (b + s) (b + (s + S i))) eqn:E; [apply Nat.eqb_eq in E; lia|].
    replace (s + S i) with (S s + i) by lia. rewrite IH by lia. reflexivity.
Qed.

(* ------------------------------------------------------------------ closed regions, locality of observation *)
Definition closed (h : heap) (S : loc -> Prop) : Prop :=
  forall l, S l -> l < length h /\ forall p, In p (ptrs (get h l)) -> S p.
Definition agree (S : loc -> Prop) (h1 h2 : heap) : Prop := forall l, S l -> get h2 l = get h1 l.

Lemma agree_trans : forall S h1 h2 h3, agree S h1 h2 -> agree S h2 h3 -> agree S h1 h3.
Proof. intros S h1 h2 h3 H12 H23 l Hl. rewrite H23, H12; auto. Qed.

Lemma dict_of_agree : forall h1 h2 l, get h2 l = get h1 l -> dict_of h2 l = dict_of h1 l.
Proof. intros. unfold dict_of. now rewrite H. Qed.
Lemma arr_of_agree : forall h1 h2 l, get h2 l = get h1 l -> arr_of h2 l = arr_of h1 l.
Proof. intros. unfold arr_of. now rewrite H. Qed.
Lemma items_of_agree : forall h1 h2 l, get h2 l = get h1 l -> items_of h2 l = items_of h1 l.
Proof. intros. unfold items_of. now rewrite H. Qed.

Lemma in_olist : forall A (x : A) o, o = Some x -> In x (olist o).
Proof. intros A x o ->. simpl. auto. Qed.

Theorem obs_local : forall h1 h2 S o, closed h1 S -> S o -> agree S h1 h2 -> obs h2 o = obs h1 o.
Proof.
  intros h1 h2 S o Hc Ho Ha. unfold obs. rewrite (Ha o Ho).
  destruct (get h1 o) as [| | | | | |cls sc al bl co ch we at_|] eqn:Eo; auto.
  destruct (Hc o Ho) as [_ Hp]. rewrite Eo in Hp. simpl in Hp.
  assert (Sal : S al) by (apply Hp; left; auto).
  assert (Sat : S at_) by (apply Hp; right; left; auto).
  assert (Hrest : forall p, In p (olist bl ++ olist co ++ olist ch ++ olist we) -> S p)
    by (intros p Hin; apply Hp; right; right; exact Hin).
  assert (Hitems : items_of h2 al = items_of h1 al) by (apply items_of_agree; auto).
  assert (Hatoms : forall a, In a (items_of h1 al) -> S a).
  { intros a Hin. destruct (Hc al Sal) as [_ Hq]. apply Hq. unfold items_of in Hin.
    destruct (get h1 al); simpl in *; try contradiction. exact Hin. }
  f_equal. rewrite Hitems.
  assert (Hao : map (atom_obs h2 o) (items_of h1 al) = map (atom_obs h1 o) (items_of h1 al)).
  { apply map_ext_in. intros a Hin. unfold atom_obs. rewrite (Ha a (Hatoms a Hin)).
    destruct (get h1 a) eqn:Ea; auto.
    destruct (Hc a (Hatoms a Hin)) as [_ Hq]. rewrite Ea in Hq.
    rewrite (dict_of_agree h1 h2 att); auto. apply Ha. apply Hq. simpl. auto. }
  assert (Hbo : option_map (fun l => map (bond_obs h2 o (items_of h1 al)) (items_of h2 l)) bl
              = option_map (fun l => map (bond_obs h1 o (items_of h1 al)) (items_of h1 l)) bl).
  { destruct bl as [l|]; simpl; auto. f_equal.
    assert (Sl : S l) by (apply Hrest; simpl; auto).
    rewrite (items_of_agree h1 h2 l) by (apply Ha; auto).
    apply map_ext_in. intros b Hin.
    assert (Sb : S b).
    { destruct (Hc l Sl) as [_ Hq]. apply Hq. unfold items_of in Hin.
      destruct (get h1 l); simpl in *; try contradiction. exact Hin. }
    unfold bond_obs. rewrite (Ha b Sb). destruct (get h1 b) eqn:Eb; auto.
    destruct (Hc b Sb) as [_ Hq]. rewrite Eb in Hq.
    rewrite (dict_of_agree h1 h2 att); auto. apply Ha. apply Hq. simpl. auto. }
  rewrite Hao, Hbo.
  assert (Hoarr : forall ol, (forall p, In p (olist ol) -> S p) -> oarr h2 ol = oarr h1 ol).
  { intros [l|] Hs; simpl; auto. apply arr_of_agree. apply Ha. apply Hs. simpl. auto. }
  rewrite (Hoarr co), (Hoarr ch), (Hoarr we), (dict_of_agree h1 h2 at_); auto.
  - intros p Hin. apply Hrest. rewrite !in_app_iff. auto.
  - intros p Hin. apply Hrest. rewrite !in_app_iff. auto.
  - intros p Hin. apply Hrest. rewrite !in_app_iff. auto.
Qed.

(* ------------------------------------------------------------------ reachability *)
Lemma reachN_head : forall n h l, In l (reachN n h l).
Proof. intros [|n] h l; simpl; auto. Qed.

Lemma reachN_sub_closed : forall h S, closed h S -> forall n l, S l -> forall x, In x (reachN n h l) -> S x.
Proof.
  intros h S Hc. induction n as [|n IH]; intros l Hl x Hx; simpl in Hx.
  - destruct Hx as [<-|[]]. exact Hl.
  - destruct Hx as [<-|Hx]; [exact Hl|].
    apply in_flat_map in Hx. destruct Hx as [p [Hp Hx]].
    apply (IH p); auto. destruct (Hc l Hl) as [_ Hq]. auto.
Qed.

Lemma reach_sub_closed : forall h S o, closed h S -> S o -> forall x, In x (reach h o) -> S x.
Proof. intros h S o Hc Ho x Hx. eapply reachN_sub_closed; eauto. Qed.

(* typing by rank: every strong pointer is in bounds and goes to a cell of smaller rank *)
Definition ranked (h : heap) : Prop :=
  forall l, l < length h -> forall p, In p (ptrs (get h l)) -> p < length h /\ rank (get h p) < rank (get h l).

Lemma rankedb_sound : forall h, rankedb h = true -> ranked h.
Proof.
  intros h H l Hl p Hp. unfold rankedb in H. rewrite forallb_forall in H.
  assert (Hin : In (get h l) h) by (apply nth_In; exact Hl).
  specialize (H _ Hin). rewrite forallb_forall in H. specialize (H _ Hp).
  apply andb_true_iff in H. destruct H as [H1 H2].
  apply Nat.ltb_lt in H1. apply Nat.ltb_lt in H2. auto.
Qed.

Lemma reachN_closed : forall h, ranked h -> forall n l, l < length h -> rank (get h l) <= n ->
  closed h (fun x => In x (reachN n h l)).
Proof.
  intros h Hr. induction n as [|n IH]; intros l Hl Hk x Hx.
  - simpl in Hx. destruct Hx as [<-|[]]. split; auto. intros p Hp.
    destruct (Hr l Hl p Hp) as [_ Hlt]. lia.
  - simpl in Hx. destruct Hx as [<-|Hx].
    + split; auto. intros p Hp. simpl. right. apply in_flat_map. exists p. split; auto. apply reachN_head.
    + apply in_flat_map in Hx. destruct Hx as [q [Hq Hx]].
      destruct (Hr l Hl q Hq) as [Hql Hqr].
      destruct (IH q Hql ltac:(lia) x Hx) as [Hxl Hxp]. split; auto.
      intros p Hp. simpl. right. apply in_flat_map. exists q. split; auto.
Qed.

Lemma reach_closed : forall h o, ranked h -> o < length h -> closed h (fun x => In x (reach h o)).
Proof.
  intros h o Hr Ho. apply reachN_closed; auto.
  destruct (get h o); simpl; lia.
Qed.

(* ------------------------------------------------------------------ the frame rule *)
(* One mutation (any list of primitive writes / allocations confined to a region of the mutator's
   side A) preserves: both sides closed, disjoint, and every cell of side B. *)
Lemma step_inv : forall ps region h (SA SB : loc -> Prop),
  closed h SA -> closed h SB -> (forall l, SA l -> ~ SB l) -> (forall l, In l region -> SA l) ->
  prims_okb region h ps = true ->
  exists SA' : loc -> Prop,
    closed (apply_prims h ps) SA' /\ closed (apply_prims h ps) SB /\ (forall l, SA' l -> ~ SB l)
    /\ (forall l, SA l -> SA' l) /\ agree SB h (apply_prims h ps).
Proof.
  induction ps as [|p ps IH]; intros region h SA SB HA HB Hd Hreg Hok.
  - exists SA. simpl. split; [exact HA|]. split; [exact HB|]. split; [exact Hd|]. split; [auto|]. intros l _. reflexivity.
  - destruct p as [l c|c]; simpl in Hok.
    + apply andb_true_iff in Hok. destruct Hok as [Hok Hrest]. apply andb_true_iff in Hok. destruct Hok as [Hl Hc].
      apply mem_In in Hl. rewrite forallb_forall in Hc.
      assert (HSAl : SA l) by auto.
      assert (HA1 : closed (upd l c h) SA).
      { intros x Hx. rewrite length_upd. destruct (HA x Hx) as [Hxl Hxp]. split; auto.
        destruct (Nat.eq_dec l x) as [->|Hne].
        - rewrite get_upd_same by auto. intros q Hq. apply Hreg. apply mem_In. apply Hc. exact Hq.
        - rewrite get_upd_other by auto. exact Hxp. }
      assert (Hag : agree SB h (upd l c h)).
      { intros x Hx. apply get_upd_other. intros ->. exact (Hd _ HSAl Hx). }
      assert (HB1 : closed (upd l c h) SB).
      { intros x Hx. rewrite length_upd, (Hag x Hx). apply HB. exact Hx. }
      destruct (IH region (upd l c h) SA SB HA1 HB1 Hd Hreg Hrest) as [SA' [H1 [H2 [H3 [H4 H5]]]]].
      exists SA'. simpl. split; [exact H1|]. split; [exact H2|]. split; [exact H3|]. split; [exact H4|].
      eapply agree_trans; eauto.
    + apply andb_true_iff in Hok. destruct Hok as [Hc Hrest]. rewrite forallb_forall in Hc.
      set (SA1 := fun x => SA x \/ x = length h).
      assert (HA1 : closed (h ++ [c]) SA1).
      { intros x [Hx| ->]; rewrite app_length; simpl.
        - destruct (HA x Hx) as [Hxl Hxp]. split; [lia|]. rewrite get_app_old by auto.
          intros q Hq. left. auto.
        - split; [lia|]. rewrite get_app_last.
          intros q Hq. specialize (Hc q Hq). apply orb_true_iff in Hc. destruct Hc as [Hc|Hc].
          + left. apply Hreg. apply mem_In. exact Hc.
          + right. apply Nat.eqb_eq in Hc. exact Hc. }
      assert (Hag : agree SB h (h ++ [c])).
      { intros x Hx. apply get_app_old. apply HB. exact Hx. }
      assert (HB1 : closed (h ++ [c]) SB).
      { intros x Hx. rewrite app_length, (Hag x Hx). destruct (HB x Hx) as [Hxl Hxp]. split; [simpl; lia|auto]. }
      assert (Hd1 : forall x, SA1 x -> ~ SB x).
      { intros x [Hx| ->]; auto. intros Hb. destruct (HB _ Hb). lia. }
      assert (Hreg1 : forall x, In x (length h :: region) -> SA1 x).
      { intros x [<-|Hx]; [right; auto|left; auto]. }
      destruct (IH (length h :: region) (h ++ [c]) SA1 SB HA1 HB1 Hd1 Hreg1 Hrest) as [SA' [H1 [H2 [H3 [H4 H5]]]]].
      exists SA'. simpl. split; [exact H1|]. split; [exact H2|]. split; [exact H3|]. split.
      * intros x Hx. apply H4. left. exact Hx.
      * eapply agree_trans; eauto.
Qed.

(* every mutation confined to what one object reaches leaves the observation of an object with a
   disjoint closed region unchanged *)
Theorem frame_rule : forall h (SA SB : loc -> Prop) a b ps,
  closed h SA -> closed h SB -> (forall l, SA l -> ~ SB l) -> SA a -> SB b ->
  prims_okb (reach h a) h ps = true ->
  obs (apply_prims h ps) b = obs h b.
Proof.
  intros h SA SB a b ps HA HB Hd Ha Hb Hok.
  destruct (step_inv ps (reach h a) h SA SB HA HB Hd) as [SA' [_ [_ [_ [_ Hag]]]]]; auto.
  - intros l Hl. eapply reach_sub_closed; eauto.
  - eapply obs_local; eauto.
Qed.

(* the design's formulation: disjoint reach sets (of a rank-typed heap) imply the frame rule *)
Theorem disjoint_reach_frame : forall h a b ps,
  ranked h -> a < length h -> b < length h ->
  (forall l, In l (reach h a) -> ~ In l (reach h b)) ->
  prims_okb (reach h a) h ps = true ->
  obs (apply_prims h ps) b = obs h b.
Proof.
  intros h a b ps Hr Ha Hb Hd Hok.
  apply (frame_rule h (fun x => In x (reach h a)) (fun x => In x (reach h b)) a b ps); auto.
  - apply reach_closed; auto.
  - apply reach_closed; auto.
  - apply reachN_head.
  - apply reachN_head.
Qed.

(* interleaved histories: each step is a mutation through one of the two objects *)
Inductive side := SideA | SideB.
Definition pick {A} (s : side) (a b : A) : A := match s with SideA => a | SideB => b end.
Definition other_side (s : side) : side := match s with SideA => SideB | SideB => SideA end.

Fixpoint run_hist (h : heap) (hist : list (side * list prim)) : heap :=
  match hist with [] => h | (_, ps) :: r => run_hist (apply_prims h ps) r end.

Fixpoint hist_okb (h : heap) (a b : loc) (hist : list (side * list prim)) : bool :=
  match hist with
  | [] => true
  | (s, ps) :: r => prims_okb (reach h (pick s a b)) h ps && hist_okb (apply_prims h ps) a b r
  end.

Definition separated (h : heap) (a b : loc) : Prop :=
  exists SA SB : loc -> Prop, closed h SA /\ closed h SB /\ (forall l, SA l -> ~ SB l) /\ SA a /\ SB b.

Lemma separated_step : forall h a b s ps,
  separated h a b -> prims_okb (reach h (pick s a b)) h ps = true ->
  separated (apply_prims h ps) a b /\ obs (apply_prims h ps) (pick (other_side s) a b) = obs h (pick (other_side s) a b).
Proof.
  intros h a b s ps [SA [SB [HA [HB [Hd [Ha Hb]]]]]] Hok. destruct s; simpl in *.
  - destruct (step_inv ps (reach h a) h SA SB HA HB Hd) as [SA' [H1 [H2 [H3 [H4 H5]]]]]; auto.
    { intros l Hl. eapply reach_sub_closed; eauto. }
    split; [exists SA', SB; split; [exact H1|]; split; [exact H2|]; split; [exact H3|]; split; auto
           | exact (obs_local h (apply_prims h ps) SB b HB Hb H5)].
  - assert (Hd' : forall l, SB l -> ~ SA l) by (intros l H1 H2; exact (Hd l H2 H1)).
    destruct (step_inv ps (reach h b) h SB SA HB HA Hd') as [SB' [H1 [H2 [H3 [H4 H5]]]]]; auto.
    { intros l Hl. eapply reach_sub_closed; eauto. }
    split; [exists SA, SB'; split; [exact H2|]; split; [exact H1|]; split;
            [intros l Hl1 Hl2; exact (H3 l Hl2 Hl1)|]; split; auto
           | exact (obs_local h (apply_prims h ps) SA a HA Ha H5)].
Qed.

Theorem history_frame : forall hist h a b,
  separated h a b -> hist_okb h a b hist = true ->
  forall pre s ps post, hist = pre ++ (s, ps) :: post ->
    obs (apply_prims (run_hist h pre) ps) (pick (other_side s) a b) = obs (run_hist h pre) (pick (other_side s) a b).
Proof.
  induction hist as [|[s0 ps0] r IH]; intros h a b Hsep Hok pre s ps post Heq.
  - destruct pre; discriminate.
  - simpl in Hok. apply andb_true_iff in Hok. destruct Hok as [Hok0 Hokr].
    destruct (separated_step h a b s0 ps0 Hsep Hok0) as [Hsep' Hobs].
    destruct pre as [|[s1 ps1] pre]; simpl in Heq; inversion Heq; subst.
    + simpl. exact Hobs.
    + simpl. eapply IH; eauto.
Qed.

(* ------------------------------------------------------------------ copy_row: shape of the result *)
Definition heap_wf (h : heap) : Prop :=
  forall l, l < length h -> forall p, In p (ptrs (get h l)) -> p < length h.

Lemma heap_wfb_sound : forall h, heap_wfb h = true -> heap_wf h.
Proof.
  intros h H l Hl p Hp. unfold heap_wfb in H. rewrite forallb_forall in H.
  specialize (H _ (nth_In h CFree Hl)). rewrite forallb_forall in H. apply Nat.ltb_lt. apply H. exact Hp.
Qed.

Lemma ranked_wf : forall h, ranked h -> heap_wf h.
Proof. intros h Hr l Hl p Hp. apply (Hr l Hl p Hp). Qed.

Lemma nth_app_at : forall A (l1 l2 : list A) k j d, length l1 = k -> nth (k + j) (l1 ++ l2) d = nth j l2 d.
Proof. intros A l1 l2 k j d <-. apply app_nth2_plus. Qed.

Lemma get_segs : forall h hd A AD Bc BD V n m,
  length hd = 7 -> length A = n -> length AD = n -> length Bc = m -> length BD = m ->
  (forall k, k < 7 -> get (h ++ hd ++ A ++ AD ++ Bc ++ BD ++ V) (length h + k) = nth k hd CFree) /\
  (forall j, j < n -> get (h ++ hd ++ A ++ AD ++ Bc ++ BD ++ V) (length h + 7 + j) = nth j A CFree) /\
  (forall j, j < n -> get (h ++ hd ++ A ++ AD ++ Bc ++ BD ++ V) (length h + 7 + n + j) = nth j AD CFree) /\
  (forall j, j < m -> get (h ++ hd ++ A ++ AD ++ Bc ++ BD ++ V) (length h + 7 + n + n + j) = nth j Bc CFree) /\
  (forall j, j < m -> get (h ++ hd ++ A ++ AD ++ Bc ++ BD ++ V) (length h + 7 + n + n + m + j) = nth j BD CFree) /\
  (forall j, get (h ++ hd ++ A ++ AD ++ Bc ++ BD ++ V) (length h + 7 + n + n + m + m + j) = nth j V CFree).
Proof.
  intros h hd A AD Bc BD V n m Hhd HA HAD HBc HBD. repeat split; intros j; try intros Hj.
  - rewrite get_app_new. apply app_nth1. lia.
  - replace (length h + 7 + j) with (length h + (7 + j)) by lia. rewrite get_app_new.
    rewrite (nth_app_at _ hd) by auto. apply app_nth1. lia.
  - replace (length h + 7 + n + j) with (length h + (7 + (n + j))) by lia. rewrite get_app_new.
    rewrite (nth_app_at _ hd) by auto. rewrite (nth_app_at _ A) by auto. apply app_nth1. lia.
  - replace (length h + 7 + n + n + j) with (length h + (7 + (n + (n + j)))) by lia. rewrite get_app_new.
    rewrite (nth_app_at _ hd) by auto. rewrite (nth_app_at _ A) by auto. rewrite (nth_app_at _ AD) by auto.
    apply app_nth1. lia.
  - replace (length h + 7 + n + n + m + j) with (length h + (7 + (n + (n + (m + j))))) by lia. rewrite get_app_new.
    rewrite (nth_app_at _ hd) by auto. rewrite (nth_app_at _ A) by auto. rewrite (nth_app_at _ AD) by auto.
    rewrite (nth_app_at _ Bc) by auto. apply app_nth1. lia.
  - replace (length h + 7 + n + n + m + m + j) with (length h + (7 + (n + (n + (m + (m + j)))))) by lia. rewrite get_app_new.
    rewrite (nth_app_at _ hd) by auto. rewrite (nth_app_at _ A) by auto. rewrite (nth_app_at _ AD) by auto.
    rewrite (nth_app_at _ Bc) by auto. rewrite (nth_app_at _ BD) by auto. reflexivity.
Qed.

(* the result of a copy, spelled out *)
Record parts := mk_parts { p_cls : Z; p_sc : list Z; p_al : loc; p_bl : option loc; p_co : option loc;
                           p_ch : option loc; p_we : option loc; p_at : loc }.
Definition p_atoms (h : heap) (P : parts) : list loc := items_of h (p_al P).
Definition p_bonds (h : heap) (P : parts) : list loc := match p_bl P with Some l => items_of h l | None => [] end.
Definition p_n h P := length (p_atoms h P).
Definition p_m h P := length (p_bonds h P).
Definition p_root (r : row) (g : given) (d : Z) (h : heap) (P : parts) : cell :=
  let base := length h in
  CMol d (if r_scal r then p_sc P else g_scal g) (alist_loc_of r (p_al P) base) (blist_loc_of r (p_bl P) base)
       (arr_loc (r_coords r) (p_co P) (base + 3)) (arr_loc (r_charges r) (p_ch P) (base + 4))
       (arr_loc (r_weights r) (p_we P) (base + 5)) (dict_loc (r_attrib r) (p_at P) (base + 6)).
Definition p_hd (r : row) (g : given) (d : Z) (h : heap) (P : parts) : list cell :=
  let base := length h in
  [p_root r g d h P;
   alist_cell_of r (new_atoms_of r (base + 7) (p_atoms h P));
   blist_cell_of r (p_bl P) (new_bonds_of (brow_of r) (base + 7 + p_n h P + p_n h P) (p_bonds h P));
   arr_cell h (r_coords r) (p_co P) (g_coords g); arr_cell h (r_charges r) (p_ch P) (g_charges g);
   arr_cell h (r_weights r) (p_we P) (g_weights g);
   dict_cell h (r_attrib r) (r_vals r) (p_at P) (base + 7 + p_n h P + p_n h P + p_m h P + p_m h P)].
Definition p_A r h P := atom_cells r h (length h) (length h + 7 + p_n h P) (p_atoms h P).
Definition p_vb h P := length h + 7 + p_n h P + p_n h P + p_m h P + p_m h P.
Definition p_AD r h P := adict_cells r h (p_vb h P + 1) (p_atoms h P).
Definition p_Bc r h P :=
  bond_cells (brow_of r) h (length h) (length h + 7 + p_n h P + p_n h P + p_m h P) (p_atoms h P)
             (new_atoms_of r (length h + 7) (p_atoms h P)) (p_bonds h P).
Definition p_BD r h P := bdict_cells (brow_of r) h (p_vb h P + 1 + p_n h P) (p_bonds h P).
Definition p_V r h P := store_cell h (r_attrib r) (r_vals r) (p_at P) :: astore_cells r h (p_atoms h P)
                        ++ bstore_cells (brow_of r) h (p_bonds h P).

Lemma copy_row_inv : forall r g d h o h' o',
  copy_row r g d h o = Some (h', o') ->
  exists P, get h o = CMol (p_cls P) (p_sc P) (p_al P) (p_bl P) (p_co P) (p_ch P) (p_we P) (p_at P)
    /\ o' = length h
    /\ (b_ends (brow_of r) = ERemap -> ends_found h (p_atoms h P) (p_bonds h P) = true)
    /\ h' = h ++ p_hd r g d h P ++ p_A r h P ++ p_AD r h P ++ p_Bc r h P ++ p_BD r h P ++ p_V r h P.
Proof.
  intros r g d h o h' o' H. unfold copy_row in H.
  destruct (get h o) as [| | | | | |cls sc al bl co ch we at_|] eqn:Eo; try discriminate.
  exists (mk_parts cls sc al bl co ch we at_). cbv zeta in H.
  destruct (b_ends (brow_of r)) eqn:Ee.
  - destruct (ends_found h (items_of h al) match bl with Some l => items_of h l | None => [] end) eqn:Ef;
      simpl in H; [|discriminate].
    inversion H; subst. repeat split; auto.
  - inversion H; subst. repeat split; auto. discriminate.
  - inversion H; subst. repeat split; auto. discriminate.
Qed.

Lemma p_lengths : forall r g d h P,
  length (p_hd r g d h P) = 7 /\ length (p_A r h P) = p_n h P /\ length (p_AD r h P) = p_n h P
  /\ length (p_Bc r h P) = p_m h P /\ length (p_BD r h P) = p_m h P.
Proof.
  intros. unfold p_A, p_AD, p_Bc, p_BD, atom_cells, adict_cells, bond_cells, bdict_cells, p_n, p_m.
  rewrite !length_mapi. auto.
Qed.
Lemma p_V_length : forall r h P, length (p_V r h P) = 1 + p_n h P + p_m h P.
Proof.
  intros. unfold p_V, astore_cells, bstore_cells, p_n, p_m. simpl. rewrite app_length, !length_mapi. lia.
Qed.

(* ------------------------------------------------------------------ copy_row: independence *)
Lemma st_copied_eq : forall s, st_copied s = true -> s = Copied.
Proof. destruct s; simpl; congruence. Qed.
Lemma dict_loc_fresh : forall s a f, st_fresh s = true -> dict_loc s a f = f.
Proof. destruct s; simpl; congruence. Qed.
Lemma arr_loc_fresh : forall s src f p, ast_fresh s = true -> In p (olist (arr_loc s src f)) -> p = f.
Proof. destruct s; simpl; try congruence; intros [x|] f p _ H; simpl in H; intuition. Qed.
Lemma arr_cell_ptrs : forall h s src g, ptrs (arr_cell h s src g) = [].
Proof. intros h s src g. unfold arr_cell. destruct s; auto. destruct (oarr h src); auto. Qed.
Lemma dict_cell_ptrs : forall h s vs src f, ptrs (dict_cell h s vs src f) = [].
Proof. intros h s vs src f. unfold dict_cell. destruct s; auto. destruct (get h src); auto. Qed.
Lemma store_cell_ptrs : forall h s vs src, ptrs (store_cell h s vs src) = [].
Proof.
  intros h s vs src. unfold store_cell, val_cell. destruct s; auto. destruct vs; auto.
  destruct (vals_of h src); auto. destruct (get h l); auto.
Qed.

Lemma row_indep_inv : forall r, row_indep r = true ->
  r_alist r = Copied /\ r_atom r = Copied /\ st_fresh (r_aattrib r) = true
  /\ match r_bonds r with
     | None => True
     | Some b => b_list b = Copied /\ b_obj b = Copied /\ st_fresh (b_attrib b) = true /\ b_ends b = ERemap
     end
  /\ ast_fresh (r_coords r) = true /\ ast_fresh (r_charges r) = true /\ ast_fresh (r_weights r) = true
  /\ st_fresh (r_attrib r) = true.
Proof.
  intros r H. unfold row_indep in H. repeat (apply andb_true_iff in H; destruct H as [H ?]).
  repeat split; auto using st_copied_eq.
  destruct (r_bonds r) as [b|]; auto.
  match goal with Hb : _ && _ = true |- _ => rename Hb into HB end.
  repeat (apply andb_true_iff in HB; destruct HB as [HB ?]).
  repeat split; auto using st_copied_eq. destruct (b_ends b); auto; discriminate.
Qed.

Lemma in_new_atoms : forall A (l : list A) b p, In p (mapi_from (fun j _ => b + j) 0 l) -> b <= p < b + length l.
Proof.
  intros A l b p H. apply In_mapi in H. destruct H as [j [x [Hj [_ ->]]]]. lia.
Qed.

Lemma ends_found_In : forall h atoms bonds b a1 a2 p d par,
  ends_found h atoms bonds = true -> In b bonds -> get h b = CBond a1 a2 p d par ->
  exists i1 i2, index_of a1 atoms = Some i1 /\ index_of a2 atoms = Some i2.
Proof.
  intros h atoms bonds b a1 a2 p d par H Hin Hb. unfold ends_found in H. rewrite forallb_forall in H.
  specialize (H b Hin). rewrite Hb in H.
  destruct (index_of a1 atoms) as [i1|]; [|discriminate].
  destruct (index_of a2 atoms) as [i2|]; [|discriminate]. eauto.
Qed.

Lemma remap_copied : forall atoms b a i,
  index_of a atoms = Some i ->
  remap ERemap atoms (mapi_from (fun j _ => b + j) 0 atoms) a = b + i.
Proof.
  intros atoms b a i H. unfold remap. rewrite H.
  rewrite nth_mapi with (d' := 0) by (eapply index_of_lt; eauto). simpl. reflexivity.
Qed.

Lemma news_fresh : forall r g d h P, row_indep r = true ->
  (b_ends (brow_of r) = ERemap -> ends_found h (p_atoms h P) (p_bonds h P) = true) ->
  forall c, In c (p_hd r g d h P ++ p_A r h P ++ p_AD r h P ++ p_Bc r h P ++ p_BD r h P ++ p_V r h P) ->
  forall p, In p (ptrs c) ->
    length h <= p < length h + (7 + p_n h P + p_n h P + p_m h P + p_m h P).
Proof.
  intros r g d h P Hind Hends c Hc p Hp.
  destruct (row_indep_inv r Hind) as [Hal [Hat [Haa [Hb [Hco [Hch [Hwe Hatt]]]]]]].
  rewrite !in_app_iff in Hc. destruct Hc as [Hc|[Hc|[Hc|[Hc|[Hc|Hc]]]]].
  - (* the seven fixed slots *)
    unfold p_hd in Hc. simpl in Hc.
    destruct Hc as [<-|[<-|[<-|[<-|[<-|[<-|[<-|[]]]]]]]].
    + unfold p_root in Hp. simpl in Hp. unfold alist_loc_of in Hp. rewrite Hal in Hp.
      rewrite dict_loc_fresh in Hp by auto.
      destruct Hp as [<-|[<-|Hp]]; try lia.
      rewrite !in_app_iff in Hp. destruct Hp as [Hp|[Hp|[Hp|Hp]]].
      * unfold blist_loc_of in Hp. destruct (r_bonds r) as [b|]; [|destruct Hp].
        destruct Hb as [Hbl _]. rewrite Hbl in Hp. simpl in Hp. destruct Hp as [<-|[]]. lia.
      * apply arr_loc_fresh in Hp; auto. lia.
      * apply arr_loc_fresh in Hp; auto. lia.
      * apply arr_loc_fresh in Hp; auto. lia.
    + unfold alist_cell_of in Hp. rewrite Hal in Hp. simpl in Hp. unfold new_atoms_of in Hp. rewrite Hat in Hp.
      apply in_new_atoms in Hp. unfold p_n. lia.
    + unfold blist_cell_of in Hp. destruct (r_bonds r) as [b|] eqn:Eb; [|destruct Hp].
      destruct Hb as [Hbl [Hbo _]]. rewrite Hbl in Hp. simpl in Hp.
      unfold new_bonds_of, brow_of in Hp. rewrite Eb, Hbo in Hp.
      apply in_new_atoms in Hp. unfold p_m. lia.
    + rewrite arr_cell_ptrs in Hp. destruct Hp.
    + rewrite arr_cell_ptrs in Hp. destruct Hp.
    + rewrite arr_cell_ptrs in Hp. destruct Hp.
    + rewrite dict_cell_ptrs in Hp. destruct Hp.
  - (* atom objects *)
    unfold p_A, atom_cells in Hc. apply In_mapi in Hc. destruct Hc as [j [a [Hj [_ ->]]]].
    rewrite Hat in Hp. destruct (get h a); simpl in Hp; try contradiction.
    rewrite dict_loc_fresh in Hp by auto. destruct Hp as [<-|[]]. fold (p_n h P) in Hj. lia.
  - unfold p_AD, adict_cells in Hc. apply In_mapi in Hc. destruct Hc as [j [a [Hj [_ ->]]]].
    rewrite Hat in Hp. destruct (get h a); simpl in Hp; try contradiction.
    rewrite dict_cell_ptrs in Hp. destruct Hp.
  - (* bond objects *)
    unfold p_Bc, bond_cells in Hc. apply In_mapi in Hc. destruct Hc as [j [b [Hj [Hnb ->]]]].
    unfold brow_of in *. destruct (r_bonds r) as [br|] eqn:Eb; [|simpl in Hp; contradiction].
    destruct Hb as [_ [Hbo [Hba Hbe]]]. rewrite Hbo in Hp.
    destruct (get h b) as [| | | |a1 a2 pay dd par| | |] eqn:Eg; simpl in Hp; try contradiction.
    destruct (ends_found_In h _ _ b a1 a2 pay dd par (Hends Hbe) (nth_error_In _ _ Hnb) Eg) as [i1 [i2 [H1 H2]]].
    rewrite Hbe in Hp. unfold new_atoms_of in Hp. rewrite Hat in Hp.
    rewrite (remap_copied _ _ _ _ H1), (remap_copied _ _ _ _ H2) in Hp.
    rewrite dict_loc_fresh in Hp by auto.
    apply index_of_lt in H1. apply index_of_lt in H2. fold (p_n h P) in H1, H2. fold (p_m h P) in Hj.
    destruct Hp as [<-|[<-|[<-|[]]]]; lia.
  - unfold p_BD, bdict_cells in Hc. apply In_mapi in Hc. destruct Hc as [j [b [Hj [_ ->]]]].
    destruct (b_obj (brow_of r)); simpl in Hp; try contradiction.
    destruct (get h b); simpl in Hp; try contradiction.
    rewrite dict_cell_ptrs in Hp. destruct Hp.
  - (* the stores of attribute values hold no pointer *)
    unfold p_V in Hc. destruct Hc as [<-|Hc]; [rewrite store_cell_ptrs in Hp; destruct Hp|].
    apply in_app_iff in Hc. destruct Hc as [Hc|Hc].
    + unfold astore_cells in Hc. apply In_mapi in Hc. destruct Hc as [j [a [Hj [_ ->]]]].
      destruct (r_atom r); simpl in Hp; try contradiction.
      destruct (get h a); simpl in Hp; try contradiction.
      rewrite store_cell_ptrs in Hp. destruct Hp.
    + unfold bstore_cells in Hc. apply In_mapi in Hc. destruct Hc as [j [b [Hj [_ ->]]]].
      destruct (b_obj (brow_of r)); simpl in Hp; try contradiction.
      destruct (get h b); simpl in Hp; try contradiction.
      rewrite store_cell_ptrs in Hp. destruct Hp.
Qed.

(* Independence: the copy lives in the fresh region, the source's cells are untouched and closed *)
Theorem copy_independent : forall r g d h o h' o',
  heap_wf h -> row_indep r = true -> copy_row r g d h o = Some (h', o') ->
  o' = length h /\ length h < length h'
  /\ (forall l, l < length h -> get h' l = get h l)
  /\ closed h' (fun l => length h <= l < length h')
  /\ closed h' (fun l => l < length h).
Proof.
  intros r g d h o h' o' Hwf Hind Hc.
  destruct (copy_row_inv _ _ _ _ _ _ _ Hc) as [P [Hget [Ho' [Hends Hh']]]].
  destruct (p_lengths r g d h P) as [L1 [L2 [L3 [L4 L5]]]].
  pose proof (p_V_length r h P) as L6.
  assert (Hlen : length h' = length h + (7 + p_n h P + p_n h P + p_m h P + p_m h P + (1 + p_n h P + p_m h P))).
  { rewrite Hh'. rewrite !app_length. rewrite L1, L2, L3, L4, L5, L6. lia. }
  split; [exact Ho'|]. split; [lia|]. split.
  { intros l Hl. rewrite Hh'. apply get_app_old. exact Hl. }
  split.
  - intros l [Hl1 Hl2]. split; [exact Hl2|]. intros p Hp.
    replace l with (length h + (l - length h)) in Hp by lia. rewrite Hh' in Hp. rewrite get_app_new in Hp.
    assert (Hin : In (nth (l - length h) (p_hd r g d h P ++ p_A r h P ++ p_AD r h P ++ p_Bc r h P ++ p_BD r h P ++ p_V r h P) CFree)
                     (p_hd r g d h P ++ p_A r h P ++ p_AD r h P ++ p_Bc r h P ++ p_BD r h P ++ p_V r h P)).
    { apply nth_In. rewrite !app_length. rewrite L1, L2, L3, L4, L5, L6. lia. }
    pose proof (news_fresh r g d h P Hind Hends _ Hin p Hp) as Hb. lia.
  - intros l Hl. split; [lia|]. intros p Hp. rewrite Hh' in Hp. rewrite get_app_old in Hp by exact Hl.
    apply (Hwf l Hl p Hp).
Qed.

Corollary copy_separated : forall r g d h o h' o',
  heap_wf h -> row_indep r = true -> copy_row r g d h o = Some (h', o') -> separated h' o' o.
Proof.
  intros r g d h o h' o' Hwf Hind Hc.
  destruct (copy_independent _ _ _ _ _ _ _ Hwf Hind Hc) as [Ho' [Hlt [Hold [HA HB]]]].
  exists (fun l => length h <= l < length h'), (fun l => l < length h).
  split; [exact HA|]. split; [exact HB|]. split; [intros l H1 H2; lia|]. split; [lia|].
  destruct (Nat.lt_ge_cases o (length h)) as [Hlt'|Hge]; auto.
  unfold copy_row in Hc. rewrite (get_oob h o Hge) in Hc. discriminate.
Qed.

Corollary copy_reach_disjoint : forall r g d h o h' o',
  heap_wf h -> row_indep r = true -> copy_row r g d h o = Some (h', o') ->
  forall l, In l (reach h' o') -> ~ In l (reach h' o).
Proof.
  intros r g d h o h' o' Hwf Hind Hc l H1 H2.
  destruct (copy_separated _ _ _ _ _ _ _ Hwf Hind Hc) as [SA [SB [HA [HB [Hd [Ha Hb]]]]]].
  apply (Hd l).
  - eapply reach_sub_closed; eauto.
  - eapply reach_sub_closed; eauto.
Qed.

(* ------------------------------------------------------------------ copy_row: faithfulness *)
Definition selfP_a (a : aobs) : Prop := match a with Some (_, _, q) => q = QSelf | None => True end.
Definition selfP_b (b : bobs) : Prop := match b with Some (_, _, _, _, q) => q = QSelf | None => True end.

Lemma arr_copied : forall h h' src f g,
  get h' f = arr_cell h ACopied src g -> oarr h' (arr_loc ACopied src f) = oarr h src.
Proof.
  intros h h' [l|] f g H; simpl in *; auto.
  unfold arr_of. rewrite H. unfold arr_of. destruct (get h l); auto.
Qed.

Lemma dict_copied : forall h h' vs src f fr,
  get h' f = dict_cell h Copied vs src fr -> dict_of h' f = dict_of h src.
Proof.
  intros h h' vs src f fr H. unfold dict_of. rewrite H. simpl. destruct (get h src); auto.
Qed.

Lemma atoms_ok_inv : forall r, atoms_ok r = true ->
  r_alist r = Copied /\ r_atom r = Copied /\ r_aattrib r = Copied /\ r_aparent r = RSelf.
Proof.
  intros r H. unfold atoms_ok in H. repeat (apply andb_true_iff in H; destruct H as [H ?]).
  repeat split; auto using st_copied_eq. destruct (r_aparent r); simpl in *; congruence.
Qed.

Lemma bonds_ok_inv : forall r, bonds_ok r = true ->
  exists b, r_bonds r = Some b /\ b_list b = Copied /\ b_obj b = Copied /\ b_attrib b = Copied
            /\ b_parent b = RSelf /\ b_ends b = ERemap.
Proof.
  intros r H. unfold bonds_ok in H. destruct (r_bonds r) as [b|]; [|discriminate]. exists b.
  unfold brow_ok in H. repeat (apply andb_true_iff in H; destruct H as [H ?]).
  repeat split; auto using st_copied_eq.
  - destruct (b_parent b); simpl in *; congruence.
  - destruct (b_ends b); congruence.
Qed.

Theorem copy_faithful : forall r g d h o h' o',
  copy_row r g d h o = Some (h', o') ->
  exists ob ob', obs h o = Some ob /\ obs h' o' = Some ob' /\ o_cls ob' = d
  /\ (r_scal r = true -> o_scal ob' = o_scal ob)
  /\ (atoms_ok r = true ->
        map strip_a (o_atoms ob') = map strip_a (o_atoms ob) /\ Forall selfP_a (o_atoms ob'))
  /\ (atoms_ok r = true -> bonds_ok r = true -> o_bonds ob <> None ->
        option_map (map strip_b) (o_bonds ob') = option_map (map strip_b) (o_bonds ob)
        /\ forall bs, o_bonds ob' = Some bs -> Forall selfP_b bs)
  /\ (r_coords r = ACopied -> o_coords ob' = o_coords ob)
  /\ (r_charges r = ACopied -> o_charges ob' = o_charges ob)
  /\ (r_weights r = ACopied -> o_weights ob' = o_weights ob)
  /\ (r_attrib r = Copied -> o_attrib ob' = o_attrib ob).
Proof.
  intros r g d h o h' o' Hc.
  destruct (copy_row_inv _ _ _ _ _ _ _ Hc) as [P [Hget [Ho' [Hends Hh']]]].
  destruct (p_lengths r g d h P) as [L1 [L2 [L3 [L4 L5]]]].
  destruct (get_segs h _ _ _ _ _ (p_V r h P) _ _ L1 L2 L3 L4 L5) as [G0 [GA [GAD [GB [GBD _]]]]].
  rewrite <- Hh' in G0, GA, GAD, GB, GBD.
  assert (Groot : get h' (length h) = p_root r g d h P).
  { specialize (G0 0 ltac:(lia)). rewrite Nat.add_0_r in G0. exact G0. }
  subst o'. unfold obs. rewrite Hget, Groot. unfold p_root.
  eexists. eexists. split; [reflexivity|]. split; [reflexivity|]. simpl.
  split; [reflexivity|].
  split; [intros ->; reflexivity|].
  split.
  { (* atoms *)
    intros Hok. destruct (atoms_ok_inv r Hok) as [Hal [Hat [Haa Hap]]].
    unfold alist_loc_of. rewrite Hal.
    assert (Hitems : items_of h' (length h + 1) = mapi_from (fun j _ => length h + 7 + j) 0 (p_atoms h P)).
    { unfold items_of. rewrite (G0 1 ltac:(lia)). simpl. unfold alist_cell_of, new_atoms_of. rewrite Hal, Hat. reflexivity. }
    rewrite Hitems.
    assert (Hatom : forall j a, nth_error (p_atoms h P) j = Some a ->
              atom_obs h' (length h) (length h + 7 + j) =
              match get h a with CAtom p dd par => Some (p, dict_of h dd, QSelf) | _ => None end).
    { intros j a Hn. assert (Hj : j < p_n h P) by (apply nth_error_Some; unfold p_atoms in *; congruence).
      unfold atom_obs. rewrite (GA j Hj). unfold p_A, atom_cells.
      rewrite nth_mapi with (d' := 0) by exact Hj. rewrite (nth_error_nth _ _ 0 Hn). rewrite Hat. simpl.
      destruct (get h a) as [| | |p dd par| | | |] eqn:Ea; auto.
      rewrite Haa, Hap. simpl. rewrite Nat.eqb_refl.
      erewrite (dict_copied h h' _ dd).
      - reflexivity.
      - rewrite (GAD j Hj). unfold p_AD, adict_cells. rewrite nth_mapi with (d' := 0) by exact Hj.
        rewrite (nth_error_nth _ _ 0 Hn). rewrite Hat, Ea, Haa. reflexivity. }
    split.
    - rewrite !map_map. apply map_mapi. intros j a Hn. simpl. rewrite (Hatom j a Hn).
      unfold atom_obs. destruct (get h a); auto.
    - apply Forall_forall. intros x Hx. apply in_map_iff in Hx. destruct Hx as [l [<- Hl]].
      apply In_mapi in Hl. destruct Hl as [j [a [Hj [Hn ->]]]]. simpl. rewrite (Hatom j a Hn).
      destruct (get h a); simpl; auto. }
  split.
  { (* bonds *)
    intros Hok Hbok Hsome. destruct (atoms_ok_inv r Hok) as [Hal [Hat [Haa Hap]]].
    destruct (bonds_ok_inv r Hbok) as [br [Hbr [Hbl [Hbo [Hba [Hbp Hbe]]]]]].
    destruct (p_bl P) as [l|] eqn:Ebl; [|exfalso; apply Hsome; reflexivity]. clear Hsome.
    unfold alist_loc_of, blist_loc_of. rewrite Hal, Hbr, Hbl. simpl.
    assert (Hbrow : brow_of r = br) by (unfold brow_of; rewrite Hbr; reflexivity).
    assert (Hitems : items_of h' (length h + 1) = mapi_from (fun j _ => length h + 7 + j) 0 (p_atoms h P)).
    { unfold items_of. rewrite (G0 1 ltac:(lia)). simpl. unfold alist_cell_of, new_atoms_of. rewrite Hal, Hat. reflexivity. }
    assert (Hbitems : items_of h' (length h + 2)
                      = mapi_from (fun j _ => length h + 7 + p_n h P + p_n h P + j) 0 (p_bonds h P)).
    { unfold items_of. rewrite (G0 2 ltac:(lia)). simpl. unfold blist_cell_of, new_bonds_of.
      rewrite Hbr, Hbl, Hbrow, Hbo. reflexivity. }
    rewrite Hitems, Hbitems.
    assert (Hpb : p_bonds h P = items_of h l) by (unfold p_bonds; rewrite Ebl; reflexivity).
    assert (Hbond : forall j b, nth_error (p_bonds h P) j = Some b ->
              bond_obs h' (length h) (mapi_from (fun j _ => length h + 7 + j) 0 (p_atoms h P))
                       (length h + 7 + p_n h P + p_n h P + j) =
              match get h b with
              | CBond a1 a2 p dd par => Some (index_of a1 (p_atoms h P), index_of a2 (p_atoms h P), p, dict_of h dd, QSelf)
              | _ => None end).
    { intros j b Hn. assert (Hj : j < p_m h P) by (apply nth_error_Some; unfold p_m; congruence).
      unfold bond_obs. rewrite (GB j Hj). unfold p_Bc, bond_cells.
      rewrite nth_mapi with (d' := 0) by exact Hj. rewrite (nth_error_nth _ _ 0 Hn). rewrite Hbrow, Hbo. simpl.
      destruct (get h b) as [| | | |a1 a2 p dd par| | |] eqn:Eb; auto.
      rewrite Hbrow in Hends.
      destruct (ends_found_In h _ _ b a1 a2 p dd par (Hends Hbe) (nth_error_In _ _ Hn) Eb) as [i1 [i2 [H1 H2]]].
      rewrite Hbe, Hba, Hbp. unfold new_atoms_of. rewrite Hat.
      rewrite (remap_copied _ _ _ _ H1), (remap_copied _ _ _ _ H2). simpl.
      rewrite Nat.eqb_refl.
      replace (length h + 7 + i1) with (length h + 7 + (0 + i1)) by lia.
      replace (length h + 7 + i2) with (length h + 7 + (0 + i2)) by lia.
      rewrite !index_of_offset by (eapply index_of_lt; eauto).
      rewrite H1, H2.
      erewrite (dict_copied h h' _ dd).
      - reflexivity.
      - rewrite (GBD j Hj). unfold p_BD, bdict_cells. rewrite nth_mapi with (d' := 0) by exact Hj.
        rewrite (nth_error_nth _ _ 0 Hn). rewrite Hbrow, Hbo, Eb, Hba. reflexivity. }
    split.
    - f_equal. rewrite !map_map. rewrite <- Hpb. apply map_mapi. intros j b Hn. simpl. rewrite (Hbond j b Hn).
      unfold bond_obs. destruct (get h b); auto.
    - intros bs Hbs. inversion Hbs; subst bs. apply Forall_forall. intros x Hx.
      apply in_map_iff in Hx. destruct Hx as [y [<- Hy]].
      apply In_mapi in Hy. destruct Hy as [j [b [Hj [Hn ->]]]]. simpl. rewrite (Hbond j b Hn).
      destruct (get h b); simpl; auto. }
  split.
  { intros Hr. rewrite Hr. apply arr_copied with (g := g_coords g). rewrite (G0 3 ltac:(lia)). simpl. rewrite Hr. reflexivity. }
  split.
  { intros Hr. rewrite Hr. apply arr_copied with (g := g_charges g). rewrite (G0 4 ltac:(lia)). simpl. rewrite Hr. reflexivity. }
  split.
  { intros Hr. rewrite Hr. apply arr_copied with (g := g_weights g). rewrite (G0 5 ltac:(lia)). simpl. rewrite Hr. reflexivity. }
  intros Hr. rewrite Hr. simpl. eapply dict_copied. rewrite (G0 6 ltac:(lia)). simpl. rewrite Hr. reflexivity.
Qed.

(* ------------------------------------------------------------------ a row that meets the specification *)
Definition faithful_on (nd : need) (ob ob' : obsr) : Prop :=
  map strip_a (o_atoms ob') = map strip_a (o_atoms ob) /\ Forall selfP_a (o_atoms ob')
  /\ (n_bonds nd = true -> o_bonds ob <> None ->
        option_map (map strip_b) (o_bonds ob') = option_map (map strip_b) (o_bonds ob)
        /\ forall bs, o_bonds ob' = Some bs -> Forall selfP_b bs)
  /\ (n_coords nd = true -> o_coords ob' = o_coords ob)
  /\ (n_charges nd = true -> o_charges ob' = o_charges ob)
  /\ (n_weights nd = true -> o_weights ob' = o_weights ob)
  /\ (n_scal nd = true -> o_scal ob' = o_scal ob)
  /\ (n_attrib nd = true -> o_attrib ob' = o_attrib ob).

Lemma implb_true : forall a b, negb a || b = true -> a = true -> b = true.
Proof. intros [|] [|]; simpl; auto. Qed.
Lemma ast_copied_eq : forall s, ast_copied s = true -> s = ACopied.
Proof. destruct s; simpl; congruence. Qed.

Lemma old_closed : forall h x, heap_wf h -> closed (h ++ x) (fun l => l < length h).
Proof.
  intros h x Hwf l Hl. split; [rewrite app_length; lia|]. rewrite get_app_old by exact Hl. apply (Hwf l Hl).
Qed.

Theorem copy_row_sound : forall nd r g d h o h' o',
  heap_wf h -> row_ok nd r = true -> copy_row r g d h o = Some (h', o') ->
  separated h' o' o
  /\ (forall l, In l (reach h' o') -> ~ In l (reach h' o))
  /\ exists ob ob', obs h o = Some ob /\ obs h' o = Some ob /\ obs h' o' = Some ob'
                    /\ o_cls ob' = d /\ faithful_on nd ob ob'.
Proof.
  intros nd r g d h o h' o' Hwf Hok Hc.
  unfold row_ok in Hok. apply andb_true_iff in Hok. destruct Hok as [Hind Hf].
  split; [eapply copy_separated; eauto|]. split; [eapply copy_reach_disjoint; eauto|].
  destruct (copy_faithful _ _ _ _ _ _ _ Hc) as [ob [ob' [Ho [Ho' [Hcls [Hsc [Hat [Hbo [Hco [Hch [Hwe Hatt]]]]]]]]]]].
  exists ob, ob'. split; [exact Ho|]. split.
  { rewrite <- Ho.
    destruct (copy_independent _ _ _ _ _ _ _ Hwf Hind Hc) as [_ [_ [Hold [_ HB]]]].
    apply (obs_local h h' (fun l => l < length h) o).
    - intros l Hl. split; auto. apply (Hwf l Hl).
    - destruct (Nat.lt_ge_cases o (length h)) as [Hlt|Hge]; auto.
      unfold obs in Ho. rewrite (get_oob h o Hge) in Ho. discriminate.
    - intros l Hl. apply Hold. exact Hl. }
  split; [exact Ho'|]. split; [exact Hcls|].
  unfold row_faithful in Hf.
  apply andb_true_iff in Hf; destruct Hf as [Hf _].
  apply andb_true_iff in Hf; destruct Hf as [Hf H6].
  apply andb_true_iff in Hf; destruct Hf as [Hf H5].
  apply andb_true_iff in Hf; destruct Hf as [Hf H4].
  apply andb_true_iff in Hf; destruct Hf as [Hf H3].
  apply andb_true_iff in Hf; destruct Hf as [Hf H2].
  apply andb_true_iff in Hf; destruct Hf as [Hf H1].
  pose proof (implb_true _ _ H1) as I1; pose proof (implb_true _ _ H2) as I2; pose proof (implb_true _ _ H3) as I3;
  pose proof (implb_true _ _ H4) as I4; pose proof (implb_true _ _ H5) as I5; pose proof (implb_true _ _ H6) as I6.
  destruct (Hat Hf) as [Ha1 Ha2].
  unfold faithful_on. split; [exact Ha1|]. split; [exact Ha2|].
  split; [intros Hn Hs; apply Hbo; auto|].
  split; [intros Hn; apply Hco; apply ast_copied_eq; auto|].
  split; [intros Hn; apply Hch; apply ast_copied_eq; auto|].
  split; [intros Hn; apply Hwe; apply ast_copied_eq; auto|].
  split; [intros Hn; apply Hsc; auto|].
  intros Hn. apply Hatt. apply st_copied_eq. auto.
Qed.

(* ------------------------------------------------------------------ copies with keyword overrides *)
(* a copy along a route with overrides IS a copy_row with the call's values as `given`: every theorem about
   copy_row (for all `given`) applies to it *)
Lemma copy_route_row : forall rt r g d h o x,
  copy_route rt r g d h o = Some x -> exists g', copy_row r g' d h o = Some x.
Proof.
  intros rt r g d h o x H. unfold copy_route in H.
  destruct (get h o) as [| | | | | |cls sc al bl co ch we at_|]; try discriminate.
  eexists. exact H.
Qed.

Theorem copy_route_sound : forall nd rt r g d h o h' o',
  heap_wf h -> row_ok nd r = true -> copy_route rt r g d h o = Some (h', o') ->
  separated h' o' o
  /\ (forall l, In l (reach h' o') -> ~ In l (reach h' o))
  /\ exists ob ob', obs h o = Some ob /\ obs h' o = Some ob /\ obs h' o' = Some ob'
                    /\ o_cls ob' = d /\ faithful_on nd ob ob'.
Proof.
  intros nd rt r g d h o h' o' Hwf Hok Hc.
  destruct (copy_route_row _ _ _ _ _ _ _ Hc) as [g' Hc'].
  eapply copy_row_sound; eauto.
Qed.

(* name / charge / mult of the result of any copy_row *)
Lemma copy_scal : forall r g d h o h' o',
  copy_row r g d h o = Some (h', o') ->
  exists ob ob', obs h o = Some ob /\ obs h' o' = Some ob'
                 /\ o_scal ob' = if r_scal r then o_scal ob else g_scal g.
Proof.
  intros r g d h o h' o' Hc.
  destruct (copy_row_inv _ _ _ _ _ _ _ Hc) as [P [Hget [Ho' [Hends Hh']]]].
  destruct (p_lengths r g d h P) as [L1 [L2 [L3 [L4 L5]]]].
  destruct (get_segs h _ _ _ _ _ (p_V r h P) _ _ L1 L2 L3 L4 L5) as [G0 _].
  rewrite <- Hh' in G0.
  assert (Groot : get h' (length h) = p_root r g d h P).
  { specialize (G0 0 ltac:(lia)). rewrite Nat.add_0_r in G0. exact G0. }
  subst o'. unfold obs. rewrite Hget, Groot. unfold p_root.
  eexists. eexists. split; [reflexivity|]. split; [reflexivity|]. simpl. reflexivity.
Qed.

Lemma pick_scal_length : forall mask sc gs, length (pick_scal mask sc gs) = length sc.
Proof.
  intros mask sc. revert mask. induction sc as [|s sr IH]; intros mask gs; simpl; [reflexivity|].
  destruct mask as [|b mr]; simpl; [reflexivity|]. rewrite IH. reflexivity.
Qed.

(* a scalar that is not named by the call is the source's *)
Lemma pick_scal_keeps : forall mask sc gs i,
  nth i mask false = false -> nth_error (pick_scal mask sc gs) i = nth_error sc i.
Proof.
  intros mask sc. revert mask. induction sc as [|s sr IH]; intros mask gs i Hm; simpl; [reflexivity|].
  destruct mask as [|b mr]; [reflexivity|].
  destruct i as [|i]; simpl in *.
  - subst b. reflexivity.
  - apply IH. exact Hm.
Qed.

(* a scalar that is named takes the value of the call *)
Lemma pick_scal_takes : forall mask sc gs i,
  nth i mask false = true -> i < length sc -> i < length gs ->
  nth_error (pick_scal mask sc gs) i = nth_error gs i.
Proof.
  intros mask sc. revert mask. induction sc as [|s sr IH]; intros mask gs i Hm Hi Hg; simpl in *; [lia|].
  destruct mask as [|b mr]; [destruct i; discriminate Hm|].
  destruct i as [|i]; simpl in *.
  - subst b. destruct gs as [|g gr]; simpl in *; [lia|reflexivity].
  - destruct gs as [|g gr]; simpl in *; [lia|]. apply IH; auto; lia.
Qed.

(* dst(source, <keywords v>): the source is left as it was, the result is separated from it, every field the
   call does not name is the source's (arrays / bonds / attributes by faithful_on under the masked need, the
   scalars position by position), and the named scalars are the call's *)
Theorem override_copy_sound : forall nd dd v r g d h o h' o',
  heap_wf h -> row_ok nd r = true -> copy_route (RCtorWith dd v) r g d h o = Some (h', o') ->
  separated h' o' o
  /\ (forall l, In l (reach h' o') -> ~ In l (reach h' o))
  /\ exists ob ob', obs h o = Some ob /\ obs h' o = Some ob /\ obs h' o' = Some ob'
        /\ o_cls ob' = d /\ faithful_on nd ob ob'
        /\ length (o_scal ob') = length (o_scal ob)
        /\ (forall i, nth i (ovr_mask v) false = false -> nth_error (o_scal ob') i = nth_error (o_scal ob) i)
        /\ (r_scal r = false -> forall i, nth i (ovr_mask v) false = true -> i < length (o_scal ob) -> i < length (g_scal g) ->
               nth_error (o_scal ob') i = nth_error (g_scal g) i).
Proof.
  intros nd dd v r g d h o h' o' Hwf Hok Hc.
  destruct (copy_route_sound nd _ r g d h o h' o' Hwf Hok Hc) as [Hsep [Hdis [ob [ob' [Ho [Hos [Ho' [Hcls Hf]]]]]]]].
  split; [exact Hsep|]. split; [exact Hdis|]. exists ob, ob'.
  do 5 (split; [assumption|]).
  unfold copy_route in Hc.
  destruct (get h o) as [| | | | | |cls sc al bl co ch we at_|] eqn:Eo; try discriminate.
  destruct (copy_scal _ _ _ _ _ _ _ Hc) as [ob1 [ob1' [Ho1 [Ho1' Hsc]]]].
  rewrite Ho in Ho1. inversion Ho1; subst ob1. rewrite Ho' in Ho1'. inversion Ho1'; subst ob1'.
  assert (Esc : o_scal ob = sc).
  { unfold obs in Ho. rewrite Eo in Ho. inversion Ho. reflexivity. }
  simpl in Hsc. rewrite <- Esc in Hsc.
  destruct (r_scal r).
  - rewrite Hsc. split; [reflexivity|]. split; [reflexivity|]. discriminate.
  - rewrite Hsc. split; [apply pick_scal_length|]. split.
    + intros i Hi. apply pick_scal_keeps. exact Hi.
    + intros _ i Hi Hl Hg. apply pick_scal_takes; auto.
Qed.

(* ------------------------------------------------------------------ from the regenerated table to the theorems *)
Lemma kls_eqb_eq : forall a b, kls_eqb a b = true -> a = b.
Proof. intros a b H. destruct a, b; try reflexivity; discriminate H. Qed.

Lemma ovr_eqb_eq : forall a b, ovr_eqb a b = true -> a = b.
Proof.
  intros [a1 a2 a3 a4 a5 a6] [b1 b2 b3 b4 b5 b6] H. unfold ovr_eqb in H. simpl in H.
  apply andb_true_iff in H; destruct H as [H H6]. apply andb_true_iff in H; destruct H as [H H5].
  apply andb_true_iff in H; destruct H as [H H4]. apply andb_true_iff in H; destruct H as [H H3].
  apply andb_true_iff in H; destruct H as [H1 H2].
  apply Bool.eqb_prop in H1, H2, H3, H4, H5, H6. subst. reflexivity.
Qed.

Lemma route_eqb_eq : forall a b, route_eqb a b = true -> a = b.
Proof.
  intros a b H. destruct a, b; simpl in H; try discriminate; try reflexivity.
  - apply kls_eqb_eq in H. now subst.
  - apply andb_true_iff in H. destruct H as [H1 H2]. apply kls_eqb_eq in H1. apply ovr_eqb_eq in H2. now subst.
  - apply andb_true_iff in H. destruct H as [H1 H2]. apply kls_eqb_eq in H1. apply Nat.eqb_eq in H2. now subst.
  - apply kls_eqb_eq in H. now subst.
Qed.

Lemma lookup_row_In : forall t k r x, lookup_row t k r = Some x -> In (k, r, x) t.
Proof.
  intros t k r x H. unfold lookup_row in H.
  match type of H with match ?F with _ => _ end = _ => destruct F as [[[k' r'] x']|] eqn:E end; [|discriminate].
  inversion H; subst x'.
  apply find_some in E. destruct E as [Hin He]. apply andb_true_iff in He. destruct He as [H1 H2].
  apply kls_eqb_eq in H1. apply route_eqb_eq in H2. now subst.
Qed.

Theorem table_routes_sound : forall known t, table_ok known t = true ->
  forall k r x, lookup_row t k r = Some x -> lone k = false ->
  forall g h o h' o', heap_wf h -> copy_row x g (kls_code (dst_of k r)) h o = Some (h', o') ->
  separated h' o' o
  /\ (forall l, In l (reach h' o') -> ~ In l (reach h' o))
  /\ exists ob ob', obs h o = Some ob /\ obs h' o = Some ob /\ obs h' o' = Some ob'
                    /\ o_cls ob' = kls_code (dst_of k r) /\ faithful_on (need_known known k r) ob ob'.
Proof.
  intros known t Ht k r x Hl Hlone g h o h' o' Hwf Hc.
  unfold table_ok in Ht. apply andb_true_iff in Ht. destruct Ht as [_ Ht]. rewrite forallb_forall in Ht.
  specialize (Ht _ (lookup_row_In _ _ _ _ Hl)). unfold entry_ok in Ht.
  apply andb_true_iff in Ht. destruct Ht as [Ht _]. rewrite Hlone in Ht.
  eapply copy_row_sound; eauto.
Qed.

(* every tabulated copy-constructor route WITH keyword overrides *)
Theorem table_override_sound : forall known t, table_ok known t = true ->
  forall k dd v x, lookup_row t k (RCtorWith dd v) = Some x -> lone k = false ->
  forall g h o h' o', heap_wf h -> copy_route (RCtorWith dd v) x g (kls_code dd) h o = Some (h', o') ->
  separated h' o' o
  /\ (forall l, In l (reach h' o') -> ~ In l (reach h' o))
  /\ exists ob ob', obs h o = Some ob /\ obs h' o = Some ob /\ obs h' o' = Some ob'
        /\ o_cls ob' = kls_code dd /\ faithful_on (need_known known k (RCtorWith dd v)) ob ob'
        /\ length (o_scal ob') = length (o_scal ob)
        /\ (forall i, nth i (ovr_mask v) false = false -> nth_error (o_scal ob') i = nth_error (o_scal ob) i)
        /\ (r_scal x = false -> forall i, nth i (ovr_mask v) false = true -> i < length (o_scal ob) -> i < length (g_scal g) ->
               nth_error (o_scal ob') i = nth_error (g_scal g) i).
Proof.
  intros known t Ht k dd v x Hl Hlone g h o h' o' Hwf Hc.
  unfold table_ok in Ht. apply andb_true_iff in Ht. destruct Ht as [_ Ht]. rewrite forallb_forall in Ht.
  specialize (Ht _ (lookup_row_In _ _ _ _ Hl)). unfold entry_ok in Ht.
  apply andb_true_iff in Ht. destruct Ht as [Ht _]. rewrite Hlone in Ht.
  eapply override_copy_sound; eauto.
Qed.

Theorem table_routes_present : forall known t, table_ok known t = true ->
  forall k r, In (k, r) required -> exists x, lookup_row t k r = Some x.
Proof.
  intros known t Ht k r Hin. unfold table_ok in Ht. apply andb_true_iff in Ht. destruct Ht as [Ht _].
  unfold table_complete in Ht. rewrite forallb_forall in Ht. specialize (Ht _ Hin). simpl in Ht.
  destruct (lookup_row t k r) as [x|]; [eauto|discriminate].
Qed.

(* a copy by a sound route followed by ANY interleaved history of mutations through the copy (side A)
   and through the source (side B): no step changes what the other side observes *)
Theorem copy_then_history : forall known t, table_ok known t = true ->
  forall k r x, lookup_row t k r = Some x -> lone k = false ->
  forall g h o h' o', heap_wf h -> copy_row x g (kls_code (dst_of k r)) h o = Some (h', o') ->
  forall hist, hist_okb h' o' o hist = true ->
  forall pre s ps post, hist = pre ++ (s, ps) :: post ->
    obs (apply_prims (run_hist h' pre) ps) (pick (other_side s) o' o)
    = obs (run_hist h' pre) (pick (other_side s) o' o).
Proof.
  intros known t Ht k r x Hl Hlone g h o h' o' Hwf Hc hist Hok pre s ps post Heq.
  destruct (table_routes_sound known t Ht k r x Hl Hlone g h o h' o' Hwf Hc) as [Hsep _].
  eapply history_frame; eauto.
Qed.

(* ------------------------------------------------------------------ the menu of elementary edits obeys the footprint discipline *)
Lemma reachN_mono : forall n h l x, In x (reachN n h l) -> In x (reachN (S n) h l).
Proof.
  induction n as [|n IH]; intros h l x H.
  - simpl in H. destruct H as [<-|[]]. simpl. auto.
  - simpl in H. destruct H as [<-|H]; [simpl; auto|].
    apply in_flat_map in H. destruct H as [p [Hp Hx]].
    change (In x (l :: flat_map (reachN (S n) h) (ptrs (get h l)))). right.
    apply in_flat_map. exists p. split; auto.
Qed.

Lemma reachN_step : forall n h l x p, In x (reachN n h l) -> In p (ptrs (get h x)) -> In p (reachN (S n) h l).
Proof.
  induction n as [|n IH]; intros h l x p Hx Hp.
  - simpl in Hx. destruct Hx as [<-|[]]. simpl. right. apply in_flat_map. exists p. split; simpl; auto.
  - simpl in Hx. destruct Hx as [Heq|Hx].
    + subst x. change (In p (l :: flat_map (reachN (S n) h) (ptrs (get h l)))). right.
      apply in_flat_map. exists p. split; auto. apply reachN_head.
    + apply in_flat_map in Hx. destruct Hx as [q [Hq Hx]].
      change (In p (l :: flat_map (reachN (S n) h) (ptrs (get h l)))). right.
      apply in_flat_map. exists q. split; auto. eapply IH; eauto.
Qed.

Lemma in_items_ptrs : forall h l a, In a (items_of h l) -> In a (ptrs (get h l)).
Proof. intros h l a H. unfold items_of in H. destruct (get h l); simpl in *; try contradiction. exact H. Qed.

Lemma reach_root : forall h o, In o (reach h o).
Proof. intros. apply reachN_head. Qed.
Lemma reach1 : forall h o p, In p (ptrs (get h o)) -> In p (reach h o).
Proof.
  intros h o p H. unfold reach. do 3 apply reachN_mono. eapply (reachN_step 0); eauto. simpl. auto.
Qed.
Lemma reach2 : forall h o p q, In p (ptrs (get h o)) -> In q (ptrs (get h p)) -> In q (reach h o).
Proof.
  intros h o p q H1 H2. unfold reach. do 2 apply reachN_mono. eapply (reachN_step 1); eauto.
  eapply (reachN_step 0); eauto. simpl. auto.
Qed.
Lemma reach3 : forall h o p q s, In p (ptrs (get h o)) -> In q (ptrs (get h p)) -> In s (ptrs (get h q)) -> In s (reach h o).
Proof.
  intros h o p q s H1 H2 H3. unfold reach. apply reachN_mono. eapply (reachN_step 2); eauto.
  eapply (reachN_step 1); eauto. eapply (reachN_step 0); eauto. simpl. auto.
Qed.

Lemma write1_ok : forall region h l c,
  In l region -> (forall p, In p (ptrs c) -> In p region) -> prims_okb region h [PWrite l c] = true.
Proof.
  intros region h l c Hl Hc. simpl. rewrite andb_true_r. apply andb_true_iff. split.
  - apply mem_In. exact Hl.
  - apply forallb_forall. intros p Hp. apply mem_In. auto.
Qed.

Theorem compile_op_ok : forall h o x ps, compile_op h o x = Some ps -> prims_okb (reach h o) h ps = true.
Proof.
  intros h o x ps H. unfold compile_op in H.
  destruct (get h o) as [| | | | | |cls sc al bl co ch we at_|] eqn:Eo; try discriminate.
  assert (Pal : In al (ptrs (get h o))) by (rewrite Eo; simpl; auto).
  assert (Pat : In at_ (ptrs (get h o))) by (rewrite Eo; simpl; auto).
  assert (Pbl : forall l, bl = Some l -> In l (ptrs (get h o))).
  { intros l ->. rewrite Eo. simpl. auto. }
  assert (Pco : forall l, co = Some l -> In l (ptrs (get h o))).
  { intros l ->. rewrite Eo. simpl. right; right. rewrite !in_app_iff. simpl. auto. }
  assert (Pch : forall l, ch = Some l -> In l (ptrs (get h o))).
  { intros l ->. rewrite Eo. simpl. right; right. rewrite !in_app_iff. simpl. auto. }
  assert (Pwe : forall l, we = Some l -> In l (ptrs (get h o))).
  { intros l ->. rewrite Eo. simpl. right; right. rewrite !in_app_iff. simpl. auto. }
  destruct x as [j p|j p|i v|i v|i v|kv|j kv|j kv|s].
  - destruct (nth_error (items_of h al) j) as [a|] eqn:Ea; [|discriminate].
    destruct (get h a) as [| | |p0 d par| | | |] eqn:Eg; try discriminate. inversion H; subst ps.
    assert (Pa : In a (ptrs (get h al))) by (apply in_items_ptrs; eapply nth_error_In; eauto).
    apply write1_ok; [exact (reach2 h o al a Pal Pa)|].
    simpl. intros q [<-|[]]. apply (reach3 h o al a d Pal Pa). rewrite Eg. simpl. auto.
  - destruct bl as [l|]; [|discriminate].
    destruct (nth_error (items_of h l) j) as [b|] eqn:Eb; [|discriminate].
    destruct (get h b) as [| | | |a1 a2 p0 d par| | |] eqn:Eg; try discriminate. inversion H; subst ps.
    assert (Pb : In b (ptrs (get h l))) by (apply in_items_ptrs; eapply nth_error_In; eauto).
    apply write1_ok; [exact (reach2 h o l b (Pbl l eq_refl) Pb)|].
    simpl. intros q Hq. apply (reach3 h o l b q (Pbl l eq_refl) Pb). rewrite Eg. simpl. tauto.
  - destruct co as [l|]; [|discriminate]. destruct (get h l) eqn:Eg; try discriminate. inversion H; subst ps.
    apply write1_ok; [apply reach1; auto|]. simpl. tauto.
  - destruct ch as [l|]; [|discriminate]. destruct (get h l) eqn:Eg; try discriminate. inversion H; subst ps.
    apply write1_ok; [apply reach1; auto|]. simpl. tauto.
  - destruct we as [l|]; [|discriminate]. destruct (get h l) eqn:Eg; try discriminate. inversion H; subst ps.
    apply write1_ok; [apply reach1; auto|]. simpl. tauto.
  - destruct (get h at_) eqn:Eg; try discriminate. inversion H; subst ps.
    apply write1_ok; [apply reach1; auto|]. simpl. tauto.
  - destruct (nth_error (items_of h al) j) as [a|] eqn:Ea; [|discriminate].
    destruct (get h a) as [| | |p0 d par| | | |] eqn:Eg; try discriminate.
    destruct (get h d) eqn:Ed; try discriminate. inversion H; subst ps.
    assert (Pa : In a (ptrs (get h al))) by (apply in_items_ptrs; eapply nth_error_In; eauto).
    apply write1_ok; [apply (reach3 h o al a d Pal Pa); rewrite Eg; simpl; auto|]. simpl. tauto.
  - destruct bl as [l|]; [|discriminate].
    destruct (nth_error (items_of h l) j) as [b|] eqn:Eb; [|discriminate].
    destruct (get h b) as [| | | |a1 a2 p0 d par| | |] eqn:Eg; try discriminate.
    destruct (get h d) eqn:Ed; try discriminate. inversion H; subst ps.
    assert (Pb : In b (ptrs (get h l))) by (apply in_items_ptrs; eapply nth_error_In; eauto).
    apply write1_ok; [apply (reach3 h o l b d (Pbl l eq_refl) Pb); rewrite Eg; simpl; auto|]. simpl. tauto.
  - inversion H; subst ps. apply write1_ok; [apply reach_root|].
    intros q Hq. apply reach1. rewrite Eo. exact Hq.
Qed.
