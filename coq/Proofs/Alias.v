(* C06 -- proofs about the heap model of Model/Alias.v:
   locality of observation, reachability, the frame rule for every mutation and every
   interleaved history, and soundness of `copy_row` (independence and faithfulness for every
   heap and every row that meets the specification). *)
From Coq Require Import List ZArith Bool Arith Lia.
Import ListNotations.
From Molli Require Import Model.Alias.

(* ------------------------------------------------------------------ lists and the heap *)
Lemma get_app_old : forall h x l, l < length h -> get (h ++ x) l = get h l.
Proof. intros h x l Hl. unfold get. now rewrite app_nth1. Qed.

Lemma get_app_new : forall h x k, get (h ++ x) (length h + k) = nth k x CFree.
Proof. intros h x k. unfold get. now rewrite app_nth2_plus. Qed.

Lemma get_app_last : forall h c, get (h ++ [c]) (length h) = c.
Proof. intros h c. unfold get. rewrite app_nth2 by lia. now rewrite Nat.sub_diag. Qed.

Lemma get_oob : forall h l, length h <= l -> get h l = CFree.
Proof. intros h l Hl. unfold get. now rewrite nth_overflow. Qed.

Lemma length_upd : forall h l c, length (upd l c h) = length h.
Proof. induction h as [|x r IH]; intros [|l] c; simpl; auto. Qed.

Lemma get_upd_other : forall h l l' c, l <> l' -> get (upd l c h) l' = get h l'.
Proof.
  unfold get. induction h as [|x r IH]; intros [|l] [|l'] c Hne; simpl; auto; try congruence.
Qed.

Lemma get_upd_same : forall h l c, l < length h -> get (upd l c h) l = c.
Proof.
  unfold get. induction h as [|x r IH]; intros [|l] c Hl; simpl in *; try lia; auto.
  apply IH. lia.
Qed.

Lemma mem_In : forall l s, mem l s = true <-> In l s.
Proof.
  intros l s. unfold mem. rewrite existsb_exists. split.
  - intros [x [Hx He]]. apply Nat.eqb_eq in He. now subst.
  - intros H. exists l. split; auto. apply Nat.eqb_refl.
Qed.

Lemma length_mapi : forall A B (f : nat -> A -> B) l i, length (mapi_from f i l) = length l.
Proof. induction l as [|x r IH]; intros i; simpl; auto. Qed.

Lemma nth_mapi : forall A B (f : nat -> A -> B) l i j d d',
  j < length l -> nth j (mapi_from f i l) d = f (i + j) (nth j l d').
Proof.
  induction l as [|x r IH]; intros i j d d' Hj; simpl in *; [lia|].
  destruct j as [|j]; [now rewrite Nat.add_0_r|].
  rewrite IH with (d' := d') by lia. f_equal. lia.
Qed.

Lemma In_mapi : forall A B (f : nat -> A -> B) l i y,
  In y (mapi_from f i l) -> exists j x, j < length l /\ nth_error l j = Some x /\ y = f (i + j) x.
Proof.
  induction l as [|x r IH]; intros i y H; simpl in *; [destruct H|].
  destruct H as [<-|H].
  - exists 0, x. repeat split; [lia| now rewrite Nat.add_0_r].
  - destruct (IH _ _ H) as [j [x' [Hj [Hn Hy]]]]. exists (S j), x'. repeat split; [lia|exact Hn|].
    rewrite Hy. f_equal. lia.
Qed.

Lemma map_mapi : forall A B C (g : B -> C) (g' : A -> C) (f : nat -> A -> B) l i,
  (forall j x, nth_error l j = Some x -> g (f (i + j) x) = g' x) ->
  map g (mapi_from f i l) = map g' l.
Proof.
  induction l as [|x r IH]; intros i H; simpl; auto. f_equal.
  - specialize (H 0 x eq_refl). now rewrite Nat.add_0_r in H.
  - apply IH. intros j y Hy. specialize (H (S j) y Hy). now replace (S i + j) with (i + S j) by lia.
Qed.

Lemma index_of_lt : forall a l i, index_of a l = Some i -> i < length l.
Proof.
  induction l as [|x r IH]; intros i H; simpl in *; [discriminate|].
  destruct (Nat.eqb x a); [inversion H; lia|].
  destruct (index_of a r) as [k|]; simpl in H; [|discriminate]. inversion H. specialize (IH k eq_refl). lia.
Qed.

Lemma index_of_offset : forall A (l : list A) b s i,
  i < length l -> index_of (b + (s + i)) (mapi_from (fun j _ => b + j) s l) = Some i.
Proof.
  induction l as [|x r IH]; intros b s i Hi; simpl in *; [lia|].
  destruct i as [|i].
  - rewrite Nat.add_0_r, Nat.eqb_refl. reflexivity.
  - destruct (Nat.eqb (b + s) (b + (s + S i))) eqn:E; [apply Nat.eqb_eq in E; lia|].
    replace (s + S i) with (S s + i) by lia. rewrite IH by lia. reflexivity.
Qed.

(* ------------------------------------------------------------------ closed regions, locality of observation *)
Definition closed (h : heap) (S : loc -> Prop) : Prop :=
  forall l, S l -> l < length h /\ forall p, In p (ptrs (get h l)) -> S p.
Definition agree (S : loc -> Prop) (h1 h2 : heap) : Prop := forall l, S l -> get h2 l = get h1 l.

Lemma agree_trans : forall S h1 h2 h3, agree S h1 h2 -> agree S h2 h3 -> agree S h1 h3.
Proof. intros S h1 h2 h3 H12 H23 l Hl. rewrite H23, H12; auto. Qed.

Lemma dict_of_agree : forall h1 h2 l, get h2 l = get h1 l -> dict_of h2 l = dict_of h1 l.
Proof. intros. unfold dict_of. now rewrite H. Qed.
Lemma arr_of_agree : forall h1 h2 l, get h2 l = get h1 l -> arr_of h2 l = arr_of h1 l.
Proof. intros. unfold arr_of. now rewrite H. Qed.
Lemma items_of_agree : forall h1 h2 l, get h2 l = get h1 l -> items_of h2 l = items_of h1 l.
Proof. intros. unfold items_of. now rewrite H. Qed.

Lemma in_olist : forall A (x : A) o, o = Some x -> In x (olist o).
Proof. intros A x o ->. simpl. auto. Qed.

Theorem obs_local : forall h1 h2 S o, closed h1 S -> S o -> agree S h1 h2 -> obs h2 o = obs h1 o.
Proof.
  intros h1 h2 S o Hc Ho Ha. unfold obs. rewrite (Ha o Ho).
  destruct (get h1 o) as [| | | | | |cls sc al bl co ch we at_] eqn:Eo; auto.
  destruct (Hc o Ho) as [_ Hp]. rewrite Eo in Hp. simpl in Hp.
  assert (Sal : S al) by (apply Hp; left; auto).
  assert (Sat : S at_) by (apply Hp; right; left; auto).
  assert (Hrest : forall p, In p (olist bl ++ olist co ++ olist ch ++ olist we) -> S p)
    by (intros p Hin; apply Hp; right; right; exact Hin).
  assert (Hitems : items_of h2 al = items_of h1 al) by (apply items_of_agree; auto).
  assert (Hatoms : forall a, In a (items_of h1 al) -> S a).
  { intros a Hin. destruct (Hc al Sal) as [_ Hq]. apply Hq. unfold items_of in Hin.
    destruct (get h1 al); simpl in *; try contradiction. exact Hin. }
  f_equal. rewrite Hitems.
  assert (Hao : map (atom_obs h2 o) (items_of h1 al) = map (atom_obs h1 o) (items_of h1 al)).
  { apply map_ext_in. intros a Hin. unfold atom_obs. rewrite (Ha a (Hatoms a Hin)).
    destruct (get h1 a) eqn:Ea; auto.
    destruct (Hc a (Hatoms a Hin)) as [_ Hq]. rewrite Ea in Hq.
    rewrite (dict_of_agree h1 h2 att); auto. apply Ha. apply Hq. simpl. auto. }
  assert (Hbo : option_map (fun l => map (bond_obs h2 o (items_of h1 al)) (items_of h2 l)) bl
              = option_map (fun l => map (bond_obs h1 o (items_of h1 al)) (items_of h1 l)) bl).
  { destruct bl as [l|]; simpl; auto. f_equal.
    assert (Sl : S l) by (apply Hrest; simpl; auto).
    rewrite (items_of_agree h1 h2 l) by (apply Ha; auto).
    apply map_ext_in. intros b Hin.
    assert (Sb : S b).
    { destruct (Hc l Sl) as [_ Hq]. apply Hq. unfold items_of in Hin.
      destruct (get h1 l); simpl in *; try contradiction. exact Hin. }
    unfold bond_obs. rewrite (Ha b Sb). destruct (get h1 b) eqn:Eb; auto.
    destruct (Hc b Sb) as [_ Hq]. rewrite Eb in Hq.
    rewrite (dict_of_agree h1 h2 att); auto. apply Ha. apply Hq. simpl. auto. }
  rewrite Hao, Hbo.
  assert (Hoarr : forall ol, (forall p, In p (olist ol) -> S p) -> oarr h2 ol = oarr h1 ol).
  { intros [l|] Hs; simpl; auto. apply arr_of_agree. apply Ha. apply Hs. simpl. auto. }
  rewrite (Hoarr co), (Hoarr ch), (Hoarr we), (dict_of_agree h1 h2 at_); auto.
  - intros p Hin. apply Hrest. rewrite !in_app_iff. auto.
  - intros p Hin. apply Hrest. rewrite !in_app_iff. auto.
  - intros p Hin. apply Hrest. rewrite !in_app_iff. auto.
Qed.

(* ------------------------------------------------------------------ reachability *)
Lemma reachN_head : forall n h l, In l (reachN n h l).
Proof. intros [|n] h l; simpl; auto. Qed.

Lemma reachN_sub_closed : forall h S, closed h S -> forall n l, S l -> forall x, In x (reachN n h l) -> S x.
Proof.
  intros h S Hc. induction n as [|n IH]; intros l Hl x Hx; simpl in Hx.
  - destruct Hx as [<-|[]]. exact Hl.
  - destruct Hx as [<-|Hx]; [exact Hl|].
    apply in_flat_map in Hx. destruct Hx as [p [Hp Hx]].
    apply (IH p); auto. destruct (Hc l Hl) as [_ Hq]. auto.
Qed.

Lemma reach_sub_closed : forall h S o, closed h S -> S o -> forall x, In x (reach h o) -> S x.
Proof. intros h S o Hc Ho x Hx. eapply reachN_sub_closed; eauto. Qed.

(* typing by rank: every strong pointer is in bounds and goes to a cell of smaller rank *)
Definition ranked (h : heap) : Prop :=
  forall l, l < length h -> forall p, In p (ptrs (get h l)) -> p < length h /\ rank (get h p) < rank (get h l).

Lemma rankedb_sound : forall h, rankedb h = true -> ranked h.
Proof.
  intros h H l Hl p Hp. unfold rankedb in H. rewrite forallb_forall in H.
  assert (Hin : In (get h l) h) by (apply nth_In; exact Hl).
  specialize (H _ Hin). rewrite forallb_forall in H. specialize (H _ Hp).
  apply andb_true_iff in H. destruct H as [H1 H2].
  apply Nat.ltb_lt in H1. apply Nat.ltb_lt in H2. auto.
Qed.

Lemma reachN_closed : forall h, ranked h -> forall n l, l < length h -> rank (get h l) <= n ->
  closed h (fun x => In x (reachN n h l)).
Proof.
  intros h Hr. induction n as [|n IH]; intros l Hl Hk x Hx.
  - simpl in Hx. destruct Hx as [<-|[]]. split; auto. intros p Hp.
    destruct (Hr l Hl p Hp) as [_ Hlt]. lia.
  - simpl in Hx. destruct Hx as [<-|Hx].
    + split; auto. intros p Hp. simpl. right. apply in_flat_map. exists p. split; auto. apply reachN_head.
    + apply in_flat_map in Hx. destruct Hx as [q [Hq Hx]].
      destruct (Hr l Hl q Hq) as [Hql Hqr].
      destruct (IH q Hql ltac:(lia) x Hx) as [Hxl Hxp]. split; auto.
      intros p Hp. simpl. right. apply in_flat_map. exists q. split; auto.
Qed.

Lemma reach_closed : forall h o, ranked h -> o < length h -> closed h (fun x => In x (reach h o)).
Proof.
  intros h o Hr Ho. apply reachN_closed; auto.
  destruct (get h o); simpl; lia.
Qed.

(* ------------------------------------------------------------------ the frame rule *)
(* One mutation (any list of primitive writes / allocations confined to a region of the mutator's
   side A) preserves: both sides closed, disjoint, and every cell of side B. *)
Lemma step_inv : forall ps region h (SA SB : loc -> Prop),
  closed h SA -> closed h SB -> (forall l, SA l -> ~ SB l) -> (forall l, In l region -> SA l) ->
  prims_okb region h ps = true ->
  exists SA' : loc -> Prop,
    closed (apply_prims h ps) SA' /\ closed (apply_prims h ps) SB /\ (forall l, SA' l -> ~ SB l)
    /\ (forall l, SA l -> SA' l) /\ agree SB h (apply_prims h ps).
Proof.
  induction ps as [|p ps IH]; intros region h SA SB HA HB Hd Hreg Hok.
  - exists SA. simpl. split; [exact HA|]. split; [exact HB|]. split; [exact Hd|]. split; [auto|]. intros l _. reflexivity.
  - destruct p as [l c|c]; simpl in Hok.
    + apply andb_true_iff in Hok. destruct Hok as [Hok Hrest]. apply andb_true_iff in Hok. destruct Hok as [Hl Hc].
      apply mem_In in Hl. rewrite forallb_forall in Hc.
      assert (HSAl : SA l) by auto.
      assert (HA1 : closed (upd l c h) SA).
      { intros x Hx. rewrite length_upd. destruct (HA x Hx) as [Hxl Hxp]. split; auto.
        destruct (Nat.eq_dec l x) as [->|Hne].
        - rewrite get_upd_same by auto. intros q Hq. apply Hreg. apply mem_In. apply Hc. exact Hq.
        - rewrite get_upd_other by auto. exact Hxp. }
      assert (Hag : agree SB h (upd l c h)).
      { intros x Hx. apply get_upd_other. intros ->. exact (Hd _ HSAl Hx). }
      assert (HB1 : closed (upd l c h) SB).
      { intros x Hx. rewrite length_upd, (Hag x Hx). apply HB. exact Hx. }
      destruct (IH region (upd l c h) SA SB HA1 HB1 Hd Hreg Hrest) as [SA' [H1 [H2 [H3 [H4 H5]]]]].
      exists SA'. simpl. split; [exact H1|]. split; [exact H2|]. split; [exact H3|]. split; [exact H4|].
      eapply agree_trans; eauto.
    + apply andb_true_iff in Hok. destruct Hok as [Hc Hrest]. rewrite forallb_forall in Hc.
      set (SA1 := fun x => SA x \/ x = length h).
      assert (HA1 : closed (h ++ [c]) SA1).
      { intros x [Hx| ->]; rewrite app_length; simpl.
        - destruct (HA x Hx) as [Hxl Hxp]. split; [lia|]. rewrite get_app_old by auto.
          intros q Hq. left. auto.
        - split; [lia|]. rewrite get_app_last.
          intros q Hq. specialize (Hc q Hq). apply orb_true_iff in Hc. destruct Hc as [Hc|Hc].
          + left. apply Hreg. apply mem_In. exact Hc.
          + right. apply Nat.eqb_eq in Hc. exact Hc. }
      assert (Hag : agree SB h (h ++ [c])).
      { intros x Hx. apply get_app_old. apply HB. exact Hx. }
      assert (HB1 : closed (h ++ [c]) SB).
      { intros x Hx. rewrite app_length, (Hag x Hx). destruct (HB x Hx) as [Hxl Hxp]. split; [simpl; lia|auto]. }
      assert (Hd1 : forall x, SA1 x -> ~ SB x).
      { intros x [Hx| ->]; auto. intros Hb. destruct (HB _ Hb). lia. }
      assert (Hreg1 : forall x, In x (length h :: region) -> SA1 x).
      { intros x [<-|Hx]; [right; auto|left; auto]. }
      destruct (IH (length h :: region) (h ++ [c]) SA1 SB HA1 HB1 Hd1 Hreg1 Hrest) as [SA' [H1 [H2 [H3 [H4 H5]]]]].
      exists SA'. simpl. split; [exact H1|]. split; [exact H2|]. split; [exact H3|]. split.
      * intros x Hx. apply H4. left. exact Hx.
      * eapply agree_trans; eauto.
Qed.

(* every mutation confined to what one object reaches leaves the observation of an object with a
   disjoint closed region unchanged *)
Theorem frame_rule : forall h (SA SB : loc -> Prop) a b ps,
  closed h SA -> closed h SB -> (forall l, SA l -> ~ SB l) -> SA a -> SB b ->
  prims_okb (reach h a) h ps = true ->
  obs (apply_prims h ps) b = obs h b.
Proof.
  intros h SA SB a b ps HA HB Hd Ha Hb Hok.
  destruct (step_inv ps (reach h a) h SA SB HA HB Hd) as [SA' [_ [_ [_ [_ Hag]]]]]; auto.
  - intros l Hl. eapply reach_sub_closed; eauto.
  - eapply obs_local; eauto.
Qed.

(* the design's formulation: disjoint reach sets (of a rank-typed heap) imply the frame rule *)
Theorem disjoint_reach_frame : forall h a b ps,
  ranked h -> a < length h -> b < length h ->
  (forall l, In l (reach h a) -> ~ In l (reach h b)) ->
  prims_okb (reach h a) h ps = true ->
  obs (apply_prims h ps) b = obs h b.
Proof.
  intros h a b ps Hr Ha Hb Hd Hok.
  apply (frame_rule h (fun x => In x (reach h a)) (fun x => In x (reach h b)) a b ps); auto.
  - apply reach_closed; auto.
  - apply reach_closed; auto.
  - apply reachN_head.
  - apply reachN_head.
Qed.

(* interleaved histories: each step is a mutation through one of the two objects *)
Inductive side := SideA | SideB.
Definition pick {A} (s : side) (a b : A) : A := match s with SideA => a | SideB => b end.
Definition other_side (s : side) : side := match s with SideA => SideB | SideB => SideA end.

Fixpoint run_hist (h : heap) (hist : list (side * list prim)) : heap :=
  match hist with [] => h | (_, ps) :: r => run_hist (apply_prims h ps) r end.

Fixpoint hist_okb (h : heap) (a b : loc) (hist : list (side * list prim)) : bool :=
  match hist with
  | [] => true
  | (s, ps) :: r => prims_okb (reach h (pick s a b)) h ps && hist_okb (apply_prims h ps) a b r
  end.

Definition separated (h : heap) (a b : loc) : Prop :=
  exists SA SB : loc -> Prop, closed h SA /\ closed h SB /\ (forall l, SA l -> ~ SB l) /\ SA a /\ SB b.

Lemma separated_step : forall h a b s ps,
  separated h a b -> prims_okb (reach h (pick s a b)) h ps = true ->
  separated (apply_prims h ps) a b /\ obs (apply_prims h ps) (pick (other_side s) a b) = obs h (pick (other_side s) a b).
Proof.
  intros h a b s ps [SA [SB [HA [HB [Hd [Ha Hb]]]]]] Hok. destruct s; simpl in *.
  - destruct (step_inv ps (reach h a) h SA SB HA HB Hd) as [SA' [H1 [H2 [H3 [H4 H5]]]]]; auto.
    { intros l Hl. eapply reach_sub_closed; eauto. }
    split; [exists SA', SB; split; [exact H1|]; split; [exact H2|]; split; [exact H3|]; split; auto
           | exact (obs_local h (apply_prims h ps) SB b HB Hb H5)].
  - assert (Hd' : forall l, SB l -> ~ SA l) by (intros l H1 H2; exact (Hd l H2 H1)).
    destruct (step_inv ps (reach h b) h SB SA HB HA Hd') as [SB' [H1 [H2 [H3 [H4 H5]]]]]; auto.
    { intros l Hl. eapply reach_sub_closed; eauto. }
    split; [exists SA, SB'; split; [exact H2|]; split; [exact H1|]; split;
            [intros l Hl1 Hl2; exact (H3 l Hl2 Hl1)|]; split; auto
           | exact (obs_local h (apply_prims h ps) SA a HA Ha H5)].
Qed.

Theorem history_frame : forall hist h a b,
  separated h a b -> hist_okb h a b hist = true ->
  forall pre s ps post, hist = pre ++ (s, ps) :: post ->
    obs (apply_prims (run_hist h pre) ps) (pick (other_side s) a b) = obs (run_hist h pre) (pick (other_side s) a b).
Proof.
  induction hist as [|[s0 ps0] r IH]; intros h a b Hsep Hok pre s ps post Heq.
  - destruct pre; discriminate.
  - simpl in Hok. apply andb_true_iff in Hok. destruct Hok as [Hok0 Hokr].
    destruct (separated_step h a b s0 ps0 Hsep Hok0) as [Hsep' Hobs].
    destruct pre as [|[s1 ps1] pre]; simpl in Heq; inversion Heq; subst.
    + simpl. exact Hobs.
    + simpl. eapply IH; eauto.
Qed.
