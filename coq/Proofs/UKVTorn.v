(* C02/C03/C04: the refinement of Proofs/UKV.v generalised to a file that carries a TORN TAIL -- the state a
   library is in after a writer process died inside its session (C03's crash image) and before the next
   writer has cut the tail back.  Readers may come and go in that state; they never see the tail.
   InvT H rs [] is exactly Inv H rs. *)
From Coq Require Import ZArith NArith List Bool Lia ZifyBool ZifyNat ZifyN.
Import ListNotations.
Open Scope N_scope.
From Molli Require Import Model.UKV Proofs.UKVBase Proofs.UKV Proofs.UKVCrash.

Record InvT (H : bytes) (rs : list kv) (tl : bytes) (w : world) : Prop := {
  it_file : fst w = H ++ blocks rs ++ tl;
  it_torn : torn tl;
  it_hdr : hdr_ok H;
  it_wf : Forall wfkv rs;
  it_nodup : NoDup (map fst rs);
  it_snap : forall i, snap H rs (hnth (snd w) i);
  it_open : forall i, closed (hnth (snd w) i) = false -> full H rs (hnth (snd w) i);
  it_excl : forall i j, i <> j -> closed (hnth (snd w) i) = false -> md (hnth (snd w) i) = MA ->
                          closed (hnth (snd w) j) = true;
  (* while a torn tail is in the file nobody is inside a writing session: opening for append cuts the tail *)
  it_nowriter : tl <> [] -> forall i, closed (hnth (snd w) i) = false -> md (hnth (snd w) i) = MR
}.

Lemma torn_nil : torn [].
Proof. left. reflexivity. Qed.

Lemma inv_invT H rs w : Inv H rs w -> InvT H rs [] w.
Proof.
  intros [If Ih Iwf Ind Is Io Ie]. constructor; try assumption.
  - rewrite app_nil_r. exact If.
  - apply torn_nil.
  - intros Hne. contradiction.
Qed.

Lemma invT_inv H rs w : InvT H rs [] w -> Inv H rs w.
Proof.
  intros [If _ Ih Iwf Ind Is Io Ie _]. constructor; try assumption.
  rewrite app_nil_r in If. exact If.
Qed.

(* replacing one handle *)
Lemma invT_set H rs tl tl' f f' hs i h' :
  (i < length hs)%nat -> InvT H rs tl (f, hs) -> f' = H ++ blocks rs ++ tl' -> torn tl' ->
  snap H rs h' -> (closed h' = false -> full H rs h') ->
  (closed h' = false -> md h' = MA -> forall j, j <> i -> closed (hnth hs j) = true) ->
  (closed h' = false -> forall j, j <> i -> closed (hnth hs j) = false -> md (hnth hs j) = MR) ->
  (tl' <> [] -> (closed h' = false -> md h' = MR) /\
                forall j, j <> i -> closed (hnth hs j) = false -> md (hnth hs j) = MR) ->
  InvT H rs tl' (f', upd hs i h').
Proof.
  intros Hi [If It Ih Iwf Ind Is Io Ie In] Ef Ht Hs Hf Hw Hr Hn. simpl in *.
  constructor; simpl; try assumption.
  - intros j. unfold hnth. destruct (Nat.eq_dec j i) as [->|Hj].
    + rewrite nth_upd_same by exact Hi. exact Hs.
    + rewrite nth_upd_other by assumption. apply Is.
  - intros j. unfold hnth. destruct (Nat.eq_dec j i) as [->|Hj].
    + rewrite nth_upd_same by exact Hi. exact Hf.
    + rewrite nth_upd_other by assumption. apply Io.
  - intros a b Hab. unfold hnth.
    destruct (Nat.eq_dec a i) as [->|Ha]; destruct (Nat.eq_dec b i) as [->|Hb]; try contradiction.
    + rewrite nth_upd_same by exact Hi. rewrite nth_upd_other by assumption. intros Hc Hm. apply (Hw Hc Hm b Hb).
    + rewrite nth_upd_other by assumption. rewrite nth_upd_same by exact Hi. intros Hca Hma.
      destruct (closed h') eqn:Ec; [reflexivity|exfalso].
      pose proof (Hr eq_refl a Ha Hca) as X. fold (hnth hs a) in Hma. congruence.
    + rewrite !nth_upd_other by assumption. apply Ie; exact Hab.
  - intros Hne j. destruct (Hn Hne) as [N1 N2]. unfold hnth. destruct (Nat.eq_dec j i) as [->|Hj].
    + rewrite nth_upd_same by exact Hi. exact N1.
    + rewrite nth_upd_other by assumption. apply N2. exact Hj.
Qed.

(* Every operation allowed by the session discipline, on a file with a (possibly empty) torn tail:
   the abstract outcome is that of the insert-only map of the COMPLETE records; the tail is kept by
   readers, cut by the first writer, and while it is there the record list does not change. *)
Theorem step_refinesT H rs tl w o :
  InvT H rs tl w -> ok_op w o ->
  exists rs' tl', InvT H rs' tl' (fst (step w o)) /\
                  step_spec rs (hnth (snd w) (op_handle o)) o (snd (step w o)) rs' /\
                  (forall e, snd (step w o) = RErr e -> fst (step w o) = w) /\
                  (tl' = tl \/ tl' = []) /\ (tl <> [] -> rs' = rs) /\
                  (exists qs, rs' = rs ++ qs).
Proof.
  intros I Hok. destruct tl as [|b0 tl0].
  - (* no tail: the theorem of Proofs/UKV.v *)
    destruct (step_refines H rs w o (invT_inv _ _ _ I) Hok) as [rs' [I' [S' E']]].
    exists rs', []. split; [apply inv_invT; exact I'|]. split; [exact S'|]. split; [exact E'|].
    split; [left; reflexivity|]. split; [intros X; contradiction|].
    destruct o as [i m|i|i k v|i k|i|n]; simpl in S'; try contradiction.
    + destruct S' as [_ ->]. exists []. rewrite app_nil_r. reflexivity.
    + destruct S' as [_ ->]. exists []. rewrite app_nil_r. reflexivity.
    + destruct (closed _ || _); [destruct S' as [_ ->]; exists []; rewrite app_nil_r; reflexivity|].
      destruct (assoc rs k); [destruct S' as [_ ->]; exists []; rewrite app_nil_r; reflexivity|].
      destruct (wfb k v); destruct S' as [_ ->]; [exists [(k, v)]; reflexivity|exists []; rewrite app_nil_r; reflexivity].
    + destruct S' as [-> _]. exists []. rewrite app_nil_r. reflexivity.
    + destruct S' as [-> _]. exists []. rewrite app_nil_r. reflexivity.
  - set (tl := b0 :: tl0) in *. assert (Hne : tl <> []) by discriminate.
    destruct w as [f hs]. pose proof I as [If It Ih Iwf Ind Is Io Ie In]. simpl in *.
    assert (Hnil : forall l : list kv, exists qs, l = l ++ qs) by (intros l; exists []; rewrite app_nil_r; reflexivity).
    destruct o as [i m|i|i k v|i k|i|n]; simpl in Hok; try contradiction.
    + (* Open *)
      cbn [step op_handle]. fold (hnth hs i).
      assert (Hi : (i < length hs)%nat) by (destruct m; apply Hok).
      destruct (closed (hnth hs i)) eqn:Ec.
      * destruct (open_spec H rs tl (hnth hs i) m Ih Iwf Ind It (Is i) Ec) as [h' [E [Hf [Hm Hc]]]].
        rewrite If, E. destruct m.
        -- (* a reader: the file is untouched *)
           exists rs, tl. simpl. split; [|split; [split; reflexivity|split; [intros e He; discriminate|split; [left; reflexivity|split; [reflexivity|apply Hnil]]]]].
           apply (invT_set H rs tl tl f _ hs i h' Hi I eq_refl It (full_snap _ _ _ Hf)).
           ++ intros _. exact Hf.
           ++ intros _ Hma. congruence.
           ++ intros _ j Hj Hcj. apply (In Hne j Hcj).
           ++ intros _. split; [intros _; exact Hm|]. intros j Hj Hcj. apply (In Hne j Hcj).
        -- (* a writer: alone (the discipline), and the torn tail is cut *)
           destruct Hok as [_ Hal]. specialize (Hal eq_refl).
           exists rs, []. simpl. split; [|split; [split; reflexivity|split; [intros e He; discriminate|split; [right; reflexivity|split; [reflexivity|apply Hnil]]]]].
           apply (invT_set H rs tl [] f _ hs i h' Hi I).
           ++ rewrite app_nil_r. reflexivity.
           ++ apply torn_nil.
           ++ apply full_snap; exact Hf.
           ++ intros _. exact Hf.
           ++ intros _ _ j Hj. apply Hal. exact Hj.
           ++ intros _ j Hj Hcj. pose proof (Hal j Hj) as X. fold (hnth hs j) in X. congruence.
           ++ intros X. contradiction.
      * (* already open *)
        unfold open_. rewrite Ec. simpl. unfold hnth. rewrite upd_nth_id by exact Hi.
        exists rs, tl. split; [exact I|split; [split; reflexivity|split; [intros e He; discriminate|split; [left; reflexivity|split; [reflexivity|apply Hnil]]]]].
    + (* Close *)
      exists rs, tl. cbn [step op_handle]. simpl.
      split; [|split; [split; reflexivity|split; [intros e He; discriminate|split; [left; reflexivity|split; [reflexivity|apply Hnil]]]]].
      apply (invT_set H rs tl tl f f hs i (close_ (nth i hs h0)) Hok I If It).
      * exact (Is i).
      * simpl. discriminate.
      * simpl. discriminate.
      * simpl. discriminate.
      * intros _. split; [simpl; discriminate|]. intros j Hj Hcj. apply (In Hne j Hcj).
    + (* Put: nobody writes while the tail is there *)
      cbn [step op_handle]. fold (hnth hs i).
      assert (Eg : closed (hnth hs i) || match md (hnth hs i) with MR => true | MA => false end = true).
      { destruct (closed (hnth hs i)) eqn:Ec; [reflexivity|]. rewrite (In Hne i Ec). reflexivity. }
      exists rs, tl. unfold put. rewrite Eg. simpl. unfold hnth. rewrite upd_nth_id by exact Hok.
      split; [exact I|split; [fold (hnth hs i); rewrite Eg; split; reflexivity|split; [reflexivity|split; [left; reflexivity|split; [reflexivity|apply Hnil]]]]].
    + (* Get *)
      exists rs, tl. cbn [step op_handle]. simpl. fold (hnth hs i).
      split; [exact I|split; [split; [reflexivity|]|split; [reflexivity|split; [left; reflexivity|split; [reflexivity|apply Hnil]]]]].
      destruct (closed (hnth hs i)) eqn:Ec.
      * unfold get. rewrite Ec. reflexivity.
      * pose proof (get_spec H rs tl (hnth hs i) k (Io i Ec) Ec) as G. rewrite <- If in G.
        rewrite G. destruct (assoc rs k); reflexivity.
    + (* Keys *)
      exists rs, tl. cbn [step op_handle]. simpl. fold (hnth hs i).
      split; [exact I|split; [split; [reflexivity|]|split; [intros e He; discriminate|split; [left; reflexivity|split; [reflexivity|apply Hnil]]]]].
      destruct (closed (hnth hs i)) eqn:Ec.
      * destruct (snap_keys H rs _ (Is i)) as [m Hm]. exists m. rewrite Hm. reflexivity.
      * destruct (Io i Ec) as [Ht _]. unfold keys. rewrite Ht, map_fst_index. reflexivity.
Qed.

(* ---------- the death of a writer inside its session ---------- *)
(* The file is cut to ANY length n at or beyond the length it had when the session began (byte position
   [end_from (len H) (firstn m rs)] = a block boundary), the dying process's handle object is gone: the
   records that were there when the session began are all still there, each record the session added is there
   completely or not at all, what follows them is a torn tail, and every other process's (closed, possibly
   stale) handle is still a consistent snapshot. *)
Lemma firstn_app_le {A} (a b : list A) n : (length a <= n)%nat -> firstn n (a ++ b) = a ++ firstn (n - length a) b.
Proof. intros L. rewrite firstn_app. rewrite firstn_all2 by exact L. reflexivity. Qed.

Lemma snap_prefix H rs m qs h : snap H (firstn m rs) h -> snap H (firstn m rs ++ qs) h.
Proof.
  intros [j [Ht He]]. exists (Nat.min j (length (firstn m rs))).
  assert (E : firstn (Nat.min j (length (firstn m rs))) (firstn m rs ++ qs) = firstn j (firstn m rs)).
  { rewrite firstn_app. replace (Nat.min j (length (firstn m rs)) - length (firstn m rs))%nat with 0%nat by lia.
    simpl. rewrite app_nil_r. destruct (Nat.le_ge_cases j (length (firstn m rs))) as [L|L].
    - rewrite Nat.min_l by exact L. reflexivity.
    - rewrite Nat.min_r by exact L. rewrite firstn_all. symmetry. apply firstn_all2. exact L. }
  rewrite E. split; assumption.
Qed.

Theorem writer_death H rs w i m n :
  Inv H rs w -> (i < length (snd w))%nat -> (m <= length rs)%nat ->
  (forall j, j <> i -> snap H (firstn m rs) (hnth (snd w) j) /\ closed (hnth (snd w) j) = true) ->
  (N.to_nat (end_from (len H) (firstn m rs)) <= n)%nat ->
  exists rs' tl, InvT H rs' tl (firstn n (fst w), upd (snd w) i h0) /\
                 (exists c, rs' = firstn m rs ++ c /\ exists j, c = firstn j (skipn m rs)).
Proof.
  intros [If Ih Iwf Ind Is Io Ie] Hi Hm Hoth Hn. destruct w as [f hs]. simpl in *.
  set (r0 := firstn m rs). set (ps := skipn m rs).
  assert (Ers : rs = r0 ++ ps) by (symmetry; apply firstn_skipn).
  assert (Hwp : Forall wfkv ps).
  { rewrite Ers in Iwf. apply Forall_app in Iwf. apply Iwf. }
  assert (Hlen0 : N.to_nat (end_from (len H) r0) = length (H ++ blocks r0)).
  { rewrite end_from_len. unfold len. rewrite app_length. lia. }
  fold r0 in Hn.
  set (n' := (n - length (H ++ blocks r0))%nat).
  assert (Ecut : firstn n f = crash_image H r0 ps n').
  { rewrite If, Ers, blocks_app, app_assoc. rewrite firstn_app_le by lia. unfold crash_image.
    rewrite <- app_assoc. reflexivity. }
  destruct (crash_image_split H r0 ps n' Hwp) as [tl [Htorn Esplit]].
  destruct (complete_prefix n' ps) as [j Hj].
  exists (r0 ++ complete n' ps), tl. split.
  - assert (Hwf' : Forall wfkv (r0 ++ complete n' ps)).
    { rewrite Ers in Iwf. apply Forall_app in Iwf. destruct Iwf as [A B]. apply Forall_app. split; [exact A|].
      rewrite Hj. apply Forall_forall. intros x Hx. rewrite Forall_forall in B. apply B. eapply in_firstn. exact Hx. }
    assert (Hnd' : NoDup (map fst (r0 ++ complete n' ps))).
    { rewrite Hj. replace (r0 ++ firstn j ps) with (firstn (length r0 + j) (r0 ++ ps)) by (rewrite firstn_app_2; reflexivity).
      rewrite <- firstn_map. apply firstn_incl_nodup. rewrite <- Ers. exact Ind. }
    constructor; simpl; try assumption.
    + rewrite Ecut. exact Esplit.
    + intros a. unfold hnth. destruct (Nat.eq_dec a i) as [->|Ha].
      * rewrite nth_upd_same by exact Hi. apply snap_h0.
      * rewrite nth_upd_other by assumption. apply snap_prefix. apply (Hoth a Ha).
    + intros a. unfold hnth. destruct (Nat.eq_dec a i) as [->|Ha].
      * rewrite nth_upd_same by exact Hi. simpl. discriminate.
      * rewrite nth_upd_other by assumption. intros Hc. exfalso. destruct (Hoth a Ha) as [_ X]. unfold hnth in X. congruence.
    + intros a b Hab. unfold hnth. destruct (Nat.eq_dec a i) as [->|Ha].
      * rewrite nth_upd_same by exact Hi. simpl. discriminate.
      * rewrite nth_upd_other by assumption. intros Hc. exfalso. destruct (Hoth a Ha) as [_ X]. unfold hnth in X. congruence.
    + intros _ a. unfold hnth. destruct (Nat.eq_dec a i) as [->|Ha].
      * rewrite nth_upd_same by exact Hi. simpl. discriminate.
      * rewrite nth_upd_other by assumption. intros Hc. exfalso. destruct (Hoth a Ha) as [_ X]. unfold hnth in X. congruence.
  - exists (complete n' ps). split; [reflexivity|]. exists j. exact Hj.
Qed.
