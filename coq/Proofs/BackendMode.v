(* The hypothesis of the session exit theorems -- the UKVFile's `mode` attribute is "r" or "a" (has_mode), which close()
   tests -- is an INVARIANT of the backend object: begin_read / begin_write establish it (the constructor sets self.mode
   from its argument; a reopen assigns `mode or self.mode`; nothing else on the way assigns it), so the entry part of a
   session hands the exit part what it needs.  Proved from the translated terms with the attribute frame theorem. *)
From Coq Require Import NArith ZArith Arith List Bool String Lia.
Import ListNotations.
From Molli Require Import Model.UKV Model.MiniPy Model.Backend Model.MiniPyB Gen.UKVCode Gen.BackendCode
  Proofs.UKVBase Proofs.UKVCode Proofs.MiniPyFrame Proofs.BackendCode.
Open Scope string_scope.
Open Scope N_scope.

Definition mode_ok (st : state) : Prop :=
  lookup_env (attrs st) "mode" = Some (VStr "r") \/ lookup_env (attrs st) "mode" = Some (VStr "a").

Definition has_mode (s : bstate) : Prop :=
  lookup_env (attrs (inner s)) "mode" = Some (VStr "r") \/ lookup_env (attrs (inner s)) "mode" = Some (VStr "a").

Lemma has_mode_inner s : has_mode s <-> mode_ok (inner s).
Proof. unfold has_mode, mode_ok. tauto. Qed.

Lemma exec_seq fuel a b s :
  exec fuel (SSeq a b) s = (let '(s1, o) := exec fuel a s in match o with ONormal => exec fuel b s1 | _ => (s1, o) end).
Proof. reflexivity. Qed.

Definition pres (fuel : nat) (c : stmt) : Prop := forall s, mode_ok s -> mode_ok (fst (exec fuel c s)).

Lemma pres_frame fuel c : sets_attr "mode" c = false -> pres fuel c.
Proof. intros H s M. unfold mode_ok in *. rewrite (exec_attr_frame "mode" fuel c s H). exact M. Qed.

Lemma pres_seq fuel a b : pres fuel a -> pres fuel b -> pres fuel (SSeq a b).
Proof.
  intros Pa Pb s M. rewrite exec_seq. pose proof (Pa s M) as A. destruct (exec fuel a s) as [s1 o]. cbn [fst] in A.
  destruct o; try exact A. apply Pb. exact A.
Qed.

Transparent open_prog.

(* open(mode): returns at once when the handle is open; otherwise assigns self.mode = mode or self.mode and never again *)
Lemma open_mode fuel s :
  (forall v, eval s (EOr (ELocal "mode") (EAttr "mode")) = Val v -> v = VStr "r" \/ v = VStr "a") ->
  mode_ok s -> mode_ok (fst (exec fuel open_prog s)).
Proof.
  intros Hv M. unfold open_prog.
  match goal with |- context [SSeq (SSetAttr "mode" ?e) ?r] => set (R := r) end.
  cbn [exec].
  destruct (eval s (ENot (EAttr "_closed"))) as [c|x]; [|exact M].
  destruct (truthy c).
  - cbn [exec eval]. exact M.
  - cbn [exec].
    destruct (eval s (EOr (ELocal "mode") (EAttr "mode"))) as [v|x] eqn:Ev; [|exact M].
    specialize (Hv v eq_refl).
    assert (F : sets_attr "mode" R = false) by (subst R; reflexivity).
    unfold mode_ok. rewrite (exec_attr_frame "mode" fuel R (set_attr s "mode" v) F).
    cbn [set_attr attrs]. rewrite lookup_set_same. destruct Hv as [-> | ->]; [left|right]; reflexivity.
Qed.

Opaque open_prog.

(* a reopen through the backend: self._ukvfile.open("r" / "a") *)
Lemma open_call_mode fuel st (m : mode) :
  mode_ok st -> mode_ok (fst (exec fuel open_prog (set_local st "mode" (VStr (mode_str m))))).
Proof.
  intros M. apply open_mode; [|exact M].
  intros v Ev. cbn [eval set_local locals] in Ev. rewrite lookup_set_same in Ev.
  destruct m; cbn [mode_str truthy] in Ev; inversion Ev; [left|right]; reflexivity.
Qed.

(* open() without a mode, as the constructor calls it: self.mode stays *)
Lemma open_none_mode fuel st :
  mode_ok st -> mode_ok (fst (exec fuel open_prog (set_local st "mode" VNone))).
Proof.
  intros M. apply open_mode; [|exact M].
  intros v Ev. cbn [eval set_local locals attrs] in Ev. rewrite lookup_set_same in Ev. cbn [truthy] in Ev.
  destruct M as [M|M]; rewrite M in Ev; inversion Ev; [left|right]; reflexivity.
Qed.

Transparent init_prog.

(* UKVFile(path, mode): self.mode = mode, then only other attributes are assigned and open() is called without a mode *)
Lemma init_mode fuel st (m : mode) :
  lookup_env (locals st) "mode" = Some (VStr (mode_str m)) ->
  forall st' o, exec fuel init_prog st = (st', o) -> (forall x, o <> ORaise x) -> mode_ok st'.
Proof.
  intros Lm st' o E Ho. unfold init_prog in E.
  match type of E with context [SSeq (SIf ?c (SSetAttr "mode" (ELocal "mode")) (SRaise XValue)) ?r] => set (R := r) in E; set (C := c) in E end.
  rewrite exec_seq in E. cbn [exec] in E.
  assert (Ec : exists v, eval st C = Val v /\ truthy v = true).
  { subst C. cbn [eval]. rewrite Lm. destruct m; cbn; eexists; split; reflexivity. }
  destruct Ec as [v [Ec Tv]]. rewrite Ec, Tv in E. cbn [exec eval] in E. rewrite Lm in E.
  set (st1 := set_attr st "mode" (VStr (mode_str m))) in E.
  assert (M1 : mode_ok st1).
  { unfold mode_ok, st1. cbn [set_attr attrs]. rewrite lookup_set_same. destruct m; [left|right]; reflexivity. }
  (* the rest: assignments of other attributes, then open() with mode=None *)
  assert (PR : pres fuel R).
  { subst R. repeat (apply pres_seq; [apply pres_frame; reflexivity|]).
    intros s0 M0. cbn [exec bind_args eval].
    pose proof (open_none_mode fuel s0 M0) as A.
    destruct (exec fuel open_prog (set_local s0 "mode" VNone)) as [s2 o2]. cbn [fst restore_locals] in *. exact A. }
  pose proof (PR st1 M1) as A. rewrite E in A. exact A.
Qed.

Opaque init_prog.

(* begin_read() / begin_write(): whenever the backend has its UKVFile afterwards, that object's mode is "r" or "a" *)
Lemma begin_mode fuel (m : mode) prog s :
  prog = BIf (BENot BEHasUkv)
             (BUkvNew init_prog [("path", BENone); ("mode", BEStr (mode_str m)); ("h1", BENone); ("h2", BENone); ("b0", BENone)])
             (BUkvCall open_prog [("mode", BEStr (mode_str m))]) ->
  (has_inner s = true -> has_mode s) ->
  let s' := fst (bexec fuel prog s) in has_inner s' = true -> has_mode s'.
Proof.
  intros -> Hm. cbn [bexec beval_bool]. destruct (has_inner s) eqn:Hi; cbn [negb].
  - (* reopen *)
    cbn [bexec negb bind_inner beval_val].
    pose proof (open_call_mode fuel (inner s) m (proj1 (has_mode_inner s) (Hm eq_refl))) as A.
    destruct (exec fuel open_prog (set_local (inner s) "mode" (VStr (mode_str m)))) as [st' o]. cbn [fst] in *.
    intros _. apply has_mode_inner. cbn [with_inner inner]. exact A.
  - (* first session: the constructor *)
    cbn [bexec bind_inner beval_val].
    set (st0 := set_local (set_local (set_local (set_local (set_local _ "path" VNone) "mode" (VStr (mode_str m))) "h1" VNone) "h2" VNone) "b0" VNone).
    assert (Lm : lookup_env (locals st0) "mode" = Some (VStr (mode_str m))).
    { unfold st0. cbn [set_local locals]. repeat (rewrite lookup_set_other by discriminate). apply lookup_set_same. }
    pose proof (init_mode fuel st0 m Lm) as I.
    destruct (exec fuel init_prog st0) as [st' o]. specialize (I st' o eq_refl).
    destruct o; cbn [fst has_inner with_inner]; try (intros _; apply has_mode_inner; cbn [inner]; apply I; intros x0; discriminate).
    rewrite Hi. discriminate.
Qed.
