(* C10: a RECORD of the ATOM / BOND section of a well-formed mol2 text damaged in place.

   Proofs/Parse.v treats whole lines (truncation at a line boundary, one line deleted / duplicated).  Here a record
   line is replaced by an arbitrary line l' -- in particular by each of its own prefixes (a file cut mid-record) or by
   itself with one token dropped:
     * fewer than 5 (ATOM) / 4 (BOND) tokens: an exception, whatever follows the line;
     * the LAST bond record replaced by ANY l': an exception, or the same blocks with exactly that record replaced by
       the tokens of l' (so nothing else of the text can be affected);
     * a cut at a token boundary of the last bond record: an exception, or exactly the molecules of the undamaged text.
   The count check of the repaired reader cannot see such damage (the number of records is unchanged): the column
   count of the record parser is the only guard, which is why it is stated as a theorem of its own. *)
From Coq Require Import List Bool Arith NArith ZArith Ascii String Lia.
From Molli Require Import Common.ParseStr Common.ParseStrFacts Model.Parse Proofs.Parse.
Import ListNotations.
Local Open Scope char_scope.
Local Open Scope list_scope.


Lemma m2wf_text_app bs1 l1 : m2wf_text bs1 l1 -> forall bs2 l2, m2wf_text bs2 l2 -> m2wf_text (bs1 ++ bs2) (l1 ++ l2).
Proof.
  induction 1 as [|b bs l ls Hb Ht IH]; intros bs2 l2 H2; [exact H2|].
  simpl. rewrite <- app_assoc. constructor; auto.
Qed.

Lemma nth_error_firstn_lt {A} (l : list A) : forall j i, (i < j)%nat -> nth_error (firstn j l) i = nth_error l i.
Proof.
  induction l as [|x l IH]; intros j i H; [now rewrite firstn_nil|].
  destruct j as [|j]; [lia|]. destruct i as [|i]; [reflexivity|]. simpl. apply IH. lia.
Qed.

Section RecordDamage.
Variables (bs0 : list m2block) (pre0 : list str).
Variables (ign : list str) (lm name counts mtype ctype status la lb : str) (als : list str).
Variables (h : m2hdr) (atoms : list m2atom).
Hypothesis Hpre : m2wf_text bs0 pre0.
Hypothesis Hign : Forall ignorable ign.
Hypothesis Hlm : is_sec lm SMolecule.
Hypothesis Hh : m2header (strip name) (strip counts) (strip ctype) = Ok h.
Hypothesis Hst : plain_status status.
Hypothesis Hla : is_sec la SAtom.
Hypothesis Hna : mh_natoms h = Z.of_nat (List.length atoms).
Hypothesis HFa : Forall2 atom_line_of als atoms.

(* the text up to and including the header of the molecule whose records are damaged *)
Definition upto_header (rest : list str) : list str :=
  pre0 ++ ign ++ lm :: name :: counts :: mtype :: ctype :: status :: rest.

Lemma header_state rest :
  m2run true m2init (upto_header rest) = m2run true (MRun MMain (V (Some h) (Some []) (Some []) (rev bs0))) rest.
Proof using Hpre Hign Hlm Hh Hst.
  clear - Hpre Hign Hlm Hh Hst. unfold upto_header.
  destruct (pre_state bs0 pre0 Hpre) as (out & p & Hp & E & Ho).
  rewrite <- m2run_app, E. rewrite <- m2run_app, run_ign by exact Hign.
  rewrite m2run_cons, step_molecule by assumption. do 5 rewrite m2run_cons.
  rewrite !step_hdr_push by (simpl; lia). rewrite (step_hdr_status _ _ _ _ _ _ _ _ _ h Hh Hst). now rewrite Ho.
Qed.

(* ---- an ATOM record with fewer than 5 tokens *)
Theorem read_mol2_short_atom j l' post : (j < List.length als)%nat -> few_tokens 5 l' ->
  exists e, read_mol2 true (upto_header (la :: firstn j als ++ l' :: post)) = Err e.
Proof using Hpre Hign Hlm Hh Hst Hla Hna HFa.
  intros Hj Hfew. unfold read_mol2. rewrite header_state.
  pose proof (Forall2_length HFa) as Hlen.
  rewrite m2run_cons, (step_atom_sec h _ _ la Hla).
  destruct (Z.leb_spec (mh_natoms h) 0) as [Hle|Hgt]; [lia|].
  rewrite <- m2run_app. rewrite (atoms_short _ _ _ (firstn j als) (firstn j atoms)).
  - rewrite m2run_cons, step_atom_few by exact Hfew. rewrite m2run_fail. eexists. reflexivity.
  - now apply Forall2_firstn.
  - rewrite firstn_length. lia.
Qed.

Variables (bls0 : list str) (bonds0 : list m2bond).
Hypothesis Hlb : is_sec lb SBond.

(* ---- a BOND record with fewer than 4 tokens; `bls0` are the records in front of it, the header declares more *)
Theorem read_mol2_short_bond nb l' post : mh_nbonds h = Some nb -> (Z.of_nat (List.length bls0) < nb)%Z ->
  Forall2 bond_line_of bls0 bonds0 -> few_tokens 4 l' ->
  exists e, read_mol2 true (upto_header (la :: als ++ lb :: bls0 ++ l' :: post)) = Err e.
Proof using Hpre Hign Hlm Hh Hst Hla Hna HFa Hlb.
  intros Hnb Hlt HFb Hfew. unfold read_mol2. rewrite header_state.
  rewrite (run_atoms_sec h atoms (rev bs0) la als Hna Hla HFa).
  rewrite m2run_cons, (step_bond_sec h _ _ lb nb Hlb Hnb).
  destruct (Z.leb_spec nb 0) as [Hle|Hgt]; [lia|].
  rewrite <- m2run_app. rewrite (bonds_short _ _ _ bls0 bonds0 HFb) by lia.
  rewrite m2run_cons, step_bond_few by exact Hfew. rewrite m2run_fail. eexists. reflexivity.
Qed.

(* ---- the LAST bond record of the text replaced by an arbitrary line *)
Hypothesis Hnb : mh_nbonds h = Some (Z.of_nat (S (List.length bonds0))).
Hypothesis HFb : Forall2 bond_line_of bls0 bonds0.

Definition with_last (l' : str) : list str := upto_header (la :: als ++ lb :: bls0 ++ [l']).

Lemma read_mol2_last_bond_ok l' : ~ few_tokens 4 l' ->
  read_mol2 true (with_last l') = Ok (bs0 ++ [mk_m2block h atoms (bonds0 ++ [mk_m2bond (split (strip l'))])]).
Proof using Hpre Hign Hlm Hh Hst Hla Hna HFa Hlb Hnb HFb.
  intros Hl'. unfold with_last, upto_header.
  assert (Hb : bond_line_of l' (mk_m2bond (split (strip l')))) by (split; [reflexivity|unfold few_tokens in Hl'; lia]).
  assert (HF : Forall2 bond_line_of (bls0 ++ [l']) (bonds0 ++ [mk_m2bond (split (strip l'))])).
  { apply Forall2_app; [exact HFb|constructor; [exact Hb|constructor]]. }
  assert (Hnb2 : mh_nbonds h = Some (Z.of_nat (List.length (bonds0 ++ [mk_m2bond (split (strip l'))])))).
  { rewrite app_length. simpl List.length. rewrite Hnb. f_equal. lia. }
  pose proof (m2wf_intro ign lm name counts mtype ctype status la als lb (bls0 ++ [l']) h atoms _
                Hign Hlm Hh Hst Hla Hna HFa Hlb Hnb2 HF) as Hwf.
  pose proof (m2wf_text_app bs0 pre0 Hpre _ _ (m2wt_cons _ [] _ [] Hwf m2wt_nil)) as Ht.
  rewrite app_nil_r in Ht. apply read_mol2_wf; [exact Ht|]. destruct bs0; discriminate.
Qed.

Theorem read_mol2_last_bond_line l' :
  (few_tokens 4 l' -> exists e, read_mol2 true (with_last l') = Err e) /\
  (~ few_tokens 4 l' ->
   read_mol2 true (with_last l') = Ok (bs0 ++ [mk_m2block h atoms (bonds0 ++ [mk_m2bond (split (strip l'))])])).
Proof using Hpre Hign Hlm Hh Hst Hla Hna HFa Hlb Hnb HFb.
  split; [|apply read_mol2_last_bond_ok].
  intros Hfew. unfold with_last.
  apply (read_mol2_short_bond (Z.of_nat (S (List.length bonds0))) l' [] Hnb); [|exact HFb|exact Hfew].
  rewrite (Forall2_length HFb). lia.
Qed.

(* ---- molecules: a cut at a token boundary of the last bond record *)
Lemma bond_conv_firstn btype n t j : (4 <= j)%nat ->
  m2_bond_conv btype n (mk_m2bond (firstn j t)) = m2_bond_conv btype n (mk_m2bond t).
Proof. intros Hj. unfold m2_bond_conv, nth_tok. cbn [mb_toks]. now rewrite !nth_error_firstn_lt by lia. Qed.

Lemma build_last_bond atype btype t j : (4 <= j)%nat ->
  mol2_build atype btype (mk_m2block h atoms (bonds0 ++ [mk_m2bond (firstn j t)])) =
  mol2_build atype btype (mk_m2block h atoms (bonds0 ++ [mk_m2bond t])).
Proof.
  intros Hj. unfold mol2_build. cbn [mk_hdr mk_atoms mk_bonds]. rewrite !map_app. cbn [map].
  now rewrite bond_conv_firstn by exact Hj.
Qed.

Theorem load_mol2_cut_token_boundary atype btype last l' j :
  ~ few_tokens 4 last -> split (strip l') = firstn j (split (strip last)) ->
  (exists e, load_mol2_lines true atype btype (with_last l') = Err e) \/
  load_mol2_lines true atype btype (with_last l') = load_mol2_lines true atype btype (with_last last).
Proof using Hpre Hign Hlm Hh Hst Hla Hna HFa Hlb Hnb HFb.
  intros Hlast Hs. unfold load_mol2_lines, res_bind.
  destruct (le_lt_dec 4 j) as [Hge|Hlt].
  - right. rewrite (read_mol2_last_bond_ok last Hlast).
    assert (Hl' : ~ few_tokens 4 l').
    { unfold few_tokens in *. rewrite Hs, firstn_length. lia. }
    rewrite (read_mol2_last_bond_ok l' Hl'). rewrite !map_app. cbn [map]. rewrite Hs.
    now rewrite build_last_bond by exact Hge.
  - left. destruct (proj1 (read_mol2_last_bond_line l')) as [e E].
    + unfold few_tokens. rewrite Hs, firstn_length. lia.
    + rewrite E. now exists e.
Qed.
End RecordDamage.
