(* C04: the lock discipline implies the session discipline of C02, in every reachable state of the
   process/lock transition system; mutual exclusion; no lock leak. *)
From Coq Require Import NArith Arith PeanoNat List Bool Lia String.
Import ListNotations.
From Molli Require Import Common.Exc Model.UKV Proofs.UKVBase Proofs.UKV Model.Session.

Local Notation length := List.length.

(* ---------- how one UKV step changes the open/mode flags of the handles ---------- *)
Lemma map_blocks_flags f h : md (snd (map_blocks f h)) = md h /\ closed (snd (map_blocks f h)) = closed h.
Proof.
  unfold map_blocks. destruct (shortcut f h); [split; reflexivity|].
  destruct (scan _ _ _ _ _) as [[t lk] p]. destruct (md h); simpl.
  - split; reflexivity.
  - destruct (N.ltb p (len f)); simpl; split; reflexivity.
Qed.

Lemma open_flags f h m : closed h = true ->
  md (snd (open_ f h m)) = m /\ closed (snd (open_ f h m)) = false.
Proof.
  intros Hc. unfold open_. rewrite Hc.
  destruct (map_blocks_flags f (mkh (toc h) (last h) (eof h) m false)) as [A B]. simpl in *. split; assumption.
Qed.

Lemma put_flags f h k v : md (snd (fst (put f h k v))) = md h /\ closed (snd (fst (put f h k v))) = closed h.
Proof.
  unfold put. destruct (closed h || _); [split; reflexivity|].
  destruct (lookup (toc h) k); [split; reflexivity|].
  destruct (enc_block k v); [|split; reflexivity]. destruct (eof h); split; reflexivity.
Qed.

Lemma step_other (w : world) o j :
  (op_handle o < length (snd w))%nat -> j <> op_handle o -> (forall n, o <> Crash n) ->
  hnth (snd (fst (step w o))) j = hnth (snd w) j.
Proof.
  destruct w as [f hs]. intros Hi Hj Hc. unfold hnth.
  destruct o as [i m|i|i k v|i k|i|n]; simpl in *.
  - destruct (open_ f (nth i hs h0) m) as [f' h']. simpl. apply nth_upd_other; assumption.
  - apply nth_upd_other; assumption.
  - destruct (put f (nth i hs h0) k v) as [[f' h'] r]. simpl. apply nth_upd_other; assumption.
  - reflexivity.
  - reflexivity.
  - exfalso. apply (Hc n). reflexivity.
Qed.

(* ---------- the invariant ---------- *)
Record J (s : lworld) : Prop := {
  j_mutex : forall p q, p <> q -> plock (pnth (procs s) p) = LWrite -> plock (pnth (procs s) q) = LFree;
  j_open : forall i, closed (hnth (snd (lw s)) i) = false ->
             let p := nth i (owner s) (length (procs s)) in
             pcur (pnth (procs s) p) = Some i /\ plock (pnth (procs s) p) <> LFree /\
             (md (hnth (snd (lw s)) i) = MA -> plock (pnth (procs s) p) = LWrite);
  j_cur : forall p i, pcur (pnth (procs s) p) = Some i -> (p < length (procs s))%nat
}.

Definition label_op (s : lworld) (l : label) : option op :=
  match l with
  | LOpen p i => Some (Open i (match plock (pnth (procs s) p) with LWrite => MA | _ => MR end))
  | LDo p o => Some o
  | LClose p => option_map Close (pcur (pnth (procs s) p))
  | LAcq _ _ | LRel _ => None
  end.

Lemma pnth_upd_same ps p x : (p < length ps)%nat -> pnth (upd ps p x) p = x.
Proof. intros H. unfold pnth. apply nth_upd_same; exact H. Qed.
Lemma pnth_upd_other ps p q x : (p < length ps)%nat -> q <> p -> pnth (upd ps p x) q = pnth ps q.
Proof. intros H Hq. unfold pnth. apply nth_upd_other; assumption. Qed.

Lemma others_ok_spec ps p f : forall k,
  others_ok ps p k f = true -> forall q, q <> p -> (k <= q)%nat -> (q < k + length ps)%nat ->
  f (plock (nth (q - k) ps p0)) = true.
Proof.
  induction ps as [|a ps IH]; intros k H q Hq Hk Hl; simpl in *; [lia|].
  apply andb_prop in H. destruct H as [H1 H2].
  destruct (Nat.eq_dec q k) as [->|Hne].
  - rewrite Nat.sub_diag. simpl. apply orb_prop in H1. destruct H1 as [H1|H1]; [|exact H1].
    apply Nat.eqb_eq in H1. congruence.
  - replace (q - k)%nat with (S (q - S k)) by lia. simpl. apply (IH (S k) H2 q Hq); lia.
Qed.

Lemma others_ok_all ps p f : others_ok ps p 0 f = true -> f LFree = true ->
  forall q, q <> p -> f (plock (pnth ps q)) = true.
Proof.
  intros H Hf q Hq. unfold pnth. destruct (Nat.lt_ge_cases q (length ps)) as [L|L].
  - pose proof (others_ok_spec ps p f 0 H q Hq) as A. rewrite Nat.sub_0_r in A. apply A; lia.
  - rewrite nth_overflow by exact L. exact Hf.
Qed.

Definition mode_of (k : lk) : mode := match k with LWrite => MA | _ => MR end.

Lemma lopen_sound w ps ow p i k w' r :
  J (mkl w ps ow) -> plock (pnth ps p) = k -> k <> LFree -> pcur (pnth ps p) = None ->
  (p < length ps)%nat -> (i < length (snd w))%nat -> nth i ow (length ps) = p ->
  closed (nth i (snd w) h0) = true -> step w (Open i (mode_of k)) = (w', r) ->
  J (mkl w' (upd ps p (mkp k (Some i))) ow) /\ ok_op w (Open i (mode_of k)).
Proof.
  intros [Jm Jo Jc] Lk Hk Lc Lp Li Lo Lcl Es. simpl in *.
  assert (Hflags : md (hnth (snd w') i) = mode_of k /\ closed (hnth (snd w') i) = false).
  { destruct w as [f hs]. simpl in *. destruct (open_ f (nth i hs h0) (mode_of k)) as [f' h'] eqn:Eo.
    injection Es as Hw Hr. rewrite <- Hw. simpl. unfold hnth. rewrite nth_upd_same by exact Li.
    pose proof (open_flags f (nth i hs h0) (mode_of k) Lcl) as Fl. rewrite Eo in Fl. exact Fl. }
  assert (Hoth : forall j, j <> i -> hnth (snd w') j = hnth (snd w) j).
  { intros j Hj. pose proof (step_other w (Open i (mode_of k)) j Li Hj) as A. rewrite Es in A. apply A. intros n; discriminate. }
  split.
  - constructor; simpl.
    + intros a b Hab Ha. destruct (Nat.eq_dec a p) as [Eap|Hap].
      * subst a. rewrite pnth_upd_same in Ha by exact Lp. simpl in Ha.
        rewrite pnth_upd_other by (try assumption; intro; subst; apply Hab; reflexivity).
        apply Jm with p; [exact Hab|congruence].
      * rewrite pnth_upd_other in Ha by assumption. destruct (Nat.eq_dec b p) as [Ebp|Hbp].
        -- subst b. exfalso. pose proof (Jm a p Hap Ha). congruence.
        -- rewrite pnth_upd_other by assumption. apply Jm with a; assumption.
    + intros j Hj. rewrite length_upd by exact Lp. destruct (Nat.eq_dec j i) as [Eji|Hji].
      * subst j. rewrite Lo, pnth_upd_same by exact Lp. simpl. destruct Hflags as [Hm _].
        split; [reflexivity|split; [exact Hk|]]. intros Hma. rewrite Hm in Hma. destruct k; simpl in Hma; congruence.
      * rewrite Hoth in * by exact Hji. destruct (Jo j Hj) as [A [B C]].
        destruct (Nat.eq_dec (nth j ow (length ps)) p) as [Hp|Hp].
        -- exfalso. rewrite Hp in A. congruence.
        -- rewrite pnth_upd_other by assumption. repeat split; assumption.
    + intros a j Ha. rewrite length_upd by exact Lp. destruct (Nat.eq_dec a p) as [Eap|Hap]; [subst a; exact Lp|].
      rewrite pnth_upd_other in Ha by assumption. apply (Jc a j Ha).
  - destruct k; simpl; try contradiction.
    + (* read lock: any other open handle is a reader *)
      split; [exact Li|]. intros _ j Hj Hcj. fold (hnth (snd w) j) in *. destruct (Jo j Hcj) as [A [B C]].
      destruct (md (hnth (snd w) j)) eqn:Em; [reflexivity|exfalso].
      specialize (C eq_refl). destruct (Nat.eq_dec (nth j ow (length ps)) p) as [Hp|Hp].
      * rewrite Hp in A. congruence.
      * pose proof (Jm _ p Hp C). congruence.
    + (* write lock: every other handle is closed *)
      split; [exact Li|]. intros _ j Hj. fold (hnth (snd w) j).
      destruct (closed (hnth (snd w) j)) eqn:Hcj; [reflexivity|exfalso].
      destruct (Jo j Hcj) as [A [B C]]. destruct (Nat.eq_dec (nth j ow (length ps)) p) as [Hp|Hp].
      * rewrite Hp in A. congruence.
      * pose proof (Jm p _ (not_eq_sym Hp) Lk). contradiction.
Qed.

(* The central theorem: every enabled transition of the lock system performs a UKV operation that the
   session discipline of C02 allows, and preserves the invariant. *)
Theorem lstep_sound s l s' r :
  J s -> lstep s l = Some (s', r) ->
  J s' /\
  match label_op s l with
  | Some o => ok_op (lw s) o /\ step (lw s) o = (lw s', r)
  | None => lw s' = lw s
  end.
Proof.
  intros JJ E. destruct s as [w ps ow]. pose proof JJ as [Jm Jo Jc]. simpl in *.
  destruct l as [p wr|p i|p o|p|p]; simpl in E.
  - (* LAcq *)
    destruct (Nat.ltb p (length ps)) eqn:Lp; [|discriminate]. apply Nat.ltb_lt in Lp.
    destruct (lk_eqb (plock (pnth ps p)) LFree) eqn:Lf; [|discriminate].
    destruct (others_ok ps p 0 _) eqn:Lo; [|discriminate]. simpl in E. inversion E; subst; clear E.
    assert (Hfree : plock (pnth ps p) = LFree) by (destruct (plock (pnth ps p)); simpl in Lf; congruence).
    split; [|reflexivity]. constructor; simpl.
    + intros a b Hab Ha. destruct (Nat.eq_dec a p) as [->|Hap].
      * rewrite pnth_upd_same in Ha by exact Lp. simpl in Ha. destruct wr; [|discriminate].
        rewrite pnth_upd_other by (try assumption; intro; subst; apply Hab; reflexivity).
        pose proof (others_ok_all ps p _ Lo eq_refl b (not_eq_sym Hab)) as A. simpl in A.
        destruct (plock (pnth ps b)); simpl in A; congruence.
      * rewrite pnth_upd_other in Ha by assumption.
        destruct (Nat.eq_dec b p) as [->|Hbp].
        -- exfalso. pose proof (others_ok_all ps p _ Lo) as A.
           assert (F : (fun k : lk => if wr then lk_eqb k LFree else negb (lk_eqb k LWrite)) LFree = true) by (destruct wr; reflexivity).
           specialize (A F a Hap). simpl in A. rewrite Ha in A. destruct wr; simpl in A; discriminate.
        -- rewrite pnth_upd_other by assumption. apply Jm with a; assumption.
    + intros i Hi. rewrite length_upd by exact Lp. destruct (Jo i Hi) as [A [B C]].
      destruct (Nat.eq_dec (nth i ow (length ps)) p) as [Hp|Hp].
      * exfalso. rewrite Hp in B. apply B. exact Hfree.
      * rewrite pnth_upd_other by assumption. repeat split; assumption.
    + intros a i Ha. rewrite length_upd by exact Lp. destruct (Nat.eq_dec a p) as [->|Hap]; [exact Lp|].
      rewrite pnth_upd_other in Ha by assumption. apply (Jc a i Ha).
  - (* LOpen *)
    destruct (plock (pnth ps p)) eqn:Lk; try discriminate;
    destruct (pcur (pnth ps p)) eqn:Lc; try discriminate;
    destruct (Nat.ltb p (length ps)) eqn:Lp; try discriminate; apply Nat.ltb_lt in Lp;
    destruct (Nat.ltb i (length (snd w))) eqn:Li; try discriminate; apply Nat.ltb_lt in Li;
    destruct (Nat.eqb (nth i ow (length ps)) p) eqn:Lo; try discriminate; apply Nat.eqb_eq in Lo;
    destruct (closed (nth i (snd w) h0)) eqn:Lcl; try discriminate; simpl in E.
    + destruct (step w (Open i MR)) as [w' r'] eqn:Es. inversion E; subst s' r'; clear E.
      assert (Hk : LRead <> LFree) by discriminate.
      destruct (lopen_sound w ps ow p i LRead w' r JJ Lk Hk Lc Lp Li Lo Lcl Es) as [A B].
      split; [exact A|]. simpl. rewrite Lk. split; [exact B|exact Es].
    + destruct (step w (Open i MA)) as [w' r'] eqn:Es. inversion E; subst s' r'; clear E.
      assert (Hk : LWrite <> LFree) by discriminate.
      destruct (lopen_sound w ps ow p i LWrite w' r JJ Lk Hk Lc Lp Li Lo Lcl Es) as [A B].
      split; [exact A|]. simpl. rewrite Lk. split; [exact B|exact Es].
  - (* LDo *)
    destruct (pcur (pnth ps p)) as [i|] eqn:Lc; [|discriminate].
    destruct o as [j m|j|j k v|j k|j|n]; try discriminate;
    destruct (Nat.eqb i j) eqn:Eij; try discriminate; apply Nat.eqb_eq in Eij; subst j;
    destruct (Nat.ltb i (length (snd w))) eqn:Li; try discriminate; apply Nat.ltb_lt in Li; simpl in E;
    match type of E with context [step w ?o] => destruct (step w o) as [w' r'] eqn:Es end;
    inversion E; subst s' r'; clear E; (split; [|split; [exact Li|exact Es]]).
    + (* Put keeps every flag *)
      assert (Hfl : forall j, closed (hnth (snd w') j) = closed (hnth (snd w) j) /\ md (hnth (snd w') j) = md (hnth (snd w) j)).
      { intros j. destruct (Nat.eq_dec j i) as [->|Hj].
        - destruct w as [f hs]. simpl in *. destruct (put f (nth i hs h0) k v) as [[f' h'] rr] eqn:Ep. inversion Es; subst. simpl.
          unfold hnth. rewrite nth_upd_same by exact Li. pose proof (put_flags f (nth i hs h0) k v) as A. rewrite Ep in A. simpl in A. tauto.
        - pose proof (step_other w (Put i k v) j Li Hj) as A. rewrite Es in A. simpl in A. rewrite A by (intros n; discriminate). tauto. }
      constructor; simpl; [exact Jm| |exact Jc].
      intros j Hj. destruct (Hfl j) as [A B]. rewrite A in Hj. rewrite B. apply Jo. exact Hj.
    + simpl in Es. destruct w as [f hs]. inversion Es; subst. constructor; assumption.
    + simpl in Es. destruct w as [f hs]. inversion Es; subst. constructor; assumption.
  - (* LClose *)
    destruct (pcur (pnth ps p)) as [i|] eqn:Lc; [|discriminate].
    destruct (Nat.ltb p (length ps)) eqn:Lp; [|discriminate]. apply Nat.ltb_lt in Lp.
    destruct (Nat.ltb i (length (snd w))) eqn:Li; [|discriminate]. apply Nat.ltb_lt in Li. simpl in E.
    destruct (step w (Close i)) as [w' r'] eqn:Es. inversion E; subst; clear E.
    assert (Hcl : closed (hnth (snd w') i) = true).
    { destruct w as [f hs]. simpl in Es. inversion Es; subst. simpl. unfold hnth. rewrite nth_upd_same by exact Li. reflexivity. }
    assert (Hoth : forall j, j <> i -> hnth (snd w') j = hnth (snd w) j)
      by (intros j Hj; pose proof (step_other w (Close i) j Li Hj) as A; rewrite Es in A; apply A; intros n; discriminate).
    split; [constructor; simpl|unfold label_op; simpl; rewrite Lc; simpl; split; [exact Li|exact Es]].
    + intros a b Hab Ha. destruct (Nat.eq_dec a p) as [->|Hap].
      * rewrite pnth_upd_same in Ha by exact Lp. simpl in Ha.
        rewrite pnth_upd_other by (try assumption; intro; subst; apply Hab; reflexivity). apply Jm with p; assumption.
      * rewrite pnth_upd_other in Ha by assumption. destruct (Nat.eq_dec b p) as [->|Hbp].
        -- rewrite pnth_upd_same by exact Lp. simpl. apply Jm with a; assumption.
        -- rewrite pnth_upd_other by assumption. apply Jm with a; assumption.
    + intros j Hj. rewrite length_upd by exact Lp. destruct (Nat.eq_dec j i) as [->|Hji]; [congruence|].
      rewrite Hoth in * by exact Hji. destruct (Jo j Hj) as [A [B C]].
      destruct (Nat.eq_dec (nth j ow (length ps)) p) as [Hp|Hp].
      * exfalso. rewrite Hp in A. congruence.
      * rewrite pnth_upd_other by assumption. repeat split; assumption.
    + intros a j Ha. rewrite length_upd by exact Lp. destruct (Nat.eq_dec a p) as [->|Hap]; [exact Lp|].
      rewrite pnth_upd_other in Ha by assumption. apply (Jc a j Ha).
  - (* LRel *)
    destruct (plock (pnth ps p)) eqn:Lk; try discriminate;
    destruct (pcur (pnth ps p)) eqn:Lc; try discriminate;
    destruct (Nat.ltb p (length ps)) eqn:Lp; try discriminate; apply Nat.ltb_lt in Lp;
    inversion E; subst; clear E; (split; [|reflexivity]); constructor; simpl.
    all: try (intros a b Hab Ha; destruct (Nat.eq_dec a p) as [->|Hap];
              [rewrite pnth_upd_same in Ha by exact Lp; simpl in Ha; discriminate
              |rewrite pnth_upd_other in Ha by assumption; destruct (Nat.eq_dec b p) as [->|Hbp];
               [rewrite pnth_upd_same by exact Lp; reflexivity
               |rewrite pnth_upd_other by assumption; apply Jm with a; assumption]]).
    all: try (intros j Hj; rewrite length_upd by exact Lp; destruct (Jo j Hj) as [A [B C]];
              destruct (Nat.eq_dec (nth j ow (length ps)) p) as [Hp|Hp];
              [exfalso; rewrite Hp in A; congruence
              |rewrite pnth_upd_other by assumption; repeat split; assumption]).
    all: try (intros a j Ha; rewrite length_upd by exact Lp; destruct (Nat.eq_dec a p) as [->|Hap]; [exact Lp|];
              rewrite pnth_upd_other in Ha by assumption; apply (Jc a j Ha)).
Qed.
