(* C15: bonds_with_atom / connected_atoms / n_bonds_with_atom / bonded_valence of Model/Graph.v agree
   with the bond list. *)
From Coq Require Import Arith List Bool Lia QArith.
From Molli Require Import Model.Graph Proofs.Graph Proofs.GraphTop.
Import ListNotations.
Open Scope nat_scope.

Definition bond_at (g : graph) (i : nat) : nat * nat := nth i g (0, 0).
(* bond number i touches atom a *)
Definition incident (g : graph) (a i : nat) : bool := bond_has (bond_at g i) a.

Lemma bwa_from_filter : forall g k a,
  bwa_from k g a = filter (fun i => bond_has (nth (i - k) g (0, 0)) a) (seq k (length g)).
Proof.
  induction g as [|b g IH]; intros k a; cbn [bwa_from length seq filter]; [reflexivity|].
  rewrite Nat.sub_diag. cbn [nth]. rewrite IH.
  assert (E : filter (fun i => bond_has (nth (i - S k) g (0, 0)) a) (seq (S k) (length g)) =
              filter (fun i => bond_has (nth (i - k) (b :: g) (0, 0)) a) (seq (S k) (length g))).
  { apply filter_ext_in. intros i Hi. apply in_seq in Hi.
    replace (i - k) with (S (i - S k)) by lia. reflexivity. }
  rewrite E. destruct (bond_has b a); reflexivity.
Qed.

(* bonds_with_atom = the positions of the bond list whose bond contains the atom, in list order *)
Theorem bonds_with_atom_filter g a :
  bonds_with_atom g a = filter (incident g a) (seq 0 (length g)).
Proof.
  unfold bonds_with_atom. rewrite bwa_from_filter. apply filter_ext. intros i. now rewrite Nat.sub_0_r.
Qed.

Theorem bonds_with_atom_spec g a i :
  In i (bonds_with_atom g a) <-> exists b, nth_error g i = Some b /\ (fst b = a \/ snd b = a).
Proof.
  rewrite bonds_with_atom_filter, filter_In, in_seq. unfold incident, bond_at. split.
  - intros [Hi Hb]. exists (nth i g (0, 0)). split; [apply nth_error_nth'; lia|].
    now apply bond_has_true.
  - intros [b [Hn Hb]]. assert (Hi : i < length g) by (apply nth_error_Some; congruence).
    split; [lia|]. rewrite (nth_error_nth _ _ _ Hn). now apply bond_has_true.
Qed.

(* connected_atoms = the other end of each of those bonds, in the same order *)
Lemma connected_atoms_from : forall g k a,
  connected_atoms g a = map (fun i => bond_other (nth (i - k) g (0, 0)) a) (bwa_from k g a).
Proof.
  unfold connected_atoms. induction g as [|b g IH]; intros k a; [reflexivity|].
  cbn [filter bwa_from].
  assert (E : map (fun i => bond_other (nth (i - S k) g (0, 0)) a) (bwa_from (S k) g a) =
              map (fun i => bond_other (nth (i - k) (b :: g) (0, 0)) a) (bwa_from (S k) g a)).
  { apply map_ext_in. intros i Hi. rewrite bwa_from_filter in Hi. apply filter_In in Hi.
    destruct Hi as [Hi _]. apply in_seq in Hi. replace (i - k) with (S (i - S k)) by lia. reflexivity. }
  destruct (bond_has b a); cbn [map].
  - rewrite Nat.sub_diag. cbn [nth]. f_equal. rewrite (IH (S k) a). exact E.
  - rewrite (IH (S k) a). exact E.
Qed.

Theorem connected_atoms_bonds g a :
  connected_atoms g a = map (fun i => bond_other (bond_at g i) a) (bonds_with_atom g a).
Proof.
  unfold bonds_with_atom. rewrite (connected_atoms_from g 0 a). apply map_ext. intros i.
  unfold bond_at. now rewrite Nat.sub_0_r.
Qed.

Theorem connected_atoms_spec g a b : In b (connected_atoms g a) <-> adj g a b.
Proof. apply connected_atoms_adj. Qed.

Theorem connected_atoms_sym g a b : In b (connected_atoms g a) <-> In a (connected_atoms g b).
Proof. rewrite !connected_atoms_adj. split; apply adj_sym. Qed.

(* n_bonds_with_atom = number of bonds containing the atom *)
Theorem n_bonds_with_atom_count g a :
  n_bonds_with_atom g a = length (bonds_with_atom g a) /\
  n_bonds_with_atom g a = length (filter (fun b => bond_has b a) g).
Proof.
  unfold n_bonds_with_atom. split.
  - rewrite connected_atoms_bonds. apply map_length.
  - unfold connected_atoms. apply map_length.
Qed.

(* bonded_valence = sum of the orders of exactly those bonds, added in bond-list order starting from 0 *)
Theorem bonded_valence_fold g ord a :
  bonded_valence g ord a = fold_left Qplus (map ord (filter (incident g a) (seq 0 (length g)))) 0%Q.
Proof.
  unfold bonded_valence. rewrite bonds_with_atom_filter.
  generalize 0%Q. induction (filter (incident g a) (seq 0 (length g))) as [|i l IH]; intros z; [reflexivity|].
  cbn [fold_left map]. apply IH.
Qed.

(* ... which is the sum over ALL bonds of (order if the bond contains the atom, else 0) *)
Lemma fold_left_Qplus_compat l : forall z z', (z == z')%Q -> (fold_left Qplus l z == fold_left Qplus l z')%Q.
Proof.
  induction l as [|x l IH]; intros z z' H; cbn [fold_left]; [exact H|]. apply IH. now rewrite H.
Qed.

Lemma fold_filter_sum (p : nat -> bool) (ord : nat -> Q) l : forall z,
  (fold_left Qplus (map ord (filter p l)) z ==
   fold_left Qplus (map (fun i => if p i then ord i else 0) l) z)%Q.
Proof.
  induction l as [|i l IH]; intros z; [reflexivity|].
  cbn [filter map fold_left]. destruct (p i); cbn [map fold_left].
  - apply IH.
  - rewrite IH. apply fold_left_Qplus_compat. now rewrite Qplus_0_r.
Qed.

Theorem bonded_valence_sum g ord a :
  (bonded_valence g ord a ==
   fold_left Qplus (map (fun i => if incident g a i then ord i else 0) (seq 0 (length g))) 0)%Q.
Proof. rewrite bonded_valence_fold. apply fold_filter_sum. Qed.

(* handshake: in a graph without self loops on atoms 0..n-1 the bond counts add up to twice the number of bonds *)
Lemma list_sum_cons x l : list_sum (x :: l) = x + list_sum l.
Proof. reflexivity. Qed.

Lemma list_sum_zero (f : nat -> nat) l : (forall a, In a l -> f a = 0) -> list_sum (map f l) = 0.
Proof.
  induction l as [|a l IH]; intros H; [reflexivity|]. cbn [map]. rewrite list_sum_cons, H by now left.
  rewrite IH; [reflexivity|]. intros b Hb. apply H. now right.
Qed.

Lemma list_sum_indicator x n : x < n -> list_sum (map (fun a => if x =? a then 1 else 0) (seq 0 n)) = 1.
Proof.
  induction n as [|n IH]; intros Hx; [lia|].
  rewrite seq_S, map_app, list_sum_app. cbn [map]. rewrite list_sum_cons. cbn [list_sum fold_right Nat.add].
  destruct (Nat.eq_dec x n) as [->|Hne].
  - rewrite Nat.eqb_refl. rewrite list_sum_zero; [lia|].
    intros a Ha. apply in_seq in Ha. destruct (n =? a) eqn:E; [apply Nat.eqb_eq in E; lia|reflexivity].
  - rewrite IH by lia. apply Nat.eqb_neq in Hne. rewrite Hne. lia.
Qed.

Lemma list_sum_map_add (f h : nat -> nat) l :
  list_sum (map (fun a => f a + h a) l) = list_sum (map f l) + list_sum (map h l).
Proof. induction l as [|a l IH]; [reflexivity|]. cbn [map]. rewrite !list_sum_cons. lia. Qed.

Theorem handshake n g :
  (forall b, In b g -> fst b < n /\ snd b < n /\ fst b <> snd b) ->
  list_sum (map (n_bonds_with_atom g) (seq 0 n)) = 2 * length g.
Proof.
  induction g as [|[x y] g IH]; intros Hwf.
  - cbn [length]. apply list_sum_zero. reflexivity.
  - destruct (Hwf (x, y) (or_introl eq_refl)) as (Hx & Hy & Hxy). cbn [fst snd] in *.
    assert (E : forall a, n_bonds_with_atom ((x, y) :: g) a =
                          ((if x =? a then 1 else 0) + (if y =? a then 1 else 0)) + n_bonds_with_atom g a).
    { intros a. unfold n_bonds_with_atom, connected_atoms. cbn [filter]. unfold bond_has at 1. cbn [fst snd].
      destruct (x =? a) eqn:E1; destruct (y =? a) eqn:E2; cbn [orb map length]; try lia.
      apply Nat.eqb_eq in E1, E2. congruence. }
    rewrite (map_ext _ _ E), list_sum_map_add, list_sum_map_add, !list_sum_indicator by assumption.
    rewrite IH; [cbn [length]; lia|]. intros b Hb. apply Hwf. now right.
Qed.

(* ================================================================ simple graphs (the molecular graphs of the property) *)
Definition count_joins (g : graph) (x y : nat) : nat := length (filter (fun b => joins b x y) g).
(* no self loops, at most one bond between two atoms *)
Definition simple (g : graph) : Prop :=
  (forall b, In b g -> fst b <> snd b) /\ (forall x y, count_joins g x y <= 1).

Lemma filter_partition_length {A} (p : A -> bool) (l : list A) :
  length (filter p l) + length (filter (fun x => negb (p x)) l) = length l.
Proof. induction l as [|a l IH]; [reflexivity|]. cbn [filter]. destruct (p a); cbn [negb length]; lia. Qed.

Lemma adj_count_joins g x y : adj g x y -> 1 <= count_joins g x y.
Proof.
  intros Ha. unfold count_joins.
  assert (H : exists b, In b (filter (fun b => joins b x y) g)).
  { destruct Ha as [H|H]; [exists (x, y)|exists (y, x)]; apply filter_In; (split; [exact H|]);
      apply joins_true; cbn [fst snd]; tauto. }
  destruct H as [b Hb]. destruct (filter _ g); [destruct Hb|cbn [length]; lia].
Qed.

(* in a simple graph `remove_bond g x y` deletes exactly the one bond between x and y *)
Theorem remove_bond_simple g x y : simple g -> adj g x y -> S (length (remove_bond g x y)) = length g.
Proof.
  intros [_ Hc] Ha. pose proof (filter_partition_length (fun b => joins b x y) g) as Hp.
  pose proof (adj_count_joins g x y Ha). specialize (Hc x y). unfold count_joins, remove_bond in *. lia.
Qed.

Lemma simple_tail b g : simple (b :: g) -> simple g.
Proof.
  intros [Hl Hc]. split; [intros b' Hb'; apply Hl; now right|].
  intros x y. specialize (Hc x y). unfold count_joins in *. cbn [filter] in Hc.
  destruct (joins b x y); cbn [length] in Hc; lia.
Qed.

(* ... and no atom is listed twice among the neighbours *)
Theorem connected_atoms_nodup g a : simple g -> NoDup (connected_atoms g a).
Proof.
  induction g as [|b g IH]; intros Hs; [constructor|].
  specialize (IH (simple_tail _ _ Hs)). unfold connected_atoms in *. cbn [filter].
  destruct (bond_has b a) eqn:Eb; [|exact IH]. cbn [map]. constructor; [|exact IH].
  intros Hin. fold (connected_atoms g a) in Hin. apply connected_atoms_adj in Hin.
  apply adj_count_joins in Hin. destruct Hs as [_ Hc]. specialize (Hc a (bond_other b a)).
  unfold count_joins in *. cbn [filter] in Hc.
  assert (Hj : joins b a (bond_other b a) = true).
  { apply joins_true. apply bond_has_true in Eb. unfold bond_other.
    destruct (fst b =? a) eqn:E1.
    - apply Nat.eqb_eq in E1. now left.
    - apply Nat.eqb_neq in E1. destruct Eb as [Eb|Eb]; [contradiction|]. now right. }
  rewrite Hj in Hc. cbn [length] in Hc. lia.
Qed.

Lemma joins_comm b x y : joins b x y = joins b y x.
Proof. unfold joins. apply orb_comm. Qed.

(* a decision procedure for `simple`, used to exhibit simple graphs *)
Fixpoint simple_b (g : graph) : bool :=
  match g with
  | [] => true
  | b :: r => negb (fst b =? snd b) && forallb (fun b' => negb (joins b' (fst b) (snd b))) r && simple_b r
  end.

Lemma simple_b_sound g : simple_b g = true -> simple g.
Proof.
  induction g as [|b g IH]; intros H.
  - split; [intros b []|intros x y; cbn; lia].
  - cbn [simple_b] in H. apply andb_true_iff in H. destruct H as [H Hs]. apply andb_true_iff in H.
    destruct H as [Hl Hf]. destruct (IH Hs) as [Hl' Hc']. split.
    + intros b' [<-|Hb']; [|now apply Hl']. apply negb_true_iff, Nat.eqb_neq in Hl. exact Hl.
    + intros x y. unfold count_joins in *. cbn [filter]. destruct (joins b x y) eqn:Ej; [|apply Hc'].
      assert (E : filter (fun b' => joins b' x y) g = []).
      { rewrite forallb_forall in Hf. clear -Hf Ej. induction g as [|b' g IHg]; [reflexivity|]. cbn [filter].
        assert (Hb' : joins b' x y = false).
        { specialize (Hf b' (or_introl eq_refl)). apply negb_true_iff in Hf. apply joins_true in Ej.
          destruct Ej as [[<- <-]|[<- <-]]; [exact Hf|]. now rewrite joins_comm. }
        rewrite Hb'. apply IHg. intros z Hz. apply Hf. now right. }
      rewrite E. cbn. lia.
Qed.
