(* C04 + C03: every schedule of the lock/process system INCLUDING process deaths at arbitrary points keeps the
   library an insert-only map of complete records: what completed sessions wrote is never lost, a dying writer
   leaves each of its own records completely or not at all (plus a torn tail no reader ever sees and the next
   writer cuts), and the lock of the dead process is free for the others. *)
From Coq Require Import NArith Arith PeanoNat List Bool Lia String.
Import ListNotations.
From Molli Require Import Common.Exc Model.UKV Proofs.UKVBase Proofs.UKV Proofs.UKVCrash Proofs.UKVTorn
  Model.Session Proofs.Session Proofs.SessionTop Model.SessionDeath.
Local Notation length := List.length.

Lemma is_writer_true h : is_writer h = true <-> closed h = false /\ md h = MA.
Proof.
  unfold is_writer. destruct (closed h), (md h); simpl; split; intros X; try discriminate; try (split; reflexivity);
  destruct X; discriminate.
Qed.
Lemma is_writer_false h : is_writer h = false <-> closed h = true \/ md h = MR.
Proof.
  unfold is_writer. destruct (closed h), (md h); simpl; split; intros X; try discriminate; auto;
  destruct X; discriminate.
Qed.

(* cm: the records of completed sessions (and of sessions that died, as far as they were complete): "committed".
   rs: the complete records now in the file (cm plus what the writing session in progress has appended). *)
Record JD (H : bytes) (cm rs : list kv) (s : dworld) : Prop := {
  jd_J : J (dl s);
  jd_inv : exists tl, InvT H rs tl (lw (dl s)) /\ (dbase s <> None -> tl = []);
  jd_cm : exists qs, rs = cm ++ qs;
  jd_base : match dbase s with
            | None => cm = rs /\ forall i, is_writer (hnth (snd (lw (dl s))) i) = false
            | Some b => b = end_from (len H) cm /\
                        exists i, is_writer (hnth (snd (lw (dl s))) i) = true /\
                                  forall j, j <> i -> snap H cm (hnth (snd (lw (dl s))) j) /\
                                                      closed (hnth (snd (lw (dl s))) j) = true
            end
}.

(* ---------- small facts about one UKV step ---------- *)
Lemma lopen_closed s p i s' r : lstep s (LOpen p i) = Some (s', r) -> closed (hnth (snd (lw s)) i) = true.
Proof.
  simpl. destruct (plock (pnth (procs s) p)); try discriminate; destruct (pcur (pnth (procs s) p)); try discriminate;
  destruct (Nat.ltb p _ && Nat.ltb i _ && Nat.eqb _ p && closed (nth i (snd (lw s)) h0)) eqn:E; try discriminate;
  intros _; apply andb_prop in E; destruct E as [_ E]; exact E.
Qed.

Lemma snap_close H rs h : snap H rs h -> snap H rs (close_ h).
Proof. intros X. exact X. Qed.

(* Put / Get / Keys keep every open/mode flag, and leave a closed handle as it is *)
Lemma do_flags (w : world) o : (op_handle o < length (snd w))%nat ->
  match o with Put _ _ _ | Get _ _ | Keys _ => True | _ => False end ->
  forall j, closed (hnth (snd (fst (step w o))) j) = closed (hnth (snd w) j) /\
            md (hnth (snd (fst (step w o))) j) = md (hnth (snd w) j).
Proof.
  intros Hi Ho j. destruct w as [f hs]. destruct o as [i m|i|i k v|i k|i|n]; try contradiction; simpl in *.
  - destruct (put f (nth i hs h0) k v) as [[f' h'] r] eqn:Ep. simpl. unfold hnth.
    destruct (Nat.eq_dec j i) as [->|Hj].
    + rewrite nth_upd_same by exact Hi. pose proof (put_flags f (nth i hs h0) k v) as A. rewrite Ep in A. simpl in A. tauto.
    + rewrite nth_upd_other by assumption. tauto.
  - tauto.
  - tauto.
Qed.

Lemma do_closed_same (w : world) o : (op_handle o < length (snd w))%nat ->
  match o with Put _ _ _ | Get _ _ | Keys _ => True | _ => False end ->
  closed (hnth (snd w) (op_handle o)) = true -> fst (step w o) = w.
Proof.
  intros Hi Ho Hc. destruct w as [f hs]. destruct o as [i m|i|i k v|i k|i|n]; try contradiction; simpl in *; try reflexivity.
  unfold put. fold (hnth hs i). rewrite Hc. simpl. unfold hnth. rewrite upd_nth_id by exact Hi. reflexivity.
Qed.

(* ---------- the lock invariant survives a death ---------- *)
Lemma J_die f hs ps ow p f' :
  J (mkl (f, hs) ps ow) -> (p < length ps)%nat ->
  forall hs', (match pcur (pnth ps p) with
               | Some i => (i < length hs)%nat /\ hs' = upd hs i h0
               | None => hs' = hs end) ->
  J (mkl (f', hs') (upd ps p p0) ow).
Proof.
  intros [Jm Jo Jc] Hp hs' Hh. simpl in *.
  assert (Hopen : forall j, closed (hnth hs' j) = false ->
                   closed (hnth hs j) = false /\ hnth hs' j = hnth hs j /\ pcur (pnth ps p) <> Some j).
  { intros j Hj. destruct (pcur (pnth ps p)) as [i|] eqn:Ec.
    - destruct Hh as [Hi ->]. unfold hnth in *. destruct (Nat.eq_dec j i) as [->|Hji].
      + rewrite nth_upd_same in Hj by exact Hi. discriminate.
      + rewrite nth_upd_other in * by assumption. repeat split; try assumption. intros X; inversion X; congruence.
    - subst hs'. repeat split; try assumption. discriminate. }
  constructor; simpl.
  - intros a b Hab Ha. destruct (Nat.eq_dec a p) as [->|Hap].
    + rewrite pnth_upd_same in Ha by exact Hp. discriminate.
    + rewrite pnth_upd_other in Ha by assumption. destruct (Nat.eq_dec b p) as [->|Hbp].
      * rewrite pnth_upd_same by exact Hp. reflexivity.
      * rewrite pnth_upd_other by assumption. apply Jm with a; assumption.
  - intros j Hj. rewrite length_upd by exact Hp. destruct (Hopen j Hj) as [Hj0 [Eq Hne]]. rewrite Eq.
    destruct (Jo j Hj0) as [A [B C]].
    destruct (Nat.eq_dec (nth j ow (length ps)) p) as [Hq|Hq].
    + exfalso. rewrite Hq in A. contradiction.
    + rewrite pnth_upd_other by assumption. repeat split; assumption.
  - intros a j Ha. rewrite length_upd by exact Hp. destruct (Nat.eq_dec a p) as [->|Hap]; [exact Hp|].
    rewrite pnth_upd_other in Ha by assumption. apply (Jc a j Ha).
Qed.

Lemma end_from_nil_tail H rs : len (H ++ blocks rs ++ []) = end_from (len H) rs.
Proof. rewrite app_nil_r, len_app, end_from_len. reflexivity. Qed.

(* what the outcome of a step must be, in terms of the abstract record lists only *)
Definition dstep_spec (cm rs : list kv) (s : dworld) (l : dlabel) (r : res) (rs' : list kv) : Prop :=
  match l with
  | DL l0 => match label_op (dl s) l0 with
             | Some op => step_spec rs (hnth (snd (lw (dl s))) (op_handle op)) op r rs'
             | None => rs' = rs
             end
  | DDie _ _ => r = ROk /\ exists qs j, rs = cm ++ qs /\ rs' = cm ++ firstn j qs
  end.

Theorem dstep_sound H cm rs s l s' r :
  JD H cm rs s -> dstep s l = Some (s', r) ->
  exists cm' rs', JD H cm' rs' s' /\ (exists qs, cm' = cm ++ qs) /\ dstep_spec cm rs s l r rs'.
Proof.
  intros [JJ [tl [I Htl]] [qs0 Hcm] Hb] E. destruct s as [ls b]. simpl in *.
  destruct l as [l0|p n]; simpl in E.
  - (* a step of a living process *)
    destruct (lstep ls l0) as [[s1 r1]|] eqn:El; [|discriminate].
    destruct (lstep_sound ls l0 s1 r1 JJ El) as [J1 Hop].
    destruct l0 as [p wr|p i|p o|p|p]; simpl in E, Hop; inversion E; subst s' r; clear E.
    + (* LAcq *)
      exists cm, rs. split; [|split; [exists []; rewrite app_nil_r; reflexivity|reflexivity]].
      constructor; simpl; [exact J1|exists tl; rewrite Hop; split; assumption|exists qs0; exact Hcm|rewrite Hop; exact Hb].
    + (* LOpen *)
      destruct Hop as [Hok Hst].
      pose proof (lopen_closed ls p i s1 r1 El) as Hcl.
      set (m := match plock (pnth (procs ls) p) with LWrite => MA | _ => MR end) in *.
      destruct (step_refinesT H rs tl (lw ls) (Open i m) I Hok) as [rs' [tl' [I' [S' [_ [Htl' [_ _]]]]]]].
      rewrite Hst in I', S'. simpl in I', S'. assert (Er : rs' = rs) by apply S'. subst rs'.
      assert (Hi : (i < length (snd (lw ls)))%nat) by (destruct m; apply Hok).
      assert (Hoth : forall j, j <> i -> hnth (snd (lw s1)) j = hnth (snd (lw ls)) j).
      { intros j Hj. pose proof (step_other (lw ls) (Open i m) j Hi Hj) as A. rewrite Hst in A. apply A. intros x; discriminate. }
      fold (hnth (snd (lw s1)) i). destruct (is_writer (hnth (snd (lw s1)) i)) eqn:Ew.
      * (* a writing session begins: the tail (if any) is cut, the committed records are all the records *)
        apply is_writer_true in Ew. destruct Ew as [Ec Em].
        assert (tl' = []) as ->.
        { destruct tl' as [|x t]; [reflexivity|exfalso]. assert (Hne : x :: t <> []) by discriminate.
          pose proof (it_nowriter _ _ _ _ I' Hne i Ec). congruence. }
        exists rs, rs. split; [|split; [exists qs0; exact Hcm|exact S']].
        constructor; simpl.
        -- exact J1.
        -- exists []. split; [exact I'|reflexivity].
        -- exists []. rewrite app_nil_r. reflexivity.
        -- split; [rewrite (it_file _ _ _ _ I'); apply end_from_nil_tail|].
           exists i. split; [apply is_writer_true; split; assumption|]. intros j Hj.
           split; [apply (it_snap _ _ _ _ I')|apply (it_excl _ _ _ _ I' i j (not_eq_sym Hj) Ec Em)].
      * (* a reading session begins *)
        exists cm, rs. split; [|split; [exists []; rewrite app_nil_r; reflexivity|exact S']].
        destruct b as [b0|].
        -- (* impossible: a writer is inside its session, the lock discipline refuses the open *)
           exfalso. destruct Hb as [_ [i0 [Hw0 _]]]. apply is_writer_true in Hw0. destruct Hw0 as [Hc0 Hm0].
           assert (Hne : i0 <> i) by (intros ->; congruence).
           destruct m; simpl in Hok; destruct Hok as [_ Hok].
           ++ pose proof (Hok Hcl i0 Hne Hc0). congruence.
           ++ pose proof (Hok Hcl i0 Hne). congruence.
        -- destruct Hb as [Hb1 Hb2]. constructor; simpl.
           ++ exact J1.
           ++ exists tl'. split; [exact I'|intros X; contradiction].
           ++ exists qs0. exact Hcm.
           ++ split; [exact Hb1|]. intros j. destruct (Nat.eq_dec j i) as [->|Hj]; [exact Ew|rewrite Hoth by exact Hj; apply Hb2].
    + (* LDo *)
      destruct (pcur (pnth (procs ls) p)) as [i|] eqn:Lc; [|simpl in El; rewrite Lc in El; discriminate].
      destruct Hop as [Hok Hst].
      assert (Ho : match o with Put _ _ _ | Get _ _ | Keys _ => True | _ => False end).
      { simpl in El. rewrite Lc in El. destruct o; try discriminate; exact Logic.I. }
      assert (Hi : (op_handle o < length (snd (lw ls)))%nat) by (destruct o; try contradiction; exact Hok).
      destruct (step_refinesT H rs tl (lw ls) o I Hok) as [rs' [tl' [I' [S' [_ [Htl' [Hsame [qs' Hext]]]]]]]].
      pose proof (do_flags (lw ls) o Hi Ho) as Hfl.
      rewrite Hst in I', S', Hfl. simpl in I', S', Hfl.
      assert (Hwr : forall j, is_writer (hnth (snd (lw s1)) j) = is_writer (hnth (snd (lw ls)) j)).
      { intros j. unfold is_writer. destruct (Hfl j) as [A B]. rewrite A, B. reflexivity. }
      destruct b as [b0|].
      * (* inside a writing session: the committed list stays, the session's records grow *)
        destruct Hb as [Hb0 [i0 [Hw0 Hoth0]]]. rewrite (Htl ltac:(discriminate)) in *.
        assert (tl' = []) as -> by (destruct Htl'; assumption).
        exists cm, rs'. split; [|split; [exists []; rewrite app_nil_r; reflexivity|exact S']].
        constructor; simpl.
        -- exact J1.
        -- exists []. split; [exact I'|reflexivity].
        -- exists (qs0 ++ qs'). rewrite Hext, Hcm, app_assoc. reflexivity.
        -- split; [exact Hb0|]. exists i0. split; [rewrite Hwr; exact Hw0|]. intros j Hj.
           destruct (Hoth0 j Hj) as [Sj Cj]. destruct (Hfl j) as [A _]. split; [|rewrite A; exact Cj].
           destruct (Nat.eq_dec j (op_handle o)) as [->|Hjo].
           ++ pose proof (do_closed_same (lw ls) o Hi Ho Cj) as X. rewrite Hst in X. simpl in X. rewrite X. exact Sj.
           ++ pose proof (step_other (lw ls) o j Hi Hjo) as X. rewrite Hst in X. simpl in X. rewrite X; [exact Sj|].
              intros x ->. contradiction.
      * (* no writer anywhere: nothing can be added *)
        destruct Hb as [Hb1 Hb2].
        assert (rs' = rs) as ->.
        { pose proof (Hb2 (op_handle o)) as Nw. apply is_writer_false in Nw.
          destruct o as [j m|j|j k v|j k|j|x]; try contradiction; simpl in S', Nw.
          - destruct (closed (hnth (snd (lw ls)) j) || match md (hnth (snd (lw ls)) j) with MR => true | MA => false end) eqn:Eg.
            + destruct S' as [_ ->]. reflexivity.
            + exfalso. apply orb_false_elim in Eg. destruct Eg as [Ec Em]. destruct Nw as [Nw|Nw]; [congruence|].
              rewrite Nw in Em. discriminate.
          - destruct S' as [-> _]. reflexivity.
          - destruct S' as [-> _]. reflexivity. }
        exists cm, rs. split; [|split; [exists []; rewrite app_nil_r; reflexivity|exact S']].
        constructor; simpl.
        -- exact J1.
        -- exists tl'. split; [exact I'|intros X; contradiction].
        -- exists qs0. exact Hcm.
        -- split; [exact Hb1|]. intros j. rewrite Hwr. apply Hb2.
    + (* LClose *)
      destruct (pcur (pnth (procs ls) p)) as [i|] eqn:Lc; [|simpl in El; rewrite Lc in El; discriminate].
      simpl in Hop. destruct Hop as [Hok Hst].
      destruct (step_refinesT H rs tl (lw ls) (Close i) I Hok) as [rs' [tl' [I' [S' [_ [Htl' [_ _]]]]]]].
      rewrite Hst in I', S'. simpl in I', S'. assert (Er : rs' = rs) by apply S'. subst rs'.
      assert (Hspec : dstep_spec cm rs {| dl := ls; dbase := b |} (DL (LClose p)) r1 rs).
      { unfold dstep_spec, label_op. simpl. rewrite Lc. simpl. exact S'. }
      assert (Hnew : hnth (snd (lw s1)) i = close_ (hnth (snd (lw ls)) i)).
      { destruct (lw ls) as [f hs]. simpl in Hst. inversion Hst; subst. simpl. unfold hnth. rewrite nth_upd_same by exact Hok. reflexivity. }
      assert (Hoth : forall j, j <> i -> hnth (snd (lw s1)) j = hnth (snd (lw ls)) j).
      { intros j Hj. pose proof (step_other (lw ls) (Close i) j Hok Hj) as A. rewrite Hst in A. apply A. intros x; discriminate. }
      assert (Hnw : is_writer (hnth (snd (lw s1)) i) = false) by (rewrite Hnew; reflexivity).
      fold (hnth (snd (lw ls)) i). destruct (is_writer (hnth (snd (lw ls)) i)) eqn:Ew.
      * (* the writing session ends: everything it wrote is committed *)
        apply is_writer_true in Ew. destruct Ew as [Ec Em].
        exists rs, rs. split; [|split; [exists qs0; exact Hcm|exact Hspec]].
        constructor; simpl.
        -- exact J1.
        -- exists tl'. split; [exact I'|intros X; contradiction].
        -- exists []. rewrite app_nil_r. reflexivity.
        -- split; [reflexivity|]. intros j. destruct (Nat.eq_dec j i) as [->|Hj]; [exact Hnw|].
           rewrite Hoth by exact Hj. apply is_writer_false. left.
           apply (it_excl _ _ _ _ I i j (not_eq_sym Hj) Ec Em).
      * exists cm, rs. split; [|split; [exists []; rewrite app_nil_r; reflexivity|exact Hspec]].
        destruct b as [b0|].
        -- destruct Hb as [Hb0 [i0 [Hw0 Hoth0]]].
           assert (Hne : i0 <> i) by (intros ->; congruence).
           rewrite (Htl ltac:(discriminate)) in *. assert (tl' = []) as -> by (destruct Htl'; assumption).
           constructor; simpl.
           ++ exact J1.
           ++ exists []. split; [exact I'|reflexivity].
           ++ exists qs0. exact Hcm.
           ++ split; [exact Hb0|]. exists i0. split; [rewrite Hoth by exact Hne; exact Hw0|]. intros j Hj.
              destruct (Nat.eq_dec j i) as [->|Hji].
              ** rewrite Hnew. split; [apply snap_close; apply (Hoth0 i Hj)|reflexivity].
              ** rewrite Hoth by exact Hji. apply Hoth0. exact Hj.
        -- destruct Hb as [Hb1 Hb2]. constructor; simpl.
           ++ exact J1.
           ++ exists tl'. split; [exact I'|intros X; contradiction].
           ++ exists qs0. exact Hcm.
           ++ split; [exact Hb1|]. intros j. destruct (Nat.eq_dec j i) as [->|Hj]; [exact Hnw|rewrite Hoth by exact Hj; apply Hb2].
    + (* LRel *)
      exists cm, rs. split; [|split; [exists []; rewrite app_nil_r; reflexivity|reflexivity]].
      constructor; simpl; [exact J1|exists tl; rewrite Hop; split; assumption|exists qs0; exact Hcm|rewrite Hop; exact Hb].
  - (* the death of process p *)
    destruct ls as [[f hs] ps ow]. simpl in *.
    destruct (Nat.ltb p (length ps)) eqn:Lp; [|discriminate]. apply Nat.ltb_lt in Lp.
    destruct (pcur (pnth ps p)) as [i|] eqn:Lc.
    + destruct (Nat.ltb i (length hs)) eqn:Li; [|discriminate]. apply Nat.ltb_lt in Li.
      assert (JJ' : forall f', J (mkl (f', upd hs i h0) (upd ps p p0) ow)).
      { intros f'. apply (J_die f hs ps ow p f' JJ Lp). rewrite Lc. split; [exact Li|reflexivity]. }
      fold (hnth hs i) in E. destruct (is_writer (hnth hs i)) eqn:Ew.
      * (* inside its writing session *)
        pose proof Ew as Ew'. apply is_writer_true in Ew'. destruct Ew' as [Ec Em].
        destruct b as [b0|]; [|exfalso; destruct Hb as [_ Hb2]; rewrite (Hb2 i) in Ew; discriminate].
        inversion E; subst s' r; clear E.
        destruct Hb as [Hb0 [i0 [Hw0 Hoth0]]].
        assert (i0 = i) as ->.
        { destruct (Nat.eq_dec i0 i) as [e|ne]; [exact e|exfalso]. destruct (Hoth0 i (not_eq_sym ne)) as [_ X]. congruence. }
        rewrite (Htl ltac:(discriminate)) in I. apply invT_inv in I.
        assert (Efn : firstn (length cm) rs = cm).
        { rewrite Hcm, firstn_app, Nat.sub_diag, firstn_all. simpl. apply app_nil_r. }
        assert (Esk : skipn (length cm) rs = qs0).
        { rewrite Hcm, skipn_app, Nat.sub_diag, skipn_all. reflexivity. }
        destruct (writer_death H rs (f, hs) i (length cm) (N.to_nat (N.max b0 n)) I Li) as [rs' [tl' [I' [c [Hrs' [j Hc]]]]]].
        -- rewrite Hcm, app_length. lia.
        -- intros j Hj. rewrite Efn. apply Hoth0. exact Hj.
        -- rewrite Efn, <- Hb0. lia.
        -- simpl in I'. rewrite Efn in Hrs'. rewrite Esk in Hc.
           exists rs', rs'. split; [|split; [exists c; exact Hrs'|split; [reflexivity|exists qs0, j; split; [exact Hcm|rewrite Hrs', Hc; reflexivity]]]].
           constructor; simpl.
           ++ apply JJ'.
           ++ exists tl'. split; [exact I'|intros X; contradiction].
           ++ exists []. rewrite app_nil_r. reflexivity.
           ++ split; [reflexivity|]. intros a. unfold hnth. destruct (Nat.eq_dec a i) as [->|Ha].
              ** rewrite nth_upd_same by exact Li. reflexivity.
              ** rewrite nth_upd_other by assumption. apply is_writer_false. left. apply (Hoth0 a Ha).
      * (* inside a reading session, or between sessions with a closed handle: the file is untouched *)
        inversion E; subst s' r; clear E.
        assert (I' : InvT H rs tl (f, upd hs i h0)).
        { apply (invT_set H rs tl tl f f hs i h0 Li I (it_file _ _ _ _ I) (it_torn _ _ _ _ I) (snap_h0 H rs)).
          - simpl. discriminate.
          - simpl. discriminate.
          - simpl. discriminate.
          - intros Hne. split; [simpl; discriminate|]. intros j _ Hcj. apply (it_nowriter _ _ _ _ I Hne j Hcj). }
        exists cm, rs. split; [|split; [exists []; rewrite app_nil_r; reflexivity|split; [reflexivity|exists qs0, (length qs0); split; [exact Hcm|rewrite firstn_all; exact Hcm]]]].
        constructor; simpl.
        -- apply JJ'.
        -- exists tl. split; [exact I'|exact Htl].
        -- exists qs0. exact Hcm.
        -- destruct b as [b0|].
           ++ destruct Hb as [Hb0 [i0 [Hw0 Hoth0]]]. split; [exact Hb0|].
              assert (Hne : i0 <> i) by (intros ->; congruence).
              exists i0. unfold hnth. rewrite nth_upd_other by assumption. split; [exact Hw0|]. intros j Hj.
              destruct (Nat.eq_dec j i) as [->|Hji].
              ** rewrite nth_upd_same by exact Li. split; [apply snap_h0|reflexivity].
              ** rewrite nth_upd_other by assumption. apply Hoth0. exact Hj.
           ++ destruct Hb as [Hb1 Hb2]. split; [exact Hb1|]. intros j. unfold hnth. destruct (Nat.eq_dec j i) as [->|Hji].
              ** rewrite nth_upd_same by exact Li. reflexivity.
              ** rewrite nth_upd_other by assumption. apply Hb2.
    + (* not inside a session *)
      inversion E; subst s' r; clear E.
      exists cm, rs. split; [|split; [exists []; rewrite app_nil_r; reflexivity|split; [reflexivity|exists qs0, (length qs0); split; [exact Hcm|rewrite firstn_all; exact Hcm]]]].
      constructor; simpl.
      * apply (J_die f hs ps ow p f JJ Lp). rewrite Lc. reflexivity.
      * exists tl. split; assumption.
      * exists qs0. exact Hcm.
      * exact Hb.
Qed.

(* ---------- every schedule, deaths included ---------- *)
Fixpoint drun_spec (cm rs : list kv) (s : dworld) (ls : list dlabel) (outs : list outcome) : Prop :=
  match ls, outs with
  | [], [] => True
  | l :: ls', o :: outs' =>
      match dstep s l with
      | Some (s', r) => o = Done r /\ exists cm' rs', (exists qs, cm' = cm ++ qs) /\ dstep_spec cm rs s l r rs' /\
                                                     drun_spec cm' rs' s' ls' outs'
      | None => o = Refused /\ drun_spec cm rs s ls' outs'
      end
  | _, _ => False
  end.

Theorem drun_safe H : forall ls s cm rs,
  JD H cm rs s ->
  (exists cm' rs', JD H cm' rs' (snd (drun s ls)) /\ exists qs, cm' = cm ++ qs) /\
  drun_spec cm rs s ls (fst (drun s ls)).
Proof.
  induction ls as [|l ls IH]; intros s cm rs D.
  - simpl. split; [|exact Logic.I]. exists cm, rs. split; [exact D|exists []; rewrite app_nil_r; reflexivity].
  - simpl. destruct (dstep s l) as [[s' r]|] eqn:E.
    + destruct (dstep_sound H cm rs s l s' r D E) as [cm1 [rs1 [D1 [[q1 Hq1] S1]]]].
      destruct (IH s' cm1 rs1 D1) as [[cm2 [rs2 [D2 [q2 Hq2]]]] R2].
      destruct (drun s' ls) as [os sf] eqn:Er. simpl in *. split.
      * exists cm2, rs2. split; [exact D2|]. exists (q1 ++ q2). rewrite Hq2, Hq1, app_assoc. reflexivity.
      * rewrite ?E. split; [reflexivity|]. exists cm1, rs1. split; [exists q1; exact Hq1|split; assumption].
    + destruct (IH s cm rs D) as [A R]. destruct (drun s ls) as [os sf] eqn:Er. simpl in *. split; [exact A|].
      rewrite ?E. split; [reflexivity|exact R].
Qed.

(* initial states: any well-formed library file, possibly with a torn tail left by an earlier death, never-opened
   handles, processes holding nothing *)
Lemma JD_init H rs tl n m ow :
  hdr_ok H -> Forall wfkv rs -> NoDup (map fst rs) -> torn tl ->
  JD H rs rs (mkd (mkl (H ++ blocks rs ++ tl, repeat h0 n) (repeat p0 m) ow) None).
Proof.
  intros Hh Hwf Hnd Ht.
  assert (Hh0 : forall j, hnth (repeat h0 n) j = h0) by (intros j; apply hnth_repeat).
  constructor; simpl.
  - apply J_init.
  - exists tl. split; [|intros X; contradiction]. constructor; simpl; try assumption; try reflexivity.
    + intros i. rewrite Hh0. apply snap_h0.
    + intros i. rewrite Hh0. simpl. discriminate.
    + intros i j _. rewrite Hh0. simpl. discriminate.
    + intros _ i. rewrite Hh0. simpl. discriminate.
  - exists []. rewrite app_nil_r. reflexivity.
  - split; [reflexivity|]. intros i. rewrite Hh0. reflexivity.
Qed.

(* the lock of a dead process is free: if nobody else holds it, anybody can take it in either mode *)
Theorem death_releases s p n s' r :
  dstep s (DDie p n) = Some (s', r) ->
  plock (pnth (procs (dl s')) p) = LFree /\
  (forall q, q <> p -> pnth (procs (dl s')) q = pnth (procs (dl s)) q) /\
  ((forall q, q <> p -> plock (pnth (procs (dl s)) q) = LFree) ->
   forall q w, (q < length (procs (dl s')))%nat ->
     exists s'', lstep (dl s') (LAcq q w) = Some (s'', ROk) /\ plock (pnth (procs s'') q) = (if w then LWrite else LRead)).
Proof.
  intros E. simpl in E.
  destruct (Nat.ltb p (length (procs (dl s)))) eqn:Lp; [|discriminate]. apply Nat.ltb_lt in Lp.
  assert (Hps : procs (dl s') = upd (procs (dl s)) p p0).
  { destruct (pcur (pnth (procs (dl s)) p)).
    - destruct (Nat.ltb n0 _); [|discriminate]. destruct (is_writer _); [destruct (dbase s)|]; inversion E; reflexivity.
    - inversion E; reflexivity. }
  rewrite Hps. split; [rewrite pnth_upd_same by exact Lp; reflexivity|]. split.
  - intros q Hq. apply pnth_upd_other; assumption.
  - intros Hfree q w Hq. rewrite <- Hps in *. apply acquire_enabled_when_free; [exact Hq|].
    intros a. rewrite Hps. destruct (Nat.eq_dec a p) as [->|Ha].
    + rewrite pnth_upd_same by exact Lp. reflexivity.
    + rewrite pnth_upd_other by assumption. apply Hfree. exact Ha.
Qed.
