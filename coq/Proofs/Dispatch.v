From Coq Require Import List Bool Arith.
Import ListNotations.
From Molli Require Import Model.Dispatch.

Lemma cell_eqb_eq a b : cell_eqb a b = true -> a = b.
Proof.
  destruct a, b; unfold cell_eqb; simpl; intros H.
  repeat (apply andb_prop in H; destruct H as [H ?]).
  f_equal; try (apply internal_verb_dec_bl || apply internal_fmtc_dec_bl || apply internal_fsrc_dec_bl
    || apply internal_otyp_dec_bl || apply internal_tgt_dec_bl || apply internal_prs_dec_bl); try assumption.
  all: apply Bool.eqb_prop; assumption.
Qed.

Lemma meth_eqb_eq a b : meth_eqb a b = true -> a = b.
Proof.
  destruct a, b; unfold meth_eqb; simpl; intros H. apply andb_prop in H; destruct H.
  f_equal; [apply internal_verb_dec_bl | apply internal_fmtc_dec_bl]; assumption.
Qed.

Lemma res_eqb_eq : forall a b, res_eqb a b = true -> a = b.
Proof.
  fix IH 1. intros a b; destruct a, b; simpl; try discriminate; intros H.
  - apply andb_prop in H; destruct H as [H Hn]. apply andb_prop in H; destruct H as [H Hs].
    apply andb_prop in H; destruct H as [Hk Hm].
    f_equal; auto using internal_kls_dec_bl, meth_eqb_eq, internal_src_dec_bl, internal_nm_dec_bl.
  - repeat (apply andb_prop in H; destruct H as [H ?]).
    f_equal; [apply internal_kls_dec_bl | apply Nat.eqb_eq | apply internal_nm_dec_bl]; assumption.
  - f_equal. revert l0 H. induction l as [|p l IHl]; intros [|q l0] H; try discriminate; [reflexivity|].
    apply andb_prop in H; destruct H as [H1 H2]. f_equal; [apply IH; exact H1 | apply IHl; exact H2].
  - f_equal; apply meth_eqb_eq; assumption.
  - f_equal; apply Nat.eqb_eq; assumption.
Qed.

Lemma action_eqb_eq a b : action_eqb a b = true -> a = b.
Proof.
  destruct a, b; simpl; try discriminate; intros H.
  - f_equal; apply internal_exn_dec_bl; assumption.
  - f_equal; apply res_eqb_eq; assumption.
  - apply andb_prop in H; destruct H as [H Ho]. apply andb_prop in H; destruct H as [Hm Hs].
    f_equal; auto using meth_eqb_eq, internal_src_dec_bl, Bool.eqb_prop.
  - reflexivity.
  - f_equal; apply Nat.eqb_eq; assumption.
Qed.

(* every cell of the product is enumerated: any valid cell is in all_cells *)
Lemma all_cells_complete : forall c, valid c = true -> In c all_cells.
Proof.
  intros c Hv. unfold all_cells. apply filter_In. split; [|exact Hv].
  destruct c as [v f s o n t p d]. unfold product.
  apply in_flat_map; exists v; split; [destruct v; simpl; tauto|].
  apply in_flat_map; exists f; split; [destruct f; simpl; tauto|].
  apply in_flat_map; exists s; split; [destruct s; simpl; tauto|].
  apply in_flat_map; exists o; split; [destruct o; simpl; tauto|].
  apply in_flat_map; exists n; split; [destruct n; simpl; tauto|].
  apply in_flat_map; exists t; split; [destruct t; simpl; tauto|].
  apply in_flat_map; exists p; split; [destruct p; simpl; tauto|].
  apply in_map. destruct d; simpl; tauto.
Qed.

Section Table.
  Variable table : list (cell * action).
  Definition table_ok : bool :=
    forallb (fun c => match lookup table c with Some a => action_eqb a (spec c) | None => false end) all_cells
    && forallb (fun p => action_eqb (snd p) (spec (fst p))) table.

  Lemma table_ok_sound : table_ok = true ->
    (forall c, valid c = true -> exists a, lookup table c = Some a /\ a = spec c) /\
    (forall c a, In (c, a) table -> a = spec c).
  Proof.
    unfold table_ok; intros H; apply andb_prop in H; destruct H as [H1 H2]. split.
    - intros c Hv. rewrite forallb_forall in H1. specialize (H1 c (all_cells_complete c Hv)).
      destruct (lookup table c) as [a|]; [|discriminate]. exists a; split; [reflexivity|].
      apply action_eqb_eq; exact H1.
    - intros c a Hin. rewrite forallb_forall in H2. specialize (H2 _ Hin). simpl in H2.
      apply action_eqb_eq; exact H2.
  Qed.
End Table.
