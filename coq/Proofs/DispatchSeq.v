(* C09, histories of calls: there is no state between calls (Model/DispatchSeq.v). *)
From Coq Require Import List Bool Arith.
Import ListNotations.
From Molli Require Import Model.Dispatch Model.DispatchSeq Proofs.Dispatch.

(* ---------------------------------------------------------------- association lists *)
Section Assoc.
  Context {K V : Type} (eqb : K -> K -> bool).
  Hypothesis eqb_spec : forall a b, eqb a b = true <-> a = b.

  Lemma eqb_refl_ k : eqb k k = true.
  Proof. apply eqb_spec; reflexivity. Qed.

  Lemma eqb_neq a b : a <> b -> eqb a b = false.
  Proof. intros H. destruct (eqb a b) eqn:E; [|reflexivity]. apply eqb_spec in E. contradiction. Qed.

  Lemma assoc_get_set_same (d : V) l k v : assoc_get eqb d (assoc_set eqb l k v) k = v.
  Proof.
    induction l as [|[k' v'] r IH]; simpl.
    - rewrite eqb_refl_. reflexivity.
    - destruct (eqb k' k) eqn:E; simpl; rewrite E; [reflexivity | exact IH].
  Qed.

  Lemma assoc_get_set_other (d : V) l k v k2 : k <> k2 ->
    assoc_get eqb d (assoc_set eqb l k v) k2 = assoc_get eqb d l k2.
  Proof.
    intros Hne. induction l as [|[k' v'] r IH]; simpl.
    - rewrite (eqb_neq _ _ Hne). reflexivity.
    - destruct (eqb k' k) eqn:E; simpl.
      + apply eqb_spec in E; subst k'. rewrite (eqb_neq _ _ Hne). reflexivity.
      + destruct (eqb k' k2); [reflexivity | exact IH].
  Qed.
End Assoc.

Lemma extk_eqb_spec a b : extk_eqb a b = true <-> a = b.
Proof.
  destruct a as [f|], b as [g|]; simpl; split; intros H; try discriminate; try reflexivity.
  - f_equal; apply internal_fmtc_dec_bl; exact H.
  - inversion H; subst. apply internal_fmtc_dec_lb; reflexivity.
Qed.

Lemma fkey_eqb_spec a b : fkey_eqb a b = true <-> a = b.
Proof.
  destruct a as [[n e] d], b as [[n' e'] d']; unfold fkey_eqb; simpl; split; intros H.
  - apply andb_prop in H; destruct H as [H Hd]. apply andb_prop in H; destruct H as [Hn He].
    apply Nat.eqb_eq in Hn. apply extk_eqb_spec in He. apply Bool.eqb_prop in Hd. subst. reflexivity.
  - inversion H; subst. rewrite Nat.eqb_refl, Bool.eqb_reflx.
    assert (E : extk_eqb e' e' = true) by (apply extk_eqb_spec; reflexivity). rewrite E. reflexivity.
Qed.

Lemma get_set_file_same w k t : get_file (set_file w k t) k = t.
Proof. unfold get_file, set_file; simpl. apply assoc_get_set_same. exact fkey_eqb_spec. Qed.

Lemma get_set_file_other w k t k2 : k <> k2 -> get_file (set_file w k t) k2 = get_file w k2.
Proof. unfold get_file, set_file; simpl. apply assoc_get_set_other. exact fkey_eqb_spec. Qed.

Lemma get_file_set_stream w s t k : get_file (set_stream w s t) k = get_file w k.
Proof. reflexivity. Qed.

Lemma get_set_stream_same w s t : get_stream (set_stream w s t) s = t.
Proof. unfold get_stream, set_stream; simpl. apply assoc_get_set_same. exact Nat.eqb_eq. Qed.

Lemma get_set_stream_other w s t s2 : s <> s2 -> get_stream (set_stream w s t) s2 = get_stream w s2.
Proof. unfold get_stream, set_stream; simpl. apply assoc_get_set_other. exact Nat.eqb_eq. Qed.

Lemma get_stream_set_file w k t s : get_stream (set_file w k t) s = get_stream w s.
Proof. reflexivity. Qed.

(* ---------------------------------------------------------------- one step *)
(* whatever happened before, a call does what the ONE-SHOT specification says for its cell *)
Lemma step_action_is_spec w c slot o v md : fst (snd (step w (OCall c slot o v md))) = spec c.
Proof.
  unfold step. destruct (c_verb c); destruct (spec c) as [e|r|m s ok| |n]; try reflexivity;
  try (destruct r; reflexivity); destruct s; try reflexivity; destruct ok; reflexivity.
Qed.

(* NO HIDDEN STATE: what a call returns (action and the text the class-level codec consumed) is a
   function of the CURRENT content of the file it addresses -- any two worlds (hence any two
   histories) that agree on that file give the same result. *)
Lemma step_no_hidden_state w1 w2 c slot o v md :
  get_file w1 (fkey_of c slot) = get_file w2 (fkey_of c slot) ->
  snd (step w1 (OCall c slot o v md)) = snd (step w2 (OCall c slot o v md)).
Proof.
  intros H. unfold step. destruct (c_verb c); destruct (spec c) as [e|r|m s ok| |n]; try reflexivity;
  try (rewrite H; reflexivity); try (destruct r; reflexivity);
  destruct s; try reflexivity; destruct ok; reflexivity.
Qed.

Definition is_load (c : cell) : bool := match c_verb c with VLoad | VLoadAll => true | _ => false end.
Definition is_loads (c : cell) : bool := match c_verb c with VLoads | VLoadsAll => true | _ => false end.

(* a reader that succeeds hands the class-level codec the current content of the file *)
Lemma load_sees_current_file w c slot o v md r :
  is_load c = true -> spec c = ARet r ->
  snd (step w (OCall c slot o v md)) = (ARet r, Some (get_file w (fkey_of c slot))).
Proof. intros Hl Hs. unfold step, is_load in *. rewrite Hs. destruct (c_verb c); try discriminate; reflexivity. Qed.

Lemma loads_sees_given_string w c slot o v md r :
  is_loads c = true -> spec c = ARet r ->
  snd (step w (OCall c slot o v md)) = (ARet r, Some [TDoc slot]).
Proof. intros Hl Hs. unfold step, is_loads in *. rewrite Hs. destruct (c_verb c); try discriminate; reflexivity. Qed.

(* dumps renders the object as it is NOW (version v) *)
Lemma dumps_renders_current_object w c slot o v md m :
  c_verb c = VDumps -> spec c = ARet (RDumps m) ->
  snd (step w (OCall c slot o v md)) = (ARet (RDumps m), Some [TW m o v]).
Proof. intros Hv Hs. unfold step. rewrite Hv, Hs. reflexivity. Qed.

(* dump to a path: the file afterwards is (old content if appending) ++ what the class writer of the
   object as it is now wrote; dump to a stream: appended to that stream *)
Lemma dump_path_effect w c slot o v md m :
  c_verb c = VDump -> spec c = AWrote m SOpenedPath true ->
  get_file (fst (step w (OCall c slot o v md))) (fkey_of c slot)
  = (match md with MAppend => get_file w (fkey_of c slot) | MTrunc => [] end) ++ [TW m o v].
Proof. intros Hv Hs. unfold step. rewrite Hv, Hs. simpl. apply get_set_file_same. Qed.

Lemma dump_stream_effect w c slot o v md m :
  c_verb c = VDump -> spec c = AWrote m SGivenStream true ->
  get_stream (fst (step w (OCall c slot o v md))) slot = get_stream w slot ++ [TW m o v].
Proof. intros Hv Hs. unfold step. rewrite Hv, Hs. simpl. apply get_set_stream_same. Qed.

(* frame: a call never touches a file other than the one it addresses, readers and dumps touch nothing *)
Lemma call_frame_files w c slot o v md k :
  k <> fkey_of c slot -> get_file (fst (step w (OCall c slot o v md))) k = get_file w k.
Proof.
  intros Hne. unfold step. destruct (c_verb c); destruct (spec c) as [e|r|m s ok| |n]; try reflexivity;
  try (destruct r; reflexivity); destruct s; try reflexivity; destruct ok; try reflexivity; simpl.
  apply get_set_file_other. congruence.
Qed.

Lemma call_frame_streams w c slot o v md s :
  s <> slot -> get_stream (fst (step w (OCall c slot o v md))) s = get_stream w s.
Proof.
  intros Hne. unfold step. destruct (c_verb c); destruct (spec c) as [e|r|m s' ok| |n]; try reflexivity;
  try (destruct r; reflexivity); destruct s'; try reflexivity; destruct ok; try reflexivity; simpl.
  apply get_set_stream_other. congruence.
Qed.

Lemma non_dump_leaves_world w c slot o v md :
  c_verb c <> VDump -> fst (step w (OCall c slot o v md)) = w.
Proof.
  intros Hv. unfold step. destruct (c_verb c); try contradiction; destruct (spec c) as [e|r|m s ok| |n];
  try reflexivity; destruct r; reflexivity.
Qed.

(* ---------------------------------------------------------------- what the caller owns *)
(* no operation -- successful or refused, reader or writer -- changes the state of any stream of the caller *)
Lemma step_keeps_sstate w x : w_sstate (fst (step w x)) = w_sstate w.
Proof.
  destruct x as [c slot o v md | k d]; [|reflexivity].
  unfold step. destruct (c_verb c); destruct (spec c) as [e|r|m s ok| |n]; try reflexivity;
  try (destruct r; reflexivity); destruct s; try reflexivity; destruct ok; reflexivity.
Qed.

(* a REFUSED call (unsupported format / parser / no format: spec = ARaise) leaves the whole world as it was *)
Lemma refused_leaves_world w c slot o v md e :
  spec c = ARaise e -> step w (OCall c slot o v md) = (w, (ARaise e, None)).
Proof. intros H. unfold step. rewrite H. destruct (c_verb c); reflexivity. Qed.

(* ---------------------------------------------------------------- histories *)
Lemma final_app w p q : final w (p ++ q) = final (final w p) q.
Proof. revert w; induction p as [|x p IH]; intros w; simpl; [reflexivity | apply IH]. Qed.

Lemma final_one w x : final w [x] = fst (step w x).
Proof. reflexivity. Qed.

Lemma run_app w p q : run w (p ++ q) = run w p ++ run (final w p) q.
Proof. revert w; induction p as [|x p IH]; intros w; simpl; [reflexivity | rewrite IH; reflexivity]. Qed.

Lemma run_length w p : length (run w p) = length p.
Proof. revert w; induction p as [|x p IH]; intros w; simpl; [reflexivity | rewrite IH; reflexivity]. Qed.

(* the i-th observation of a history is the step taken in the world reached by the first i operations *)
Lemma run_nth w p i x : nth_error p i = Some x ->
  exists ob, nth_error (run w p) i = Some ob /\ ob_res ob = snd (step (final w (firstn i p)) x).
Proof.
  revert w i; induction p as [|y p IH]; intros w i H; [destruct i; discriminate|].
  destruct i as [|i]; simpl in H.
  - inversion H; subst. simpl. eexists; split; reflexivity.
  - simpl. apply IH. exact H.
Qed.

(* in every history, at every position, a call's action is the one-shot specification of its cell *)
Lemma run_action_is_spec w p i c slot o v md :
  nth_error p i = Some (OCall c slot o v md) ->
  exists ob, nth_error (run w p) i = Some ob /\ fst (ob_res ob) = spec c.
Proof.
  intros H. destruct (run_nth w p i _ H) as [ob [H1 H2]]. exists ob; split; [exact H1|].
  rewrite H2. apply step_action_is_spec.
Qed.

(* NO HIDDEN STATE over histories: two arbitrary histories from arbitrary worlds that leave the
   addressed file with the same content are indistinguishable by the next call. *)
Lemma history_independence w1 w2 p1 p2 c slot o v md :
  get_file (final w1 p1) (fkey_of c slot) = get_file (final w2 p2) (fkey_of c slot) ->
  snd (step (final w1 p1) (OCall c slot o v md)) = snd (step (final w2 p2) (OCall c slot o v md)).
Proof. apply step_no_hidden_state. Qed.

(* call, rewrite the file, call again: the second call sees the NEW document, whatever came before *)
Lemma load_after_rewrite w pre c slot o v md d r :
  is_load c = true -> spec c = ARet r ->
  snd (step (final w (pre ++ [ORewrite (fkey_of c slot) d])) (OCall c slot o v md)) = (ARet r, Some [TDoc d]).
Proof.
  intros Hl Hs. rewrite final_app, final_one.
  rewrite (load_sees_current_file _ _ _ _ _ _ r Hl Hs).
  unfold step; cbn [fst]. rewrite get_set_file_same. reflexivity.
Qed.

(* dump to a path, then load the same path (any history before, any reader configuration that
   addresses the same file): the reader is handed exactly what is in the file now *)
Lemma load_after_dump w pre cd cl slot o v md o' v' md' m r :
  c_verb cd = VDump -> spec cd = AWrote m SOpenedPath true ->
  is_load cl = true -> spec cl = ARet r -> fkey_of cl slot = fkey_of cd slot ->
  snd (step (final w (pre ++ [OCall cd slot o v md])) (OCall cl slot o' v' md'))
  = (ARet r, Some ((match md with MAppend => get_file (final w pre) (fkey_of cd slot) | MTrunc => [] end) ++ [TW m o v])).
Proof.
  intros Hv Hs Hl Hsl Hk. rewrite final_app, final_one.
  rewrite (load_sees_current_file _ _ _ _ _ _ r Hl Hsl). rewrite Hk.
  rewrite (dump_path_effect _ _ _ _ _ _ m Hv Hs). reflexivity.
Qed.

(* dump after dump to the same path: appending keeps the first record, truncating drops it *)
Lemma dump_after_dump w c slot o v o' v' md' m :
  c_verb c = VDump -> spec c = AWrote m SOpenedPath true ->
  get_file (final w [OCall c slot o v MTrunc; OCall c slot o' v' md']) (fkey_of c slot)
  = match md' with MAppend => [TW m o v; TW m o' v'] | MTrunc => [TW m o' v'] end.
Proof.
  intros Hv Hs. change (final w [OCall c slot o v MTrunc; OCall c slot o' v' md'])
    with (fst (step (fst (step w (OCall c slot o v MTrunc))) (OCall c slot o' v' md'))).
  rewrite (dump_path_effect _ _ _ _ _ _ m Hv Hs). rewrite (dump_path_effect _ _ _ _ _ _ m Hv Hs).
  destruct md'; reflexivity.
Qed.

(* in every history the streams of the caller keep their state: one that was open behind its text is still
   open behind its text after any number of calls, refused ones included *)
Lemma final_keeps_sstate w p : w_sstate (final w p) = w_sstate w.
Proof.
  revert w; induction p as [|x p IH]; intros w; simpl; [reflexivity|].
  rewrite IH. apply step_keeps_sstate.
Qed.

Lemma stream_state_preserved w p s : get_sstate (final w p) s = get_sstate w s.
Proof. unfold get_sstate. rewrite final_keeps_sstate. reflexivity. Qed.

Lemma streams_stay_ready w p : streams_ready w = true -> streams_ready (final w p) = true.
Proof. unfold streams_ready. rewrite final_keeps_sstate. exact (fun H => H). Qed.

(* every observation of a history reports the stream states of the initial world, and no handle left open *)
Lemma run_obs_owned w p ob : In ob (run w p) -> ob_sstate ob = map snd (w_sstate w) /\ ob_left_open ob = 0.
Proof.
  revert w; induction p as [|x p IH]; intros w H; simpl in H; [contradiction|].
  destruct H as [H|H].
  - subst ob; simpl. rewrite step_keeps_sstate. split; reflexivity.
  - specialize (IH _ H). rewrite step_keeps_sstate in IH. exact IH.
Qed.

(* a refused dump into a stream, after any history: the stream holds what it held, in the state it had *)
Lemma refused_dump_keeps_stream w pre c slot o v md e s :
  spec c = ARaise e ->
  get_stream (final w (pre ++ [OCall c slot o v md])) s = get_stream (final w pre) s /\
  get_sstate (final w (pre ++ [OCall c slot o v md])) s = get_sstate w s /\
  snd (step (final w pre) (OCall c slot o v md)) = (ARaise e, None).
Proof.
  intros H. rewrite final_app, final_one. rewrite (refused_leaves_world _ _ _ _ _ _ e H). cbn [fst snd].
  repeat split. apply stream_state_preserved.
Qed.

(* soundness of the correspondence check *)
Lemma tok_eqb_eq a b : tok_eqb a b = true -> a = b.
Proof.
  destruct a as [d|m o v|], b as [d'|m' o' v'|]; simpl; try discriminate; intros H.
  - apply Nat.eqb_eq in H; subst; reflexivity.
  - apply andb_prop in H; destruct H as [H Hv]. apply andb_prop in H; destruct H as [Hm Ho].
    apply Nat.eqb_eq in Hv, Ho. destruct m as [a b], m' as [a' b']. unfold meth_eqb in Hm; simpl in Hm.
    apply andb_prop in Hm; destruct Hm as [Ha Hb].
    apply internal_verb_dec_bl in Ha. apply internal_fmtc_dec_bl in Hb. subst. reflexivity.
  - reflexivity.
Qed.

Lemma list_eqb_eq {A} (eqb : A -> A -> bool) (Heq : forall a b, eqb a b = true -> a = b) :
  forall x y, list_eqb eqb x y = true -> x = y.
Proof.
  induction x as [|a x IH]; intros [|b y] H; simpl in H; try discriminate; [reflexivity|].
  apply andb_prop in H; destruct H as [H1 H2]. f_equal; [apply Heq; exact H1 | apply IH; exact H2].
Qed.

Lemma result_eqb_eq a b : result_eqb a b = true -> a = b.
Proof.
  destruct a as [a s], b as [b t]; unfold result_eqb; simpl; intros H.
  apply andb_prop in H; destruct H as [Ha Hs]. apply Molli.Proofs.Dispatch.action_eqb_eq in Ha. subst b.
  destruct s as [s|], t as [t|]; try discriminate; [|reflexivity].
  apply (list_eqb_eq tok_eqb tok_eqb_eq) in Hs. subst. reflexivity.
Qed.

Lemma sstate_eqb_eq a b : sstate_eqb a b = true -> a = b.
Proof. destruct a, b; simpl; intros H; try discriminate; reflexivity. Qed.

Lemma obs_eqb_eq a b : obs_eqb a b = true -> a = b.
Proof.
  destruct a as [r f s q n], b as [r' f' s' q' n']; unfold obs_eqb; simpl; intros H.
  apply andb_prop in H; destruct H as [H Hn]. apply andb_prop in H; destruct H as [H Hq].
  apply andb_prop in H; destruct H as [H Hs]. apply andb_prop in H; destruct H as [Hr Hf].
  apply result_eqb_eq in Hr. apply Nat.eqb_eq in Hn.
  apply (list_eqb_eq _ (list_eqb_eq tok_eqb tok_eqb_eq)) in Hf, Hs.
  apply (list_eqb_eq _ sstate_eqb_eq) in Hq. subst. reflexivity.
Qed.

(* a recorded history accepted by the check IS the run of the model *)
Lemma check_seq_sound sc : check_seq sc = true -> run (sc_init sc) (sc_prog sc) = sc_obs sc.
Proof. unfold check_seq. apply list_eqb_eq. exact obs_eqb_eq. Qed.
