(* C09, histories of calls: there is no state between calls (Model/DispatchSeq.v). *)
From Coq Require Import List Bool Arith Lia.
Import ListNotations.
From Molli Require Import Model.Dispatch Model.DispatchSeq Proofs.Dispatch.

(* ---------------------------------------------------------------- association lists *)
Section Assoc.
  Context {K V : Type} (eqb : K -> K -> bool).
  Hypothesis eqb_spec : forall a b, eqb a b = true <-> a = b.

  Lemma eqb_refl_ k : eqb k k = true.
  Proof. apply eqb_spec; reflexivity. Qed.

  Lemma eqb_neq a b : a <> b -> eqb a b = false.
  Proof. intros H. destruct (eqb a b) eqn:E; [|reflexivity]. apply eqb_spec in E. contradiction. Qed.

  Lemma assoc_get_set_same (d : V) l k v : assoc_get eqb d (assoc_set eqb l k v) k = v.
  Proof.
    induction l as [|[k' v'] r IH]; simpl.
    - rewrite eqb_refl_. reflexivity.
    - destruct (eqb k' k) eqn:E; simpl; rewrite E; [reflexivity | exact IH].
  Qed.

  Lemma assoc_get_set_other (d : V) l k v k2 : k <> k2 ->
    assoc_get eqb d (assoc_set eqb l k v) k2 = assoc_get eqb d l k2.
  Proof.
    intros Hne. induction l as [|[k' v'] r IH]; simpl.
    - rewrite (eqb_neq _ _ Hne). reflexivity.
    - destruct (eqb k' k) eqn:E; simpl.
      + apply eqb_spec in E; subst k'. rewrite (eqb_neq _ _ Hne). reflexivity.
      + destruct (eqb k' k2); [reflexivity | exact IH].
  Qed.

  Lemma assoc_set_forallb (P : V -> bool) l k v :
    forallb (fun p => P (snd p)) l = true -> P v = true ->
    forallb (fun p => P (snd p)) (assoc_set eqb l k v) = true.
  Proof.
    intros Hl Hv. induction l as [|[k' v'] r IH]; simpl in *.
    - rewrite Hv. reflexivity.
    - apply andb_prop in Hl; destruct Hl as [H1 H2].
      destruct (eqb k' k); simpl; [rewrite Hv, H2; reflexivity | rewrite H1, (IH H2); reflexivity].
  Qed.
End Assoc.

Lemma extk_eqb_spec a b : extk_eqb a b = true <-> a = b.
Proof.
  destruct a as [f|], b as [g|]; simpl; split; intros H; try discriminate; try reflexivity.
  - f_equal; apply internal_fmtc_dec_bl; exact H.
  - inversion H; subst. apply internal_fmtc_dec_lb; reflexivity.
Qed.

Lemma fkey_eqb_spec a b : fkey_eqb a b = true <-> a = b.
Proof.
  destruct a as [[n e] d], b as [[n' e'] d']; unfold fkey_eqb; simpl; split; intros H.
  - apply andb_prop in H; destruct H as [H Hd]. apply andb_prop in H; destruct H as [Hn He].
    apply Nat.eqb_eq in Hn. apply extk_eqb_spec in He. apply Bool.eqb_prop in Hd. subst. reflexivity.
  - inversion H; subst. rewrite Nat.eqb_refl, Bool.eqb_reflx.
    assert (E : extk_eqb e' e' = true) by (apply extk_eqb_spec; reflexivity). rewrite E. reflexivity.
Qed.

Lemma get_set_file_same w k t : get_file (set_file w k t) k = t.
Proof. unfold get_file, set_file; simpl. apply assoc_get_set_same. exact fkey_eqb_spec. Qed.

Lemma get_set_file_other w k t k2 : k <> k2 -> get_file (set_file w k t) k2 = get_file w k2.
Proof. unfold get_file, set_file; simpl. apply assoc_get_set_other. exact fkey_eqb_spec. Qed.

Lemma get_file_set_stream w s t k : get_file (set_stream w s t) k = get_file w k.
Proof. reflexivity. Qed.

Lemma get_set_stream_same w s t : get_stream (set_stream w s t) s = t.
Proof. unfold get_stream, set_stream; simpl. apply assoc_get_set_same. exact Nat.eqb_eq. Qed.

Lemma get_set_stream_other w s t s2 : s <> s2 -> get_stream (set_stream w s t) s2 = get_stream w s2.
Proof. unfold get_stream, set_stream; simpl. apply assoc_get_set_other. exact Nat.eqb_eq. Qed.

Lemma get_stream_set_file w k t s : get_stream (set_file w k t) s = get_stream w s.
Proof. reflexivity. Qed.

Lemma get_stream_set_sstate w s q s2 : get_stream (set_sstate w s q) s2 = get_stream w s2.
Proof. reflexivity. Qed.

Lemma get_file_set_sstate w s q k : get_file (set_sstate w s q) k = get_file w k.
Proof. reflexivity. Qed.

Lemma get_sstate_set_stream w s t s2 : get_sstate (set_stream w s t) s2 = get_sstate w s2.
Proof. reflexivity. Qed.

Lemma get_sstate_set_file w k t s : get_sstate (set_file w k t) s = get_sstate w s.
Proof. reflexivity. Qed.

Lemma get_set_sstate_same w s q : get_sstate (set_sstate w s q) s = q.
Proof. unfold get_sstate, set_sstate; simpl. apply assoc_get_set_same. exact Nat.eqb_eq. Qed.

Lemma get_set_sstate_other w s q s2 : s <> s2 -> get_sstate (set_sstate w s q) s2 = get_sstate w s2.
Proof. unfold get_sstate, set_sstate; simpl. apply assoc_get_set_other. exact Nat.eqb_eq. Qed.

Lemma set_sstate_ready w s q : streams_ready w = true -> is_open q = true -> streams_ready (set_sstate w s q) = true.
Proof. unfold streams_ready, set_sstate; simpl. apply (assoc_set_forallb Nat.eqb is_open). Qed.

(* ---------------------------------------------------------------- writing at a position *)
(* at the end of the text it is plain appending *)
Lemma write_at_end t x : write_at t (length t) x = t ++ x.
Proof.
  unfold write_at. rewrite firstn_all. rewrite skipn_all2 by lia. rewrite app_nil_r. reflexivity.
Qed.

(* what the stream held BEFORE the position is untouched *)
Lemma write_at_prefix t p x : p <= length t -> firstn p (write_at t p x) = firstn p t.
Proof.
  intros H. unfold write_at. rewrite firstn_app, firstn_firstn, Nat.min_id.
  rewrite (firstn_length_le _ H), Nat.sub_diag. simpl. apply app_nil_r.
Qed.

(* the records written lie at the position *)
Lemma write_at_here t p x : p <= length t -> firstn (length x) (skipn p (write_at t p x)) = x.
Proof.
  intros H. unfold write_at. rewrite skipn_app. rewrite (firstn_length_le _ H), Nat.sub_diag.
  rewrite skipn_all2 by (rewrite (firstn_length_le _ H); lia). simpl.
  rewrite firstn_app, Nat.sub_diag, firstn_all. simpl. apply app_nil_r.
Qed.

(* what lay BEHIND the records replaced is untouched (nothing is shifted, nothing is appended twice) *)
Lemma write_at_suffix t p x : p <= length t ->
  skipn (p + length x) (write_at t p x) = skipn (p + length x) t.
Proof.
  intros H. unfold write_at. rewrite skipn_app. rewrite (firstn_length_le _ H).
  rewrite skipn_all2 by (rewrite (firstn_length_le _ H); lia). simpl.
  replace (p + length x - p) with (length x) by lia.
  rewrite skipn_app, Nat.sub_diag, skipn_all. reflexivity.
Qed.

Lemma write_at_length t p x : p <= length t -> length (write_at t p x) = Nat.max (length t) (p + length x).
Proof.
  intros H. unfold write_at. rewrite !app_length, (firstn_length_le _ H), skipn_length. lia.
Qed.

(* ---------------------------------------------------------------- one step *)
(* whatever happened before, a call does what the ONE-SHOT specification says for its cell *)
Lemma step_action_is_spec w c slot o v md : fst (snd (step w (OCall c slot o v md))) = spec c.
Proof.
  unfold step. destruct (c_verb c); destruct (spec c) as [e|r|m s ok| |n]; try reflexivity;
  try (destruct r; reflexivity); destruct s; try reflexivity; destruct ok; try reflexivity;
  destruct (get_sstate w slot); reflexivity.
Qed.

(* NO HIDDEN STATE: what a call returns (action and the text the class-level codec consumed) is a
   function of the CURRENT content of the file it addresses -- any two worlds (hence any two
   histories) that agree on that file give the same result. *)
Lemma step_no_hidden_state w1 w2 c slot o v md :
  get_file w1 (fkey_of c slot) = get_file w2 (fkey_of c slot) ->
  snd (step w1 (OCall c slot o v md)) = snd (step w2 (OCall c slot o v md)).
Proof.
  intros H. unfold step. destruct (c_verb c); destruct (spec c) as [e|r|m s ok| |n]; try reflexivity;
  try (rewrite H; reflexivity); try (destruct r; reflexivity);
  destruct s; try reflexivity; destruct ok; try reflexivity;
  destruct (get_sstate w1 slot), (get_sstate w2 slot); reflexivity.
Qed.

Definition is_load (c : cell) : bool := match c_verb c with VLoad | VLoadAll => true | _ => false end.
Definition is_loads (c : cell) : bool := match c_verb c with VLoads | VLoadsAll => true | _ => false end.

(* a reader that succeeds hands the class-level codec the current content of the file *)
Lemma load_sees_current_file w c slot o v md r :
  is_load c = true -> spec c = ARet r ->
  snd (step w (OCall c slot o v md)) = (ARet r, Some (get_file w (fkey_of c slot))).
Proof. intros Hl Hs. unfold step, is_load in *. rewrite Hs. destruct (c_verb c); try discriminate; reflexivity. Qed.

Lemma loads_sees_given_string w c slot o v md r :
  is_loads c = true -> spec c = ARet r ->
  snd (step w (OCall c slot o v md)) = (ARet r, Some [TDoc slot]).
Proof. intros Hl Hs. unfold step, is_loads in *. rewrite Hs. destruct (c_verb c); try discriminate; reflexivity. Qed.

(* dumps renders the object as it is NOW (version v) *)
Lemma dumps_renders_current_object w c slot o v md m :
  c_verb c = VDumps -> spec c = ARet (RDumps m) ->
  snd (step w (OCall c slot o v md)) = (ARet (RDumps m), Some [TW m o v]).
Proof. intros Hv Hs. unfold step. rewrite Hv, Hs. reflexivity. Qed.

(* dump to a path: the file afterwards is (old content if appending) ++ what the class writer of the
   object as it is now wrote; dump to a stream: appended to that stream *)
Lemma dump_path_effect w c slot o v md m :
  c_verb c = VDump -> spec c = AWrote m SOpenedPath true ->
  get_file (fst (step w (OCall c slot o v md))) (fkey_of c slot)
  = (match md with MAppend => get_file w (fkey_of c slot) | MTrunc => [] end) ++ [TW m o v].
Proof. intros Hv Hs. unfold step. rewrite Hv, Hs. simpl. apply get_set_file_same. Qed.

(* dump to a stream of the caller: the record is written AT the position of the stream (over what lies there,
   NOT behind the text when the stream is positioned elsewhere), and the stream is left right behind it *)
Lemma dump_stream_effect w c slot o v md m p :
  c_verb c = VDump -> spec c = AWrote m SGivenStream true -> get_sstate w slot = SOpenAt p ->
  get_stream (fst (step w (OCall c slot o v md))) slot = write_at (get_stream w slot) p [TW m o v] /\
  get_sstate (fst (step w (OCall c slot o v md))) slot = SOpenAt (S p).
Proof.
  intros Hv Hs Hq. unfold step. rewrite Hv, Hs, Hq. cbn [fst]. split.
  - rewrite get_stream_set_sstate. apply get_set_stream_same.
  - apply get_set_sstate_same.
Qed.

(* ... in particular a stream positioned behind its text is appended to and stays behind its text *)
Lemma dump_stream_at_end w c slot o v md m :
  c_verb c = VDump -> spec c = AWrote m SGivenStream true ->
  get_sstate w slot = SOpenAt (length (get_stream w slot)) ->
  let w' := fst (step w (OCall c slot o v md)) in
  get_stream w' slot = get_stream w slot ++ [TW m o v] /\
  get_sstate w' slot = SOpenAt (length (get_stream w' slot)).
Proof.
  intros Hv Hs Hq. destruct (dump_stream_effect w c slot o v md m _ Hv Hs Hq) as [H1 H2].
  cbv zeta. rewrite H1, H2, write_at_end. split; [reflexivity|]. rewrite app_length. simpl.
  f_equal. lia.
Qed.

(* ... and one positioned inside its text keeps everything before the position and everything behind the record *)
Lemma dump_stream_keeps_rest w c slot o v md m p :
  c_verb c = VDump -> spec c = AWrote m SGivenStream true -> get_sstate w slot = SOpenAt p ->
  p <= length (get_stream w slot) ->
  let t' := get_stream (fst (step w (OCall c slot o v md))) slot in
  firstn p t' = firstn p (get_stream w slot) /\ nth_error t' p = Some (TW m o v) /\
  skipn (S p) t' = skipn (S p) (get_stream w slot) /\
  length t' = Nat.max (length (get_stream w slot)) (S p).
Proof.
  intros Hv Hs Hq Hp. destruct (dump_stream_effect w c slot o v md m _ Hv Hs Hq) as [H1 _].
  cbv zeta. rewrite H1. repeat split.
  - apply write_at_prefix; exact Hp.
  - pose proof (write_at_here (get_stream w slot) p [TW m o v] Hp) as H. simpl length in H.
    destruct (skipn p (write_at (get_stream w slot) p [TW m o v])) as [|a r] eqn:E; [discriminate|].
    simpl in H. inversion H; subst a.
    rewrite <- (firstn_skipn p (write_at (get_stream w slot) p [TW m o v])), E.
    rewrite nth_error_app2; rewrite firstn_length_le; try lia.
    + rewrite Nat.sub_diag. reflexivity.
    + rewrite write_at_length by exact Hp. lia.
    + rewrite write_at_length by exact Hp. lia.
  - pose proof (write_at_suffix (get_stream w slot) p [TW m o v] Hp) as H. simpl length in H.
    replace (p + 1) with (S p) in H by lia. exact H.
  - rewrite write_at_length by exact Hp. simpl. f_equal. lia.
Qed.

(* frame: a call never touches a file other than the one it addresses, readers and dumps touch nothing *)
Lemma call_frame_files w c slot o v md k :
  k <> fkey_of c slot -> get_file (fst (step w (OCall c slot o v md))) k = get_file w k.
Proof.
  intros Hne. unfold step. destruct (c_verb c); destruct (spec c) as [e|r|m s ok| |n]; try reflexivity;
  try (destruct r; reflexivity); destruct s; try reflexivity; destruct ok; try reflexivity; simpl;
  try (destruct (get_sstate w slot); reflexivity).
  apply get_set_file_other. congruence.
Qed.

Lemma call_frame_streams w c slot o v md s :
  s <> slot -> get_stream (fst (step w (OCall c slot o v md))) s = get_stream w s.
Proof.
  intros Hne. unfold step. destruct (c_verb c); destruct (spec c) as [e|r|m s' ok| |n]; try reflexivity;
  try (destruct r; reflexivity); destruct s'; try reflexivity; destruct ok; try reflexivity;
  destruct (get_sstate w slot); try reflexivity; cbn [fst].
  rewrite get_stream_set_sstate. apply get_set_stream_other. congruence.
Qed.

(* ... and it neither closes nor moves a stream other than the one it was given *)
Lemma call_frame_sstate w c slot o v md s :
  s <> slot -> get_sstate (fst (step w (OCall c slot o v md))) s = get_sstate w s.
Proof.
  intros Hne. unfold step. destruct (c_verb c); destruct (spec c) as [e|r|m s' ok| |n]; try reflexivity;
  try (destruct r; reflexivity); destruct s'; try reflexivity; destruct ok; try reflexivity;
  destruct (get_sstate w slot); try reflexivity; cbn [fst].
  rewrite get_set_sstate_other by congruence. reflexivity.
Qed.

Lemma non_dump_leaves_world w c slot o v md :
  c_verb c <> VDump -> fst (step w (OCall c slot o v md)) = w.
Proof.
  intros Hv. unfold step. destruct (c_verb c); try contradiction; destruct (spec c) as [e|r|m s ok| |n];
  try reflexivity; destruct r; reflexivity.
Qed.

(* ---------------------------------------------------------------- what the caller owns *)
(* no operation -- successful or refused, reader or writer -- closes a stream of the caller or leaves it
   inside a record: streams that were open on a record boundary are open on a record boundary afterwards *)
Lemma step_stays_ready w x : streams_ready w = true -> streams_ready (fst (step w x)) = true.
Proof.
  intros Hr. destruct x as [c slot o v md | k d | s p].
  - unfold step. destruct (c_verb c); destruct (spec c) as [e|r|m s ok| |n]; try exact Hr;
    try (destruct r; exact Hr); destruct s; try exact Hr; destruct ok; try exact Hr;
    destruct (get_sstate w slot); try exact Hr; cbn [fst].
    apply set_sstate_ready; [exact Hr | reflexivity].
  - exact Hr.
  - unfold step; cbn [fst]. destruct (get_sstate w s); try exact Hr.
    apply set_sstate_ready; [exact Hr | reflexivity].
Qed.

(* the only operations that move a stream are a dump INTO it and the caller's own seek; nothing else does,
   and nothing changes its text except a dump into it *)
Definition touches_stream (s : nat) (x : op) : bool :=
  match x with
  | OSeek s' _ => Nat.eqb s' s
  | OCall c slot _ _ _ => match c_verb c, c_tgt c with VDump, TStream => Nat.eqb slot s | _, _ => false end
  | ORewrite _ _ => false
  end.

Lemma stream_dump_needs_stream_target c m : spec c = AWrote m SGivenStream true -> c_tgt c = TStream.
Proof.
  unfold spec. destruct (c_prs c); try discriminate;
  destruct (c_verb c); destruct (c_fmt c); try discriminate; try (destruct (ens_like (c_otype c)); discriminate);
  destruct (c_tgt c); try reflexivity; destruct (c_fsrc c); discriminate.
Qed.

Lemma step_untouched w x s : touches_stream s x = false ->
  get_stream (fst (step w x)) s = get_stream w s /\ get_sstate (fst (step w x)) s = get_sstate w s.
Proof.
  intros Ht. destruct x as [c slot o v md | k d | s' p].
  - simpl in Ht. destruct (Nat.eq_dec s slot) as [E|Hne].
    + subst slot. rewrite Nat.eqb_refl in Ht.
      unfold step. destruct (c_verb c) eqn:Ev; destruct (spec c) as [e|r|m q ok| |n] eqn:Es; try (split; reflexivity);
      try (destruct r; split; reflexivity); destruct q; try (split; reflexivity); destruct ok; try (split; reflexivity).
      rewrite (stream_dump_needs_stream_target c m Es) in Ht. discriminate.
    + split; [apply call_frame_streams | apply call_frame_sstate]; exact Hne.
  - split; reflexivity.
  - simpl in Ht. apply Nat.eqb_neq in Ht. unfold step; cbn [fst].
    destruct (get_sstate w s'); split; try reflexivity. apply get_set_sstate_other. exact Ht.
Qed.

(* a REFUSED call (unsupported format / parser / no format: spec = ARaise) leaves the whole world as it was *)
Lemma refused_leaves_world w c slot o v md e :
  spec c = ARaise e -> step w (OCall c slot o v md) = (w, (ARaise e, None)).
Proof. intros H. unfold step. rewrite H. destruct (c_verb c); reflexivity. Qed.

(* ---------------------------------------------------------------- histories *)
Lemma final_app w p q : final w (p ++ q) = final (final w p) q.
Proof. revert w; induction p as [|x p IH]; intros w; simpl; [reflexivity | apply IH]. Qed.

Lemma final_one w x : final w [x] = fst (step w x).
Proof. reflexivity. Qed.

Lemma run_app w p q : run w (p ++ q) = run w p ++ run (final w p) q.
Proof. revert w; induction p as [|x p IH]; intros w; simpl; [reflexivity | rewrite IH; reflexivity]. Qed.

Lemma run_length w p : length (run w p) = length p.
Proof. revert w; induction p as [|x p IH]; intros w; simpl; [reflexivity | rewrite IH; reflexivity]. Qed.

(* the i-th observation of a history is the step taken in the world reached by the first i operations *)
Lemma run_nth w p i x : nth_error p i = Some x ->
  exists ob, nth_error (run w p) i = Some ob /\ ob_res ob = snd (step (final w (firstn i p)) x).
Proof.
  revert w i; induction p as [|y p IH]; intros w i H; [destruct i; discriminate|].
  destruct i as [|i]; simpl in H.
  - inversion H; subst. simpl. eexists; split; reflexivity.
  - simpl. apply IH. exact H.
Qed.

(* in every history, at every position, a call's action is the one-shot specification of its cell *)
Lemma run_action_is_spec w p i c slot o v md :
  nth_error p i = Some (OCall c slot o v md) ->
  exists ob, nth_error (run w p) i = Some ob /\ fst (ob_res ob) = spec c.
Proof.
  intros H. destruct (run_nth w p i _ H) as [ob [H1 H2]]. exists ob; split; [exact H1|].
  rewrite H2. apply step_action_is_spec.
Qed.

(* NO HIDDEN STATE over histories: two arbitrary histories from arbitrary worlds that leave the
   addressed file with the same content are indistinguishable by the next call. *)
Lemma history_independence w1 w2 p1 p2 c slot o v md :
  get_file (final w1 p1) (fkey_of c slot) = get_file (final w2 p2) (fkey_of c slot) ->
  snd (step (final w1 p1) (OCall c slot o v md)) = snd (step (final w2 p2) (OCall c slot o v md)).
Proof. apply step_no_hidden_state. Qed.

(* call, rewrite the file, call again: the second call sees the NEW document, whatever came before *)
Lemma load_after_rewrite w pre c slot o v md d r :
  is_load c = true -> spec c = ARet r ->
  snd (step (final w (pre ++ [ORewrite (fkey_of c slot) d])) (OCall c slot o v md)) = (ARet r, Some [TDoc d]).
Proof.
  intros Hl Hs. rewrite final_app, final_one.
  rewrite (load_sees_current_file _ _ _ _ _ _ r Hl Hs).
  unfold step; cbn [fst]. rewrite get_set_file_same. reflexivity.
Qed.

(* dump to a path, then load the same path (any history before, any reader configuration that
   addresses the same file): the reader is handed exactly what is in the file now *)
Lemma load_after_dump w pre cd cl slot o v md o' v' md' m r :
  c_verb cd = VDump -> spec cd = AWrote m SOpenedPath true ->
  is_load cl = true -> spec cl = ARet r -> fkey_of cl slot = fkey_of cd slot ->
  snd (step (final w (pre ++ [OCall cd slot o v md])) (OCall cl slot o' v' md'))
  = (ARet r, Some ((match md with MAppend => get_file (final w pre) (fkey_of cd slot) | MTrunc => [] end) ++ [TW m o v])).
Proof.
  intros Hv Hs Hl Hsl Hk. rewrite final_app, final_one.
  rewrite (load_sees_current_file _ _ _ _ _ _ r Hl Hsl). rewrite Hk.
  rewrite (dump_path_effect _ _ _ _ _ _ m Hv Hs). reflexivity.
Qed.

(* dump after dump to the same path: appending keeps the first record, truncating drops it *)
Lemma dump_after_dump w c slot o v o' v' md' m :
  c_verb c = VDump -> spec c = AWrote m SOpenedPath true ->
  get_file (final w [OCall c slot o v MTrunc; OCall c slot o' v' md']) (fkey_of c slot)
  = match md' with MAppend => [TW m o v; TW m o' v'] | MTrunc => [TW m o' v'] end.
Proof.
  intros Hv Hs. change (final w [OCall c slot o v MTrunc; OCall c slot o' v' md'])
    with (fst (step (fst (step w (OCall c slot o v MTrunc))) (OCall c slot o' v' md'))).
  rewrite (dump_path_effect _ _ _ _ _ _ m Hv Hs). rewrite (dump_path_effect _ _ _ _ _ _ m Hv Hs).
  destruct md'; reflexivity.
Qed.

(* in every history the streams of the caller stay usable: open, on a record boundary, after any number of
   calls, refused ones included *)
Lemma streams_stay_ready w p : streams_ready w = true -> streams_ready (final w p) = true.
Proof.
  revert w; induction p as [|x p IH]; intros w H; simpl; [exact H|]. apply IH, step_stays_ready, H.
Qed.

(* a stream that no operation of the history addresses (no dump into it, no seek of it) holds what it held,
   where it was *)
Lemma stream_state_preserved w p s : existsb (touches_stream s) p = false ->
  get_stream (final w p) s = get_stream w s /\ get_sstate (final w p) s = get_sstate w s.
Proof.
  revert w; induction p as [|x p IH]; intros w H; simpl in *; [split; reflexivity|].
  apply orb_false_elim in H; destruct H as [Hx Hp].
  destruct (IH (fst (step w x)) Hp) as [H1 H2]. destruct (step_untouched w x s Hx) as [H3 H4].
  rewrite H1, H2, H3, H4. split; reflexivity.
Qed.

(* every observation of a history reports every stream open on a record boundary, and no handle left open *)
Lemma run_obs_owned w p ob : streams_ready w = true -> In ob (run w p) ->
  forallb is_open (ob_sstate ob) = true /\ ob_left_open ob = 0.
Proof.
  revert w; induction p as [|x p IH]; intros w Hr H; simpl in H; [contradiction|].
  destruct H as [H|H].
  - subst ob; simpl. split; [|reflexivity]. pose proof (step_stays_ready w x Hr) as H.
    unfold streams_ready in H. rewrite forallb_forall in *. intros q Hq. apply in_map_iff in Hq.
    destruct Hq as [[k q'] [E Hin]]. simpl in E; subst q'. exact (H _ Hin).
  - exact (IH _ (step_stays_ready w x Hr) H).
Qed.

(* a refused dump into a stream, after any history: the stream holds what it held, in the state it had *)
Lemma refused_dump_keeps_stream w pre c slot o v md e s :
  spec c = ARaise e ->
  get_stream (final w (pre ++ [OCall c slot o v md])) s = get_stream (final w pre) s /\
  get_sstate (final w (pre ++ [OCall c slot o v md])) s = get_sstate (final w pre) s /\
  snd (step (final w pre) (OCall c slot o v md)) = (ARaise e, None).
Proof.
  intros H. rewrite final_app, final_one. rewrite (refused_leaves_world _ _ _ _ _ _ e H). cbn [fst snd].
  repeat split.
Qed.

(* soundness of the correspondence check *)
Lemma tok_eqb_eq a b : tok_eqb a b = true -> a = b.
Proof.
  destruct a as [d|m o v|], b as [d'|m' o' v'|]; simpl; try discriminate; intros H.
  - apply Nat.eqb_eq in H; subst; reflexivity.
  - apply andb_prop in H; destruct H as [H Hv]. apply andb_prop in H; destruct H as [Hm Ho].
    apply Nat.eqb_eq in Hv, Ho. destruct m as [a b], m' as [a' b']. unfold meth_eqb in Hm; simpl in Hm.
    apply andb_prop in Hm; destruct Hm as [Ha Hb].
    apply internal_verb_dec_bl in Ha. apply internal_fmtc_dec_bl in Hb. subst. reflexivity.
  - reflexivity.
Qed.

Lemma list_eqb_eq {A} (eqb : A -> A -> bool) (Heq : forall a b, eqb a b = true -> a = b) :
  forall x y, list_eqb eqb x y = true -> x = y.
Proof.
  induction x as [|a x IH]; intros [|b y] H; simpl in H; try discriminate; [reflexivity|].
  apply andb_prop in H; destruct H as [H1 H2]. f_equal; [apply Heq; exact H1 | apply IH; exact H2].
Qed.

Lemma result_eqb_eq a b : result_eqb a b = true -> a = b.
Proof.
  destruct a as [a s], b as [b t]; unfold result_eqb; simpl; intros H.
  apply andb_prop in H; destruct H as [Ha Hs]. apply Molli.Proofs.Dispatch.action_eqb_eq in Ha. subst b.
  destruct s as [s|], t as [t|]; try discriminate; [|reflexivity].
  apply (list_eqb_eq tok_eqb tok_eqb_eq) in Hs. subst. reflexivity.
Qed.

Lemma sstate_eqb_eq a b : sstate_eqb a b = true -> a = b.
Proof. destruct a, b; simpl; intros H; try discriminate; try reflexivity. apply Nat.eqb_eq in H; subst; reflexivity. Qed.

Lemma obs_eqb_eq a b : obs_eqb a b = true -> a = b.
Proof.
  destruct a as [r f s q n], b as [r' f' s' q' n']; unfold obs_eqb; simpl; intros H.
  apply andb_prop in H; destruct H as [H Hn]. apply andb_prop in H; destruct H as [H Hq].
  apply andb_prop in H; destruct H as [H Hs]. apply andb_prop in H; destruct H as [Hr Hf].
  apply result_eqb_eq in Hr. apply Nat.eqb_eq in Hn.
  apply (list_eqb_eq _ (list_eqb_eq tok_eqb tok_eqb_eq)) in Hf, Hs.
  apply (list_eqb_eq _ sstate_eqb_eq) in Hq. subst. reflexivity.
Qed.

(* a recorded history accepted by the check IS the run of the model *)
Lemma check_seq_sound sc : check_seq sc = true -> run (sc_init sc) (sc_prog sc) = sc_obs sc.
Proof. unfold check_seq. apply list_eqb_eq. exact obs_eqb_eq. Qed.
