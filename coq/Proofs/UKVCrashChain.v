(* C03: ANY NUMBER of crashing sessions in a row.  Each session reopens the file for append (which cuts a torn
   tail back), writes the blocks of its puts and dies after an arbitrary number of bytes; the next session
   starts from whatever bytes that left.  The bytes are the model's own (open_ on the real crash bytes), not
   a re-idealised image: chain iterates  f |-> fst (open_ (f ++ firstn n (blocks ps)) h0 MA). *)
From Coq Require Import ZArith NArith List Bool Lia.
Import ListNotations.
Open Scope N_scope.
From Molli Require Import Model.UKV Proofs.UKVBase Proofs.UKV Proofs.UKVCrash.

(* one crashing session on the file f: recovery by a fresh handle opened for append happens at the START of the
   next session, so the bytes a session leaves are  (recovered f) ++ firstn n (blocks ps) *)
Definition die_after (f : bytes) (ps : list kv) (n : nat) : bytes := f ++ firstn n (blocks ps).
Definition recover (f : bytes) : bytes := fst (open_ f h0 MA).

Fixpoint chain (f : bytes) (ss : list (list kv * nat)) : bytes :=
  match ss with
  | [] => f
  | (ps, n) :: ss' => chain (recover (die_after f ps n)) ss'
  end.

(* the records a chain of crashes leaves visible: per session the puts wholly inside its first n bytes *)
Fixpoint chain_records (rs : list kv) (ss : list (list kv * nat)) : list kv :=
  match ss with
  | [] => rs
  | (ps, n) :: ss' => chain_records (rs ++ complete n ps) ss'
  end.

Definition all_puts (ss : list (list kv * nat)) : list kv := concat (map fst ss).

Lemma nodup_drop_mid {A} (a m c : list A) : NoDup (a ++ m ++ c) -> NoDup (a ++ c).
Proof.
  induction m as [|x m IH]; simpl; intros Hn; [exact Hn|].
  apply IH. eapply NoDup_remove_1. exact Hn.
Qed.

Lemma nodup_app_l {A} (a c : list A) : NoDup (a ++ c) -> NoDup a.
Proof.
  intros Hn. pose proof (nodup_drop_mid a c [] ) as P. rewrite !app_nil_r in P. apply P. exact Hn.
Qed.

Lemma forall_firstn {A} (P : A -> Prop) j l : Forall P l -> Forall P (firstn j l).
Proof.
  intros Hf. apply Forall_forall. intros x Hx. rewrite Forall_forall in Hf. apply Hf. eapply in_firstn. exact Hx.
Qed.

Lemma chain_records_prefix rs ss : exists qs, chain_records rs ss = rs ++ qs.
Proof.
  revert rs. induction ss as [|[ps n] ss IH]; intros rs; simpl.
  - exists []. rewrite app_nil_r. reflexivity.
  - destruct (IH (rs ++ complete n ps)) as [qs E]. exists (complete n ps ++ qs). rewrite E, app_assoc. reflexivity.
Qed.

(* the hypotheses of one step pass to the rest of the chain *)
Lemma chain_step_hyps rs ps n rest :
  Forall wfkv (rs ++ ps ++ rest) -> NoDup (map fst (rs ++ ps ++ rest)) ->
  Forall wfkv ((rs ++ complete n ps) ++ rest) /\ NoDup (map fst ((rs ++ complete n ps) ++ rest)).
Proof.
  intros Hwf Hnd. destruct (complete_prefix n ps) as [j Hj]. rewrite Hj. split.
  - apply Forall_app in Hwf. destruct Hwf as [Hr Hwf]. apply Forall_app in Hwf. destruct Hwf as [Hp Hq].
    apply Forall_app. split; [apply Forall_app; split; [exact Hr|apply forall_firstn; exact Hp]|exact Hq].
  - rewrite <- (firstn_skipn j ps) in Hnd. rewrite !map_app in Hnd. rewrite !map_app.
    rewrite <- app_assoc in Hnd. rewrite <- app_assoc.
    (* map fst rs ++ (F ++ S) ++ R  ~>  map fst rs ++ F ++ R *)
    rewrite (app_assoc (map fst rs)) in Hnd. rewrite (app_assoc (map fst rs)).
    eapply nodup_drop_mid. exact Hnd.
Qed.

Theorem crash_chain H : forall ss rs,
  hdr_ok H -> Forall wfkv (rs ++ all_puts ss) -> NoDup (map fst (rs ++ all_puts ss)) ->
  chain (H ++ blocks rs) ss = H ++ blocks (chain_records rs ss)
  /\ Forall wfkv (chain_records rs ss) /\ NoDup (map fst (chain_records rs ss)).
Proof.
  induction ss as [|[ps n] ss IH]; intros rs Hok Hwf Hnd.
  - unfold all_puts in *. simpl in *. rewrite app_nil_r in *. auto.
  - unfold all_puts in Hwf, Hnd. simpl in Hwf, Hnd. fold (all_puts ss) in Hwf, Hnd.
    destruct (chain_step_hyps rs ps n (all_puts ss) Hwf Hnd) as [Hwf' Hnd'].
    assert (Hwf1 : Forall wfkv (rs ++ ps)).
    { rewrite app_assoc in Hwf. apply Forall_app in Hwf. tauto. }
    assert (Hnd1 : NoDup (map fst (rs ++ ps))).
    { rewrite app_assoc, map_app in Hnd. eapply nodup_app_l. exact Hnd. }
    destruct (crash_recover H rs ps n 1%nat 0%nat Hok Hwf1 Hnd1 (Nat.lt_0_succ 0)) as [h' [E _]].
    simpl. unfold recover, die_after. rewrite <- app_assoc. fold (crash_image H rs ps n). rewrite E. simpl.
    apply IH; assumption.
Qed.

(* every record committed before the first crash keeps its exact value through the whole chain *)
Theorem crash_chain_committed H ss rs k v :
  hdr_ok H -> Forall wfkv (rs ++ all_puts ss) -> NoDup (map fst (rs ++ all_puts ss)) ->
  assoc rs k = Some v ->
  chain (H ++ blocks rs) ss = H ++ blocks (chain_records rs ss) /\ assoc (chain_records rs ss) k = Some v.
Proof.
  intros Hok Hwf Hnd Ha. destruct (crash_chain H ss rs Hok Hwf Hnd) as [E _]. split; [exact E|].
  destruct (chain_records_prefix rs ss) as [qs Eq]. rewrite Eq. apply assoc_app_l. exact Ha.
Qed.

(* after the chain a recovering writer has the C02 invariant for exactly chain_records: C02_refines applies *)
Theorem crash_chain_inv H ss rs nh i :
  hdr_ok H -> Forall wfkv (rs ++ all_puts ss) -> NoDup (map fst (rs ++ all_puts ss)) -> (i < nh)%nat ->
  exists h', open_ (chain (H ++ blocks rs) ss) h0 MA = (H ++ blocks (chain_records rs ss), h') /\
             Inv H (chain_records rs ss) (H ++ blocks (chain_records rs ss), upd (repeat h0 nh) i h').
Proof.
  intros Hok Hwf Hnd Hi. destruct (crash_chain H ss rs Hok Hwf Hnd) as [E [Hw Hn]]. rewrite E.
  assert (Hw0 : Forall wfkv (chain_records rs ss ++ [])) by (rewrite app_nil_r; exact Hw).
  assert (Hn0 : NoDup (map fst (chain_records rs ss ++ []))) by (rewrite app_nil_r; exact Hn).
  destruct (crash_recover H (chain_records rs ss) [] 0%nat nh i Hok Hw0 Hn0 Hi) as [h' [E' I]].
  unfold crash_image in E'. simpl in E'. rewrite !app_nil_r in E'. simpl in I. rewrite !app_nil_r in I.
  exists h'. split; assumption.
Qed.
