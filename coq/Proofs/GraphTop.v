(* C15: from the FIFO specification form (Proofs/Graph.v) to the functions of Model/Graph.v:
   deque refinement, fuel sufficiency, label shift, and the top-level theorems about yield_bfsd,
   yield_bfs and is_bond_in_ring. *)
From Coq Require Import Arith List Bool Lia Sorted.
From Molli Require Import Model.Graph Proofs.Graph.
Import ListNotations.
Open Scope nat_scope.

(* ================================================================ deque form = FIFO form *)
Lemma scan_d_discover ns : forall d1 visited dq,
  scan_d ns d1 visited dq =
  let '(v', new) := discover ns visited d1 in (v', rev new ++ dq, new).
Proof.
  induction ns as [|a ns IH]; intros d1 visited dq; cbn [scan_d discover].
  - reflexivity.
  - destruct (mem a visited) eqn:E.
    + apply IH.
    + rewrite IH. unfold dq_appendleft. destruct (discover ns (a :: visited) d1) as [v' new].
      cbn [rev]. now rewrite <- app_assoc.
Qed.

Lemma loop_d_bfs : forall fuel g visited dq, loop_d fuel g visited dq = bfs fuel g visited (rev dq).
Proof.
  induction fuel as [|fuel IH]; intros g visited dq; cbn [loop_d]; unfold dq_pop.
  - destruct (rev dq) as [|[u d] r] eqn:E; reflexivity.
  - destruct (rev dq) as [|[u d] r] eqn:E; cbn [bfs]; [reflexivity|].
    rewrite scan_d_discover. destruct (discover (connected_atoms g u) visited (S d)) as [v' new].
    rewrite IH. rewrite rev_app_distr, !rev_involutive. reflexivity.
Qed.

(* ================================================================ yield_bfs is yield_bfsd without the labels *)
Lemma scan_n_scan_d ns : forall d1 visited dq,
  scan_n ns visited (map fst dq) =
  let '(v', dq', out) := scan_d ns d1 visited dq in (v', map fst dq', map fst out).
Proof.
  induction ns as [|a ns IH]; intros d1 visited dq; cbn [scan_n scan_d].
  - reflexivity.
  - destruct (mem a visited) eqn:E.
    + apply IH.
    + unfold dq_appendleft. specialize (IH d1 (a :: visited) ((a, d1) :: dq)). cbn [map fst] in IH.
      rewrite IH. destruct (scan_d ns d1 (a :: visited) ((a, d1) :: dq)) as [[v' dq'] out]. reflexivity.
Qed.

Lemma loop_n_loop_d : forall fuel g visited dq,
  loop_n fuel g visited (map fst dq) = option_map (map fst) (loop_d fuel g visited dq).
Proof.
  induction fuel as [|fuel IH]; intros g visited dq; cbn [loop_n loop_d]; unfold dq_pop; rewrite <- map_rev.
  - destruct (rev dq) as [|[u d] r] eqn:E; reflexivity.
  - destruct (rev dq) as [|[u d] r] eqn:E; cbn [map fst]; [reflexivity|].
    rewrite <- map_rev. rewrite (scan_n_scan_d _ (S d)).
    destruct (scan_d (connected_atoms g u) (S d) visited (rev r)) as [[v' dq'] out].
    rewrite IH. destruct (loop_d fuel g v' dq') as [rest|]; cbn [option_map]; [|reflexivity].
    now rewrite map_app.
Qed.

Theorem yield_bfs_erases g s dir :
  yield_bfs g s dir = match yield_bfsd g s dir with
                      | BOk l => BOk (map fst l) | BAssert => BAssert | BFuel => BFuel end.
Proof.
  unfold yield_bfs, yield_bfsd, dq_append. destruct dir as [d|].
  - destruct (mem d (connected_atoms g s)); [|reflexivity].
    change ([] ++ [d]) with (map fst ([] ++ [(d, 1)])). rewrite loop_n_loop_d.
    destruct (loop_d _ g [d; s] _); reflexivity.
  - change ([] ++ [s]) with (map fst ([] ++ [(s, 0)])). rewrite loop_n_loop_d.
    destruct (loop_d _ g [s] _); reflexivity.
Qed.

(* ================================================================ labels do not steer the traversal *)
Definition lift (k : nat) (p : nat * nat) : nat * nat := (fst p, k + snd p).

Lemma discover_lift k ns : forall visited d1,
  discover ns visited (k + d1) = let '(v', new) := discover ns visited d1 in (v', map (lift k) new).
Proof.
  induction ns as [|a ns IH]; intros visited d1; cbn [discover]; [reflexivity|].
  destruct (mem a visited); [apply IH|]. rewrite IH.
  destruct (discover ns (a :: visited) d1) as [v' new]. reflexivity.
Qed.

Lemma bfs_lift k : forall fuel g visited q,
  bfs fuel g visited (map (lift k) q) = option_map (map (lift k)) (bfs fuel g visited q).
Proof.
  induction fuel as [|fuel IH]; intros g visited q.
  - destruct q as [|[u d] q]; reflexivity.
  - destruct q as [|[u d] q]; [reflexivity|]. cbn [map lift fst snd bfs].
    replace (S (k + d)) with (k + S d) by lia. rewrite discover_lift.
    destruct (discover (connected_atoms g u) visited (S d)) as [v' new].
    rewrite <- map_app, IH. destruct (bfs fuel g v' (q ++ new)) as [out|]; cbn [option_map]; [|reflexivity].
    now rewrite map_app.
Qed.

(* ================================================================ fuel sufficiency *)
Definition verts (g : graph) : list nat := flat_map (fun b => [fst b; snd b]) g.

Lemma verts_length g : length (verts g) = 2 * length g.
Proof. induction g as [|b g IH]; [reflexivity|]. cbn [verts flat_map app length] in *. unfold verts in IH. lia. Qed.

Lemma connected_atoms_verts g u x : In x (connected_atoms g u) -> In x (verts g).
Proof.
  intros H. apply connected_atoms_adj in H. unfold verts. apply in_flat_map.
  destruct H as [H|H]; [exists (u, x)|exists (x, u)]; (split; [exact H|]); simpl; tauto.
Qed.

(* number of atoms of l that are not yet visited *)
Definition cnt (visited l : list nat) : nat := length (filter (fun x => negb (mem x visited)) l).

Lemma cnt_cons_notin a visited l : ~ In a l -> cnt (a :: visited) l = cnt visited l.
Proof.
  unfold cnt. induction l as [|x l IH]; intros Hn; [reflexivity|]. cbn [filter].
  assert (Hxa : (x =? a) = false) by (apply Nat.eqb_neq; intros ->; apply Hn; now left).
  unfold mem at 1. cbn [existsb]. rewrite Hxa. cbn [orb]. fold (mem x visited).
  assert (IH' := IH (fun H => Hn (or_intror H))).
  destruct (negb (mem x visited)); cbn [length]; now rewrite IH'.
Qed.

Lemma cnt_cons_in a visited l : NoDup l -> In a l -> mem a visited = false ->
  S (cnt (a :: visited) l) = cnt visited l.
Proof.
  induction l as [|x l IH]; intros Hnd Hin Hm; [destruct Hin|].
  inversion Hnd as [|x' l' Hx Hnd']; subst.
  destruct (Nat.eq_dec x a) as [->|Hxa].
  - unfold cnt. cbn [filter]. unfold mem at 1. cbn [existsb]. rewrite Nat.eqb_refl. cbn [orb negb].
    rewrite Hm. cbn [negb length]. f_equal. apply (cnt_cons_notin a visited l Hx).
  - destruct Hin as [->|Hin]; [contradiction|].
    specialize (IH Hnd' Hin Hm). unfold cnt in *. cbn [filter].
    unfold mem at 1. cbn [existsb]. apply Nat.eqb_neq in Hxa. rewrite Hxa. cbn [orb]. fold (mem x visited).
    destruct (negb (mem x visited)); cbn [length]; lia.
Qed.

Lemma discover_count l : NoDup l -> forall ns visited d1 v' new,
  incl ns l -> discover ns visited d1 = (v', new) -> cnt v' l + length new = cnt visited l.
Proof.
  intros Hnd. induction ns as [|a ns IH]; intros visited d1 v' new Hi H; cbn [discover] in H.
  - injection H as <- <-. simpl. lia.
  - assert (Hi' : incl ns l) by (intros x Hx; apply Hi; now right).
    destruct (mem a visited) eqn:E; [eapply IH; eauto|].
    destruct (discover ns (a :: visited) d1) as [v2 out] eqn:D. injection H as <- <-.
    specialize (IH _ _ _ _ Hi' D). cbn [length].
    assert (Ha : In a l) by (apply Hi; now left).
    pose proof (cnt_cons_in a visited l Hnd Ha E). lia.
Qed.

Lemma bfs_fuel_enough_gen g l : NoDup l -> (forall u, incl (connected_atoms g u) l) ->
  forall fuel visited queue, cnt visited l + length queue <= fuel -> bfs fuel g visited queue <> None.
Proof.
  intros Hnd Hi. induction fuel as [|fuel IH]; intros visited queue Hle.
  - destruct queue as [|[u d] q]; [discriminate|]. simpl in Hle. lia.
  - destruct queue as [|[u d] q]; [discriminate|]. cbn [bfs].
    destruct (discover (connected_atoms g u) visited (S d)) as [v' new] eqn:D.
    pose proof (discover_count l Hnd _ _ _ _ _ (Hi u) D) as Hc.
    assert (Hle' : cnt v' l + length (q ++ new) <= fuel) by (rewrite app_length; simpl in Hle; lia).
    specialize (IH v' (q ++ new) Hle'). destruct (bfs fuel g v' (q ++ new)); [discriminate|contradiction].
Qed.

Lemma nodup_length_le (l : list nat) : length (nodup Nat.eq_dec l) <= length l.
Proof. induction l as [|x l IH]; [auto|]. cbn [nodup]. destruct (in_dec Nat.eq_dec x l); simpl; lia. Qed.

Lemma cnt_le visited l : cnt visited l <= length l.
Proof. unfold cnt. induction l as [|x l IH]; [auto|]. cbn [filter]. destruct (negb _); simpl; lia. Qed.

(* the fuel the model uses is always enough: a one-entry queue, any visited set *)
Theorem bfs_fuel_enough g visited p : bfs (bfs_fuel g) g visited [p] <> None.
Proof.
  apply (bfs_fuel_enough_gen g (nodup Nat.eq_dec (verts g))).
  - apply NoDup_nodup.
  - intros u x Hx. apply nodup_In. eapply connected_atoms_verts; eauto.
  - unfold bfs_fuel. pose proof (cnt_le visited (nodup Nat.eq_dec (verts g))).
    pose proof (nodup_length_le (verts g)). rewrite verts_length in *. simpl length. lia.
Qed.

(* ================================================================ removing a vertex / a bond *)
Lemma bond_has_true b x : bond_has b x = true <-> fst b = x \/ snd b = x.
Proof. unfold bond_has. rewrite orb_true_iff, !Nat.eqb_eq. tauto. Qed.

Lemma adj_remove_vertex g x u v : adj (remove_vertex g x) u v <-> adj g u v /\ u <> x /\ v <> x.
Proof.
  unfold adj, remove_vertex. rewrite !filter_In. rewrite !negb_true_iff.
  assert (H1 : bond_has (u, v) x = false <-> u <> x /\ v <> x).
  { rewrite <- not_true_iff_false, bond_has_true. simpl. tauto. }
  assert (H2 : bond_has (v, u) x = false <-> u <> x /\ v <> x).
  { rewrite <- not_true_iff_false, bond_has_true. simpl. tauto. }
  tauto.
Qed.

Lemma joins_true b x y : joins b x y = true <-> (fst b = x /\ snd b = y) \/ (fst b = y /\ snd b = x).
Proof. unfold joins. rewrite orb_true_iff, !andb_true_iff, !Nat.eqb_eq. tauto. Qed.

Lemma adj_remove_bond g x y u v :
  adj (remove_bond g x y) u v <-> adj g u v /\ ~ (u = x /\ v = y) /\ ~ (u = y /\ v = x).
Proof.
  unfold adj, remove_bond. rewrite !filter_In. rewrite !negb_true_iff.
  assert (H1 : joins (u, v) x y = false <-> ~ (u = x /\ v = y) /\ ~ (u = y /\ v = x)).
  { rewrite <- not_true_iff_false, joins_true. simpl. tauto. }
  assert (H2 : joins (v, u) x y = false <-> ~ (u = x /\ v = y) /\ ~ (u = y /\ v = x)).
  { rewrite <- not_true_iff_false, joins_true. simpl. tauto. }
  tauto.
Qed.

(* walks that never enter x = walks of the graph with x deleted *)
Lemma walkB_remove_vertex g x s v k : s <> x ->
  (walkR (adjB g [x]) s v k <-> walk (remove_vertex g x) s v k).
Proof.
  intros Hs. split.
  - intros W. assert (H : walk (remove_vertex g x) s v k /\ v <> x).
    { induction W as [|b c k W IH [Ha Hc]]; [split; [constructor|exact Hs]|].
      destruct IH as [IH Hb].
      assert (Hcx : c <> x) by (intros ->; apply Hc; now left).
      split; [|exact Hcx].
      econstructor; [exact IH|]. apply adj_remove_vertex. tauto. }
    apply H.
  - intros W. induction W as [|b c k W IH Ha]; [constructor|].
    apply adj_remove_vertex in Ha. econstructor; [exact IH|]. split; [tauto|]. simpl. intros [E|[]]. symmetry in E. tauto.
Qed.

Lemma walkB_nil g s v k : walkR (adjB g []) s v k <-> walk g s v k.
Proof.
  split; apply walkR_mono; intros u w.
  - intros [H _]. exact H.
  - intros H. split; [exact H|intros []].
Qed.

(* ================================================================ top-level: plain traversal *)
Lemma loop_d_start fuel g visited p : loop_d fuel g visited (dq_append p []) = bfs fuel g visited [p].
Proof. rewrite loop_d_bfs. reflexivity. Qed.

Theorem yield_bfsd_total g s : exists out, yield_bfsd g s None = BOk out.
Proof.
  unfold yield_bfsd. rewrite loop_d_start.
  destruct (bfs (bfs_fuel g) g [s] [(s, 0)]) as [o|] eqn:E; [eauto|].
  exfalso. exact (bfs_fuel_enough g [s] (s, 0) E).
Qed.

(* C15, first clause: every other atom of the component exactly once, in non-decreasing distance,
   with the true shortest-path distance. Holds for every bond list (parallel bonds and self loops
   included). *)
Theorem yield_bfsd_correct g s out : yield_bfsd g s None = BOk out ->
  NoDup (map fst out) /\ ~ In s (map fst out) /\
  StronglySorted le (map snd out) /\
  (forall v, In v (map fst out) <-> reach g s v /\ v <> s) /\
  (forall v d, In (v, d) out -> is_dist g s v d).
Proof.
  unfold yield_bfsd. rewrite loop_d_start.
  destruct (bfs (bfs_fuel g) g [s] [(s, 0)]) as [o|] eqn:E; [|discriminate]. intros H. injection H as <-.
  assert (HV : forall x, In x [s] <-> In x [] \/ x = s) by (intros x; simpl; split; [intros [<-|[]]; tauto|intros [[]| ->]; tauto]).
  destruct (bfs_blk_correct g s [] _ _ _ HV E) as (H1 & H2 & _ & H4 & H5 & H6).
  repeat split; auto.
  - destruct (H5 v) as [_ Hr]. destruct (Hr (or_intror H)) as [k W]. exists k. now apply walkB_nil.
  - intros ->. contradiction.
  - intros [[k W] Hv]. destruct (H5 v) as [Hl _]. destruct Hl as [->|Hl]; [|contradiction|exact Hl].
    exists k. now apply walkB_nil.
  - apply walkB_nil. now apply (H6 v d).
  - intros k W. apply (H6 v d H). now apply walkB_nil.
Qed.

(* ================================================================ top-level: directed traversal *)
Theorem yield_bfsd_dir_total g s d :
  (exists out, yield_bfsd g s (Some d) = BOk out) <-> adj g s d.
Proof.
  unfold yield_bfsd. rewrite <- connected_atoms_adj, <- mem_In.
  destruct (mem d (connected_atoms g s)) eqn:M.
  - split; [reflexivity|]. intros _. rewrite loop_d_start.
    destruct (bfs (bfs_fuel g) g [d; s] [(d, 1)]) as [o|] eqn:E; [eauto|].
    exfalso. exact (bfs_fuel_enough g [d; s] (d, 1) E).
  - split; [intros [out H]; discriminate|discriminate].
Qed.

Theorem yield_bfsd_dir_assert g s d : yield_bfsd g s (Some d) = BAssert <-> ~ adj g s d.
Proof.
  unfold yield_bfsd. rewrite <- connected_atoms_adj, <- mem_In.
  destruct (mem d (connected_atoms g s)).
  - split; [|intros H; exfalso; now apply H]. destruct (loop_d _ _ _ _); discriminate.
  - split; [intros _; discriminate|reflexivity].
Qed.

(* C15, second clause: with a direction d (a neighbour of s, d <> s) the traversal yields d first and
   then exactly the atoms that d reaches in the graph with s deleted, each once, labelled 1 + their
   distance from d in that graph, labels non-decreasing. *)
Theorem yield_bfsd_dir_correct g s d out : d <> s -> yield_bfsd g s (Some d) = BOk out ->
  exists rest, out = (d, 1) :: rest /\
  NoDup (map fst out) /\ ~ In s (map fst out) /\
  StronglySorted le (map snd out) /\
  (forall v, In v (map fst out) <-> reach (remove_vertex g s) d v) /\
  (forall v k, In (v, k) out -> exists k0, k = S k0 /\ is_dist (remove_vertex g s) d v k0).
Proof.
  intros Hds. unfold yield_bfsd. destruct (mem d (connected_atoms g s)); [|discriminate].
  rewrite loop_d_start. change [(d, 1)] with (map (lift 1) [(d, 0)]). rewrite bfs_lift.
  destruct (bfs (bfs_fuel g) g [d; s] [(d, 0)]) as [o|] eqn:E; cbn [option_map]; [|discriminate].
  intros H. injection H as <-. exists (map (lift 1) o). split; [reflexivity|].
  assert (Hblk : ~ In d [s]) by (simpl; intros [H|[]]; now apply Hds).
  assert (HV : forall x, In x [d; s] <-> In x [s] \/ x = d) by (intros x; simpl; intuition).
  destruct (bfs_blk_correct g d [s] _ _ _ HV E) as (H1 & H2 & H3 & H4 & H5 & H6).
  assert (Hfst : map fst (map (lift 1) o) = map fst o) by (rewrite map_map; apply map_ext; intros [a b]; reflexivity).
  assert (Hsnd : map snd (map (lift 1) o) = map S (map snd o)) by (rewrite !map_map; apply map_ext; intros [a b]; reflexivity).
  cbn [map fst snd]. rewrite Hfst, Hsnd.
  split; [|split; [|split; [|split]]].
  - constructor; assumption.
  - simpl. intros [Hc|Hc]; [now apply Hds|]. apply (H3 s Hc). now left.
  - constructor.
    + clear -H4. induction (map snd o) as [|x l IH]; [constructor|]. inversion H4; subst. cbn [map]. constructor; [now apply IH|].
      apply Forall_forall. intros y Hy. apply in_map_iff in Hy. destruct Hy as [z [<- Hz]].
      rewrite Forall_forall in H2. specialize (H2 z Hz). lia.
    + apply Forall_forall. intros y Hy. apply in_map_iff in Hy. destruct Hy as [z [<- Hz]]. lia.
  - intros v. simpl. split.
    + intros Hv. assert (Hv' : v = d \/ In v (map fst o)) by (destruct Hv; [left; congruence|now right]).
      apply H5 in Hv'. destruct Hv' as [k W]. exists k. now apply walkB_remove_vertex.
    + intros [k W]. apply walkB_remove_vertex in W; [|exact Hds].
      destruct (H5 v) as [Hl _]. destruct (Hl (ex_intro _ k W)); [left; congruence|now right].
  - intros v k [Hin|Hin].
    + injection Hin as <- <-. exists 0. split; [reflexivity|]. split; [constructor|intros; lia].
    + apply in_map_iff in Hin. destruct Hin as [[v' k0] [Ev Hin]]. unfold lift in Ev. simpl in Ev.
      injection Ev as <- <-. exists k0. split; [reflexivity|]. destruct (H6 _ _ Hin) as [W Hmin]. split.
      * now apply walkB_remove_vertex.
      * intros k W'. apply Hmin. now apply walkB_remove_vertex.
Qed.

(* ================================================================ is_bond_in_ring <-> not a bridge *)
(* a walk from x either stays at x or leaves x for the last time through some neighbour a, after which
   it never meets x again *)
Lemma last_visit g x v k : walk g x v k ->
  v = x \/ exists a, adj g x a /\ a <> x /\ reach (remove_vertex g x) a v.
Proof.
  intros W. induction W as [|b c k W IH Ha].
  - now left.
  - destruct (Nat.eq_dec c x) as [->|Hc]; [now left|]. right.
    destruct IH as [->|[a [Hxa [Hax Hr]]]].
    + exists c. split; [exact Ha|]. split; [exact Hc|]. apply reach_refl.
    + exists a. split; [exact Hxa|]. split; [exact Hax|].
      destruct (Nat.eq_dec b x) as [->|Hb].
      * (* cannot happen on this branch unless the walk returned to x: then a := c works, but we keep a
           and rebuild: b = x is excluded because reach in the deleted graph never ends at x *)
        exfalso. destruct Hr as [k' W']. clear -W' Hax.
        assert (H : forall u w k, walk (remove_vertex g x) u w k -> u <> x -> w <> x).
        { intros u w k0 W0. induction W0 as [|p q k0 W0 IH0 Hpq]; [auto|]. intros _.
          apply adj_remove_vertex in Hpq. tauto. }
        exact (H _ _ _ W' Hax eq_refl).
      * eapply reach_step; [exact Hr|]. apply adj_remove_vertex. tauto.
Qed.

Lemma reach_mono g g' a b : (forall u v, adj g u v -> adj g' u v) -> reach g a b -> reach g' a b.
Proof. intros H [k W]. exists k. eapply walkR_mono; eauto. Qed.

Theorem is_bond_in_ring_total g x y : adj g x y -> exists r, is_bond_in_ring g (x, y) = Some r.
Proof.
  intros Ha. unfold is_bond_in_ring. cbn [fst snd]. rewrite yield_bfs_erases.
  destruct (proj2 (yield_bfsd_dir_total g x y) Ha) as [out ->]. eauto.
Qed.

(* C15, third clause. `remove_bond g x y` deletes every bond joining x and y (exactly the bond itself
   in a simple graph), so the right-hand side says: (x, y) is not a bridge. *)
Theorem ring_iff_not_bridge g x y : x <> y -> adj g x y ->
  (is_bond_in_ring g (x, y) = Some true <-> reach (remove_bond g x y) x y).
Proof.
  intros Hxy Ha. unfold is_bond_in_ring. cbn [fst snd]. rewrite yield_bfs_erases.
  destruct (proj2 (yield_bfsd_dir_total g x y) Ha) as [out E]. rewrite E.
  destruct (yield_bfsd_dir_correct g x y out (fun H => Hxy (eq_sym H)) E) as (rest & _ & _ & _ & _ & Hreach & _).
  set (conns := filter (fun a => negb (a =? y)) (connected_atoms g x)).
  assert (Hconn : forall a, mem a conns = true <-> adj g x a /\ a <> y).
  { intros a. rewrite mem_In. unfold conns. rewrite filter_In, connected_atoms_adj, negb_true_iff, Nat.eqb_neq. tauto. }
  split.
  - intros H. injection H as H. apply existsb_exists in H. destruct H as [a [Hin Hm]].
    apply Hconn in Hm. destruct Hm as [Hxa Hay]. apply Hreach in Hin.
    apply reach_sym. eapply reach_step.
    + eapply reach_mono; [|exact Hin]. intros u v Huv. apply adj_remove_vertex in Huv.
      apply adj_remove_bond. split; [tauto|]. split; intros [? ?]; subst; tauto.
    + apply adj_remove_bond. split; [now apply adj_sym|]. split; intros [? ?]; subst; tauto.
  - intros [k W]. destruct (last_visit _ _ _ _ W) as [->|[a [Hxa [Hax Hr]]]]; [contradiction|].
    apply adj_remove_bond in Hxa. destruct Hxa as [Hxa [Hn1 Hn2]].
    assert (Hay : a <> y) by (intros ->; apply Hn1; split; reflexivity).
    f_equal. apply existsb_exists. exists a. split.
    + apply Hreach. apply reach_sym. eapply reach_mono; [|exact Hr].
      intros u v Huv. apply adj_remove_vertex in Huv. destruct Huv as [Huv [Hu Hv]].
      apply adj_remove_bond in Huv. apply adj_remove_vertex. tauto.
    + apply Hconn. split; assumption.
Qed.

(* the complementary reading, for completeness: reported false <-> it is a bridge *)
Corollary not_ring_iff_bridge g x y : x <> y -> adj g x y ->
  (is_bond_in_ring g (x, y) = Some false <-> ~ reach (remove_bond g x y) x y).
Proof.
  intros Hxy Ha. pose proof (ring_iff_not_bridge g x y Hxy Ha) as H.
  destruct (is_bond_in_ring_total g x y Ha) as [[|] E]; rewrite E in *.
  - split; [discriminate|]. intros Hn. exfalso. apply Hn. now apply H.
  - split; [|reflexivity]. intros _ Hc. apply H in Hc. discriminate.
Qed.
