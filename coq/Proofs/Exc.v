(* exec depends only on the faults of the names that occur; hence a check over all subsets of those names
   decides the property for EVERY fault assignment. *)
From Coq Require Import List Bool String.
Import ListNotations.
From Molli Require Import Common.Exc.

Lemma exec_ext f g c : (forall n, In n (names c) -> f n = g n) -> exec f c = exec g c.
Proof.
  induction c as [n|c1 IH1 c2 IH2|b IHb fn IHf|]; simpl; intros H.
  - rewrite (H n) by (left; reflexivity). reflexivity.
  - rewrite IH1 by (intros n Hn; apply H; apply in_or_app; left; exact Hn).
    rewrite IH2 by (intros n Hn; apply H; apply in_or_app; right; exact Hn). reflexivity.
  - rewrite IHb by (intros n Hn; apply H; apply in_or_app; left; exact Hn).
    rewrite IHf by (intros n Hn; apply H; apply in_or_app; right; exact Hn). reflexivity.
  - reflexivity.
Qed.

Lemma filter_in_subsets (f : string -> bool) l : In (filter f l) (subsets l).
Proof.
  induction l as [|x l IH]; simpl; [left; reflexivity|].
  destruct (f x); apply in_or_app; [left; apply in_map; exact IH|right; exact IH].
Qed.

Lemma mem_filter (f : string -> bool) l n : In n l -> mem n (filter f l) = f n.
Proof.
  intros Hn. unfold mem. destruct (f n) eqn:E.
  - apply existsb_exists. exists n. split; [apply filter_In; split; assumption|apply String.eqb_refl].
  - destruct (existsb (String.eqb n) (filter f l)) eqn:E2; [|reflexivity].
    apply existsb_exists in E2. destruct E2 as [m [Hm He]]. apply String.eqb_eq in He. subst m.
    apply filter_In in Hm. destruct Hm as [_ Hm]. congruence.
Qed.

(* The lifting lemma.  [chk] may look at the fault assignment only through the names of c. *)
Theorem forall_faults_sound c (chk : (string -> bool) -> trace * bool -> bool) :
  (forall f g r, (forall n, In n (names c) -> f n = g n) -> chk f r = chk g r) ->
  forall_faults c chk = true ->
  forall faults, chk faults (exec faults c) = true.
Proof.
  intros Hext H faults. unfold forall_faults in H. rewrite forallb_forall in H.
  specialize (H (filter faults (names c)) (filter_in_subsets faults (names c))).
  assert (A : forall n, In n (names c) -> (fun n => mem n (filter faults (names c))) n = faults n)
    by (intros n Hn; apply mem_filter; exact Hn).
  rewrite (exec_ext _ faults c A) in H. rewrite (Hext _ faults _ A) in H. exact H.
Qed.
