(* Basic lemmas about the UKV model: byte lists, block encoding, table-of-contents updates, scanning. *)
From Coq Require Import ZArith NArith List Bool Lia ZifyBool ZifyNat ZifyN.
Import ListNotations.
Open Scope N_scope.
Ltac Zify.zify_post_hook ::= Z.to_euclidean_division_equations.
From Molli Require Import Model.UKV.

(* ---------- byte strings ---------- *)
Lemma beq_refl a : beq a a = true.
Proof. induction a as [|x a IH]; simpl; [reflexivity|]. rewrite N.eqb_refl, IH. reflexivity. Qed.

Lemma beq_eq a : forall b, beq a b = true -> a = b.
Proof.
  induction a as [|x a IH]; intros [|y b] H; simpl in H; try discriminate; [reflexivity|].
  apply andb_prop in H. destruct H as [H1 H2]. apply N.eqb_eq in H1. subst. f_equal. apply IH; exact H2.
Qed.

Lemma beq_neq a b : a <> b -> beq a b = false.
Proof. intros H. destruct (beq a b) eqn:E; [|reflexivity]. apply beq_eq in E. contradiction. Qed.

Lemma len_app (a b : bytes) : len (a ++ b) = len a + len b.
Proof. unfold len. rewrite app_length. lia. Qed.

Lemma len_nil : len [] = 0. Proof. reflexivity. Qed.

Lemma len_cons x (a : bytes) : len (x :: a) = 1 + len a.
Proof. unfold len. simpl length. lia. Qed.

Lemma firstn_len_app (a b : bytes) : firstn (N.to_nat (len a)) (a ++ b) = a.
Proof. unfold len. rewrite Nat2N.id, firstn_app, Nat.sub_diag, firstn_all. simpl. apply app_nil_r. Qed.

Lemma skipn_len_app (a b : bytes) : skipn (N.to_nat (len a)) (a ++ b) = b.
Proof. unfold len. rewrite Nat2N.id, skipn_app, Nat.sub_diag, skipn_all. reflexivity. Qed.

Lemma be32_val v : v < 4294967296 ->
  rd32 (v / 16777216 mod 256) (v / 65536 mod 256) (v / 256 mod 256) (v mod 256) = v.
Proof. intros H. unfold rd32. lia. Qed.

Lemma len_encb k v : len (encb k v) = 5 + len k + len v.
Proof. unfold encb, be32. rewrite len_cons, !len_app. unfold len at 1. simpl length. lia. Qed.

Lemma length_encb k v : (length (encb k v) = 5 + length k + length v)%nat.
Proof. unfold encb, be32. simpl. rewrite !app_length. lia. Qed.

(* ---------- abstract contents: a list of (key, value) in append order ---------- *)
Definition kv := (bytes * bytes)%type.
Definition wfkv (p : kv) : Prop := len (fst p) < 256 /\ len (snd p) < 4294967296.
Definition blocks (rs : list kv) : bytes := concat (map (fun p => encb (fst p) (snd p)) rs).

Fixpoint index_from (pos : N) (rs : list kv) : toc_t :=
  match rs with
  | [] => []
  | p :: rs' => (fst p, mkrec pos (len (fst p)) (len (snd p))) :: index_from (pos + 5 + len (fst p) + len (snd p)) rs'
  end.

Fixpoint end_from (pos : N) (rs : list kv) : N :=
  match rs with
  | [] => pos
  | p :: rs' => end_from (pos + 5 + len (fst p) + len (snd p)) rs'
  end.

Fixpoint assoc (rs : list kv) (k : bytes) : option bytes :=
  match rs with
  | [] => None
  | p :: rs' => if beq k (fst p) then Some (snd p) else assoc rs' k
  end.

Lemma blocks_app a b : blocks (a ++ b) = blocks a ++ blocks b.
Proof. unfold blocks. rewrite map_app, concat_app. reflexivity. Qed.

Lemma blocks_cons p rs : blocks (p :: rs) = encb (fst p) (snd p) ++ blocks rs.
Proof. reflexivity. Qed.

Lemma end_from_len pos rs : end_from pos rs = pos + len (blocks rs).
Proof.
  revert pos. induction rs as [|p rs IH]; intros pos; simpl.
  - unfold blocks, len. simpl. lia.
  - rewrite IH, blocks_cons, len_app, len_encb. lia.
Qed.

Lemma index_from_app pos a b :
  index_from pos (a ++ b) = index_from pos a ++ index_from (end_from pos a) b.
Proof. revert pos. induction a as [|p a IH]; intros pos; simpl; [reflexivity|]. rewrite IH. reflexivity. Qed.

Lemma end_from_app pos a b : end_from pos (a ++ b) = end_from (end_from pos a) b.
Proof. revert pos. induction a as [|p a IH]; intros pos; simpl; [reflexivity|]. apply IH. Qed.

Lemma map_fst_index pos rs : map fst (index_from pos rs) = map fst rs.
Proof. revert pos. induction rs as [|p rs IH]; intros pos; simpl; [reflexivity|]. rewrite IH. reflexivity. Qed.

(* a strict prefix of the records ends strictly earlier: every block has at least 5 bytes *)
Lemma end_from_firstn_lt pos rs m : (m < length rs)%nat -> end_from pos (firstn m rs) < end_from pos rs.
Proof.
  intros Hm. rewrite <- (firstn_skipn m rs) at 2. rewrite end_from_app.
  destruct (skipn m rs) as [|p tl] eqn:E.
  - apply (f_equal (@length kv)) in E. rewrite skipn_length in E. cbn [length] in E.
    exfalso. clear - Hm E. lia.
  - simpl. rewrite (end_from_len _ tl). lia.
Qed.

Lemma end_from_firstn_le pos rs m : end_from pos (firstn m rs) <= end_from pos rs.
Proof.
  destruct (Nat.lt_ge_cases m (length rs)) as [H|H].
  - apply N.lt_le_incl, end_from_firstn_lt; exact H.
  - rewrite firstn_all2 by exact H. lia.
Qed.

(* ---------- lookup / update on the table of contents ---------- *)
Lemma lookup_none_iff t k : lookup t k = None <-> ~ In k (map fst t).
Proof.
  induction t as [|[k' r] t IH]; simpl; [tauto|].
  destruct (beq k k') eqn:E.
  - apply beq_eq in E. subst. split; [discriminate|]. intros H. exfalso. apply H. left. reflexivity.
  - rewrite IH. split.
    + intros H [H1|H1]; [subst; rewrite beq_refl in E; discriminate|contradiction].
    + intros H H1. apply H. right. exact H1.
Qed.

Lemma update_fresh t k r : lookup t k = None -> update t k r = t ++ [(k, r)].
Proof.
  induction t as [|[k' r'] t IH]; simpl; intros H; [reflexivity|].
  destruct (beq k k'); [discriminate|]. rewrite IH by exact H. reflexivity.
Qed.

Lemma update_same t k r : NoDup (map fst t) -> In (k, r) t -> update t k r = t.
Proof.
  induction t as [|[k' r'] t IH]; simpl; intros Hnd Hin; [contradiction|].
  inversion Hnd as [|x l Hnotin Hnd']; subst.
  destruct Hin as [Heq|Hin].
  - inversion Heq; subst. rewrite beq_refl. reflexivity.
  - destruct (beq k k') eqn:E.
    + apply beq_eq in E. subst. exfalso. apply Hnotin. apply (in_map fst) in Hin. exact Hin.
    + rewrite IH by assumption. reflexivity.
Qed.

Definition upd_all (t : toc_t) (ix : toc_t) : toc_t := fold_left (fun t p => update t (fst p) (snd p)) ix t.

Lemma upd_all_same a : NoDup (map fst a) -> forall a', incl a' a -> upd_all a a' = a.
Proof.
  intros Hnd a'. induction a' as [|[k r] a' IH]; intros Hincl; [reflexivity|].
  unfold upd_all in *. simpl. rewrite update_same; [apply IH|exact Hnd|apply Hincl; left; reflexivity].
  intros x Hx. apply Hincl. right. exact Hx.
Qed.

Lemma upd_all_fresh b : forall a, NoDup (map fst (a ++ b)) -> upd_all a b = a ++ b.
Proof.
  induction b as [|[k r] b IH]; intros a Hnd; [unfold upd_all; simpl; rewrite app_nil_r; reflexivity|].
  unfold upd_all in *. simpl. rewrite update_fresh.
  - rewrite IH; [rewrite <- app_assoc; reflexivity|]. rewrite <- app_assoc. exact Hnd.
  - apply lookup_none_iff. rewrite map_app in Hnd. simpl in Hnd. apply NoDup_remove_2 in Hnd.
    intros H. apply Hnd. apply in_or_app. left. exact H.
Qed.

Lemma NoDup_app_l {A} (a b : list A) : NoDup (a ++ b) -> NoDup a.
Proof.
  induction a as [|x a IH]; simpl; intros H; [constructor|].
  inversion H as [|y l Hn Hd]; subst. constructor; [|apply IH; exact Hd].
  intros Hx. apply Hn. apply in_or_app. left. exact Hx.
Qed.

Lemma NoDup_app_r {A} (a b : list A) : NoDup (a ++ b) -> NoDup b.
Proof. induction a as [|x a IH]; simpl; intros H; [exact H|]. inversion H; subst. apply IH. assumption. Qed.

Lemma upd_all_app t x y : upd_all t (x ++ y) = upd_all (upd_all t x) y.
Proof. unfold upd_all. apply fold_left_app. Qed.

Lemma upd_all_prefix a b : NoDup (map fst (a ++ b)) -> upd_all a (a ++ b) = a ++ b.
Proof.
  intros Hnd. rewrite upd_all_app.
  rewrite (upd_all_same a); [apply upd_all_fresh; exact Hnd| |apply incl_refl].
  rewrite map_app in Hnd. apply NoDup_app_l in Hnd. exact Hnd.
Qed.

Lemma lookup_index_assoc rs : forall pos k,
  match lookup (index_from pos rs) k, assoc rs k with
  | Some _, Some _ | None, None => True
  | _, _ => False
  end.
Proof.
  induction rs as [|p rs IH]; intros pos k; simpl; [exact I|].
  destruct (beq k (fst p)); [exact I|]. apply IH.
Qed.

Lemma assoc_none_iff rs k : assoc rs k = None <-> ~ In k (map fst rs).
Proof.
  induction rs as [|p rs IH]; simpl; [tauto|].
  destruct (beq k (fst p)) eqn:E.
  - apply beq_eq in E. subst. split; [discriminate|]. intros H. exfalso. apply H. left. reflexivity.
  - rewrite IH. split.
    + intros H [H1|H1]; [rewrite <- H1, beq_refl in E; discriminate|contradiction].
    + intros H H1. apply H. right. exact H1.
Qed.

Lemma assoc_in rs k v : NoDup (map fst rs) -> In (k, v) rs -> assoc rs k = Some v.
Proof.
  induction rs as [|p rs IH]; simpl; intros Hnd Hin; [contradiction|].
  inversion Hnd as [|x l Hnotin Hnd']; subst.
  destruct Hin as [Heq|Hin].
  - subst. simpl. rewrite beq_refl. reflexivity.
  - destruct (beq k (fst p)) eqn:E.
    + apply beq_eq in E. subst. exfalso. apply Hnotin. apply (in_map fst) in Hin. exact Hin.
    + apply IH; assumption.
Qed.

Lemma assoc_some_in rs k v : assoc rs k = Some v -> In (k, v) rs.
Proof.
  induction rs as [|p rs IH]; simpl; [discriminate|].
  destruct (beq k (fst p)) eqn:E.
  - intros H. inversion H. apply beq_eq in E. subst. left. destruct p; reflexivity.
  - intros H. right. apply IH. exact H.
Qed.

(* ---------- reading a value back through the index ---------- *)
Lemma sub_app_mid (pre v post : bytes) : sub (pre ++ v ++ post) (len pre) (len v) = v.
Proof. unfold sub. rewrite skipn_len_app, firstn_len_app. reflexivity. Qed.

Lemma sub_block pre k v post : sub (pre ++ encb k v ++ post) (len pre + 5 + len k) (len v) = v.
Proof.
  replace (pre ++ encb k v ++ post) with ((pre ++ len k :: be32 (len v) ++ k) ++ v ++ post).
  2:{ unfold encb. rewrite <- !app_assoc. simpl. rewrite <- !app_assoc. reflexivity. }
  replace (len pre + 5 + len k) with (len (pre ++ len k :: be32 (len v) ++ k)).
  2:{ rewrite len_app, len_cons, len_app. unfold be32. unfold len at 2. simpl length. lia. }
  apply sub_app_mid.
Qed.

Lemma get_index rs : forall pre tl k r,
  lookup (index_from (len pre) rs) k = Some r ->
  exists v, assoc rs k = Some v /\ sub (pre ++ blocks rs ++ tl) (r_posv r) (r_vlen r) = v.
Proof.
  induction rs as [|p rs IH]; intros pre tl k r H; simpl in H; [discriminate|].
  simpl assoc. destruct (beq k (fst p)) eqn:E.
  - inversion H; subst. exists (snd p). split; [reflexivity|].
    unfold r_posv, r_vlen, r_pos, r_klen. rewrite blocks_cons, <- app_assoc. apply sub_block.
  - replace (len pre + 5 + len (fst p) + len (snd p)) with (len (pre ++ encb (fst p) (snd p))) in H
      by (rewrite len_app, len_encb; lia).
    destruct (IH _ tl _ _ H) as [v [Hv Hs]]. exists v. split; [exact Hv|].
    rewrite blocks_cons. rewrite <- Hs. f_equal. rewrite <- !app_assoc. reflexivity.
Qed.

(* ---------- the scan of map_blocks ---------- *)
Definition last_key (lk : option bytes) (rs : list kv) : option bytes :=
  match rs with [] => lk | _ => Some (fst (List.last rs ([], []))) end.

Lemma scan_one fuel k v tl pos t lk :
  len v < 4294967296 ->
  scan (S fuel) (encb k v ++ tl) pos t lk =
  scan fuel tl (pos + 5 + len k + len v) (update t k (mkrec pos (len k) (len v))) (Some k).
Proof.
  intros Hv. unfold encb, be32. cbn [app scan].
  rewrite be32_val by exact Hv. rewrite <- app_assoc.
  replace (len k + len v <=? len (k ++ v ++ tl)) with true
    by (symmetry; apply N.leb_le; rewrite !len_app; lia).
  rewrite firstn_len_app.
  replace (len k + len v) with (len (k ++ v)) by apply len_app.
  rewrite app_assoc, skipn_len_app. reflexivity.
Qed.

Lemma scan_all rs : forall fuel tl pos t lk,
  Forall wfkv rs -> (length rs <= fuel)%nat ->
  scan fuel (blocks rs ++ tl) pos t lk =
  scan (fuel - length rs) tl (end_from pos rs) (upd_all t (index_from pos rs)) (last_key lk rs).
Proof.
  induction rs as [|p rs IH]; intros fuel tl pos t lk Hwf Hf.
  - simpl. rewrite Nat.sub_0_r. reflexivity.
  - inversion Hwf as [|x l Hp Hrest]; subst. destruct Hp as [_ Hv].
    destruct fuel as [|fuel]; [simpl in Hf; lia|].
    rewrite blocks_cons, <- app_assoc, scan_one by exact Hv.
    rewrite IH; [|exact Hrest|simpl in Hf; lia].
    simpl length. simpl Nat.sub. simpl end_from. unfold upd_all. simpl fold_left.
    f_equal. destruct rs; reflexivity.
Qed.

(* a torn tail: nothing, or a strict prefix of one well-formed block *)
Definition torn (tl : bytes) : Prop :=
  tl = [] \/ exists k v n, wfkv (k, v) /\ (n < length (encb k v))%nat /\ tl = firstn n (encb k v).

Lemma scan_torn fuel tl pos t lk : torn tl -> scan fuel tl pos t lk = (t, lk, pos).
Proof.
  intros [->|[k [v [n [[Hk Hv] [Hn ->]]]]]]; destruct fuel as [|fuel]; try reflexivity.
  simpl in Hk, Hv. unfold encb, be32 in *. cbn [app] in *.
  do 5 (destruct n as [|n]; [reflexivity|]). cbn [firstn scan].
  rewrite be32_val by exact Hv.
  replace (len k + len v <=? len (firstn n (k ++ v))) with false; [reflexivity|].
  symmetry. apply N.leb_gt. unfold len in *. rewrite firstn_length. simpl in Hn. rewrite app_length in *. lia.
Qed.

(* ---------- header ---------- *)
Definition hdr_ok (H : bytes) : Prop := forall x, bof_of (H ++ x) = len H.

Lemma mk_header_ok h1 h2 b0 :
  length h1 = 16%nat -> len h2 < 65536 -> len b0 < 4294967296 -> hdr_ok (mk_header h1 h2 b0).
Proof.
  intros H1 H2 H0 x. unfold bof_of, mk_header.
  rewrite <- !app_assoc. rewrite skipn_app. rewrite skipn_all2 by lia. rewrite H1, Nat.sub_diag.
  cbn [app skipn be32]. rewrite be32_val by exact H0.
  rewrite len_app, !len_cons, !len_app.
  replace (len (repeat 0 10)) with 10 by reflexivity.
  replace (len h1) with 16 by (unfold len; rewrite H1; reflexivity). lia.
Qed.
