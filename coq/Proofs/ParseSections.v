(* C10: the ORDER and KIND of the TRIPOS sections of a mol2 text, and the skip state of the reader.

   read_mol2 skips the lines of a section it does not know (`skip_lines`, v_skip in the model).  The only thing that
   refuses a surplus line after an ATOM / BOND section that has read its declared number of records is the "unexpected
   syntax" branch of the main loop, and that branch is off while lines are being skipped.  Proofs/Parse.v speaks about
   texts in the one layout molli writes (MOLECULE, ATOM, BOND), where the skip state is never entered before the records.
   Here the prefix of the text is ARBITRARY (any sections in any order, damaged or not); all that is asked of it is that
   it leaves the reader in its main loop:
     * a TRIPOS record is dispatched the same whatever the skip flag was (tag_any_skip), and every supported one leaves
       the flag cleared (tag_clears_skip);
     * unsupported blocks, blank and comment lines in front of a TRIPOS record or at the end of the text can be erased
       without changing what the reader returns (unsupported_erasable, unsupported_erasable_end);
     * an ATOM / BOND section followed by a surplus line is refused, whatever came before it (surplus_after_atoms /
       surplus_after_bonds), in particular a section with a duplicated record (dup_atom_record / dup_bond_record). *)
From Coq Require Import List Bool Arith NArith ZArith Ascii String Lia.
From Molli Require Import Common.ParseStr Common.ParseStrFacts Model.Parse Proofs.Parse.
Import ListNotations.
Local Open Scope char_scope.
Local Open Scope list_scope.


Definition set_skip (b : bool) (v : m2vars) : m2vars := mk_m2vars (v_hdr v) (v_atoms v) (v_bonds v) b (v_out v).
Definition is_tag (l : str) : Prop := exists nm r, strip l = "@" :: r /\ tripos_name (strip l) = Some nm.
Definition nontag (l : str) : Prop := tripos_name (strip l) = None.

Lemma set_skip_id v : set_skip (v_skip v) v = v.
Proof. destruct v; reflexivity. Qed.
Lemma set_skip_twice a b v : set_skip a (set_skip b v) = set_skip a v.
Proof. reflexivity. Qed.
Lemma is_sec_tag l s : is_sec l s -> is_tag l.
Proof. intros (nm & r & E1 & E2 & _). exists nm, r. auto. Qed.

(* ---------------------------------------------------------------- a TRIPOS record and the skip flag *)
Lemma tag_any_skip v b l : is_tag l -> m2step true (MRun MMain (set_skip b v)) l = m2step true (MRun MMain v) l.
Proof.
  intros (nm & r & E1 & E2). unfold m2step, m2main. rewrite E1 in *. rewrite E2.
  change (ascii_eqb "@" "#") with false. cbv iota. destruct v; reflexivity.
Qed.

Lemma tag_clears_skip v l s m v' : is_sec l s -> s <> SOther -> m2step true (MRun MMain v) l = MRun m v' -> v_skip v' = false.
Proof.
  intros (nm & r & E1 & E2 & E3) Hs. unfold m2step, m2main. rewrite E1 in *. rewrite E2, E3.
  change (ascii_eqb "@" "#") with false. cbv iota. destruct s; try contradiction; cbn [v_hdr v_atoms v_bonds v_skip v_out].
  - destruct (m2yield true _) as [w|e]; [|discriminate]. intros H. injection H as _ <-. reflexivity.
  - destruct (v_hdr v) as [h|]; [|discriminate]. destruct (nonempty_opt (v_atoms v)); cbn [andb]; [discriminate|].
    destruct (mh_natoms h <=? 0)%Z; intros H; injection H as _ <-; reflexivity.
  - destruct (v_hdr v) as [h|]; [|discriminate]. destruct (mh_nbonds h) as [nb|]; [|discriminate].
    destruct (nonempty_opt (v_bonds v)); cbn [andb]; [discriminate|].
    destruct (nb <=? 0)%Z; intros H; injection H as _ <-; reflexivity.
  - intros H. injection H as _ <-. reflexivity.
  - intros H. injection H as _ <-. reflexivity.
Qed.

(* ---------------------------------------------------------------- unsupported blocks *)
Lemma step_other_sec v l : is_sec l SOther -> m2step true (MRun MMain v) l = MRun MMain (set_skip true v).
Proof.
  intros (nm & r & E1 & E2 & E3). unfold m2step, m2main. rewrite E1 in *. rewrite E2, E3.
  change (ascii_eqb "@" "#") with false. cbv iota. reflexivity.
Qed.
Lemma step_skipped v l : v_skip v = true -> nontag l -> m2step true (MRun MMain v) l = MRun MMain v.
Proof.
  intros Hs Hn. unfold m2step, m2main. unfold nontag in Hn. destruct (strip l) as [|c r]; [reflexivity|].
  destruct (ascii_eqb c "#"); [reflexivity|]. rewrite Hn, Hs. reflexivity.
Qed.
Lemma run_skipped body : Forall nontag body -> forall v, v_skip v = true -> m2run true (MRun MMain v) body = MRun MMain v.
Proof. induction 1 as [|l body Hl _ IH]; intros v Hs; [reflexivity|]. rewrite m2run_cons, step_skipped by assumption. now apply IH. Qed.

(* what the reader walks over without looking: blank / comment lines in main mode, unsupported blocks *)
Inductive skippable : list str -> Prop :=
| sk_nil : skippable []
| sk_ign l X : ignorable l -> skippable X -> skippable (l :: X)
| sk_sec lo body X : is_sec lo SOther -> Forall nontag body -> skippable X -> skippable (lo :: body ++ X).

Lemma run_skippable X : skippable X -> forall v, exists b, m2run true (MRun MMain v) X = MRun MMain (set_skip b v).
Proof.
  induction 1 as [|l X Hl _ IH|lo body X Hlo Hb _ IH]; intros v.
  - exists (v_skip v). now rewrite set_skip_id.
  - rewrite m2run_cons, step_ign by exact Hl. apply IH.
  - rewrite m2run_cons, step_other_sec by exact Hlo. rewrite <- m2run_app, run_skipped by (auto; reflexivity).
    destruct (IH (set_skip true v)) as [b E]. exists b. now rewrite E.
Qed.

Lemma finish_any_skip b v : m2finish true (MRun MMain (set_skip b v)) = m2finish true (MRun MMain v).
Proof.
  unfold m2finish, m2yield. cbn [set_skip v_hdr v_atoms v_bonds v_skip v_out].
  destruct (v_hdr v) as [h|]; [|reflexivity]. destruct (v_atoms v) as [ra|]; [|reflexivity]. destruct (v_bonds v) as [rb|]; [|reflexivity].
  destruct (len_is ra (mh_natoms h) && len_is rb (nb_of h)); reflexivity.
Qed.

Theorem unsupported_erasable pre X t rest v : m2run true m2init pre = MRun MMain v -> skippable X -> is_tag t ->
  read_mol2 true (pre ++ X ++ t :: rest) = read_mol2 true (pre ++ t :: rest).
Proof.
  intros Hpre HX Ht. unfold read_mol2. f_equal. rewrite <- !m2run_app, Hpre.
  destruct (run_skippable X HX v) as [b E]. rewrite E, !m2run_cons. now rewrite tag_any_skip.
Qed.
Theorem unsupported_erasable_end pre X v : m2run true m2init pre = MRun MMain v -> skippable X ->
  read_mol2 true (pre ++ X) = read_mol2 true pre.
Proof.
  intros Hpre HX. unfold read_mol2. rewrite <- m2run_app, Hpre. destruct (run_skippable X HX v) as [b E]. rewrite E.
  apply finish_any_skip.
Qed.

(* ---------------------------------------------------------------- a surplus line after a complete record section *)
Lemma fails_read pre st rest : m2run true m2init pre = st -> m2fails st rest -> exists e, read_mol2 true (pre ++ rest) = Err e.
Proof. intros E [e H]. exists e. unfold read_mol2. now rewrite <- m2run_app, E. Qed.

Lemma step_atom_sec_any v h la : v_hdr v = Some h -> is_sec la SAtom ->
  m2step true (MRun MMain v) la = MFail ESyntax \/
  m2step true (MRun MMain v) la =
    (if (mh_natoms h <=? 0)%Z then MRun MMain (V (Some h) (Some []) (v_bonds v) (v_out v))
     else MRun (MAtoms (Z.to_N (mh_natoms h))) (V (Some h) (Some []) (v_bonds v) (v_out v))).
Proof.
  intros Hh (nm & r & E1 & E2 & E3). unfold m2step, m2main. rewrite E1 in *. rewrite E2, E3.
  change (ascii_eqb "@" "#") with false. cbv iota. cbn [v_hdr v_atoms v_bonds v_skip v_out]. rewrite Hh.
  destruct (nonempty_opt (v_atoms v)); cbn [andb]; [left; reflexivity|right]. destruct (mh_natoms h <=? 0)%Z; reflexivity.
Qed.
Lemma step_bond_sec_any v h nb lb : v_hdr v = Some h -> mh_nbonds h = Some nb -> is_sec lb SBond ->
  m2step true (MRun MMain v) lb = MFail ESyntax \/
  m2step true (MRun MMain v) lb =
    (if (nb <=? 0)%Z then MRun MMain (V (Some h) (v_atoms v) (Some []) (v_out v))
     else MRun (MBonds (Z.to_N nb)) (V (Some h) (v_atoms v) (Some []) (v_out v))).
Proof.
  intros Hh Hnb (nm & r & E1 & E2 & E3). unfold m2step, m2main. rewrite E1 in *. rewrite E2, E3.
  change (ascii_eqb "@" "#") with false. cbv iota. cbn [v_hdr v_atoms v_bonds v_skip v_out]. rewrite Hh, Hnb.
  destruct (nonempty_opt (v_bonds v)); cbn [andb]; [left; reflexivity|right]. destruct (nb <=? 0)%Z; reflexivity.
Qed.

Theorem surplus_after_atoms pre v h la als atoms x post :
  m2run true m2init pre = MRun MMain v -> v_hdr v = Some h -> is_sec la SAtom ->
  mh_natoms h = Z.of_nat (List.length atoms) -> Forall2 atom_line_of als atoms -> other_line x ->
  exists e, read_mol2 true (pre ++ la :: als ++ x :: post) = Err e.
Proof.
  intros Hpre Hh Hla Hna HFa Hx. apply (fails_read pre _ _ Hpre). apply m2fails_step.
  destruct (step_atom_sec_any v h la Hh Hla) as [E|E]; rewrite E; [apply m2fails_fail|].
  pose proof (Forall2_length HFa) as Hlen. apply m2fails_app.
  destruct (Z.leb_spec (mh_natoms h) 0) as [Hle|Hgt].
  - assert (Ea : atoms = []) by (destruct atoms; [reflexivity|simpl in Hna; lia]). rewrite Ea in *. inversion HFa; subst.
    cbn [m2run fold_left]. apply m2fails_step. rewrite step_other by exact Hx. apply m2fails_fail.
  - replace (Z.to_N (mh_natoms h)) with (N.of_nat (List.length als)) by lia.
    rewrite (atoms_exact _ _ _ als atoms HFa) by (destruct als; [simpl in *; lia|discriminate]).
    apply m2fails_step. rewrite step_other by exact Hx. apply m2fails_fail.
Qed.

Theorem surplus_after_bonds pre v h lb bls bonds x post :
  m2run true m2init pre = MRun MMain v -> v_hdr v = Some h -> is_sec lb SBond ->
  mh_nbonds h = Some (Z.of_nat (List.length bonds)) -> Forall2 bond_line_of bls bonds -> other_line x ->
  exists e, read_mol2 true (pre ++ lb :: bls ++ x :: post) = Err e.
Proof.
  intros Hpre Hh Hlb Hnb HFb Hx. apply (fails_read pre _ _ Hpre). apply m2fails_step.
  destruct (step_bond_sec_any v h _ lb Hh Hnb Hlb) as [E|E]; rewrite E; [apply m2fails_fail|].
  pose proof (Forall2_length HFb) as Hlen. apply m2fails_app.
  destruct (Z.leb_spec (Z.of_nat (List.length bonds)) 0) as [Hle|Hgt].
  - assert (Eb : bonds = []) by (destruct bonds; [reflexivity|simpl in Hle; lia]). rewrite Eb in *. inversion HFb; subst.
    cbn [m2run fold_left]. apply m2fails_step. rewrite step_other by exact Hx. apply m2fails_fail.
  - replace (Z.to_N (Z.of_nat (List.length bonds))) with (N.of_nat (List.length bls)) by lia.
    rewrite (bonds_exact _ _ _ bls bonds HFb) by (destruct bls; [simpl in *; lia|discriminate]).
    apply m2fails_step. rewrite step_other by exact Hx. apply m2fails_fail.
Qed.

(* more record lines than the header declares (each of them unmistakably a record line) *)
Lemma Forall_nth_split {A} (P : A -> Prop) (l : list A) n : Forall P l -> (n < List.length l)%nat ->
  exists x r, l = firstn n l ++ x :: r /\ P x.
Proof.
  intros HF Hn. rewrite <- (firstn_skipn n l) in HF. apply Forall_app in HF. destruct HF as [_ HF].
  destruct (skipn n l) as [|x r] eqn:E.
  - apply (f_equal (@List.length A)) in E. rewrite skipn_length in E. simpl in E. lia.
  - exists x, r. split; [now rewrite <- E, firstn_skipn|now inversion HF].
Qed.

Theorem too_many_atom_records pre v h la als atoms n post :
  m2run true m2init pre = MRun MMain v -> v_hdr v = Some h -> is_sec la SAtom ->
  mh_natoms h = Z.of_nat n -> Forall2 atom_line_of als atoms -> Forall other_line als -> (n < List.length als)%nat ->
  exists e, read_mol2 true (pre ++ la :: als ++ post) = Err e.
Proof.
  intros Hpre Hh Hla Hna HFa Hoth Hn. destruct (Forall_nth_split _ als n Hoth Hn) as (x & r & E & Hx).
  rewrite E, <- app_assoc. cbn [app].
  apply (surplus_after_atoms pre v h la (firstn n als) (firstn n atoms) x (r ++ post)); auto.
  - rewrite firstn_length. pose proof (Forall2_length HFa). rewrite Hna. f_equal. lia.
  - now apply Forall2_firstn.
Qed.
Theorem too_many_bond_records pre v h lb bls bonds n post :
  m2run true m2init pre = MRun MMain v -> v_hdr v = Some h -> is_sec lb SBond ->
  mh_nbonds h = Some (Z.of_nat n) -> Forall2 bond_line_of bls bonds -> Forall other_line bls -> (n < List.length bls)%nat ->
  exists e, read_mol2 true (pre ++ lb :: bls ++ post) = Err e.
Proof.
  intros Hpre Hh Hlb Hnb HFb Hoth Hn. destruct (Forall_nth_split _ bls n Hoth Hn) as (x & r & E & Hx).
  rewrite E, <- app_assoc. cbn [app].
  apply (surplus_after_bonds pre v h lb (firstn n bls) (firstn n bonds) x (r ++ post)); auto.
  - rewrite firstn_length. pose proof (Forall2_length HFb). rewrite Hnb. do 2 f_equal. lia.
  - now apply Forall2_firstn.
Qed.

(* one record of a complete section duplicated: refused, whatever sections came before *)
Theorem dup_atom_record pre v h la als atoms j post :
  m2run true m2init pre = MRun MMain v -> v_hdr v = Some h -> is_sec la SAtom ->
  mh_natoms h = Z.of_nat (List.length atoms) -> Forall2 atom_line_of als atoms -> Forall other_line als ->
  (j < List.length als)%nat ->
  exists e, read_mol2 true (pre ++ la :: dup_nth j als ++ post) = Err e.
Proof.
  intros Hpre Hh Hla Hna HFa Hoth Hj. pose proof (Forall2_length HFa) as Hlen.
  apply (too_many_atom_records pre v h la (dup_nth j als) (dup_nth j atoms) (List.length atoms) post); auto.
  - now apply Forall2_dup_nth.
  - now apply dup_nth_Forall.
  - rewrite dup_nth_length by exact Hj. lia.
Qed.
Theorem dup_bond_record pre v h lb bls bonds j post :
  m2run true m2init pre = MRun MMain v -> v_hdr v = Some h -> is_sec lb SBond ->
  mh_nbonds h = Some (Z.of_nat (List.length bonds)) -> Forall2 bond_line_of bls bonds -> Forall other_line bls ->
  (j < List.length bls)%nat ->
  exists e, read_mol2 true (pre ++ lb :: dup_nth j bls ++ post) = Err e.
Proof.
  intros Hpre Hh Hlb Hnb HFb Hoth Hj. pose proof (Forall2_length HFb) as Hlen.
  apply (too_many_bond_records pre v h lb (dup_nth j bls) (dup_nth j bonds) (List.length bonds) post); auto.
  - now apply Forall2_dup_nth.
  - now apply dup_nth_Forall.
  - rewrite dup_nth_length by exact Hj. lia.
Qed.
