(* C01 -- lemmas about Model/Codec.v.  The main result is `roundtrip_of_wiring`: for ANY wiring that passes the
   boolean test `wiring_ok` (decided by computation on the regenerated Gen/IoWiring.v) and ANY well-formed object,
   decoding the msgpack-normalised encoding yields `norm_obj W o`. *)
From Coq Require Import Bool Arith NArith ZArith String Ascii List Lia.
Import ListNotations.
From Molli Require Import Model.Codec.
Local Open Scope bool_scope.

(* ------------------------------------------------------------------ slot equality *)
Lemma aslot_eqb_eq a b : aslot_eqb a b = true <-> a = b.
Proof. destruct a, b; cbn; split; intro H; try reflexivity; try discriminate. Qed.
Lemma bslot_eqb_eq a b : bslot_eqb a b = true <-> a = b.
Proof. destruct a, b; cbn; split; intro H; try reflexivity; try discriminate. Qed.
Lemma oslot_eqb_eq a b : oslot_eqb a b = true <-> a = b.
Proof. destruct a, b; cbn; split; intro H; try reflexivity; try discriminate. Qed.
Lemma dtype_eqb_eq a b : dtype_eqb a b = true <-> a = b.
Proof. destruct a, b; cbn; split; intro H; try reflexivity; try discriminate. Qed.

(* ------------------------------------------------------------------ generic list facts *)
Section Generic.
  Context {S : Type} (eqb : S -> S -> bool) (eqb_eq : forall a b, eqb a b = true <-> a = b).

  (* position-wise: the reader either ignores the position or expects exactly the slot the writer put there *)
  Lemma lookup_combine (isskip : S -> bool) (f : S -> val) :
    forall ser des, Forall2 (fun x d => isskip d = true \/ x = d) ser des ->
    forall s, isskip s = false ->
    lookup eqb s (combine des (map f ser)) = if mem eqb s des then Some (f s) else None.
  Proof.
    induction 1 as [|x d ser des Hxd _ IH]; intros s Hs; cbn; [reflexivity|].
    destruct (eqb s d) eqn:E.
    - apply eqb_eq in E. subst d. destruct Hxd as [Hk | ->]; [congruence | reflexivity].
    - cbn. apply IH; exact Hs.
  Qed.

  Lemma list_eqb_eq : forall a b : list S, list_eqb eqb a b = true -> a = b.
  Proof.
    induction a as [|x a IH]; destruct b as [|y b]; cbn; intro H; try reflexivity; try discriminate.
    apply andb_true_iff in H. destruct H as [H1 H2]. apply eqb_eq in H1. subst y. f_equal. apply IH; exact H2.
  Qed.

  Lemma Forall2_same (isskip : S -> bool) : forall l : list S, Forall2 (fun x d => isskip d = true \/ x = d) l l.
  Proof. induction l; constructor; auto. Qed.
End Generic.

Lemma forallb2_Forall2 {A B} (p : A -> B -> bool) : forall a b,
  forallb2 p a b = true -> Forall2 (fun x y => p x y = true) a b.
Proof.
  induction a as [|x a IH]; destruct b as [|y b]; cbn; intro H; try discriminate; constructor.
  - apply andb_true_iff in H; tauto.
  - apply IH. apply andb_true_iff in H; tauto.
Qed.

Lemma Forall2_length' {A B} (R : A -> B -> Prop) a b : Forall2 R a b -> length a = length b.
Proof. induction 1; cbn; congruence. Qed.

Lemma mapM_map {A B C} (f : B -> option C) (g : A -> B) (h : A -> C) : forall l : list A,
  (forall x, In x l -> f (g x) = Some (h x)) -> mapM f (map g l) = Some (map h l).
Proof.
  induction l as [|x l IH]; intro H; cbn; [reflexivity|].
  rewrite (H x (or_introl eq_refl)). rewrite IH; [reflexivity|]. intros y Hy. apply H. right; exact Hy.
Qed.

Lemma opt_if {A} (b : bool) (x d : A) :
  match (if b then Some x else None) with Some y => y | None => d end = if b then x else d.
Proof. destruct b; reflexivity. Qed.

(* ------------------------------------------------------------------ msgpack normalisation on the simple values *)
Lemma valid_element_mnorm v : valid_element (mnorm v) = valid_element v.
Proof. destruct v; reflexivity. Qed.

Lemma mnorm_str v : is_str v = true -> mnorm v = v /\ py_name (mnorm v) = mnorm v.
Proof. destruct v; cbn; intro H; try discriminate. split; reflexivity. Qed.

Lemma or_default_charge v : is_int v = true -> or_default (mnorm v) (VInt 0) = mnorm v.
Proof.
  destruct v; cbn; intro H; try discriminate. unfold or_default; cbn.
  destruct (Z.eqb z 0) eqn:E; [apply Z.eqb_eq in E; subst; reflexivity | reflexivity].
Qed.

Lemma or_default_mult v : is_nonzero_int v = true -> or_default (mnorm v) (VInt 1) = mnorm v.
Proof.
  destruct v; cbn; intro H; try discriminate. unfold or_default; cbn.
  destruct (Z.eqb z 0); [discriminate | reflexivity].
Qed.

Lemma or_default_attrib v : is_map v = true -> or_default (mnorm v) (VMap []) = mnorm v.
Proof.
  destruct v; cbn; intro H; try discriminate. unfold or_default. destruct kv; reflexivity.
Qed.

(* ------------------------------------------------------------------ atoms *)
Lemma lookup_atom ser a s :
  lookup aslot_eqb s (combine ser (map (fun x => mnorm (aget a x)) ser))
  = if mem aslot_eqb s ser then Some (mnorm (aget a s)) else None.
Proof.
  apply (lookup_combine aslot_eqb aslot_eqb_eq (fun _ => false) (fun x => mnorm (aget a x)));
    [apply Forall2_same | reflexivity].
Qed.

Lemma dec_atom_enc ser dflt a :
  wf_atomb a = true -> valid_element (a_element dflt) = true ->
  dec_atom ser dflt (mnorm (enc_atom ser a)) = Some (norm_atom ser dflt a).
Proof.
  intros Hwf Hd. unfold dec_atom, enc_atom. cbn [mnorm seq_items]. rewrite map_map.
  cbv zeta. rewrite !lookup_atom, !opt_if.
  assert (Hv : valid_element (if mem aslot_eqb AElement ser then mnorm (aget a AElement) else aget dflt AElement) = true).
  { destruct (mem aslot_eqb AElement ser); [rewrite valid_element_mnorm; exact Hwf | exact Hd]. }
  rewrite Hv. unfold norm_atom, abuild. rewrite !lookup_atom, !opt_if. reflexivity.
Qed.

(* ------------------------------------------------------------------ bonds *)
Lemma lookup_bond ser b s :
  lookup bslot_eqb s (combine ser (map (fun x => mnorm (bget b x)) ser))
  = if mem bslot_eqb s ser then Some (mnorm (bget b s)) else None.
Proof.
  apply (lookup_combine bslot_eqb bslot_eqb_eq (fun _ => false) (fun x => mnorm (bget b x)));
    [apply Forall2_same | reflexivity].
Qed.

Lemma as_index_ok n i : (Z.of_N i < Z.of_nat n)%Z -> as_index n (VInt (Z.of_N i)) = Some i.
Proof.
  intro H. unfold as_index.
  assert (H0 : (0 <=? Z.of_N i)%Z = true) by (apply Z.leb_le; lia).
  assert (H1 : (Z.of_N i <? Z.of_nat n)%Z = true) by (apply Z.ltb_lt; exact H).
  rewrite H0, H1. cbn. rewrite N2Z.id. reflexivity.
Qed.

Lemma dec_bond_enc ser dflt n b :
  mem bslot_eqb BA1 ser = true -> mem bslot_eqb BA2 ser = true -> wf_bondb n b = true ->
  dec_bond ser dflt n (mnorm (enc_bond ser b)) = Some (norm_bond ser dflt b).
Proof.
  intros H1 H2 Hwf. unfold wf_bondb in Hwf. apply andb_true_iff in Hwf. destruct Hwf as [Ha Hb].
  apply Z.ltb_lt in Ha. apply Z.ltb_lt in Hb.
  unfold dec_bond, enc_bond. cbn [mnorm seq_items]. rewrite map_map. cbv zeta.
  rewrite !lookup_bond, H1, H2. cbn [bget mnorm].
  rewrite (as_index_ok n _ Ha), (as_index_ok n _ Hb).
  unfold norm_bond. rewrite !opt_if. reflexivity.
Qed.

(* ------------------------------------------------------------------ arrays *)
Lemma arr_of_ok W s xs : arr_ok W s = true -> arr_of W s (VArr (dt_of (w_sdt W) s) xs) = Some xs.
Proof.
  unfold arr_ok, arr_of. intro H. apply andb_true_iff in H. destruct H as [H1 H2]. rewrite H1, H2. reflexivity.
Qed.

Lemma len_is_true {A} (l : list A) z : len_is l z = true -> Z.of_nat (length l) = z.
Proof. unfold len_is. apply Z.eqb_eq. Qed.

Lemma ocompat_Forall2 : forall a b, forallb2 ocompat a b = true ->
  Forall2 (fun x d => oslot_eqb d OSkip = true \/ x = d) a b.
Proof.
  intros a b H. apply forallb2_Forall2 in H.
  induction H as [|x d l l' Hxd _ IH]; constructor; [|exact IH].
  unfold ocompat in Hxd. apply orb_true_iff in Hxd.
  destruct Hxd as [Hs|He]; [left; exact Hs|right; apply oslot_eqb_eq; exact He].
Qed.

(* ------------------------------------------------------------------ what can be packed *)
Lemma storable_aget a s : storable_atom a = true -> storable (aget a s) = true.
Proof.
  unfold storable_atom. cbn [forallb]. intro H.
  repeat (apply andb_true_iff in H; let Hx := fresh "Hx" in destruct H as [Hx H]).
  destruct s; try assumption; reflexivity.
Qed.

Lemma storable_bget b s : storable_bond b = true -> storable (bget b s) = true.
Proof.
  unfold storable_bond. cbn [forallb]. intro H.
  repeat (apply andb_true_iff in H; let Hx := fresh "Hx" in destruct H as [Hx H]).
  destruct s; try assumption; reflexivity.
Qed.

Lemma storable_encode W o : storable_obj o = true -> storable (encode W o) = true.
Proof.
  unfold storable_obj. intro H.
  apply andb_true_iff in H; destruct H as [H Hb].
  apply andb_true_iff in H; destruct H as [H Ha].
  apply andb_true_iff in H; destruct H as [H H4].
  apply andb_true_iff in H; destruct H as [H H3].
  apply andb_true_iff in H; destruct H as [H1 H2].
  unfold encode. cbn [storable]. apply forallb_forall. intros v Hv.
  apply in_map_iff in Hv. destruct Hv as [s [<- _]].
  destruct s; cbn [oget storable]; try assumption; try reflexivity.
  - apply forallb_forall. intros v Hv. apply in_map_iff in Hv. destruct Hv as [a [<- Ha']].
    unfold enc_atom. cbn [storable]. apply forallb_forall. intros v Hv. apply in_map_iff in Hv.
    destruct Hv as [s [<- _]]. apply storable_aget. rewrite forallb_forall in Ha. apply Ha; exact Ha'.
  - apply forallb_forall. intros v Hv. apply in_map_iff in Hv. destruct Hv as [b [<- Hb']].
    unfold enc_bond. cbn [storable]. apply forallb_forall. intros v Hv. apply in_map_iff in Hv.
    destruct Hv as [s [<- _]]. apply storable_bget. rewrite forallb_forall in Hb. apply Hb; exact Hb'.
Qed.

(* ------------------------------------------------------------------ the body of the deserialiser *)
Section Main.
  Variable W : wiring.
  Hypothesis Hok : wiring_ok W = true.

  Local Ltac split_ok H :=
    repeat match type of H with
           | (_ && _) = true => let H1 := fresh "Hk" in let H2 := fresh "Hk" in
                                apply andb_true_iff in H; destruct H as [H1 H2]; split_ok H1; split_ok H2
           end.

  Lemma wiring_facts :
    Forall2 (fun x d => oslot_eqb d OSkip = true \/ x = d) (w_oser W) (w_odes W)
    /\ mem oslot_eqb OAtoms (w_odes W) = true /\ mem oslot_eqb OBonds (w_odes W) = true
    /\ mem oslot_eqb OCoords (w_odes W) = true /\ mem oslot_eqb OCharges (w_odes W) = true
    /\ arr_ok W OCoords = true /\ arr_ok W OCharges = true
    /\ (w_ens W = true -> mem oslot_eqb ONConf (w_odes W) = true /\ mem oslot_eqb OWeights (w_odes W) = true
                          /\ arr_ok W OWeights = true)
    /\ w_aser W = w_ades W /\ valid_element (a_element (w_adflt W)) = true
    /\ w_bser W = w_bdes W /\ mem bslot_eqb BA1 (w_bdes W) = true /\ mem bslot_eqb BA2 (w_bdes W) = true.
  Proof.
    pose proof Hok as H. unfold wiring_ok in H. split_ok H.
    assert (Hens : w_ens W = true -> mem oslot_eqb ONConf (w_odes W) = true /\ mem oslot_eqb OWeights (w_odes W) = true
                                     /\ arr_ok W OWeights = true).
    { intro He.
      match goal with Hx : (if w_ens W then _ else true) = true |- _ => rewrite He in Hx; split_ok Hx end.
      repeat split; assumption. }
    assert (HF : Forall2 (fun x d => oslot_eqb d OSkip = true \/ x = d) (w_oser W) (w_odes W)).
    { apply ocompat_Forall2; assumption. }
    split; [exact HF|].
    do 6 (split; [assumption|]).
    split; [exact Hens|].
    split; [apply (list_eqb_eq aslot_eqb aslot_eqb_eq); assumption|].
    split; [assumption|].
    split; [apply (list_eqb_eq bslot_eqb bslot_eqb_eq); assumption|].
    split; assumption.
  Qed.

  Lemma decode_get_norm (o : obj) (get : oslot -> option val) :
    wf_obj (w_ens W) o ->
    (forall s, oslot_eqb s OSkip = false ->
               get s = if mem oslot_eqb s (w_odes W) then Some (mnorm (oget W o s)) else None) ->
    decode_get W get = Some (norm_obj W o).
  Proof.
    intros Hwf Hget.
    destruct wiring_facts as (_ & HmA & HmB & HmC & HmQ & HaC & HaQ & Hens & Haeq & Hdv & Hbeq & Hb1 & Hb2).
    unfold wf_obj, wf_objb in Hwf.
    apply andb_true_iff in Hwf; destruct Hwf as [Hwf _].
    apply andb_true_iff in Hwf; destruct Hwf as [Hwf Hshape].
    apply andb_true_iff in Hwf; destruct Hwf as [Hwf Hbonds].
    apply andb_true_iff in Hwf; destruct Hwf as [Hwf Hatoms].
    apply andb_true_iff in Hwf; destruct Hwf as [Hwf Hattr].
    apply andb_true_iff in Hwf; destruct Hwf as [Hwf Hmult].
    apply andb_true_iff in Hwf; destruct Hwf as [Hname Hcharge].
    destruct (mnorm_str _ Hname) as [Hn1 Hn2].
    unfold decode_get.
    rewrite (Hget OName eq_refl), (Hget OCharge eq_refl), (Hget OMult eq_refl), (Hget OAttrib eq_refl),
            (Hget OAtoms eq_refl), (Hget OBonds eq_refl), (Hget OCoords eq_refl), (Hget OCharges eq_refl),
            (Hget ONAtoms eq_refl), (Hget ONConf eq_refl), (Hget OWeights eq_refl).
    rewrite HmA, HmB, HmC, HmQ.
    (* the four scalar slots *)
    assert (E1 : match (if mem oslot_eqb OName (w_odes W) then Some (mnorm (oget W o OName)) else None) with
                 | Some x => py_name x | None => default_name end
                 = if mem oslot_eqb OName (w_odes W) then mnorm (o_name o) else default_name).
    { cbn [oget]. destruct (mem oslot_eqb OName (w_odes W)); [exact Hn2 | reflexivity]. }
    assert (E2 : match (if mem oslot_eqb OCharge (w_odes W) then Some (mnorm (oget W o OCharge)) else None) with
                 | Some x => or_default x (VInt 0) | None => VInt 0 end
                 = if mem oslot_eqb OCharge (w_odes W) then mnorm (o_charge o) else VInt 0).
    { cbn [oget]. destruct (mem oslot_eqb OCharge (w_odes W)); [apply or_default_charge; exact Hcharge | reflexivity]. }
    assert (E3 : match (if mem oslot_eqb OMult (w_odes W) then Some (mnorm (oget W o OMult)) else None) with
                 | Some x => or_default x (VInt 1) | None => VInt 1 end
                 = if mem oslot_eqb OMult (w_odes W) then mnorm (o_mult o) else VInt 1).
    { cbn [oget]. destruct (mem oslot_eqb OMult (w_odes W)); [apply or_default_mult; exact Hmult | reflexivity]. }
    assert (E4 : match (if mem oslot_eqb OAttrib (w_odes W) then Some (mnorm (oget W o OAttrib)) else None) with
                 | Some x => or_default x (VMap []) | None => VMap [] end
                 = if mem oslot_eqb OAttrib (w_odes W) then mnorm (o_attrib o) else VMap []).
    { cbn [oget]. destruct (mem oslot_eqb OAttrib (w_odes W)); [apply or_default_attrib; exact Hattr | reflexivity]. }
    rewrite E1, E2, E3, E4. clear E1 E2 E3 E4.
    (* atoms, bonds, arrays *)
    cbn [oget mnorm seq_items]. rewrite !map_map.
    rewrite (arr_of_ok W OCoords _ HaC), (arr_of_ok W OCharges _ HaQ).
    rewrite (mapM_map (dec_atom (w_ades W) (w_adflt W)) (fun a => mnorm (enc_atom (w_aser W) a))
                      (norm_atom (w_ades W) (w_adflt W))).
    2:{ intros a Ha. rewrite Haeq. apply dec_atom_enc; [|exact Hdv].
        rewrite forallb_forall in Hatoms. apply Hatoms; exact Ha. }
    rewrite map_length.
    assert (Hna : natoms_ok (if mem oslot_eqb ONAtoms (w_odes W)
                             then Some (VInt (Z.of_nat (length (o_atoms o)))) else None) (length (o_atoms o)) = true).
    { destruct (mem oslot_eqb ONAtoms (w_odes W)); cbn; [apply Z.eqb_refl | reflexivity]. }
    rewrite Hna. cbn [negb].
    rewrite (mapM_map (dec_bond (w_bdes W) (w_bdflt W) (length (o_atoms o))) (fun b => mnorm (enc_bond (w_bser W) b))
                      (norm_bond (w_bdes W) (w_bdflt W))).
    2:{ intros b Hb. rewrite Hbeq. apply dec_bond_enc; [exact Hb1 | exact Hb2 |].
        rewrite forallb_forall in Hbonds. apply Hbonds; exact Hb. }
    unfold wf_shapeb in Hshape. unfold norm_obj.
    destruct (w_ens W) eqn:Eens.
    - destruct (Hens eq_refl) as (HmK & HmW & HaW).
      rewrite HmK, HmW. rewrite (arr_of_ok W OWeights _ HaW).
      assert (H0 : (0 <=? Z.of_N (o_nconf o))%Z = true) by (apply Z.leb_le; lia).
      apply andb_true_iff in Hshape; destruct Hshape as [Hshape Hw].
      apply andb_true_iff in Hshape; destruct Hshape as [Hc Hq].
      rewrite H0, Hc, Hq, Hw. cbn [andb]. rewrite N2Z.id. reflexivity.
    - apply andb_true_iff in Hshape; destruct Hshape as [Hshape Hq].
      apply andb_true_iff in Hshape; destruct Hshape as [Hshape Hc].
      apply andb_true_iff in Hshape; destruct Hshape as [Hk Hw].
      rewrite Hc, Hq. cbn [andb]. apply N.eqb_eq in Hk. rewrite Hk.
      destruct (o_weights o); [reflexivity | discriminate].
  Qed.

  (* THE generic theorem: any wiring accepted by `wiring_ok`, any well-formed object *)
  Theorem roundtrip_of_wiring (o : obj) :
    wf_obj (w_ens W) o -> roundtrip W o = Some (norm_obj W o).
  Proof.
    intro Hwf. destruct wiring_facts as (Hc & _).
    assert (Hst : storable_obj o = true).
    { unfold wf_obj, wf_objb in Hwf. apply andb_true_iff in Hwf. tauto. }
    unfold roundtrip. cbv zeta. rewrite (storable_encode W o Hst). unfold decode, encode. cbn [mnorm seq_items]. rewrite !map_map, map_length.
    rewrite (Forall2_length' _ _ _ Hc), Nat.eqb_refl. cbn [negb].
    apply decode_get_norm; [exact Hwf|].
    intros s Hs.
    exact (lookup_combine oslot_eqb oslot_eqb_eq (fun d => oslot_eqb d OSkip) (fun x => mnorm (oget W o x))
                          (w_oser W) (w_odes W) Hc s Hs).
  Qed.

  (* "nothing else changes": conformer count, array contents and shapes, number and order of atoms and bonds,
     bond endpoints *)
  Theorem nothing_else (o : obj) :
    let o' := norm_obj W o in
    o_nconf o' = o_nconf o /\ o_coords o' = o_coords o /\ o_charges o' = o_charges o /\ o_weights o' = o_weights o
    /\ length (o_atoms o') = length (o_atoms o) /\ length (o_bonds o') = length (o_bonds o)
    /\ map (fun b => (b_a1 b, b_a2 b)) (o_bonds o') = map (fun b => (b_a1 b, b_a2 b)) (o_bonds o).
  Proof.
    cbn. rewrite !map_length, map_map. repeat split; reflexivity.
  Qed.
End Main.

(* ------------------------------------------------------------------ what norm_obj is, per encoding *)
Lemma forallb_cons_true {A} (p : A -> bool) x l : forallb p (x :: l) = true -> p x = true /\ forallb p l = true.
Proof. cbn. apply andb_true_iff. Qed.

(* current encoding: every slot is carried, so the trip is the msgpack normalisation and nothing else *)
Theorem norm_obj_covers_all W o : covers_all W = true -> norm_obj W o = mnorm_obj o.
Proof.
  unfold covers_all. intro H.
  apply andb_true_iff in H; destruct H as [H Hb].
  apply andb_true_iff in H; destruct H as [H Ha].
  apply andb_true_iff in H; destruct H as [H H4].
  apply andb_true_iff in H; destruct H as [H H3].
  apply andb_true_iff in H; destruct H as [H1 H2].
  unfold norm_obj, mnorm_obj. rewrite H1, H2, H3, H4. f_equal.
  - apply map_ext. intro a. unfold norm_atom, mnorm_atom, abuild.
    repeat (apply forallb_cons_true in Ha; let Hx := fresh "Hx" in destruct Ha as [Hx Ha]; rewrite Hx).
    reflexivity.
  - apply map_ext. intro b. unfold norm_bond, mnorm_bond.
    repeat (apply forallb_cons_true in Hb; let Hx := fresh "Hx" in destruct Hb as [Hx Hb]; rewrite Hx).
    reflexivity.
Qed.

(* legacy encoding: its schema has no formal charge / spin / attributes; those come back as the constructor
   defaults, everything else as in the current encoding *)
Theorem norm_obj_covers_v1 W o :
  covers_v1 W = true -> norm_obj W o = reset_obj_v1 (w_adflt W) (w_bdflt W) (mnorm_obj o).
Proof.
  unfold covers_v1. intro H.
  apply andb_true_iff in H; destruct H as [H Hb2]. apply negb_true_iff in Hb2.
  apply andb_true_iff in H; destruct H as [H Hb].
  apply andb_true_iff in H; destruct H as [H Ha2].
  apply andb_true_iff in H; destruct H as [H Ha].
  apply andb_true_iff in H; destruct H as [H H4]. apply negb_true_iff in H4.
  apply andb_true_iff in H; destruct H as [H H3].
  apply andb_true_iff in H; destruct H as [H1 H2].
  unfold norm_obj, mnorm_obj, reset_obj_v1. cbn [o_name o_charge o_mult o_attrib o_atoms o_bonds o_nconf o_coords o_charges o_weights].
  rewrite H1, H2, H3, H4, !map_map. f_equal.
  - apply map_ext. intro a. unfold norm_atom, mnorm_atom, reset_atom_v1, abuild.
    repeat (apply forallb_cons_true in Ha; let Hx := fresh "Hx" in destruct Ha as [Hx Ha]; rewrite Hx).
    repeat (apply forallb_cons_true in Ha2; let Hx := fresh "Hx" in destruct Ha2 as [Hx Ha2];
            apply negb_true_iff in Hx; rewrite Hx).
    reflexivity.
  - apply map_ext. intro b. unfold norm_bond, mnorm_bond, reset_bond_v1.
    repeat (apply forallb_cons_true in Hb; let Hx := fresh "Hx" in destruct Hb as [Hx Hb]; rewrite Hx).
    rewrite Hb2. reflexivity.
Qed.

(* ------------------------------------------------------------------ the statements Props/C01.v instantiates *)
Theorem roundtrip_v2 W : wiring_ok W = true -> covers_all W = true ->
  forall o, wf_obj (w_ens W) o -> roundtrip W o = Some (mnorm_obj o).
Proof. intros Hok Hc o Hwf. rewrite <- (norm_obj_covers_all W o Hc). apply roundtrip_of_wiring; assumption. Qed.

Theorem roundtrip_v2_exact W : wiring_ok W = true -> covers_all W = true ->
  forall o, wf_obj (w_ens W) o -> msgpack_stable o -> roundtrip W o = Some o.
Proof. intros Hok Hc o Hwf Hs. rewrite (roundtrip_v2 W Hok Hc o Hwf). rewrite Hs. reflexivity. Qed.

Theorem roundtrip_v1 W : wiring_ok W = true -> covers_v1 W = true ->
  forall o, wf_obj (w_ens W) o -> roundtrip W o = Some (reset_obj_v1 (w_adflt W) (w_bdflt W) (mnorm_obj o)).
Proof. intros Hok Hc o Hwf. rewrite <- (norm_obj_covers_v1 W o Hc). apply roundtrip_of_wiring; assumption. Qed.

Theorem frame_kept o : frame (mnorm_obj o) = frame o
  /\ forall da db, frame (reset_obj_v1 da db (mnorm_obj o)) = frame o.
Proof.
  unfold frame, mnorm_obj, reset_obj_v1; cbn. split; [|intros da db]; rewrite !map_length, !map_map; reflexivity.
Qed.

Lemma mnorm_changes_lists : exists v, mnorm v <> v.
Proof. exists (VList []). cbn. discriminate. Qed.
