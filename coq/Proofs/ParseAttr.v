(* C10: sections whose LENGTH is declared by a count of their own (UNITY_ATOM_ATTR / UNITY_BOND_ATTR: `<id> <n_attr>` followed
   by exactly n_attr `<name> <value>` lines), and records of a multi-record text that agree in SIZE.

   The ATOM / BOND counts of the header are met whatever happens inside a UNITY section, so the only thing that notices a
   lost line there is the strict alternation "group header, then exactly n_attr attribute lines".  For an ARBITRARY state of
   the reader inside such a section:
     * an attribute line that does not split into two tokens (the TRIPOS record that closes the section, a blank line) is
       refused, and so is the end of the text (uatom_short / ubond_short): a group with fewer attribute lines than it
       declares never passes (unity_*_group_short, unity_*_attr_deleted);
     * a line in the place of a group header that is not two integers is refused (unity_*_header_bad): a group with more
       attribute lines than it declares, a deleted header, never passes;
     * a deleted attribute line in front of another group: the header of that group is taken for the missing attribute, and
       the first attribute line of that group is then refused in the place of a header (unity_*_attr_deleted_before_group).
   What is left is the format limit (the next group declares NO attribute and another well-formed group follows): the damaged
   text is itself well-formed; exhibited by unity_format_limit.

   Records of equal size: the molecules of a text are the molecules of its records read one by one (load_xyz_concat,
   load_mol2_concat) -- nothing of a record reaches the next one. *)
From Coq Require Import List Bool Arith NArith ZArith Ascii String Lia.
From Molli Require Import Common.ParseStr Common.ParseStrFacts Model.Parse Proofs.Parse.
Import ListNotations.
Local Open Scope list_scope.

Definition two_tok (l : str) : Prop := List.length (split (strip l)) = 2%nat.
(* what may follow the attribute lines that are there: the end of the text, or a line that is no attribute line *)
Definition closes (tl : list str) : Prop := tl = [] \/ exists x r, tl = x :: r /\ ~ two_tok x.

Lemma fails_read pre st ls : m2run true m2init pre = st -> m2fails st ls -> exists e, read_mol2 true (pre ++ ls) = Err e.
Proof. intros H (e & He). exists e. unfold read_mol2. rewrite <- m2run_app, H. exact He. Qed.

(* ---------------------------------------------------------------- UNITY_ATOM_ATTR *)
Lemma uatom_attr_step_bad idx todo v l : ~ two_tok l -> m2step true (MRun (MUAtomAttr idx todo) v) l = MFail EValue.
Proof.
  unfold two_tok, m2step. intros H. destruct (split (strip l)) as [|a [|b [|c r]]]; try reflexivity.
  exfalso. apply H. reflexivity.
Qed.

Lemma uatom_attr_step_ok idx todo v l : two_tok l ->
  (exists e, m2step true (MRun (MUAtomAttr idx todo) v) l = MFail e) \/
  (exists v', m2step true (MRun (MUAtomAttr idx todo) v) l =
              if (todo <=? 1)%N then MRun MUAtom v' else MRun (MUAtomAttr idx (todo - 1)) v').
Proof.
  unfold two_tok, m2step. intros H. destruct (split (strip l)) as [|a [|b [|c r]]]; simpl in H; try discriminate H.
  destruct (set_atom_attr v idx a b) as [v'|e]; [right; exists v'; reflexivity|left; exists e; reflexivity].
Qed.

Lemma uatom_short idx tl : closes tl -> forall als todo v, Forall two_tok als -> (N.of_nat (List.length als) < todo)%N ->
  m2fails (MRun (MUAtomAttr idx todo) v) (als ++ tl).
Proof.
  intros Htl. induction als as [|a als IH]; intros todo v HF Hlen.
  - simpl. destruct Htl as [->|(x & r & -> & Hx)].
    + exists EEof. reflexivity.
    + apply m2fails_step. rewrite (uatom_attr_step_bad _ _ _ _ Hx). apply m2fails_fail.
  - inversion HF as [|? ? Ha HF']; subst. simpl app. apply m2fails_step. simpl List.length in Hlen.
    destruct (uatom_attr_step_ok idx todo v a Ha) as [(e & ->)|(v' & ->)]; [apply m2fails_fail|].
    assert (E : (todo <=? 1)%N = false) by (apply N.leb_gt; lia).
    rewrite E. apply IH; [exact HF'|lia].
Qed.

Lemma uatom_exact idx : forall als todo v, Forall two_tok als -> N.of_nat (List.length als) = todo -> (1 <= todo)%N ->
  (exists e, m2run true (MRun (MUAtomAttr idx todo) v) als = MFail e) \/
  (exists v', m2run true (MRun (MUAtomAttr idx todo) v) als = MRun MUAtom v').
Proof.
  induction als as [|a als IH]; intros todo v HF Hlen H1; simpl List.length in Hlen; [lia|].
  pose proof (Forall_inv HF) as Ha. pose proof (Forall_inv_tail HF) as HF'. rewrite m2run_cons.
  destruct (uatom_attr_step_ok idx todo v a Ha) as [(e & ->)|(v' & ->)]; [left; exists e; apply m2run_fail|].
  destruct (todo <=? 1)%N eqn:E.
  - apply N.leb_le in E. destruct als; [|simpl List.length in Hlen; lia]. right. exists v'. reflexivity.
  - apply N.leb_gt in E. apply IH; [exact HF'|lia|lia].
Qed.

Lemma uatom_header_step v l idx n : tripos_name (strip l) = None -> two_ints (strip l) = Some (idx, n) -> (1 <= n)%Z ->
  m2step true (MRun MUAtom v) l = MRun (MUAtomAttr idx (Z.to_N n)) v.
Proof.
  intros Ht Hi Hn. unfold m2step. rewrite Ht, Hi. destruct (n <=? 0)%Z eqn:E; [apply Z.leb_le in E; lia|reflexivity].
Qed.

Lemma unity_atom_header_bad v l rest : tripos_name (strip l) = None -> two_ints (strip l) = None ->
  m2fails (MRun MUAtom v) (l :: rest).
Proof. intros Ht Hi. apply m2fails_step. unfold m2step. rewrite Ht, Hi. apply m2fails_fail. Qed.

Theorem unity_atom_group_short v hd idx n als tl :
  tripos_name (strip hd) = None -> two_ints (strip hd) = Some (idx, n) -> Forall two_tok als ->
  (Z.of_nat (List.length als) < n)%Z -> closes tl ->
  m2fails (MRun MUAtom v) (hd :: als ++ tl).
Proof.
  intros Ht Hi HF Hlen Htl. apply m2fails_step. rewrite (uatom_header_step v hd idx n Ht Hi) by lia.
  apply uatom_short; [exact Htl|exact HF|lia].
Qed.

Theorem unity_atom_attr_deleted v hd idx n als i tl :
  tripos_name (strip hd) = None -> two_ints (strip hd) = Some (idx, n) -> Forall two_tok als ->
  Z.of_nat (List.length als) = n -> (i < List.length als)%nat -> closes tl ->
  m2fails (MRun MUAtom v) (hd :: del_nth i als ++ tl).
Proof.
  intros Ht Hi HF Hlen Hi' Htl. apply (unity_atom_group_short v hd idx n); auto using del_nth_Forall.
  pose proof (del_nth_length als i Hi'). lia.
Qed.

Theorem unity_atom_attr_deleted_before_group v hd idx n als i g y rest :
  tripos_name (strip hd) = None -> two_ints (strip hd) = Some (idx, n) -> Forall two_tok als ->
  Z.of_nat (List.length als) = n -> (i < List.length als)%nat ->
  two_tok g -> tripos_name (strip y) = None -> two_ints (strip y) = None ->
  m2fails (MRun MUAtom v) (hd :: del_nth i als ++ g :: y :: rest).
Proof.
  intros Ht Hi HF Hlen Hi' Hg Hy1 Hy2. pose proof (del_nth_length als i Hi') as HL.
  apply m2fails_step. rewrite (uatom_header_step v hd idx n Ht Hi) by lia.
  change (g :: y :: rest) with ([g] ++ y :: rest). rewrite app_assoc. apply m2fails_app.
  destruct (uatom_exact idx (del_nth i als ++ [g]) (Z.to_N n) v) as [(e & ->)|(v' & ->)].
  - apply Forall_app. split; [auto using del_nth_Forall|constructor; [exact Hg|constructor]].
  - rewrite app_length. simpl List.length. lia.
  - lia.
  - apply m2fails_fail.
  - apply unity_atom_header_bad; assumption.
Qed.

(* ---------------------------------------------------------------- UNITY_BOND_ATTR *)
Lemma ubond_attr_step_bad idx todo v l : ~ two_tok l -> m2step true (MRun (MUBondAttr idx todo) v) l = MFail EValue.
Proof.
  unfold two_tok, m2step. intros H. destruct (split (strip l)) as [|a [|b [|c r]]]; try reflexivity.
  exfalso. apply H. reflexivity.
Qed.

Lemma ubond_attr_step_ok idx todo v l : two_tok l ->
  (exists e, m2step true (MRun (MUBondAttr idx todo) v) l = MFail e) \/
  (exists v', m2step true (MRun (MUBondAttr idx todo) v) l =
              if (todo <=? 1)%N then MRun MUBond v' else MRun (MUBondAttr idx (todo - 1)) v').
Proof.
  unfold two_tok, m2step. intros H. destruct (split (strip l)) as [|a [|b [|c r]]]; simpl in H; try discriminate H.
  destruct (chk_bond_attr v idx) as [v'|e]; [right; exists v'; reflexivity|left; exists e; reflexivity].
Qed.

Lemma ubond_short idx tl : closes tl -> forall als todo v, Forall two_tok als -> (N.of_nat (List.length als) < todo)%N ->
  m2fails (MRun (MUBondAttr idx todo) v) (als ++ tl).
Proof.
  intros Htl. induction als as [|a als IH]; intros todo v HF Hlen.
  - simpl. destruct Htl as [->|(x & r & -> & Hx)].
    + exists EEof. reflexivity.
    + apply m2fails_step. rewrite (ubond_attr_step_bad _ _ _ _ Hx). apply m2fails_fail.
  - inversion HF as [|? ? Ha HF']; subst. simpl app. apply m2fails_step. simpl List.length in Hlen.
    destruct (ubond_attr_step_ok idx todo v a Ha) as [(e & ->)|(v' & ->)]; [apply m2fails_fail|].
    assert (E : (todo <=? 1)%N = false) by (apply N.leb_gt; lia).
    rewrite E. apply IH; [exact HF'|lia].
Qed.

Lemma ubond_exact idx : forall als todo v, Forall two_tok als -> N.of_nat (List.length als) = todo -> (1 <= todo)%N ->
  (exists e, m2run true (MRun (MUBondAttr idx todo) v) als = MFail e) \/
  (exists v', m2run true (MRun (MUBondAttr idx todo) v) als = MRun MUBond v').
Proof.
  induction als as [|a als IH]; intros todo v HF Hlen H1; simpl List.length in Hlen; [lia|].
  pose proof (Forall_inv HF) as Ha. pose proof (Forall_inv_tail HF) as HF'. rewrite m2run_cons.
  destruct (ubond_attr_step_ok idx todo v a Ha) as [(e & ->)|(v' & ->)]; [left; exists e; apply m2run_fail|].
  destruct (todo <=? 1)%N eqn:E.
  - apply N.leb_le in E. destruct als; [|simpl List.length in Hlen; lia]. right. exists v'. reflexivity.
  - apply N.leb_gt in E. apply IH; [exact HF'|lia|lia].
Qed.

Lemma ubond_header_step v l idx n : tripos_name (strip l) = None -> two_ints (strip l) = Some (idx, n) -> (1 <= n)%Z ->
  m2step true (MRun MUBond v) l = MRun (MUBondAttr idx (Z.to_N n)) v.
Proof.
  intros Ht Hi Hn. unfold m2step. rewrite Ht, Hi. destruct (n <=? 0)%Z eqn:E; [apply Z.leb_le in E; lia|reflexivity].
Qed.

Lemma unity_bond_header_bad v l rest : tripos_name (strip l) = None -> two_ints (strip l) = None ->
  m2fails (MRun MUBond v) (l :: rest).
Proof. intros Ht Hi. apply m2fails_step. unfold m2step. rewrite Ht, Hi. apply m2fails_fail. Qed.

Theorem unity_bond_group_short v hd idx n als tl :
  tripos_name (strip hd) = None -> two_ints (strip hd) = Some (idx, n) -> Forall two_tok als ->
  (Z.of_nat (List.length als) < n)%Z -> closes tl ->
  m2fails (MRun MUBond v) (hd :: als ++ tl).
Proof.
  intros Ht Hi HF Hlen Htl. apply m2fails_step. rewrite (ubond_header_step v hd idx n Ht Hi) by lia.
  apply ubond_short; [exact Htl|exact HF|lia].
Qed.

Theorem unity_bond_attr_deleted v hd idx n als i tl :
  tripos_name (strip hd) = None -> two_ints (strip hd) = Some (idx, n) -> Forall two_tok als ->
  Z.of_nat (List.length als) = n -> (i < List.length als)%nat -> closes tl ->
  m2fails (MRun MUBond v) (hd :: del_nth i als ++ tl).
Proof.
  intros Ht Hi HF Hlen Hi' Htl. apply (unity_bond_group_short v hd idx n); auto using del_nth_Forall.
  pose proof (del_nth_length als i Hi'). lia.
Qed.

Theorem unity_bond_attr_deleted_before_group v hd idx n als i g y rest :
  tripos_name (strip hd) = None -> two_ints (strip hd) = Some (idx, n) -> Forall two_tok als ->
  Z.of_nat (List.length als) = n -> (i < List.length als)%nat ->
  two_tok g -> tripos_name (strip y) = None -> two_ints (strip y) = None ->
  m2fails (MRun MUBond v) (hd :: del_nth i als ++ g :: y :: rest).
Proof.
  intros Ht Hi HF Hlen Hi' Hg Hy1 Hy2. pose proof (del_nth_length als i Hi') as HL.
  apply m2fails_step. rewrite (ubond_header_step v hd idx n Ht Hi) by lia.
  change (g :: y :: rest) with ([g] ++ y :: rest). rewrite app_assoc. apply m2fails_app.
  destruct (ubond_exact idx (del_nth i als ++ [g]) (Z.to_N n) v) as [(e & ->)|(v' & ->)].
  - apply Forall_app. split; [auto using del_nth_Forall|constructor; [exact Hg|constructor]].
  - rewrite app_length. simpl List.length. lia.
  - lia.
  - apply m2fails_fail.
  - apply unity_bond_header_bad; assumption.
Qed.

(* ---------------------------------------------------------------- records read one by one *)
Lemma all_ok_app {A B} (f : A -> res B) l1 l2 : forall m1 m2,
  all_ok (map f l1) = Ok m1 -> all_ok (map f l2) = Ok m2 -> all_ok (map f (l1 ++ l2)) = Ok (m1 ++ m2).
Proof.
  induction l1 as [|x l1 IH]; intros m1 m2 H1 H2; simpl in *.
  - injection H1 as <-. exact H2.
  - destruct (f x) as [y|e]; [|discriminate]. destruct (all_ok (map f l1)) as [ys|e] eqn:E; [|discriminate].
    injection H1 as <-. rewrite (IH ys m2 eq_refl H2). reflexivity.
Qed.

Lemma xwf_text_app P bs1 ls1 bs2 ls2 : xwf_text P bs1 ls1 -> xwf_text P bs2 ls2 -> xwf_text P (bs1 ++ bs2) (ls1 ++ ls2).
Proof. induction 1 as [|b bs l ls Hb Ht IH]; intros H2; [exact H2|]. rewrite <- app_assoc. simpl. constructor; auto. Qed.

Lemma m2wf_text_app bs1 ls1 bs2 ls2 : m2wf_text bs1 ls1 -> m2wf_text bs2 ls2 -> m2wf_text (bs1 ++ bs2) (ls1 ++ ls2).
Proof. induction 1 as [|b bs l ls Hb Ht IH]; intros H2; [exact H2|]. rewrite <- app_assoc. simpl. constructor; auto. Qed.

(* the molecules of a text are the molecules of its parts, in order: whatever the sizes of the records are *)
Theorem load_xyz_concat P zero_ok f bs1 ls1 bs2 ls2 ms1 ms2 :
  xwf_text P bs1 ls1 -> xwf_text P bs2 ls2 ->
  load_xyz_lines zero_ok f ls1 = Ok ms1 -> load_xyz_lines zero_ok f ls2 = Ok ms2 ->
  load_xyz_lines zero_ok f (ls1 ++ ls2) = Ok (ms1 ++ ms2).
Proof.
  intros H1 H2. unfold load_xyz_lines.
  rewrite (read_xyz_wf P _ _ H1), (read_xyz_wf P _ _ H2), (read_xyz_wf P _ _ (xwf_text_app P _ _ _ _ H1 H2)).
  cbn [res_bind]. apply all_ok_app.
Qed.

Theorem load_mol2_concat atype btype bs1 ls1 bs2 ls2 ms1 ms2 :
  m2wf_text bs1 ls1 -> m2wf_text bs2 ls2 -> bs1 <> [] -> bs2 <> [] ->
  load_mol2_lines true atype btype ls1 = Ok ms1 -> load_mol2_lines true atype btype ls2 = Ok ms2 ->
  load_mol2_lines true atype btype (ls1 ++ ls2) = Ok (ms1 ++ ms2).
Proof.
  intros H1 H2 N1 N2. unfold load_mol2_lines.
  rewrite (read_mol2_wf _ _ H1 N1), (read_mol2_wf _ _ H2 N2).
  rewrite (read_mol2_wf _ _ (m2wf_text_app _ _ _ _ H1 H2)) by (destruct bs1; [contradiction|discriminate]).
  cbn [res_bind]. apply all_ok_app.
Qed.

(* ---------------------------------------------------------------- the same, for a text: ANY prefix that leaves the reader
   inside a UNITY section *)
Section Read.
Variables (pre : list str) (v : m2vars).

Theorem unity_atom_group_short_read hd idx n als tl : m2run true m2init pre = MRun MUAtom v ->
  tripos_name (strip hd) = None -> two_ints (strip hd) = Some (idx, n) -> Forall two_tok als ->
  (Z.of_nat (List.length als) < n)%Z -> closes tl ->
  exists e, read_mol2 true (pre ++ hd :: als ++ tl) = Err e.
Proof. intros Hp; intros. eapply fails_read; [exact Hp|]. eapply unity_atom_group_short; eauto. Qed.

Theorem unity_atom_attr_deleted_read hd idx n als i tl : m2run true m2init pre = MRun MUAtom v ->
  tripos_name (strip hd) = None -> two_ints (strip hd) = Some (idx, n) -> Forall two_tok als ->
  Z.of_nat (List.length als) = n -> (i < List.length als)%nat -> closes tl ->
  exists e, read_mol2 true (pre ++ hd :: del_nth i als ++ tl) = Err e.
Proof. intros Hp; intros. eapply fails_read; [exact Hp|]. eapply unity_atom_attr_deleted; eauto. Qed.

Theorem unity_atom_attr_deleted_before_group_read hd idx n als i g y rest : m2run true m2init pre = MRun MUAtom v ->
  tripos_name (strip hd) = None -> two_ints (strip hd) = Some (idx, n) -> Forall two_tok als ->
  Z.of_nat (List.length als) = n -> (i < List.length als)%nat ->
  two_tok g -> tripos_name (strip y) = None -> two_ints (strip y) = None ->
  exists e, read_mol2 true (pre ++ hd :: del_nth i als ++ g :: y :: rest) = Err e.
Proof. intros Hp; intros. eapply fails_read; [exact Hp|]. eapply unity_atom_attr_deleted_before_group; eauto. Qed.

Theorem unity_atom_header_bad_read l rest : m2run true m2init pre = MRun MUAtom v ->
  tripos_name (strip l) = None -> two_ints (strip l) = None ->
  exists e, read_mol2 true (pre ++ l :: rest) = Err e.
Proof. intros Hp; intros. eapply fails_read; [exact Hp|]. eapply unity_atom_header_bad; eauto. Qed.

Theorem unity_bond_group_short_read hd idx n als tl : m2run true m2init pre = MRun MUBond v ->
  tripos_name (strip hd) = None -> two_ints (strip hd) = Some (idx, n) -> Forall two_tok als ->
  (Z.of_nat (List.length als) < n)%Z -> closes tl ->
  exists e, read_mol2 true (pre ++ hd :: als ++ tl) = Err e.
Proof. intros Hp; intros. eapply fails_read; [exact Hp|]. eapply unity_bond_group_short; eauto. Qed.

Theorem unity_bond_attr_deleted_read hd idx n als i tl : m2run true m2init pre = MRun MUBond v ->
  tripos_name (strip hd) = None -> two_ints (strip hd) = Some (idx, n) -> Forall two_tok als ->
  Z.of_nat (List.length als) = n -> (i < List.length als)%nat -> closes tl ->
  exists e, read_mol2 true (pre ++ hd :: del_nth i als ++ tl) = Err e.
Proof. intros Hp; intros. eapply fails_read; [exact Hp|]. eapply unity_bond_attr_deleted; eauto. Qed.

Theorem unity_bond_attr_deleted_before_group_read hd idx n als i g y rest : m2run true m2init pre = MRun MUBond v ->
  tripos_name (strip hd) = None -> two_ints (strip hd) = Some (idx, n) -> Forall two_tok als ->
  Z.of_nat (List.length als) = n -> (i < List.length als)%nat ->
  two_tok g -> tripos_name (strip y) = None -> two_ints (strip y) = None ->
  exists e, read_mol2 true (pre ++ hd :: del_nth i als ++ g :: y :: rest) = Err e.
Proof. intros Hp; intros. eapply fails_read; [exact Hp|]. eapply unity_bond_attr_deleted_before_group; eauto. Qed.

Theorem unity_bond_header_bad_read l rest : m2run true m2init pre = MRun MUBond v ->
  tripos_name (strip l) = None -> two_ints (strip l) = None ->
  exists e, read_mol2 true (pre ++ l :: rest) = Err e.
Proof. intros Hp; intros. eapply fails_read; [exact Hp|]. eapply unity_bond_header_bad; eauto. Qed.
End Read.
