(* C12: theorems about Model/Join.v -- structural part (any field), then geometry over R. *)
From Coq Require Import Reals Nsatz Lra Psatz List ZArith Lia Bool PArith Sorted.
From Molli Require Import Common.Field3 Common.Field3R Model.Rot Proofs.Rot Proofs.RotMotion Model.Join.
Import ListNotations.

(* ------------------------------------------------------------------ lists *)
Lemma pmem_spec x l : pmem x l = true <-> In x l.
Proof.
  unfold pmem. rewrite existsb_exists. split.
  - intros [y [Hy E]]. apply Pos.eqb_eq in E. now subst.
  - intros H. exists x. split; [exact H | apply Pos.eqb_refl].
Qed.

Lemma combine_app {A B} (l1 l2 : list A) (m1 m2 : list B) :
  length l1 = length m1 -> combine (l1 ++ l2) (m1 ++ m2) = combine l1 m1 ++ combine l2 m2.
Proof.
  revert m1. induction l1 as [|a l1 IH]; intros [|b m1] H; simpl in *; try discriminate; [reflexivity|].
  f_equal. apply IH. lia.
Qed.
Lemma combine_map_r {A B C} (g : B -> C) (l : list A) (m : list B) :
  combine l (map g m) = map (fun p => (fst p, g (snd p))) (combine l m).
Proof. revert m. induction l as [|a l IH]; intros [|b m]; simpl; try reflexivity. now rewrite IH. Qed.

Definition key_not (ap : positive) {B} (p : positive * B) : bool := negb (Pos.eqb (fst p) ap).
Definition id_not (ap : positive) (a : atom) : bool := negb (Pos.eqb (a_id a) ap).

(* the boolean mask over the atom list and the filter over the atom list delete the same positions *)
Lemma mask_loc_combine {B} (ap : positive) (l : list atom) (X : list B) :
  length X = length l ->
  combine (ids (filter (id_not ap) l)) (mask_rows (loc ap l) X) = filter (key_not ap) (combine (ids l) X)
  /\ length (mask_rows (loc ap l) X) = length (filter (id_not ap) l).
Proof.
  revert X. induction l as [|a l IH]; intros [|x X] H; simpl in *; try discriminate; [split; reflexivity|].
  assert (H' : length X = length l) by lia. destruct (IH X H') as [E L].
  clear IH. unfold id_not, key_not in *. simpl in *. destruct (Pos.eqb (a_id a) ap); simpl; split; congruence.
Qed.

Lemma filter_ext_in' {A} (f g : A -> bool) (l : list A) :
  (forall a, In a l -> f a = g a) -> filter f l = filter g l.
Proof.
  induction l as [|a l IH]; intros H; simpl; [reflexivity|].
  rewrite (H a (or_introl eq_refl)), IH; [reflexivity|]. intros; apply H; now right.
Qed.

Lemma filter_partition_length {A} (f : A -> bool) (l : list A) :
  (length (filter f l) + length (filter (fun a => negb (f a)) l))%nat = length l.
Proof. induction l as [|a l IH]; simpl; [reflexivity|]. destruct (f a); simpl; lia. Qed.

Lemma in_ids a l : In a l -> In (a_id a) (ids l).
Proof. intros H. unfold ids. now apply in_map. Qed.

(* deleting the one atom called x from a list with unique names shortens it by exactly one *)
Lemma filter_id_not_length x l : NoDup (ids l) -> In x (ids l) -> S (length (filter (id_not x) l)) = length l.
Proof.
  induction l as [|a l IH]; intros ND Hin; simpl in *; [destruct Hin|].
  inversion ND as [|? ? Hna ND']; subst. unfold id_not at 1. destruct (Pos.eqb_spec (a_id a) x) as [E|NE]; simpl.
  - f_equal. subst x. rewrite <- (filter_ext_in' (fun _ => true)).
    + clear. induction l; simpl; congruence.
    + intros b Hb. unfold id_not. destruct (Pos.eqb_spec (a_id b) (a_id a)) as [E|]; [|reflexivity].
      exfalso. apply Hna. rewrite <- E. now apply in_ids.
  - f_equal. apply IH; [exact ND'|]. destruct Hin as [E|H]; [contradiction | exact H].
Qed.

Lemma NoDup_app_disjoint {A} (l m : list A) x : NoDup (l ++ m) -> In x l -> In x m -> False.
Proof.
  induction l as [|a l IH]; intros ND Hl Hm; [destruct Hl|].
  simpl in ND. inversion ND as [|? ? Hna ND']; subst. destruct Hl as [->|Hl].
  - apply Hna. apply in_or_app. now right.
  - now apply IH.
Qed.
Lemma NoDup_app_l {A} (l m : list A) : NoDup (l ++ m) -> NoDup l.
Proof.
  induction l as [|a l IH]; intros ND; [constructor|]. simpl in ND. inversion ND as [|? ? Hna ND']; subst.
  constructor; [|now apply IH]. intros H. apply Hna. apply in_or_app. now left.
Qed.
Lemma NoDup_app_r {A} (l m : list A) : NoDup (l ++ m) -> NoDup m.
Proof. induction l as [|a l IH]; intros ND; [exact ND|]. simpl in ND. inversion ND; subst. now apply IH. Qed.

(* ------------------------------------------------------------------ get_atom, neighbours *)
Lemma nth_error_In_ids l k a : nth_error l k = Some a -> In (a_id a) (ids l).
Proof. intros H. apply in_ids. eapply nth_error_In; eauto. Qed.

Lemma get_atom_in l s x : get_atom l s = Some x -> In x (ids l).
Proof.
  destruct s as [y|i]; simpl.
  - destruct (pmem y (ids l)) eqn:E; [|discriminate]. intros H. injection H; intros <-. now apply pmem_spec.
  - match goal with |- match ?kk with _ => _ end = _ -> _ => destruct kk as [k|] end; [|discriminate].
    destruct (nth_error l k) as [a|] eqn:E; [|discriminate]. simpl. intros H. injection H; intros <-.
    eapply nth_error_In_ids; eauto.
Qed.

Definition wf_bonds {F} (f : frag F) : Prop :=
  forall b, In b (fr_bonds f) -> In (b_a1 b) (ids (fr_atoms f)) /\ In (b_a2 b) (ids (fr_atoms f)).

Lemma first_neighbour_in {F} (f : frag F) x y : wf_bonds f -> first_neighbour (fr_bonds f) x = Some y -> In y (ids (fr_atoms f)).
Proof.
  intros W. unfold first_neighbour. destruct (filter (incident x) (fr_bonds f)) as [|b r] eqn:E; [discriminate|].
  intros H. injection H; intros <-. assert (Hb : In b (fr_bonds f)).
  { assert (In b (filter (incident x) (fr_bonds f))) by (rewrite E; now left). apply filter_In in H0. apply H0. }
  destruct (W b Hb). unfold other_end. destruct (Pos.eqb (b_a1 b) x); assumption.
Qed.

(* with exactly one bond at x, every bond at x leads to the same neighbour *)
Lemma sole_neighbour bs x y b : n_bonds_with bs x = 1%nat -> first_neighbour bs x = Some y ->
  In b bs -> incident x b = true -> other_end x b = y.
Proof.
  unfold n_bonds_with, first_neighbour. intros N H Hb Hi.
  assert (Hf : In b (filter (incident x) bs)) by (apply filter_In; now split).
  destruct (filter (incident x) bs) as [|b0 [|b1 r]]; simpl in N; try discriminate.
  injection H; intros <-. destruct Hf as [->|[]]. reflexivity.
Qed.

Lemma incident_ends x b : incident x b = true -> x = b_a1 b \/ x = b_a2 b.
Proof. unfold incident. rewrite orb_true_iff, !Pos.eqb_eq. intuition. Qed.
Lemma same_ends_ends x y b : same_ends x y b = true -> (b_a1 b = x /\ b_a2 b = y) \/ (b_a1 b = y /\ b_a2 b = x).
Proof. unfold same_ends. rewrite orb_true_iff, !andb_true_iff, !Pos.eqb_eq. intuition. Qed.

(* ------------------------------------------------------------------ inversion of join *)
Section Inversion.
Context {F : Type} (o : Fops F).

Definition rows (f : frag F) : list (positive * vec F) := combine (ids (fr_atoms f)) (fr_coords f).

(* what join resolved its arguments to *)
Record resolved (A B : frag F) (s1 s2 : asel) (a1 a2 a1r a2r : positive) (r1 p1 r2 p2 : vec F) : Prop := mkResolved {
  rs_a1 : get_atom (fr_atoms A) s1 = Some a1;
  rs_a2 : get_atom (fr_atoms B) s2 = Some a2;
  rs_n1 : n_bonds_with (fr_bonds A) a1 = 1%nat;
  rs_n2 : n_bonds_with (fr_bonds B) a2 = 1%nat;
  rs_a1r : first_neighbour (fr_bonds A) a1 = Some a1r;
  rs_a2r : first_neighbour (fr_bonds B) a2 = Some a2r;
  rs_lenA : length (fr_coords A) = length (fr_atoms A);
  rs_lenB : length (fr_coords B) = length (fr_atoms B);
  rs_r1 : coord_of A a1r = Some r1;
  rs_p1 : coord_of A a1 = Some p1;
  rs_r2 : coord_of B a2r = Some r2;
  rs_p2 : coord_of B a2 = Some p2
}.

Definition product (A B : frag F) (op : jopts F) (w : jwit F) (a1 a2 a1r a2r : positive) (r1 p1 r2 p2 : vec F) : frag F :=
  let v1 := vsub o p1 r1 in
  let v2 := vsub o p2 r2 in
  mkFrag (filter (keep_atom a1 a2) (fr_atoms A ++ fr_atoms B))
         (filter (keep_bond a1 a2) (fr_bonds A ++ fr_bonds B) ++ [mkBond a1r a2r (o_nb op)])
         (map (place_A o r1) (mask_rows (loc a1 (fr_atoms A)) (fr_coords A))
          ++ map (place_B o (join_rot o v1 (w_n1 w) v2 (w_n2 w) (w_ov w)) (join_shift o v1 (w_n1 w) (bond_len o op))
                            (join_twist o v1 (w_n1 w) (w_twist w)) r2)
                 (mask_rows (loc a2 (fr_atoms B)) (fr_coords B)))
         (join_charge (o_charge op) (fr_charge A) (fr_charge B))
         (join_mult (o_mult op) (fr_mult A) (fr_mult B)).

Lemma join_inv A B s1 s2 op w P : join o A B s1 s2 op w = Some P ->
  exists a1 a2 a1r a2r r1 p1 r2 p2,
    resolved A B s1 s2 a1 a2 a1r a2r r1 p1 r2 p2 /\
    P = product A B op w a1 a2 a1r a2r r1 p1 r2 p2 /\
    (forall b, In b (filter (keep_bond a1 a2) (fr_bonds A ++ fr_bonds B)) ->
       In (b_a1 b) (ids (fr_atoms P)) /\ In (b_a2 b) (ids (fr_atoms P))) /\
    In a1r (ids (fr_atoms P)) /\ In a2r (ids (fr_atoms P)).
Proof.
  unfold join.
  destruct (get_atom (fr_atoms A) s1) as [a1|] eqn:G1; [|discriminate].
  destruct (get_atom (fr_atoms B) s2) as [a2|] eqn:G2; [|discriminate].
  destruct (Nat.eqb (n_bonds_with (fr_bonds A) a1) 1 && Nat.eqb (n_bonds_with (fr_bonds B) a2) 1)%bool eqn:NB; [|discriminate].
  apply andb_true_iff in NB. destruct NB as [N1 N2]. apply Nat.eqb_eq in N1. apply Nat.eqb_eq in N2.
  destruct (first_neighbour (fr_bonds A) a1) as [a1r|] eqn:R1; [|discriminate].
  destruct (first_neighbour (fr_bonds B) a2) as [a2r|] eqn:R2; [|discriminate].
  cbv zeta.
  match goal with |- (if ?c then _ else _) = _ -> _ => destruct c eqn:CK; [|discriminate] end.
  rewrite !andb_true_iff in CK. destruct CK as [[[[CB C1] C2] LA] LB].
  apply Nat.eqb_eq in LA. apply Nat.eqb_eq in LB. apply pmem_spec in C1. apply pmem_spec in C2.
  destruct (coord_of A a1r) as [r1|] eqn:X1; [|discriminate].
  destruct (coord_of A a1) as [p1|] eqn:X2; [|discriminate].
  destruct (coord_of B a2r) as [r2|] eqn:X3; [|discriminate].
  destruct (coord_of B a2) as [p2|] eqn:X4; [|discriminate].
  intros H. injection H; intros <-. clear H.
  exists a1, a2, a1r, a2r, r1, p1, r2, p2. split; [constructor; assumption|]. split; [reflexivity|].
  split; [|split; assumption].
  intros b Hb. rewrite forallb_forall in CB. specialize (CB b Hb). apply andb_true_iff in CB.
  destruct CB as [E1 E2]. apply pmem_spec in E1. apply pmem_spec in E2. split; assumption.
Qed.

(* join looks at its designators only through get_atom *)
Lemma join_sel_ext A B s1 s1' s2 s2' op w :
  get_atom (fr_atoms A) s1 = get_atom (fr_atoms A) s1' -> get_atom (fr_atoms B) s2 = get_atom (fr_atoms B) s2' ->
  join o A B s1 s2 op w = join o A B s1' s2' op w.
Proof. intros E1 E2. unfold join. rewrite E1, E2. reflexivity. Qed.

(* ------------------------------------------------------------------ atoms and bonds of the product *)
Section Structure.
Variables (A B : frag F) (s1 s2 : asel) (op : jopts F) (w : jwit F).
Variables (a1 a2 a1r a2r : positive) (r1 p1 r2 p2 : vec F).
Hypothesis RS : resolved A B s1 s2 a1 a2 a1r a2r r1 p1 r2 p2.
Hypothesis ND : NoDup (ids (fr_atoms A) ++ ids (fr_atoms B)).       (* two distinct molecules, names unique *)
Let P := product A B op w a1 a2 a1r a2r r1 p1 r2 p2.

Lemma a1_in_A : In a1 (ids (fr_atoms A)). Proof. eapply get_atom_in, (rs_a1 _ _ _ _ _ _ _ _ _ _ _ _ RS). Qed.
Lemma a2_in_B : In a2 (ids (fr_atoms B)). Proof. eapply get_atom_in, (rs_a2 _ _ _ _ _ _ _ _ _ _ _ _ RS). Qed.
Lemma a2_notin_A : ~ In a2 (ids (fr_atoms A)).
Proof. intros H. exact (NoDup_app_disjoint _ _ _ ND H a2_in_B). Qed.
Lemma a1_notin_B : ~ In a1 (ids (fr_atoms B)).
Proof. intros H. exact (NoDup_app_disjoint _ _ _ ND a1_in_A H). Qed.

Lemma keep_on_A : filter (keep_atom a1 a2) (fr_atoms A) = filter (id_not a1) (fr_atoms A).
Proof.
  apply filter_ext_in'. intros a Ha. unfold keep_atom, id_not.
  destruct (Pos.eqb_spec (a_id a) a2) as [E|]; [|now rewrite andb_true_r].
  exfalso. apply a2_notin_A. rewrite <- E. now apply in_ids.
Qed.
Lemma keep_on_B : filter (keep_atom a1 a2) (fr_atoms B) = filter (id_not a2) (fr_atoms B).
Proof.
  apply filter_ext_in'. intros a Ha. unfold keep_atom, id_not.
  destruct (Pos.eqb_spec (a_id a) a1) as [E|]; [|reflexivity].
  exfalso. apply a1_notin_B. rewrite <- E. now apply in_ids.
Qed.

(* exactly the atoms of A and B except the two attachment points: same records (element, label, type, ... all
   carried over), A's first, order kept, two fewer than the inputs together *)
Theorem product_atoms :
  fr_atoms P = filter (id_not a1) (fr_atoms A) ++ filter (id_not a2) (fr_atoms B) /\
  (forall a, In a (fr_atoms P) <-> (In a (fr_atoms A) \/ In a (fr_atoms B)) /\ a_id a <> a1 /\ a_id a <> a2) /\
  S (S (length (fr_atoms P))) = (length (fr_atoms A) + length (fr_atoms B))%nat /\
  NoDup (ids (fr_atoms P)).
Proof.
  subst P. unfold product. cbv zeta. simpl fr_atoms. rewrite filter_app, keep_on_A, keep_on_B.
  split; [reflexivity|]. split; [|split].
  - intros a. rewrite <- keep_on_A, <- keep_on_B, <- filter_app, filter_In, in_app_iff. unfold keep_atom.
    rewrite andb_true_iff, !negb_true_iff, !Pos.eqb_neq. tauto.
  - rewrite app_length.
    pose proof (filter_id_not_length a1 (fr_atoms A) (NoDup_app_l _ _ ND) a1_in_A).
    pose proof (filter_id_not_length a2 (fr_atoms B) (NoDup_app_r _ _ ND) a2_in_B). lia.
  - unfold ids. rewrite map_app.
    assert (G : forall (f : atom -> bool) l m, NoDup (map a_id l ++ map a_id m) -> NoDup (map a_id (filter f l) ++ map a_id (filter f m))).
    { clear. intros f l. induction l as [|a l IH]; intros m H; simpl in *.
      - induction m as [|b m IHm]; simpl in *; [constructor|]. inversion H; subst.
        destruct (f b); simpl; [constructor|]; auto. intros Hin. apply H2. apply in_map_iff in Hin.
        destruct Hin as [c [E Hc]]. apply filter_In in Hc. rewrite <- E. apply in_map. apply Hc.
      - inversion H; subst. destruct (f a); simpl; [constructor|]; auto.
        intros Hin. apply H2. apply in_app_or in Hin. apply in_or_app. destruct Hin as [Hin|Hin]; [left|right];
          apply in_map_iff in Hin; destruct Hin as [c [E Hc]]; apply filter_In in Hc; rewrite <- E; apply in_map; apply Hc. }
    assert (E : forall l, filter (id_not a1) l = filter (fun a => id_not a1 a) l) by reflexivity.
    (* two different predicates on the two halves: go through keep_atom, which is the same on both *)
    rewrite <- keep_on_A, <- keep_on_B. apply G. exact ND.
Qed.

Hypothesis WA : wf_bonds A.
Hypothesis WB : wf_bonds B.

Lemma a1r_in_A : In a1r (ids (fr_atoms A)). Proof. eapply first_neighbour_in; [exact WA | apply (rs_a1r _ _ _ _ _ _ _ _ _ _ _ _ RS)]. Qed.
Lemma a2r_in_B : In a2r (ids (fr_atoms B)). Proof. eapply first_neighbour_in; [exact WB | apply (rs_a2r _ _ _ _ _ _ _ _ _ _ _ _ RS)]. Qed.

Lemma keepb_on_A : filter (keep_bond a1 a2) (fr_bonds A) = filter (fun b => negb (incident a1 b)) (fr_bonds A).
Proof.
  apply filter_ext_in'. intros b Hb. unfold keep_bond. destruct (incident a2 b) eqn:E; [|now rewrite andb_true_r].
  exfalso. apply a2_notin_A. destruct (WA b Hb). apply incident_ends in E. destruct E as [->| ->]; assumption.
Qed.
Lemma keepb_on_B : filter (keep_bond a1 a2) (fr_bonds B) = filter (fun b => negb (incident a2 b)) (fr_bonds B).
Proof.
  apply filter_ext_in'. intros b Hb. unfold keep_bond. destruct (incident a1 b) eqn:E; [|reflexivity].
  exfalso. apply a1_notin_B. destruct (WB b Hb). apply incident_ends in E. destruct E as [->| ->]; assumption.
Qed.

(* exactly the bonds of A and B that do not touch an attachment point (two fewer: one per attachment point),
   plus one new bond between the former neighbours, present exactly once *)
Theorem product_bonds :
  fr_bonds P = filter (fun b => negb (incident a1 b)) (fr_bonds A) ++ filter (fun b => negb (incident a2 b)) (fr_bonds B)
               ++ [mkBond a1r a2r (o_nb op)] /\
  (forall b, In b (fr_bonds P) <->
     ((In b (fr_bonds A) \/ In b (fr_bonds B)) /\ incident a1 b = false /\ incident a2 b = false) \/ b = mkBond a1r a2r (o_nb op)) /\
  S (length (fr_bonds P)) = (length (fr_bonds A) + length (fr_bonds B))%nat /\
  length (filter (same_ends a1r a2r) (fr_bonds P)) = 1%nat /\
  (forall b, In b (fr_bonds A) -> incident a1 b = true -> other_end a1 b = a1r) /\
  (forall b, In b (fr_bonds B) -> incident a2 b = true -> other_end a2 b = a2r).
Proof.
  subst P. unfold product. cbv zeta. simpl fr_bonds. rewrite filter_app, keepb_on_A, keepb_on_B, <- app_assoc.
  split; [reflexivity|]. split; [|split; [|split; [|split]]].
  - intros b. rewrite <- keepb_on_A, <- keepb_on_B, app_assoc, <- filter_app, in_app_iff, filter_In, in_app_iff.
    unfold keep_bond. rewrite andb_true_iff, !negb_true_iff. simpl. intuition.
  - rewrite !app_length. simpl.
    pose proof (filter_partition_length (incident a1) (fr_bonds A)) as PA.
    pose proof (filter_partition_length (incident a2) (fr_bonds B)) as PB.
    pose proof (rs_n1 _ _ _ _ _ _ _ _ _ _ _ _ RS) as N1. pose proof (rs_n2 _ _ _ _ _ _ _ _ _ _ _ _ RS) as N2.
    unfold n_bonds_with in N1, N2. lia.
  - rewrite !filter_app, !app_length.
    assert (ZA : filter (same_ends a1r a2r) (filter (fun b => negb (incident a1 b)) (fr_bonds A)) = []).
    { destruct (filter (same_ends a1r a2r) (filter (fun b => negb (incident a1 b)) (fr_bonds A))) as [|b r] eqn:E; [reflexivity|].
      exfalso. assert (Hb : In b (b :: r)) by now left. rewrite <- E in Hb. apply filter_In in Hb. destruct Hb as [Hb S].
      apply filter_In in Hb. destruct Hb as [Hb _]. destruct (WA b Hb) as [I1 I2].
      apply same_ends_ends in S.
      assert (In a2r (ids (fr_atoms A))) by (destruct S as [[_ <-]|[<- _]]; assumption).
      exact (NoDup_app_disjoint _ _ _ ND H a2r_in_B). }
    assert (ZB : filter (same_ends a1r a2r) (filter (fun b => negb (incident a2 b)) (fr_bonds B)) = []).
    { destruct (filter (same_ends a1r a2r) (filter (fun b => negb (incident a2 b)) (fr_bonds B))) as [|b r] eqn:E; [reflexivity|].
      exfalso. assert (Hb : In b (b :: r)) by now left. rewrite <- E in Hb. apply filter_In in Hb. destruct Hb as [Hb S].
      apply filter_In in Hb. destruct Hb as [Hb _]. destruct (WB b Hb) as [I1 I2]. apply same_ends_ends in S.
      assert (In a1r (ids (fr_atoms B))) by (destruct S as [[<- _]|[_ <-]]; assumption).
      exact (NoDup_app_disjoint _ _ _ ND a1r_in_A H). }
    rewrite ZA, ZB. simpl. unfold same_ends. simpl. rewrite !Pos.eqb_refl. reflexivity.
  - intros b Hb Hi. eapply sole_neighbour; eauto using (rs_n1 _ _ _ _ _ _ _ _ _ _ _ _ RS), (rs_a1r _ _ _ _ _ _ _ _ _ _ _ _ RS).
  - intros b Hb Hi. eapply sole_neighbour; eauto using (rs_n2 _ _ _ _ _ _ _ _ _ _ _ _ RS), (rs_a2r _ _ _ _ _ _ _ _ _ _ _ _ RS).
Qed.

(* each row of the product is the moved row of its source atom *)
Theorem product_rows :
  let v1 := vsub o p1 r1 in let v2 := vsub o p2 r2 in
  rows P = map (fun q => (fst q, place_A o r1 (snd q))) (filter (key_not a1) (rows A))
        ++ map (fun q => (fst q, place_B o (join_rot o v1 (w_n1 w) v2 (w_n2 w) (w_ov w)) (join_shift o v1 (w_n1 w) (bond_len o op))
                                          (join_twist o v1 (w_n1 w) (w_twist w)) r2 (snd q)))
               (filter (key_not a2) (rows B)) /\
  length (fr_coords P) = length (fr_atoms P).
Proof.
  cbv zeta. subst P. unfold rows, product. cbv zeta. simpl fr_atoms. simpl fr_coords.
  rewrite filter_app, keep_on_A, keep_on_B.
  destruct (mask_loc_combine a1 (fr_atoms A) (fr_coords A) (rs_lenA _ _ _ _ _ _ _ _ _ _ _ _ RS)) as [EA LA].
  destruct (mask_loc_combine a2 (fr_atoms B) (fr_coords B) (rs_lenB _ _ _ _ _ _ _ _ _ _ _ _ RS)) as [EB LB].
  split.
  - unfold ids at 1. rewrite map_app. fold (ids (filter (id_not a1) (fr_atoms A))). fold (ids (filter (id_not a2) (fr_atoms B))).
    rewrite combine_app by (unfold ids; rewrite !map_length; symmetry; exact LA).
    rewrite !combine_map_r, EA, EB. reflexivity.
  - rewrite !app_length, !map_length, LA, LB. reflexivity.
Qed.
End Structure.
End Inversion.

(* ================================================================== geometry over R *)
Local Open Scope R_scope.

Lemma coord_of_in_rows {F} (f : frag F) x r : coord_of f x = Some r -> In (x, r) (rows f).
Proof.
  unfold coord_of, rows. generalize (fr_coords f). induction (fr_atoms f) as [|a l IH]; intros X; simpl; [discriminate|].
  destruct (Pos.eqb_spec (a_id a) x) as [E|NE].
  - destruct X as [|x0 X]; simpl; [discriminate|]. intros H. injection H; intros <-. left. now rewrite E.
  - destruct (find_pos x l) as [i|] eqn:Q; simpl; [|discriminate]. destruct X as [|x0 X]; simpl; [discriminate|].
    intros H. right. apply IH. exact H.
Qed.

Lemma place_A_rigid (r1 : vecR) : rigid_map (place_A ROps r1).
Proof. unfold place_A. split; intros; vdestruct; f3; ring. Qed.

Lemma place_B_rigid (R : matR) (t : vecR) (T : option matR) (r2 : vecR) :
  proper R -> match T with Some M => proper M | None => True end -> rigid_map (place_B ROps R t T r2).
Proof.
  intros HR HT.
  assert (G : rigid_map (fun x => vadd ROps (vm ROps (place_A ROps r2 x) R) t)).
  { apply (rigid_compose (fun x => vm ROps (place_A ROps r2 x) R) (fun y => vadd ROps y t)); [|apply rigid_vadd].
    apply (rigid_compose (place_A ROps r2) (fun y => vm ROps y R)); [apply place_A_rigid | apply rigid_vm, HR]. }
  destruct T as [M|]; unfold place_B.
  - apply (rigid_compose (fun x => vadd ROps (vm ROps (place_A ROps r2 x) R) t) (fun y => vm ROps y M)); [exact G | apply rigid_vm, HT].
  - exact G.
Qed.

Lemma norm2_vopp (v : vecR) : norm2 ROps (vopp ROps v) = norm2 ROps v.
Proof. vdestruct. f3. ring. Qed.
Lemma dot_vopp_r (x v : vecR) : dot ROps x (vopp ROps v) = - dot ROps x v.
Proof. vdestruct. f3. ring. Qed.

Lemma join_tol_range : 0 <= join_tol ROps < 1.
Proof. unfold join_tol. cbv [fofZ fdiv ROps]. lra. Qed.

(* the rotation used by join: proper, and it takes B's attachment direction to MINUS A's *)
Lemma join_rot_correct (v1 v2 ov : vecR) (n1 n2 : R) :
  0 < n1 -> n1 * n1 = norm2 ROps v1 -> 0 < n2 -> n2 * n2 = norm2 ROps v2 -> unit ov -> dot ROps ov v1 = 0 ->
  proper (join_rot ROps v1 n1 v2 n2 ov) /\
  vm ROps (vdiv ROps v2 n2) (join_rot ROps v1 n1 v2 n2 ov) = vdiv ROps (vopp ROps v1) n1.
Proof.
  intros H1 E1 H2 E2 U O. unfold join_rot. apply rot_from_vectors_correct; try assumption.
  - apply join_tol_range.
  - now rewrite norm2_vopp.
  - rewrite dot_vopp_r, O. ring.
Qed.

Lemma join_shift_scale (v1 : vecR) (n1 d : R) : join_shift ROps v1 n1 d = vscale ROps (d / n1) v1.
Proof. unfold join_shift. vdestruct. f3. unfold Rdiv. veq; ring. Qed.
Lemma norm2_vscale (q : R) (v : vecR) : norm2 ROps (vscale ROps q v) = q * q * norm2 ROps v.
Proof. vdestruct. f3. ring. Qed.
Lemma join_shift_norm (v1 : vecR) (n1 d : R) : 0 < n1 -> n1 * n1 = norm2 ROps v1 -> norm2 ROps (join_shift ROps v1 n1 d) = d * d.
Proof.
  intros Hn E. rewrite join_shift_scale, norm2_vscale, <- E. field. lra.
Qed.

Lemma vdiv_vscale (v : vecR) (n : R) : n <> 0 -> v = vscale ROps n (vdiv ROps v n).
Proof. intros Hn. vdestruct. f3. veq; field; exact Hn. Qed.
Lemma vscale_vscale (a b : R) (v : vecR) : vscale ROps a (vscale ROps b v) = vscale ROps (a * b) v.
Proof. vdestruct. f3. veq; ring. Qed.
Lemma vdiv_vopp_scale (v : vecR) (n : R) : vdiv ROps (vopp ROps v) n = vscale ROps (- / n) v.
Proof. vdestruct. f3. unfold Rdiv. veq; ring. Qed.
Lemma vm_vzero_l (M : matR) (x : vecR) : vm ROps (vsub ROps x x) M = vzero ROps.
Proof. vdestruct. f3. veq; ring. Qed.
Lemma vadd_vzero_l (t : vecR) : vadd ROps (vzero ROps) t = t.
Proof. vdestruct. f3. veq; ring. Qed.

Lemma vsub_vzero_r (y : vecR) : vsub ROps y (vzero ROps) = y.
Proof. vdestruct. f3. veq; ring. Qed.
Lemma shift_cancel (y z : vecR) : vsub ROps (vadd ROps y z) (vadd ROps (vzero ROps) z) = y.
Proof. vdestruct. f3. veq; ring. Qed.

Definition twist_ok (tw : option (R * R)) : Prop := match tw with Some (s, c) => s * s + c * c = 1 | None => True end.

Lemma join_twist_correct (v1 : vecR) (n1 : R) (tw : option (R * R)) :
  0 < n1 -> n1 * n1 = norm2 ROps v1 -> twist_ok tw ->
  match join_twist ROps v1 n1 tw with
  | Some M => proper M /\ forall k, vm ROps (vscale ROps k v1) M = vscale ROps k v1
  | None => True
  end.
Proof.
  intros Hn E Ht. destruct tw as [[s c]|]; simpl; [|exact I]. simpl in Ht.
  destruct (rot_from_axis_correct v1 n1 s c Hn E Ht) as [PM [Fx _]]. split; [exact PM|].
  intros k. rewrite vm_vscale, Fx. reflexivity.
Qed.

(* the hypotheses under which the geometry makes sense: the two attachment atoms do not sit on their neighbours
   (n1, n2 are the lengths of the attachment vectors), ov is a unit vector orthogonal to v1, the rotamer rotation
   (if any) is a rotation *)
Definition geom_ok (v1 v2 : vecR) (w : jwit R) : Prop :=
  0 < w_n1 w /\ w_n1 w * w_n1 w = norm2 ROps v1 /\ 0 < w_n2 w /\ w_n2 w * w_n2 w = norm2 ROps v2 /\
  unit (w_ov w) /\ dot ROps (w_ov w) v1 = 0 /\ twist_ok (w_twist w).

Section Geometry.
Variables (v1 v2 r1 r2 p2 : vecR) (w : jwit R) (d : R).
Hypothesis G : geom_ok v1 v2 w.
Hypothesis V2 : v2 = vsub ROps p2 r2.
Let gA := place_A ROps r1.
Let gB := place_B ROps (join_rot ROps v1 (w_n1 w) v2 (w_n2 w) (w_ov w)) (join_shift ROps v1 (w_n1 w) d)
                   (join_twist ROps v1 (w_n1 w) (w_twist w)) r2.

(* A and B are each moved by a rigid, handedness-preserving map; the former neighbours end up joined by the
   vector (d/|v1|) v1: length |d|, direction of A's former attachment vector; B's former attachment vector ends up
   pointing the opposite way (B faces A); with or without the rotamer rotation *)
Theorem join_maps :
  rigid_map gA /\ rigid_map gB /\
  gA r1 = vzero ROps /\
  gB r2 = vscale ROps (d / w_n1 w) v1 /\
  vsub ROps (gB r2) (gA r1) = vscale ROps (d / w_n1 w) v1 /\
  norm2 ROps (vsub ROps (gB r2) (gA r1)) = d * d /\
  vsub ROps (gB p2) (gB r2) = vscale ROps (- (w_n2 w / w_n1 w)) v1.
Proof.
  destruct G as [H1 [E1 [H2 [E2 [U [O TW]]]]]].
  destruct (join_rot_correct v1 v2 (w_ov w) (w_n1 w) (w_n2 w) H1 E1 H2 E2 U O) as [PR MAP].
  pose proof (join_twist_correct v1 (w_n1 w) (w_twist w) H1 E1 TW) as JT.
  assert (RA : rigid_map gA) by apply place_A_rigid.
  assert (RB : rigid_map gB).
  { apply place_B_rigid; [exact PR|]. destruct (join_twist ROps v1 (w_n1 w) (w_twist w)); [apply JT | exact I]. }
  assert (ZA : gA r1 = vzero ROps) by (subst gA; unfold place_A; destruct r1 as [[? ?] ?]; f3; veq; ring).
  assert (TB : gB r2 = vscale ROps (d / w_n1 w) v1).
  { subst gB. unfold place_B. rewrite vm_vzero_l, vadd_vzero_l, join_shift_scale.
    destruct (join_twist ROps v1 (w_n1 w) (w_twist w)) as [M|]; [apply JT | reflexivity]. }
  assert (BV : vsub ROps (gB r2) (gA r1) = vscale ROps (d / w_n1 w) v1).
  { rewrite ZA, TB. apply vsub_vzero_r. }
  split; [exact RA|]. split; [exact RB|]. split; [exact ZA|]. split; [exact TB|]. split; [exact BV|]. split.
  - rewrite BV, <- join_shift_scale. apply join_shift_norm; assumption.
  - (* linear part applied to v2 *)
    assert (N2 : w_n2 w <> 0) by lra. assert (N1 : w_n1 w <> 0) by lra.
    assert (L : vm ROps v2 (join_rot ROps v1 (w_n1 w) v2 (w_n2 w) (w_ov w)) = vscale ROps (- (w_n2 w / w_n1 w)) v1).
    { rewrite (vdiv_vscale v2 (w_n2 w) N2) at 1. rewrite vm_vscale, MAP, vdiv_vopp_scale, vscale_vscale.
      f_equal. unfold Rdiv. ring. }
    subst gB. unfold place_B.
    destruct (join_twist ROps v1 (w_n1 w) (w_twist w)) as [M|].
    + rewrite <- vm_vsub, vm_vzero_l, <- V2, shift_cancel, L. apply JT.
    + rewrite vm_vzero_l, <- V2, shift_cancel. exact L.
Qed.
End Geometry.

(* ------------------------------------------------------------------ the requested bond length *)
Lemma fzero_b_R (x : R) : fzero_b ROps x = true <-> x = 0.
Proof.
  unfold fzero_b. cbv [fleb f0 ROps]. rewrite andb_true_iff, !Rleb_true. lra.
Qed.
Lemma f_or_some (x y : R) : x <> 0 -> f_or ROps (Some x) y = x.
Proof. intros H. unfold f_or. destruct (fzero_b ROps x) eqn:E; [apply fzero_b_R in E; contradiction | reflexivity]. Qed.
Lemma f_or_falsy (y : R) : f_or ROps (Some 0) y = y /\ f_or ROps None y = y.
Proof. split; [|reflexivity]. unfold f_or. destruct (fzero_b ROps 0) eqn:E; [reflexivity|]. assert (fzero_b ROps 0 = true) by now apply fzero_b_R. congruence. Qed.

(* dist given (and not 0): that length; otherwise the sum of the two covalent radii (carbon's for an element
   without one); 1.5 only if that sum is 0 *)
Lemma bond_len_requested (op : jopts R) (d : R) : o_dist op = Some d -> d <> 0 -> bond_len ROps op = d.
Proof. intros E H. unfold bond_len. rewrite E. now apply f_or_some. Qed.
Lemma bond_len_default (op : jopts R) :
  o_dist op = None -> expected_length ROps (o_rcov1 op) (o_rcov2 op) (o_rcovC op) <> 0 ->
  bond_len ROps op = expected_length ROps (o_rcov1 op) (o_rcov2 op) (o_rcovC op).
Proof. intros E H. unfold bond_len. rewrite E. simpl f_or at 1. now apply f_or_some. Qed.
Lemma expected_length_radii (ra rb rC : R) : ra <> 0 -> rb <> 0 -> expected_length ROps (Some ra) (Some rb) rC = ra + rb.
Proof. intros Ha Hb. unfold expected_length. now rewrite !f_or_some. Qed.

(* ------------------------------------------------------------------ charge and multiplicity *)
Lemma join_charge_spec (q : option Z) (qA qB : Z) :
  join_charge q qA qB = match q with Some v => v | None => (qA + qB)%Z end.
Proof. unfold join_charge, or_int, override. destruct q as [v|]; [destruct (Z.eqb_spec v 0)|destruct (Z.eqb_spec (qA + qB) 0)]; lia. Qed.
Lemma join_mult_spec (m : option Z) (mA mB : Z) :
  override m (mA + mB - 1) <> 0%Z -> join_mult m mA mB = match m with Some v => v | None => (mA + mB - 1)%Z end.
Proof. unfold join_mult, or_int, override. intros H. destruct m as [v|]; [destruct (Z.eqb_spec v 0)|destruct (Z.eqb_spec (mA + mB - 1) 0)]; simpl in *; lia. Qed.
(* recorded finding C12:mult:zero-becomes-one, characterised exactly *)
Lemma join_mult_zero (m : option Z) (mA mB : Z) : override m (mA + mB - 1) = 0%Z -> join_mult m mA mB = 1%Z.
Proof. unfold join_mult, or_int. intros ->. reflexivity. Qed.
(* finding 24 (repaired): with `x or default` an override of 0 is dropped *)
Lemma override_or_drops_zero (dflt : Z) : override_or (Some 0%Z) dflt = dflt /\ override (Some 0%Z) dflt = 0%Z.
Proof. split; reflexivity. Qed.

(* ------------------------------------------------------------------ the deterministic orthogonal vector *)
Lemma fabs_R (x : R) : fabs ROps x = Rabs x.
Proof.
  unfold fabs. cbv [fleb f0 fopp ROps]. destruct (Rleb 0 x) eqn:E.
  - apply Rleb_true in E. symmetry. apply Rabs_right. lra.
  - apply Rleb_false in E. symmetry. apply Rabs_left. exact E.
Qed.
Lemma abs_le_sq (x y : R) : Rabs x <= Rabs y -> x * x <= y * y.
Proof. intros H. apply Rsqr_le_abs_1 in H. exact H. Qed.
Lemma abs_lt_sq (x y : R) : Rabs x < Rabs y -> x * x <= y * y.
Proof. intros H. apply Rsqr_lt_abs_1 in H. unfold Rsqr in H. lra. Qed.

Lemma least_axis_spec (b : vecR) : unit b ->
  let e := least_axis ROps b in unit e /\ 3 * (dot ROps e b * dot ROps e b) <= 1.
Proof.
  unfold unit. destruct b as [[x y] z]. intros U. f3_in U. unfold least_axis. rewrite !fabs_R. cbv [fleb ROps].
  destruct (Rleb (Rabs x) (Rabs y)) eqn:E1; [apply Rleb_true, abs_le_sq in E1 | apply Rleb_false, abs_lt_sq in E1].
  - destruct (Rleb (Rabs x) (Rabs z)) eqn:E2; [apply Rleb_true, abs_le_sq in E2 | apply Rleb_false, abs_lt_sq in E2];
      cbv zeta; f3; split; try ring; nra.
  - destruct (Rleb (Rabs y) (Rabs z)) eqn:E2; [apply Rleb_true, abs_le_sq in E2 | apply Rleb_false, abs_lt_sq in E2];
      cbv zeta; f3; split; try ring; nra.
Qed.

Lemma gram_schmidt (e b : vecR) : unit e -> unit b ->
  let k := dot ROps e b in
  dot ROps (vsub ROps e (vscale ROps k b)) b = 0 /\ norm2 ROps (vsub ROps e (vscale ROps k b)) = 1 - k * k.
Proof. unfold unit. vdestruct. intros Ue Ub. f3_in Ue. f3_in Ub. cbv zeta. f3. split; nsatz. Qed.

Lemma det_ort_spec (b : vecR) : unit b ->
  dot ROps (det_ort ROps b) b = 0 /\ 2 / 3 <= norm2 ROps (det_ort ROps b).
Proof.
  intros Ub. destruct (least_axis_spec b Ub) as [Ue K]. cbv zeta in Ue, K.
  unfold det_ort. cbv zeta. destruct (gram_schmidt (least_axis ROps b) b Ue Ub) as [O N]. cbv zeta in O, N.
  split; [exact O|]. rewrite N. lra.
Qed.

(* the repaired choice satisfies what the rotation theorems ask of ov: a unit vector orthogonal to v1.
   (A square root nort of |det_ort|^2 exists: that squared length is at least 2/3.) *)
Theorem det_ov_valid (v1 : vecR) (n1 nort : R) :
  0 < n1 -> n1 * n1 = norm2 ROps v1 ->
  0 < nort -> nort * nort = norm2 ROps (det_ort ROps (vdiv ROps (vopp ROps v1) n1)) ->
  unit (det_ov ROps v1 n1 nort) /\ dot ROps (det_ov ROps v1 n1 nort) v1 = 0.
Proof.
  intros H1 E1 Hn En. unfold det_ov.
  assert (Ub : unit (vdiv ROps (vopp ROps v1) n1)) by (apply unit_vdiv; [exact H1 | now rewrite norm2_vopp]).
  destruct (det_ort_spec _ Ub) as [O _]. set (ort := det_ort ROps (vdiv ROps (vopp ROps v1) n1)) in *.
  split; [apply unit_vdiv; assumption|].
  rewrite dot_vdiv_r, dot_vopp_r in O.
  assert (D : dot ROps ort v1 = 0).
  { assert (N1 : n1 <> 0) by lra. apply (Rmult_eq_reg_r (/ n1)); [|now apply Rinv_neq_0_compat]. unfold Rdiv in O. lra. }
  rewrite dot_comm, dot_vdiv_r, dot_comm, D. unfold Rdiv. ring.
Qed.

(* ------------------------------------------------------------------ hidden state *)
(* outside the antiparallel branch the rotation does not look at ov at all *)
Lemma join_rot_general_ignores_ov (v1 v2 ov ov' : vecR) (n1 n2 : R) :
  Rleb (dot ROps (vdiv ROps v2 n2) (vdiv ROps (vopp ROps v1) n1)) (- (1) + join_tol ROps) = false ->
  join_rot ROps v1 n1 v2 n2 ov = join_rot ROps v1 n1 v2 n2 ov'.
Proof.
  intros H. unfold join_rot, rot_from_vectors.
  change (fleb ROps (dot ROps (vdiv ROps v2 n2) (vdiv ROps (vopp ROps v1) n1)) (fadd ROps (fopp ROps (f1 ROps)) (join_tol ROps)))
    with (Rleb (dot ROps (vdiv ROps v2 n2) (vdiv ROps (vopp ROps v1) n1)) (- (1) + join_tol ROps)).
  rewrite H. reflexivity.
Qed.

(* inside it, two equally valid choices of ov give different rotations: before the repair (ov drawn from
   np.random) the result of join was not a function of its arguments (finding 23) *)
Lemma antiparallel_depends_on_ov :
  let a : vecR := (1, 0, 0) in let b : vecR := (-1, 0, 0) in let ov : vecR := (0, 1, 0) in let ov' : vecR := (0, 0, 1) in
  unit a /\ unit b /\ unit ov /\ unit ov' /\ dot ROps ov b = 0 /\ dot ROps ov' b = 0 /\
  antiparallel ROps a b ov <> antiparallel ROps a b ov'.
Proof.
  cbv zeta. unfold unit. repeat split; try (f3; ring).
  intros H. apply (f_equal (fun M => vm ROps (0, 1, 0) M)) in H.
  unfold antiparallel, rodrigues in H. f3_in H. injection H. intros _ H2 _. field_simplify in H2. lra.
Qed.

(* ------------------------------------------------------------------ iterated joins (molli combine) *)
Lemma filter_filter {A} (f g : A -> bool) (l : list A) : filter g (filter f l) = filter (fun a => f a && g a)%bool l.
Proof. induction l as [|a l IH]; simpl; [reflexivity|]. destruct (f a); simpl; [destruct (g a)|]; now rewrite IH. Qed.

Lemma split_at {A} (d : A) (l : list A) (n : nat) : (n < length l)%nat -> l = firstn n l ++ nth n l d :: skipn (S n) l.
Proof.
  revert n. induction l as [|a l IH]; intros n H; simpl in H; [lia|]. destruct n as [|n]; simpl; [reflexivity|].
  f_equal. apply IH. lia.
Qed.
Lemma nth_in_firstn {A} (d : A) (l : list A) (k n : nat) : (k < n)%nat -> (k < length l)%nat -> In (nth k l d) (firstn n l).
Proof.
  revert k n. induction l as [|a l IH]; intros k n H1 H2; simpl in H2; [lia|].
  destruct n as [|n]; [lia|]. destruct k as [|k]; simpl; [now left|]. right. apply IH; lia.
Qed.
Lemma in_firstn {A} (l : list A) n x : In x (firstn n l) -> In x l.
Proof. revert n. induction l as [|a l IH]; intros [|n] H; simpl in *; try contradiction. destruct H as [->|H]; [now left | right; eauto]. Qed.
Lemma NoDup_firstn {A} (l : list A) n : NoDup l -> NoDup (firstn n l).
Proof.
  revert n. induction l as [|a l IH]; intros n H; destruct n; simpl; try constructor.
  - inversion H; subst. intros Hin. apply H2. eapply in_firstn. exact Hin.   (* firstn is a sub-list *)
  - inversion H; subst. now apply IH.
Qed.
Lemma firstn_le_incl {A} (l : list A) (n' n : nat) (y : A) : (n' <= n)%nat -> In y (firstn n' l) -> In y (firstn n l).
Proof.
  revert n' n. induction l as [|a l IH]; intros [|n'] [|n] LE Hy; simpl in *; try contradiction; try lia.
  destruct Hy as [->|Hy]; [now left | right; apply (IH n' n); [lia | exact Hy]].
Qed.
Lemma ids_firstn l n : ids (firstn n l) = firstn n (ids l).
Proof. unfold ids. now rewrite firstn_map. Qed.

Lemma nth_error_filter_shift {A} (keep : A -> bool) l1 x l2 rest :
  keep x = true -> nth_error (filter keep (l1 ++ x :: l2) ++ rest) (length (filter keep l1)) = Some x.
Proof.
  intros K. rewrite filter_app. simpl. rewrite K, <- app_assoc, nth_error_app2 by lia. rewrite Nat.sub_diag. reflexivity.
Qed.

(* removing the (unique, kept) atom x from the kept part of a list with unique names *)
Lemma filter_drop_one (keep : atom -> bool) (x : atom) (a2 : positive) (L : list atom) :
  NoDup (ids L) -> In x L -> keep x = true -> (forall y, In y L -> a_id y <> a2) ->
  S (length (filter (fun a => keep a && keep_atom (a_id x) a2 a)%bool L)) = length (filter keep L).
Proof.
  induction L as [|a L IH]; intros ND Hin K H2; [destruct Hin|].
  simpl in ND. inversion ND as [|? ? Hna ND']; subst. simpl.
  assert (A2 : Pos.eqb (a_id a) a2 = false) by (apply Pos.eqb_neq, H2; now left).
  destruct Hin as [->|Hin].
  - rewrite K. unfold keep_atom at 1. rewrite Pos.eqb_refl. simpl. f_equal.
    apply f_equal. apply filter_ext_in'. intros b Hb. unfold keep_atom.
    destruct (Pos.eqb_spec (a_id b) (a_id x)) as [E|_].
    + exfalso. apply Hna. rewrite <- E. now apply in_ids.
    + assert (Pos.eqb (a_id b) a2 = false) by (apply Pos.eqb_neq, H2; now right). rewrite H. simpl. now rewrite andb_true_r.
  - assert (NE : Pos.eqb (a_id a) (a_id x) = false).
    { apply Pos.eqb_neq. intros E. apply Hna. rewrite E. now apply in_ids. }
    unfold keep_atom at 1. rewrite NE, A2. simpl. rewrite andb_true_r.
    destruct (keep a); simpl; [f_equal|]; apply IH; try assumption; intros; apply H2; now right.
Qed.

Lemma NoDup_nth_ids (l : list atom) (i j : nat) (d : atom) :
  NoDup (ids l) -> (i < length l)%nat -> (j < length l)%nat -> a_id (nth i l d) = a_id (nth j l d) -> i = j.
Proof.
  intros ND Hi Hj E. apply (proj1 (NoDup_nth (ids l) (a_id d)) ND); unfold ids; rewrite ?map_length; try assumption.
  now rewrite !map_nth.
Qed.

Section Iterated.
Context {F : Type} (o : Fops F).
Definition dflt_atom : atom := mkAtom 1%positive false [].
Definition name_at (core : frag F) (ap : Z) : positive := a_id (nth (Z.to_nat ap) (fr_atoms core) dflt_atom).

Variables (nb : list Z) (rC : F) (core : frag F).
Hypothesis NDc : NoDup (ids (fr_atoms core)).
Let L := fr_atoms core.

(* the state of the loop: the derivative's atom list is the core's with some atoms deleted, followed by the
   substituent atoms added so far; `i` deletions happened, all of them BEFORE every attachment point still to come *)
Definition loop_inv (keep : atom -> bool) (i : nat) (aps : list Z) : Prop :=
  forall ap, In ap aps ->
    (0 <= ap < Z.of_nat (length L))%Z /\ keep (nth (Z.to_nat ap) L dflt_atom) = true /\
    (Z.of_nat (length (filter keep (firstn (Z.to_nat ap) L))) + Z.of_nat i = ap)%Z.

Lemma index_hits (keep : atom -> bool) (i : nat) (ap : Z) (extra : list atom) :
  (0 <= ap < Z.of_nat (length L))%Z -> keep (nth (Z.to_nat ap) L dflt_atom) = true ->
  (Z.of_nat (length (filter keep (firstn (Z.to_nat ap) L))) + Z.of_nat i = ap)%Z ->
  get_atom (filter keep L ++ extra) (ByIdx (ap - Z.of_nat i)) = Some (name_at core ap) /\
  get_atom (filter keep L ++ extra) (ById (name_at core ap)) = Some (name_at core ap).
Proof.
  intros R K C. set (n := Z.to_nat ap). assert (Hn : (n < length L)%nat) by lia.
  pose proof (split_at dflt_atom L n Hn) as S.
  assert (NE : nth_error (filter keep L ++ extra) (length (filter keep (firstn n L))) = Some (nth n L dflt_atom)).
  { rewrite S at 1. apply nth_error_filter_shift. exact K. }
  split.
  - unfold get_atom. replace (ap - Z.of_nat i)%Z with (Z.of_nat (length (filter keep (firstn n L)))) by (subst n; lia).
    assert (LT : (length (filter keep (firstn n L)) < length (filter keep L ++ extra))%nat) by (apply nth_error_Some; rewrite NE; discriminate).
    destruct (Z.leb_spec 0 (Z.of_nat (length (filter keep (firstn n L))))) as [_|]; [|lia].
    destruct (Z.ltb_spec (Z.of_nat (length (filter keep (firstn n L)))) (Z.of_nat (length (filter keep L ++ extra)))) as [_|]; [|lia].
    rewrite Nat2Z.id, NE. reflexivity.
  - unfold get_atom. destruct (pmem (name_at core ap) (ids (filter keep L ++ extra))) eqn:E; [reflexivity|].
    exfalso. assert (pmem (name_at core ap) (ids (filter keep L ++ extra)) = true); [|congruence].
    apply pmem_spec. unfold name_at. fold L. fold n. apply in_ids. eapply nth_error_In. exact NE.
Qed.

Lemma assemble_minus_i_gen : forall (aps : list Z) (subs : list (cstep (F:=F))) (deriv : frag F) (i : nat) (keep : atom -> bool) (extra : list atom),
  fr_atoms deriv = filter keep L ++ extra ->
  StronglySorted Z.lt aps ->
  loop_inv keep i aps ->
  (forall st a2, In st subs -> first_ap (fr_atoms (fst (fst st))) = Some a2 -> ~ In a2 (ids L)) ->
  assemble_minus_i o nb rC deriv i aps subs = assemble_named o nb rC deriv (map (name_at core) aps) subs.
Proof.
  induction aps as [|ap aps IH]; intros subs deriv i keep extra EA SS INV SUB.
  - destruct subs; reflexivity.
  - destruct subs as [|[[sub rc] w] subs]; [reflexivity|]. simpl.
    destruct (first_ap (fr_atoms sub)) as [a2|] eqn:FA; [|reflexivity].
    destruct (INV ap (or_introl eq_refl)) as [R [K C]].
    destruct (index_hits keep i ap extra R K C) as [G1 G2].
    rewrite (join_sel_ext o deriv sub (ByIdx (ap - Z.of_nat i)) (ById (name_at core ap)) (ById a2) (ById a2) (combine_opts nb rC rc) w)
      by (first [reflexivity | rewrite EA, G1, G2; reflexivity]).
    destruct (join o deriv sub (ById (name_at core ap)) (ById a2) (combine_opts nb rC rc) w) as [d'|] eqn:J; [|reflexivity].
    destruct (join_inv o _ _ _ _ _ _ _ J) as [a1' [a2' [a1r [a2r [r1 [p1 [r2 [p2 [RS [EP _]]]]]]]]]].
    assert (E1 : a1' = name_at core ap).
    { pose proof (rs_a1 _ _ _ _ _ _ _ _ _ _ _ _ RS) as H. rewrite EA, G2 in H. congruence. }
    assert (E2 : a2' = a2).
    { pose proof (rs_a2 _ _ _ _ _ _ _ _ _ _ _ _ RS) as H. simpl in H. destruct (pmem a2 (ids (fr_atoms sub))); congruence. }
    subst a1' a2'.
    assert (A2 : ~ In a2 (ids L)) by (eapply (SUB (sub, rc, w)); [now left | exact FA]).
    set (a1 := name_at core ap) in *.
    apply (IH subs d' (S i) (fun a => keep a && keep_atom a1 a2 a)%bool (filter (keep_atom a1 a2) (extra ++ fr_atoms sub))).
    + rewrite EP. unfold product. cbv zeta. simpl fr_atoms. rewrite EA, <- app_assoc, filter_app, filter_filter. reflexivity.
    + inversion SS; assumption.
    + intros ap' Hin. destruct (INV ap' (or_intror Hin)) as [R' [K' C']].
      assert (LT : (ap < ap')%Z). { inversion SS as [|? ? _ FA']; subst. rewrite Forall_forall in FA'. now apply FA'. }
      set (n := Z.to_nat ap) in *. set (n' := Z.to_nat ap') in *.
      assert (Hn : (n < length L)%nat) by (subst n; lia). assert (Hn' : (n' < length L)%nat) by (subst n'; lia).
      split; [exact R'|]. split.
      * rewrite K'. unfold keep_atom. subst a1. unfold name_at. fold L. fold n. fold n'.
        destruct (Pos.eqb_spec (a_id (nth n' L dflt_atom)) (a_id (nth n L dflt_atom))) as [E|_].
        -- apply (NoDup_nth_ids L n' n dflt_atom NDc Hn' Hn) in E. subst n n'. lia.
        -- destruct (Pos.eqb_spec (a_id (nth n' L dflt_atom)) a2) as [E|_]; [|reflexivity].
           exfalso. apply A2. rewrite <- E. apply in_ids. apply nth_In. exact Hn'.
      * assert (D : S (length (filter (fun a => keep a && keep_atom a1 a2 a)%bool (firstn n' L))) = length (filter keep (firstn n' L))).
        { subst a1. unfold name_at. fold L. fold n. apply filter_drop_one.
          - rewrite ids_firstn. apply NoDup_firstn. exact NDc.
          - apply nth_in_firstn; [subst n n'; lia | exact Hn].
          - exact K.
          - intros y Hy E. apply A2. rewrite <- E. apply in_ids. eapply in_firstn. exact Hy. }
        lia.
    + intros st a2' Hst. apply (SUB st a2'). now right.
Qed.

(* The loop before the repair: when core_aps is ascending, `ap_i - i` addresses, at every step, the atom that was at
   position ap_i of the ORIGINAL core. *)
Theorem assemble_minus_i_addresses (aps : list Z) (subs : list (cstep (F:=F))) :
  StronglySorted Z.lt aps ->
  (forall ap, In ap aps -> (0 <= ap < Z.of_nat (length L))%Z) ->
  (forall st a2, In st subs -> first_ap (fr_atoms (fst (fst st))) = Some a2 -> ~ In a2 (ids L)) ->
  assemble_minus_i o nb rC core 0 aps subs = assemble_named o nb rC core (map (name_at core) aps) subs.
Proof.
  intros SS RG SUB. apply (assemble_minus_i_gen aps subs core 0%nat (fun _ => true) []); try assumption.
  - fold L. rewrite app_nil_r. clear. induction L; simpl; congruence.
  - intros ap Hin. split; [now apply RG|]. split; [reflexivity|].
    assert (E : forall l : list atom, filter (fun _ => true) l = l) by (clear; induction l; simpl; congruence).
    rewrite E, firstn_length. specialize (RG ap Hin). lia.
Qed.

(* ---- the repaired loop: shift = number of consumed attachment points that preceded ap_i ---- *)
Definition loop_inv' (keep : atom -> bool) (done : list Z) (aps : list Z) : Prop :=
  forall ap, In ap aps ->
    (0 <= ap < Z.of_nat (length L))%Z /\ keep (nth (Z.to_nat ap) L dflt_atom) = true /\
    (Z.of_nat (length (filter keep (firstn (Z.to_nat ap) L))) + shift_of done ap = ap)%Z.

Lemma index_hits' (keep : atom -> bool) (done : list Z) (ap : Z) (extra : list atom) :
  (0 <= ap < Z.of_nat (length L))%Z -> keep (nth (Z.to_nat ap) L dflt_atom) = true ->
  (Z.of_nat (length (filter keep (firstn (Z.to_nat ap) L))) + shift_of done ap = ap)%Z ->
  get_atom (filter keep L ++ extra) (ByIdx (ap - shift_of done ap)) = Some (name_at core ap) /\
  get_atom (filter keep L ++ extra) (ById (name_at core ap)) = Some (name_at core ap).
Proof.
  intros R K C. unfold shift_of in *.
  exact (index_hits keep (length (filter (fun j => Z.ltb j ap) done)) ap extra R K C).
Qed.

Lemma shift_of_snoc (done : list Z) (ap ap' : Z) :
  shift_of (done ++ [ap]) ap' = (shift_of done ap' + (if Z.ltb ap ap' then 1 else 0))%Z.
Proof. unfold shift_of. rewrite filter_app, app_length. simpl. destruct (Z.ltb ap ap'); simpl; lia. Qed.

Lemma firstn_ids_differ (n' n : nat) (y : atom) :
  (n' <= n)%nat -> (n < length L)%nat -> In y (firstn n' L) -> a_id y <> a_id (nth n L dflt_atom).
Proof.
  intros LE Hn Hy E.
  assert (Hy' : In y (firstn n L)) by (eapply firstn_le_incl; eauto).
  pose proof (split_at dflt_atom L n Hn) as SP.
  assert (ND' : NoDup (ids (firstn n L) ++ ids (nth n L dflt_atom :: skipn (S n) L))).
  { unfold ids. rewrite <- map_app, <- SP. exact NDc. }
  apply (NoDup_app_disjoint _ _ (a_id y) ND'); [now apply in_ids | rewrite E; now left].
Qed.

Lemma assemble_gen : forall (aps : list Z) (subs : list (cstep (F:=F))) (deriv : frag F) (done : list Z) (keep : atom -> bool) (extra : list atom),
  fr_atoms deriv = filter keep L ++ extra ->
  NoDup aps ->
  loop_inv' keep done aps ->
  (forall st a2, In st subs -> first_ap (fr_atoms (fst (fst st))) = Some a2 -> ~ In a2 (ids L)) ->
  assemble o nb rC deriv done aps subs = assemble_named o nb rC deriv (map (name_at core) aps) subs.
Proof.
  induction aps as [|ap aps IH]; intros subs deriv done keep extra EA NDa INV SUB.
  - destruct subs; reflexivity.
  - destruct subs as [|[[sub rc] w] subs]; [reflexivity|]. simpl.
    destruct (first_ap (fr_atoms sub)) as [a2|] eqn:FA; [|reflexivity].
    destruct (INV ap (or_introl eq_refl)) as [R [K C]].
    destruct (index_hits' keep done ap extra R K C) as [G1 G2].
    rewrite (join_sel_ext o deriv sub (ByIdx (ap - shift_of done ap)) (ById (name_at core ap)) (ById a2) (ById a2) (combine_opts nb rC rc) w)
      by (first [reflexivity | rewrite EA, G1, G2; reflexivity]).
    destruct (join o deriv sub (ById (name_at core ap)) (ById a2) (combine_opts nb rC rc) w) as [d'|] eqn:J; [|reflexivity].
    destruct (join_inv o _ _ _ _ _ _ _ J) as [a1' [a2' [a1r [a2r [r1 [p1 [r2 [p2 [RS [EP _]]]]]]]]]].
    assert (E1 : a1' = name_at core ap).
    { pose proof (rs_a1 _ _ _ _ _ _ _ _ _ _ _ _ RS) as H. rewrite EA, G2 in H. congruence. }
    assert (E2 : a2' = a2).
    { pose proof (rs_a2 _ _ _ _ _ _ _ _ _ _ _ _ RS) as H. simpl in H. destruct (pmem a2 (ids (fr_atoms sub))); congruence. }
    subst a1' a2'.
    assert (A2 : ~ In a2 (ids L)) by (eapply (SUB (sub, rc, w)); [now left | exact FA]).
    set (a1 := name_at core ap) in *.
    apply (IH subs d' (done ++ [ap]) (fun a => keep a && keep_atom a1 a2 a)%bool (filter (keep_atom a1 a2) (extra ++ fr_atoms sub))).
    + rewrite EP. unfold product. cbv zeta. simpl fr_atoms. rewrite EA, <- app_assoc, filter_app, filter_filter. reflexivity.
    + inversion NDa; assumption.
    + intros ap' Hin. destruct (INV ap' (or_intror Hin)) as [R' [K' C']].
      assert (NEa : ap <> ap') by (inversion NDa; subst; intros ->; contradiction).
      set (n := Z.to_nat ap) in *. set (n' := Z.to_nat ap') in *.
      assert (Hn : (n < length L)%nat) by (subst n; lia). assert (Hn' : (n' < length L)%nat) by (subst n'; lia).
      assert (NEn : n <> n') by (subst n n'; lia).
      split; [exact R'|]. split.
      * rewrite K'. unfold keep_atom. subst a1. unfold name_at. fold L. fold n.
        destruct (Pos.eqb_spec (a_id (nth n' L dflt_atom)) (a_id (nth n L dflt_atom))) as [E|_].
        -- apply (NoDup_nth_ids L n' n dflt_atom NDc Hn' Hn) in E. congruence.
        -- destruct (Pos.eqb_spec (a_id (nth n' L dflt_atom)) a2) as [E|_]; [|reflexivity].
           exfalso. apply A2. rewrite <- E. apply in_ids. apply nth_In. exact Hn'.
      * rewrite shift_of_snoc. destruct (Z.ltb_spec ap ap') as [LT|GE].
        -- assert (D : S (length (filter (fun a => keep a && keep_atom a1 a2 a)%bool (firstn n' L))) = length (filter keep (firstn n' L))).
           { subst a1. unfold name_at. fold L. fold n. apply filter_drop_one.
             - rewrite ids_firstn. apply NoDup_firstn. exact NDc.
             - apply nth_in_firstn; [subst n n'; lia | exact Hn].
             - exact K.
             - intros y Hy E. apply A2. rewrite <- E. apply in_ids. eapply in_firstn. exact Hy. }
           lia.
        -- assert (D : filter (fun a => keep a && keep_atom a1 a2 a)%bool (firstn n' L) = filter keep (firstn n' L)).
           { apply filter_ext_in'. intros y Hy. unfold keep_atom.
             assert (Y1 : Pos.eqb (a_id y) a1 = false).
             { apply Pos.eqb_neq. subst a1. unfold name_at. fold L. fold n. apply (firstn_ids_differ n' n y); [subst n n'; lia | exact Hn | exact Hy]. }
             assert (Y2 : Pos.eqb (a_id y) a2 = false).
             { apply Pos.eqb_neq. intros E. apply A2. rewrite <- E. apply in_ids. eapply in_firstn. exact Hy. }
             rewrite Y1, Y2. simpl. now rewrite andb_true_r. }
           rewrite D. lia.
    + intros st a2' Hst. apply (SUB st a2'). now right.
Qed.

(* For ANY order of core_aps (no attachment point named twice), the repaired index arithmetic addresses, at every
   step, the atom that was at position ap_i of the ORIGINAL core: the loop equals the loop that names the
   attachment points directly. *)
Theorem assemble_addresses (aps : list Z) (subs : list (cstep (F:=F))) :
  NoDup aps ->
  (forall ap, In ap aps -> (0 <= ap < Z.of_nat (length L))%Z) ->
  (forall st a2, In st subs -> first_ap (fr_atoms (fst (fst st))) = Some a2 -> ~ In a2 (ids L)) ->
  assemble o nb rC core [] aps subs = assemble_named o nb rC core (map (name_at core) aps) subs.
Proof.
  intros NDa RG SUB. apply (assemble_gen aps subs core [] (fun _ => true) []); try assumption.
  - fold L. rewrite app_nil_r. clear. induction L; simpl; congruence.
  - intros ap Hin. split; [now apply RG|]. split; [reflexivity|].
    assert (E : forall l : list atom, filter (fun _ => true) l = l) by (clear; induction l; simpl; congruence).
    rewrite E, firstn_length. unfold shift_of. simpl. specialize (RG ap Hin). lia.
Qed.
End Iterated.

(* ================================================================== the property, assembled *)
Lemma ids_filter_keep a1 a2 l x : In x (ids (filter (keep_atom a1 a2) l)) -> x <> a1 /\ x <> a2.
Proof.
  unfold ids. rewrite in_map_iff. intros [a [<- Ha]]. apply filter_In in Ha. destruct Ha as [_ K].
  unfold keep_atom in K. rewrite andb_true_iff, !negb_true_iff, !Pos.eqb_neq in K. exact K.
Qed.

(* ---- atoms and bonds (any field of coordinates) ---- *)
Theorem join_atoms_bonds {F : Type} (o : Fops F) (A B : frag F) (s1 s2 : asel) (op : jopts F) (w : jwit F) (P : frag F) :
  join o A B s1 s2 op w = Some P ->
  NoDup (ids (fr_atoms A) ++ ids (fr_atoms B)) -> wf_bonds A -> wf_bonds B ->
  exists a1 a2 a1r a2r,
    get_atom (fr_atoms A) s1 = Some a1 /\ get_atom (fr_atoms B) s2 = Some a2 /\
    first_neighbour (fr_bonds A) a1 = Some a1r /\ first_neighbour (fr_bonds B) a2 = Some a2r /\
    (fr_atoms P = filter (id_not a1) (fr_atoms A) ++ filter (id_not a2) (fr_atoms B) /\
     (forall a, In a (fr_atoms P) <-> (In a (fr_atoms A) \/ In a (fr_atoms B)) /\ a_id a <> a1 /\ a_id a <> a2) /\
     S (S (length (fr_atoms P))) = (length (fr_atoms A) + length (fr_atoms B))%nat /\
     NoDup (ids (fr_atoms P))) /\
    (fr_bonds P = filter (fun b => negb (incident a1 b)) (fr_bonds A) ++ filter (fun b => negb (incident a2 b)) (fr_bonds B)
                  ++ [mkBond a1r a2r (o_nb op)] /\
     (forall b, In b (fr_bonds P) <->
        ((In b (fr_bonds A) \/ In b (fr_bonds B)) /\ incident a1 b = false /\ incident a2 b = false) \/ b = mkBond a1r a2r (o_nb op)) /\
     S (length (fr_bonds P)) = (length (fr_bonds A) + length (fr_bonds B))%nat /\
     length (filter (same_ends a1r a2r) (fr_bonds P)) = 1%nat /\
     (forall b, In b (fr_bonds A) -> incident a1 b = true -> other_end a1 b = a1r) /\
     (forall b, In b (fr_bonds B) -> incident a2 b = true -> other_end a2 b = a2r)) /\
    (forall b, In b (fr_bonds P) -> In (b_a1 b) (ids (fr_atoms P)) /\ In (b_a2 b) (ids (fr_atoms P))) /\
    length (fr_coords P) = length (fr_atoms P).
Proof.
  intros J ND WA WB.
  destruct (join_inv o _ _ _ _ _ _ _ J) as [a1 [a2 [a1r [a2r [r1 [p1 [r2 [p2 [RS [EP [CL [I1 I2]]]]]]]]]]]].
  exists a1, a2, a1r, a2r.
  split; [apply (rs_a1 _ _ _ _ _ _ _ _ _ _ _ _ RS)|]. split; [apply (rs_a2 _ _ _ _ _ _ _ _ _ _ _ _ RS)|].
  split; [apply (rs_a1r _ _ _ _ _ _ _ _ _ _ _ _ RS)|]. split; [apply (rs_a2r _ _ _ _ _ _ _ _ _ _ _ _ RS)|].
  subst P.
  split; [exact (product_atoms o A B s1 s2 op w a1 a2 a1r a2r r1 p1 r2 p2 RS ND)|].
  split; [exact (product_bonds o A B s1 s2 op w a1 a2 a1r a2r r1 p1 r2 p2 RS ND WA WB)|].
  split.
  - intros b Hb. unfold product in Hb. cbv zeta in Hb. simpl fr_bonds in Hb. apply in_app_or in Hb. destruct Hb as [Hb|[<-|[]]].
    + apply CL, Hb.
    + simpl. split; assumption.
  - apply (product_rows o A B s1 s2 op w a1 a2 a1r a2r r1 p1 r2 p2 RS ND).
Qed.

(* ---- geometry ---- *)
Lemma moved_row {B C} (g : B -> C) (ap u : positive) (x : B) (L : list (positive * B)) :
  In (u, x) L -> u <> ap -> In (u, g x) (map (fun q => (fst q, g (snd q))) (filter (key_not ap) L)).
Proof.
  intros H NE. apply in_map_iff. exists (u, x). split; [reflexivity|]. apply filter_In. split; [exact H|].
  unfold key_not. simpl. now apply negb_true_iff, Pos.eqb_neq.
Qed.

Theorem join_rigid (A B : frag R) (s1 s2 : asel) (op : jopts R) (w : jwit R) (P : frag R) :
  join ROps A B s1 s2 op w = Some P ->
  NoDup (ids (fr_atoms A) ++ ids (fr_atoms B)) ->
  exists a1 a2 a1r a2r r1 p1 r2 p2,
    resolved A B s1 s2 a1 a2 a1r a2r r1 p1 r2 p2 /\
    let v1 := vsub ROps p1 r1 in let v2 := vsub ROps p2 r2 in let d := bond_len ROps op in
    (geom_ok v1 v2 w ->
     exists gA gB : vecR -> vecR,
       rigid_map gA /\ rigid_map gB /\
       rows P = map (fun q => (fst q, gA (snd q))) (filter (key_not a1) (rows A))
             ++ map (fun q => (fst q, gB (snd q))) (filter (key_not a2) (rows B)) /\
       In (a1r, vzero ROps) (rows P) /\
       In (a2r, vscale ROps (d / w_n1 w) v1) (rows P) /\
       norm2 ROps (vsub ROps (vscale ROps (d / w_n1 w) v1) (vzero ROps)) = d * d /\
       vsub ROps (gB p2) (gB r2) = vscale ROps (- (w_n2 w / w_n1 w)) v1).
Proof.
  intros J ND.
  destruct (join_inv ROps _ _ _ _ _ _ _ J) as [a1 [a2 [a1r [a2r [r1 [p1 [r2 [p2 [RS [EP [CL [I1 I2]]]]]]]]]]]].
  exists a1, a2, a1r, a2r, r1, p1, r2, p2. split; [exact RS|]. cbv zeta. intros G.
  set (v1 := vsub ROps p1 r1) in *. set (v2 := vsub ROps p2 r2) in *. set (d := bond_len ROps op).
  exists (place_A ROps r1),
         (place_B ROps (join_rot ROps v1 (w_n1 w) v2 (w_n2 w) (w_ov w)) (join_shift ROps v1 (w_n1 w) d) (join_twist ROps v1 (w_n1 w) (w_twist w)) r2).
  destruct (join_maps v1 v2 r1 r2 p2 w d G eq_refl) as [RA [RB [ZA [TB [BV [NB FC]]]]]].
  destruct (product_rows ROps A B s1 s2 op w a1 a2 a1r a2r r1 p1 r2 p2 RS ND) as [ER _]. cbv zeta in ER.
  fold v1 v2 d in ER. rewrite <- EP in ER.
  assert (N1 : a1r <> a1 /\ a1r <> a2) by (rewrite EP in I1; unfold product in I1; cbv zeta in I1; simpl fr_atoms in I1; now apply ids_filter_keep in I1).
  assert (N2 : a2r <> a1 /\ a2r <> a2) by (rewrite EP in I2; unfold product in I2; cbv zeta in I2; simpl fr_atoms in I2; now apply ids_filter_keep in I2).
  split; [exact RA|]. split; [exact RB|]. split; [exact ER|]. split; [|split; [|split]].
  - rewrite ER. apply in_or_app. left. rewrite <- ZA. apply moved_row; [|apply N1].
    apply coord_of_in_rows, (rs_r1 _ _ _ _ _ _ _ _ _ _ _ _ RS).
  - rewrite ER. apply in_or_app. right. rewrite <- TB. apply moved_row; [|apply N2].
    apply coord_of_in_rows, (rs_r2 _ _ _ _ _ _ _ _ _ _ _ _ RS).
  - rewrite <- TB, <- ZA. exact NB.
  - exact FC.
Qed.

(* what "rigid" buys, spelled out on the rows: any four atoms of one fragment (attachment point excluded) are
   found in the product at positions with the same mutual distances and the same signed volume *)
Theorem moved_fragment_shape (g : vecR -> vecR) (ap : positive) (LX LP pre post : list (positive * vecR)) :
  rigid_map g -> LP = pre ++ map (fun q => (fst q, g (snd q))) (filter (key_not ap) LX) ++ post ->
  forall u0 u1 u2 u3 x0 x1 x2 x3,
    In (u0, x0) LX -> In (u1, x1) LX -> In (u2, x2) LX -> In (u3, x3) LX ->
    u0 <> ap -> u1 <> ap -> u2 <> ap -> u3 <> ap ->
    exists y0 y1 y2 y3,
      In (u0, y0) LP /\ In (u1, y1) LP /\ In (u2, y2) LP /\ In (u3, y3) LP /\
      dist2 ROps y0 y1 = dist2 ROps x0 x1 /\
      signed_volume ROps y0 y1 y2 y3 = signed_volume ROps x0 x1 x2 x3.
Proof.
  intros [GD GV] -> u0 u1 u2 u3 x0 x1 x2 x3 H0 H1 H2 H3 N0 N1 N2 N3.
  exists (g x0), (g x1), (g x2), (g x3).
  repeat (split; [apply in_or_app; right; apply in_or_app; left; apply moved_row; assumption|]).
  split; [apply GD | apply GV].
Qed.

(* ---- charge / multiplicity ---- *)
Theorem join_charge_mult {F : Type} (o : Fops F) (A B : frag F) (s1 s2 : asel) (op : jopts F) (w : jwit F) (P : frag F) :
  join o A B s1 s2 op w = Some P ->
  fr_charge P = match o_charge op with Some q => q | None => (fr_charge A + fr_charge B)%Z end /\
  (override (o_mult op) (fr_mult A + fr_mult B - 1) <> 0%Z ->
   fr_mult P = match o_mult op with Some m => m | None => (fr_mult A + fr_mult B - 1)%Z end) /\
  (override (o_mult op) (fr_mult A + fr_mult B - 1) = 0%Z -> fr_mult P = 1%Z).
Proof.
  intros J. destruct (join_inv o _ _ _ _ _ _ _ J) as [a1 [a2 [a1r [a2r [r1 [p1 [r2 [p2 [_ [-> _]]]]]]]]]].
  unfold product. cbv zeta. simpl fr_charge. simpl fr_mult.
  split; [apply join_charge_spec|]. split; [apply join_mult_spec | apply join_mult_zero].
Qed.

(* ---- no hidden state: the repaired choice of ov is a function of v1 and meets the hypotheses ---- *)
Theorem geom_ok_det (v1 v2 : vecR) (n1 n2 nort : R) (tw : option (R * R)) :
  0 < n1 -> n1 * n1 = norm2 ROps v1 -> 0 < n2 -> n2 * n2 = norm2 ROps v2 ->
  0 < nort -> nort * nort = norm2 ROps (det_ort ROps (vdiv ROps (vopp ROps v1) n1)) -> twist_ok tw ->
  geom_ok v1 v2 (mkWit n1 n2 (det_ov ROps v1 n1 nort) tw).
Proof.
  intros H1 E1 H2 E2 Hn En T. destruct (det_ov_valid v1 n1 nort H1 E1 Hn En) as [U O].
  unfold geom_ok. simpl. repeat split; assumption.
Qed.
