(* C12: theorems about Model/Join.v. *)
From Coq Require Import Reals Lra List ZArith Lia Bool PArith.
From Molli Require Import Common.Field3 Common.Field3R Model.Rot Proofs.Rot Proofs.RotMotion Model.Join.
Import ListNotations.

Lemma join_charge_spec (q : option Z) (qA qB : Z) :
  join_charge q qA qB = match q with Some v => v | None => (qA + qB)%Z end.
Proof. unfold join_charge, or_int, override. destruct q as [v|]; [destruct (Z.eqb_spec v 0)|destruct (Z.eqb_spec (qA + qB) 0)]; lia. Qed.
