(* A whole writing session through the translated code -- writing().__enter__, one put, writing().__exit__ -- IS the model's
   b_begin_w ; b_put ; b_end_w, for every backend state, file, key and value (any buffer size: the put may be flushed at
   once, or at the end of the session, or fail there), and ends with the lock released. *)
From Coq Require Import NArith ZArith Arith List Bool String Lia.
Import ListNotations.
From Molli Require Import Model.UKV Model.MiniPy Model.Backend Model.MiniPyB Gen.UKVCode Gen.BackendCode
  Proofs.UKVBase Proofs.UKVCode Proofs.MiniPyFrame Proofs.BackendCode Proofs.BackendBuffer Proofs.BackendMode Proofs.BackendSession.
Open Scope string_scope.
Open Scope N_scope.

(* the caller's local variables survive every statement that is not a bare pop-loop: calls restore them *)
Fixpoint keeps_loc (c : bstmt) : bool :=
  match c with
  | BWhilePop _ _ _ => false
  | BSeq a b | BIf _ a b | BTryReraise a b | BTryFinally a b => keeps_loc a && keeps_loc b
  | _ => true
  end.

Lemma bexec_loc fuel : forall c s, keeps_loc c = true -> bloc (fst (bexec fuel c s)) = bloc s.
Proof.
  induction c; intros s0 H; cbn [keeps_loc] in H; try discriminate; cbn [bexec]; try reflexivity;
    try (apply andb_true_iff in H; destruct H as [H1 H2]).
  - pose proof (IHc1 s0 H1) as A. destruct (bexec fuel c1 s0) as [s1 o]. cbn [fst] in A.
    destruct o; try exact A. rewrite (IHc2 s1 H2). exact A.
  - match goal with |- context [beval_bool ?ss ?e] => destruct (beval_bool ss e) as [[]|] end; auto.
  - destruct (beval_bytes s0 k), (beval_bytes s0 v); reflexivity.
  - destruct (beval_bytes s0 k); reflexivity.
  - destruct (beval_bytes s0 k), (beval_bytes s0 v); reflexivity.
  - destruct (bexec fuel c s0) as [s1 o]. reflexivity.
  - destruct (bexec fuel c s0) as [s1 o]. reflexivity.
  - pose proof (IHc1 s0 H1) as A. destruct (bexec fuel c1 s0) as [s1 o]. cbn [fst] in A.
    destruct o; try exact A. pose proof (IHc2 s1 H2) as B. destruct (bexec fuel c2 s1) as [s2 o2]. cbn [fst] in B.
    destruct o2; cbn [fst]; rewrite B; exact A.
  - destruct (negb (has_inner s0)); [reflexivity|]. destruct (bind_inner s0 (inner s0) args) as [st1|]; [|reflexivity].
    destruct (exec fuel p st1) as [st' o]. reflexivity.
  - destruct (negb (has_inner s0)); [reflexivity|]. destruct (bind_inner s0 (inner s0) args) as [st1|]; [|reflexivity].
    destruct (exec fuel p st1) as [st' o]. reflexivity.
  - destruct (negb (has_inner s0)); [reflexivity|]. destruct (eval (inner s0) e) as [[]|]; reflexivity.
  - destruct (bind_inner s0 _ args) as [st1|]; [|reflexivity]. destruct (exec fuel p st1) as [st' o]. destruct o; reflexivity.
  - pose proof (IHc1 s0 H1) as A. destruct (bexec fuel c1 s0) as [s1 o]. cbn [fst] in A.
    pose proof (IHc2 s1 H2) as B. destruct (bexec fuel c2 s1) as [s2 o2]. cbn [fst] in *. rewrite B. exact A.
  - destruct (bheld s0); reflexivity.
  - destruct (bheld s0) as [w'|]; [|reflexivity]. destruct (Bool.eqb w w'); reflexivity.
Qed.

(* b_put keeps the UKVFile and grows the buffer by at most the new item *)
Lemma b_put_shape f b k v f' b' r :
  b_put f b k v = (f', b', r) -> has_uk b' = has_uk b /\ (List.length (queue b') <= S (List.length (queue b)))%nat /\ st b' = st b.
Proof.
  unfold b_put. destruct (ro b); [intros E; inversion E; subst; repeat split; lia|].
  set (b1 := mkb _ _ _ _ _ _ _ _).
  destruct (bufsize b1 <? used b1)%Z.
  - destruct (flush f b1) as [[f1 b2] e] eqn:Ef. intros E. inversion E; subst.
    unfold flush in Ef. apply flush_loop_takes_apart in Ef; [|lia].
    destruct Ef as [w [d [E1 [_ [E3 [_ [_ E6]]]]]]].
    split; [rewrite E6; reflexivity|]. split; [|rewrite E3; reflexivity].
    assert (L : List.length (queue b1) = S (List.length (queue b))) by (cbn [b1 queue]; rewrite app_length; simpl; lia).
    rewrite E1, !app_length in L. lia.
  - intros E. inversion E; subst. cbn [b1 has_uk queue st]. rewrite app_length. simpl. repeat split; lia.
Qed.

Theorem writing_session_put_code fuel s f b hh1 hh2 bb0 rest k v :
  (List.length f < fuel)%nat -> (S (S (List.length (queue b))) < fuel)%nat -> BRep s f b -> ro b = false ->
  f = (mk_header hh1 hh2 bb0 ++ rest)%list -> List.length hh1 = 16%nat -> len hh2 < 65536 -> len bb0 < 4294967296 ->
  (has_uk b = false -> uk b = h0) -> (forall k0, last (uk b) = Some k0 -> lookup (toc (uk b)) k0 <> None) ->
  bheld s = None -> (has_inner s = true -> has_mode s) ->
  bloc s "key" = Some k -> bloc s "value" = Some v ->
  let '(s1, o1) := bexec fuel writing_enter_prog s in
  let '(s2, o2) := bexec fuel bput_prog s1 in
  let '(s3, o3) := bexec fuel writing_exit_prog s2 in
  let '(f1, b1, _) := b_begin_w f b in
  let '(f2, b2, r2) := b_put f1 b1 k v in
  let '(f3, b3, r3) := b_end_w f2 b2 in
  o1 = BONormal /\ o2 = bout_of_res r2 /\ o3 = bout_of_res r3 /\ BRep s3 f3 b3 /\ bheld s3 = None /\ st b3 = SIdle.
Proof.
  intros Hfuel Hq R Hro Hf L1 L2 L0 Hh0 Hin Hl Hm Lk Lv.
  pose proof (writing_enter_code fuel s f b hh1 hh2 bb0 rest Hfuel R Hf L1 L2 L0 Hh0 Hin Hl) as E.
  assert (KL : keeps_loc writing_enter_prog = true) by reflexivity.
  pose proof (bexec_loc fuel writing_enter_prog s KL) as Hloc.
  destruct (bexec fuel writing_enter_prog s) as [s1 o1]. cbn [fst] in Hloc.
  unfold b_begin_w in *. rewrite Hro in *. destruct (open_ f (uk b) MA) as [f1 h1].
  set (b1 := mkb h1 true (queue b) (keys h1) (used b) (bufsize b) false SWriting) in *.
  destruct E as [E1 [E2 [E3 E4]]]. cbn [bout_of_res] in E1.
  assert (Hi1 : has_inner s1 = true) by (rewrite (br_has _ _ _ E2); reflexivity).
  pose proof (E4 Hm Hi1) as M1.
  (* the put *)
  assert (Hq1 : (S (List.length (queue b1)) < fuel)%nat) by (cbn [b1 queue]; lia).
  assert (Lk1 : bloc s1 "key" = Some k) by (rewrite Hloc; exact Lk).
  assert (Lv1 : bloc s1 "value" = Some v) by (rewrite Hloc; exact Lv).
  pose proof (bput_code fuel s1 f1 b1 k v Hq1 E2 Lk1 Lv1) as P.
  pose proof (bexec_held fuel bput_prog s1 eq_refl) as Hh2.
  pose proof (bexec_inner_attr "mode" fuel bput_prog s1 eq_refl) as Hm2.
  destruct (bexec fuel bput_prog s1) as [s2 o2]. cbn [fst] in Hh2, Hm2.
  destruct (b_put f1 b1 k v) as [[f2 b2] r2] eqn:Ep. destruct P as [P1 P2].
  destruct (b_put_shape _ _ _ _ _ _ _ Ep) as [S1 [S2 S3]].
  assert (M2 : has_mode s2) by (unfold has_mode in *; rewrite Hm2; exact M1).
  assert (Hl2 : bheld s2 = Some true) by (rewrite Hh2; exact E3).
  assert (Hq2 : (List.length (queue b2) < fuel)%nat) by (cbn [b1 queue] in S2; lia).
  assert (Hu2 : has_uk b2 = true) by (rewrite S1; reflexivity).
  pose proof (writing_exit_code fuel s2 f2 b2 Hq2 P1 Hu2 M2 Hl2) as X.
  destruct (bexec fuel writing_exit_prog s2) as [s3 o3].
  unfold b_end_w in *. destruct (flush f2 b2) as [[f3 b3'] e3].
  destruct X as [X1 [X2 X3]].
  split; [exact E1|]. split; [exact P2|]. split; [exact X1|]. split; [exact X2|]. split; [exact X3|reflexivity].
Qed.
