(* C11: theorems about Model/Rot.v over the real numbers. *)
From Coq Require Import Reals Nsatz Lra Psatz List ZArith.
From Molli Require Import Common.Field3 Common.Field3R Model.Rot.
Import ListNotations.
Local Open Scope R_scope.

Ltac rot_unfold := cbv [rodrigues antiparallel rot_from_vectors skew axis_rot rot_from_axis dihedral_args].
(* turn the (single) division of the goal into a variable k with its defining equation k * d = 1 *)
Ltac inv_as_var Hd :=
  unfold Rdiv;
  match goal with
  | |- context [ / ?d ] =>
      let k := fresh "k" in let Hk := fresh "Hk" in
      set (k := / d); assert (Hk : k * d = 1) by (apply Rinv_l; exact Hd); clearbody k
  end.


(* NB: vectors are universally quantified in each statement (not Section variables) so that
   `vdestruct` can split them into coordinates. *)

Ltac unit_hyps := unfold unit in *; vdestruct; intros;
  repeat match goal with H : _ |- _ => progress f3_in H end.

(* ------------------------------------------------------------------ Rodrigues form *)
Lemma rod_orth (a b : vecR) : unit a -> unit b -> 1 + dot ROps a b <> 0 -> orth (rodrigues ROps a b).
Proof.
  unfold unit, orth. vdestruct. intros Ha Hb Hc. f3_in Ha. f3_in Hb. f3_in Hc.
  rot_unfold. f3. inv_as_var Hc. clear Hc. veq. all: nsatz.
Qed.
Lemma rod_det (a b : vecR) : unit a -> unit b -> 1 + dot ROps a b <> 0 -> det ROps (rodrigues ROps a b) = 1.
Proof.
  unfold unit. vdestruct. intros Ha Hb Hc. f3_in Ha. f3_in Hb. f3_in Hc.
  rot_unfold. f3. inv_as_var Hc. clear Hc. nsatz.
Qed.
Lemma rod_maps (a b : vecR) : unit a -> unit b -> 1 + dot ROps a b <> 0 -> vm ROps a (rodrigues ROps a b) = b.
Proof.
  unfold unit. vdestruct. intros Ha Hb Hc. f3_in Ha. f3_in Hb. f3_in Hc.
  rot_unfold. f3. inv_as_var Hc. clear Hc. veq. all: nsatz.
Qed.
Lemma rod_proper (a b : vecR) : unit a -> unit b -> 1 + dot ROps a b <> 0 -> proper (rodrigues ROps a b).
Proof. intros. split; [apply rod_orth | apply rod_det]; assumption. Qed.

(* ------------------------------------------------------------------ antiparallel branch *)
(* Bessel: the components of a unit vector along two orthonormal directions *)
Lemma bessel2 (a b ov : vecR) : unit a -> unit b -> unit ov -> dot ROps ov b = 0 ->
  dot ROps a ov * dot ROps a ov + dot ROps a b * dot ROps a b <= 1.
Proof.
  unfold unit. vdestruct. intros Ha Hb Ho Hob. f3_in Ha. f3_in Hb. f3_in Ho. f3_in Hob. f3.
  match goal with |- ?p * ?p + ?q * ?q <= 1 => set (P := p); set (Q := q) end.
  match type of Ha with ?a1 * ?a1 + ?a2 * ?a2 + ?a3 * ?a3 = 1 =>
  match type of Hb with ?b1 * ?b1 + ?b2 * ?b2 + ?b3 * ?b3 = 1 =>
  match type of Ho with ?o1 * ?o1 + ?o2 * ?o2 + ?o3 * ?o3 = 1 =>
    assert (E : 1 - (P * P + Q * Q) =
      (a1 - P * o1 - Q * b1) * (a1 - P * o1 - Q * b1) + (a2 - P * o2 - Q * b2) * (a2 - P * o2 - Q * b2)
      + (a3 - P * o3 - Q * b3) * (a3 - P * o3 - Q * b3)) by (subst P Q; nsatz);
    pose proof (Rle_0_sqr (a1 - P * o1 - Q * b1)) as S1;
    pose proof (Rle_0_sqr (a2 - P * o2 - Q * b2)) as S2;
    pose proof (Rle_0_sqr (a3 - P * o3 - Q * b3)) as S3
  end end end.
  unfold Rsqr in *. lra.
Qed.

(* so, once a.b <> 0 (in the code: a.b <= -1 + tol < 0), the first factor's denominator 1 + a.ov is not 0 *)
Lemma anti_denominator (a b ov : vecR) : unit a -> unit b -> unit ov -> dot ROps ov b = 0 ->
  dot ROps a b <> 0 -> 1 + dot ROps a ov <> 0.
Proof.
  intros Ha Hb Ho Hob Hab. pose proof (bessel2 a b ov Ha Hb Ho Hob) as B.
  set (p := dot ROps a ov) in *. set (q := dot ROps a b) in *.
  assert (0 < q * q) by (destruct (Rtotal_order q 0) as [L|[E|G]]; [nra | contradiction | nra]).
  nra.
Qed.

Lemma dot_comm (x y : vecR) : dot ROps x y = dot ROps y x.
Proof. vdestruct. f3. ring. Qed.

Lemma antiparallel_proper (a b ov : vecR) : unit a -> unit b -> unit ov -> dot ROps ov b = 0 ->
  1 + dot ROps a ov <> 0 -> proper (antiparallel ROps a b ov).
Proof.
  intros Ha Hb Ho Hob Hd. unfold antiparallel. apply proper_mmul.
  - apply rod_proper; assumption.
  - apply rod_proper; try assumption. rewrite Hob. lra.
Qed.
Lemma antiparallel_maps (a b ov : vecR) : unit a -> unit b -> unit ov -> dot ROps ov b = 0 ->
  1 + dot ROps a ov <> 0 -> vm ROps a (antiparallel ROps a b ov) = b.
Proof.
  intros Ha Hb Ho Hob Hd. unfold antiparallel. rewrite vm_mmul, rod_maps by assumption.
  apply rod_maps; try assumption. rewrite Hob. lra.
Qed.

(* ------------------------------------------------------------------ rotation_matrix_from_vectors *)
Lemma unit_vdiv (v : vecR) (n : R) : 0 < n -> n * n = norm2 ROps v -> unit (vdiv ROps v n).
Proof.
  unfold unit. vdestruct. intros Hn H. f3_in H. f3.
  assert (Hn' : n <> 0) by lra. inv_as_var Hn'. nsatz.
Qed.
Lemma dot_vdiv_r (x v : vecR) (n : R) : dot ROps x (vdiv ROps v n) = dot ROps x v / n.
Proof. vdestruct. f3. unfold Rdiv. ring. Qed.

Theorem rot_from_vectors_correct (tol : R) (v1 v2 ov : vecR) (n1 n2 : R) :
  0 <= tol < 1 ->
  0 < n1 -> n1 * n1 = norm2 ROps v1 -> 0 < n2 -> n2 * n2 = norm2 ROps v2 ->
  unit ov -> dot ROps ov v2 = 0 ->
  proper (rot_from_vectors ROps tol v1 n1 v2 n2 ov) /\
  vm ROps (vdiv ROps v1 n1) (rot_from_vectors ROps tol v1 n1 v2 n2 ov) = vdiv ROps v2 n2.
Proof.
  intros Htol Hn1 E1 Hn2 E2 Ho Hov.
  pose proof (unit_vdiv v1 n1 Hn1 E1) as Ua. pose proof (unit_vdiv v2 n2 Hn2 E2) as Ub.
  assert (Hob : dot ROps ov (vdiv ROps v2 n2) = 0) by (rewrite dot_vdiv_r, Hov; unfold Rdiv; ring).
  unfold rot_from_vectors.
  set (a := vdiv ROps v1 n1) in *. set (b := vdiv ROps v2 n2) in *.
  change (fleb ROps (dot ROps a b) (fadd ROps (fopp ROps (f1 ROps)) tol)) with (Rleb (dot ROps a b) (- (1) + tol)).
  destruct (Rleb (dot ROps a b) (- (1) + tol)) eqn:Br.
  - apply Rleb_true in Br.
    assert (Hd : 1 + dot ROps a ov <> 0) by (apply (anti_denominator a b ov); try assumption; lra).
    split; [apply antiparallel_proper | apply antiparallel_maps]; assumption.
  - apply Rleb_false in Br.
    assert (Hd : 1 + dot ROps a b <> 0) by lra.
    split; [apply rod_proper | apply rod_maps]; assumption.
Qed.

(* ------------------------------------------------------------------ rotation_matrix_from_axis *)
Lemma axis_orth (u : vecR) (s c : R) : unit u -> s * s + c * c = 1 -> orth (axis_rot ROps u s c).
Proof. unfold unit, orth. vdestruct. intros Hu Hsc. f3_in Hu. rot_unfold. f3. veq. all: nsatz. Qed.
Lemma axis_det (u : vecR) (s c : R) : unit u -> s * s + c * c = 1 -> det ROps (axis_rot ROps u s c) = 1.
Proof. unfold unit. vdestruct. intros Hu Hsc. f3_in Hu. rot_unfold. f3. nsatz. Qed.
Lemma axis_proper (u : vecR) (s c : R) : unit u -> s * s + c * c = 1 -> proper (axis_rot ROps u s c).
Proof. intros. split; [apply axis_orth | apply axis_det]; assumption. Qed.
(* the axis is fixed (no hypothesis on s, c needed) *)
Lemma axis_fixes (u : vecR) (s c : R) : vm ROps u (axis_rot ROps u s c) = u.
Proof. vdestruct. rot_unfold. f3. veq. all: ring. Qed.
Lemma axis_trace (u : vecR) (s c : R) : unit u -> trace ROps (axis_rot ROps u s c) = 1 + 2 * c.
Proof. unfold unit. vdestruct. intros Hu. f3_in Hu. rot_unfold. f3. nsatz. Qed.
(* the angle, including its sense.  For any x: the component of x across u keeps its length and is turned so
   that  x . (R x) = c |x_perp|^2 + (u.x)^2  and  u . (x  x  R x) = + s |x_perp|^2  for the COLUMN action R x
   (right-handed turn by the angle), hence  - s |x_perp|^2  for the ROW action x R used by `coords @ R`. *)
Lemma axis_cos (u x : vecR) (s c : R) : unit u ->
  dot ROps x (mv ROps (axis_rot ROps u s c) x)
  = c * (dot ROps x x - dot ROps u x * dot ROps u x) + dot ROps u x * dot ROps u x.
Proof. unfold unit. vdestruct. intros Hu. f3_in Hu. rot_unfold. f3. nsatz. Qed.
Lemma axis_sense_col (u x : vecR) (s c : R) : unit u ->
  triple ROps u x (mv ROps (axis_rot ROps u s c) x) = s * (dot ROps x x - dot ROps u x * dot ROps u x).
Proof. unfold unit. vdestruct. intros Hu. f3_in Hu. rot_unfold. f3. nsatz. Qed.
Lemma axis_sense_row (u x : vecR) (s c : R) : unit u ->
  triple ROps u x (vm ROps x (axis_rot ROps u s c)) = - s * (dot ROps x x - dot ROps u x * dot ROps u x).
Proof. unfold unit. vdestruct. intros Hu. f3_in Hu. rot_unfold. f3. nsatz. Qed.
Lemma axis_cos_row (u x : vecR) (s c : R) : unit u ->
  dot ROps x (vm ROps x (axis_rot ROps u s c))
  = c * (dot ROps x x - dot ROps u x * dot ROps u x) + dot ROps u x * dot ROps u x.
Proof. unfold unit. vdestruct. intros Hu. f3_in Hu. rot_unfold. f3. nsatz. Qed.

Lemma vm_vscale (k : R) (x : vecR) (M : matR) : vm ROps (vscale ROps k x) M = vscale ROps k (vm ROps x M).
Proof. vdestruct. f3. veq; ring. Qed.

Theorem rot_from_axis_correct (ax : vecR) (n s c : R) :
  0 < n -> n * n = norm2 ROps ax -> s * s + c * c = 1 ->
  let M := rot_from_axis ROps ax n s c in
  proper M /\ vm ROps ax M = ax /\ trace ROps M = 1 + 2 * c /\
  (forall x, dot ROps x (mv ROps M x) * (n * n) = c * (dot ROps x x * (n * n) - dot ROps ax x * dot ROps ax x) + dot ROps ax x * dot ROps ax x) /\
  (forall x, triple ROps ax x (mv ROps M x) * n = s * (dot ROps x x * (n * n) - dot ROps ax x * dot ROps ax x)).
Proof.
  intros Hn E Hsc M. pose proof (unit_vdiv ax n Hn E) as U. subst M. unfold rot_from_axis.
  set (u := vdiv ROps ax n) in *.
  assert (Hax : ax = vscale ROps n u).
  { subst u. destruct ax as [[x y] z]. f3. veq; field; lra. }
  assert (Hdot : forall x, dot ROps ax x = n * dot ROps u x).
  { intros x. rewrite Hax. destruct u as [[? ?] ?]. destruct x as [[? ?] ?]. f3. ring. }
  repeat split.
  - apply axis_orth; assumption.
  - apply axis_det; assumption.
  - rewrite Hax. rewrite vm_vscale, axis_fixes. reflexivity.
  - apply axis_trace; assumption.
  - intros x. rewrite Hdot, (axis_cos u x s c U). ring.
  - intros x. rewrite Hdot. pose proof (axis_sense_col u x s c U) as Sx.
    assert (T : triple ROps ax x (mv ROps (axis_rot ROps u s c) x) = n * triple ROps u x (mv ROps (axis_rot ROps u s c) x)).
    { rewrite Hax. generalize (mv ROps (axis_rot ROps u s c) x). intros y.
      destruct u as [[? ?] ?]. destruct x as [[? ?] ?]. destruct y as [[? ?] ?]. f3. ring. }
    rewrite T, Sx. ring.
Qed.
