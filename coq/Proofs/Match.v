(* C15: the reference enumerator of Model/Match.v returns exactly the induced embeddings
   (sound and complete w.r.t. a Prop-level definition), each once. *)
From Coq Require Import Arith List Bool NArith Lia.
From Molli Require Import Model.Graph Model.Match Proofs.Graph.
Import ListNotations.
Open Scope nat_scope.

(* ================================================================ the specification *)
Definition bonded (G : mgraph) (x y : nat) : Prop := exists b, In b (mg_bonds G) /\ mjoins b x y = true.

(* pattern atoms i, j and their images hi, hj: bonded iff bonded (inducedness), and every pattern bond
   between i and j is compatible with every bond between the images *)
Definition pair_spec (H P : mgraph) (i j hi hj : nat) : Prop :=
  (bonded P i j <-> bonded H hi hj) /\
  (forall e2 e1, In e2 (mg_bonds P) -> mjoins e2 i j = true ->
                 In e1 (mg_bonds H) -> mjoins e1 hi hj = true -> edge_match e1 e2 = Some true).

Definition img (f : list nat) (i : nat) : nat := nth i f 0.

(* f = [image of pattern atom 0; image of pattern atom 1; ...] is an induced embedding of P into H *)
Definition embedding (H P : mgraph) (f : list nat) : Prop :=
  length f = length (mg_atoms P) /\
  Forall (fun h => h < length (mg_atoms H)) f /\
  NoDup f /\                                                                   (* injective *)
  (forall i, i < length (mg_atoms P) -> node_match (atom_at H (img f i)) (atom_at P i) = true) /\
  (forall i j, i < length (mg_atoms P) -> j < length (mg_atoms P) -> i <> j ->
               pair_spec H P i j (img f i) (img f j)).

(* partial embeddings: the first k pattern atoms, pairs taken with i < j *)
Definition pemb (H P : mgraph) (k : nat) (f : list nat) : Prop :=
  length f = k /\
  Forall (fun h => h < length (mg_atoms H)) f /\
  NoDup f /\
  (forall i, i < k -> node_match (atom_at H (img f i)) (atom_at P i) = true) /\
  (forall i j, i < j -> j < k -> pair_spec H P i j (img f i) (img f j)).

(* ================================================================ boolean checks = specification *)
Lemma joins_sym b x y : joins b x y = joins b y x.
Proof. unfold joins. apply orb_comm. Qed.
Lemma mjoins_sym b x y : mjoins b x y = mjoins b y x.
Proof. apply joins_sym. Qed.

Lemma bonded_sym G x y : bonded G x y -> bonded G y x.
Proof. intros [b [Hb Hj]]. exists b. split; [exact Hb|]. now rewrite mjoins_sym. Qed.

Lemma pair_spec_sym H P i j hi hj : pair_spec H P i j hi hj -> pair_spec H P j i hj hi.
Proof.
  intros [Hb He]. split.
  - split; intros Hx; apply bonded_sym; apply Hb; now apply bonded_sym.
  - intros e2 e1 H2 J2 H1 J1. apply He; auto; now rewrite mjoins_sym.
Qed.

Lemma has_bond_spec G x y : has_bond G x y = true <-> bonded G x y.
Proof. unfold has_bond, bonded. apply existsb_exists. Qed.

Lemma edge_ok_spec e1 e2 : edge_ok e1 e2 = true <-> edge_match e1 e2 = Some true.
Proof. unfold edge_ok. destruct (edge_match e1 e2) as [[|]|]; split; congruence. Qed.

Lemma eqb_iff a b : Bool.eqb a b = true <-> (a = true <-> b = true).
Proof. destruct a, b; simpl; intuition discriminate. Qed.

Lemma imp_b a b : negb a || b = true <-> (a = true -> b = true).
Proof. destruct a, b; simpl; intuition discriminate. Qed.

Lemma pair_ok_spec H P i j hi hj : pair_ok H P i j hi hj = true <-> pair_spec H P i j hi hj.
Proof.
  unfold pair_ok, pair_spec. rewrite andb_true_iff, eqb_iff, !has_bond_spec, forallb_forall.
  split; intros [Hb He]; (split; [exact Hb|]).
  - intros e2 e1 H2 J2 H1 J1. specialize (He e2 H2). rewrite imp_b in He. specialize (He J2).
    rewrite forallb_forall in He. specialize (He e1 H1). rewrite imp_b in He. specialize (He J1).
    now apply edge_ok_spec.
  - intros e2 H2. apply imp_b. intros J2. apply forallb_forall. intros e1 H1. apply imp_b. intros J1.
    apply edge_ok_spec. now apply He.
Qed.

Lemma ok_new_spec H P f k h : ok_new H P f k h = true <->
  ~ In h f /\ node_match (atom_at H h) (atom_at P k) = true /\
  (forall i, i < k -> pair_spec H P i k (img f i) h).
Proof.
  unfold ok_new. rewrite !andb_true_iff, negb_true_iff, mem_false, forallb_forall.
  split.
  - intros [[Hn Hm] Hp]. split; [exact Hn|split; [exact Hm|]].
    intros i Hi. apply pair_ok_spec. apply Hp. apply in_seq. lia.
  - intros [Hn [Hm Hp]]. split; [split; [exact Hn|exact Hm]|].
    intros i Hi. apply in_seq in Hi. apply pair_ok_spec. apply Hp. lia.
Qed.

(* ================================================================ snoc lemmas *)
Lemma img_snoc_lt f h i : i < length f -> img (f ++ [h]) i = img f i.
Proof. intros Hi. unfold img. now apply app_nth1. Qed.
Lemma img_snoc_eq f h : img (f ++ [h]) (length f) = h.
Proof. unfold img. rewrite app_nth2; [|lia]. now rewrite Nat.sub_diag. Qed.

Lemma snoc_cases (f : list nat) k : length f = S k -> exists f' h, f = f' ++ [h] /\ length f' = k.
Proof.
  intros Hl. destruct (exists_last (l := f)) as [f' [h E]].
  - intros ->. discriminate.
  - exists f', h. split; [exact E|]. subst f. rewrite app_length in Hl. simpl in Hl. lia.
Qed.

Lemma pemb_snoc H P k f h : length f = k ->
  (pemb H P (S k) (f ++ [h]) <->
   pemb H P k f /\ h < length (mg_atoms H) /\ ~ In h f /\
   node_match (atom_at H h) (atom_at P k) = true /\
   (forall i, i < k -> pair_spec H P i k (img f i) h)).
Proof.
  intros Hl. subst k. unfold pemb. split.
  - intros (L & F & N & Hn & Hp).
    apply Forall_app in F. destruct F as [F Fh]. inversion Fh as [|x y Hh _]; subst x y.
    assert (Nf : NoDup f /\ ~ In h f).
    { apply NoDup_remove in N. rewrite app_nil_r in N. exact N. }
    destruct Nf as [Nf Nh].
    split; [split; [reflexivity|split; [exact F|split; [exact Nf|split]]]|split; [exact Hh|split; [exact Nh|split]]].
    + intros i Hi. specialize (Hn i (Nat.lt_lt_succ_r _ _ Hi)). rewrite img_snoc_lt in Hn by lia. exact Hn.
    + intros i j Hij Hj. specialize (Hp i j Hij (Nat.lt_lt_succ_r _ _ Hj)).
      rewrite !img_snoc_lt in Hp by lia. exact Hp.
    + specialize (Hn (length f) (Nat.lt_succ_diag_r _)). now rewrite img_snoc_eq in Hn.
    + intros i Hi. specialize (Hp i (length f) Hi (Nat.lt_succ_diag_r _)).
      rewrite img_snoc_eq, img_snoc_lt in Hp by lia. exact Hp.
  - intros ((L & F & N & Hn & Hp) & Hh & Nh & Hm & Hk).
    split; [rewrite app_length; simpl; lia|].
    split; [apply Forall_app; split; [exact F|constructor; [exact Hh|constructor]]|].
    split.
    { apply NoDup_app'; [exact N|constructor; [intros []|constructor]|].
      intros x Hx [<-|[]]. contradiction. }
    split.
    + intros i Hi. destruct (Nat.eq_dec i (length f)) as [->|Hne].
      * now rewrite img_snoc_eq.
      * rewrite img_snoc_lt by lia. apply Hn. lia.
    + intros i j Hij Hj. destruct (Nat.eq_dec j (length f)) as [->|Hne].
      * rewrite img_snoc_eq, img_snoc_lt by lia. now apply Hk.
      * rewrite !img_snoc_lt by lia. apply Hp; lia.
Qed.

(* ================================================================ the enumerator *)
Theorem enum_k_spec H P : forall k f, In f (enum_k H P k) <-> pemb H P k f.
Proof.
  induction k as [|k IH]; intros f; cbn [enum_k].
  - split.
    + intros [<-|[]]. unfold pemb. repeat split; auto; try constructor; intros; lia.
    + intros (L & _). apply length_zero_iff_nil in L. subst. now left.
  - rewrite in_flat_map. split.
    + intros [f' [Hf' Hin]]. apply in_map_iff in Hin. destruct Hin as [h [<- Hh]].
      apply filter_In in Hh. destruct Hh as [Hseq Hok]. apply in_seq in Hseq.
      apply IH in Hf'. assert (Hl : length f' = k) by apply Hf'.
      apply (pemb_snoc H P k f' h Hl). apply ok_new_spec in Hok. destruct Hok as (Nh & Hm & Hp).
      split; [exact Hf'|split; [lia|split; [exact Nh|split; [exact Hm|exact Hp]]]].
    + intros Hp. assert (Hl : length f = S k) by apply Hp.
      destruct (snoc_cases f k Hl) as [f' [h [-> Hl']]].
      apply (pemb_snoc H P k f' h Hl') in Hp. destruct Hp as (Hp' & Hh & Nh & Hm & Hk).
      exists f'. split; [now apply IH|]. apply in_map_iff. exists h. split; [reflexivity|]. apply filter_In. split.
      * apply in_seq. lia.
      * apply ok_new_spec. auto.
Qed.

Lemma pemb_embedding H P f : pemb H P (length (mg_atoms P)) f <-> embedding H P f.
Proof.
  unfold pemb, embedding. split; intros (L & F & N & Hn & Hp);
    (split; [exact L|split; [exact F|split; [exact N|split; [exact Hn|]]]]).
  - intros i j Hi Hj Hne. destruct (Nat.lt_ge_cases i j) as [Hlt|Hge].
    + now apply Hp.
    + apply pair_spec_sym. apply Hp; lia.
  - intros i j Hij Hj. apply Hp; lia.
Qed.

(* none invalid, none missed *)
Theorem enum_sound_complete H P f : In f (enum H P) <-> embedding H P f.
Proof. unfold enum. rewrite enum_k_spec. apply pemb_embedding. Qed.

(* ... and none twice *)
Lemma NoDup_map_snoc (f : list nat) (l : list nat) : NoDup l -> NoDup (map (fun h => f ++ [h]) l).
Proof.
  induction 1 as [|x l Hx Hn IH]; cbn [map]; constructor; [|exact IH].
  intros Hin. apply in_map_iff in Hin. destruct Hin as [y [E Hy]].
  apply app_inv_head in E. injection E as ->. contradiction.
Qed.

Lemma NoDup_filter {A} (p : A -> bool) (l : list A) : NoDup l -> NoDup (filter p l).
Proof.
  induction 1 as [|x l Hx Hn IH]; cbn [filter]; [constructor|].
  destruct (p x); [constructor; [|exact IH]|exact IH]. intros Hin. apply filter_In in Hin. tauto.
Qed.

Lemma NoDup_flat_map_snoc (F : list nat -> list nat) (L : list (list nat)) :
  NoDup L -> (forall f, NoDup (F f)) ->
  NoDup (flat_map (fun f => map (fun h => f ++ [h]) (F f)) L).
Proof.
  intros HL HF. induction HL as [|f L Hf HL IH]; cbn [flat_map]; [constructor|].
  apply NoDup_app'; [apply NoDup_map_snoc; apply HF|exact IH|].
  intros x Hx Hin. apply in_map_iff in Hx. destruct Hx as [h [<- Hh]].
  apply in_flat_map in Hin. destruct Hin as [f' [Hf' Hin]]. apply in_map_iff in Hin.
  destruct Hin as [h' [E Hh']]. apply app_inj_tail in E. destruct E as [-> _]. contradiction.
Qed.

Theorem enum_nodup H P : NoDup (enum H P).
Proof.
  unfold enum. induction (length (mg_atoms P)) as [|k IH]; cbn [enum_k].
  - constructor; [intros []|constructor].
  - apply NoDup_flat_map_snoc; [exact IH|]. intros f. apply NoDup_filter. apply seq_NoDup.
Qed.

(* ================================================================ the property's wording for plain patterns *)
(* a pattern atom without isotope / stereo constraint, a pattern bond without stereo / label constraint
   whose type is Unknown or the default Single, searched in a molecule all of whose bonds have a type of
   value >= 1 (anything but Unknown): the predicates reduce to "same element, or the pattern element is
   Unknown" and "always". *)
Definition plain_atom (a : matom) : Prop := ma_iso a = None /\ ma_stereo a = 0%N.
Definition plain_bond (e : mbond) : Prop :=
  mb_stereo e = 0%N /\ mb_label e = None /\ (mb_btype e = 0%N \/ mb_btype e = 1%N).
Definition typed_host (H : mgraph) : Prop := forall e, In e (mg_bonds H) -> (1 <= mb_btype e)%N.

Lemma node_match_plain a1 a2 : plain_atom a2 ->
  (node_match a1 a2 = true <-> ma_el a2 = 0%N \/ ma_el a1 = ma_el a2).
Proof.
  intros [Hi Hs]. unfold node_match. rewrite Hi, Hs. cbn [andb negb N.eqb].
  rewrite N.eqb_refl. cbn [negb]. rewrite andb_false_r.
  destruct (N.eqb (ma_el a2) 0) eqn:E0; cbn [negb andb].
  - apply N.eqb_eq in E0. split; auto.
  - apply N.eqb_neq in E0. destruct (N.eqb (ma_el a1) (ma_el a2)) eqn:E1; cbn [negb].
    + apply N.eqb_eq in E1. split; auto.
    + apply N.eqb_neq in E1. split; [discriminate|]. intros [?|?]; contradiction.
Qed.

Lemma edge_match_plain e1 e2 : plain_bond e2 -> (1 <= mb_btype e1)%N -> edge_match e1 e2 = Some true.
Proof.
  intros (Hs & Hl & Hb) Hge. unfold edge_match. rewrite Hs, Hl. cbn [N.eqb negb andb].
  destruct Hb as [-> | ->]; [reflexivity|].
  destruct (N.ltb (mb_btype e1) 1) eqn:E; [|reflexivity]. apply N.ltb_lt in E. lia.
Qed.

(* the statement of C15 verbatim: injective maps that respect elements (Unknown matches any), send bonded
   pattern atoms to bonded atoms and non-bonded ones to non-bonded atoms *)
Definition plain_embedding (H P : mgraph) (f : list nat) : Prop :=
  length f = length (mg_atoms P) /\
  Forall (fun h => h < length (mg_atoms H)) f /\
  NoDup f /\
  (forall i, i < length (mg_atoms P) ->
     ma_el (atom_at P i) = 0%N \/ ma_el (atom_at H (img f i)) = ma_el (atom_at P i)) /\
  (forall i j, i < length (mg_atoms P) -> j < length (mg_atoms P) -> i <> j ->
     (bonded P i j <-> bonded H (img f i) (img f j))).

Theorem enum_plain H P f :
  (forall i, i < length (mg_atoms P) -> plain_atom (atom_at P i)) ->
  (forall e, In e (mg_bonds P) -> plain_bond e) -> typed_host H ->
  (In f (enum H P) <-> plain_embedding H P f).
Proof.
  intros Ha Hb Ht. rewrite enum_sound_complete. unfold embedding, plain_embedding.
  split; intros (L & F & N & Hn & Hp); (split; [exact L|split; [exact F|split; [exact N|split]]]).
  - intros i Hi. apply node_match_plain; auto.
  - intros i j Hi Hj Hne. apply (Hp i j); auto.
  - intros i Hi. apply node_match_plain; auto.
  - intros i j Hi Hj Hne. split; [apply (Hp i j); auto|].
    intros e2 e1 H2 _ H1 _. apply edge_match_plain; auto.
Qed.

(* ================================================================ the tabulated edge predicate *)
Lemma edge_agree_nth : forall ps obs, edge_agree ps obs = true ->
  length obs = length ps /\
  forall k e1 e2, nth_error ps k = Some (e1, e2) -> supported_bt (mb_btype e2) = true ->
                  nth_error obs k = Some (code_of_edge (edge_match e1 e2)).
Proof.
  induction ps as [|[a1 a2] ps IH]; intros [|o obs] H; cbn [edge_agree] in H; try discriminate.
  - split; [reflexivity|]. intros [|k] e1 e2 Hk; discriminate.
  - apply andb_true_iff in H. destruct H as [H0 H]. destruct (IH _ H) as [HL Hn].
    split; [cbn [length]; now rewrite HL|]. intros [|k] e1 e2 Hk Hs; cbn [nth_error] in *.
    + injection Hk as -> ->. rewrite Hs in H0. cbn [negb orb] in H0. apply N.eqb_eq in H0. now rewrite H0.
    + now apply Hn.
Qed.

(* with a supported pattern no comparison raises *)
Lemma edge_match_defined e1 e2 : supported_bt (mb_btype e2) = true -> exists r, edge_match e1 e2 = Some r.
Proof.
  unfold supported_bt, edge_match. cbn [existsb]. rewrite !orb_true_iff, !N.eqb_eq.
  intros Hs.
  repeat (destruct Hs as [E|Hs];
          [rewrite E; cbn [N.eqb Pos.eqb]; try (destruct (N.ltb _ _)); try (destruct (negb _)); eauto|]).
  discriminate Hs.
Qed.
