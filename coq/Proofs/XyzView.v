(* C08: written objects that are VIEWS (a selection of a parent's atoms in selection order).  Every write of a view
   session reads back as the selection of the parent's state at that moment; atom j of what is read back is the
   parent's atom sel_j with ITS OWN coordinates; rows taken in the parent's order do not have that property. *)
From Coq Require Import List Bool Arith NArith ZArith Ascii String Lia.
From Molli Require Import Common.ParseStr Model.Parse Model.XyzText Model.XyzEdit Model.XyzView Proofs.Parse Proofs.XyzText.
Import ListNotations.
Local Open Scope list_scope.

Theorem xyz_view_session_roundtrip names syms : vocab_ok names syms = true -> forall vname sel steps g,
  Forall2 (fun out exp => forall ls, out = Some ls -> exists ms, exp = Some ms /\ load_xyz names ls = Ok ms)
          (run_view syms vname sel g steps) (view_expect vname sel g steps).
Proof.
  intros Hv vname sel. induction steps as [|s steps IH]; intros g; cbn [run_view view_expect]; [constructor|].
  destruct s as [o| |].
  - apply IH.
  - constructor; [|apply IH]. intros ls H. unfold write_view in H.
    destruct (view_geom vname sel g) as [v|]; [|discriminate]. cbn [option_map].
    eexists. split; [reflexivity|]. now apply (xyz_roundtrip names syms _ _ Hv) in H.
  - constructor; [|apply IH]. intros ls H. eexists. split; [reflexivity|].
    now apply (xyz_roundtrip names syms _ _ Hv) in H.
Qed.

Lemma select_length {A} sel (l xs : list A) : select sel l = Some xs -> List.length xs = List.length sel.
Proof.
  revert xs. induction sel as [|i r IH]; intros xs H; cbn [select] in H.
  - now inversion H.
  - destruct (nth_error l i) as [x|]; [|discriminate]. destruct (select r l) as [ys|]; [|discriminate].
    inversion H; subst. simpl. f_equal. now apply IH.
Qed.

Lemma select_nth {A} sel (l xs : list A) : select sel l = Some xs ->
  forall j i, nth_error sel j = Some i -> exists a, nth_error l i = Some a /\ nth_error xs j = Some a.
Proof.
  revert xs. induction sel as [|i0 r IH]; intros xs H j i Hj; cbn [select] in H.
  - destruct j; discriminate.
  - destruct (nth_error l i0) as [x|] eqn:E0; [|discriminate]. destruct (select r l) as [ys|] eqn:E1; [|discriminate].
    inversion H; subst. destruct j as [|j]; simpl in Hj.
    + inversion Hj; subst. exists x. split; [exact E0|reflexivity].
    + simpl. now apply (IH ys eq_refl j i).
Qed.

(* order: atom j of what is read back is the parent's atom sel_j -- its element and ITS coordinate row *)
Theorem xyz_view_order names syms vname sel g ls : vocab_ok names syms = true -> write_view syms vname sel g = Some ls ->
  exists m, load_xyz names ls = Ok [m] /\ m_natoms m = Z.of_nat (List.length sel) /\
            List.length (m_elems m) = List.length sel /\ List.length (m_coords m) = List.length sel /\
            forall j i, nth_error sel j = Some i ->
              exists a, nth_error (wg_atoms g) i = Some a /\ nth_error (m_elems m) j = Some (wa_elem a) /\
                        nth_error (m_coords m) j = Some (dec_val (wa_x a), dec_val (wa_y a), dec_val (wa_z a)).
Proof.
  intros Hv H. unfold write_view, view_geom in H.
  destruct (select sel (wg_atoms g)) as [xs|] eqn:E; cbn [option_map] in H; [|discriminate].
  apply (xyz_roundtrip names syms _ _ Hv) in H. cbn [map] in H.
  eexists. split; [exact H|]. pose proof (select_length _ _ _ E) as L.
  unfold geom_mol. cbn [m_natoms m_elems m_coords wg_atoms]. rewrite !map_length, L.
  repeat split. intros j i Hj. destruct (select_nth _ _ _ E j i Hj) as [a [Ha Hx]].
  exists a. split; [exact Ha|]. split.
  - now rewrite nth_error_map, Hx.
  - now rewrite nth_error_map, Hx.
Qed.

(* the two sides of a view session have one entry per write *)
Lemma view_lengths syms vname sel steps : forall g,
  List.length (run_view syms vname sel g steps) = List.length (view_expect vname sel g steps).
Proof. induction steps as [|s steps IH]; intros g; [reflexivity|]. destruct s; cbn [run_view view_expect]; simpl; auto. Qed.

(* rows taken in the parent's order under atoms kept in selection order: the atoms read back carry other atoms'
   coordinates as soon as the selection is not ascending *)
Definition refute_parent : wgeom :=
  mk_wgeom [] [mk_watom 6 (false, 0%N) (false, 0%N) (false, 0%N); mk_watom 8 (false, 1210000%N) (false, 0%N) (false, 0%N);
               mk_watom 7 (true, 700000%N) (false, 1150000%N) (false, 0%N)].
Theorem view_parent_order_refuted :
  exists v w, view_geom [] [2; 0]%nat refute_parent = Some v /\ masked_geom [] [2; 0]%nat refute_parent = Some w /\
              m_elems (geom_mol v) = m_elems (geom_mol w) /\ m_coords (geom_mol v) <> m_coords (geom_mol w) /\
              view_geom [] [0; 2]%nat refute_parent = masked_geom [] [0; 2]%nat refute_parent.
Proof.
  eexists. eexists. split; [vm_compute; reflexivity|]. split; [vm_compute; reflexivity|].
  split; [vm_compute; reflexivity|]. split; [|vm_compute; reflexivity].
  vm_compute. intros H. discriminate H.
Qed.
