(* C18 -- lemmas about Model/Jobmap.v *)
From Coq Require Import List Bool NArith ZArith String Ascii Lia Arith.
Import ListNotations.
From Molli Require Import Model.Job Proofs.Job Model.Jobmap.
Local Open Scope string_scope.

(* ------------------------------------------------------------------ lists *)
Lemma mem_spec x l : mem x l = true <-> In x l.
Proof.
  unfold mem. rewrite existsb_exists. split.
  - intros [y [Hy E]]. apply String.eqb_eq in E. now subst.
  - intro H. exists x. split; [exact H|apply String.eqb_refl].
Qed.

Lemma mem_false x l : mem x l = false <-> ~ In x l.
Proof. rewrite <- mem_spec. destruct (mem x l); split; congruence. Qed.

Lemma nodup_app_intro {A} (a b : list A) : NoDup a -> NoDup b -> (forall x, In x a -> ~ In x b) -> NoDup (a ++ b)%list.
Proof.
  induction a as [|x a IH]; intros Ha Hb Hd; simpl; [exact Hb|].
  inversion Ha as [|? ? Hx Ha']; subst. constructor.
  - rewrite in_app_iff. intros [H|H]; [contradiction|]. apply (Hd x); [now left|exact H].
  - apply IH; try assumption. intros y Hy. apply Hd. now right.
Qed.

Lemma nodup_app_elim {A} (a b : list A) : NoDup (a ++ b)%list -> NoDup a /\ NoDup b /\ (forall x, In x a -> ~ In x b).
Proof.
  induction a as [|x a IH]; simpl; intro H.
  - repeat split; [constructor|exact H|intros ? []].
  - inversion H as [|? ? Hx H']; subst. destruct (IH H') as (Ha & Hb & Hd).
    repeat split.
    + constructor; [|exact Ha]. intro Hin. apply Hx. apply in_or_app. now left.
    + exact Hb.
    + intros y [<-|Hy]; [intro Hin; apply Hx; apply in_or_app; now right|now apply Hd].
Qed.

Lemma nodup_filter {A} (g : A -> bool) l : NoDup l -> NoDup (filter g l).
Proof.
  induction l as [|a l IH]; simpl; intro H; [constructor|].
  inversion H as [|? ? Ha H']; subst.
  destruct (g a); [constructor; [rewrite filter_In; tauto|now apply IH]|now apply IH].
Qed.

(* sub-families of a duplicate-free family of lists are duplicate free *)
Lemma nodup_flat_map_sub {A B} (f f' : A -> list B) (h : A -> bool) l :
  (forall a x, In x (f' a) -> In x (f a)) -> (forall a, NoDup (f a) -> NoDup (f' a)) ->
  NoDup (flat_map f l) -> NoDup (flat_map f' (filter h l)).
Proof.
  intros Hsub Hnd. induction l as [|a l IH]; simpl; intro H; [constructor|].
  apply nodup_app_elim in H. destruct H as (Ha & Hl & Hd).
  destruct (h a); simpl; [|now apply IH].
  apply nodup_app_intro; [now apply Hnd|now apply IH|].
  intros x Hx Hin. apply in_flat_map in Hin. destruct Hin as [b [Hb Hxb]].
  apply filter_In in Hb. destruct Hb as [Hb _].
  apply (Hd x); [now apply Hsub|]. apply in_flat_map. exists b. split; [exact Hb|now apply Hsub].
Qed.

Lemma flat_map_unique {A B} (f : A -> list B) l : NoDup (flat_map f l) ->
  forall a b x, In a l -> In b l -> In x (f a) -> In x (f b) -> a = b.
Proof.
  induction l as [|c l IH]; simpl; intros H a b x Ha Hb Hxa Hxb; [destruct Ha|].
  apply nodup_app_elim in H. destruct H as (Hc & Hl & Hd).
  destruct Ha as [<-|Ha], Hb as [<-|Hb].
  - reflexivity.
  - exfalso. apply (Hd x Hxa). apply in_flat_map. now exists b.
  - exfalso. apply (Hd x Hxb). apply in_flat_map. now exists a.
  - now apply (IH Hl a b x).
Qed.

Definition key_is (k : string) (kl : string * nat) : bool := String.eqb k (fst kl).

Lemma find_none_notin k (l : list (string * nat)) : ~ In k (map fst l) -> find (key_is k) l = None.
Proof.
  induction l as [|a l IH]; simpl; intro H; [reflexivity|].
  unfold key_is at 1. destruct (String.eqb k (fst a)) eqn:E.
  - apply String.eqb_eq in E. exfalso. apply H. now left.
  - apply IH. tauto.
Qed.

Lemma find_key_in k (l : list (string * nat)) kl : NoDup (map fst l) -> In kl l -> fst kl = k -> find (key_is k) l = Some kl.
Proof.
  induction l as [|a l IH]; simpl; intros Hnd Hin Hk; [destruct Hin|].
  inversion Hnd as [|? ? Ha Hnd']; subst.
  unfold key_is at 1. destruct Hin as [->|Hin].
  - now rewrite String.eqb_refl.
  - destruct (String.eqb (fst kl) (fst a)) eqn:E; [|now apply IH].
    apply String.eqb_eq in E. exfalso. apply Ha. rewrite <- E. now apply in_map.
Qed.

Lemma find_key_some k (l : list (string * nat)) kl : find (key_is k) l = Some kl -> In kl l /\ fst kl = k.
Proof.
  intro H. apply find_some in H. destruct H as [Hin E]. unfold key_is in E. apply String.eqb_eq in E. now split.
Qed.

Lemma dhas_dget {V} k (d : list (string * V)) : dhas k d = false <-> dget k d = None.
Proof. unfold dhas. destruct (dget k d); split; congruence. Qed.

(* ================================================================== the run *)
Section JobmapFacts.
  Variable outcome : string -> N -> okind.
  Notation exec_one := (exec_one outcome).
  Notation fresh := (fresh outcome).
  Notation jobmap := (jobmap outcome).

  Lemma cnt_exec_one p st a nm : cnt (exec_one p st a) nm = if String.eqb nm a then (cnt st a + 1)%N else cnt st nm.
  Proof.
    unfold cnt at 1. simpl. rewrite dget_dset. destruct (String.eqb nm a) eqn:E; [|reflexivity].
    reflexivity.
  Qed.

  (* dispatch: every item of the run list is executed once, nothing else is touched *)
  Lemma exec_fold p l : forall st, NoDup l ->
    let st' := fold_left (exec_one p) l st in
    js_src st' = js_src st /\ js_dst st' = js_dst st
    /\ (forall nm, dget nm (js_cache st') = if mem nm l then Some (COut (fresh p st nm)) else dget nm (js_cache st))
    /\ (forall nm, cnt st' nm = if mem nm l then (cnt st nm + 1)%N else cnt st nm).
  Proof.
    induction l as [|a l IH]; intros st Hnd; cbv zeta; simpl fold_left.
    - repeat split.
    - inversion Hnd as [|? ? Ha Hnd']; subst.
      destruct (IH (exec_one p st a) Hnd') as (Hs & Hd & Hc & Hn). cbv zeta in *.
      split; [exact Hs|]. split; [exact Hd|]. split.
      + intro nm. rewrite Hc. unfold mem. simpl. fold (mem nm l).
        destruct (String.eqb nm a) eqn:E; simpl.
        * apply String.eqb_eq in E. subst nm. apply mem_false in Ha. rewrite Ha. apply dget_dset_same.
        * destruct (mem nm l) eqn:Em.
          -- unfold Jobmap.fresh. rewrite cnt_exec_one, E. reflexivity.
          -- apply dget_dset_other. intro; subst. now rewrite String.eqb_refl in E.
      + intro nm. rewrite Hn. unfold mem. simpl. fold (mem nm l). rewrite cnt_exec_one.
        destruct (String.eqb nm a) eqn:E; simpl.
        * apply String.eqb_eq in E. subst nm. apply mem_false in Ha. now rewrite Ha.
        * reflexivity.
  Qed.

  (* finalisation: a work item enters the destination iff all its outputs are good; other keys keep their entry *)
  Lemma finalise_fold p cache td : forall d, NoDup (map fst td) ->
    forall k, dget k (fold_left (finalise p cache) td d) =
      match find (key_is k) td with
      | Some kl => match all_good cache (names p kl) with Some v => Some v | None => dget k d end
      | None => dget k d
      end.
  Proof.
    induction td as [|kl0 r IH]; intros d Hnd k; simpl; [reflexivity|].
    inversion Hnd as [|? ? Hk Hnd']; subst.
    rewrite IH by exact Hnd'. unfold key_is at 2.
    destruct (String.eqb k (fst kl0)) eqn:E.
    - apply String.eqb_eq in E. subst k. rewrite find_none_notin by exact Hk.
      unfold finalise. destruct (all_good cache (names p kl0)); [apply dget_dset_same|reflexivity].
    - assert (Hd : dget k (finalise p cache d kl0) = dget k d).
      { unfold finalise. destruct (all_good cache (names p kl0)); [|reflexivity].
        apply dget_dset_other. intro; subst. now rewrite String.eqb_refl in E. }
      rewrite Hd. reflexivity.
  Qed.

  Lemma todo_keys_nodup st : NoDup (map fst (js_src st)) -> NoDup (map fst (todo st)).
  Proof.
    unfold todo. induction (js_src st) as [|a l IH]; simpl; intro H; [constructor|].
    inversion H as [|? ? Ha H']; subst.
    destruct (negb (dhas (fst a) (js_dst st))); simpl; [|now apply IH].
    constructor; [|now apply IH]. intro Hin. apply Ha.
    apply in_map_iff in Hin. destruct Hin as [x [Hx Hin]]. apply filter_In in Hin. apply in_map_iff. exists x. tauto.
  Qed.

  Lemma find_todo st k : NoDup (map fst (js_src st)) ->
    find (key_is k) (todo st) = match dget k (js_dst st) with Some _ => None | None => find (key_is k) (js_src st) end.
  Proof.
    intro Hnd. destruct (dget k (js_dst st)) as [v|] eqn:Ed.
    - destruct (find (key_is k) (todo st)) as [kl|] eqn:Ef; [|reflexivity].
      apply find_key_some in Ef. destruct Ef as [Hin Hk]. unfold todo in Hin. apply filter_In in Hin.
      destruct Hin as [_ Hn]. rewrite Hk in Hn. unfold dhas in Hn. rewrite Ed in Hn. discriminate.
    - destruct (find (key_is k) (js_src st)) as [kl|] eqn:Ef.
      + apply find_key_some in Ef. destruct Ef as [Hin Hk].
        apply find_key_in; [now apply todo_keys_nodup| |exact Hk].
        unfold todo. apply filter_In. split; [exact Hin|]. rewrite Hk. unfold dhas. now rewrite Ed.
      + apply find_none_notin. intro Hin. apply in_map_iff in Hin. destruct Hin as [x [Hx Hin]].
        unfold todo in Hin. apply filter_In in Hin. destruct Hin as [Hin _].
        assert (Hf : find (key_is k) (js_src st) = Some x) by now apply find_key_in.
        congruence.
  Qed.

  (* executed = to_be_done minus valid cache *)
  Lemma in_runlist p st nm : In nm (runlist p st) <->
    exists kl, In kl (js_src st) /\ dget (fst kl) (js_dst st) = None /\ In nm (names p kl)
               /\ valid p (dget nm (js_cache st)) = false.
  Proof.
    unfold runlist. rewrite in_flat_map. split.
    - intros [kl [Hkl Hnm]]. unfold todo in Hkl. apply filter_In in Hkl. destruct Hkl as [Hin Hd].
      apply filter_In in Hnm. destruct Hnm as [Hn Hv]. exists kl. repeat split; try assumption.
      + apply dhas_dget. now destruct (dhas (fst kl) (js_dst st)).
      + now destruct (valid p (dget nm (js_cache st))).
    - intros [kl (Hin & Hd & Hn & Hv)]. exists kl. split.
      + unfold todo. apply filter_In. split; [exact Hin|]. apply dhas_dget in Hd. now rewrite Hd.
      + apply filter_In. split; [exact Hn|]. now rewrite Hv.
  Qed.

  Definition all_names (p : jparams) (st : jstate) : list string := flat_map (names p) (js_src st).

  Lemma runlist_nodup p st : NoDup (all_names p st) -> NoDup (runlist p st).
  Proof.
    unfold all_names, runlist, todo. apply nodup_flat_map_sub.
    - intros a x H. apply filter_In in H. tauto.
    - intros a H. now apply nodup_filter.
  Qed.

  (* ---- the whole run, pointwise *)
  Theorem jobmap_spec p st : NoDup (map fst (js_src st)) -> NoDup (runlist p st) ->
    let st' := jobmap p st in
    js_src st' = js_src st
    /\ (forall nm, cnt st' nm = if mem nm (runlist p st) then (cnt st nm + 1)%N else cnt st nm)
    /\ (forall nm, dget nm (js_cache st') =
                   if mem nm (runlist p st) then Some (COut (fresh p st nm)) else dget nm (js_cache st))
    /\ (forall k, dget k (js_dst st') =
          match dget k (js_dst st) with
          | Some v => Some v
          | None => match find (key_is k) (js_src st) with
                    | Some kl => all_good (js_cache st') (names p kl)
                    | None => None
                    end
          end).
  Proof.
    intros Hk Hr. cbv zeta. unfold Jobmap.jobmap. cbv zeta.
    destruct (exec_fold p (runlist p st) st Hr) as (Hs & Hd & Hc & Hn). cbv zeta in *.
    set (st1 := fold_left (exec_one p) (runlist p st) st) in *. simpl.
    split; [exact Hs|]. split; [exact Hn|]. split; [exact Hc|].
    intro k. rewrite finalise_fold by now apply todo_keys_nodup.
    rewrite find_todo by exact Hk. rewrite Hd.
    destruct (dget k (js_dst st)) as [v|] eqn:Ed; [reflexivity|].
    destruct (find (key_is k) (js_src st)) as [kl|]; [|reflexivity].
    now destruct (all_good (js_cache st1) (names p kl)).
  Qed.

  (* ---- consequences *)
  Lemma all_good_some cache l v : all_good cache l = Some v -> forall nm, In nm l -> good (dget nm cache) <> None.
  Proof.
    revert v. induction l as [|a l IH]; intros v H nm Hin; [destruct Hin|].
    simpl in H. destruct (good (dget a cache)) as [o|] eqn:Eg; [|discriminate].
    destruct (all_good cache l) as [w|] eqn:Ea; [|discriminate].
    destruct Hin as [<-|Hin]; [congruence|now apply (IH w)].
  Qed.

  Lemma all_good_total cache l : (forall nm, In nm l -> good (dget nm cache) <> None) -> exists v, all_good cache l = Some v.
  Proof.
    induction l as [|a l IH]; intro H; simpl; [now eexists|].
    destruct (good (dget a cache)) as [o|] eqn:Eg; [|exfalso; apply (H a); [now left|exact Eg]].
    destruct IH as [w Hw]; [intros nm Hn; apply H; now right|]. rewrite Hw. now eexists.
  Qed.

  Lemma fresh_valid_iff p st nm : valid p (Some (COut (fresh p st nm))) = true <-> outcome nm (cnt st nm) = OSucceed.
  Proof.
    unfold Jobmap.fresh, valid. destruct (outcome nm (cnt st nm)) as [|[c|c]|[c|c]|]; simpl; rewrite ?String.eqb_refl, ?orb_true_r; simpl;
      split; intro H; try reflexivity; try discriminate.
  Qed.

  Lemma fresh_good_iff p st nm : good (Some (COut (fresh p st nm))) <> None <-> outcome nm (cnt st nm) = OSucceed.
  Proof.
    unfold Jobmap.fresh, good. destruct (outcome nm (cnt st nm)) as [|[c|c]|[c|c]|]; simpl; split; intro H; try reflexivity; try discriminate; try congruence.
  Qed.

  (* entries already in the destination (source keys or not) are never changed *)
  Theorem dst_preserved p st k v : NoDup (map fst (js_src st)) -> NoDup (runlist p st) ->
    dget k (js_dst st) = Some v -> dget k (js_dst (jobmap p st)) = Some v.
  Proof. intros Hk Hr H. destruct (jobmap_spec p st Hk Hr) as (_ & _ & _ & Hd). rewrite Hd, H. reflexivity. Qed.

  (* keys that are in neither library never appear *)
  Theorem dst_no_foreign p st k : NoDup (map fst (js_src st)) -> NoDup (runlist p st) ->
    dget k (js_dst st) = None -> ~ In k (map fst (js_src st)) -> dget k (js_dst (jobmap p st)) = None.
  Proof.
    intros Hk Hr H Hn. destruct (jobmap_spec p st Hk Hr) as (_ & _ & _ & Hd). rewrite Hd, H.
    now rewrite find_none_notin.
  Qed.

  (* a work item enters the destination iff every one of its outputs (fresh or validly cached) reports success and
     carries the return file; its value is the processed outputs *)
  Theorem dst_new p st kl : NoDup (map fst (js_src st)) -> NoDup (runlist p st) ->
    In kl (js_src st) -> dget (fst kl) (js_dst st) = None ->
    dget (fst kl) (js_dst (jobmap p st)) = all_good (js_cache (jobmap p st)) (names p kl).
  Proof.
    intros Hk Hr Hin H. destruct (jobmap_spec p st Hk Hr) as (_ & _ & _ & Hd). rewrite Hd, H.
    now rewrite (find_key_in (fst kl) (js_src st) kl Hk Hin eq_refl).
  Qed.

  (* stale (other input), failed, damaged or absent cached outputs of a work item are recomputed *)
  Theorem stale_recomputed p st kl nm : In kl (js_src st) -> dget (fst kl) (js_dst st) = None -> In nm (names p kl) ->
    (dget nm (js_cache st) = None \/ dget nm (js_cache st) = Some CCorrupt
     \/ (exists o, dget nm (js_cache st) = Some (COut o) /\ (o_code o <> 0%Z \/ (jp_strict p = true /\ o_arg o <> jp_arg p)))) ->
    In nm (runlist p st).
  Proof.
    intros Hin Hd Hn Hc. apply in_runlist. exists kl. repeat split; try assumption.
    destruct Hc as [->|[->|[o [-> Ho]]]]; try reflexivity. simpl.
    destruct Ho as [Ho|[Hs Ho]].
    - apply Z.eqb_neq in Ho. rewrite Ho. apply andb_false_r.
    - rewrite Hs. simpl. rewrite eqb_false_ne by exact Ho. reflexivity.
  Qed.

  (* ---- resume *)
  Definition failed (k : okind) : Prop := k <> OSucceed.

  Lemma src_jobmap p st : js_src (jobmap p st) = js_src st.
  Proof.
    unfold Jobmap.jobmap. cbv zeta. simpl.
    generalize (runlist p st). intro l. revert st. induction l as [|a l IH]; intro st; simpl; [reflexivity|].
    now rewrite IH.
  Qed.

  (* a rerun with the same arguments executes exactly the items whose execution failed in the previous run *)
  Theorem resume p st nm : NoDup (map fst (js_src st)) -> NoDup (all_names p st) ->
    In nm (runlist p (jobmap p st)) <-> In nm (runlist p st) /\ failed (outcome nm (cnt st nm)).
  Proof.
    intros Hk Ha. pose proof (runlist_nodup p st Ha) as Hr.
    destruct (jobmap_spec p st Hk Hr) as (Hs & _ & Hc & Hd). cbv zeta in *.
    rewrite !in_runlist. rewrite src_jobmap. split.
    - intros [kl (Hin & Hdn & Hn & Hv)].
      assert (Hd0 : dget (fst kl) (js_dst st) = None).
      { rewrite Hd in Hdn. now destruct (dget (fst kl) (js_dst st)). }
      rewrite Hc in Hv. destruct (mem nm (runlist p st)) eqn:Em.
      + split; [exists kl; apply mem_spec, in_runlist in Em; destruct Em as [kl' (H1 & H2 & H3 & H4)];
                repeat split; try assumption; exact H4|].
        intro Hok. apply fresh_valid_iff with (p := p) in Hok. congruence.
      + exfalso. apply mem_false in Em. apply Em. apply in_runlist. exists kl. now repeat split.
    - intros [[kl (Hin & Hd0 & Hn & Hv)] Hf].
      assert (Em : mem nm (runlist p st) = true).
      { apply mem_spec, in_runlist. exists kl. now repeat split. }
      exists kl. repeat split; try assumption.
      + rewrite Hd, Hd0. rewrite (find_key_in (fst kl) (js_src st) kl Hk Hin eq_refl).
        destruct (all_good (js_cache (jobmap p st)) (names p kl)) as [v|] eqn:Eg; [|reflexivity].
        exfalso. apply (all_good_some _ _ _ Eg nm Hn). rewrite Hc, Em.
        destruct (good (Some (COut (fresh p st nm)))) eqn:E; [|reflexivity].
        exfalso. apply Hf. apply (fresh_good_iff p st nm). congruence.
      + rewrite Hc, Em. destruct (valid p (Some (COut (fresh p st nm)))) eqn:E; [|reflexivity].
        exfalso. apply Hf. now apply (fresh_valid_iff p st nm).
  Qed.

  (* ---- computed once *)
  (* an item is settled for the arguments p when it is in the destination or all its outputs are validly cached *)
  Definition settled (p : jparams) (st : jstate) (kl : string * nat) : Prop :=
    dget (fst kl) (js_dst st) <> None \/ (forall nm, In nm (names p kl) -> valid p (dget nm (js_cache st)) = true).

  Lemma settled_not_run p st kl nm : NoDup (all_names p st) -> In kl (js_src st) -> settled p st kl ->
    In nm (names p kl) -> ~ In nm (runlist p st).
  Proof.
    intros Ha Hin Hs Hn Hr. apply in_runlist in Hr. destruct Hr as [kl' (Hin' & Hd & Hn' & Hv)].
    assert (kl' = kl) by (apply (flat_map_unique (names p) (js_src st) Ha kl' kl nm); assumption). subst kl'.
    destruct Hs as [Hs|Hs]; [contradiction|]. rewrite (Hs nm Hn) in Hv. discriminate.
  Qed.

  Theorem settled_stable p st kl : NoDup (map fst (js_src st)) -> NoDup (all_names p st) -> In kl (js_src st) ->
    settled p st kl ->
    settled p (jobmap p st) kl /\ (forall nm, In nm (names p kl) -> cnt (jobmap p st) nm = cnt st nm).
  Proof.
    intros Hk Ha Hin Hs. pose proof (runlist_nodup p st Ha) as Hr.
    destruct (jobmap_spec p st Hk Hr) as (_ & Hn & Hc & Hd). cbv zeta in *.
    assert (Hnr : forall nm, In nm (names p kl) -> mem nm (runlist p st) = false).
    { intros nm Hnm. apply mem_false. now apply (settled_not_run p st kl nm). }
    split.
    - destruct Hs as [Hs|Hs].
      + left. rewrite Hd. now destruct (dget (fst kl) (js_dst st)).
      + right. intros nm Hnm. rewrite Hc, (Hnr nm Hnm). now apply Hs.
    - intros nm Hnm. now rewrite Hn, (Hnr nm Hnm).
  Qed.

  (* after a run, an item all of whose executions succeeded is settled *)
  Theorem success_settles p st kl : NoDup (map fst (js_src st)) -> NoDup (all_names p st) -> In kl (js_src st) ->
    (forall nm, In nm (names p kl) -> In nm (runlist p st) -> outcome nm (cnt st nm) = OSucceed) ->
    settled p (jobmap p st) kl.
  Proof.
    intros Hk Ha Hin Hok. pose proof (runlist_nodup p st Ha) as Hr.
    destruct (jobmap_spec p st Hk Hr) as (_ & _ & Hc & Hd). cbv zeta in *.
    destruct (dget (fst kl) (js_dst st)) as [v|] eqn:Ed.
    - left. rewrite Hd, Ed. discriminate.
    - right. intros nm Hnm. rewrite Hc. destruct (mem nm (runlist p st)) eqn:Em.
      + apply fresh_valid_iff. apply Hok; [exact Hnm|now apply mem_spec].
      + destruct (valid p (dget nm (js_cache st))) eqn:Ev; [reflexivity|].
        exfalso. apply mem_false in Em. apply Em. apply in_runlist. exists kl. now repeat split.
  Qed.

  (* ... and, when cached successes carry their return file, it is in the destination *)
  Definition cache_wf (st : jstate) : Prop :=
    forall nm o, dget nm (js_cache st) = Some (COut o) -> o_code o = 0%Z -> o_file o = true.

  Theorem success_completes p st kl : NoDup (map fst (js_src st)) -> NoDup (all_names p st) -> In kl (js_src st) ->
    cache_wf st ->
    (forall nm, In nm (names p kl) -> In nm (runlist p st) -> outcome nm (cnt st nm) = OSucceed) ->
    dget (fst kl) (js_dst (jobmap p st)) <> None.
  Proof.
    intros Hk Ha Hin Hwf Hok. pose proof (runlist_nodup p st Ha) as Hr.
    destruct (jobmap_spec p st Hk Hr) as (_ & _ & Hc & Hd). cbv zeta in *.
    rewrite Hd. destruct (dget (fst kl) (js_dst st)) as [v|] eqn:Ed; [discriminate|].
    rewrite (find_key_in (fst kl) (js_src st) kl Hk Hin eq_refl).
    destruct (all_good_total (js_cache (jobmap p st)) (names p kl)) as [v Hv]; [|rewrite Hv; discriminate].
    intros nm Hnm. rewrite Hc. destruct (mem nm (runlist p st)) eqn:Em.
    - apply fresh_good_iff. apply Hok; [exact Hnm|now apply mem_spec].
    - destruct (valid p (dget nm (js_cache st))) eqn:Ev.
      + unfold valid in Ev. destruct (dget nm (js_cache st)) as [[|o]|] eqn:Ec; try discriminate.
        apply andb_prop in Ev. destruct Ev as [_ Ev]. unfold good. rewrite Ev. apply Z.eqb_eq in Ev.
        rewrite (Hwf nm o Ec Ev). discriminate.
      + exfalso. apply mem_false in Em. apply Em. apply in_runlist. exists kl. now repeat split.
  Qed.

  Lemma cache_wf_jobmap p st : NoDup (map fst (js_src st)) -> NoDup (all_names p st) -> cache_wf st -> cache_wf (jobmap p st).
  Proof.
    intros Hk Ha Hwf nm o Hc Ho. pose proof (runlist_nodup p st Ha) as Hr.
    destruct (jobmap_spec p st Hk Hr) as (_ & _ & Hcc & _). cbv zeta in *.
    rewrite Hcc in Hc. destruct (mem nm (runlist p st)); [|now apply (Hwf nm o)].
    injection Hc as <-. unfold Jobmap.fresh in *. destruct (outcome nm (cnt st nm)) as [|[c|c]|[c|c]|]; simpl in *; try reflexivity; discriminate.
  Qed.

  (* ---- any number of reruns with the same arguments *)
  Fixpoint rerun (p : jparams) (n : nat) (st : jstate) : jstate :=
    match n with O => st | S m => rerun p m (jobmap p st) end.

  Lemma all_names_jobmap p st : all_names p (jobmap p st) = all_names p st.
  Proof. unfold all_names. now rewrite src_jobmap. Qed.

  (* once settled, an item is never executed again, however often jobmap is rerun: "computes each item once" *)
  Theorem computed_once p n : forall st kl, NoDup (map fst (js_src st)) -> NoDup (all_names p st) -> In kl (js_src st) ->
    settled p st kl -> forall nm, In nm (names p kl) -> cnt (rerun p n st) nm = cnt st nm.
  Proof.
    induction n as [|n IH]; intros st kl Hk Ha Hin Hs nm Hnm; simpl; [reflexivity|].
    destruct (settled_stable p st kl Hk Ha Hin Hs) as [Hs' Hc'].
    rewrite (IH (jobmap p st) kl); try assumption.
    - now apply Hc'.
    - now rewrite src_jobmap.
    - now rewrite all_names_jobmap.
    - now rewrite src_jobmap.
  Qed.
End JobmapFacts.

(* ------------------------------------------------------------------ when are the cache file names distinct? *)
Lemma names_single_nodup st arg strict : NoDup (map fst (js_src st)) -> NoDup (all_names (mk_jp arg strict false) st).
Proof.
  unfold all_names, names. simpl. induction (js_src st) as [|a l IH]; simpl; intro H; [constructor|].
  inversion H as [|? ? Ha H']; subst. constructor; [|now apply IH].
  intro Hin. apply Ha. apply in_flat_map in Hin. destruct Hin as [b [Hb [<-|[]]]]. now apply in_map.
Qed.

Lemma str_app_inj_len (a b s s' : string) : String.length s = String.length s' -> a ++ s = b ++ s' -> a = b /\ s = s'.
Proof.
  revert b. induction a as [|c a IH]; intros [|d b] Hl H; simpl in H.
  - now split.
  - exfalso. apply (f_equal String.length) in H. simpl in H. rewrite str_length_app in H. lia.
  - exfalso. apply (f_equal String.length) in H. simpl in H. rewrite str_length_app in H. lia.
  - injection H as -> H. destruct (IH b Hl H) as [-> ->]. now split.
Qed.

Lemma digit_inj i j : i < 10 -> j < 10 -> digit i = digit j -> i = j.
Proof.
  intros Hi Hj.
  destruct i as [|[|[|[|[|[|[|[|[|[|i]]]]]]]]]]; try lia;
  destruct j as [|[|[|[|[|[|[|[|[|[|j]]]]]]]]]]; try lia; simpl; intro H; try reflexivity; discriminate.
Qed.

Lemma digit_len i : i < 10 -> String.length ("." ++ digit i) = 2.
Proof. intro Hi. destruct i as [|[|[|[|[|[|[|[|[|[|i]]]]]]]]]]; try lia; reflexivity. Qed.

Lemma nodup_map_inj_in {A B} (f : A -> B) l : (forall x y, In x l -> In y l -> f x = f y -> x = y) -> NoDup l -> NoDup (map f l).
Proof.
  induction l as [|a l IH]; simpl; intros Hinj H; [constructor|].
  inversion H as [|? ? Ha H']; subst. constructor.
  - intro Hin. apply in_map_iff in Hin. destruct Hin as [x [Hx Hin]]. apply Ha.
    assert (x = a) by (apply Hinj; [now right|now left|exact Hx]). now subst.
  - apply IH; [|exact H']. intros x y Hx Hy. apply Hinj; now right.
Qed.

(* vectorised jobs: <key>.<i> for i < L <= 10 are pairwise distinct when the keys are *)
Lemma names_vec_nodup st arg strict : NoDup (map fst (js_src st)) -> (forall kl, In kl (js_src st) -> snd kl <= 10) ->
  NoDup (all_names (mk_jp arg strict true) st).
Proof.
  unfold all_names, names. simpl. induction (js_src st) as [|a l IH]; simpl; intros H HL; [constructor|].
  inversion H as [|? ? Ha H']; subst.
  assert (La : snd a <= 10) by (apply HL; now left).
  apply nodup_app_intro.
  - apply nodup_map_inj_in; [|apply seq_NoDup].
    intros x y Hx Hy E. apply in_seq in Hx. apply in_seq in Hy.
    apply str_app_inj_len in E; [|transitivity 2; [apply digit_len|symmetry; apply digit_len]; lia].
    destruct E as [_ E]. injection E as E. apply digit_inj; [lia|lia|exact E].
  - apply IH; [exact H'|]. intros kl Hkl. apply HL. now right.
  - intros x Hx Hin. apply in_map_iff in Hx. destruct Hx as [i [<- Hi]]. apply in_seq in Hi.
    apply in_flat_map in Hin. destruct Hin as [b [Hb Hxb]]. apply in_map_iff in Hxb. destruct Hxb as [j [E Hj]].
    apply in_seq in Hj. assert (Lb : snd b <= 10) by (apply HL; now right).
    apply str_app_inj_len in E; [|transitivity 2; [apply digit_len|symmetry; apply digit_len]; lia]. destruct E as [E _].
    apply Ha. rewrite <- E. now apply in_map.
Qed.

(* ================================================================== the commands of one execution *)
(* An execution is a success exactly when EVERY command succeeded (named or not, first or last) and the return file
   was produced by one of them (or existed). *)
Lemma run_cmds_succeed_iff l : forall file,
  run_cmds file l = OSucceed <-> (forall c, In c l -> cs_code c = None) /\ (file = true \/ exists c, In c l /\ cs_write c = true).
Proof.
  induction l as [|c r IH]; intro file; simpl.
  - destruct file; split.
    + intros _. split; [intros ? []|now left].
    + reflexivity.
    + discriminate.
    + intros [_ [H|[c [[] _]]]]. discriminate.
  - destruct (cs_code c) as [k|] eqn:Ec.
    + split.
      * destruct (file || cs_write c); discriminate.
      * intros [H _]. specialize (H c (or_introl eq_refl)). congruence.
    + rewrite IH. split.
      * intros [H1 H2]. split.
        -- intros c' [<-|Hc']; [exact Ec|now apply H1].
        -- destruct H2 as [H2|[c' [Hc' Hw]]].
           ++ apply orb_prop in H2. destruct H2 as [H2|H2]; [now left|right; exists c; split; [now left|exact H2]].
           ++ right. exists c'. split; [now right|exact Hw].
      * intros [H1 H2]. split.
        -- intros c' Hc'. apply H1. now right.
        -- destruct H2 as [->|[c' [[<-|Hc'] Hw]]].
           ++ now left.
           ++ left. rewrite Hw. apply orb_true_r.
           ++ right. now exists c'.
Qed.

(* a failing command anywhere in the list makes the execution a failure, whatever the commands after it would do *)
Lemma run_cmds_failing_command file l c : In c l -> cs_code c <> None -> run_cmds file l <> OSucceed.
Proof.
  intros Hin Hc H. apply run_cmds_succeed_iff in H. destruct H as [H _]. apply Hc. now apply H.
Qed.

(* the commands after the first failing one are irrelevant, and so is naming *)
Lemma run_cmds_stops file a c k b : (forall x, In x a -> cs_code x = None) -> cs_code c = Some k ->
  forall b', run_cmds file (a ++ c :: b) = run_cmds file (a ++ c :: b').
Proof.
  revert file. induction a as [|x a IH]; intros file Ha Hc b'; simpl.
  - now rewrite Hc.
  - rewrite (Ha x (or_introl eq_refl)). apply IH; [|exact Hc]. intros y Hy. apply Ha. now right.
Qed.

Definition unname (c : cstep) : cstep := mk_cs false (cs_write c) (cs_code c) (cs_crash c).
Lemma run_cmds_naming_irrelevant l : forall file, run_cmds file (map unname l) = run_cmds file l.
Proof. induction l as [|c r IH]; intro file; simpl; [reflexivity|]. destruct (cs_code c); [reflexivity|apply IH]. Qed.

(* ---- refinement: run_cmds is what the run_local model of C17 (Model/Job.v) reports for these commands *)
Section CmdsRunLocal.
  Variables rf payload : string.
  Variable hash : jobinput cstep -> string.
  Notation exec := (step_exec rf payload).

  Definition summary (c : Z) (file : bool) : okind :=
    match c with
    | Zpos k => if file then OFailFile (Exit k) else OFail (Exit k)
    | Zneg s => if file then OFailFile (Signal s) else OFail (Signal s)      (* the command was killed by signal s *)
    | Z0 => if file then OSucceed else OOmit
    end.

  Definition cmd_names (cs : list (cstep * option string)) : list string :=
    flat_map (fun c => match snd c with Some n => [n] | None => [] end) cs.
  (* the return file is not the capture file of a named command *)
  Definition rf_free (cs : list (cstep * option string)) : Prop :=
    forall c n, In c cs -> snd c = Some n -> rf <> n ++ ".out" /\ rf <> n ++ ".err".

  Lemma last_code_cons (s : step cstep) l : l <> [] -> last_code (s :: l) = last_code l.
  Proof.
    intro H. destruct (exists_last H) as [l' [x ->]]. unfold last_code. simpl. rewrite rev_unit. reflexivity.
  Qed.

  Lemma step_file nm c e f : (forall n, nm = Some n -> rf <> n ++ ".out" /\ rf <> n ++ ".err") ->
    dhas rf (close_caps nm (exec c e (open_caps nm f))) = dhas rf f || cs_write c.
  Proof.
    intro H. unfold dhas. rewrite (close_caps_other _ _ _ H). simpl.
    destruct (cs_write c).
    - rewrite dget_dset_same. now rewrite orb_true_r.
    - rewrite (open_caps_other _ _ _ H). now rewrite orb_false_r.
  Qed.

  Lemma loop_summary e cs : cs <> [] -> rf_free cs -> forall f,
    exists c, last_code (loop cstep exec e cs f) = Some c
              /\ summary c (dhas rf (final_fs f (loop cstep exec e cs f))) = run_cmds (dhas rf f) (map fst cs).
  Proof.
    induction cs as [|[c0 nm] r IH]; intros Hne Hfree f; [congruence|].
    assert (Hnm : forall n, nm = Some n -> rf <> n ++ ".out" /\ rf <> n ++ ".err").
    { intros n ->. apply (Hfree (c0, Some n) n); [now left|reflexivity]. }
    pose proof (step_file nm c0 e f Hnm) as Hfile.
    simpl loop. simpl map. simpl run_cmds. simpl r_code. unfold cs_exit.
    destruct (cs_code c0) as [k|] eqn:Ec.
    - exists (ecode_Z k). split; [unfold last_code; destruct k; simpl; unfold cs_exit; now rewrite Ec|].
      destruct k; simpl; rewrite Hfile; reflexivity.
    - simpl Z.eqb. cbv iota.
      destruct r as [|c1 r].
      + exists 0%Z. split; [unfold last_code; simpl; unfold cs_exit; now rewrite Ec|]. simpl. rewrite Hfile. reflexivity.
      + set (f1 := close_caps nm (exec c0 e (open_caps nm f))) in *.
        destruct (IH ltac:(discriminate) (fun c n Hc => Hfree c n (or_intror Hc)) f1) as [c [Hl Hs]].
        exists c. split.
        * rewrite last_code_cons; [exact Hl|]. apply loop_nonempty. discriminate.
        * cbn [final_fs st_after]. rewrite Hs, Hfile. reflexivity.
  Qed.

  Lemma cmd_names_prefix e cs f : exists rest,
    (names_of (loop cstep exec e cs f) ++ rest)%list = cmd_names cs.
  Proof.
    destruct (loop_prefix cstep exec e cs f) as [rest Hrest].
    exists (cmd_names rest). rewrite <- Hrest at 2. unfold cmd_names. rewrite flat_map_app. f_equal.
    unfold names_of. generalize (loop cstep exec e cs f). intro l. induction l as [|s l IHl]; simpl; [reflexivity|].
    now rewrite IHl.
  Qed.

  (* what jobmap finds in the output file of an execution with commands cs is the summary run_cmds computes:
     recorded exit code, presence of the return file among the returned files, and exit status 0 iff success *)
  Theorem run_cmds_refines_run_local base (inp : jobinput cstep) arg n :
    ji_cmds inp <> [] -> ji_ret inp = Some [rf] -> NoDup (cmd_names (ji_cmds inp)) -> rf_free (ji_cmds inp) ->
    let k := run_cmds (dhas rf (materialise (ji_files inp))) (map fst (ji_cmds inp)) in
    exists st out, fst (body cstep exec hash base inp) = Done st out
                   /\ jo_exitcode out = o_code (out_of arg k n)
                   /\ dhas rf (jo_files out) = o_file (out_of arg k n)
                   /\ jo_hash out = hash inp
                   /\ (st = 0%Z <-> k = OSucceed).
  Proof.
    intros Hne Hret Hnd Hfree. cbv zeta.
    set (f0 := materialise (ji_files inp)). set (e := overlay base (ji_env inp)).
    set (sts := loop cstep exec e (ji_cmds inp) f0).
    assert (Hnd' : NoDup (names_of sts)).
    { destruct (cmd_names_prefix e (ji_cmds inp) f0) as [rest Hrest]. fold sts in Hrest. rewrite <- Hrest in Hnd.
      now apply nodup_app_elim in Hnd. }
    assert (Hkeep : forall c e' f x, In x (cap_files cstep (ji_cmds inp)) -> dget x (r_fs (exec c e' f)) = dget x f).
    { intros c e' f x Hx. simpl. destruct (cs_write c); [|reflexivity].
      apply dget_dset_other. unfold cap_files in Hx. apply in_flat_map in Hx. destruct Hx as [[c' nm] [Hc' Hx]].
      simpl in Hx. destruct nm as [m|]; [|destruct Hx].
      destruct (Hfree (c', Some m) m Hc' eq_refl) as [H1 H2].
      destruct Hx as [<-|[<-|[]]]; congruence. }
    destruct (captures_exact cstep exec (cap_files cstep (ji_cmds inp)) Hkeep e (ji_cmds inp) f0 Hnd' (fun x H => H))
      as [so [se [Hso [Hse _]]]].
    destruct (loop_summary e (ji_cmds inp) Hne Hfree f0) as [c [Hl Hs]]. fold sts in Hl, Hs, Hso, Hse.
    unfold body. cbv zeta. fold f0 e sts. rewrite Hso, Hse, Hl. simpl fst.
    eexists _, _. split; [reflexivity|]. simpl jo_exitcode. simpl jo_files. simpl jo_hash.
    unfold requested. rewrite Hret. rewrite <- Hs.
    set (f := final_fs f0 sts).
    assert (Hcol : dhas rf (collect f [rf]) = dhas rf f).
    { unfold dhas. rewrite collect_spec. simpl. now rewrite String.eqb_refl. }
    assert (Hall : all_present f [rf] = dhas rf f) by (simpl; apply andb_true_r).
    rewrite Hcol, Hall.
    destruct c as [|k|k]; destruct (dhas rf f); simpl; repeat split; intros; try reflexivity; try discriminate.
  Qed.
End CmdsRunLocal.

(* ---- with jobmap: an item one of whose commands failed in this run (named or not, last or not, whatever the later
   commands would have written) is not stored in the destination and is executed again by the next run *)
Theorem failed_command_not_stored script p st kl nm c :
  NoDup (map fst (js_src st)) -> NoDup (all_names p st) ->
  In kl (js_src st) -> In nm (names p kl) -> In nm (runlist p st) ->
  In c (script nm (cnt st nm)) -> cs_code c <> None ->
  let st' := jobmap (cmd_outcome script) p st in
  dget (fst kl) (js_dst st') = None /\ In nm (runlist p st').
Proof.
  intros Hk Ha Hin Hnm Hr Hc Hcode. cbv zeta.
  assert (Hf : failed (cmd_outcome script nm (cnt st nm))).
  { unfold failed, cmd_outcome. now apply (run_cmds_failing_command false _ c). }
  assert (Hrun : In nm (runlist p (jobmap (cmd_outcome script) p st))).
  { apply resume; [exact Hk|exact Ha|]. now split. }
  split; [|exact Hrun].
  apply in_runlist in Hrun. destruct Hrun as [kl' (Hin' & Hd' & Hn' & _)].
  rewrite src_jobmap in Hin'.
  assert (kl' = kl) by (apply (flat_map_unique (names p) (js_src st) Ha kl' kl nm); assumption).
  now subst kl'.
Qed.

(* ================================================================== round 3: the handle's key view; a runner that dies *)
Lemma mem_keys_dhas {V} k (d : list (string * V)) : mem k (map fst d) = dhas k d.
Proof.
  unfold dhas, mem. induction d as [|[k' v] r IH]; simpl; [reflexivity|].
  destruct (String.eqb k k'); simpl; [reflexivity|exact IH].
Qed.

(* the work list computed from the view taken inside `destination.reading()` is the work list of the FILE *)
Lemma todo_seen_refreshed st : todo_seen (map fst (js_dst st)) st = todo st.
Proof. unfold todo_seen, todo. apply filter_ext. intro kl. now rewrite mem_keys_dhas. Qed.

Lemma runlist_seen_refreshed p st : runlist_seen p (map fst (js_dst st)) st = runlist p st.
Proof. unfold runlist_seen, runlist. now rewrite todo_seen_refreshed. Qed.

(* ... whereas a view that was not refreshed (fresh handle on a pre-populated file: the empty set) sends an item that
   is already in the destination to be executed again *)
Lemma stale_view_refuted :
  let st := mk_js [("a", 1%nat); ("b", 1%nat)] [("a", [("A", 0%N)])] [("a", COut (mk_out "B" 0 true 0%N))] [("a", 1%N)] in
  let p := mk_jp "A" true false in
  let ok := fun (_ : string) (_ : N) => OSucceed in
  let nocrash := fun (_ : string) (_ : N) => false in
  runlist_seen p [] st = ["a"; "b"] /\ runlist p st = ["b"]
  /\ cnt (jobmapX_seen ok nocrash false p [] st) "a" = 2%N
  /\ cnt (jobmapX ok nocrash false p st) "a" = 1%N.
Proof. cbv zeta. repeat split; reflexivity. Qed.

Lemma dget_drm_same {V} k (d : list (string * V)) : dget k (drm k d) = None.
Proof.
  unfold drm. induction d as [|[k' v] r IH]; simpl; [reflexivity|].
  destruct (String.eqb k k') eqn:E; simpl; [exact IH|]. rewrite E. exact IH.
Qed.

Lemma dget_drm_other {V} k k' (d : list (string * V)) : k <> k' -> dget k (drm k' d) = dget k d.
Proof.
  intro H. unfold drm. induction d as [|[k2 v] r IH]; simpl; [reflexivity|].
  destruct (String.eqb k' k2) eqn:E; simpl.
  - apply String.eqb_eq in E. subst k2. destruct (String.eqb k k') eqn:E2; [apply String.eqb_eq in E2; contradiction|exact IH].
  - destruct (String.eqb k k2); [reflexivity|exact IH].
Qed.

Lemma o_arg_out_of a k n : o_arg (out_of a k n) = a.
Proof. destruct k; reflexivity. Qed.

Section JobmapXFacts.
  Variable outcome : string -> N -> okind.
  Variable crashes : string -> N -> bool.
  Notation exec_oneX := (exec_oneX outcome crashes).
  Notation jobmapX := (jobmapX outcome crashes).

  (* the cache entry of an executed item afterwards: the fresh output; nothing when the runner died (before the
     repair: whatever was there) *)
  Definition after_exec (br : bool) (p : jparams) (st : jstate) (nm : string) : option centry :=
    if crashes nm (cnt st nm) then (if br then dget nm (js_cache st) else None)
    else Some (COut (fresh outcome p st nm)).

  Lemma cnt_exec_oneX br p st a nm :
    cnt (exec_oneX br p st a) nm = if String.eqb nm a then (cnt st a + 1)%N else cnt st nm.
  Proof.
    unfold Jobmap.exec_oneX. destruct (crashes a (cnt st a)); [|apply cnt_exec_one].
    unfold cnt at 1. simpl. rewrite dget_dset. destruct (String.eqb nm a); reflexivity.
  Qed.

  Lemma cache_exec_oneX_other br p st a nm : nm <> a -> dget nm (js_cache (exec_oneX br p st a)) = dget nm (js_cache st).
  Proof.
    intro H. unfold Jobmap.exec_oneX. destruct (crashes a (cnt st a)); simpl.
    - destruct br; [reflexivity|now apply dget_drm_other].
    - now apply dget_dset_other.
  Qed.

  Lemma cache_exec_oneX_same br p st a : dget a (js_cache (exec_oneX br p st a)) = after_exec br p st a.
  Proof.
    unfold Jobmap.exec_oneX, after_exec. destruct (crashes a (cnt st a)); simpl.
    - destruct br; [reflexivity|apply dget_drm_same].
    - apply dget_dset_same.
  Qed.

  Lemma src_dst_exec_oneX br p st a : js_src (exec_oneX br p st a) = js_src st /\ js_dst (exec_oneX br p st a) = js_dst st.
  Proof. unfold Jobmap.exec_oneX. destruct (crashes a (cnt st a)); simpl; split; reflexivity. Qed.

  (* without a dying runner nothing is new *)
  Lemma fold_crash_free br p l : forall st, NoDup l -> (forall nm, In nm l -> crashes nm (cnt st nm) = false) ->
    fold_left (exec_oneX br p) l st = fold_left (exec_one outcome p) l st.
  Proof.
    induction l as [|a l IH]; intros st Hnd Hc; simpl; [reflexivity|].
    inversion Hnd as [|? ? Ha Hnd']; subst.
    assert (E : exec_oneX br p st a = exec_one outcome p st a).
    { unfold Jobmap.exec_oneX. now rewrite (Hc a (or_introl eq_refl)). }
    rewrite E. apply IH; [exact Hnd'|].
    intros nm Hnm. rewrite cnt_exec_one. destruct (String.eqb nm a) eqn:En.
    - apply String.eqb_eq in En. subst. contradiction.
    - apply Hc. now right.
  Qed.

  Theorem jobmapX_crash_free br p st : NoDup (runlist p st) ->
    (forall nm, In nm (runlist p st) -> crashes nm (cnt st nm) = false) ->
    jobmapX br p st = jobmap outcome p st.
  Proof.
    intros Hnd Hc. unfold Jobmap.jobmapX, jobmapX_seen, jobmap. cbv zeta.
    rewrite runlist_seen_refreshed, todo_seen_refreshed. rewrite (fold_crash_free br p _ st Hnd Hc). reflexivity.
  Qed.

  Lemma exec_foldX br p l : forall st, NoDup l ->
    let st' := fold_left (exec_oneX br p) l st in
    js_src st' = js_src st /\ js_dst st' = js_dst st
    /\ (forall nm, dget nm (js_cache st') = if mem nm l then after_exec br p st nm else dget nm (js_cache st))
    /\ (forall nm, cnt st' nm = if mem nm l then (cnt st nm + 1)%N else cnt st nm).
  Proof.
    induction l as [|a l IH]; intros st Hnd; cbv zeta; simpl fold_left.
    - repeat split.
    - inversion Hnd as [|? ? Ha Hnd']; subst.
      destruct (IH (exec_oneX br p st a) Hnd') as (Hs & Hd & Hc & Hn). cbv zeta in *.
      destruct (src_dst_exec_oneX br p st a) as [Hs1 Hd1].
      split; [now rewrite Hs|]. split; [now rewrite Hd|]. split.
      + intro nm. rewrite Hc. unfold mem. simpl. fold (mem nm l).
        destruct (String.eqb nm a) eqn:E; simpl.
        * apply String.eqb_eq in E. subst nm. apply mem_false in Ha. rewrite Ha. apply cache_exec_oneX_same.
        * assert (Hne : nm <> a) by (intro; subst; now rewrite String.eqb_refl in E).
          destruct (mem nm l) eqn:Em; [|now apply cache_exec_oneX_other].
          unfold after_exec, Jobmap.fresh. rewrite cnt_exec_oneX, E. rewrite (cache_exec_oneX_other br p st a nm Hne). reflexivity.
      + intro nm. rewrite Hn. unfold mem. simpl. fold (mem nm l). rewrite cnt_exec_oneX.
        destruct (String.eqb nm a) eqn:E; simpl.
        * apply String.eqb_eq in E. subst nm. apply mem_false in Ha. now rewrite Ha.
        * reflexivity.
  Qed.

  (* one run, pointwise, with runners that may die *)
  Theorem jobmapX_spec br p st : NoDup (map fst (js_src st)) -> NoDup (runlist p st) ->
    let st' := jobmapX br p st in
    js_src st' = js_src st
    /\ (forall nm, cnt st' nm = if mem nm (runlist p st) then (cnt st nm + 1)%N else cnt st nm)
    /\ (forall nm, dget nm (js_cache st') = if mem nm (runlist p st) then after_exec br p st nm else dget nm (js_cache st))
    /\ (forall k, dget k (js_dst st') =
          match dget k (js_dst st) with
          | Some v => Some v
          | None => match find (key_is k) (js_src st) with
                    | Some kl => all_good (js_cache st') (names p kl)
                    | None => None
                    end
          end).
  Proof.
    intros Hk Hr. cbv zeta. unfold Jobmap.jobmapX, jobmapX_seen. cbv zeta.
    rewrite runlist_seen_refreshed, todo_seen_refreshed.
    destruct (exec_foldX br p (runlist p st) st Hr) as (Hs & Hd & Hc & Hn). cbv zeta in *.
    set (st1 := fold_left (exec_oneX br p) (runlist p st) st) in *. simpl.
    split; [exact Hs|]. split; [exact Hn|]. split; [exact Hc|].
    intro k. rewrite finalise_fold by now apply todo_keys_nodup.
    rewrite find_todo by exact Hk. rewrite Hd.
    destruct (dget k (js_dst st)) as [v|] eqn:Ed; [reflexivity|].
    destruct (find (key_is k) (js_src st)) as [kl|]; [|reflexivity].
    now destruct (all_good (js_cache st1) (names p kl)).
  Qed.

  Lemma after_exec_valid_iff p st nm :
    valid p (after_exec false p st nm) = true <-> crashes nm (cnt st nm) = false /\ outcome nm (cnt st nm) = OSucceed.
  Proof.
    unfold after_exec. destruct (crashes nm (cnt st nm)).
    - simpl. split; [discriminate|intros [H _]; discriminate].
    - rewrite (fresh_valid_iff outcome). tauto.
  Qed.

  Lemma after_exec_good_iff p st nm :
    good (after_exec false p st nm) <> None <-> crashes nm (cnt st nm) = false /\ outcome nm (cnt st nm) = OSucceed.
  Proof.
    unfold after_exec. destruct (crashes nm (cnt st nm)).
    - simpl. split; [congruence|intros [H _]; discriminate].
    - rewrite (fresh_good_iff outcome). tauto.
  Qed.

  Lemma all_good_args cache l : forall v, all_good cache l = Some v ->
    forall x, In x v -> exists nm o, In nm l /\ good (dget nm cache) = Some o /\ x = (o_arg o, o_attempt o).
  Proof.
    induction l as [|a l IH]; intros v H x Hx; simpl in H.
    - injection H as <-. destruct Hx.
    - destruct (good (dget a cache)) as [o|] eqn:Eg; [|discriminate].
      destruct (all_good cache l) as [w|] eqn:Ea; [|discriminate]. injection H as <-.
      destruct Hx as [<-|Hx].
      + exists a, o. repeat split; [now left|exact Eg].
      + destruct (IH w eq_refl x Hx) as [nm [o' (H1 & H2 & H3)]]. exists nm, o'. repeat split; [now right|exact H2|exact H3].
  Qed.

  Lemma good_inv e o : good e = Some o -> e = Some (COut o) /\ o_code o = 0%Z.
  Proof.
    unfold good. destruct e as [[|o']|]; try discriminate.
    destruct (Z.eqb (o_code o') 0) eqn:E; simpl; [|discriminate]. destruct (o_file o'); [|discriminate].
    intro H. injection H as <-. apply Z.eqb_eq in E. now split.
  Qed.

  (* "a cached output from a different input is not reused": under strict_hash every new entry of the destination is
     made of outputs of THIS input only, whichever runners die *)
  Theorem stored_is_of_this_input p st kl v : NoDup (map fst (js_src st)) -> NoDup (runlist p st) -> jp_strict p = true ->
    In kl (js_src st) -> dget (fst kl) (js_dst st) = None ->
    dget (fst kl) (js_dst (jobmapX false p st)) = Some v -> value_of_arg (jp_arg p) v = true.
  Proof.
    intros Hk Hr Hstrict Hin Hd0 Hv.
    destruct (jobmapX_spec false p st Hk Hr) as (_ & _ & Hc & Hd). cbv zeta in *.
    rewrite Hd, Hd0, (find_key_in (fst kl) (js_src st) kl Hk Hin eq_refl) in Hv.
    unfold value_of_arg. apply forallb_forall. intros x Hx.
    destruct (all_good_args _ _ _ Hv x Hx) as [nm [o (Hnm & Hg & ->)]]. simpl.
    apply good_inv in Hg. destruct Hg as [Hg Hcode]. rewrite Hc in Hg.
    destruct (mem nm (runlist p st)) eqn:Em.
    - unfold after_exec in Hg. destruct (crashes nm (cnt st nm)); [discriminate|].
      injection Hg as <-. unfold Jobmap.fresh. rewrite o_arg_out_of. apply String.eqb_refl.
    - destruct (valid p (dget nm (js_cache st))) eqn:Ev.
      + rewrite Hg in Ev. simpl in Ev. rewrite Hstrict in Ev. simpl in Ev. apply andb_prop in Ev. tauto.
      + exfalso. apply mem_false in Em. apply Em. apply in_runlist. exists kl. now repeat split.
  Qed.

  (* resume: a rerun executes exactly the items whose execution failed OR whose runner died in the previous run *)
  Theorem resumeX p st nm : NoDup (map fst (js_src st)) -> NoDup (all_names p st) ->
    In nm (runlist p (jobmapX false p st)) <->
    In nm (runlist p st) /\ (crashes nm (cnt st nm) = true \/ failed (outcome nm (cnt st nm))).
  Proof.
    intros Hk Ha. pose proof (runlist_nodup outcome p st Ha) as Hr.
    destruct (jobmapX_spec false p st Hk Hr) as (Hs & _ & Hc & Hd). cbv zeta in *.
    rewrite !in_runlist. rewrite Hs. split.
    - intros [kl (Hin & Hdn & Hn & Hv)].
      assert (Hd0 : dget (fst kl) (js_dst st) = None).
      { rewrite Hd in Hdn. now destruct (dget (fst kl) (js_dst st)). }
      rewrite Hc in Hv. destruct (mem nm (runlist p st)) eqn:Em.
      + split; [exists kl; apply mem_spec, in_runlist in Em; destruct Em as [kl' (H1 & H2 & H3 & H4)];
                repeat split; try assumption; exact H4|].
        destruct (crashes nm (cnt st nm)) eqn:Ecr; [now left|right].
        intro Hok. assert (Hval : valid p (after_exec false p st nm) = true) by (apply after_exec_valid_iff; now split).
        congruence.
      + exfalso. apply mem_false in Em. apply Em. apply in_runlist. exists kl. now repeat split.
    - intros [[kl (Hin & Hd0 & Hn & Hv)] Hf].
      assert (Em : mem nm (runlist p st) = true).
      { apply mem_spec, in_runlist. exists kl. now repeat split. }
      assert (Hbad : ~ (crashes nm (cnt st nm) = false /\ outcome nm (cnt st nm) = OSucceed)).
      { intros [H1 H2]. destruct Hf as [Hf|Hf]; [congruence|now apply Hf]. }
      exists kl. repeat split; try assumption.
      + rewrite Hd, Hd0. rewrite (find_key_in (fst kl) (js_src st) kl Hk Hin eq_refl).
        destruct (all_good (js_cache (jobmapX false p st)) (names p kl)) as [v|] eqn:Eg; [|reflexivity].
        exfalso. apply (all_good_some _ _ _ Eg nm Hn). rewrite Hc, Em.
        destruct (good (after_exec false p st nm)) eqn:E; [|reflexivity].
        exfalso. apply Hbad. apply (after_exec_good_iff p st nm). congruence.
      + rewrite Hc, Em. destruct (valid p (after_exec false p st nm)) eqn:E; [|reflexivity].
        exfalso. apply Hbad. now apply (after_exec_valid_iff p st nm).
  Qed.

  (* an item whose runner died is not in the destination afterwards *)
  Theorem crashed_item_not_stored p st kl nm : NoDup (map fst (js_src st)) -> NoDup (all_names p st) ->
    In kl (js_src st) -> In nm (names p kl) -> In nm (runlist p st) -> crashes nm (cnt st nm) = true ->
    dget (fst kl) (js_dst (jobmapX false p st)) = None.
  Proof.
    intros Hk Ha Hin Hnm Hrun Hcr.
    assert (Hr2 : In nm (runlist p (jobmapX false p st))) by (apply resumeX; [exact Hk|exact Ha|]; split; [exact Hrun|now left]).
    apply in_runlist in Hr2. destruct Hr2 as [kl' (Hin' & Hd' & Hn' & _)].
    pose proof (runlist_nodup outcome p st Ha) as Hr.
    destruct (jobmapX_spec false p st Hk Hr) as (Hs & _). cbv zeta in Hs. rewrite Hs in Hin'.
    assert (kl' = kl) by (apply (flat_map_unique (names p) (js_src st) Ha kl' kl nm); assumption).
    now subst kl'.
  Qed.
End JobmapXFacts.

(* the code before repair df05caa: item a has a successful cached output of input A; it is mapped with input B
   (strict_hash) into an empty destination and its runner dies -- the output of input A is stored as B's result.
   With the repair nothing is stored and the old output is gone. *)
Lemma stale_output_stored_refuted_before_repair :
  let st := mk_js [("a", 1%nat)] [] [("a", COut (mk_out "A" 0 true 0%N))] [("a", 1%N)] in
  let p := mk_jp "B" true false in
  let ok := fun (_ : string) (_ : N) => OSucceed in
  let dies := fun (_ : string) (_ : N) => true in
  dget "a" (js_dst (jobmapX ok dies true p st)) = Some [("A", 0%N)]
  /\ value_of_arg (jp_arg p) [("A", 0%N)] = false
  /\ dget "a" (js_dst (jobmapX ok dies false p st)) = None
  /\ dget "a" (js_cache (jobmapX ok dies false p st)) = None
  /\ cnt (jobmapX ok dies false p st) "a" = 2%N.
Proof. cbv zeta. repeat split; reflexivity. Qed.

(* an output whose recorded exit code is not 0 -- a positive exit status, or the NEGATIVE number of the signal that
   killed the command -- is neither reused by the cache test nor processed by the finalisation *)
Lemma ecode_nonzero e : ecode_Z e <> 0%Z.
Proof. destruct e; discriminate. Qed.

Lemma failed_output_rejected p o : o_code o <> 0%Z -> valid p (Some (COut o)) = false /\ good (Some (COut o)) = None.
Proof. intro H. apply Z.eqb_neq in H. unfold valid, good. rewrite H. split; [apply andb_false_r|reflexivity]. Qed.
