(* Refinement of the UKV file model to an insert-only association list, over every disciplined
   history (C02), and recovery from every crash image (C03). *)
From Coq Require Import ZArith NArith List Bool Lia ZifyBool ZifyNat ZifyN.
Import ListNotations.
Open Scope N_scope.
Ltac Zify.zify_post_hook ::= Z.to_euclidean_division_equations.
From Molli Require Import Model.UKV Proofs.UKVBase.

(* ---------- small list lemmas missing from the 8.16 standard library ---------- *)
Lemma in_firstn {A} (l : list A) j x : In x (firstn j l) -> In x l.
Proof. revert l. induction j as [|j IH]; intros [|a l]; simpl; try tauto. intros [E|Hx]; [left; exact E|right; apply IH; exact Hx]. Qed.

Lemma skipn_cons_nth' {A} (l : list A) i d : (i < length l)%nat -> skipn i l = nth i l d :: skipn (S i) l.
Proof.
  revert l. induction i as [|i IH]; intros [|a l] Hi; simpl in *; try lia; [reflexivity|].
  apply IH. lia.
Qed.

Lemma NoDup_snoc {A} (l : list A) a : NoDup l -> ~ In a l -> NoDup (l ++ [a]).
Proof.
  induction l as [|x l IH]; simpl; intros Hn Hi; [constructor; [tauto|constructor]|].
  inversion Hn as [|y l' Hx Hn']; subst. constructor.
  - intros Hin. apply in_app_or in Hin. destruct Hin as [Hin|[E|[]]]; [contradiction|]. subst. apply Hi. left. reflexivity.
  - apply IH; [exact Hn'|]. intros Hin. apply Hi. right. exact Hin.
Qed.

Lemma length_blocks_ge rs : (length rs <= length (blocks rs))%nat.
Proof.
  induction rs as [|p rs IH]; [simpl; lia|]. rewrite blocks_cons, app_length, length_encb. simpl. lia.
Qed.

(* ---------- what a handle knows ---------- *)
(* a consistent, possibly stale, snapshot: the index of a prefix of the records *)
Definition snap (H : bytes) (rs : list kv) (h : handle) : Prop :=
  exists m, toc h = index_from (len H) (firstn m rs) /\
            (eof h = None \/ eof h = Some (end_from (len H) (firstn m rs))).

Definition full (H : bytes) (rs : list kv) (h : handle) : Prop :=
  toc h = index_from (len H) rs /\ eof h = Some (end_from (len H) rs).

Lemma full_snap H rs h : full H rs h -> snap H rs h.
Proof. intros [Ht He]. exists (length rs). rewrite firstn_all. split; [exact Ht|right; exact He]. Qed.

Lemma snap_h0 H rs : snap H rs h0.
Proof. exists 0%nat. simpl. split; [reflexivity|left; reflexivity]. Qed.

Lemma snap_extend H rs p h : snap H rs h -> snap H (rs ++ [p]) h.
Proof.
  intros [m [Ht He]]. exists (Nat.min m (length rs)).
  assert (E : firstn (Nat.min m (length rs)) (rs ++ [p]) = firstn m rs).
  { rewrite firstn_app. replace (Nat.min m (length rs) - length rs)%nat with 0%nat by lia.
    simpl. rewrite app_nil_r. destruct (Nat.le_ge_cases m (length rs)) as [L|L].
    - rewrite Nat.min_l by exact L. reflexivity.
    - rewrite Nat.min_r by exact L. rewrite firstn_all. symmetry. apply firstn_all2. exact L. }
  rewrite E. split; assumption.
Qed.

(* ---------- map_blocks: rescan (or sound shortcut) yields the full index; a torn tail is cut in append mode *)
Lemma map_blocks_spec H rs tl h :
  hdr_ok H -> Forall wfkv rs -> NoDup (map fst rs) -> torn tl -> snap H rs h ->
  exists h', map_blocks (H ++ blocks rs ++ tl) h =
             (match md h with MA => H ++ blocks rs | MR => H ++ blocks rs ++ tl end, h')
             /\ full H rs h' /\ md h' = md h /\ closed h' = closed h.
Proof.
  intros Hok Hwf Hnd Htorn [m [Ht He]]. unfold map_blocks.
  set (f := H ++ blocks rs ++ tl).
  assert (Hlenf : len f = end_from (len H) rs + len tl).
  { unfold f. rewrite !len_app, end_from_len. lia. }
  destruct (shortcut f h) eqn:Esc.
  - (* shortcut taken: the handle is already complete and there is no torn tail *)
    unfold shortcut in Esc. destruct (eof h) as [e|] eqn:Ee; [|discriminate].
    apply andb_prop in Esc. destruct Esc as [Esz _]. apply N.eqb_eq in Esz.
    destruct He as [He|He]; [discriminate|]. inversion He as [He']. subst e.
    pose proof (end_from_firstn_le (len H) rs m) as Hle.
    assert (Htl : len tl = 0) by lia.
    assert (tl = []) as -> by (destruct tl; [reflexivity|rewrite len_cons in Htl; lia]).
    assert (Hm : firstn m rs = rs).
    { destruct (Nat.lt_ge_cases m (length rs)) as [L|L]; [|apply firstn_all2; exact L].
      pose proof (end_from_firstn_lt (len H) rs m L). lia. }
    exists h. unfold f. rewrite app_nil_r. split; [destruct (md h); reflexivity|].
    split; [|split; reflexivity]. split; [rewrite Ht, Hm; reflexivity|rewrite Ee, He', Hm; reflexivity].
  - (* rescan from the first block *)
    assert (Hb : bof_of f = len H) by apply Hok. rewrite Hb.
    assert (Hsk : skipn (N.to_nat (len H)) f = blocks rs ++ tl) by apply skipn_len_app. rewrite Hsk.
    rewrite scan_all; [|exact Hwf|unfold f; rewrite !app_length; pose proof (length_blocks_ge rs); lia].
    rewrite scan_torn by exact Htorn.
    assert (Hidx : upd_all (toc h) (index_from (len H) rs) = index_from (len H) rs).
    { rewrite Ht. rewrite <- (firstn_skipn m rs) at 2 3. rewrite index_from_app.
      apply upd_all_prefix. rewrite <- index_from_app, firstn_skipn, map_fst_index. exact Hnd. }
    rewrite Hidx.
    exists (mkh (index_from (len H) rs) (last_key None rs) (Some (end_from (len H) rs)) (md h) (closed h)). split.
    + destruct (md h).
      * reflexivity.
      * destruct (end_from (len H) rs <? len f) eqn:El.
        -- f_equal. unfold f. rewrite end_from_len.
           replace (len H + len (blocks rs)) with (len (H ++ blocks rs)) by apply len_app.
           rewrite app_assoc. apply firstn_len_app.
        -- apply N.ltb_ge in El. assert (Htl : len tl = 0) by lia.
           assert (tl = []) as -> by (destruct tl; [reflexivity|rewrite len_cons in Htl; lia]).
           unfold f. rewrite app_nil_r. reflexivity.
    + split; [split; reflexivity|split; reflexivity].
Qed.

(* reopening a closed handle with a stale (or empty) table yields the full index (C02_stale_refresh) *)
Lemma open_spec H rs tl h m :
  hdr_ok H -> Forall wfkv rs -> NoDup (map fst rs) -> torn tl -> snap H rs h -> closed h = true ->
  exists h', open_ (H ++ blocks rs ++ tl) h m =
             (match m with MA => H ++ blocks rs | MR => H ++ blocks rs ++ tl end, h')
             /\ full H rs h' /\ md h' = m /\ closed h' = false.
Proof.
  intros Hok Hwf Hnd Htorn Hs Hc. unfold open_. rewrite Hc.
  assert (Hs' : snap H rs (mkh (toc h) (last h) (eof h) m false)) by exact Hs.
  destruct (map_blocks_spec H rs tl _ Hok Hwf Hnd Htorn Hs') as [h' [E [Hf [Hm Hcl]]]].
  exists h'. simpl in *. rewrite E. repeat split; try assumption; apply Hf.
Qed.

(* ---------- get and put against the abstract map ---------- *)
Lemma get_spec H rs tl h k :
  full H rs h -> closed h = false ->
  get (H ++ blocks rs ++ tl) h k = match assoc rs k with Some v => RVal v | None => RErr EKey end.
Proof.
  intros [Ht _] Hc. unfold get. rewrite Hc, Ht.
  destruct (lookup (index_from (len H) rs) k) as [r|] eqn:E.
  - destruct (get_index rs H tl k r E) as [v [Hv Hs]]. rewrite Hv, Hs. reflexivity.
  - pose proof (lookup_index_assoc rs (len H) k) as L. rewrite E in L.
    destruct (assoc rs k); [contradiction|reflexivity].
Qed.

Definition wfb (k v : bytes) : bool := (len k <? 256) && (len v <? 4294967296).

Lemma write_at_end (f b : bytes) : write_at f (len f) b = f ++ b.
Proof.
  unfold write_at, len. rewrite Nat2N.id, firstn_all, Nat.sub_diag. simpl.
  rewrite skipn_all2; [rewrite app_nil_r; reflexivity|]. lia.
Qed.

Lemma put_ok H rs h k v :
  full H rs h -> closed h = false -> md h = MA -> assoc rs k = None -> wfb k v = true ->
  exists h', put (H ++ blocks rs) h k v = (H ++ blocks (rs ++ [(k, v)]), h', ROk)
             /\ full H (rs ++ [(k, v)]) h' /\ md h' = MA /\ closed h' = false.
Proof.
  intros [Ht He] Hc Hm Ha Hw. unfold put. rewrite Hc, Hm. simpl.
  assert (Hl : lookup (toc h) k = None).
  { rewrite Ht. pose proof (lookup_index_assoc rs (len H) k) as L. rewrite Ha in L.
    destruct (lookup (index_from (len H) rs) k); [contradiction|reflexivity]. }
  rewrite Hl. unfold enc_block. fold (wfb k v). rewrite Hw, He.
  exists (mkh (update (toc h) k (mkrec (end_from (len H) rs) (len k) (len v))) (last h)
              (Some (end_from (len H) rs + len (encb k v))) MA false).
  split; [|split; [split|split; reflexivity]].
  - f_equal. f_equal.
    replace (end_from (len H) rs) with (len (H ++ blocks rs)) by (rewrite end_from_len, len_app; reflexivity).
    rewrite write_at_end, blocks_app. unfold blocks at 3. simpl. rewrite app_nil_r, <- app_assoc. reflexivity.
  - simpl. rewrite Ht, update_fresh by (rewrite <- Ht; exact Hl).
    rewrite index_from_app. reflexivity.
  - simpl. rewrite end_from_app. simpl. rewrite len_encb. f_equal. lia.
Qed.

(* ---------- worlds ---------- *)
Lemma nth_upd_same {A} (l : list A) : forall i x d, (i < length l)%nat -> nth i (upd l i x) d = x.
Proof. induction l as [|a l IH]; intros [|i] x d Hi; simpl in *; try lia; [reflexivity|]. apply IH. lia. Qed.

Lemma nth_upd_other {A} (l : list A) : forall i j x d, (i < length l)%nat -> j <> i -> nth j (upd l i x) d = nth j l d.
Proof.
  induction l as [|a l IH]; intros [|i] [|j] x d Hi Hj; simpl in *; try lia; try reflexivity.
  apply IH; lia.
Qed.

Lemma length_upd {A} (l : list A) : forall i x, (i < length l)%nat -> length (upd l i x) = length l.
Proof. induction l as [|a l IH]; intros [|i] x Hi; simpl in *; try lia. rewrite IH by lia. reflexivity. Qed.

Lemma upd_nth_id {A} (l : list A) : forall i d, (i < length l)%nat -> upd l i (nth i l d) = l.
Proof. induction l as [|a l IH]; intros [|i] d Hi; simpl in *; try lia; [reflexivity|]. rewrite IH by lia. reflexivity. Qed.

Definition hnth (hs : list handle) (i : nat) : handle := nth i hs h0.

Record Inv (H : bytes) (rs : list kv) (w : world) : Prop := {
  inv_file : fst w = H ++ blocks rs;
  inv_hdr : hdr_ok H;
  inv_wf : Forall wfkv rs;
  inv_nodup : NoDup (map fst rs);
  inv_snap : forall i, snap H rs (hnth (snd w) i);
  inv_open : forall i, closed (hnth (snd w) i) = false -> full H rs (hnth (snd w) i);
  inv_excl : forall i j, i <> j -> closed (hnth (snd w) i) = false -> md (hnth (snd w) i) = MA ->
                          closed (hnth (snd w) j) = true
}.

(* the session discipline: what the inter-process lock of C04 enforces *)
Definition ok_op (w : world) (o : op) : Prop :=
  match o with
  | Open i MA => (i < length (snd w))%nat /\
                 (closed (hnth (snd w) i) = true -> forall j, j <> i -> closed (hnth (snd w) j) = true)
  | Open i MR => (i < length (snd w))%nat /\
                 (closed (hnth (snd w) i) = true -> forall j, j <> i -> closed (hnth (snd w) j) = false -> md (hnth (snd w) j) = MR)
  | Close i | Put i _ _ | Get i _ | Keys i => (i < length (snd w))%nat
  | Crash _ => False
  end.

(* the abstract semantics of one operation on the insert-only map [rs], given only the open/mode flags
   of the handle it goes through *)
Definition step_spec (rs : list kv) (h : handle) (o : op) (r : res) (rs' : list kv) : Prop :=
  match o with
  | Open _ _ | Close _ => r = ROk /\ rs' = rs
  | Put _ k v =>
      if closed h || match md h with MR => true | MA => false end then r = RErr EUnsupported /\ rs' = rs
      else match assoc rs k with
           | Some _ => r = RErr EKey /\ rs' = rs
           | None => if wfb k v then r = ROk /\ rs' = rs ++ [(k, v)] else r = RErr EStruct /\ rs' = rs
           end
  | Get _ k =>
      rs' = rs /\
      if closed h then r = RErr EUnsupported
      else match assoc rs k with Some v => r = RVal v | None => r = RErr EKey end
  | Keys _ =>
      rs' = rs /\
      if closed h then exists m, r = RKeys (map fst (firstn m rs)) else r = RKeys (map fst rs)
  | Crash _ => False
  end.

Definition op_handle (o : op) : nat :=
  match o with Open i _ | Close i | Put i _ _ | Get i _ | Keys i => i | Crash _ => 0%nat end.

Lemma snap_keys H rs h : snap H rs h -> exists m, keys h = map fst (firstn m rs).
Proof. intros [m [Ht _]]. exists m. unfold keys. rewrite Ht. apply map_fst_index. Qed.

Theorem step_refines H rs w o :
  Inv H rs w -> ok_op w o ->
  exists rs', Inv H rs' (fst (step w o)) /\
              step_spec rs (hnth (snd w) (op_handle o)) o (snd (step w o)) rs' /\
              (forall e, snd (step w o) = RErr e -> fst (step w o) = w).
Proof.
  intros I Hok. destruct w as [f hs]. destruct I as [If Ih Iwf Ind Isnap Iopen Iexcl]. simpl in *.
  destruct o as [i m|i|i k v|i k|i|n]; simpl in Hok; try contradiction.
  - (* Open *)
    exists rs. cbn [step op_handle]. fold (hnth hs i).
    assert (Hi : (i < length hs)%nat) by (destruct m; apply Hok).
    destruct (closed (hnth hs i)) eqn:Ec.
    + (* really opens *)
      assert (Htorn : torn []) by (left; reflexivity).
      destruct (open_spec H rs [] (hnth hs i) m Ih Iwf Ind Htorn (Isnap i) Ec) as [h' [E [Hf [Hm Hc]]]].
      rewrite app_nil_r in E. assert (E' : open_ f (hnth hs i) m = (f, h')).
      { rewrite If. rewrite E. destruct m; reflexivity. }
      rewrite E'. simpl. split; [|split; [split; reflexivity|intros e He; discriminate]].
      constructor; simpl; try assumption.
      * intros j. unfold hnth. destruct (Nat.eq_dec j i) as [->|Hj].
        -- rewrite nth_upd_same by exact Hi. apply full_snap; exact Hf.
        -- rewrite nth_upd_other by assumption. apply Isnap.
      * intros j. unfold hnth. destruct (Nat.eq_dec j i) as [->|Hj].
        -- rewrite nth_upd_same by exact Hi. intros _. exact Hf.
        -- rewrite nth_upd_other by assumption. apply Iopen.
      * intros a b Hab. unfold hnth.
        destruct (Nat.eq_dec a i) as [->|Ha]; destruct (Nat.eq_dec b i) as [->|Hb]; try contradiction.
        -- rewrite nth_upd_same by exact Hi. rewrite nth_upd_other by assumption. intros _ Hma.
           rewrite Hm in Hma. rewrite Hma in Hok. cbn in Hok. destruct Hok as [_ Hok]. apply (Hok eq_refl b Hb).
        -- rewrite nth_upd_other by assumption. rewrite nth_upd_same by exact Hi. intros Hca Hma.
           exfalso. destruct m.
           ++ cbn in Hok. destruct Hok as [_ Hok]. specialize (Hok eq_refl a Ha Hca). fold (hnth hs a) in Hma. congruence.
           ++ cbn in Hok. destruct Hok as [_ Hok]. specialize (Hok eq_refl a Ha). fold (hnth hs a) in Hca. congruence.
        -- rewrite !nth_upd_other by assumption. apply Iexcl; exact Hab.
    + (* already open: no-op *)
      unfold open_. rewrite Ec. simpl. unfold hnth. rewrite upd_nth_id by exact Hi.
      split; [constructor; assumption|split; [split; reflexivity|intros e He; discriminate]].
  - (* Close *)
    exists rs. cbn [step op_handle]. simpl. split; [|split; [split; reflexivity|intros e He; discriminate]].
    constructor; simpl; try assumption.
    + intros j. unfold hnth. destruct (Nat.eq_dec j i) as [->|Hj].
      * rewrite nth_upd_same by exact Hok. exact (Isnap i).
      * rewrite nth_upd_other by assumption. apply Isnap.
    + intros j. unfold hnth. destruct (Nat.eq_dec j i) as [->|Hj].
      * rewrite nth_upd_same by exact Hok. simpl. discriminate.
      * rewrite nth_upd_other by assumption. apply Iopen.
    + intros a b Hab. unfold hnth.
      destruct (Nat.eq_dec a i) as [->|Ha]; destruct (Nat.eq_dec b i) as [->|Hb]; try contradiction.
      * rewrite nth_upd_same by exact Hok. simpl. discriminate.
      * rewrite nth_upd_same by exact Hok. reflexivity.
      * rewrite !nth_upd_other by assumption. apply Iexcl; exact Hab.
  - (* Put *)
    cbn [step op_handle]. fold (hnth hs i).
    destruct (closed (hnth hs i) || match md (hnth hs i) with MR => true | MA => false end) eqn:Eg.
    + exists rs. unfold put. rewrite Eg. simpl. unfold hnth. rewrite upd_nth_id by exact Hok.
      split; [constructor; assumption|split; [fold (hnth hs i); rewrite Eg; split; reflexivity|reflexivity]].
    + apply orb_false_elim in Eg. destruct Eg as [Ec Em].
      assert (Hm : md (hnth hs i) = MA) by (destruct (md (hnth hs i)); [discriminate|reflexivity]).
      pose proof (Iopen i Ec) as Hf.
      destruct (assoc rs k) as [v0|] eqn:Ea.
      * (* duplicate key *)
        exists rs. unfold put. rewrite Ec, Hm. simpl.
        assert (Hl : exists r0, lookup (toc (hnth hs i)) k = Some r0).
        { destruct Hf as [Ht _]. rewrite Ht. pose proof (lookup_index_assoc rs (len H) k) as L. rewrite Ea in L.
          destruct (lookup (index_from (len H) rs) k) as [r0|]; [exists r0; reflexivity|contradiction]. }
        destruct Hl as [r0 Hl]. rewrite Hl. simpl. unfold hnth. rewrite upd_nth_id by exact Hok.
        split; [constructor; assumption|split; [|reflexivity]].
        fold (hnth hs i). rewrite Ec, Hm. simpl. rewrite Ea. split; reflexivity.
      * destruct (wfb k v) eqn:Ew.
        -- (* success *)
           destruct (put_ok H rs (hnth hs i) k v Hf Ec Hm Ea Ew) as [h' [E [Hf' [Hm' Hc']]]].
           exists (rs ++ [(k, v)]). rewrite If, E. simpl.
           split; [|split; [rewrite Ec, Hm; simpl; rewrite Ea, Ew; split; reflexivity|intros e He; discriminate]].
           constructor; simpl; try assumption.
           ++ reflexivity.
           ++ apply Forall_app. split; [exact Iwf|]. constructor; [|constructor].
              unfold wfb in Ew. apply andb_prop in Ew. destruct Ew as [E1 E2].
              apply N.ltb_lt in E1. apply N.ltb_lt in E2. split; assumption.
           ++ rewrite map_app. simpl. apply NoDup_snoc; [exact Ind|]. apply assoc_none_iff. exact Ea.
           ++ intros j. unfold hnth. destruct (Nat.eq_dec j i) as [->|Hj].
              ** rewrite nth_upd_same by exact Hok. apply full_snap; exact Hf'.
              ** rewrite nth_upd_other by assumption. apply snap_extend, Isnap.
           ++ intros j. unfold hnth. destruct (Nat.eq_dec j i) as [->|Hj].
              ** rewrite nth_upd_same by exact Hok. intros _. exact Hf'.
              ** rewrite nth_upd_other by assumption. intros Hcj. exfalso.
                 pose proof (Iexcl i j (not_eq_sym Hj) Ec Hm) as Hx. fold (hnth hs j) in Hcj. congruence.
           ++ intros a b Hab. unfold hnth.
              destruct (Nat.eq_dec a i) as [->|Ha]; destruct (Nat.eq_dec b i) as [->|Hb]; try contradiction.
              ** rewrite nth_upd_same by exact Hok. rewrite nth_upd_other by assumption. intros _ _.
                 apply (Iexcl i b Hab Ec Hm).
              ** rewrite nth_upd_other by assumption. rewrite nth_upd_same by exact Hok. intros Hca Hma.
                 exfalso. pose proof (Iexcl i a (not_eq_sym Ha) Ec Hm) as Hx. fold (hnth hs a) in Hca. congruence.
              ** rewrite !nth_upd_other by assumption. apply Iexcl; exact Hab.
        -- (* struct.error: oversize key or value *)
           exists rs. unfold put. rewrite Ec, Hm. simpl.
           assert (Hl : lookup (toc (hnth hs i)) k = None).
           { destruct Hf as [Ht _]. rewrite Ht. pose proof (lookup_index_assoc rs (len H) k) as L. rewrite Ea in L.
             destruct (lookup (index_from (len H) rs) k); [contradiction|reflexivity]. }
           rewrite Hl. unfold enc_block. fold (wfb k v). rewrite Ew. simpl. unfold hnth. rewrite upd_nth_id by exact Hok.
           split; [constructor; assumption|split; [|reflexivity]].
           fold (hnth hs i). rewrite Ec, Hm. simpl. rewrite Ea, ?Ew. split; reflexivity.
  - (* Get *)
    exists rs. cbn [step op_handle]. simpl. fold (hnth hs i).
    split; [constructor; assumption|split; [split; [reflexivity|]|reflexivity]].
    destruct (closed (hnth hs i)) eqn:Ec.
    + unfold get. rewrite Ec. reflexivity.
    + pose proof (get_spec H rs [] (hnth hs i) k (Iopen i Ec) Ec) as G. rewrite app_nil_r, <- If in G.
      rewrite G. destruct (assoc rs k); reflexivity.
  - (* Keys *)
    exists rs. cbn [step op_handle]. simpl. fold (hnth hs i).
    split; [constructor; assumption|split; [split; [reflexivity|]|intros e He; discriminate]].
    destruct (closed (hnth hs i)) eqn:Ec.
    + destruct (snap_keys H rs _ (Isnap i)) as [m Hm]. exists m. rewrite Hm. reflexivity.
    + destruct (Iopen i Ec) as [Ht _]. unfold keys. rewrite Ht, map_fst_index. reflexivity.
Qed.

(* ---------- every disciplined history ---------- *)
Fixpoint ok_run (w : world) (ops : list op) : Prop :=
  match ops with
  | [] => True
  | o :: ops' => ok_op w o /\ ok_run (fst (step w o)) ops'
  end.

(* abstract run: results are those of the insert-only map *)
Fixpoint run_spec (rs : list kv) (w : world) (ops : list op) (out : list res) (rs_final : list kv) : Prop :=
  match ops, out with
  | [], [] => rs_final = rs
  | o :: ops', r :: out' =>
      exists rs', step_spec rs (hnth (snd w) (op_handle o)) o r rs' /\
                  run_spec rs' (fst (step w o)) ops' out' rs_final
  | _, _ => False
  end.

Theorem run_refines H : forall ops rs w,
  Inv H rs w -> ok_run w ops ->
  exists rs', Inv H rs' (snd (run w ops)) /\ run_spec rs w ops (fst (run w ops)) rs'.
Proof.
  induction ops as [|o ops IH]; intros rs w I Hok.
  - exists rs. simpl. split; [exact I|reflexivity].
  - destruct Hok as [Ho Hrest].
    destruct (step_refines H rs w o I Ho) as [rs1 [I1 [S1 _]]].
    destruct (IH rs1 (fst (step w o)) I1 Hrest) as [rs2 [I2 R2]].
    exists rs2. simpl. destruct (step w o) as [w1 r1] eqn:Es. simpl in *.
    destruct (run w1 ops) as [rs_out wf] eqn:Er. simpl in *.
    split; [exact I2|]. exists rs1. split; assumption.
Qed.

(* initial world: a freshly created file and n handle objects that were never opened *)
Lemma inv_init H n : hdr_ok H -> Inv H [] (H, repeat h0 n).
Proof.
  intros Hok. constructor; simpl; try assumption.
  - unfold blocks. simpl. rewrite app_nil_r. reflexivity.
  - constructor.
  - constructor.
  - intros i. unfold hnth. replace (nth i (repeat h0 n) h0) with h0; [apply snap_h0|].
    destruct (Nat.lt_ge_cases i n) as [L|L]; [rewrite nth_repeat; reflexivity|rewrite nth_overflow; [reflexivity|rewrite repeat_length; exact L]].
  - intros i. unfold hnth. replace (nth i (repeat h0 n) h0) with h0; [simpl; discriminate|].
    destruct (Nat.lt_ge_cases i n) as [L|L]; [rewrite nth_repeat; reflexivity|rewrite nth_overflow; [reflexivity|rewrite repeat_length; exact L]].
  - intros i j _. unfold hnth. replace (nth i (repeat h0 n) h0) with h0; [simpl; discriminate|].
    destruct (Nat.lt_ge_cases i n) as [L|L]; [rewrite nth_repeat; reflexivity|rewrite nth_overflow; [reflexivity|rewrite repeat_length; exact L]].
Qed.

(* ---------- C03: crash images ---------- *)
(* the records of the interrupted session that lie wholly inside the first n bytes of its stream *)
Fixpoint complete (n : nat) (ps : list kv) : list kv :=
  match ps with
  | [] => []
  | p :: ps' => let l := length (encb (fst p) (snd p)) in
                if (l <=? n)%nat then p :: complete (n - l) ps' else []
  end.

Lemma complete_cons n p ps :
  complete n (p :: ps) = if (length (encb (fst p) (snd p)) <=? n)%nat
                         then p :: complete (n - length (encb (fst p) (snd p))) ps else [].
Proof. reflexivity. Qed.

Lemma firstn_blocks ps : forall n, Forall wfkv ps ->
  exists tl, firstn n (blocks ps) = blocks (complete n ps) ++ tl /\ torn tl.
Proof.
  induction ps as [|p ps IH]; intros n Hwf.
  - exists []. simpl. rewrite firstn_nil. split; [reflexivity|left; reflexivity].
  - inversion Hwf as [|x l Hp Hrest]; subst. rewrite blocks_cons, complete_cons.
    destruct (length (encb (fst p) (snd p)) <=? n)%nat eqn:E.
    + apply Nat.leb_le in E. destruct (IH (n - length (encb (fst p) (snd p)))%nat Hrest) as [tl [Ht Htorn]].
      exists tl. split; [|exact Htorn]. rewrite firstn_app. rewrite firstn_all2 by exact E.
      rewrite Ht, blocks_cons, <- app_assoc. reflexivity.
    + apply Nat.leb_gt in E. exists (firstn n (encb (fst p) (snd p))). split.
      * rewrite firstn_app. replace (n - length (encb (fst p) (snd p)))%nat with 0%nat by lia.
        simpl. rewrite app_nil_r. reflexivity.
      * right. exists (fst p), (snd p), n. split; [destruct p; exact Hp|split; [exact E|reflexivity]].
Qed.

Lemma complete_prefix n ps : exists j, complete n ps = firstn j ps.
Proof.
  revert n. induction ps as [|p ps IH]; intros n; [exists 0%nat; reflexivity|].
  rewrite complete_cons. destruct (length (encb (fst p) (snd p)) <=? n)%nat.
  - destruct (IH (n - length (encb (fst p) (snd p)))%nat) as [j Hj]. exists (S j). rewrite Hj. reflexivity.
  - exists 0%nat. reflexivity.
Qed.

Definition crash_image (H : bytes) (rs ps : list kv) (n : nat) : bytes :=
  H ++ blocks rs ++ firstn n (blocks ps).

Lemma firstn_incl_nodup {A} (l : list A) j : NoDup l -> NoDup (firstn j l).
Proof. intros Hn. rewrite <- (firstn_skipn j l) in Hn. apply NoDup_app_l in Hn. exact Hn. Qed.

(* Reopening ANY crash image with any handle whose cached table is a (possibly stale) snapshot of the
   committed records: the table of contents becomes exactly committed ++ complete; a torn record is never
   listed; in append mode the file is cut back to exactly the complete blocks. *)
Theorem crash_reopen H rs ps n h m :
  hdr_ok H -> Forall wfkv (rs ++ ps) -> NoDup (map fst (rs ++ ps)) ->
  snap H rs h -> closed h = true ->
  exists h', open_ (crash_image H rs ps n) h m =
             (match m with MA => H ++ blocks (rs ++ complete n ps) | MR => crash_image H rs ps n end, h')
             /\ full H (rs ++ complete n ps) h' /\ md h' = m /\ closed h' = false.
Proof.
  intros Hok Hwf Hnd Hs Hc. apply Forall_app in Hwf. destruct Hwf as [Hwr Hwp].
  destruct (firstn_blocks ps n Hwp) as [tl [Ht Htorn]].
  destruct (complete_prefix n ps) as [j Hj].
  assert (Hwf' : Forall wfkv (rs ++ complete n ps)).
  { apply Forall_app. split; [exact Hwr|]. rewrite Hj. apply Forall_forall. intros x Hx.
    rewrite Forall_forall in Hwp. apply Hwp. eapply in_firstn. exact Hx. }
  assert (Hnd' : NoDup (map fst (rs ++ complete n ps))).
  { rewrite Hj. replace (rs ++ firstn j ps) with (firstn (length rs + j) (rs ++ ps)).
    - rewrite <- firstn_map. apply firstn_incl_nodup. exact Hnd.
    - rewrite firstn_app_2. reflexivity. }
  assert (Hs' : snap H (rs ++ complete n ps) h).
  { destruct Hs as [m0 [Ht0 He0]]. exists (Nat.min m0 (length rs)).
    assert (E : firstn (Nat.min m0 (length rs)) (rs ++ complete n ps) = firstn m0 rs).
    { rewrite firstn_app. replace (Nat.min m0 (length rs) - length rs)%nat with 0%nat by lia.
      simpl. rewrite app_nil_r. destruct (Nat.le_ge_cases m0 (length rs)) as [L|L].
      - rewrite Nat.min_l by exact L. reflexivity.
      - rewrite Nat.min_r by exact L. rewrite firstn_all. symmetry. apply firstn_all2. exact L. }
    rewrite E. split; assumption. }
  destruct (open_spec H (rs ++ complete n ps) tl h m Hok Hwf' Hnd' Htorn Hs' Hc) as [h' [E R]].
  exists h'. split; [|exact R].
  unfold crash_image. rewrite Ht. rewrite blocks_app in E. rewrite <- app_assoc in E.
  rewrite E. destruct m; [|rewrite blocks_app]; reflexivity.
Qed.

