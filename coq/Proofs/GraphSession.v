(* C15: sessions (Model/GraphSession.v) -- what an accepted session certifies, and what the edits do to the graph. *)
From Coq Require Import Arith List Bool NArith QArith Sorted Lia.
From Molli Require Import Model.Graph Model.Match Model.GraphSession.
From Molli Require Import Proofs.Graph Proofs.GraphTop Proofs.GraphAdj Proofs.Match.
Import ListNotations.
Open Scope nat_scope.

(* ================================================================ the checker, step by step *)
Theorem run_steps_spec : forall steps w,
  run_steps w steps = true <->
  (forall pre x post, steps = pre ++ x :: post -> check_step (world_after w pre) x = true).
Proof.
  induction steps as [|y r IH]; intros w; cbn [run_steps].
  - split; [intros _ pre x post E; destruct pre; discriminate|reflexivity].
  - rewrite andb_true_iff, IH. split.
    + intros [H1 H2] pre x post E. destruct pre as [|p pre]; cbn [app] in E; inversion E; subst.
      * exact H1.
      * unfold world_after. cbn [fold_left]. now apply (H2 pre x post).
    + intros H. split; [exact (H [] y r eq_refl)|].
      intros pre x post E. apply (H (y :: pre) x post). cbn [app]. now rewrite E.
Qed.

(* ---- boolean comparisons used by check_query / check_mcase decide equality ---- *)
Lemma eqb_list_true {A} (e : A -> A -> bool) : (forall x y, e x y = true -> x = y) ->
  forall l1 l2, eqb_list e l1 l2 = true -> l1 = l2.
Proof.
  intros He. induction l1 as [|x r IH]; destruct l2 as [|y r2]; cbn [eqb_list]; try discriminate; [reflexivity|].
  intros H. apply andb_true_iff in H. destruct H as [H1 H2]. f_equal; [now apply He|now apply IH].
Qed.

Lemma eqb_list_refl {A} (e : A -> A -> bool) : (forall x, e x x = true) -> forall l, eqb_list e l l = true.
Proof. intros He. induction l as [|x r IH]; [reflexivity|]. cbn [eqb_list]. now rewrite He, IH. Qed.

Lemma eqb_pair_true p q : eqb_pair p q = true -> p = q.
Proof.
  destruct p as [a b], q as [c d]. unfold eqb_pair. cbn [fst snd]. rewrite andb_true_iff, !Nat.eqb_eq.
  intros [-> ->]. reflexivity.
Qed.

Lemma eqb_nat_true x y : Nat.eqb x y = true -> x = y.
Proof. apply Nat.eqb_eq. Qed.

Lemma eqb_bres_true {A} (e : A -> A -> bool) : (forall x y, e x y = true -> x = y) ->
  forall r1 r2, eqb_bres e r1 r2 = true -> r1 = r2.
Proof.
  intros He r1 r2. destruct r1, r2; cbn [eqb_bres]; try discriminate; try reflexivity.
  intros H. f_equal. now apply (eqb_list_true e He).
Qed.

Lemma eqb_optbool_true a b : eqb_optbool a b = true -> a = b.
Proof.
  destruct a as [x|], b as [y|]; cbn [eqb_optbool]; try discriminate; [|reflexivity].
  intros H. apply Bool.eqb_prop in H. now subst.
Qed.

(* what one accepted observation says *)
Definition query_holds (g : graph) (types : list (N * Q)) (q : query) : Prop :=
  match q with
  | QBfsd s dir obs => yield_bfsd g s dir = obs
  | QBfs s dir obs => yield_bfs g s dir = obs
  | QRing bi obs => exists b, nth_error g bi = Some b /\ is_bond_in_ring g b = obs
  | QBonds a obs => bonds_with_atom g a = obs
  | QConn a obs => connected_atoms g a = obs
  | QNb a obs => n_bonds_with_atom g a = obs
  | QVal a obs => (bonded_valence g (ord_of types) a == obs)%Q
  end.

Theorem check_query_sound g types q : check_query g types q = true -> query_holds g types q.
Proof.
  destruct q; cbn [check_query query_holds]; intros H.
  - now apply (eqb_bres_true eqb_pair eqb_pair_true).
  - now apply (eqb_bres_true Nat.eqb eqb_nat_true).
  - destruct (nth_error g bi) as [b|]; [|discriminate]. exists b. split; [reflexivity|now apply eqb_optbool_true].
  - now apply (eqb_list_true Nat.eqb eqb_nat_true).
  - now apply (eqb_list_true Nat.eqb eqb_nat_true).
  - now apply Nat.eqb_eq.
  - now apply Qeq_bool_iff.
Qed.

Lemma eqb_list_nat l1 l2 : eqb_list Nat.eqb l1 l2 = true <-> l1 = l2.
Proof.
  split; [apply (eqb_list_true Nat.eqb eqb_nat_true)|]. intros ->. apply eqb_list_refl. apply Nat.eqb_refl.
Qed.

Lemma existsb_eqb_list x l : existsb (eqb_list Nat.eqb x) l = true <-> In x l.
Proof.
  rewrite existsb_exists. split.
  - intros [y [Hy E]]. apply eqb_list_nat in E. now subst.
  - intros H. exists x. split; [exact H|now apply eqb_list_nat].
Qed.

Lemma incl_b_spec l1 l2 : incl_b l1 l2 = true <-> incl l1 l2.
Proof.
  induction l1 as [|x r IH]; cbn [incl_b].
  - split; [intros _ y []|reflexivity].
  - rewrite andb_true_iff, existsb_eqb_list, IH. split.
    + intros [H1 H2] y [<-|Hy]; [exact H1|now apply H2].
    + intros H. split; [apply H; now left|intros y Hy; apply H; now right].
Qed.

Lemma nodup_b_spec l : nodup_b l = true <-> NoDup l.
Proof.
  induction l as [|x r IH]; cbn [nodup_b].
  - split; [constructor|reflexivity].
  - rewrite andb_true_iff, negb_true_iff, IH, <- not_true_iff_false, existsb_eqb_list. split.
    + intros [H1 H2]. now constructor.
    + intros H. inversion H; subst. now split.
Qed.

(* an accepted matching observation lists exactly the induced embeddings, none twice *)
Theorem check_mcase_spec c : check_mcase c = true ->
  NoDup (mc_obs c) /\ forall f, In f (mc_obs c) <-> embedding (mc_host c) (mc_pat c) f.
Proof.
  unfold check_mcase. rewrite !andb_true_iff. intros [[[Hn _] H1] H2].
  apply nodup_b_spec in Hn. apply incl_b_spec in H1. apply incl_b_spec in H2.
  split; [exact Hn|]. intros f. rewrite <- enum_sound_complete. split; [apply H2|apply H1].
Qed.

(* ================================================================ an accepted session *)
(* Every answer recorded anywhere in the session is the model's answer on the state produced by the edits made
   BEFORE it -- whatever was asked earlier, and however often. *)
Definition step_holds (w : sworld) (x : sstep) : Prop :=
  match x with
  | SHost _ | SPat _ _ => True
  | SQuery qs => forall q, In q qs -> query_holds (ss_graph (fst w)) (ss_types (fst w)) q
  | SMatch k obs => NoDup obs /\ forall f, In f obs <-> embedding (ss_mgraph (fst w)) (ss_mgraph (pat_at w k)) f
  end.

Theorem session_sound c : check_scase c = true ->
  forall pre x post, sc_steps c = pre ++ x :: post ->
  step_holds (world_after (sc_host c, sc_pats c) pre) x.
Proof.
  unfold check_scase. intros H pre x post E.
  pose proof (proj1 (run_steps_spec _ _) H pre x post E) as Hx.
  destruct x; cbn [step_holds check_step] in *; [exact I|exact I| |].
  - rewrite forallb_forall in Hx. intros q Hq. apply check_query_sound. now apply Hx.
  - apply check_mcase_spec in Hx. exact Hx.
Qed.

(* queries do not change the world: asking is free *)
Lemma world_after_queries w steps :
  (forall x, In x steps -> match x with SQuery _ | SMatch _ _ => True | _ => False end) -> world_after w steps = w.
Proof.
  revert w. induction steps as [|x r IH]; intros w H; [reflexivity|].
  unfold world_after. cbn [fold_left]. assert (Hx := H x (or_introl eq_refl)).
  destruct x; try contradiction; cbn [step_world]; apply IH; intros y Hy; apply H; now right.
Qed.

(* ---- the property's clauses, read off an accepted session at ANY point of its history ---- *)
Section Now.
  Variable c : scase.
  Hypothesis Hc : check_scase c = true.
  Variables (pre post : list sstep) (qs : list query).
  Hypothesis Hsteps : sc_steps c = pre ++ SQuery qs :: post.
  Let g := ss_graph (fst (world_after (sc_host c, sc_pats c) pre)).

  Lemma now_holds q : In q qs -> query_holds g (ss_types (fst (world_after (sc_host c, sc_pats c) pre))) q.
  Proof. intros Hq. exact (session_sound c Hc pre (SQuery qs) post Hsteps q Hq). Qed.

  Theorem session_bfs_now s out : In (QBfsd s None (BOk out)) qs ->
    NoDup (map fst out) /\ ~ In s (map fst out) /\ StronglySorted le (map snd out) /\
    (forall v, In v (map fst out) <-> reach g s v /\ v <> s) /\
    (forall v d, In (v, d) out -> is_dist g s v d).
  Proof. intros Hq. apply now_holds in Hq. cbn [query_holds] in Hq. now apply yield_bfsd_correct. Qed.

  Theorem session_bfs_dir_now s d out : d <> s -> In (QBfsd s (Some d) (BOk out)) qs ->
    adj g s d /\ NoDup (map fst out) /\ (forall v, In v (map fst out) <-> reach (remove_vertex g s) d v).
  Proof.
    intros Hds Hq. apply now_holds in Hq. cbn [query_holds] in Hq. split.
    - apply (proj1 (yield_bfsd_dir_total g s d)). now exists out.
    - destruct (yield_bfsd_dir_correct g s d out Hds Hq) as (rest & _ & Hnd & _ & _ & Hr & _). now split.
  Qed.

  Theorem session_ring_now bi x y r : In (QRing bi (Some r)) qs -> nth_error g bi = Some (x, y) -> x <> y ->
    (r = true <-> reach (remove_bond g x y) x y).
  Proof.
    intros Hq Hb Hxy. apply now_holds in Hq. cbn [query_holds] in Hq. destruct Hq as [b [Hb' Hr]].
    rewrite Hb in Hb'. injection Hb' as <-.
    assert (Ha : adj g x y) by (left; eapply nth_error_In; eassumption).
    rewrite <- (ring_iff_not_bridge g x y Hxy Ha), Hr. split; [now intros ->|now intros [= ->]].
  Qed.

  Theorem session_adjacency_now a :
    (forall obs, In (QConn a obs) qs -> forall b, In b obs <-> adj g a b) /\
    (forall obs, In (QBonds a obs) qs -> forall i, In i obs <-> exists b, nth_error g i = Some b /\ (fst b = a \/ snd b = a)) /\
    (forall n, In (QNb a n) qs -> n = length (filter (fun b => bond_has b a) g)).
  Proof.
    split; [|split].
    - intros obs Hq b. apply now_holds in Hq. cbn [query_holds] in Hq. rewrite <- Hq. apply connected_atoms_spec.
    - intros obs Hq i. apply now_holds in Hq. cbn [query_holds] in Hq. rewrite <- Hq. apply bonds_with_atom_spec.
    - intros n Hq. apply now_holds in Hq. cbn [query_holds] in Hq. rewrite <- Hq. apply n_bonds_with_atom_count.
  Qed.
End Now.

Theorem session_match_now c : check_scase c = true ->
  forall pre k obs post, sc_steps c = pre ++ SMatch k obs :: post ->
  let w := world_after (sc_host c, sc_pats c) pre in
  NoDup obs /\ forall f, In f obs <-> embedding (ss_mgraph (fst w)) (ss_mgraph (pat_at w k)) f.
Proof. intros Hc pre k obs post E. exact (session_sound c Hc pre (SMatch k obs) post E). Qed.

(* ================================================================ what the edits do to the graph *)
Lemma map_upd_nth {A B} (h : A -> B) (f : A -> A) : (forall x, h (f x) = h x) ->
  forall i l, map h (upd_nth i f l) = map h l.
Proof.
  intros Hf i l. revert i. induction l as [|x r IH]; intros [|i]; cbn [upd_nth map]; try reflexivity.
  - now rewrite Hf.
  - now rewrite IH.
Qed.

Lemma map_remove_nth {A B} (h : A -> B) : forall i l, map h (remove_nth i l) = remove_nth i (map h l).
Proof. intros i l. revert i. induction l as [|x r IH]; intros [|i]; cbn [remove_nth map]; try reflexivity. now rewrite IH. Qed.

Lemma length_upd_nth {A} (f : A -> A) : forall i l, length (upd_nth i f l) = length l.
Proof. intros i l. revert i. induction l as [|x r IH]; intros [|i]; cbn [upd_nth length]; try reflexivity. now rewrite IH. Qed.

(* attribute assignments and a new (unbonded) atom leave the bond list's topology alone: every BFS / ring /
   adjacency answer must stay what it was ... *)
Theorem edit_keeps_topology s :
  (forall i a, ss_graph (apply_edit (ESetAtom i a) s) = ss_graph s) /\
  (forall i bt st lab f, ss_graph (apply_edit (ESetBond i bt st lab f) s) = ss_graph s) /\
  (forall a, ss_graph (apply_edit (EAddAtom a) s) = ss_graph s).
Proof.
  split; [reflexivity|]. split; [|reflexivity].
  intros i bt st lab f. unfold ss_graph. cbn [apply_edit ss_bonds]. apply map_upd_nth. reflexivity.
Qed.

(* ... and both count the same atoms and bonds as before, although matching may now answer differently *)
Theorem edit_keeps_counts s :
  (forall i a, counts (apply_edit (ESetAtom i a) s) = counts s) /\
  (forall i bt st lab f, counts (apply_edit (ESetBond i bt st lab f) s) = counts s).
Proof.
  split; intros; unfold counts; cbn [apply_edit ss_atoms ss_bonds]; now rewrite length_upd_nth.
Qed.

Lemma adj_app g b x y : adj (g ++ [b]) x y <-> adj g x y \/ joins b x y = true.
Proof.
  unfold adj. rewrite !in_app_iff, joins_true. cbn [In]. destruct b as [p q]. cbn [fst snd]. split.
  - intros [[H|[H|[]]]|[H|[H|[]]]]; try tauto; injection H as <- <-; tauto.
  - intros [[H|H]|[[<- <-]|[<- <-]]]; tauto.
Qed.

(* connect adds exactly the one adjacency *)
Theorem edit_connect_adj s b f x y :
  adj (ss_graph (apply_edit (EConnect b f) s)) x y <-> adj (ss_graph s) x y \/ joins (mb_a1 b, mb_a2 b) x y = true.
Proof. unfold ss_graph. cbn [apply_edit ss_bonds]. rewrite map_app. cbn [map fst]. apply adj_app. Qed.

Lemma filter_none_all {A} (p : A -> bool) l : length (filter p l) = 0 -> filter (fun x => negb (p x)) l = l.
Proof.
  induction l as [|x r IH]; [reflexivity|]. cbn [filter]. destruct (p x); cbn [negb length]; [discriminate|].
  intros H. now rewrite IH.
Qed.

(* in a simple graph deleting bond number i is `remove_bond` of its end points -- the graph the ring clause speaks of *)
Lemma remove_nth_remove_bond : forall g i a b, simple g -> nth_error g i = Some (a, b) ->
  remove_nth i g = remove_bond g a b.
Proof.
  induction g as [|c r IH]; intros [|i] a b Hs Hn; cbn [nth_error] in Hn; try discriminate.
  - injection Hn as ->. unfold remove_bond. cbn [remove_nth filter].
    assert (Hj : joins (a, b) a b = true) by (apply joins_true; cbn [fst snd]; tauto).
    rewrite Hj. cbn [negb]. symmetry. apply filter_none_all.
    destruct Hs as [_ Hcnt]. specialize (Hcnt a b). unfold count_joins in Hcnt. cbn [filter] in Hcnt.
    rewrite Hj in Hcnt. cbn [length] in Hcnt. lia.
  - unfold remove_bond. cbn [remove_nth filter].
    assert (Hr : 1 <= count_joins r a b).
    { apply adj_count_joins. left. eapply nth_error_In; eassumption. }
    assert (Hj : joins c a b = false).
    { destruct (joins c a b) eqn:E; [|reflexivity]. destruct Hs as [_ Hcnt]. specialize (Hcnt a b).
      unfold count_joins in *. cbn [filter] in Hcnt. rewrite E in Hcnt. cbn [length] in Hcnt. lia. }
    rewrite Hj. cbn [negb]. f_equal. apply (IH i a b (simple_tail _ _ Hs) Hn).
Qed.

Theorem edit_del_bond s i a b : simple (ss_graph s) -> nth_error (ss_graph s) i = Some (a, b) ->
  ss_graph (apply_edit (EDelBond i) s) = remove_bond (ss_graph s) a b /\
  (forall x y, adj (ss_graph (apply_edit (EDelBond i) s)) x y <->
               adj (ss_graph s) x y /\ ~ (x = a /\ y = b) /\ ~ (x = b /\ y = a)).
Proof.
  intros Hs Hn.
  assert (E : ss_graph (apply_edit (EDelBond i) s) = remove_bond (ss_graph s) a b).
  { unfold ss_graph at 1. cbn [apply_edit ss_bonds]. rewrite map_remove_nth. now apply remove_nth_remove_bond. }
  split; [exact E|]. intros x y. rewrite E. apply adj_remove_bond.
Qed.

(* ================================================================ why (number of atoms, number of bonds) is no stamp *)
(* 4-chlorobutan-1-ol skeleton Cl0-C1-C2-C3-C4-O5.  Halogen exchange in place, and moving the hydroxyl from C4 to C2
   (del_bond then connect), keep both counts -- and change what matching and BFS must answer. *)
Definition ex_c : matom := mk_matom 6 None 0 1.
Definition ex_sb (a b : nat) : mbond * Q := (mk_mbond a b 1 0 None, 1%Q).
Definition ex_host : sstate :=
  mk_sstate [mk_matom 17 None 0 1; ex_c; ex_c; ex_c; ex_c; mk_matom 8 None 0 1]
            [ex_sb 0 1; ex_sb 1 2; ex_sb 2 3; ex_sb 3 4; ex_sb 4 5].
Definition ex_ccl : sstate := mk_sstate [ex_c; mk_matom 17 None 0 1] [ex_sb 0 1].
Definition ex_halex : sedit := ESetAtom 0 (mk_matom 35 None 0 1).
Definition ex_move (s : sstate) : sstate := apply_edit (EConnect (mk_mbond 2 5 1 0 None) 1%Q) (apply_edit (EDelBond 4) s).

Theorem count_stamp_insufficient :
  counts (apply_edit ex_halex ex_host) = counts ex_host /\
  enum (ss_mgraph ex_host) (ss_mgraph ex_ccl) = [[1; 0]] /\
  enum (ss_mgraph (apply_edit ex_halex ex_host)) (ss_mgraph ex_ccl) = [] /\
  counts (ex_move ex_host) = counts ex_host /\
  yield_bfsd (ss_graph ex_host) 5 None = BOk [(4,1); (3,2); (2,3); (1,4); (0,5)] /\
  yield_bfsd (ss_graph (ex_move ex_host)) 5 None = BOk [(2,1); (1,2); (3,2); (0,3); (4,3)] /\
  (* the same holds for an edited PATTERN *)
  counts (apply_edit (ESetAtom 1 (mk_matom 8 None 0 1)) ex_ccl) = counts ex_ccl /\
  enum (ss_mgraph ex_host) (ss_mgraph (apply_edit (ESetAtom 1 (mk_matom 8 None 0 1)) ex_ccl)) = [[4; 5]].
Proof. repeat (split; [vm_compute; reflexivity|]). vm_compute. reflexivity. Qed.

(* a session that is accepted: ask, exchange the halogen, ask again, move the hydroxyl, ask again, edit the pattern, ask *)
Definition ex_session : scase :=
  mk_scase ex_host [ex_ccl]
    [SMatch 0 [[1; 0]]; SQuery [QBfsd 5 None (BOk [(4,1); (3,2); (2,3); (1,4); (0,5)]); QRing 4 (Some false)];
     SHost ex_halex; SMatch 0 [];
     SHost (EDelBond 4); SHost (EConnect (mk_mbond 2 5 1 0 None) 1%Q);
     SQuery [QBfsd 5 None (BOk [(2,1); (1,2); (3,2); (0,3); (4,3)]); QConn 4 [3]; QVal 2 3%Q];
     SPat 0 (ESetAtom 1 (mk_matom 8 None 0 1)); SMatch 0 [[2; 5]];
     SHost (ESetBond 4 2 0 None 1%Q); SQuery [QVal 2 4%Q]; SMatch 0 [[2; 5]]].
Example ex_session_accepted : check_scase ex_session = true.
Proof. vm_compute. reflexivity. Qed.
(* ... and the stale answers are rejected *)
Example ex_session_stale_rejected :
  check_scase (mk_scase ex_host [ex_ccl] [SMatch 0 [[1; 0]]; SHost ex_halex; SMatch 0 [[1; 0]]]) = false /\
  check_scase (mk_scase ex_host [ex_ccl] [SQuery [QConn 4 [3; 5]]; SHost (EDelBond 4); SQuery [QConn 4 [3; 5]]]) = false.
Proof. split; vm_compute; reflexivity. Qed.
