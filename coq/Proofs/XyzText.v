(* C08 (and the concrete instance of the C10 xyz theorems): what the xyz WRITER model emits is well formed
   for the reader (so Proofs/Parse.v applies), the round trip, frames, and the unit-scaling law over R. *)
From Coq Require Import List Bool Arith NArith ZArith QArith Ascii String Lia.
From Molli Require Import Common.ParseStr Common.ParseStrFacts Model.Parse Model.XyzText Proofs.Parse.
Import ListNotations.
Local Open Scope char_scope.
Local Open Scope list_scope.

(* ---------------------------------------------------------------- table conditions (decided by computation on Gen) *)
Definition tokb (s : str) : bool := match s with [] => false | _ => forallb nonws s end.
Lemma tokb_tok s : tokb s = true -> tok s.
Proof. destruct s; [discriminate|]. intros H. split; [discriminate|exact H]. Qed.

Definition optZ_eqb (a b : option Z) : bool :=
  match a, b with Some x, Some y => (x =? y)%Z | None, None => true | _, _ => false end.

(* every symbol is one token, is not the dummy marker "*", and Element.get(symbol) gives the element back *)
Definition sym_ok (names : list (str * Z)) (p : Z * str) : bool :=
  tokb (snd p) && negb (str_eqb (snd p) star) && optZ_eqb (elem_of_name names (capitalize (snd p))) (Some (fst p)).
Definition vocab_ok (names : list (str * Z)) (syms : list (Z * str)) : bool := forallb (sym_ok names) syms.

Lemma assoc_Z_in {B} z (t : list (Z * B)) v : assoc_Z z t = Some v -> In (z, v) t.
Proof.
  induction t as [|[k w] t IH]; [discriminate|]. simpl. destruct (Z.eqb_spec z k) as [->|Hne].
  - intros H. injection H as ->. now left.
  - intros H. right. now apply IH.
Qed.
Lemma vocab_ok_sym names syms z s : vocab_ok names syms = true -> symbol_of syms z = Some s ->
  tok s /\ xyz_elem (elem_of_name names) s = Some z.
Proof.
  intros Hv Hs. apply assoc_Z_in in Hs. unfold vocab_ok in Hv. rewrite forallb_forall in Hv. specialize (Hv _ Hs).
  unfold sym_ok in Hv. simpl in Hv. apply andb_prop in Hv. destruct Hv as [Hv H3]. apply andb_prop in Hv. destruct Hv as [H1 H2].
  split; [now apply tokb_tok|]. unfold xyz_elem. apply negb_true_iff in H2. rewrite H2.
  destruct (elem_of_name names (capitalize s)) as [z'|]; [|discriminate]. simpl in H3. apply Z.eqb_eq in H3. now subst.
Qed.

(* ---------------------------------------------------------------- one atom line *)
Lemma fmt12_shape d : exists k, fmt12 d = blanks k ++ print_dec6 (fst d) (snd d).
Proof. unfold fmt12, rjust. eexists. reflexivity. Qed.

Lemma xyz_atom_line sym a : tok sym ->
  xyz_atom (atom_line sym a) = Some (mk_xatom sym (dec_val (wa_x a)) (dec_val (wa_y a)) (dec_val (wa_z a))).
Proof.
  intros Hs. unfold atom_line, ljust.
  destruct (fmt12_shape (wa_x a)) as [kx Ex]. destruct (fmt12_shape (wa_y a)) as [ky Ey]. destruct (fmt12_shape (wa_z a)) as [kz Ez].
  rewrite Ex, Ey, Ez.
  set (X := print_dec6 (fst (wa_x a)) (snd (wa_x a))). set (Y := print_dec6 (fst (wa_y a)) (snd (wa_y a))).
  set (Z := print_dec6 (fst (wa_z a)) (snd (wa_z a))). set (k := (5 - List.length sym)%nat).
  assert (E : (sym ++ blanks k) ++ " " :: (blanks kx ++ X) ++ " " :: (blanks ky ++ Y) ++ " " :: blanks kz ++ Z
              = [] ++ wline [(sym, blanks k ++ " " :: blanks kx); (X, " " :: blanks ky); (Y, " " :: blanks kz)] Z).
  { simpl. repeat rewrite <- app_assoc. simpl. repeat rewrite <- app_assoc. reflexivity. }
  unfold xyz_atom. rewrite E. rewrite split_wline.
  - assert (HZ : Z <> []) by (destruct (print_dec6_tok (fst (wa_z a)) (snd (wa_z a))) as [H _]; exact H).
    simpl. destruct Z as [|z0 Z'] eqn:EZ; [contradiction|]. rewrite <- EZ. subst X Y Z.
    rewrite !parse_float_print_dec6. reflexivity.
  - reflexivity.
  - constructor; [cbn [fst snd]; split; [exact Hs|split]|].
    + intros H. destruct (blanks k); discriminate H.
    + apply all_ws_app; [apply blanks_ws|apply all_ws_cons_blank, blanks_ws].
    + constructor; [cbn [fst snd]; split; [apply print_dec6_tok|split; [discriminate|apply all_ws_cons_blank, blanks_ws]]|].
      constructor; [cbn [fst snd]; split; [apply print_dec6_tok|split; [discriminate|apply all_ws_cons_blank, blanks_ws]]|].
      constructor.
  - right. apply print_dec6_tok.
Qed.

(* ---------------------------------------------------------------- one geometry *)
Definition watom_x (sym : str) (a : watom) : xatom := mk_xatom sym (dec_val (wa_x a)) (dec_val (wa_y a)) (dec_val (wa_z a)).

Lemma write_atoms_wf names syms atoms : vocab_ok names syms = true -> forall ls, map_opt (write_atom syms) atoms = Some ls ->
  exists xs, Forall2 (fun l a => xyz_atom l = Some a) ls xs /\ List.length xs = List.length atoms /\
             map_opt (fun a => xyz_elem (elem_of_name names) (xa_sym a)) xs = Some (map wa_elem atoms) /\
             map (fun a => (xa_x a, xa_y a, xa_z a)) xs =
             map (fun a => (dec_val (wa_x a), dec_val (wa_y a), dec_val (wa_z a))) atoms.
Proof.
  intros Hv. induction atoms as [|a atoms IH]; intros ls H; simpl in H.
  - injection H as <-. exists []. repeat split; constructor.
  - unfold write_atom at 1 in H. destruct (symbol_of syms (wa_elem a)) as [s|] eqn:Es; [|discriminate].
    destruct (map_opt (write_atom syms) atoms) as [ls'|] eqn:E; [|discriminate]. injection H as <-.
    destruct (IH ls' eq_refl) as [xs [H1 [H2 [H3 H4]]]]. destruct (vocab_ok_sym names syms _ _ Hv Es) as [Ht He].
    exists (watom_x s a :: xs). repeat split.
    + constructor; [now apply xyz_atom_line|exact H1].
    + simpl. now rewrite H2.
    + simpl. rewrite He, H3. reflexivity.
    + simpl. now rewrite H4.
Qed.

Definition geom_block (g : wgeom) (xs : list xatom) : xblock :=
  mk_xblock (Z.of_nat (List.length (wg_atoms g))) (strip (wg_name g)) xs.

Lemma write_geom_wf (P : str -> Prop) names syms g ls : vocab_ok names syms = true -> P (wg_name g) ->
  write_geom syms g = Some ls ->
  exists xs, xwf P (geom_block g xs) ls /\ xyz_build true (elem_of_name names) (geom_block g xs) = Ok (geom_mol g).
Proof.
  intros Hv HP H. unfold write_geom in H. destruct (map_opt (write_atom syms) (wg_atoms g)) as [als|] eqn:E; [|discriminate].
  injection H as <-. destruct (write_atoms_wf names syms _ Hv als E) as [xs [H1 [H2 [H3 H4]]]].
  exists xs. split.
  - unfold geom_block. constructor; [|now rewrite H2|exact H1|exact HP].
    rewrite parse_int_print_N. now rewrite nat_N_Z.
  - unfold xyz_build, geom_block. cbn [xb_n xb_atoms].
    destruct (Z.ltb_spec (Z.of_nat (List.length (wg_atoms g))) 0); [lia|].
    rewrite andb_false_r. rewrite H3, H4. reflexivity.
Qed.

Lemma write_xyz_wf (P : str -> Prop) names syms gs : vocab_ok names syms = true -> Forall (fun g => P (wg_name g)) gs ->
  forall ls, write_xyz syms gs = Some ls ->
  exists bs, xwf_text P bs ls /\ all_ok (map (xyz_build true (elem_of_name names)) bs) = Ok (map geom_mol gs).
Proof.
  intros Hv. unfold write_xyz. induction gs as [|g gs IH]; intros HP ls H; simpl in H.
  - injection H as <-. exists []. split; constructor.
  - destruct (write_geom syms g) as [l|] eqn:Eg; [|discriminate].
    destruct (map_opt (write_geom syms) gs) as [lss|] eqn:E; [|discriminate]. simpl in H. injection H as <-.
    inversion HP; subst. destruct (IH H2 (List.concat lss) eq_refl) as [bs [H3 H4]].
    destruct (write_geom_wf P names syms g l Hv H1 Eg) as [xs [H5 H6]].
    exists (geom_block g xs :: bs). split; [now constructor|]. simpl. rewrite H6, H4. reflexivity.
Qed.

(* ---------------------------------------------------------------- C08 round trip *)
Theorem xyz_roundtrip names syms gs ls : vocab_ok names syms = true -> write_xyz syms gs = Some ls ->
  load_xyz names ls = Ok (map geom_mol gs).
Proof.
  intros Hv H. destruct (write_xyz_wf any_comment names syms gs Hv) with (ls := ls) as [bs [H1 H2]]; auto.
  { apply Forall_forall. intros; exact I. }
  unfold load_xyz, load_xyz_lines, res_bind. rewrite (read_xyz_wf _ bs ls H1). exact H2.
Qed.

(* frames of an ensemble: one molecule per conformer, in order, each with the ensemble's elements *)
Lemma frame_elems e f : List.length f = List.length (we_elems e) -> m_elems (geom_mol (frame_geom e f)) = we_elems e.
Proof.
  intros H. unfold geom_mol, frame_geom. cbn [m_elems wg_atoms]. rewrite map_map. cbn [wa_elem].
  revert f H. induction (we_elems e) as [|z zs IH]; intros f H; [reflexivity|].
  destruct f as [|p f]; [discriminate|]. simpl. f_equal. apply IH. simpl in H. lia.
Qed.
Theorem xyz_frames names syms e ls : vocab_ok names syms = true -> write_xyz syms (ens_geoms e) = Some ls ->
  exists ms, load_xyz names ls = Ok ms /\ List.length ms = List.length (we_frames e) /\
             ms = map (fun f => geom_mol (frame_geom e f)) (we_frames e).
Proof.
  intros Hv H. exists (map geom_mol (ens_geoms e)). split; [now apply (xyz_roundtrip names syms)|].
  unfold ens_geoms. rewrite !map_length, map_map. auto.
Qed.

(* ---------------------------------------------------------------- C10 on written texts *)
Definition name_ok (g : wgeom) : Prop := parse_int (wg_name g) = None.

Theorem written_xyz_truncated names syms gs ls : vocab_ok names syms = true -> write_xyz syms gs = Some ls -> forall k,
  (exists e, load_xyz names (firstn k ls) = Err e) \/ (exists j, load_xyz names (firstn k ls) = Ok (firstn j (map geom_mol gs))).
Proof.
  intros Hv H k. destruct (write_xyz_wf any_comment names syms gs Hv) with (ls := ls) as [bs [H1 H2]]; auto.
  { apply Forall_forall. intros; exact I. }
  apply (load_xyz_truncated any_comment true _ bs ls); auto. now apply (xyz_roundtrip names syms).
Qed.
Theorem written_xyz_deleted names syms gs ls i : vocab_ok names syms = true -> Forall name_ok gs ->
  write_xyz syms gs = Some ls -> (i < List.length ls)%nat -> exists e, load_xyz names (del_nth i ls) = Err e.
Proof.
  intros Hv Hn H Hi. destruct (write_xyz_wf comment_ok names syms gs Hv Hn ls H) as [bs [H1 _]].
  now apply (load_xyz_deleted true _ bs).
Qed.
Theorem written_xyz_duplicated names syms gs ls i : vocab_ok names syms = true -> Forall name_ok gs ->
  write_xyz syms gs = Some ls -> (i < List.length ls)%nat -> exists e, load_xyz names (dup_nth i ls) = Err e.
Proof.
  intros Hv Hn H Hi. destruct (write_xyz_wf comment_ok names syms gs Hv Hn ls H) as [bs [H1 _]].
  now apply (load_xyz_duplicated true _ bs).
Qed.

(* ================================================================= units, over R *)
From Coq Require Import Reals Qreals Lra.
Local Open Scope R_scope.

Definition sevalR : sexpr -> R -> R := seval Rmult Rdiv Q2R.
Definition read_coordR : sexpr -> bool -> R -> R -> R := read_coord Rmult Rdiv Q2R.

Lemma Q2R_Qred q : Q2R (Qred q) = Q2R q.
Proof. apply Qeq_eqR. apply Qred_correct. Qed.
Lemma Q2R_one : Q2R 1 = 1.
Proof. unfold Q2R. simpl. lra. Qed.
Lemma Q2R_zero : Q2R 0 = 0.
Proof. unfold Q2R. simpl. lra. Qed.
Lemma Q2R_nonzero q : ~ (q == 0)%Q -> Q2R q <> 0.
Proof. intros H E. apply H. apply eqR_Qeq. now rewrite E, Q2R_zero. Qed.
Lemma Qeq_bool_false_neq a b : Qeq_bool a b = false -> ~ (a == b)%Q.
Proof. intros H E. apply Qeq_bool_iff in E. congruence. Qed.

Lemma snorm_sound e : forall k a b, snorm e = Some (k, a, b) -> forall v, v <> 0 ->
  sevalR e v * v ^ b = Q2R k * v ^ a.
Proof.
  induction e as [|q|x IHx y IHy|x IHx y IHy|x IHx]; intros k a b H v Hv; cbn [snorm] in H.
  - injection H as <- <- <-. unfold sevalR. simpl. rewrite Q2R_one. ring.
  - injection H as <- <- <-. unfold sevalR. simpl. ring.
  - destruct (snorm x) as [[[k1 a1] b1]|]; [|discriminate]. destruct (snorm y) as [[[k2 a2] b2]|]; [|discriminate].
    assert (Hk : k = Qred (k1 * k2) /\ a = (a1 + a2)%nat /\ b = (b1 + b2)%nat) by (repeat split; congruence).
    destruct Hk as [-> [-> ->]]. clear H. specialize (IHx _ _ _ eq_refl v Hv). specialize (IHy _ _ _ eq_refl v Hv).
    unfold sevalR in *. cbn [seval]. rewrite Q2R_Qred, Q2R_mult, !pow_add.
    replace (seval Rmult Rdiv Q2R x v * seval Rmult Rdiv Q2R y v * (v ^ b1 * v ^ b2))
      with ((seval Rmult Rdiv Q2R x v * v ^ b1) * (seval Rmult Rdiv Q2R y v * v ^ b2)) by ring.
    rewrite IHx, IHy. ring.
  - destruct (snorm x) as [[[k1 a1] b1]|]; [|discriminate]. destruct (snorm y) as [[[k2 a2] b2]|]; [|discriminate].
    destruct (Qeq_bool k2 0) eqn:Ek; [discriminate|].
    assert (Hk : k = Qred (k1 / k2) /\ a = (a1 + b2)%nat /\ b = (b1 + a2)%nat) by (repeat split; congruence).
    destruct Hk as [-> [-> ->]]. clear H.
    specialize (IHx _ _ _ eq_refl v Hv). specialize (IHy _ _ _ eq_refl v Hv).
    pose proof (Q2R_nonzero k2 (Qeq_bool_false_neq _ _ Ek)) as HK2.
    unfold sevalR in *. cbn [seval]. set (X := seval Rmult Rdiv Q2R x v) in *. set (Y := seval Rmult Rdiv Q2R y v) in *.
    rewrite Q2R_Qred, Q2R_div by (now apply Qeq_bool_false_neq). rewrite !pow_add.
    pose proof (pow_nonzero v a1 Hv) as HA1. pose proof (pow_nonzero v b1 Hv) as HB1.
    pose proof (pow_nonzero v a2 Hv) as HA2. pose proof (pow_nonzero v b2 Hv) as HB2.
    assert (HX : X = Q2R k1 * v ^ a1 / v ^ b1) by (apply Rmult_eq_reg_r with (v ^ b1); [rewrite IHx; field; exact HB1|exact HB1]).
    assert (HY : Y = Q2R k2 * v ^ a2 / v ^ b2) by (apply Rmult_eq_reg_r with (v ^ b2); [rewrite IHy; field; exact HB2|exact HB2]).
    rewrite HX, HY. field. repeat split; assumption.
  - destruct (snorm x) as [[[k1 a1] b1]|]; [|discriminate].
    destruct (Qeq_bool k1 0) eqn:Ek; [discriminate|].
    assert (Hk : k = Qred (1 / k1) /\ a = b1 /\ b = a1) by (repeat split; congruence).
    destruct Hk as [-> [-> ->]]. clear H.
    specialize (IHx _ _ _ eq_refl v Hv).
    pose proof (Q2R_nonzero k1 (Qeq_bool_false_neq _ _ Ek)) as HK1.
    unfold sevalR in *. cbn [seval]. set (X := seval Rmult Rdiv Q2R x v) in *.
    rewrite Q2R_Qred, Q2R_div by (now apply Qeq_bool_false_neq). rewrite Q2R_one.
    pose proof (pow_nonzero v a1 Hv) as HA1. pose proof (pow_nonzero v b1 Hv) as HB1.
    assert (HX : X = Q2R k1 * v ^ a1 / v ^ b1) by (apply Rmult_eq_reg_r with (v ^ b1); [rewrite IHx; field; exact HB1|exact HB1]).
    rewrite HX. field. repeat split; assumption.
Qed.

(* the extracted expression is 1/value: scaling by it undoes "expressed in that unit" *)
Lemma scale_ok_inverse e v : scale_ok e = true -> v <> 0 -> sevalR e v * v = 1.
Proof.
  unfold scale_ok. intros H Hv. destruct (snorm e) as [[[k a] b]|] eqn:E; [|discriminate].
  apply andb_prop in H. destruct H as [Hk Hb]. apply Qeq_bool_iff in Hk. apply Nat.eqb_eq in Hb. subst b.
  pose proof (snorm_sound e _ _ _ E v Hv) as S. rewrite (Qeq_eqR _ _ Hk), Q2R_one in S. simpl in S.
  apply Rmult_eq_reg_r with (v ^ a); [|now apply pow_nonzero]. lra.
Qed.

(* a coordinate c (Angstrom) written in the unit of the row (c * units-per-Angstrom) is read back as c *)
Theorem units_law e (r : unit_row) : row_ok e r = true -> forall c : R,
  read_coordR e (snd r) (Q2R (snd (fst r))) (Q2R (snd (fst r)) * c) = c.
Proof.
  destruct r as [[nm v] ang]. unfold row_ok, read_coordR, read_coord. simpl. intros H c. destruct ang.
  - apply Qeq_bool_iff in H. rewrite (Qeq_eqR _ _ H), Q2R_one. ring.
  - apply andb_prop in H. destruct H as [Hs Hv]. apply negb_true_iff in Hv.
    pose proof (Q2R_nonzero v (Qeq_bool_false_neq _ _ Hv)) as Hv'.
    pose proof (scale_ok_inverse e (Q2R v) Hs Hv') as S. unfold sevalR in S.
    replace (seval Rmult Rdiv Q2R e (Q2R v) * (Q2R v * c)) with ((seval Rmult Rdiv Q2R e (Q2R v) * Q2R v) * c) by ring.
    rewrite S. ring.
Qed.

(* the multiply-instead-of-divide defect (finding 3) as a refutation: with SVal the law fails *)
Lemma units_law_refuted_by_multiplying : exists v c : R, v <> 0 /\ read_coordR SVal false v (v * c) <> c.
Proof. exists 2, 1. split; [lra|]. unfold read_coordR, read_coord. simpl. lra. Qed.
