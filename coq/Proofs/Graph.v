(* C15: proofs about Model/Graph.v -- BFS (undirected and directed), fuel sufficiency, the deque
   refinement, ring <-> bridge. Adjacency accessors are in Proofs/GraphAdj.v. *)
From Coq Require Import Arith List Bool Lia Sorted Permutation.
From Molli Require Import Model.Graph.
Import ListNotations.
Open Scope nat_scope.

(* ================================================================ adjacency, walks *)
Definition adj (g : graph) (u v : nat) : Prop := In (u, v) g \/ In (v, u) g.

Lemma adj_sym g u v : adj g u v -> adj g v u.
Proof. unfold adj; tauto. Qed.

Lemma mem_In a l : mem a l = true <-> In a l.
Proof.
  unfold mem. rewrite existsb_exists. split.
  - intros [x [H E]]. apply Nat.eqb_eq in E. now subst.
  - intros H. exists a. split; [exact H|apply Nat.eqb_refl].
Qed.
Lemma mem_false a l : mem a l = false <-> ~ In a l.
Proof. rewrite <- mem_In. destruct (mem a l); split; congruence. Qed.

Lemma connected_atoms_adj g a b : In b (connected_atoms g a) <-> adj g a b.
Proof.
  unfold connected_atoms, adj. rewrite in_map_iff. split.
  - intros [[x y] [E H]]. apply filter_In in H. destruct H as [Hin Hb].
    unfold bond_has, bond_other in *. cbn [fst snd] in *.
    destruct (x =? a) eqn:E1.
    + apply Nat.eqb_eq in E1. subst. now left.
    + rewrite orb_false_l in Hb. apply Nat.eqb_eq in Hb. subst. now right.
  - intros [H|H].
    + exists (a, b). split; [|apply filter_In; split; [exact H|]];
        unfold bond_has, bond_other; cbn [fst snd]; now rewrite Nat.eqb_refl.
    + exists (b, a). split.
      * unfold bond_other. cbn [fst snd]. destruct (b =? a) eqn:E; [|reflexivity].
        apply Nat.eqb_eq in E. now subst.
      * apply filter_In. split; [exact H|]. unfold bond_has. cbn [fst snd].
        rewrite Nat.eqb_refl. apply orb_true_r.
Qed.

(* walks over an arbitrary step relation; `walk g` is the instance for the bond list *)
Inductive walkR (R : nat -> nat -> Prop) (a : nat) : nat -> nat -> Prop :=
| w0 : walkR R a a 0
| wS b c k : walkR R a b k -> R b c -> walkR R a c (S k).

Definition walk (g : graph) := walkR (adj g).
Definition reach (g : graph) (a b : nat) : Prop := exists k, walk g a b k.
(* d is the graph distance from a to b *)
Definition is_dist (g : graph) (a b d : nat) : Prop := walk g a b d /\ forall k, walk g a b k -> d <= k.

Lemma walkR_mono (R R' : nat -> nat -> Prop) a b k :
  (forall u v, R u v -> R' u v) -> walkR R a b k -> walkR R' a b k.
Proof. intros H W. induction W; econstructor; eauto. Qed.

Lemma walkR_app (R : nat -> nat -> Prop) a b c k1 k2 : walkR R a b k1 -> walkR R b c k2 -> walkR R a c (k1 + k2).
Proof.
  intros W1 W2. induction W2 as [|x y k W2 IH Hxy].
  - now rewrite Nat.add_0_r.
  - rewrite Nat.add_succ_r. econstructor; eauto.
Qed.

Lemma walkR_sym (R : nat -> nat -> Prop) a b k : (forall u v, R u v -> R v u) -> walkR R a b k -> walkR R b a k.
Proof.
  intros Hs W. induction W as [|x y k W IH Hxy].
  - constructor.
  - change (S k) with (1 + k). eapply walkR_app; [|exact IH].
    econstructor; [constructor|]. now apply Hs.
Qed.

Lemma walk_sym g a b k : walk g a b k -> walk g b a k.
Proof. apply walkR_sym. intros u v. apply adj_sym. Qed.
Lemma reach_sym g a b : reach g a b -> reach g b a.
Proof. intros [k W]. exists k. now apply walk_sym. Qed.
Lemma reach_refl g a : reach g a a.
Proof. exists 0. constructor. Qed.
Lemma reach_trans g a b c : reach g a b -> reach g b c -> reach g a c.
Proof. intros [k1 W1] [k2 W2]. exists (k1 + k2). eapply walkR_app; eauto. Qed.
Lemma reach_step g a b c : reach g a b -> adj g b c -> reach g a c.
Proof. intros [k W] H. exists (S k). econstructor; eauto. Qed.

(* ================================================================ labelled lists and the certificate lemma *)
Definition lab (s : nat) (l : list (nat * nat)) (v : nat) : option nat :=
  if v =? s then Some 0
  else match find (fun p => fst p =? v) l with Some p => Some (snd p) | None => None end.

(* Any labelling in which every labelled vertex other than the start has a neighbour labelled one
   less, and every step raises the label by at most one, is the distance labelling of the start's
   component. *)
Section Cert.
Variables (R : nat -> nat -> Prop) (s : nat) (l : list (nat * nat)).
Hypothesis Hb : forall v d, lab s l v = Some d ->
  d = 0 /\ v = s \/ exists u d', d = S d' /\ lab s l u = Some d' /\ R u v.
Hypothesis Hc : forall u du w, lab s l u = Some du -> R u w -> exists dw, lab s l w = Some dw /\ dw <= S du.

Lemma cert_walk : forall d v, lab s l v = Some d -> walkR R s v d.
Proof.
  induction d as [|d IH]; intros v Hv.
  - destruct (Hb _ _ Hv) as [[_ ->]|[u [d' [E _]]]]; [constructor|discriminate].
  - destruct (Hb _ _ Hv) as [[E _]|[u [d' [E [Hu Ha]]]]]; [discriminate|]. injection E as <-.
    econstructor; [apply IH; exact Hu|exact Ha].
Qed.
Lemma cert_le : forall k v, walkR R s v k -> exists d, lab s l v = Some d /\ d <= k.
Proof.
  intros k v W. induction W as [|b c k W IH Ha].
  - exists 0. split; [|lia]. unfold lab. now rewrite Nat.eqb_refl.
  - destruct IH as [db [Hb' Hle]]. destruct (Hc _ _ _ Hb' Ha) as [dc [Hc' Hle']].
    exists dc. split; [exact Hc'|lia].
Qed.
Theorem cert : forall v, (exists k, walkR R s v k) <-> (exists d, lab s l v = Some d).
Proof.
  intros v; split.
  - intros [k W]. destruct (cert_le _ _ W) as [d [H _]]. eauto.
  - intros [d H]. eauto using cert_walk.
Qed.
Theorem cert_dist : forall v d, lab s l v = Some d -> walkR R s v d /\ forall k, walkR R s v k -> d <= k.
Proof.
  intros v d H. split; [now apply cert_walk|]. intros k W.
  destruct (cert_le _ _ W) as [d' [H' Hle]]. rewrite H in H'. injection H' as <-. exact Hle.
Qed.
End Cert.

(* ================================================================ FIFO form of the loop (specification form) *)
(* one neighbour scan: thread visited, produce the newly discovered atoms with label d1 *)
Fixpoint discover (ns : list nat) (visited : list nat) (d1 : nat) : list nat * list (nat * nat) :=
  match ns with
  | [] => (visited, [])
  | a :: ns' => if mem a visited then discover ns' visited d1
                else let '(v', out) := discover ns' (a :: visited) d1 in (v', (a, d1) :: out)
  end.
Fixpoint bfs (fuel : nat) (g : graph) (visited : list nat) (queue : list (nat * nat)) : option (list (nat * nat)) :=
  match queue with
  | [] => Some []
  | (u, d) :: q =>
    match fuel with
    | O => None
    | S fuel' =>
      let '(v', new) := discover (connected_atoms g u) visited (S d) in
      match bfs fuel' g v' (q ++ new) with Some out => Some (new ++ out) | None => None end
    end
  end.

Lemma discover_spec ns : forall visited d1 v' new, discover ns visited d1 = (v', new) ->
  (forall x, In x v' <-> In x visited \/ In x (map fst new)) /\
  (forall x, In x (map fst new) -> In x ns /\ ~ In x visited) /\
  NoDup (map fst new) /\ (forall p, In p new -> snd p = d1) /\
  (forall x, In x ns -> In x v').
Proof.
  induction ns as [|a ns IH]; intros visited d1 v' new H; cbn [discover] in H.
  - injection H as <- <-. simpl. split; [|split; [|split; [|split]]].
    + intros x; tauto.
    + intros x [].
    + constructor.
    + intros p [].
    + intros x [].
  - destruct (mem a visited) eqn:E.
    + apply mem_In in E. destruct (IH _ _ _ _ H) as (H1 & H2 & H3 & H4 & H5).
      split; [|split; [|split; [|split]]].
      * exact H1.
      * intros x Hx. apply H2 in Hx. simpl. tauto.
      * exact H3.
      * exact H4.
      * intros x [<-|Hx]; [apply H1; now left|now apply H5].
    + apply mem_false in E. rename E into Hna.
      destruct (discover ns (a :: visited) d1) as [v2 out] eqn:D. injection H as <- <-.
      destruct (IH _ _ _ _ D) as (H1 & H2 & H3 & H4 & H5). cbn [map fst].
      split; [|split; [|split; [|split]]].
      * intros x. rewrite H1. simpl. tauto.
      * intros x [<-|Hx]; [simpl; tauto|]. apply H2 in Hx. simpl in *. tauto.
      * constructor; [|exact H3]. intro Hc. apply H2 in Hc. simpl in Hc. tauto.
      * intros p [<-|Hp]; [reflexivity|now apply H4].
      * intros x [<-|Hx]; [apply H1; left; now left|now apply H5].
Qed.

(* ---------- lab lemmas ---------- *)
Lemma find_fst_In (l : list (nat*nat)) v p : find (fun p => fst p =? v) l = Some p -> In p l /\ fst p = v.
Proof. intros H. apply find_some in H. destruct H as [H E]. apply Nat.eqb_eq in E. tauto. Qed.
Lemma find_fst_None (l : list (nat*nat)) v : find (fun p => fst p =? v) l = None <-> ~ In v (map fst l).
Proof.
  split.
  - intros H Hin. apply in_map_iff in Hin. destruct Hin as [p [E Hp]].
    eapply find_none in H; [|exact Hp]. simpl in H. rewrite E, Nat.eqb_refl in H. discriminate.
  - intros H. destruct (find _ l) eqn:F; [|reflexivity]. apply find_fst_In in F. destruct F as [F1 F2].
    exfalso. apply H. apply in_map_iff. eauto.
Qed.
Lemma find_NoDup (l : list (nat*nat)) v d : NoDup (map fst l) -> In (v,d) l -> find (fun p => fst p =? v) l = Some (v,d).
Proof.
  induction l as [|[a b] l IH]; intros Hn Hin; [destruct Hin|]. simpl in *.
  inversion Hn as [|x y Hna Hn']; subst.
  destruct Hin as [E|Hin].
  - injection E as -> ->. now rewrite Nat.eqb_refl.
  - destruct (a =? v) eqn:E; [|now apply IH]. apply Nat.eqb_eq in E; subst. exfalso. apply Hna.
    apply in_map_iff. exists (v,d). tauto.
Qed.
Lemma NoDup_app' {A} (l1 l2 : list A) : NoDup l1 -> NoDup l2 -> (forall x, In x l1 -> ~ In x l2) -> NoDup (l1 ++ l2).
Proof.
  induction l1 as [|a l1 IH]; intros H1 H2 H; [exact H2|]. simpl. inversion H1; subst. constructor.
  - intro Hc. apply in_app_or in Hc. destruct Hc as [Hc|Hc]; [contradiction|]. apply (H a); simpl; auto.
  - apply IH; auto. intros x Hx. apply H. simpl; auto.
Qed.
Lemma find_app' {A} (f : A -> bool) l1 l2 : find f (l1 ++ l2) = match find f l1 with Some x => Some x | None => find f l2 end.
Proof. induction l1 as [|a l1 IH]; simpl; [reflexivity|]. destruct (f a); [reflexivity|exact IH]. Qed.
Lemma SS_app (l1 l2 : list nat) : StronglySorted le l1 -> StronglySorted le l2 ->
  (forall x y, In x l1 -> In y l2 -> x <= y) -> StronglySorted le (l1 ++ l2).
Proof.
  induction l1 as [|a l1 IH]; intros H1 H2 H; [exact H2|]. simpl. inversion H1; subst. constructor.
  - apply IH; auto. intros; apply H; simpl; auto.
  - apply Forall_app. split; [assumption|]. apply Forall_forall. intros y Hy. apply H; simpl; auto.
Qed.
Lemma SS_const (l : list (nat*nat)) c : (forall p, In p l -> snd p = c) -> StronglySorted le (map snd l).
Proof.
  induction l as [|p l IH]; intros H; simpl; constructor.
  - apply IH. intros; apply H; simpl; auto.
  - apply Forall_forall. intros y Hy. apply in_map_iff in Hy. destruct Hy as [q [<- Hq]].
    rewrite (H p), (H q); simpl; auto.
Qed.

(* ================================================================ the invariant, with a set of blocked atoms *)
(* `blk` are atoms put into `visited` before the loop starts and never expanded (empty for the plain
   traversal, [start] for the directed one); the traversal then explores with the step relation
   adjB = "bonded, and the target is not blocked". *)
Section Inv.
Variables (g : graph) (s : nat) (blk : list nat).
Hypothesis Hsblk : ~ In s blk.
Definition adjB (u v : nat) : Prop := adj g u v /\ ~ In v blk.
Notation lab := (lab s).
Lemma lab_s l : lab l s = Some 0. Proof. unfold Graph.lab. now rewrite Nat.eqb_refl. Qed.
Lemma lab_In l v d : NoDup (map fst l) -> v <> s -> (lab l v = Some d <-> In (v,d) l).
Proof.
  intros Hn Hv. unfold Graph.lab. apply Nat.eqb_neq in Hv. rewrite Hv. split.
  - destruct (find _ l) as [[a b]|] eqn:F; [|discriminate]. intros E. injection E as <-.
    apply find_fst_In in F. simpl in F. destruct F as [F <-]. exact F.
  - intros H. now rewrite (find_NoDup _ _ _ Hn H).
Qed.
Lemma lab_app_l l l' v d : lab l v = Some d -> lab (l ++ l') v = Some d.
Proof.
  unfold Graph.lab. destruct (v =? s); [auto|]. destruct (find _ l) as [p|] eqn:F; [|discriminate].
  intros E. rewrite find_app', F. exact E.
Qed.
Lemma lab_dom l v : (exists d, lab l v = Some d) <-> v = s \/ In v (map fst l).
Proof.
  unfold Graph.lab. destruct (v =? s) eqn:E.
  - apply Nat.eqb_eq in E. split; eauto.
  - apply Nat.eqb_neq in E. split.
    + intros [d H]. right. destruct (find _ l) eqn:F; [|discriminate]. apply find_fst_In in F.
      apply in_map_iff. exists p. tauto.
    + intros [H|H]; [contradiction|]. destruct (find _ l) eqn:F; [eauto|]. apply find_fst_None in F. contradiction.
Qed.
Definition labs_le (l : list (nat*nat)) (b : nat) := forall p, In p l -> snd p <= b.
Record Inv (visited : list nat) (queue acc : list (nat*nat)) : Prop := {
  iV : forall x, In x visited <-> In x blk \/ x = s \/ In x (map fst acc);
  iN : NoDup (map fst acc);
  iNs : ~ In s (map fst acc);
  iNb : forall x, In x (map fst acc) -> ~ In x blk;
  iB : forall v d, In (v,d) acc -> exists u d', d = S d' /\ lab acc u = Some d' /\ adjB u v;
  iQ : forall p, In p queue -> lab acc (fst p) = Some (snd p);
  iC : forall u du, lab acc u = Some du ->
         In (u,du) queue \/ (forall w, adjB u w -> exists dw, lab acc w = Some dw /\ dw <= S du);
  iS : StronglySorted le (map snd queue);
  iA : StronglySorted le (map snd acc);
  iH : match queue with [] => True | (_,d) :: q => labs_le q (S d) /\ labs_le acc (S d) end
}.
Record Final (L : list (nat*nat)) : Prop := {
  fN : NoDup (map fst L); fNs : ~ In s (map fst L);
  fNb : forall x, In x (map fst L) -> ~ In x blk;
  fB : forall v d, lab L v = Some d -> d = 0 /\ v = s \/ exists u d', d = S d' /\ lab L u = Some d' /\ adjB u v;
  fC : forall u du w, lab L u = Some du -> adjB u w -> exists dw, lab L w = Some dw /\ dw <= S du;
  fA : StronglySorted le (map snd L)
}.
Lemma inv_final visited acc : Inv visited [] acc -> Final acc.
Proof.
  intros I. constructor; try apply I.
  - intros v d H. destruct (Nat.eq_dec v s) as [->|Hv].
    + rewrite lab_s in H. injection H as <-. now left.
    + right. apply lab_In in H; [|apply I|exact Hv]. now apply (iB _ _ _ I).
  - intros u du w H Ha. destruct (iC _ _ _ I _ _ H) as [[]|Hc]. now apply Hc.
Qed.

Lemma lab_app_new acc new a d1 : NoDup (map fst (acc ++ new)) -> ~ In s (map fst (acc ++ new)) ->
  In (a,d1) new -> lab (acc ++ new) a = Some d1.
Proof.
  intros Hn Hs Hin. apply lab_In; [exact Hn| |apply in_or_app; now right].
  intros ->. apply Hs. rewrite map_app. apply in_or_app. right. apply in_map_iff. exists (s,d1). tauto.
Qed.
Lemma lab_fun l v d d' : lab l v = Some d -> lab l v = Some d' -> d = d'.
Proof. congruence. Qed.

Lemma inv_step visited u d q acc v' new :
  Inv visited ((u,d)::q) acc -> discover (connected_atoms g u) visited (S d) = (v', new) ->
  Inv v' (q ++ new) (acc ++ new).
Proof.
  intros I D. destruct (discover_spec _ _ _ _ _ D) as (D1 & D2 & D3 & D4 & D5).
  assert (Hud : lab acc u = Some d) by (apply (iQ _ _ _ I (u,d)); now left).
  assert (Hdisj : forall x, In x (map fst new) -> ~ (In x blk \/ x = s \/ In x (map fst acc))).
  { intros x Hx. apply D2 in Hx. destruct Hx as [_ Hx]. intro Hc. apply Hx. now apply (iV _ _ _ I). }
  assert (HN : NoDup (map fst (acc ++ new))).
  { rewrite map_app. apply NoDup_app'; [apply I|exact D3|]. intros x Hx Hc. apply (Hdisj x Hc). right. now right. }
  assert (HNs : ~ In s (map fst (acc ++ new))).
  { rewrite map_app. intro Hc. apply in_app_or in Hc. destruct Hc as [Hc|Hc]; [now apply (iNs _ _ _ I)|].
    apply (Hdisj s Hc). right. now left. }
  assert (Hsorted := iS _ _ _ I). simpl in Hsorted. inversion Hsorted as [|x y Hsq Hfq]; subst.
  destruct (iH _ _ _ I) as [Hq Ha].
  assert (Hnewlab : forall p, In p new -> lab (acc ++ new) (fst p) = Some (snd p)).
  { intros [a b] Hp. simpl. now apply lab_app_new. }
  constructor.
  - (* iV *) intros x. rewrite D1, (iV _ _ _ I), map_app, in_app_iff. tauto.
  - exact HN.
  - exact HNs.
  - (* iNb *) intros x Hx. rewrite map_app in Hx. apply in_app_or in Hx. destruct Hx as [Hx|Hx].
    + now apply (iNb _ _ _ I).
    + intro Hc. apply (Hdisj x Hx). now left.
  - (* iB *) intros v dv Hin. apply in_app_or in Hin. destruct Hin as [Hin|Hin].
    + destruct (iB _ _ _ I _ _ Hin) as (u0 & d0 & E & L & A). exists u0, d0. repeat split; auto.
      * now apply lab_app_l.
      * apply A.
      * apply A.
    + exists u, d. pose proof (D4 _ Hin) as E4. simpl in E4. subst dv.
      assert (Hv : In v (map fst new)) by (apply in_map_iff; exists (v,S d); tauto).
      split; [reflexivity|]. split; [now apply lab_app_l|]. split.
      * apply connected_atoms_adj. now apply (D2 v).
      * intro Hc. apply (Hdisj v Hv). now left.
  - (* iQ *) intros p Hp. apply in_app_or in Hp. destruct Hp as [Hp|Hp]; [|now apply Hnewlab].
    apply lab_app_l. apply (iQ _ _ _ I). now right.
  - (* iC *) intros x dx Hx.
    destruct (Nat.eq_dec x u) as [->|Hxu].
    + assert (dx = d) by (eapply lab_fun; [exact Hx|now apply lab_app_l]). subst dx.
      right. intros w [Hw Hwb]. apply connected_atoms_adj in Hw. apply D5 in Hw. apply D1 in Hw.
      destruct Hw as [Hw|Hw].
      * apply (iV _ _ _ I) in Hw. destruct Hw as [Hw|[->|Hw]]; [contradiction| |].
        -- exists 0. split; [apply lab_s|lia].
        -- apply in_map_iff in Hw. destruct Hw as [[w' dw] [E Hw]]. simpl in E; subst w'. exists dw. split.
           ++ apply lab_app_l. apply lab_In; [apply I| |exact Hw]. intros ->. apply (iNs _ _ _ I).
              apply in_map_iff. exists (s,dw). tauto.
           ++ apply (Ha _ Hw).
      * apply in_map_iff in Hw. destruct Hw as [[w' dw] [E Hw]]. simpl in E; subst w'. exists dw.
        split; [now apply lab_app_new|]. pose proof (D4 _ Hw) as E4. simpl in E4. lia.
    + destruct (lab acc x) as [dx'|] eqn:Lx.
      * assert (dx = dx') by (eapply lab_fun; [exact Hx|now apply lab_app_l]). subst dx'.
        destruct (iC _ _ _ I _ _ Lx) as [[E|Hin]|Hc].
        -- injection E as -> ->. contradiction.
        -- left. apply in_or_app. now left.
        -- right. intros w Hw. destruct (Hc w Hw) as (dw & L & Hle). exists dw. split; [now apply lab_app_l|exact Hle].
      * left. apply in_or_app. right.
        destruct (Nat.eq_dec x s) as [->|Hxs]; [rewrite lab_s in Lx; discriminate|].
        apply lab_In in Hx; [|exact HN|exact Hxs]. apply in_app_or in Hx. destruct Hx as [Hx|Hx]; [|exact Hx].
        exfalso. apply lab_In in Hx; [|apply I|exact Hxs]. congruence.
  - (* iS *) rewrite map_app. apply SS_app; [exact Hsq|now apply SS_const with (c:=S d)|].
    intros a b Ha' Hb'. apply in_map_iff in Ha'. destruct Ha' as [p [<- Hp]].
    apply in_map_iff in Hb'. destruct Hb' as [p' [<- Hp']].
    rewrite (D4 _ Hp'). apply (Hq _ Hp).
  - (* iA *) rewrite map_app. apply SS_app; [apply I|now apply SS_const with (c:=S d)|].
    intros a b Ha' Hb'. apply in_map_iff in Ha'. destruct Ha' as [p [<- Hp]].
    apply in_map_iff in Hb'. destruct Hb' as [p' [<- Hp']].
    rewrite (D4 _ Hp'). apply (Ha _ Hp).
  - (* iH *) destruct q as [|[u1 d1] q1].
    + simpl. destruct new as [|[a1 b1] new1]; [exact Logic.I|].
      assert (b1 = S d) by (apply (D4 (a1,b1)); now left). subst b1. split.
      * intros p Hp. rewrite (D4 p); [lia|now right].
      * intros p Hp. apply in_app_or in Hp. destruct Hp as [Hp|Hp]; [specialize (Ha _ Hp); lia|].
        rewrite (D4 _ Hp). lia.
    + simpl. assert (Hd1 : d <= d1 <= S d).
      { split; [|apply (Hq (u1,d1)); now left]. rewrite Forall_forall in Hfq. apply (Hfq d1). simpl. now left. }
      simpl in Hsq. inversion Hsq as [|x y Hsq1 Hfq1]; subst. split.
      * intros p Hp. apply in_app_or in Hp. destruct Hp as [Hp|Hp].
        -- specialize (Hq p (or_intror Hp)). lia.
        -- rewrite (D4 _ Hp). lia.
      * intros p Hp. apply in_app_or in Hp. destruct Hp as [Hp|Hp]; [specialize (Ha _ Hp); lia|].
        rewrite (D4 _ Hp). lia.
Qed.

Theorem bfs_partial_correct : forall fuel visited queue acc out,
  Inv visited queue acc -> bfs fuel g visited queue = Some out -> Final (acc ++ out).
Proof.
  induction fuel as [|fuel IH]; intros visited queue acc out I H.
  - destruct queue as [|[u d] q]; [|discriminate]. injection H as <-. rewrite app_nil_r. eapply inv_final; exact I.
  - destruct queue as [|[u d] q]; [injection H as <-; rewrite app_nil_r; eapply inv_final; exact I|].
    cbn [bfs] in H. destruct (discover (connected_atoms g u) visited (S d)) as [v' new] eqn:D.
    destruct (bfs fuel g v' (q ++ new)) as [out'|] eqn:B; [|discriminate]. injection H as <-.
    rewrite app_assoc. eapply IH; [|exact B]. eapply inv_step; eassumption.
Qed.

Lemma inv_init visited : (forall x, In x visited <-> In x blk \/ x = s) -> Inv visited [(s,0)] [].
Proof.
  intros HV. constructor; simpl.
  - intros x. rewrite HV. tauto.
  - constructor.
  - tauto.
  - intros x [].
  - intros v d [].
  - intros p [<-|[]]. apply lab_s.
  - intros u du H. unfold Graph.lab in H. destruct (u =? s) eqn:E; [|discriminate]. apply Nat.eqb_eq in E.
    subst. injection H as <-. left. now left.
  - repeat constructor.
  - constructor.
  - split; intros p [].
Qed.

(* the traversal in FIFO form, for any fuel that suffices *)
Theorem bfs_blk_correct fuel visited out :
  (forall x, In x visited <-> In x blk \/ x = s) ->
  bfs fuel g visited [(s,0)] = Some out ->
  NoDup (map fst out) /\ ~ In s (map fst out) /\ (forall x, In x (map fst out) -> ~ In x blk) /\
  StronglySorted le (map snd out) /\
  (forall v, (exists k, walkR adjB s v k) <-> v = s \/ In v (map fst out)) /\
  (forall v d, In (v,d) out -> walkR adjB s v d /\ forall k, walkR adjB s v k -> d <= k).
Proof.
  intros HV H. apply (bfs_partial_correct _ _ _ [] _ (inv_init _ HV)) in H. simpl in H.
  destruct H as [fN' fNs' fNb' fB' fC' fA'].
  repeat split; auto.
  - intros Hw. apply lab_dom. apply (cert adjB s out fB' fC'). exact Hw.
  - intros Hv. apply (cert adjB s out fB' fC'). apply lab_dom. exact Hv.
  - eapply cert_dist; eauto. apply lab_In; auto. intros ->. apply fNs'. apply in_map_iff. exists (s,d). tauto.
  - intros k W. eapply (cert_dist adjB s out fB' fC'); [|exact W]. apply lab_In; auto. intros ->. apply fNs'.
    apply in_map_iff. exists (s,d). tauto.
Qed.
End Inv.
