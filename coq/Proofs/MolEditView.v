(* C05 -- shared Atom objects: Substructure views and adoption by other containers.

   Two facts about Model/MolEdit.v, for EVERY state and EVERY operation:
     step_parent_blind : no operation decides anything from the parent pointer of an atom
                         (running it on the state with all pointers reset gives the same result, reset);
     step_atoms_frame  : no operation re-points an existing atom (every atom record afterwards is an old
                         record, untouched, or a new atom reporting this molecule).
   From these the alignment invariant  AInv s := Inv (own_all s)  -- everything Inv says except the parent
   pointers of the atoms -- is lifted over every history that interleaves edits of the molecule, bond
   operations through Substructure views and adoptions of its atoms by other containers. *)
From Coq Require Import List Bool Arith ZArith NArith PArith Lia.
Import ListNotations.
From Molli Require Import Model.MolEdit Proofs.MolEdit.

(* ================================================================== list level: predicates that do not read a_par *)
Definition blindp (p : atom -> bool) : Prop := forall a, p (own a) = p a.

Lemma blind_id x : blindp (id_is x).
Proof. intros a. reflexivity. Qed.
Lemma blind_el e : blindp (el_is e).
Proof. intros a. reflexivity. Qed.
Lemma blind_lab l : blindp (lab_is l).
Proof. intros a. reflexivity. Qed.

Lemma find_own {p} : blindp p -> forall l, find p (map own l) = option_map own (find p l).
Proof.
  intros Hp. induction l as [|a l IH]; simpl; [reflexivity|].
  rewrite Hp. destruct (p a); [reflexivity|exact IH].
Qed.

Lemma find_idx_own {p} : blindp p -> forall l, find_idx p (map own l) = find_idx p l.
Proof.
  intros Hp. induction l as [|a l IH]; simpl; [reflexivity|].
  rewrite Hp. destruct (p a); [reflexivity|]. rewrite IH. reflexivity.
Qed.

Lemma remove_first_own {p} : blindp p -> forall l,
  remove_first p (map own l) = option_map (map own) (remove_first p l).
Proof.
  intros Hp. induction l as [|a l IH]; simpl; [reflexivity|].
  rewrite Hp. destruct (p a); [reflexivity|]. rewrite IH. destruct (remove_first p l); reflexivity.
Qed.

Lemma existsb_own {p} : blindp p -> forall l, existsb p (map own l) = existsb p l.
Proof.
  intros Hp. induction l as [|a l IH]; simpl; [reflexivity|]. rewrite Hp, IH. reflexivity.
Qed.

Lemma own_fix a : a_par a = OThis -> own a = a.
Proof. destruct a as [i e l p]. simpl. intros ->. reflexivity. Qed.

Lemma a_id_own a : a_id (own a) = a_id a.
Proof. reflexivity. Qed.

Lemma map_own_fix l : (forall a, In a l -> a_par a = OThis) -> map own l = l.
Proof.
  induction l as [|a l IH]; intros H; simpl; [reflexivity|].
  rewrite own_fix by (apply H; left; reflexivity). rewrite IH; [reflexivity|].
  intros b Hb. apply H. right. exact Hb.
Qed.

(* ================================================================== results *)
Definition rmap (g : st -> st) (r : res) : res :=
  match r with Ok s => Ok (g s) | Err s => Err (g s) | Unspec => Unspec | OutOfFuel => OutOfFuel end.

Lemma bind_blind r f f' :
  (forall s, f' (own_all s) = rmap own_all (f s)) ->
  bind (rmap own_all r) f' = rmap own_all (bind r f).
Proof. intros H. destruct r; simpl; auto. Qed.

Lemma fold_blind {X} (G : st -> X -> res) :
  (forall s x, G (own_all s) x = rmap own_all (G s x)) ->
  forall l r, fold_left (fun r x => bind r (fun s' => G s' x)) l (rmap own_all r)
              = rmap own_all (fold_left (fun r x => bind r (fun s' => G s' x)) l r).
Proof.
  intros HG. induction l as [|x l IH]; intros r; simpl; [reflexivity|].
  rewrite <- IH. f_equal. destruct r; simpl; auto.
Qed.

(* ================================================================== every layer is blind to the parent pointers *)
Lemma atoms_own_all s : atoms (own_all s) = map own (atoms s).
Proof. reflexivity. Qed.

Lemma get_atom_own s sl : get_atom (own_all s) sl = option_map own (get_atom s sl).
Proof.
  destruct sl; simpl.
  - apply find_own, blind_id.
  - rewrite map_length. destruct (py_index (length (atoms s)) i); [apply nth_error_map|reflexivity].
  - apply find_own, blind_lab.
  - apply find_own, blind_el.
Qed.

Lemma get_atom_index_own s sl : get_atom_index (own_all s) sl = get_atom_index s sl.
Proof.
  destruct sl; simpl.
  - apply find_idx_own, blind_id.
  - rewrite map_length. reflexivity.
  - apply find_idx_own, blind_lab.
  - apply find_idx_own, blind_el.
Qed.

Lemma is_member_own s x : is_member (own_all s) x = is_member s x.
Proof. unfold is_member. simpl. apply existsb_own, blind_id. Qed.

Lemma pm_del_atom_blind s sl : pm_del_atom (own_all s) sl = rmap own_all (pm_del_atom s sl).
Proof.
  unfold pm_del_atom. rewrite get_atom_own. destruct (get_atom s sl) as [a|]; simpl; [|reflexivity].
  rewrite (remove_first_own (blind_id (a_id a))).
  destruct (remove_first (id_is (a_id a)) (atoms s)); reflexivity.
Qed.

Lemma conn_del_bond_blind s x y : conn_del_bond (own_all s) x y = rmap own_all (conn_del_bond s x y).
Proof.
  unfold conn_del_bond. simpl. destruct (remove_first (same_ends x y) (bonds s)); reflexivity.
Qed.

Lemma del_bonds_loop_blind tbd s : del_bonds_loop tbd (own_all s) = rmap own_all (del_bonds_loop tbd s).
Proof.
  unfold del_bonds_loop.
  apply (fold_blind (fun s' b => conn_del_bond s' (b_a1 b) (b_a2 b))
                    (fun s0 b => conn_del_bond_blind s0 (b_a1 b) (b_a2 b)) tbd (Ok s)).
Qed.

Lemma conn_del_atom_blind s sl : conn_del_atom (own_all s) sl = rmap own_all (conn_del_atom s sl).
Proof.
  unfold conn_del_atom. rewrite get_atom_own. destruct (get_atom s sl) as [a|]; simpl; [|reflexivity].
  change (bonds (own_all s)) with (bonds s). rewrite del_bonds_loop_blind.
  apply bind_blind. intros s0. apply pm_del_atom_blind.
Qed.

Lemma conn_append_bond_blind s x y : conn_append_bond (own_all s) x y = rmap own_all (conn_append_bond s x y).
Proof.
  unfold conn_append_bond. rewrite !is_member_own.
  destruct (is_member s x && is_member s y); reflexivity.
Qed.

Lemma conn_connect_blind s s1 s2 : conn_connect (own_all s) s1 s2 = rmap own_all (conn_connect s s1 s2).
Proof.
  unfold conn_connect. rewrite !get_atom_own.
  destruct (get_atom s s1) as [a1|]; simpl; [|reflexivity].
  destruct (get_atom s s2) as [a2|]; simpl; [|reflexivity].
  apply conn_append_bond_blind.
Qed.

Lemma bfs_loop_blind s : forall fuel vis q out,
  bfs_loop fuel (own_all s) vis q out = bfs_loop fuel s vis q out.
Proof.
  induction fuel as [|f IH]; intros vis q out; destruct q as [|x q']; simpl; try reflexivity.
  change (neighbours (own_all s) x) with (neighbours s x).
  destruct (fold_left bfs_visit (neighbours s x) (vis, q', out)) as [[v1 q1] o1]. apply IH.
Qed.

Lemma geom_add_atom_blind s e l c : geom_add_atom (own_all s) e l c = rmap own_all (geom_add_atom s e l c).
Proof.
  unfold geom_add_atom. destruct c; [|reflexivity]. simpl. unfold own_all. simpl.
  rewrite map_app. reflexivity.
Qed.

Lemma geom_del_atom_blind s sl : geom_del_atom (own_all s) sl = rmap own_all (geom_del_atom s sl).
Proof.
  unfold geom_del_atom. rewrite get_atom_index_own.
  destruct (get_atom_index s sl) as [i|]; [|reflexivity].
  change (coords (own_all s)) with (coords s).
  destruct (del_nth i (coords s)) as [cs|]; [|reflexivity].
  change (set_coords (own_all s) cs) with (own_all (set_coords s cs)). apply conn_del_atom_blind.
Qed.

Lemma struct_del_atom_blind s sl : struct_del_atom (own_all s) sl = rmap own_all (struct_del_atom s sl).
Proof.
  unfold struct_del_atom. rewrite get_atom_own. destruct (get_atom s sl) as [a|]; simpl; [|reflexivity].
  apply geom_del_atom_blind.
Qed.

Lemma mol_add_atom_blind s e l c q : mol_add_atom (own_all s) e l c q = rmap own_all (mol_add_atom s e l c q).
Proof.
  unfold mol_add_atom. rewrite geom_add_atom_blind. apply bind_blind. intros s0. reflexivity.
Qed.

Lemma mol_del_atom_blind s sl : mol_del_atom (own_all s) sl = rmap own_all (mol_del_atom s sl).
Proof.
  unfold mol_del_atom. rewrite get_atom_index_own.
  destruct (get_atom_index s sl) as [i|]; [|reflexivity].
  rewrite struct_del_atom_blind. apply bind_blind. intros s0.
  change (charges (own_all s0)) with (charges s0). destruct (del_nth i (charges s0)); reflexivity.
Qed.

Lemma add_atom_blind s e l c q : add_atom (own_all s) e l c q = rmap own_all (add_atom s e l c q).
Proof.
  unfold add_atom. change (has_q (own_all s)) with (has_q s).
  destruct (has_q s); [apply mol_add_atom_blind|apply geom_add_atom_blind].
Qed.

Lemma del_atom_blind s sl : del_atom (own_all s) sl = rmap own_all (del_atom s sl).
Proof.
  unfold del_atom. change (has_q (own_all s)) with (has_q s).
  destruct (has_q s); [apply mol_del_atom_blind|apply struct_del_atom_blind].
Qed.

Lemma append_bonds_blind s l : append_bonds (own_all s) l = rmap own_all (append_bonds s l).
Proof.
  unfold append_bonds.
  apply (fold_blind (fun s' p => conn_append_bond s' (fst p) (snd p))
                    (fun s0 p => conn_append_bond_blind s0 (fst p) (snd p)) l (Ok s)).
Qed.

Lemma remove_substituent_blind s s1 s2 l :
  remove_substituent (own_all s) s1 s2 l = rmap own_all (remove_substituent s s1 s2 l).
Proof.
  unfold remove_substituent. rewrite !get_atom_own.
  destruct (get_atom s s1) as [a1|]; cbn [option_map]; [|reflexivity].
  destruct (get_atom s s2) as [a2|]; cbn [option_map]; [|reflexivity].
  rewrite !a_id_own. cbn [get_atom_index]. rewrite atoms_own_all.
  rewrite (find_idx_own (blind_id (a_id a2))).
  destruct (find_idx (id_is (a_id a2)) (atoms s)) as [i2|]; [|reflexivity].
  change (coords (own_all s)) with (coords s).
  destruct (nth_error (coords s) i2) as [c2|]; [|reflexivity].
  change (neighbours (own_all s) (a_id a1)) with (neighbours s (a_id a1)).
  destruct (mem (a_id a2) (neighbours s (a_id a1))); [|reflexivity].
  change (bfs_fuel (own_all s)) with (bfs_fuel s). rewrite bfs_loop_blind.
  destruct (bfs_loop (bfs_fuel s) s [a_id a2; a_id a1] [a_id a2] [a_id a2]) as [out|]; [|reflexivity].
  change (Ok (own_all s)) with (rmap own_all (Ok s)).
  rewrite (fold_blind (fun s' x => del_atom s' (ByObj x)) (fun s0 x => del_atom_blind s0 (ByObj x)) out (Ok s)).
  apply bind_blind. intros sa. rewrite add_atom_blind. apply bind_blind. intros sb.
  change (next_a (own_all sa)) with (next_a sa). apply conn_connect_blind.
Qed.

Lemma add_hs_one_blind s x cs : add_hs_one (own_all s) x cs = rmap own_all (add_hs_one s x cs).
Proof.
  unfold add_hs_one. rewrite is_member_own. destruct (is_member s x); [|reflexivity].
  change (Ok (own_all s)) with (rmap own_all (Ok s)).
  apply (fold_blind (fun s' c => bind (add_atom s' el_H None (Some c) None)
                                      (fun s'' => conn_append_bond s'' x (next_a s')))).
  intros s0 c. rewrite add_atom_blind. apply bind_blind. intros s1.
  change (next_a (own_all s0)) with (next_a s0). apply conn_append_bond_blind.
Qed.

Lemma add_hs_blind s l : add_hs (own_all s) l = rmap own_all (add_hs s l).
Proof.
  unfold add_hs.
  apply (fold_blind (fun s' p => add_hs_one s' (fst p) (snd p))
                    (fun s0 p => add_hs_one_blind s0 (fst p) (snd p)) l (Ok s)).
Qed.

(* NO operation reads the parent pointer of an atom *)
Theorem step_parent_blind s o : step (own_all s) o = rmap own_all (step s o).
Proof.
  destruct o; simpl.
  - apply add_atom_blind.
  - apply add_atom_blind.
  - apply del_atom_blind.
  - apply conn_connect_blind.
  - apply conn_append_bond_blind.
  - apply append_bonds_blind.
  - apply conn_del_bond_blind.
  - apply remove_substituent_blind.
  - apply add_hs_blind.
Qed.

(* ================================================================== no operation re-points an existing atom *)
Definition Fr (s s' : st) : Prop := forall a, In a (atoms s') -> In a (atoms s) \/ a_par a = OThis.
Definition fr (s : st) (r : res) : Prop :=
  match r with Ok s' | Err s' => Fr s s' | _ => True end.

Lemma Fr_refl s : Fr s s.
Proof. intros a H. left. exact H. Qed.

Lemma Fr_same s s' : atoms s' = atoms s -> Fr s s'.
Proof. intros E a H. left. rewrite <- E. exact H. Qed.

Lemma Fr_trans s1 s2 s3 : Fr s1 s2 -> Fr s2 s3 -> Fr s1 s3.
Proof. intros A B a H. destruct (B a H) as [H2|H2]; [apply A; exact H2|right; exact H2]. Qed.

Lemma fr_err s : fr s (Err s).
Proof. apply Fr_refl. Qed.

Lemma fr_bind s r f : fr s r -> (forall s1, fr s1 (f s1)) -> fr s (bind r f).
Proof.
  intros Hr Hf. destruct r; simpl in *; auto.
  specialize (Hf s0). destruct (f s0); simpl in *; auto; eapply Fr_trans; eauto.
Qed.

Lemma fr_fold {X} (G : st -> X -> res) :
  (forall s x, fr s (G s x)) ->
  forall l s, fr s (fold_left (fun r x => bind r (fun s' => G s' x)) l (Ok s)).
Proof.
  intros HG. induction l as [|x l IH]; intros s; simpl; [apply Fr_refl|].
  pose proof (HG s x) as Hx. destruct (G s x) eqn:E.
  - specialize (IH s0). destruct (fold_left _ l (Ok s0)); simpl in *; auto; eapply Fr_trans; eauto.
  - rewrite fold_bind_stuck by (intros; discriminate). exact Hx.
  - rewrite fold_bind_stuck by (intros; discriminate). exact I.
  - rewrite fold_bind_stuck by (intros; discriminate). exact I.
Qed.

Lemma fr_pm_del_atom s sl : fr s (pm_del_atom s sl).
Proof.
  unfold pm_del_atom. destruct (get_atom s sl) as [a|]; [|apply fr_err].
  destruct (remove_first (id_is (a_id a)) (atoms s)) as [l|] eqn:E; [|apply fr_err].
  apply remove_first_some in E. destruct E as [i [_ ->]]. simpl.
  intros b Hb. left. simpl in Hb. eapply rm_in. exact Hb.
Qed.

Lemma fr_conn_del_bond s x y : fr s (conn_del_bond s x y).
Proof.
  unfold conn_del_bond. destruct (remove_first (same_ends x y) (bonds s)); [|apply fr_err].
  apply Fr_same. reflexivity.
Qed.

Lemma fr_conn_del_atom s sl : fr s (conn_del_atom s sl).
Proof.
  unfold conn_del_atom. destruct (get_atom s sl) as [a|]; [|apply fr_err].
  apply fr_bind.
  - apply (fr_fold (fun s' b => conn_del_bond s' (b_a1 b) (b_a2 b))). intros; apply fr_conn_del_bond.
  - intros s1. apply fr_pm_del_atom.
Qed.

Lemma fr_conn_append_bond s x y : fr s (conn_append_bond s x y).
Proof.
  unfold conn_append_bond. destruct (is_member s x && is_member s y); [|exact I].
  apply Fr_same. reflexivity.
Qed.

Lemma fr_conn_connect s s1 s2 : fr s (conn_connect s s1 s2).
Proof.
  unfold conn_connect. destruct (get_atom s s1); [|apply fr_err].
  destruct (get_atom s s2); [|apply fr_err]. apply fr_conn_append_bond.
Qed.

Lemma fr_geom_add_atom s e l c : fr s (geom_add_atom s e l c).
Proof.
  unfold geom_add_atom. destruct c; [|apply fr_err]. simpl.
  intros a Ha. simpl in Ha. apply in_app_or in Ha. destruct Ha as [Ha|[<-|[]]]; [left; exact Ha|right; reflexivity].
Qed.

Lemma fr_geom_del_atom s sl : fr s (geom_del_atom s sl).
Proof.
  unfold geom_del_atom. destruct (get_atom_index s sl) as [i|]; [|apply fr_err].
  destruct (del_nth i (coords s)) as [cs|]; [|apply fr_err].
  pose proof (fr_conn_del_atom (set_coords s cs) sl) as H.
  destruct (conn_del_atom (set_coords s cs) sl); simpl in *; auto.
Qed.

Lemma fr_struct_del_atom s sl : fr s (struct_del_atom s sl).
Proof.
  unfold struct_del_atom. destruct (get_atom s sl); [|apply fr_err]. apply fr_geom_del_atom.
Qed.

Lemma fr_add_atom s e l c q : fr s (add_atom s e l c q).
Proof.
  unfold add_atom, mol_add_atom. destruct (has_q s); [|apply fr_geom_add_atom].
  apply fr_bind; [apply fr_geom_add_atom|]. intros s1. apply Fr_same. reflexivity.
Qed.

Lemma fr_del_atom s sl : fr s (del_atom s sl).
Proof.
  unfold del_atom, mol_del_atom. destruct (has_q s); [|apply fr_struct_del_atom].
  destruct (get_atom_index s sl) as [i|]; [|apply fr_err].
  apply fr_bind; [apply fr_struct_del_atom|]. intros s1.
  destruct (del_nth i (charges s1)); [apply Fr_same; reflexivity|apply fr_err].
Qed.

Lemma fr_append_bonds s l : fr s (append_bonds s l).
Proof.
  unfold append_bonds. apply (fr_fold (fun s' p => conn_append_bond s' (fst p) (snd p))).
  intros; apply fr_conn_append_bond.
Qed.

Lemma fr_remove_substituent s s1 s2 l : fr s (remove_substituent s s1 s2 l).
Proof.
  unfold remove_substituent.
  destruct (get_atom s s1) as [a1|]; [|apply fr_err].
  destruct (get_atom s s2) as [a2|]; [|apply fr_err].
  destruct (get_atom_index s (ByObj (a_id a2))) as [i2|]; [|apply fr_err].
  destruct (nth_error (coords s) i2) as [c2|]; [|apply fr_err].
  destruct (mem (a_id a2) (neighbours s (a_id a1))); [|apply fr_err].
  destruct (bfs_loop (bfs_fuel s) s [a_id a2; a_id a1] [a_id a2] [a_id a2]) as [out|]; [|exact I].
  apply fr_bind.
  - apply (fr_fold (fun s' x => del_atom s' (ByObj x))). intros; apply fr_del_atom.
  - intros sa. apply fr_bind; [apply fr_add_atom|]. intros sb. apply fr_conn_connect.
Qed.

Lemma fr_add_hs_one s x cs : fr s (add_hs_one s x cs).
Proof.
  unfold add_hs_one. destruct (is_member s x); [|apply fr_err].
  apply (fr_fold (fun s' c => bind (add_atom s' el_H None (Some c) None)
                                   (fun s'' => conn_append_bond s'' x (next_a s')))).
  intros s0 c. apply fr_bind; [apply fr_add_atom|]. intros s1. apply fr_conn_append_bond.
Qed.

Lemma fr_add_hs s l : fr s (add_hs s l).
Proof.
  unfold add_hs. apply (fr_fold (fun s' p => add_hs_one s' (fst p) (snd p))). intros; apply fr_add_hs_one.
Qed.

Theorem step_fr s o : fr s (step s o).
Proof.
  destruct o; simpl.
  - apply fr_add_atom.
  - apply fr_add_atom.
  - apply fr_del_atom.
  - apply fr_conn_connect.
  - apply fr_conn_append_bond.
  - apply fr_append_bonds.
  - apply fr_conn_del_bond.
  - apply fr_remove_substituent.
  - apply fr_add_hs.
Qed.

Theorem step_atoms_frame s o s' : (step s o = Ok s' \/ step s o = Err s') ->
  forall a, In a (atoms s') -> In a (atoms s) \/ a_par a = OThis.
Proof. intros [H|H]; pose proof (step_fr s o) as G; rewrite H in G; exact G. Qed.

(* ================================================================== the alignment invariant *)
Definition AInv (s : st) : Prop := Inv (own_all s).

Lemma own_all_fix s : (forall a, In a (atoms s) -> a_par a = OThis) -> own_all s = s.
Proof. intros H. destruct s as [q ats cs qs bs na nb]. unfold own_all, set_atoms. simpl in *. rewrite map_own_fix by exact H. reflexivity. Qed.

Lemma Inv_own_all s : Inv s -> own_all s = s.
Proof. intros [_ [_ [_ [H4 _]]]]. apply own_all_fix. intros a Ha. apply H4. exact Ha. Qed.

Lemma Inv_AInv s : Inv s -> AInv s.
Proof. intros H. unfold AInv. rewrite (Inv_own_all s H). exact H. Qed.

Lemma ids_own_all s : ids (own_all s) = ids s.
Proof. unfold ids. simpl. rewrite map_map. reflexivity. Qed.

Lemma row_of_own_all s y : row_of (own_all s) y = row_of s y.
Proof. unfold row_of. simpl. rewrite (find_idx_own (blind_id y)). reflexivity. Qed.

(* spelled out: what AInv says about s itself *)
Lemma AInv_spelled s : AInv s ->
  length (coords s) = length (atoms s) /\
  (if has_q s then length (charges s) = length (atoms s) /\ Forall numeric (charges s) else charges s = []) /\
  NoDup (ids s) /\
  (forall a, In a (atoms s) -> (a_id a < next_a s)%positive) /\
  NoDup (bids s) /\
  (forall b, In b (bonds s) ->
     b_par b = OThis /\ (b_id b < next_b s)%positive /\ In (b_a1 b) (ids s) /\ In (b_a2 b) (ids s)).
Proof.
  unfold AInv. intros [H1 [H2 [H3 [H4 [H5 H6]]]]]. rewrite ids_own_all in *. simpl in *.
  rewrite map_length in *.
  split; [exact H1|]. split; [exact H2|]. split; [exact H3|].
  split; [intros a Ha; apply (H4 (own a)); apply in_map; exact Ha|].
  split; [exact H5|exact H6].
Qed.

Lemma own_adopt s l w : own_all (adopt s l w) = own_all s.
Proof.
  unfold own_all, adopt, set_atoms. simpl. rewrite map_map. f_equal.
  apply map_ext. intros a. destruct (mem (a_id a) l); reflexivity.
Qed.

Lemma via_sub_same s va o s' : (xstep s (ViaSub va o) = Ok s' \/ xstep s (ViaSub va o) = Err s') -> s' = s.
Proof.
  simpl. destruct (sub_view s va) as [v|]; [destruct (vstep v o)|]; intros [H|H]; congruence.
Qed.

(* one step of the extended alphabet: alignment kept, every surviving atom keeps its row and charge *)
Theorem xstep_good s x s' : AInv s -> (xstep s x = Ok s' \/ xstep s x = Err s') ->
  AInv s' /\ Keeps (own_all s) (own_all s').
Proof.
  intros HA H. destruct x as [o|va o|l w].
  - simpl in H. pose proof (step_parent_blind s o) as B. pose proof (step_good (own_all s) o HA) as G.
    rewrite B in G. destruct H as [H|H]; rewrite H in G; exact G.
  - rewrite (via_sub_same s va o s' H). split; [exact HA|apply Keeps_refl].
  - simpl in H. destruct (forallb (is_member s) l); destruct H as [H|H]; try discriminate.
    inversion H; subst. unfold AInv. rewrite own_adopt. split; [exact HA|apply Keeps_refl].
Qed.

Theorem xrun_good : forall h s s', AInv s -> xrun s h = Some s' -> AInv s' /\ Keeps (own_all s) (own_all s').
Proof.
  induction h as [|x h IH]; intros s s' HA H; simpl in H.
  - inversion H; subst. split; [exact HA|apply Keeps_refl].
  - destruct (xstep s x) as [s1|s1| |] eqn:E; try discriminate.
    + destruct (@xstep_good s x s1 HA (or_introl E)) as [G1 G2]. destruct (IH _ _ G1 H) as [F1 F2].
      split; [exact F1|eapply Keeps_trans; eauto].
    + destruct (@xstep_good s x s1 HA (or_intror E)) as [G1 G2]. destruct (IH _ _ G1 H) as [F1 F2].
      split; [exact F1|eapply Keeps_trans; eauto].
Qed.

Theorem xkeeps_history s h s' : AInv s -> xrun s h = Some s' ->
  (forall y, In y (ids s) -> In y (ids s') -> row_of s' y = row_of s y) /\
  (forall y, In y (ids s') -> In y (ids s) \/ (next_a s <= y)%positive).
Proof.
  intros HA H. destruct (xrun_good h s s' HA H) as [_ [_ [_ [_ [G4 G5]]]]].
  rewrite !ids_own_all in *. split.
  - intros y H1 H2. specialize (G5 y H1 H2). rewrite !row_of_own_all in G5. exact G5.
  - exact G4.
Qed.

(* the parent pointers: an atom reports another parent only if some container adopted it *)
Lemma xrun_parents_gen : forall h s s' L,
  (forall a, In a (atoms s) -> a_par a = OThis \/ In (a_id a) L) ->
  xrun s h = Some s' ->
  forall a, In a (atoms s') -> a_par a = OThis \/ In (a_id a) (L ++ adopted h).
Proof.
  induction h as [|x h IH]; intros s s' L HP H; simpl in H.
  - inversion H; subst. simpl. rewrite app_nil_r. exact HP.
  - destruct (xstep s x) as [s1|s1| |] eqn:E; try discriminate.
    + destruct x as [o|va o|l w].
      * simpl. apply (IH s1 s' L); [|exact H]. intros a Ha.
        destruct (@step_atoms_frame s o s1 (or_introl E) a Ha) as [F|F]; [apply HP; exact F|left; exact F].
      * simpl. rewrite (@via_sub_same s va o s1 (or_introl E)) in H. apply (IH s s' L); assumption.
      * simpl. rewrite app_assoc. apply (IH s1 s' (L ++ l)); [|exact H].
        simpl in E. destruct (forallb (is_member s) l); [|discriminate]. inversion E; subst. simpl.
        intros a Ha. apply in_map_iff in Ha. destruct Ha as [a0 [<- Ha0]].
        destruct (mem (a_id a0) l) eqn:M.
        -- right. simpl. apply in_or_app. right. apply mem_In. exact M.
        -- destruct (HP a0 Ha0) as [P|P]; [left; exact P|right; apply in_or_app; left; exact P].
    + destruct x as [o|va o|l w].
      * simpl. apply (IH s1 s' L); [|exact H]. intros a Ha.
        destruct (@step_atoms_frame s o s1 (or_intror E) a Ha) as [F|F]; [apply HP; exact F|left; exact F].
      * simpl. rewrite (@via_sub_same s va o s1 (or_intror E)) in H. apply (IH s s' L); assumption.
      * simpl in E. destruct (forallb (is_member s) l); discriminate.
Qed.

Theorem xrun_parents s h s' : Inv s -> xrun s h = Some s' ->
  forall a, In a (atoms s') -> a_par a = OThis \/ In (a_id a) (adopted h).
Proof.
  intros HI H a Ha. apply (@xrun_parents_gen h s s' [] ); [|exact H|exact Ha].
  intros b Hb. left. destruct HI as [_ [_ [_ [H4 _]]]]. apply H4. exact Hb.
Qed.

(* without adoption the FULL invariant (parents included) holds after every history, view operations included *)
Theorem xrun_no_adoption s h s' : Inv s -> xrun s h = Some s' -> adopted h = [] -> Inv s'.
Proof.
  intros HI H HN. destruct (xrun_good h s s' (Inv_AInv s HI) H) as [HA _].
  unfold AInv in HA. rewrite own_all_fix in HA; [exact HA|].
  intros a Ha. destruct (xrun_parents s h s' HI H a Ha) as [P|P]; [exact P|]. rewrite HN in P. destruct P.
Qed.

Lemma xrun_own : forall h s, xrun s (map Own h) = run s h.
Proof. induction h as [|o h IH]; intros s; simpl; [reflexivity|]. destruct (step s o); auto. Qed.

(* ================================================================== the correspondence *)
Lemma run_check_xrun : forall steps s, run_check s steps = true -> exists s', xrun s (map fst steps) = Some s'.
Proof.
  induction steps as [|[o ob] steps IH]; intros s H; simpl in *; [eauto|].
  destruct (xstep s o); try discriminate; apply andb_true_iff in H; destruct H as [_ H]; apply IH; exact H.
Qed.

Theorem check_case_sound c : check_case c = true ->
  Inv (fst c) /\ exists s', xrun (fst c) (map fst (snd c)) = Some s' /\ AInv s' /\ Keeps (fst c) (own_all s') /\
    (forall a, In a (atoms s') -> a_par a = OThis \/ In (a_id a) (adopted (map fst (snd c)))).
Proof.
  unfold check_case. intros H. apply andb_true_iff in H. destruct H as [H1 H2].
  apply inv_b_iff in H1. split; [exact H1|].
  destruct (run_check_xrun _ _ H2) as [s' Hs]. exists s'. split; [exact Hs|].
  destruct (xrun_good _ _ _ (Inv_AInv _ H1) Hs) as [G1 G2]. rewrite (Inv_own_all _ H1) in G2.
  split; [exact G1|]. split; [exact G2|]. apply (xrun_parents _ _ _ H1 Hs).
Qed.

(* ================================================================== what deciding membership from the parent pointer does *)
(* append_bond as it would read with `atom.parent is not self` in place of `atom not in self.atoms`:
   an end that does not report this molecule is appended (again) and re-pointed *)
Definition readopt (s : st) (x : positive) : st :=
  match find (id_is x) (atoms s) with
  | Some a => if owner_eqb (a_par a) OThis then s else set_atoms s (atoms s ++ [own a])
  | None => s
  end.
Definition append_bond_by_parent (s : st) (x y : positive) : st :=
  let s1 := mkSt (has_q s) (atoms s) (coords s) (charges s)
                 (bonds s ++ [mkBond (next_b s) x y OThis]) (next_a s) (Pos.succ (next_b s)) in
  readopt (readopt s1 x) y.

Lemma find_adopt w x : forall l, In x (map a_id l) ->
  exists a0, In a0 l /\ a_id a0 = x /\
    find (id_is x) (map (fun a => if mem (a_id a) [x] then set_par a w else a) l) = Some (set_par a0 w).
Proof.
  induction l as [|a l IH]; simpl; intros H; [contradiction|].
  destruct (Pos.eqb (a_id a) x) eqn:E; simpl.
  - exists a. unfold id_is. simpl. rewrite E. apply Pos.eqb_eq in E. repeat split; auto.
  - unfold id_is at 1. rewrite E. destruct H as [H|H]; [apply Pos.eqb_neq in E; contradiction|].
    destruct (IH H) as [a0 [A1 [A2 A3]]]. exists a0. repeat split; auto.
Qed.

Lemma ids_adopt s l w : ids (adopt s l w) = ids s.
Proof.
  unfold ids, adopt. simpl. rewrite map_map. apply map_ext. intros a. destruct (mem (a_id a) l); reflexivity.
Qed.

Lemma readopt_grows t z : exists extra, atoms (readopt t z) = atoms t ++ extra.
Proof.
  unfold readopt. destruct (find (id_is z) (atoms t)) as [a|]; [|exists []; rewrite app_nil_r; reflexivity].
  destruct (owner_eqb (a_par a) OThis); [exists []; rewrite app_nil_r; reflexivity|exists [own a]; reflexivity].
Qed.

Lemma by_parent_breaks s x y w : Inv s -> In x (ids s) -> w <> OThis ->
  ~ AInv (append_bond_by_parent (adopt s [x] w) x y).
Proof.
  intros HI Hx Hw HA. apply AInv_spelled in HA. destruct HA as [_ [_ [ND _]]].
  unfold append_bond_by_parent in ND.
  set (s0 := adopt s [x] w) in *.
  set (s1 := mkSt (has_q s0) (atoms s0) (coords s0) (charges s0)
                  (bonds s0 ++ [mkBond (next_b s0) x y OThis]) (next_a s0) (Pos.succ (next_b s0))) in *.
  destruct (find_adopt w x (atoms s) Hx) as [a0 [A1 [A2 A3]]].
  assert (H1 : atoms (readopt s1 x) = atoms s0 ++ [own (set_par a0 w)]).
  { unfold readopt.
    change (atoms s1) with (map (fun a => if mem (a_id a) [x] then set_par a w else a) (atoms s)).
    rewrite A3. cbn [a_par set_par].
    destruct w; [contradiction|reflexivity|reflexivity]. }
  destruct (readopt_grows (readopt s1 x) y) as [extra He].
  unfold ids in ND. rewrite He, H1 in ND. rewrite !map_app in ND. simpl in ND.
  rewrite <- app_assoc in ND. simpl in ND. apply NoDup_remove_2 in ND. apply ND.
  apply in_or_app. left. cbn [a_id own set_par]. rewrite A2.
  change (In x (ids (adopt s [x] w))). rewrite ids_adopt. exact Hx.
Qed.

(* ================================================================== packaged statements used by Props/C05.v *)
Theorem ainv_xstep s x s' : AInv s -> (xstep s x = Ok s' \/ xstep s x = Err s') -> AInv s'.
Proof. intros HA H. apply (xstep_good s x s' HA H). Qed.

Theorem ainv_xhistory s h s' : AInv s -> xrun s h = Some s' ->
  AInv s' /\
  (forall y, In y (ids s) -> In y (ids s') -> row_of s' y = row_of s y) /\
  (forall y, In y (ids s') -> In y (ids s) \/ (next_a s <= y)%positive).
Proof. intros HA H. split; [apply (xrun_good h s s' HA H)|apply (xkeeps_history s h s' HA H)]. Qed.
