(* The session context managers ARE the model: the translated entry / exit parts of CollectionBackendBase.reading() and
   writing() (Gen/BackendCode.v: split at their `yield self`) compute Model/Backend.v's b_begin_r / b_end_r / b_begin_w /
   b_end_w for every state, set _state as the model says, and hold / release the lock: after the exit part the lock is
   released on EVERY path -- also when the final flush of a writing session raises. *)
From Coq Require Import NArith ZArith Arith List Bool String Lia.
Import ListNotations.
From Molli Require Import Model.UKV Model.MiniPy Model.Backend Model.MiniPyB Gen.UKVCode Gen.BackendCode
  Proofs.UKVBase Proofs.UKVCode Proofs.MiniPyFrame Proofs.BackendCode Proofs.BackendBuffer Proofs.BackendMode.
Open Scope string_scope.
Open Scope N_scope.

(* ---------- frames of the backend layer ---------- *)
Fixpoint no_lock (c : bstmt) : bool :=
  match c with
  | BAcquire _ | BRelease _ | BAcquireOdd _ _ => false
  | BSeq a b | BIf _ a b | BTryReraise a b | BTryFinally a b => no_lock a && no_lock b
  | BCall a | BCallRet a | BWhilePop _ _ a => no_lock a
  | _ => true
  end.

Lemma bwloop_frame {A} (g : bstate -> A) eb kx vx (Hb : forall s, g (fst (eb s)) = g s)
  (Hset : forall s x v, g (set_bloc s x v) = g s)
  (Hq : forall s q, g (mkbs (inner s) (has_inner s) q (bks s) (bused s) (bbuf s) (bro s) (bsess s) (bheld s) (bloc s)) = g s) :
  forall n s, g (fst (bwloop eb kx vx n s)) = g s.
Proof.
  induction n as [|n IH]; intros s; cbn [bwloop]; [reflexivity|].
  destruct (bq s) as [|[k v] q']; [reflexivity|].
  set (s1 := set_bloc (set_bloc _ kx k) vx v).
  assert (E1 : g s1 = g s) by (unfold s1; rewrite !Hset; apply Hq).
  pose proof (Hb s1) as B. destruct (eb s1) as [s2 o]. cbn [fst] in B.
  destruct o; cbn [fst]; try (rewrite B; exact E1). rewrite IH, B. exact E1.
Qed.

Lemma bexec_held fuel : forall c s, no_lock c = true -> bheld (fst (bexec fuel c s)) = bheld s.
Proof.
  induction c; intros s0 H; cbn [no_lock] in H; try discriminate; cbn [bexec]; try reflexivity;
    try (apply andb_true_iff in H; destruct H as [H1 H2]).
  - (* BSeq *) pose proof (IHc1 s0 H1) as A. destruct (bexec fuel c1 s0) as [s1 o]. cbn [fst] in A.
    destruct o; try exact A. rewrite (IHc2 s1 H2). exact A.
  - (* BIf *) match goal with |- context [beval_bool ?ss ?e] => destruct (beval_bool ss e) as [[]|] end; auto.
  - (* BQueueAppend *) destruct (beval_bytes s0 k), (beval_bytes s0 v); reflexivity.
  - (* BKeysAdd *) destruct (beval_bytes s0 k); reflexivity.
  - (* BUsedAddLens *) destruct (beval_bytes s0 k), (beval_bytes s0 v); reflexivity.
  - (* BCall *) pose proof (IHc s0 H) as A. destruct (bexec fuel c s0) as [s1 o]. exact A.
  - (* BCallRet *) pose proof (IHc s0 H) as A. destruct (bexec fuel c s0) as [s1 o]. exact A.
  - (* BWhilePop *) apply (bwloop_frame bheld); [intros s; apply IHc; exact H|reflexivity|reflexivity].
  - (* BTryReraise *) pose proof (IHc1 s0 H1) as A. destruct (bexec fuel c1 s0) as [s1 o]. cbn [fst] in A.
    destruct o; try exact A. pose proof (IHc2 s1 H2) as B. destruct (bexec fuel c2 s1) as [s2 o2]. cbn [fst] in B.
    destruct o2; cbn [fst]; rewrite B; exact A.
  - (* BUkvCall *) destruct (negb (has_inner s0)); [reflexivity|]. destruct (bind_inner s0 (inner s0) args) as [st1|]; [|reflexivity].
    destruct (exec fuel p st1) as [st' o]. reflexivity.
  - (* BUkvCallRet *) destruct (negb (has_inner s0)); [reflexivity|]. destruct (bind_inner s0 (inner s0) args) as [st1|]; [|reflexivity].
    destruct (exec fuel p st1) as [st' o]. reflexivity.
  - (* BKeysFromUkv *) destruct (negb (has_inner s0)); [reflexivity|]. destruct (eval (inner s0) e) as [[]|]; reflexivity.
  - (* BUkvNew *) destruct (bind_inner s0 _ args) as [st1|]; [|reflexivity]. destruct (exec fuel p st1) as [st' o]. destruct o; reflexivity.
  - (* BTryFinally *) pose proof (IHc1 s0 H1) as A. destruct (bexec fuel c1 s0) as [s1 o]. cbn [fst] in A.
    pose proof (IHc2 s1 H2) as B. destruct (bexec fuel c2 s1) as [s2 o2]. cbn [fst] in *. rewrite B. exact A.
Qed.

(* an attribute of the inner UKVFile object that no embedded program assigns and no constructor call replaces *)
Fixpoint bsets_attr (x : string) (c : bstmt) : bool :=
  match c with
  | BSeq a b | BIf _ a b | BTryReraise a b | BTryFinally a b => bsets_attr x a || bsets_attr x b
  | BCall a | BCallRet a | BWhilePop _ _ a => bsets_attr x a
  | BUkvCall p _ | BUkvCallRet p _ => sets_attr x p
  | BUkvNew _ _ => true
  | _ => false
  end.

Lemma bind_inner_attrs s : forall args st0 st1, bind_inner s st0 args = Some st1 -> attrs st1 = attrs st0.
Proof.
  induction args as [|[p e] args IH]; intros st0 st1 H; cbn [bind_inner] in H; [inversion H; reflexivity|].
  destruct (beval_val s e); [|discriminate]. apply IH in H. exact H.
Qed.

Lemma bexec_inner_attr x fuel : forall c s, bsets_attr x c = false ->
  lookup_env (attrs (inner (fst (bexec fuel c s)))) x = lookup_env (attrs (inner s)) x.
Proof.
  induction c; intros s0 H; cbn [bsets_attr] in H; try discriminate; cbn [bexec]; try reflexivity;
    try (apply orb_false_iff in H; destruct H as [H1 H2]).
  - pose proof (IHc1 s0 H1) as A. destruct (bexec fuel c1 s0) as [s1 o]. cbn [fst] in A.
    destruct o; try exact A. rewrite (IHc2 s1 H2). exact A.
  - match goal with |- context [beval_bool ?ss ?e] => destruct (beval_bool ss e) as [[]|] end; auto.
  - destruct (beval_bytes s0 k), (beval_bytes s0 v); reflexivity.
  - destruct (beval_bytes s0 k); reflexivity.
  - destruct (beval_bytes s0 k), (beval_bytes s0 v); reflexivity.
  - pose proof (IHc s0 H) as A. destruct (bexec fuel c s0) as [s1 o]. exact A.
  - pose proof (IHc s0 H) as A. destruct (bexec fuel c s0) as [s1 o]. exact A.
  - apply (bwloop_frame (fun s => lookup_env (attrs (inner s)) x)); [intros s; apply IHc; exact H|reflexivity|reflexivity].
  - pose proof (IHc1 s0 H1) as A. destruct (bexec fuel c1 s0) as [s1 o]. cbn [fst] in A.
    destruct o; try exact A. pose proof (IHc2 s1 H2) as B. destruct (bexec fuel c2 s1) as [s2 o2]. cbn [fst] in B.
    destruct o2; cbn [fst]; rewrite B; exact A.
  - destruct (negb (has_inner s0)); [reflexivity|]. destruct (bind_inner s0 (inner s0) args) as [s1|] eqn:B; [|reflexivity].
    pose proof (exec_attr_frame x fuel p s1 H) as A. destruct (exec fuel p s1) as [st' o]. cbn [fst with_inner inner] in *.
    rewrite A. rewrite (bind_inner_attrs _ _ _ _ B). reflexivity.
  - destruct (negb (has_inner s0)); [reflexivity|]. destruct (bind_inner s0 (inner s0) args) as [s1|] eqn:B; [|reflexivity].
    pose proof (exec_attr_frame x fuel p s1 H) as A. destruct (exec fuel p s1) as [st' o]. cbn [fst with_inner inner] in *.
    rewrite A. rewrite (bind_inner_attrs _ _ _ _ B). reflexivity.
  - destruct (negb (has_inner s0)); [reflexivity|]. destruct (eval (inner s0) e) as [[]|]; reflexivity.
  - pose proof (IHc1 s0 H1) as A. destruct (bexec fuel c1 s0) as [s1 o]. cbn [fst] in A.
    pose proof (IHc2 s1 H2) as B. destruct (bexec fuel c2 s1) as [s2 o2]. cbn [fst] in *. rewrite B. exact A.
  - destruct (bheld s0); reflexivity.
  - destruct (bheld s0) as [w'|]; [|reflexivity]. destruct (Bool.eqb w w'); reflexivity.
Qed.

(* ---------- small steps ---------- *)
Definition set_held (s : bstate) (l : option bool) : bstate :=
  mkbs (inner s) (has_inner s) (bq s) (bks s) (bused s) (bbuf s) (bro s) (bsess s) l (bloc s).
Definition set_sess (s : bstate) (x : sess) : bstate :=
  mkbs (inner s) (has_inner s) (bq s) (bks s) (bused s) (bbuf s) (bro s) x (bheld s) (bloc s).
Definition set_st (b : backend) (x : sess) : backend := mkb (uk b) (has_uk b) (queue b) (bkeys b) (used b) (bufsize b) (ro b) x.
Definition set_keys (b : backend) (ks : list bytes) : backend := mkb (uk b) (has_uk b) (queue b) ks (used b) (bufsize b) (ro b) (st b).

Lemma brep_held s f b l : BRep s f b -> BRep (set_held s l) f b.
Proof. intros [A1 A2 A3 A4 A5 A6 A7 A8 A9]. constructor; assumption. Qed.
Lemma brep_sess s f b x : BRep s f b -> BRep (set_sess s x) f (set_st b x).
Proof. intros [A1 A2 A3 A4 A5 A6 A7 A8 A9]. constructor; try assumption. reflexivity. Qed.

Lemma bexec_tryre fuel a h s : bexec fuel (BTryReraise a h) s =
  (let '(s1, o) := bexec fuel a s in
   match o with
   | BORaise e => let '(s2, o2) := bexec fuel h s1 in match o2 with BONormal => (s2, BORaise e) | _ => (s2, o2) end
   | _ => (s1, o) end).
Proof. reflexivity. Qed.
Lemma bexec_tryfin fuel a h s : bexec fuel (BTryFinally a h) s =
  (let '(s1, o) := bexec fuel a s in let '(s2, o2) := bexec fuel h s1 in (s2, match o2 with BONormal => o | _ => o2 end)).
Proof. reflexivity. Qed.

Lemma bexec_acquire fuel w s : bheld s = None -> bexec fuel (BAcquire w) s = (set_held s (Some w), BONormal).
Proof. intros H. cbn [bexec]. rewrite H. reflexivity. Qed.
Lemma bexec_release fuel w s : bheld s = Some w -> bexec fuel (BRelease w) s = (set_held s None, BONormal).
Proof. intros H. cbn [bexec]. rewrite H. rewrite Bool.eqb_reflx. reflexivity. Qed.

(* update_keys(): the listing becomes the keys of the file as the handle knows it *)
Lemma update_keys_code fuel s f b :
  BRep s f b -> has_uk b = true ->
  bexec fuel (BCall update_keys_prog) s = (mkbs (inner s) (has_inner s) (bq s) (keys (uk b)) (bused s) (bbuf s) (bro s) (bsess s) (bheld s) (bloc s), BONormal).
Proof.
  intros R Hh. rewrite bexec_call. unfold update_keys_prog. cbn [bexec]. rewrite (br_has _ _ _ R), Hh. cbn [negb].
  rewrite (keys_code (inner s) (uk b) (br_uk _ _ _ R Hh)). cbn [restore_loc inner has_inner bq bks bused bbuf bro bsess bheld bloc].
  reflexivity.
Qed.

Lemma brep_keys s f b : BRep s f b -> has_uk b = true ->
  BRep (mkbs (inner s) (has_inner s) (bq s) (keys (uk b)) (bused s) (bbuf s) (bro s) (bsess s) (bheld s) (bloc s)) f (set_keys b (keys (uk b))).
Proof. intros [A1 A2 A3 A4 A5 A6 A7 A8 A9] _. constructor; try assumption. reflexivity. Qed.

(* ---------- entry ---------- *)
(* the common shape of both entry parts after the lock is taken *)
Lemma enter_body_code fuel (m : mode) begin_prog (x : sess) fin s f b hh1 hh2 bb0 rest :
  begin_prog = BIf (BENot BEHasUkv)
             (BUkvNew init_prog [("path", BENone); ("mode", BEStr (mode_str m)); ("h1", BENone); ("h2", BENone); ("b0", BENone)])
             (BUkvCall open_prog [("mode", BEStr (mode_str m))]) ->
  (List.length f < fuel)%nat -> BRep s f b ->
  f = (mk_header hh1 hh2 bb0 ++ rest)%list -> List.length hh1 = 16%nat -> len hh2 < 65536 -> len bb0 < 4294967296 ->
  (has_uk b = false -> uk b = h0) -> (forall k, last (uk b) = Some k -> lookup (toc (uk b)) k <> None) ->
  let '(s', o) := bexec fuel (BSeq (BSeq (BCall begin_prog) (BSetState x)) (BTryReraise (BCall update_keys_prog) fin)) s in
  let '(f', h') := open_ f (uk b) m in
  o = BONormal /\ BRep s' f' (mkb h' true (queue b) (keys h') (used b) (bufsize b) (ro b) x) /\ bheld s' = bheld s /\
  ((has_inner s = true -> has_mode s) -> has_mode s').
Proof.
  intros Eb Hfuel R Hf L1 L2 L0 Hh0 Hin.
  pose proof (begin_mode fuel m begin_prog s Eb) as BM.
  pose proof (begin_code fuel m begin_prog s f b hh1 hh2 bb0 rest Eb Hfuel R Hf L1 L2 L0 Hh0 Hin) as B.
  assert (NL : no_lock begin_prog = true) by (subst begin_prog; reflexivity).
  pose proof (bexec_held fuel begin_prog s NL) as Hl.
  rewrite !bexec_seq, bexec_call.
  destruct (bexec fuel begin_prog s) as [s1 o1]. destruct (open_ f (uk b) m) as [f' h']. destruct B as [B1 B2]. subst o1. cbn [fst] in Hl.
  cbv beta iota. set (s2 := restore_loc s1 (bloc s)).
  assert (R2 : BRep s2 f' (opened b h')) by (apply brep_restore; exact B2).
  change (bexec fuel (BSetState x) s2) with (set_sess s2 x, BONormal). cbv beta iota.
  pose proof (brep_sess _ _ _ x R2) as R3.
  assert (Hh3 : has_uk (set_st (opened b h') x) = true) by reflexivity.
  rewrite bexec_tryre, (update_keys_code fuel _ _ _ R3 Hh3).
  split; [reflexivity|]. split; [exact (brep_keys _ _ _ R3 Hh3)|]. split.
  - cbn [bheld set_sess s2 restore_loc]. exact Hl.
  - intros Hm. specialize (BM Hm). cbn [fst] in BM. unfold has_mode in *. cbn [inner set_sess s2 restore_loc].
    apply BM. rewrite (br_has _ _ _ B2). reflexivity.
Qed.

Theorem reading_enter_code fuel s f b hh1 hh2 bb0 rest :
  (List.length f < fuel)%nat -> BRep s f b ->
  f = (mk_header hh1 hh2 bb0 ++ rest)%list -> List.length hh1 = 16%nat -> len hh2 < 65536 -> len bb0 < 4294967296 ->
  (has_uk b = false -> uk b = h0) -> (forall k, last (uk b) = Some k -> lookup (toc (uk b)) k <> None) ->
  bheld s = None ->
  let '(s', o) := bexec fuel reading_enter_prog s in
  let '(f', b', r) := b_begin_r f b in
  o = BONormal /\ r = BOk /\ BRep s' f' b' /\ bheld s' = Some false /\ ((has_inner s = true -> has_mode s) -> has_mode s').
Proof.
  intros Hfuel R Hf L1 L2 L0 Hh0 Hin Hl. unfold reading_enter_prog, b_begin_r.
  rewrite bexec_seq, (bexec_acquire fuel false s Hl). cbv beta iota.
  pose proof (brep_held s f b (Some false) R) as R1.
  rewrite bexec_tryre.
  pose proof (enter_body_code fuel MR begin_read_prog SReading (BSeq (BCall end_read_prog) (BSetState SIdle))
                (set_held s (Some false)) f b hh1 hh2 bb0 rest eq_refl Hfuel R1 Hf L1 L2 L0 Hh0 Hin) as E.
  destruct (bexec fuel _ (set_held s (Some false))) as [s1 o1]. destruct (open_ f (uk b) MR) as [f' h'].
  destruct E as [E1 [E2 [E3 E4]]]. subst o1. cbv beta iota. split; [reflexivity|split; [reflexivity|split; [exact E2|split; [exact E3|exact E4]]]].
Qed.

Theorem writing_enter_code fuel s f b hh1 hh2 bb0 rest :
  (List.length f < fuel)%nat -> BRep s f b ->
  f = (mk_header hh1 hh2 bb0 ++ rest)%list -> List.length hh1 = 16%nat -> len hh2 < 65536 -> len bb0 < 4294967296 ->
  (has_uk b = false -> uk b = h0) -> (forall k, last (uk b) = Some k -> lookup (toc (uk b)) k <> None) ->
  bheld s = None ->
  let '(s', o) := bexec fuel writing_enter_prog s in
  let '(f', b', r) := b_begin_w f b in
  o = bout_of_res r /\ BRep s' f' b' /\ bheld s' = (if ro b then None else Some true) /\
  ((has_inner s = true -> has_mode s) -> has_inner s' = true -> has_mode s').
Proof.
  intros Hfuel R Hf L1 L2 L0 Hh0 Hin Hl. unfold writing_enter_prog, b_begin_w.
  rewrite !bexec_seq, bexec_if. cbn [beval_bool]. rewrite (br_ro _ _ _ R). destruct (ro b) eqn:Ero.
  - cbn [bexec bout_of_res]. split; [reflexivity|]. split; [exact R|]. split; [exact Hl|]. intros Hm Hi. exact (Hm Hi).
  - change (bexec fuel BSkip s) with (s, BONormal). cbv beta iota. rewrite (bexec_acquire fuel true s Hl). cbv beta iota.
    pose proof (brep_held s f b (Some true) R) as R1.
    rewrite bexec_tryre.
    pose proof (enter_body_code fuel MA begin_write_prog SWriting
                  (BTryFinally (BCall flush_prog) (BSeq (BCall end_write_prog) (BSetState SIdle)))
                  (set_held s (Some true)) f b hh1 hh2 bb0 rest eq_refl Hfuel R1 Hf L1 L2 L0 Hh0 Hin) as E.
    destruct (bexec fuel _ (set_held s (Some true))) as [s1 o1]. destruct (open_ f (uk b) MA) as [f' h'].
    destruct E as [E1 [E2 [E3 E4]]]. subst o1. cbv beta iota. rewrite Ero in E2. split; [reflexivity|split; [exact E2|split; [exact E3|]]].
    intros Hm _. exact (E4 Hm).
Qed.

(* ---------- exit ---------- *)
(* end_read() / end_write(); self._state = "idle" *)
Lemma end_idle_code fuel prog s f b :
  prog = BUkvCall close_prog [] -> BRep s f b -> has_uk b = true -> has_mode s ->
  let '(s', o) := bexec fuel (BSeq (BCall prog) (BSetState SIdle)) s in
  o = BONormal /\ BRep s' f (mkb (close_ (uk b)) (has_uk b) (queue b) (bkeys b) (used b) (bufsize b) (ro b) SIdle) /\ bheld s' = bheld s.
Proof.
  intros Ep R Hh M. pose proof (end_code fuel prog s f b Ep R Hh M) as E.
  assert (NL : no_lock prog = true) by (subst prog; reflexivity).
  pose proof (bexec_held fuel prog s NL) as Hl.
  rewrite bexec_seq, bexec_call. destruct (bexec fuel prog s) as [s1 o1]. destruct E as [E1 E2]. subst o1. cbn [fst] in Hl.
  change (bexec fuel (BSetState SIdle) (restore_loc s1 (bloc s))) with (set_sess (restore_loc s1 (bloc s)) SIdle, BONormal).
  split; [reflexivity|]. split; [|exact Hl].
  exact (brep_sess _ _ _ SIdle (brep_restore _ _ _ (bloc s) E2)).
Qed.

Theorem reading_exit_code fuel s f b :
  BRep s f b -> has_uk b = true -> has_mode s -> bheld s = Some false ->
  let '(s', o) := bexec fuel reading_exit_prog s in
  let '(f', b', r) := b_end_r f b in
  o = BONormal /\ r = BOk /\ f' = f /\ BRep s' f b' /\ bheld s' = None.
Proof.
  intros R Hh M Hl. unfold reading_exit_prog, b_end_r.
  rewrite bexec_seq, bexec_tryfin, bexec_seq, bexec_tryfin.
  change (bexec fuel BSkip s) with (s, BONormal). cbv beta iota.
  pose proof (end_idle_code fuel end_read_prog s f b eq_refl R Hh M) as E.
  destruct (bexec fuel (BSeq (BCall end_read_prog) (BSetState SIdle)) s) as [s1 o1]. destruct E as [E1 [E2 E3]]. subst o1.
  change (bexec fuel BSkip s1) with (s1, BONormal). cbv beta iota.
  assert (Hl1 : bheld s1 = Some false) by (rewrite E3; exact Hl).
  rewrite (bexec_release fuel false s1 Hl1). cbv beta iota. change (bexec fuel BSkip (set_held s1 None)) with (set_held s1 None, BONormal).
  split; [reflexivity|split; [reflexivity|split; [reflexivity|split; [|reflexivity]]]].
  exact (brep_held _ _ _ None E2).
Qed.

Theorem writing_exit_code fuel s f b :
  (List.length (queue b) < fuel)%nat -> BRep s f b -> has_uk b = true -> has_mode s -> bheld s = Some true ->
  let '(s', o) := bexec fuel writing_exit_prog s in
  let '(f', b', r) := b_end_w f b in
  o = bout_of_res r /\ BRep s' f' b' /\ bheld s' = None.
Proof.
  intros Hn R Hh M Hl. unfold writing_exit_prog, b_end_w.
  rewrite bexec_seq, bexec_tryfin, bexec_seq, bexec_tryfin.
  change (bexec fuel BSkip s) with (s, BONormal). cbv beta iota. rewrite bexec_tryfin, bexec_call.
  pose proof (flush_code fuel s f b Hn R) as F.
  assert (NL : no_lock flush_prog = true) by reflexivity.
  pose proof (bexec_held fuel flush_prog s NL) as Hl1.
  assert (NM : bsets_attr "mode" flush_prog = false) by reflexivity.
  pose proof (bexec_inner_attr "mode" fuel flush_prog s NM) as Hm1.
  destruct (bexec fuel flush_prog s) as [s1 o1]. cbn [fst] in Hl1, Hm1.
  destruct (flush f b) as [[f1 b1] e] eqn:Ef. destruct F as [F1 [F2 _]]. subst o1.
  assert (Hh1 : has_uk b1 = true).
  { unfold flush in Ef. apply flush_loop_takes_apart in Ef; [|lia]. destruct Ef as [w [d [_ [_ [_ [_ [_ E6]]]]]]]. rewrite E6. exact Hh. }
  set (s2 := restore_loc s1 (bloc s)).
  assert (R2 : BRep s2 f1 b1) by (apply brep_restore; exact F2).
  assert (M2 : has_mode s2) by (unfold has_mode in *; cbn [s2 restore_loc inner]; rewrite Hm1; exact M).
  pose proof (end_idle_code fuel end_write_prog s2 f1 b1 eq_refl R2 Hh1 M2) as E.
  destruct (bexec fuel (BSeq (BCall end_write_prog) (BSetState SIdle)) s2) as [s3 o3]. destruct E as [E1 [E2 E3]]. subst o3.
  change (bexec fuel BSkip s3) with (s3, BONormal).
  assert (Hl3 : bheld s3 = Some true) by (rewrite E3; cbn [s2 restore_loc bheld]; rewrite Hl1; exact Hl).
  (* the outcome of the flush travels through two finalisers and the release *)
  destruct e as [x|]; cbn [bout_of bout_of_res]; cbv beta iota; rewrite (bexec_release fuel true s3 Hl3); cbv beta iota;
    change (bexec fuel BSkip (set_held s3 None)) with (set_held s3 None, BONormal); cbv beta iota;
    (split; [reflexivity|split; [exact (brep_held _ _ _ None E2)|reflexivity]]).
Qed.

(* ---------- entry and exit compose: a whole (empty) reading session, with no hypothesis about the mode attribute left ---------- *)
Theorem reading_session_code fuel s f b hh1 hh2 bb0 rest :
  (List.length f < fuel)%nat -> BRep s f b ->
  f = (mk_header hh1 hh2 bb0 ++ rest)%list -> List.length hh1 = 16%nat -> len hh2 < 65536 -> len bb0 < 4294967296 ->
  (has_uk b = false -> uk b = h0) -> (forall k, last (uk b) = Some k -> lookup (toc (uk b)) k <> None) ->
  bheld s = None -> (has_inner s = true -> has_mode s) ->
  let '(s1, o1) := bexec fuel reading_enter_prog s in
  let '(s2, o2) := bexec fuel reading_exit_prog s1 in
  let '(f1, b1, _) := b_begin_r f b in
  let '(f2, b2, _) := b_end_r f1 b1 in
  o1 = BONormal /\ o2 = BONormal /\ BRep s2 f2 b2 /\ bheld s2 = None /\ st b2 = SIdle.
Proof.
  intros Hfuel R Hf L1 L2 L0 Hh0 Hin Hl Hm.
  pose proof (reading_enter_code fuel s f b hh1 hh2 bb0 rest Hfuel R Hf L1 L2 L0 Hh0 Hin Hl) as E.
  destruct (bexec fuel reading_enter_prog s) as [s1 o1].
  unfold b_begin_r in *. destruct (open_ f (uk b) MR) as [f1 h1].
  destruct E as [E1 [_ [E3 [E4 E5]]]]. specialize (E5 Hm).
  pose proof (reading_exit_code fuel s1 f1 _ E3 eq_refl E5 E4) as X.
  destruct (bexec fuel reading_exit_prog s1) as [s2 o2]. unfold b_end_r in *.
  destruct X as [X1 [_ [_ [X4 X5]]]].
  split; [exact E1|]. split; [exact X1|]. split; [exact X4|]. split; [exact X5|reflexivity].
Qed.
