(* C06 -- the DEEP level of the heap model of Model/Alias.v: attribute VALUES.

   An attrib dictionary that holds mutable values (lists, dicts, arrays, nested ones) points to the store of those
   values (`CDict kv (Some l)`, `get h l = CVal content`).  `ptrs` (Proofs/Alias.v: the containers the property
   names) does not follow that edge, `vptrs` does.  Here: closed regions / the frame rule / interleaved histories
   for `vptrs`, the deep observation `stores`, and soundness of `copy_row` for rows whose values are all fresh
   (`vrow_indep`) -- what a route whose contract is a deep copy (pickle, copy.deepcopy) has to deliver: the copy and the
   source are separated EVEN THROUGH their attribute values, the values are equal, and no in-place edit of a value
   on one side (nor anything else) is seen from the other.  And the converse for a one-level row: a copy that
   hands out the source's value objects does leak an in-place edit. *)
From Coq Require Import List ZArith Bool Arith Lia.
Import ListNotations.
From Molli Require Import Model.Alias Proofs.Alias.

(* ------------------------------------------------------------------ generic in the pointer notion *)
Section Generic.
Variable P : cell -> list loc.

Definition gclosed (h : heap) (S : loc -> Prop) : Prop :=
  forall l, S l -> l < length h /\ forall p, In p (P (get h l)) -> S p.

Lemma greachN_head : forall n h l, In l (greachN P n h l).
Proof. intros [|n] h l; simpl; auto. Qed.

Lemma greachN_sub_closed : forall h S, gclosed h S -> forall n l, S l -> forall x, In x (greachN P n h l) -> S x.
Proof.
  intros h S Hc. induction n as [|n IH]; intros l Hl x Hx; simpl in Hx.
  - destruct Hx as [<-|[]]. exact Hl.
  - destruct Hx as [<-|Hx]; [exact Hl|].
    apply in_flat_map in Hx. destruct Hx as [p [Hp Hx]].
    apply (IH p); auto. destruct (Hc l Hl) as [_ Hq]. auto.
Qed.

Lemma greachN_mono : forall n h l x, In x (greachN P n h l) -> In x (greachN P (S n) h l).
Proof.
  induction n as [|n IH]; intros h l x H.
  - simpl in H. destruct H as [<-|[]]. simpl. auto.
  - simpl in H. destruct H as [<-|H]; [simpl; auto|].
    apply in_flat_map in H. destruct H as [p [Hp Hx]].
    change (In x (l :: flat_map (greachN P (S n) h) (P (get h l)))). right.
    apply in_flat_map. exists p. split; auto.
Qed.

Lemma greachN_step : forall n h l x p, In x (greachN P n h l) -> In p (P (get h x)) -> In p (greachN P (S n) h l).
Proof.
  induction n as [|n IH]; intros h l x p Hx Hp.
  - simpl in Hx. destruct Hx as [<-|[]]. simpl. right. apply in_flat_map. exists p. split; simpl; auto.
  - simpl in Hx. destruct Hx as [Heq|Hx].
    + subst x. change (In p (l :: flat_map (greachN P (S n) h) (P (get h l)))). right.
      apply in_flat_map. exists p. split; auto. apply greachN_head.
    + apply in_flat_map in Hx. destruct Hx as [q [Hq Hx]].
      change (In p (l :: flat_map (greachN P (S n) h) (P (get h l)))). right.
      apply in_flat_map. exists q. split; auto. eapply IH; eauto.
Qed.

Variable rk : cell -> nat.
Definition granked (h : heap) : Prop :=
  forall l, l < length h -> forall p, In p (P (get h l)) -> p < length h /\ rk (get h p) < rk (get h l).

Lemma greachN_closed : forall h, granked h -> forall n l, l < length h -> rk (get h l) <= n ->
  gclosed h (fun x => In x (greachN P n h l)).
Proof.
  intros h Hr. induction n as [|n IH]; intros l Hl Hk x Hx.
  - simpl in Hx. destruct Hx as [<-|[]]. split; auto. intros p Hp.
    destruct (Hr l Hl p Hp) as [_ Hlt]. lia.
  - simpl in Hx. destruct Hx as [<-|Hx].
    + split; auto. intros p Hp. simpl. right. apply in_flat_map. exists p. split; auto. apply greachN_head.
    + apply in_flat_map in Hx. destruct Hx as [q [Hq Hx]].
      destruct (Hr l Hl q Hq) as [Hql Hqr].
      destruct (IH q Hql ltac:(lia) x Hx) as [Hxl Hxp]. split; auto.
      intros p Hp. simpl. right. apply in_flat_map. exists q. split; auto.
Qed.

(* One mutation (any list of primitive writes / allocations confined to a region of the mutator's side A)
   preserves: both sides closed, disjoint, and every cell of side B. *)
Lemma gstep_inv : forall ps region h (SA SB : loc -> Prop),
  gclosed h SA -> gclosed h SB -> (forall l, SA l -> ~ SB l) -> (forall l, In l region -> SA l) ->
  gprims_okb P region h ps = true ->
  exists SA' : loc -> Prop,
    gclosed (apply_prims h ps) SA' /\ gclosed (apply_prims h ps) SB /\ (forall l, SA' l -> ~ SB l)
    /\ (forall l, SA l -> SA' l) /\ agree SB h (apply_prims h ps).
Proof.
  induction ps as [|p ps IH]; intros region h SA SB HA HB Hd Hreg Hok.
  - exists SA. simpl. split; [exact HA|]. split; [exact HB|]. split; [exact Hd|]. split; [auto|]. intros l _. reflexivity.
  - destruct p as [l c|c]; simpl in Hok.
    + apply andb_true_iff in Hok. destruct Hok as [Hok Hrest]. apply andb_true_iff in Hok. destruct Hok as [Hl Hc].
      apply mem_In in Hl. rewrite forallb_forall in Hc.
      assert (HSAl : SA l) by auto.
      assert (HA1 : gclosed (upd l c h) SA).
      { intros x Hx. rewrite length_upd. destruct (HA x Hx) as [Hxl Hxp]. split; auto.
        destruct (Nat.eq_dec l x) as [->|Hne].
        - rewrite get_upd_same by auto. intros q Hq. apply Hreg. apply mem_In. apply Hc. exact Hq.
        - rewrite get_upd_other by auto. exact Hxp. }
      assert (Hag : agree SB h (upd l c h)).
      { intros x Hx. apply get_upd_other. intros ->. exact (Hd _ HSAl Hx). }
      assert (HB1 : gclosed (upd l c h) SB).
      { intros x Hx. rewrite length_upd, (Hag x Hx). apply HB. exact Hx. }
      destruct (IH region (upd l c h) SA SB HA1 HB1 Hd Hreg Hrest) as [SA' [H1 [H2 [H3 [H4 H5]]]]].
      exists SA'. simpl. split; [exact H1|]. split; [exact H2|]. split; [exact H3|]. split; [exact H4|].
      eapply agree_trans; eauto.
    + apply andb_true_iff in Hok. destruct Hok as [Hc Hrest]. rewrite forallb_forall in Hc.
      set (SA1 := fun x => SA x \/ x = length h).
      assert (HA1 : gclosed (h ++ [c]) SA1).
      { intros x [Hx| ->]; rewrite app_length; simpl.
        - destruct (HA x Hx) as [Hxl Hxp]. split; [lia|]. rewrite get_app_old by auto.
          intros q Hq. left. auto.
        - split; [lia|]. rewrite get_app_last.
          intros q Hq. specialize (Hc q Hq). apply orb_true_iff in Hc. destruct Hc as [Hc|Hc].
          + left. apply Hreg. apply mem_In. exact Hc.
          + right. apply Nat.eqb_eq in Hc. exact Hc. }
      assert (Hag : agree SB h (h ++ [c])).
      { intros x Hx. apply get_app_old. apply HB. exact Hx. }
      assert (HB1 : gclosed (h ++ [c]) SB).
      { intros x Hx. rewrite app_length, (Hag x Hx). destruct (HB x Hx) as [Hxl Hxp]. split; [simpl; lia|auto]. }
      assert (Hd1 : forall x, SA1 x -> ~ SB x).
      { intros x [Hx| ->]; auto. intros Hb. destruct (HB _ Hb). lia. }
      assert (Hreg1 : forall x, In x (length h :: region) -> SA1 x).
      { intros x [<-|Hx]; [right; auto|left; auto]. }
      destruct (IH (length h :: region) (h ++ [c]) SA1 SB HA1 HB1 Hd1 Hreg1 Hrest) as [SA' [H1 [H2 [H3 [H4 H5]]]]].
      exists SA'. simpl. split; [exact H1|]. split; [exact H2|]. split; [exact H3|]. split.
      * intros x Hx. apply H4. left. exact Hx.
      * eapply agree_trans; eauto.
Qed.
End Generic.

(* ------------------------------------------------------------------ the deep notions *)
Definition vclosed := gclosed vptrs.
Definition vranked := granked vptrs vrank.
Definition vheap_wf (h : heap) : Prop :=
  forall l, l < length h -> forall p, In p (vptrs (get h l)) -> p < length h.

Lemma ptrs_sub_vptrs : forall c p, In p (ptrs c) -> In p (vptrs c).
Proof. intros c p H. destruct c; simpl in *; auto; contradiction. Qed.

Lemma vclosed_closed : forall h S, vclosed h S -> closed h S.
Proof.
  intros h S H l Hl. destruct (H l Hl) as [H1 H2]. split; auto.
  intros p Hp. apply H2. apply ptrs_sub_vptrs. exact Hp.
Qed.

Lemma vheap_wf_wf : forall h, vheap_wf h -> heap_wf h.
Proof. intros h H l Hl p Hp. apply (H l Hl). apply ptrs_sub_vptrs. exact Hp. Qed.

Lemma vheap_wfb_sound : forall h, vheap_wfb h = true -> vheap_wf h.
Proof.
  intros h H l Hl p Hp. unfold vheap_wfb in H. rewrite forallb_forall in H.
  specialize (H _ (nth_In h CFree Hl)). rewrite forallb_forall in H. apply Nat.ltb_lt. apply H. exact Hp.
Qed.

Lemma vrankedb_sound : forall h, vrankedb h = true -> vranked h.
Proof.
  intros h H l Hl p Hp. unfold vrankedb in H. rewrite forallb_forall in H.
  assert (Hin : In (get h l) h) by (apply nth_In; exact Hl).
  specialize (H _ Hin). rewrite forallb_forall in H. specialize (H _ Hp).
  apply andb_true_iff in H. destruct H as [H1 H2].
  apply Nat.ltb_lt in H1. apply Nat.ltb_lt in H2. auto.
Qed.

Lemma vranked_wf : forall h, vranked h -> vheap_wf h.
Proof. intros h Hr l Hl p Hp. apply (Hr l Hl p Hp). Qed.

Lemma vreach_closed : forall h o, vranked h -> o < length h -> vclosed h (fun x => In x (vreach h o)).
Proof.
  intros h o Hr Ho. unfold vclosed, vreach. apply (greachN_closed vptrs vrank); auto.
  destruct (get h o); simpl; lia.
Qed.

Lemma vreach_sub_closed : forall h S o, vclosed h S -> S o -> forall x, In x (vreach h o) -> S x.
Proof. intros h S o Hc Ho x Hx. eapply (greachN_sub_closed vptrs); eauto. Qed.

(* the containers an object reaches are among what it reaches deeply *)
Lemma reachN_sub_greachN : forall n h l x, In x (reachN n h l) -> In x (greachN vptrs n h l).
Proof.
  induction n as [|n IH]; intros h l x H; simpl in *; auto.
  destruct H as [<-|H]; auto. right.
  apply in_flat_map in H. destruct H as [p [Hp Hx]]. apply in_flat_map. exists p. split; auto.
  apply ptrs_sub_vptrs. exact Hp.
Qed.

Lemma reach_sub_vreach4 : forall h o x, In x (reach h o) -> In x (greachN vptrs 4 h o).
Proof. intros h o x H. apply reachN_sub_greachN. exact H. Qed.

Lemma reach_sub_vreach : forall h o x, In x (reach h o) -> In x (vreach h o).
Proof. intros h o x H. unfold vreach. apply greachN_mono. apply reach_sub_vreach4. exact H. Qed.

(* ------------------------------------------------------------------ the deep observation is local *)
Lemma store_of_agree : forall h1 h2 (S : loc -> Prop) d,
  vclosed h1 S -> S d -> agree S h1 h2 -> store_of h2 d = store_of h1 d.
Proof.
  intros h1 h2 S d Hc Hd Ha. unfold store_of, vals_of. rewrite (Ha d Hd).
  destruct (get h1 d) as [|kv v| | | | | |] eqn:E; auto. destruct v as [l|]; auto.
  rewrite (Ha l); auto. destruct (Hc d Hd) as [_ Hp]. apply Hp. rewrite E. simpl. auto.
Qed.

Theorem stores_local : forall h1 h2 (S : loc -> Prop) o,
  vclosed h1 S -> S o -> agree S h1 h2 -> stores h2 o = stores h1 o.
Proof.
  intros h1 h2 S o Hc Ho Ha. unfold stores. rewrite (Ha o Ho).
  destruct (get h1 o) as [| | | | | |cls sc al bl co ch we at_|] eqn:Eo; auto.
  destruct (Hc o Ho) as [_ Hp]. rewrite Eo in Hp. simpl in Hp.
  assert (Sal : S al) by (apply Hp; left; auto).
  assert (Sat : S at_) by (apply Hp; right; left; auto).
  assert (Hin_items : forall l a, S l -> In a (items_of h1 l) -> S a).
  { intros l a Sl Hin. destruct (Hc l Sl) as [_ Hq]. apply Hq. unfold items_of in Hin.
    destruct (get h1 l); simpl in *; try contradiction. exact Hin. }
  f_equal. f_equal.
  - eapply store_of_agree; eauto.
  - rewrite (items_of_agree h1 h2 al) by (apply Ha; auto).
    apply map_ext_in. intros a Hin. assert (Sa : S a) by (apply (Hin_items al a); auto).
    unfold atom_store. rewrite (Ha a Sa). destruct (get h1 a) eqn:Ea; auto.
    eapply store_of_agree; eauto. destruct (Hc a Sa) as [_ Hq]. apply Hq. rewrite Ea. simpl. auto.
  - destruct bl as [l|]; auto.
    assert (Sl : S l).
    { apply Hp. right; right. rewrite !in_app_iff. left. simpl. auto. }
    rewrite (items_of_agree h1 h2 l) by (apply Ha; auto).
    apply map_ext_in. intros b Hin. assert (Sb : S b) by (apply (Hin_items l b); auto).
    unfold bond_store. rewrite (Ha b Sb). destruct (get h1 b) eqn:Eb; auto.
    eapply store_of_agree; eauto. destruct (Hc b Sb) as [_ Hq]. apply Hq. rewrite Eb. simpl. auto.
Qed.

(* ------------------------------------------------------------------ the deep frame rule *)
(* every mutation confined to what one object reaches -- in-place edits of its attribute values included -- leaves
   what an object with a disjoint deep-closed region shows unchanged, its attribute values included *)
Theorem vframe_rule : forall h (SA SB : loc -> Prop) a b ps,
  vclosed h SA -> vclosed h SB -> (forall l, SA l -> ~ SB l) -> SA a -> SB b ->
  vprims_okb (vreach h a) h ps = true ->
  obs (apply_prims h ps) b = obs h b /\ stores (apply_prims h ps) b = stores h b.
Proof.
  intros h SA SB a b ps HA HB Hd Ha Hb Hok.
  destruct (gstep_inv vptrs ps (vreach h a) h SA SB HA HB Hd) as [SA' [_ [_ [_ [_ Hag]]]]]; auto.
  - intros l Hl. eapply vreach_sub_closed; eauto.
  - split.
    + eapply obs_local; eauto. apply vclosed_closed. exact HB.
    + eapply stores_local; eauto.
Qed.

Theorem vdisjoint_reach_frame : forall h a b ps,
  vranked h -> a < length h -> b < length h ->
  (forall l, In l (vreach h a) -> ~ In l (vreach h b)) ->
  vprims_okb (vreach h a) h ps = true ->
  obs (apply_prims h ps) b = obs h b /\ stores (apply_prims h ps) b = stores h b.
Proof.
  intros h a b ps Hr Ha Hb Hd Hok.
  apply (vframe_rule h (fun x => In x (vreach h a)) (fun x => In x (vreach h b)) a b ps); auto.
  - apply vreach_closed; auto.
  - apply vreach_closed; auto.
  - apply (greachN_head vptrs).
  - apply (greachN_head vptrs).
Qed.

Fixpoint vhist_okb (h : heap) (a b : loc) (hist : list (side * list prim)) : bool :=
  match hist with
  | [] => true
  | (s, ps) :: r => vprims_okb (vreach h (pick s a b)) h ps && vhist_okb (apply_prims h ps) a b r
  end.

Definition vseparated (h : heap) (a b : loc) : Prop :=
  exists SA SB : loc -> Prop, vclosed h SA /\ vclosed h SB /\ (forall l, SA l -> ~ SB l) /\ SA a /\ SB b.

Lemma vseparated_separated : forall h a b, vseparated h a b -> separated h a b.
Proof.
  intros h a b [SA [SB [HA [HB [Hd [Ha Hb]]]]]]. exists SA, SB.
  split; [apply vclosed_closed; exact HA|]. split; [apply vclosed_closed; exact HB|]. auto.
Qed.

Lemma vseparated_step : forall h a b s ps,
  vseparated h a b -> vprims_okb (vreach h (pick s a b)) h ps = true ->
  vseparated (apply_prims h ps) a b
  /\ obs (apply_prims h ps) (pick (other_side s) a b) = obs h (pick (other_side s) a b)
  /\ stores (apply_prims h ps) (pick (other_side s) a b) = stores h (pick (other_side s) a b).
Proof.
  intros h a b s ps [SA [SB [HA [HB [Hd [Ha Hb]]]]]] Hok. destruct s; simpl in *.
  - destruct (gstep_inv vptrs ps (vreach h a) h SA SB HA HB Hd) as [SA' [H1 [H2 [H3 [H4 H5]]]]]; auto.
    { intros l Hl. eapply vreach_sub_closed; eauto. }
    split; [exists SA', SB; split; [exact H1|]; split; [exact H2|]; split; [exact H3|]; split; auto|].
    split; [exact (obs_local h (apply_prims h ps) SB b (vclosed_closed _ _ HB) Hb H5)
           | exact (stores_local h (apply_prims h ps) SB b HB Hb H5)].
  - assert (Hd' : forall l, SB l -> ~ SA l) by (intros l H1 H2; exact (Hd l H2 H1)).
    destruct (gstep_inv vptrs ps (vreach h b) h SB SA HB HA Hd') as [SB' [H1 [H2 [H3 [H4 H5]]]]]; auto.
    { intros l Hl. eapply vreach_sub_closed; eauto. }
    split; [exists SA, SB'; split; [exact H2|]; split; [exact H1|]; split;
            [intros l Hl1 Hl2; exact (H3 l Hl2 Hl1)|]; split; auto|].
    split; [exact (obs_local h (apply_prims h ps) SA a (vclosed_closed _ _ HA) Ha H5)
           | exact (stores_local h (apply_prims h ps) SA a HA Ha H5)].
Qed.

Theorem vhistory_frame : forall hist h a b,
  vseparated h a b -> vhist_okb h a b hist = true ->
  forall pre s ps post, hist = pre ++ (s, ps) :: post ->
    obs (apply_prims (run_hist h pre) ps) (pick (other_side s) a b) = obs (run_hist h pre) (pick (other_side s) a b)
    /\ stores (apply_prims (run_hist h pre) ps) (pick (other_side s) a b)
       = stores (run_hist h pre) (pick (other_side s) a b).
Proof.
  induction hist as [|[s0 ps0] r IH]; intros h a b Hsep Hok pre s ps post Heq.
  - destruct pre; discriminate.
  - simpl in Hok. apply andb_true_iff in Hok. destruct Hok as [Hok0 Hokr].
    destruct (vseparated_step h a b s0 ps0 Hsep Hok0) as [Hsep' [Hobs Hsto]].
    destruct pre as [|[s1 ps1] pre]; simpl in Heq; inversion Heq; subst.
    + simpl. split; [exact Hobs|exact Hsto].
    + simpl. eapply IH; eauto.
Qed.

(* ------------------------------------------------------------------ copy_row with fresh values: deep independence *)
Definition vonly (c : cell) : list loc := match c with CDict _ v => olist v | _ => [] end.

Lemma vptrs_split : forall c p, In p (vptrs c) -> In p (ptrs c) \/ In p (vonly c).
Proof. intros c p H. destruct c; simpl in *; auto. Qed.

Lemma vonly_arr_cell : forall h s src g, vonly (arr_cell h s src g) = [].
Proof. intros h s src g. unfold arr_cell. destruct s; auto. destruct (oarr h src); auto. Qed.

Lemma vonly_store_cell : forall h s vs src, vonly (store_cell h s vs src) = [].
Proof.
  intros h s vs src. unfold store_cell, val_cell. destruct s; auto. destruct vs; auto.
  destruct (vals_of h src); auto. destruct (get h l); auto.
Qed.

Lemma vonly_dict_cell : forall h s src f p, In p (vonly (dict_cell h s VFresh src f)) -> p = f.
Proof.
  intros h s src f p H. unfold dict_cell in H. destruct s; simpl in H; try contradiction.
  destruct (get h src) as [|kv v| | | | | |]; simpl in H; try contradiction.
  destruct v; simpl in H; intuition.
Qed.

Lemma vst_ok_deep : forall s, vst_ok true s = true -> s = VFresh.
Proof. destruct s; simpl; congruence. Qed.

Lemma vrow_indep_inv : forall r, vrow_indep r = true ->
  row_indep r = true /\ r_vals r = VFresh /\ r_avals r = VFresh
  /\ match r_bonds r with Some b => b_vals b = VFresh | None => True end.
Proof.
  intros r H. unfold vrow_indep, vals_ok in H.
  apply andb_true_iff in H. destruct H as [H1 H]. apply andb_true_iff in H. destruct H as [H H4].
  apply andb_true_iff in H. destruct H as [H2 H3].
  split; auto. split; [apply vst_ok_deep; auto|]. split; [apply vst_ok_deep; auto|].
  destruct (r_bonds r); auto. apply vst_ok_deep; auto.
Qed.

Definition p_news r g d h P := p_hd r g d h P ++ p_A r h P ++ p_AD r h P ++ p_Bc r h P ++ p_BD r h P ++ p_V r h P.
Definition p_total h P := 7 + p_n h P + p_n h P + p_m h P + p_m h P + (1 + p_n h P + p_m h P).

Lemma vnews_only : forall r g d h P, vrow_indep r = true ->
  forall c, In c (p_news r g d h P) -> forall p, In p (vonly c) ->
  length h <= p < length h + p_total h P.
Proof.
  intros r g d h P Hv c Hc p Hp. unfold p_total.
  destruct (vrow_indep_inv r Hv) as [Hind [Hvo [Hva Hvb]]].
  unfold p_news in Hc. rewrite !in_app_iff in Hc. destruct Hc as [Hc|[Hc|[Hc|[Hc|[Hc|Hc]]]]].
  - unfold p_hd in Hc. simpl in Hc.
    destruct Hc as [<-|[<-|[<-|[<-|[<-|[<-|[<-|[]]]]]]]].
    + unfold p_root in Hp. simpl in Hp. contradiction.
    + unfold alist_cell_of in Hp. destruct (r_alist r); simpl in Hp; contradiction.
    + unfold blist_cell_of in Hp. destruct (r_bonds r) as [b|]; [|simpl in Hp; contradiction].
      destruct (b_list b), (p_bl P); simpl in Hp; contradiction.
    + rewrite vonly_arr_cell in Hp. destruct Hp.
    + rewrite vonly_arr_cell in Hp. destruct Hp.
    + rewrite vonly_arr_cell in Hp. destruct Hp.
    + rewrite Hvo in Hp. apply vonly_dict_cell in Hp. subst p. lia.
  - unfold p_A, atom_cells in Hc. apply In_mapi in Hc. destruct Hc as [j [a [Hj [_ ->]]]].
    destruct (r_atom r); simpl in Hp; try contradiction.
    destruct (get h a); simpl in Hp; contradiction.
  - unfold p_AD, adict_cells in Hc. apply In_mapi in Hc. destruct Hc as [j [a [Hj [_ ->]]]].
    destruct (r_atom r); simpl in Hp; try contradiction.
    destruct (get h a); simpl in Hp; try contradiction.
    rewrite Hva in Hp. apply vonly_dict_cell in Hp. subst p. unfold p_vb. fold (p_n h P) in Hj. lia.
  - unfold p_Bc, bond_cells in Hc. apply In_mapi in Hc. destruct Hc as [j [b [Hj [_ ->]]]].
    destruct (b_obj (brow_of r)); simpl in Hp; try contradiction.
    destruct (get h b); simpl in Hp; contradiction.
  - unfold p_BD, bdict_cells in Hc. apply In_mapi in Hc. destruct Hc as [j [b [Hj [_ ->]]]].
    unfold brow_of in *. destruct (r_bonds r) as [br|] eqn:Eb; [|simpl in Hp; contradiction].
    destruct (b_obj br); simpl in Hp; try contradiction.
    destruct (get h b); simpl in Hp; try contradiction.
    rewrite Hvb in Hp. apply vonly_dict_cell in Hp. subst p. unfold p_vb. fold (p_m h P) in Hj. lia.
  - unfold p_V in Hc. destruct Hc as [<-|Hc]; [rewrite vonly_store_cell in Hp; destruct Hp|].
    apply in_app_iff in Hc. destruct Hc as [Hc|Hc].
    + unfold astore_cells in Hc. apply In_mapi in Hc. destruct Hc as [j [a [Hj [_ ->]]]].
      destruct (r_atom r); simpl in Hp; try contradiction.
      destruct (get h a); simpl in Hp; try contradiction.
      rewrite vonly_store_cell in Hp. destruct Hp.
    + unfold bstore_cells in Hc. apply In_mapi in Hc. destruct Hc as [j [b [Hj [_ ->]]]].
      destruct (b_obj (brow_of r)); simpl in Hp; try contradiction.
      destruct (get h b); simpl in Hp; try contradiction.
      rewrite vonly_store_cell in Hp. destruct Hp.
Qed.

Lemma p_news_length : forall r g d h P, length (p_news r g d h P) = p_total h P.
Proof.
  intros. destruct (p_lengths r g d h P) as [L1 [L2 [L3 [L4 L5]]]]. pose proof (p_V_length r h P) as L6.
  unfold p_news, p_total. rewrite !app_length. rewrite L1, L2, L3, L4, L5, L6. lia.
Qed.

(* Deep independence: the copy lives in the fresh region, attribute values included *)
Theorem copy_vindependent : forall r g d h o h' o',
  vheap_wf h -> vrow_indep r = true -> copy_row r g d h o = Some (h', o') ->
  o' = length h /\ length h < length h'
  /\ (forall l, l < length h -> get h' l = get h l)
  /\ vclosed h' (fun l => length h <= l < length h')
  /\ vclosed h' (fun l => l < length h).
Proof.
  intros r g d h o h' o' Hwf Hv Hc.
  destruct (vrow_indep_inv r Hv) as [Hind _].
  destruct (copy_row_inv _ _ _ _ _ _ _ Hc) as [P [Hget [Ho' [Hends Hh']]]].
  fold (p_news r g d h P) in Hh'.
  assert (Hlen : length h' = length h + p_total h P).
  { rewrite Hh'. rewrite app_length, p_news_length. reflexivity. }
  assert (Hpos : 0 < p_total h P) by (unfold p_total; lia).
  split; [exact Ho'|]. split; [lia|]. split.
  { intros l Hl. rewrite Hh'. apply get_app_old. exact Hl. }
  split.
  - intros l [Hl1 Hl2]. split; [exact Hl2|]. intros p Hp.
    replace l with (length h + (l - length h)) in Hp by lia. rewrite Hh' in Hp. rewrite get_app_new in Hp.
    assert (Hin : In (nth (l - length h) (p_news r g d h P) CFree) (p_news r g d h P)).
    { apply nth_In. rewrite p_news_length. lia. }
    apply vptrs_split in Hp. destruct Hp as [Hp|Hp].
    + pose proof (news_fresh r g d h P Hind Hends _ Hin p Hp) as Hb. unfold p_total in Hlen. lia.
    + pose proof (vnews_only r g d h P Hv _ Hin p Hp) as Hb. lia.
  - intros l Hl. split; [lia|]. intros p Hp. rewrite Hh' in Hp. rewrite get_app_old in Hp by exact Hl.
    apply (Hwf l Hl p Hp).
Qed.

Corollary copy_vseparated : forall r g d h o h' o',
  vheap_wf h -> vrow_indep r = true -> copy_row r g d h o = Some (h', o') -> vseparated h' o' o.
Proof.
  intros r g d h o h' o' Hwf Hv Hc.
  destruct (copy_vindependent _ _ _ _ _ _ _ Hwf Hv Hc) as [Ho' [Hlt [Hold [HA HB]]]].
  exists (fun l => length h <= l < length h'), (fun l => l < length h).
  split; [exact HA|]. split; [exact HB|]. split; [intros l H1 H2; lia|]. split; [lia|].
  destruct (Nat.lt_ge_cases o (length h)) as [Hlt'|Hge]; auto.
  unfold copy_row in Hc. rewrite (get_oob h o Hge) in Hc. discriminate.
Qed.

Corollary copy_vreach_disjoint : forall r g d h o h' o',
  vheap_wf h -> vrow_indep r = true -> copy_row r g d h o = Some (h', o') ->
  forall l, In l (vreach h' o') -> ~ In l (vreach h' o).
Proof.
  intros r g d h o h' o' Hwf Hv Hc l H1 H2.
  destruct (copy_vseparated _ _ _ _ _ _ _ Hwf Hv Hc) as [SA [SB [HA [HB [Hd [Ha Hb]]]]]].
  apply (Hd l).
  - eapply vreach_sub_closed; eauto.
  - eapply vreach_sub_closed; eauto.
Qed.

(* ------------------------------------------------------------------ copy_row with fresh values: the values are equal *)
Lemma store_copied : forall h h' src f fr,
  get h' f = dict_cell h Copied VFresh src fr ->
  get h' fr = store_cell h Copied VFresh src ->
  store_of h' f = store_of h src.
Proof.
  intros h h' src f fr Hd Hs. unfold store_of, vals_of. rewrite Hd. unfold dict_cell.
  unfold store_cell, val_cell, vals_of in Hs.
  destruct (get h src) as [|kv v| | | | | |] eqn:E; simpl; auto.
  destruct v as [l|]; simpl; auto. rewrite Hs. destruct (get h l); auto.
Qed.

Lemma get_V : forall r g d h P h',
  h' = h ++ p_news r g d h P ->
  get h' (p_vb h P) = store_cell h (r_attrib r) (r_vals r) (p_at P)
  /\ (forall j, j < p_n h P -> get h' (p_vb h P + 1 + j) = nth j (astore_cells r h (p_atoms h P)) CFree)
  /\ (forall j, j < p_m h P ->
        get h' (p_vb h P + 1 + p_n h P + j) = nth j (bstore_cells (brow_of r) h (p_bonds h P)) CFree).
Proof.
  intros r g d h P h' Hh'.
  destruct (p_lengths r g d h P) as [L1 [L2 [L3 [L4 L5]]]].
  destruct (get_segs h _ _ _ _ _ (p_V r h P) _ _ L1 L2 L3 L4 L5) as [_ [_ [_ [_ [_ GV]]]]].
  unfold p_news in Hh'. rewrite <- Hh' in GV. unfold p_vb.
  split; [|split].
  - specialize (GV 0). rewrite Nat.add_0_r in GV. rewrite GV. reflexivity.
  - intros j Hj. replace (length h + 7 + p_n h P + p_n h P + p_m h P + p_m h P + 1 + j)
      with (length h + 7 + p_n h P + p_n h P + p_m h P + p_m h P + S j) by lia.
    rewrite GV. unfold p_V. simpl. apply app_nth1. unfold astore_cells. rewrite length_mapi. exact Hj.
  - intros j Hj. replace (length h + 7 + p_n h P + p_n h P + p_m h P + p_m h P + 1 + p_n h P + j)
      with (length h + 7 + p_n h P + p_n h P + p_m h P + p_m h P + S (p_n h P + j)) by lia.
    rewrite GV. unfold p_V. simpl.
    rewrite (nth_app_at _ (astore_cells r h (p_atoms h P))); [reflexivity|].
    unfold astore_cells. rewrite length_mapi. reflexivity.
Qed.

Theorem copy_vfaithful : forall r g d h o h' o',
  copy_row r g d h o = Some (h', o') ->
  exists sb sb', stores h o = Some sb /\ stores h' o' = Some sb'
  /\ (r_attrib r = Copied -> r_vals r = VFresh -> s_obj sb' = s_obj sb)
  /\ (atoms_ok r = true -> r_avals r = VFresh -> s_atoms sb' = s_atoms sb)
  /\ (atoms_ok r = true -> bonds_ok r = true -> b_vals (brow_of r) = VFresh -> s_bonds sb' = s_bonds sb).
Proof.
  intros r g d h o h' o' Hc.
  destruct (copy_row_inv _ _ _ _ _ _ _ Hc) as [P [Hget [Ho' [Hends Hh']]]].
  destruct (p_lengths r g d h P) as [L1 [L2 [L3 [L4 L5]]]].
  destruct (get_segs h _ _ _ _ _ (p_V r h P) _ _ L1 L2 L3 L4 L5) as [G0 [GA [GAD [GB [GBD _]]]]].
  rewrite <- Hh' in G0, GA, GAD, GB, GBD.
  destruct (get_V r g d h P h' Hh') as [GV0 [GVA GVB]].
  assert (Groot : get h' (length h) = p_root r g d h P).
  { specialize (G0 0 ltac:(lia)). rewrite Nat.add_0_r in G0. exact G0. }
  subst o'. unfold stores. rewrite Hget, Groot. unfold p_root.
  eexists. eexists. split; [reflexivity|]. split; [reflexivity|]. simpl.
  split; [|split].
  { (* the object's own attribute values *)
    intros Hr Hv. rewrite Hr. simpl.
    apply (store_copied h h' (p_at P) (length h + 6) (p_vb h P)).
    - rewrite (G0 6 ltac:(lia)). simpl. rewrite Hr, Hv. reflexivity.
    - rewrite GV0. rewrite Hr, Hv. reflexivity. }
  { (* the atoms' *)
    intros Hok Hv. destruct (atoms_ok_inv r Hok) as [Hal [Hat [Haa Hap]]].
    unfold alist_loc_of. rewrite Hal.
    assert (Hitems : items_of h' (length h + 1) = mapi_from (fun j _ => length h + 7 + j) 0 (p_atoms h P)).
    { unfold items_of. rewrite (G0 1 ltac:(lia)). simpl. unfold alist_cell_of, new_atoms_of. rewrite Hal, Hat. reflexivity. }
    rewrite Hitems. fold (p_atoms h P).
    apply map_mapi. intros j a Hn. simpl.
    assert (Hj : j < p_n h P) by (apply nth_error_Some; unfold p_n; congruence).
    unfold atom_store. rewrite (GA j Hj). unfold p_A, atom_cells.
    rewrite nth_mapi with (d' := 0) by exact Hj. rewrite (nth_error_nth _ _ 0 Hn). rewrite Hat. simpl.
    destruct (get h a) as [| | |p dd par| | | |] eqn:Ea; auto.
    rewrite Haa. simpl.
    apply (store_copied h h' dd (length h + 7 + p_n h P + j) (p_vb h P + 1 + j)).
    - rewrite (GAD j Hj). unfold p_AD, adict_cells. rewrite nth_mapi with (d' := 0) by exact Hj.
      rewrite (nth_error_nth _ _ 0 Hn). rewrite Hat, Ea, Haa, Hv. reflexivity.
    - rewrite (GVA j Hj). unfold astore_cells. rewrite nth_mapi with (d' := 0) by exact Hj.
      rewrite (nth_error_nth _ _ 0 Hn). rewrite Hat, Ea, Haa, Hv. reflexivity. }
  { (* the bonds' *)
    intros Hok Hbok Hv. destruct (atoms_ok_inv r Hok) as [Hal [Hat [Haa Hap]]].
    destruct (bonds_ok_inv r Hbok) as [br [Hbr [Hbl [Hbo [Hba [Hbp Hbe]]]]]].
    assert (Hbrow : brow_of r = br) by (unfold brow_of; rewrite Hbr; reflexivity).
    rewrite Hbrow in Hv.
    unfold blist_loc_of. rewrite Hbr, Hbl.
    assert (Hbitems : items_of h' (length h + 2)
                      = mapi_from (fun j _ => length h + 7 + p_n h P + p_n h P + j) 0 (p_bonds h P)).
    { unfold items_of. rewrite (G0 2 ltac:(lia)). simpl. unfold blist_cell_of, new_bonds_of.
      rewrite Hbr, Hbl, Hbrow, Hbo. destruct (p_bl P); reflexivity. }
    assert (Hgoal : map (bond_store h') (items_of h' (length h + 2)) = map (bond_store h) (p_bonds h P)).
    { rewrite Hbitems. apply map_mapi. intros j b Hn. simpl.
      assert (Hj : j < p_m h P) by (apply nth_error_Some; unfold p_m; congruence).
      unfold bond_store. rewrite (GB j Hj). unfold p_Bc, bond_cells.
      rewrite nth_mapi with (d' := 0) by exact Hj. rewrite (nth_error_nth _ _ 0 Hn). rewrite Hbrow, Hbo. simpl.
      destruct (get h b) as [| | | |a1 a2 p dd par| | |] eqn:Eb; auto.
      rewrite Hba. simpl.
      apply (store_copied h h' dd (length h + 7 + p_n h P + p_n h P + p_m h P + j) (p_vb h P + 1 + p_n h P + j)).
      - rewrite (GBD j Hj). unfold p_BD, bdict_cells. rewrite nth_mapi with (d' := 0) by exact Hj.
        rewrite (nth_error_nth _ _ 0 Hn). rewrite Hbrow, Hbo, Eb, Hba, Hv. reflexivity.
      - rewrite (GVB j Hj). unfold bstore_cells. rewrite nth_mapi with (d' := 0) by exact Hj.
        rewrite (nth_error_nth _ _ 0 Hn). rewrite Hbrow, Hbo, Eb, Hba, Hv. reflexivity. }
    unfold p_bonds in Hgoal. destruct (p_bl P) as [l|]; simpl; exact Hgoal. }
Qed.

(* ------------------------------------------------------------------ a row that meets the DEEP specification *)
Definition vfaithful_on (nd : need) (sb sb' : storesr) : Prop :=
  s_atoms sb' = s_atoms sb
  /\ (n_bonds nd = true -> s_bonds sb' = s_bonds sb)
  /\ (n_attrib nd = true -> s_obj sb' = s_obj sb).

Theorem copy_row_vsound : forall nd r g d h o h' o',
  vheap_wf h -> row_ok nd r = true -> vals_ok true r = true -> copy_row r g d h o = Some (h', o') ->
  vseparated h' o' o
  /\ (forall l, In l (vreach h' o') -> ~ In l (vreach h' o))
  /\ exists sb sb', stores h o = Some sb /\ stores h' o = Some sb /\ stores h' o' = Some sb' /\ vfaithful_on nd sb sb'.
Proof.
  intros nd r g d h o h' o' Hwf Hok Hvals Hc.
  assert (Hv : vrow_indep r = true).
  { unfold vrow_indep. apply andb_true_iff. split; auto.
    unfold row_ok in Hok. apply andb_true_iff in Hok. tauto. }
  split; [eapply copy_vseparated; eauto|]. split; [eapply copy_vreach_disjoint; eauto|].
  destruct (copy_vfaithful _ _ _ _ _ _ _ Hc) as [sb [sb' [Hs [Hs' [Hobj [Hat Hbo]]]]]].
  exists sb, sb'. split; [exact Hs|]. split.
  { rewrite <- Hs.
    destruct (copy_vindependent _ _ _ _ _ _ _ Hwf Hv Hc) as [_ [_ [Hold [_ HB]]]].
    apply (stores_local h h' (fun l => l < length h) o).
    - intros l Hl. split; auto. apply (Hwf l Hl).
    - destruct (Nat.lt_ge_cases o (length h)) as [Hlt|Hge]; auto.
      unfold stores in Hs. rewrite (get_oob h o Hge) in Hs. discriminate.
    - intros l Hl. apply Hold. exact Hl. }
  split; [exact Hs'|].
  destruct (vrow_indep_inv r Hv) as [_ [Hvo [Hva Hvb]]].
  unfold row_ok in Hok. apply andb_true_iff in Hok. destruct Hok as [_ Hf].
  unfold row_faithful in Hf.
  apply andb_true_iff in Hf; destruct Hf as [Hf _].
  apply andb_true_iff in Hf; destruct Hf as [Hf H6].
  apply andb_true_iff in Hf; destruct Hf as [Hf _].
  apply andb_true_iff in Hf; destruct Hf as [Hf _].
  apply andb_true_iff in Hf; destruct Hf as [Hf _].
  apply andb_true_iff in Hf; destruct Hf as [Hf _].
  apply andb_true_iff in Hf; destruct Hf as [Hf H1].
  pose proof (implb_true _ _ H1) as I1. pose proof (implb_true _ _ H6) as I6.
  unfold vfaithful_on. split; [apply Hat; auto|]. split.
  - intros Hn. specialize (I1 Hn). apply Hbo; auto.
    destruct (bonds_ok_inv r I1) as [br [Hbr _]]. unfold brow_of. rewrite Hbr in *. exact Hvb.
  - intros Hn. apply Hobj; auto. apply st_copied_eq. auto.
Qed.

(* ------------------------------------------------------------------ from the regenerated table *)
Lemma table_entry_ok : forall known t, table_ok known t = true ->
  forall k r x, lookup_row t k r = Some x -> entry_ok known (k, r, x) = true.
Proof.
  intros known t Ht k r x Hl. unfold table_ok in Ht. apply andb_true_iff in Ht. destruct Ht as [_ Ht].
  rewrite forallb_forall in Ht. exact (Ht _ (lookup_row_In _ _ _ _ Hl)).
Qed.

(* every tabulated route whose contract is a deep copy hands out attribute values of its own, at every level *)
Theorem table_deep_routes : forall known t, table_ok known t = true ->
  forall k r x, lookup_row t k r = Some x -> deep_route r = true -> vals_ok true x = true.
Proof.
  intros known t Ht k r x Hl Hd. pose proof (table_entry_ok known t Ht k r x Hl) as H.
  unfold entry_ok in H. apply andb_true_iff in H. destruct H as [_ H]. rewrite Hd in H. exact H.
Qed.

(* ... and no route whatsoever hands out values with another content *)
Theorem table_no_route_changes_values : forall known t, table_ok known t = true ->
  forall k r x, lookup_row t k r = Some x -> vals_ok false x = true.
Proof.
  intros known t Ht k r x Hl. pose proof (table_entry_ok known t Ht k r x Hl) as H.
  unfold entry_ok in H. apply andb_true_iff in H. destruct H as [_ H].
  destruct (deep_route r); auto.
  unfold vals_ok in *. repeat (apply andb_true_iff in H; destruct H as [H ?]).
  assert (W : forall s, vst_ok true s = true -> vst_ok false s = true) by (destruct s; simpl; auto).
  rewrite !andb_true_iff. repeat split; auto. destruct (r_bonds x); auto.
Qed.

Theorem table_deep_sound : forall known t, table_ok known t = true ->
  forall k r x, lookup_row t k r = Some x -> lone k = false -> deep_route r = true ->
  forall g h o h' o', vheap_wf h -> copy_row x g (kls_code (dst_of k r)) h o = Some (h', o') ->
  vseparated h' o' o
  /\ (forall l, In l (vreach h' o') -> ~ In l (vreach h' o))
  /\ exists sb sb', stores h o = Some sb /\ stores h' o = Some sb /\ stores h' o' = Some sb'
                    /\ vfaithful_on (need_known known k r) sb sb'.
Proof.
  intros known t Ht k r x Hl Hlone Hd g h o h' o' Hwf Hc.
  pose proof (table_entry_ok known t Ht k r x Hl) as H.
  unfold entry_ok in H. apply andb_true_iff in H. destruct H as [H1 H2]. rewrite Hlone in H1. rewrite Hd in H2.
  eapply copy_row_vsound; eauto.
Qed.

Theorem deep_copy_then_history : forall known t, table_ok known t = true ->
  forall k r x, lookup_row t k r = Some x -> lone k = false -> deep_route r = true ->
  forall g h o h' o', vheap_wf h -> copy_row x g (kls_code (dst_of k r)) h o = Some (h', o') ->
  forall hist, vhist_okb h' o' o hist = true ->
  forall pre s ps post, hist = pre ++ (s, ps) :: post ->
    obs (apply_prims (run_hist h' pre) ps) (pick (other_side s) o' o) = obs (run_hist h' pre) (pick (other_side s) o' o)
    /\ stores (apply_prims (run_hist h' pre) ps) (pick (other_side s) o' o)
       = stores (run_hist h' pre) (pick (other_side s) o' o).
Proof.
  intros known t Ht k r x Hl Hlone Hd g h o h' o' Hwf Hc hist Hok pre s ps post Heq.
  destruct (table_deep_sound known t Ht k r x Hl Hlone Hd g h o h' o' Hwf Hc) as [Hsep _].
  eapply vhistory_frame; eauto.
Qed.

(* ------------------------------------------------------------------ the edits obey the deep footprint discipline *)
Lemma vwrite1_ok : forall region h l c,
  In l region -> (forall p, In p (vptrs c) -> In p region) -> vprims_okb region h [PWrite l c] = true.
Proof.
  intros region h l c Hl Hc. unfold vprims_okb. simpl. rewrite andb_true_r. apply andb_true_iff. split.
  - apply mem_In. exact Hl.
  - apply forallb_forall. intros p Hp. apply mem_In. auto.
Qed.

(* rewriting a cell the object reaches (within four steps) without changing where it points *)
Lemma vwrite_same_ptrs : forall h o l c,
  In l (greachN vptrs 4 h o) -> vptrs c = vptrs (get h l) -> vprims_okb (vreach h o) h [PWrite l c] = true.
Proof.
  intros h o l c Hl Hc. apply vwrite1_ok.
  - unfold vreach. apply greachN_mono. exact Hl.
  - intros p Hp. rewrite Hc in Hp. unfold vreach. eapply greachN_step; eauto.
Qed.

Lemma compile_op_shape : forall h o x ps, compile_op h o x = Some ps ->
  exists l c, ps = [PWrite l c] /\ vptrs c = vptrs (get h l).
Proof.
  intros h o x ps H. unfold compile_op in H.
  destruct (get h o) as [| | | | | |cls sc al bl co ch we at_|] eqn:Eo; try discriminate.
  destruct x as [j p|j p|i v|i v|i v|kv|j kv|j kv|s].
  - destruct (nth_error (items_of h al) j) as [a|]; [|discriminate].
    destruct (get h a) eqn:Eg; try discriminate. inversion H. eexists. eexists. split; [reflexivity|]. rewrite Eg. reflexivity.
  - destruct bl as [l|]; [|discriminate]. destruct (nth_error (items_of h l) j) as [b|]; [|discriminate].
    destruct (get h b) eqn:Eg; try discriminate. inversion H. eexists. eexists. split; [reflexivity|]. rewrite Eg. reflexivity.
  - destruct co as [l|]; [|discriminate]. destruct (get h l) eqn:Eg; try discriminate. inversion H.
    eexists. eexists. split; [reflexivity|]. rewrite Eg. reflexivity.
  - destruct ch as [l|]; [|discriminate]. destruct (get h l) eqn:Eg; try discriminate. inversion H.
    eexists. eexists. split; [reflexivity|]. rewrite Eg. reflexivity.
  - destruct we as [l|]; [|discriminate]. destruct (get h l) eqn:Eg; try discriminate. inversion H.
    eexists. eexists. split; [reflexivity|]. rewrite Eg. reflexivity.
  - destruct (get h at_) eqn:Eg; try discriminate. inversion H.
    eexists. eexists. split; [reflexivity|]. rewrite Eg. reflexivity.
  - destruct (nth_error (items_of h al) j) as [a|]; [|discriminate].
    destruct (get h a) as [| | |p0 d0 par| | | |]; try discriminate.
    destruct (get h d0) eqn:Eg; try discriminate. inversion H.
    eexists. eexists. split; [reflexivity|]. rewrite Eg. reflexivity.
  - destruct bl as [l|]; [|discriminate]. destruct (nth_error (items_of h l) j) as [b|]; [|discriminate].
    destruct (get h b) as [| | | |a1 a2 p0 d0 par| | |]; try discriminate.
    destruct (get h d0) eqn:Eg; try discriminate. inversion H.
    eexists. eexists. split; [reflexivity|]. rewrite Eg. reflexivity.
  - inversion H. eexists. eexists. split; [reflexivity|]. rewrite Eo. reflexivity.
Qed.

(* the elementary edits of the container menu are deep-confined as well *)
Theorem compile_op_vok : forall h o x ps, compile_op h o x = Some ps -> vprims_okb (vreach h o) h ps = true.
Proof.
  intros h o x ps H.
  pose proof (compile_op_ok h o x ps H) as Hok.
  destruct (compile_op_shape h o x ps H) as [l [c [-> Hc]]].
  cbn [prims_okb] in Hok. apply andb_true_iff in Hok. destruct Hok as [Hok _]. apply andb_true_iff in Hok. destruct Hok as [Hl _].
  apply mem_In in Hl. apply vwrite_same_ptrs; auto. apply reach_sub_vreach4. exact Hl.
Qed.

(* an in-place edit of an attribute value writes the store of the dictionary that holds it, which the object reaches *)
Lemma dict_at_reach : forall h o w d, dict_at h o w = Some d -> In d (greachN vptrs 3 h o).
Proof.
  intros h o w d H. unfold dict_at in H.
  destruct (get h o) as [| | | | | |cls sc al bl co ch we at_|] eqn:Eo; try discriminate.
  assert (R0 : In o (greachN vptrs 0 h o)) by (simpl; auto).
  destruct w as [|j|j].
  - inversion H; subst d. do 2 apply greachN_mono. eapply greachN_step; eauto. rewrite Eo. simpl. auto.
  - destruct (nth_error (items_of h al) j) as [a|] eqn:Ea; [|discriminate].
    destruct (get h a) as [| | |p0 d0 par| | | |] eqn:Eg; try discriminate. inversion H; subst d0.
    assert (R1 : In al (greachN vptrs 1 h o)) by (eapply greachN_step; eauto; rewrite Eo; simpl; auto).
    assert (R2 : In a (greachN vptrs 2 h o)).
    { eapply greachN_step; eauto. apply ptrs_sub_vptrs. apply in_items_ptrs. eapply nth_error_In; eauto. }
    eapply greachN_step; eauto. rewrite Eg. simpl. auto.
  - destruct bl as [l|]; [|discriminate].
    destruct (nth_error (items_of h l) j) as [b|] eqn:Eb; [|discriminate].
    destruct (get h b) as [| | | |a1 a2 p0 d0 par| | |] eqn:Eg; try discriminate. inversion H; subst d0.
    assert (R1 : In l (greachN vptrs 1 h o)) by (eapply greachN_step; eauto; rewrite Eo; simpl; auto).
    assert (R2 : In b (greachN vptrs 2 h o)).
    { eapply greachN_step; eauto. apply ptrs_sub_vptrs. apply in_items_ptrs. eapply nth_error_In; eauto. }
    eapply greachN_step; eauto. rewrite Eg. simpl. auto.
Qed.

Theorem compile_vedit_ok : forall h o e ps, compile_vedit h o e = Some ps -> vprims_okb (vreach h o) h ps = true.
Proof.
  intros h o [w c] ps H. unfold compile_vedit in H.
  destruct (dict_at h o w) as [d|] eqn:Ed; [|discriminate].
  destruct (vals_of h d) as [l|] eqn:Ev; [|discriminate].
  destruct (get h l) eqn:El; try discriminate. inversion H; subst ps.
  apply vwrite_same_ptrs; [|rewrite El; reflexivity].
  eapply greachN_step; [eapply dict_at_reach; eauto|].
  unfold vals_of in Ev. destruct (get h d); try discriminate. simpl. subst. simpl. auto.
Qed.

(* ------------------------------------------------------------------ the converse: a one-level copy shares the values *)
(* A copy whose attrib dictionary is a copy but whose values are the source's objects (VShared): the in-place edit of
   an attribute value made through the COPY is what the SOURCE shows afterwards -- for every heap, source and edit. *)
Theorem one_level_copy_leaks : forall r g d h o h' o' cls sc al bl co ch we at_ kv l c0 c,
  vheap_wf h -> o < length h ->
  r_attrib r = Copied -> r_vals r = VShared ->
  copy_row r g d h o = Some (h', o') ->
  get h o = CMol cls sc al bl co ch we at_ -> get h at_ = CDict kv (Some l) -> get h l = CVal c0 ->
  exists ps, compile_vedit h' o' (VEdit WObj c) = Some ps
    /\ option_map s_obj (stores h' o) = Some (Some c0)
    /\ option_map s_obj (stores (apply_prims h' ps) o) = Some (Some c).
Proof.
  intros r g d h o h' o' cls sc al bl co ch we at_ kv l c0 c Hwf Ho Hr Hv Hc Hget Hat Hl.
  destruct (copy_row_inv _ _ _ _ _ _ _ Hc) as [P [Hget' [Ho' [Hends Hh']]]].
  rewrite Hget in Hget'. inversion Hget'. subst cls sc al bl co ch we at_.
  destruct (p_lengths r g d h P) as [L1 [L2 [L3 [L4 L5]]]].
  destruct (get_segs h _ _ _ _ _ (p_V r h P) _ _ L1 L2 L3 L4 L5) as [G0 _].
  rewrite <- Hh' in G0.
  assert (Hat_lt : p_at P < length h).
  { apply (Hwf o Ho). rewrite Hget. simpl. auto. }
  assert (Hl_lt : l < length h).
  { apply (Hwf (p_at P) Hat_lt). rewrite Hat. simpl. auto. }
  assert (Hold : forall x, x < length h -> get h' x = get h x).
  { intros x Hx. rewrite Hh'. apply get_app_old. exact Hx. }
  assert (Groot : get h' (length h) = p_root r g d h P).
  { specialize (G0 0 ltac:(lia)). rewrite Nat.add_0_r in G0. exact G0. }
  assert (Gd : get h' (length h + 6) = CDict kv (Some l)).
  { rewrite (G0 6 ltac:(lia)). simpl. rewrite Hr, Hv. unfold dict_cell. rewrite Hat. reflexivity. }
  subst o'. exists [PWrite l (CVal c)]. split; [|split].
  - unfold compile_vedit, dict_at. rewrite Groot. unfold p_root. rewrite Hr. simpl.
    unfold vals_of. rewrite Gd. rewrite (Hold l Hl_lt), Hl. reflexivity.
  - unfold stores. rewrite (Hold o Ho), Hget. simpl.
    unfold store_of, vals_of. rewrite (Hold _ Hat_lt), Hat. rewrite (Hold l Hl_lt), Hl. reflexivity.
  - simpl.
    assert (Hlen : l < length h').
    { rewrite Hh'. rewrite app_length. lia. }
    assert (Nol : o <> l) by (intros ->; rewrite Hget in Hl; discriminate).
    assert (Natl : p_at P <> l) by (intros E; rewrite E in Hat; rewrite Hat in Hl; discriminate).
    unfold stores. rewrite get_upd_other by auto. rewrite (Hold o Ho), Hget. simpl.
    unfold store_of, vals_of. rewrite get_upd_other by auto. rewrite (Hold _ Hat_lt), Hat.
    rewrite get_upd_same by exact Hlen. reflexivity.
Qed.
