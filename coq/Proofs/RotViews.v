(* C11: proofs about Model/RotViews.v (edits through collected handles; arguments that are live rows). *)
From Coq Require Import Reals Lra List ZArith Lia Bool.
From Molli Require Import Common.Field3 Common.Field3R Model.Rot Model.RotEns Model.RotViews Proofs.Rot Proofs.RotMotion.
Import ListNotations.
Local Open Scope R_scope.

(* ------------------------------------------------------------------ (1) handles *)
(* an edit through the handle taken for conformer k: conformer k gets f, every other conformer is untouched *)
Theorem view_apply_frame (k : nat) (f : list vecR -> list vecR) (E : list (list vecR)) :
  length (view_apply k f E) = length E /\
  forall c, (c < length E)%nat -> nth c (view_apply k f E) [] = if Nat.eqb k c then f (nth c E []) else nth c E [].
Proof.
  split; [apply update_rows_length|]. intros c Hc. unfold view_apply. now apply update_rows_nth.
Qed.

(* a whole session (handles collected first, edits in any order, any number of other handles produced in between):
   conformer c ends up as the edits whose handle was taken for c, applied in order, to conformer c -- nothing else *)
Theorem view_edits_per_conformer (edits : list (nat * (list vecR -> list vecR))) :
  forall (E : list (list vecR)) (c : nat), (c < length E)%nat ->
  length (view_edits edits E) = length E /\
  nth c (view_edits edits E) [] = fold_left (fun X f => f X) (edits_on c edits) (nth c E []).
Proof.
  induction edits as [|[k f] r IH]; intros E c Hc; [split; reflexivity|].
  destruct (view_apply_frame k f E) as [HL HN].
  unfold view_edits, edits_on in *. cbn [fold_left fst snd filter].
  destruct (IH (view_apply k f E) c) as [IL IN]; [rewrite HL; exact Hc|].
  split; [now rewrite IL, HL|]. rewrite IN, HN by exact Hc.
  destruct (Nat.eqb k c); reflexivity.
Qed.

Lemma edits_on_none (edits : list (nat * (list vecR -> list vecR))) (c : nat) :
  (forall e, In e edits -> fst e <> c) -> edits_on c edits = [].
Proof.
  unfold edits_on. induction edits as [|e r IH]; intros Hno; [reflexivity|]. cbn [filter].
  destruct (Nat.eqb (fst e) c) eqn:Ek.
  - apply Nat.eqb_eq in Ek. exfalso. apply (Hno e); [now left | exact Ek].
  - apply IH. intros e' He'. apply Hno. now right.
Qed.
Corollary view_edits_untouched (edits : list (nat * (list vecR -> list vecR))) (E : list (list vecR)) (c : nat) :
  (c < length E)%nat -> (forall e, In e edits -> fst e <> c) -> nth c (view_edits edits E) [] = nth c E [].
Proof.
  intros Hc Hno. destruct (view_edits_per_conformer edits E c Hc) as [_ H]. rewrite H.
  rewrite (edits_on_none edits c Hno). reflexivity.
Qed.

(* translate / transform through the handle of conformer k (the conformer itself or a substructure of it):
   within conformer k the selected rows move rigidly and the others stay; every other conformer is untouched *)
Theorem view_translate_effect (k : nat) (idx : option (list nat)) (v : vecR) (E : list (list vecR)) :
  (k < length E)%nat ->
  let sel i := match idx with None => true | Some l => in_idx l i end in
  let E' := view_translate ROps k idx v E in
  length E' = length E /\
  (forall c, (c < length E)%nat -> c <> k -> nth c E' [] = nth c E []) /\
  same_shape_on (fun i => sel i = true) (nth k E []) (nth k E' []) /\
  (forall i, sel i = false -> pt (nth k E' []) i = pt (nth k E []) i).
Proof.
  intros Hk sel E'. destruct (view_apply_frame k (match idx with None => translate ROps v | Some l => sub_translate ROps (in_idx l) v end) E) as [HL HN].
  split; [exact HL|]. split.
  - intros c Hc Hne. unfold E', view_translate. rewrite HN by exact Hc.
    destruct (Nat.eqb k c) eqn:Ek; [apply Nat.eqb_eq in Ek; congruence | reflexivity].
  - unfold E', view_translate. rewrite HN by exact Hk. rewrite Nat.eqb_refl. destruct idx as [l|]; cbn [sel].
    + apply sub_translate_rigid.
    + split; [|intros i Hi; discriminate]. destruct (translate_same_shape v (nth k E [])) as [L [D V]].
      split; [exact L|]. split; intros; [apply D | apply V]; auto.
Qed.

Theorem view_transform_effect (k : nat) (idx : option (list nat)) (M : matR) (E : list (list vecR)) :
  proper M -> (k < length E)%nat ->
  let sel i := match idx with None => true | Some l => in_idx l i end in
  let E' := view_transform ROps k idx M E in
  length E' = length E /\
  (forall c, (c < length E)%nat -> c <> k -> nth c E' [] = nth c E []) /\
  same_shape_on (fun i => sel i = true) (nth k E []) (nth k E' []) /\
  (forall i, sel i = false -> pt (nth k E' []) i = pt (nth k E []) i).
Proof.
  intros HM Hk sel E'. destruct (view_apply_frame k (match idx with None => transform ROps M | Some l => sub_transform ROps (in_idx l) M end) E) as [HL HN].
  split; [exact HL|]. split.
  - intros c Hc Hne. unfold E', view_transform. rewrite HN by exact Hc.
    destruct (Nat.eqb k c) eqn:Ek; [apply Nat.eqb_eq in Ek; congruence | reflexivity].
  - unfold E', view_transform. rewrite HN by exact Hk. rewrite Nat.eqb_refl. destruct idx as [l|]; cbn [sel].
    + now apply sub_transform_rigid.
    + split; [|intros i Hi; discriminate]. destruct (transform_same_shape M (nth k E []) HM) as [L [D V]].
      split; [exact L|]. split; intros; [apply D | apply V]; auto.
Qed.

(* ------------------------------------------------------------------ (2) live rows as arguments *)
Lemma vm_vdiv (x : vecR) (n : R) (M : matR) : vm ROps (vdiv ROps x n) M = vdiv ROps (vm ROps x M) n.
Proof. vdestruct. f3. unfold Rdiv. veq; ring. Qed.

(* "put atom k along w": the table is untouched by computing the matrix; after transform every distance and signed
   volume is as before and atom k lies in the direction of w, at its old distance from the origin *)
Theorem orient_row_correct (tol : R) (X : list vecR) (k : nat) (w ov : vecR) (nk nw : R) :
  0 <= tol < 1 -> (k < length X)%nat ->
  0 < nk -> nk * nk = norm2 ROps (pt X k) -> 0 < nw -> nw * nw = norm2 ROps w ->
  unit ov -> dot ROps ov w = 0 ->
  let r := orient_row ROps tol X k false w nk nw ov in
  fst r = X /\ same_shape X (snd r) /\ vdiv ROps (pt (snd r) k) nk = vdiv ROps w nw.
Proof.
  intros Htol Hk Hnk Ek Hnw Ew Ho Hov r.
  destruct (rot_from_vectors_correct tol (pt X k) w ov nk nw Htol Hnk Ek Hnw Ew Ho Hov) as [HP HM].
  unfold r, orient_row, row_matrix_vec. cbn [fst snd]. fold (pt X k).
  split; [reflexivity|]. split; [now apply transform_same_shape|].
  rewrite pt_transform by exact Hk. rewrite <- vm_vdiv. exact HM.
Qed.

(* the same with the row as the TARGET direction: R = rotation_matrix_from_vectors(w, coords[k]) *)
Theorem orient_row_swapped_correct (tol : R) (X : list vecR) (k : nat) (w ov : vecR) (nk nw : R) :
  0 <= tol < 1 -> (k < length X)%nat ->
  0 < nk -> nk * nk = norm2 ROps (pt X k) -> 0 < nw -> nw * nw = norm2 ROps w ->
  unit ov -> dot ROps ov (pt X k) = 0 ->
  let r := orient_row ROps tol X k true w nk nw ov in
  fst r = X /\ same_shape X (snd r) /\
  vm ROps (vdiv ROps w nw) (row_matrix_vec ROps tol X k true w nk nw ov) = vdiv ROps (pt X k) nk.
Proof.
  intros Htol Hk Hnk Ek Hnw Ew Ho Hov r.
  destruct (rot_from_vectors_correct tol w (pt X k) ov nw nk Htol Hnw Ew Hnk Ek Ho Hov) as [HP HM].
  unfold r, orient_row, row_matrix_vec. cbn [fst snd]. fold (pt X k).
  split; [reflexivity|]. split; [now apply transform_same_shape | exact HM].
Qed.

(* "turn about atom k": table untouched by computing the matrix, shape kept, atom k stays where it is *)
Theorem turn_about_row_correct (X : list vecR) (k : nat) (nk s c : R) :
  (k < length X)%nat -> 0 < nk -> nk * nk = norm2 ROps (pt X k) -> s * s + c * c = 1 ->
  let r := turn_about_row ROps X k nk s c in
  fst r = X /\ same_shape X (snd r) /\ pt (snd r) k = pt X k.
Proof.
  intros Hk Hnk Ek Hsc r.
  destruct (rot_from_axis_correct (pt X k) nk s c Hnk Ek Hsc) as [HP [HF _]].
  unfold r, turn_about_row. cbn [fst snd]. fold (pt X k).
  split; [reflexivity|]. split; [now apply transform_same_shape|].
  rewrite pt_transform by exact Hk. exact HF.
Qed.

(* translate(coords[k]): every selected row moves by the value row k had BEFORE the call (row k itself included) *)
Theorem shift_by_row_correct (idx : option (list nat)) (X : list vecR) (k : nat) :
  let sel i := match idx with None => true | Some l => in_idx l i end in
  let X' := shift_by_row ROps idx X k in
  length X' = length X /\
  forall i, (i < length X)%nat -> pt X' i = if sel i then vadd ROps (pt X i) (pt X k) else pt X i.
Proof.
  intros sel X'. unfold X', shift_by_row. fold (pt X k). destruct idx as [l|]; cbn [sel].
  - apply (update_rows_frame (in_idx l) (fun x => vadd ROps x (pt X k)) X).
  - split; [apply map_length | intros i Hi; now apply pt_translate].
Qed.
