(* C11, sequences of operations on one live structure (Model/RotSeq.v).
   1. The atoms rotate_dihedral turns are a function of the CURRENT graph: `far_side` is the least set that contains a3
      and is closed under bonds that do not lead back into a2 (so: exactly the atoms behind a2 -> a3 now).
   2. One rotate_dihedral step, in whatever state it is applied: target reached, the far side of the bond as the graph
      is now keeps its shape, nothing else moves, every bond of the current graph keeps its length.
   3. Any sequence of operations: every step has its documented effect on the state the previous steps left. *)
From Coq Require Import Reals Lra List ZArith Lia Bool Arith.
From Molli Require Import Common.Field3 Common.Field3R Model.Rot Model.RotSeq Proofs.Rot Proofs.RotMotion.
Import ListNotations.

(* ------------------------------------------------------------------ the graph side *)
Lemma list_eqb_eq a : forall b, list_eqb a b = true -> a = b.
Proof.
  induction a as [|x a IH]; intros [|y b] H; simpl in H; try discriminate; [reflexivity|].
  apply andb_prop in H. destruct H as [H1 H2]. apply Bool.eqb_prop in H1. subst. f_equal. now apply IH.
Qed.

Lemma nth_map_seq {A} (f : nat -> A) n d y : y < n -> nth y (map f (seq 0 n)) d = f y.
Proof.
  intros H. rewrite (nth_indep _ d (f 0)) by (rewrite map_length, seq_length; exact H).
  rewrite map_nth. now rewrite seq_nth.
Qed.

Definition grow_cond (G : graph) (blk : nat) (V : list bool) (y : nat) : bool :=
  member V y ||
  (negb (Nat.eqb y blk) &&
   existsb (fun e => (Nat.eqb (fst e) y && member V (snd e)) || (Nat.eqb (snd e) y && member V (fst e))) G).

Lemma member_grow G n blk V y : y < n -> member (grow G n blk V) y = grow_cond G blk V y.
Proof. intros H. unfold member, grow. now rewrite nth_map_seq. Qed.
Lemma grow_length G n blk V : length (grow G n blk V) = n.
Proof. unfold grow. now rewrite map_length, seq_length. Qed.
Lemma member_overflow V y : length V <= y -> member V y = false.
Proof. intros H. unfold member. now apply nth_overflow. Qed.
Lemma member_lt V n y : length V = n -> member V y = true -> y < n.
Proof.
  intros HL Hy. destruct (Nat.lt_ge_cases y n) as [L|L]; [exact L|].
  rewrite member_overflow in Hy by (rewrite HL; exact L). discriminate.
Qed.

Lemma joins_sym e x y : joins e x y = joins e y x.
Proof. unfold joins. apply orb_comm. Qed.
Lemma adjb_sym G x y : adjb G x y = adjb G y x.
Proof. unfold adjb. induction G as [|e G IH]; simpl; [reflexivity|]. now rewrite IH, joins_sym. Qed.
Lemma adjb_witness G x y : adjb G x y = true -> exists e, In e G /\ joins e x y = true.
Proof. unfold adjb. rewrite existsb_exists. auto. Qed.

(* a fixed point of `grow` is closed under bonds that do not lead into the blocked atom *)
Lemma grow_fix_closed G n blk T : grow G n blk T = T ->
  forall x y, y < n -> member T x = true -> adjb G x y = true -> y <> blk -> member T y = true.
Proof.
  intros Fix x y Hy Hx Hadj Hb.
  rewrite <- Fix. rewrite member_grow by exact Hy. unfold grow_cond.
  apply orb_true_iff. right. apply andb_true_iff. split.
  - apply negb_true_iff, Nat.eqb_neq, Hb.
  - apply adjb_witness in Hadj. destruct Hadj as [e [He J]]. apply existsb_exists. exists e. split; [exact He|].
    unfold joins in J. apply orb_true_iff in J.
    destruct J as [J|J]; apply andb_true_iff in J; destruct J as [J1 J2]; apply Nat.eqb_eq in J1; apply Nat.eqb_eq in J2.
    + apply orb_true_iff. right. apply andb_true_iff. split; [now apply Nat.eqb_eq | now rewrite J1].
    + apply orb_true_iff. left. apply andb_true_iff. split; [now apply Nat.eqb_eq | now rewrite J2].
Qed.

(* `grow` only adds atoms that any closed set containing the current ones contains as well *)
Lemma grow_inv G n blk (Q : nat -> Prop) V :
  (forall x y, x < n -> y < n -> Q x -> adjb G x y = true -> y <> blk -> Q y) ->
  length V = n ->
  (forall y, member V y = true -> Q y) ->
  (forall y, member (grow G n blk V) y = true -> Q y).
Proof.
  intros Cl HL HV y Hy.
  assert (Hlt : y < n) by (apply (member_lt _ _ _ (grow_length G n blk V) Hy)).
  rewrite member_grow in Hy by exact Hlt. unfold grow_cond in Hy.
  apply orb_true_iff in Hy. destruct Hy as [Hy|Hy]; [now apply HV|].
  apply andb_true_iff in Hy. destruct Hy as [Hb Hex]. apply negb_true_iff, Nat.eqb_neq in Hb.
  apply existsb_exists in Hex. destruct Hex as [e [He D]].
  apply orb_true_iff in D. destruct D as [D|D]; apply andb_true_iff in D; destruct D as [D1 D2]; apply Nat.eqb_eq in D1.
  - apply (Cl (snd e) y); [now apply (member_lt V) | exact Hlt | now apply HV | | exact Hb].
    unfold adjb. apply existsb_exists. exists e. split; [exact He|]. unfold joins.
    apply orb_true_iff. right. apply andb_true_iff. split; [now apply Nat.eqb_eq | apply Nat.eqb_refl].
  - apply (Cl (fst e) y); [now apply (member_lt V) | exact Hlt | now apply HV | | exact Hb].
    unfold adjb. apply existsb_exists. exists e. split; [exact He|]. unfold joins.
    apply orb_true_iff. left. apply andb_true_iff. split; [apply Nat.eqb_refl | now apply Nat.eqb_eq].
Qed.

Lemma grow_mono G n blk V y : length V = n -> member V y = true -> member (grow G n blk V) y = true.
Proof.
  intros HL Hy. rewrite member_grow by (now apply (member_lt V)). unfold grow_cond. now rewrite Hy.
Qed.
Lemma grow_blocked G n blk V : member V blk = false -> member (grow G n blk V) blk = false.
Proof.
  intros Hb. destruct (Nat.lt_ge_cases blk n) as [L|L].
  - rewrite member_grow by exact L. unfold grow_cond. now rewrite Hb, Nat.eqb_refl.
  - apply member_overflow. now rewrite grow_length.
Qed.

(* whatever `grow` preserves holds of the result of the iteration, and the result is a fixed point *)
Lemma far_iter_inv G n blk (I : list bool -> Prop) :
  (forall V, I V -> I (grow G n blk V)) ->
  forall fuel V T, far_iter G n blk fuel V = Some T -> I V -> I T /\ grow G n blk T = T.
Proof.
  intros Step. induction fuel as [|f IH]; intros V T H HV; simpl in H.
  - destruct (list_eqb (grow G n blk V) V) eqn:E; [|discriminate].
    injection H as <-. split; [exact HV | now apply list_eqb_eq].
  - destruct (list_eqb (grow G n blk V) V) eqn:E.
    + injection H as <-. split; [exact HV | now apply list_eqb_eq].
    + apply (IH _ _ H). now apply Step.
Qed.

(* The atoms behind a2 -> a3: a3 is among them, a2 is not, they are closed under every bond that does not lead back
   into a2, and they are the LEAST such set -- a function of the graph given, of nothing else. *)
Theorem far_side_spec (G : graph) (n i2 i3 : nat) (sel : nat -> bool) :
  far_side G n i2 i3 = Some sel ->
  i3 < n /\ i2 <> i3 /\ adjb G i2 i3 = true /\
  sel i3 = true /\ sel i2 = false /\
  (forall y, sel y = true -> y < n) /\
  (forall x y, y < n -> sel x = true -> adjb G x y = true -> y <> i2 -> sel y = true) /\
  (forall Q : nat -> Prop, Q i3 ->
     (forall x y, x < n -> y < n -> Q x -> adjb G x y = true -> y <> i2 -> Q y) -> forall y, sel y = true -> Q y).
Proof.
  unfold far_side. intros H.
  destruct (adjb G i2 i3 && negb (Nat.eqb i2 i3) && Nat.ltb i3 n) eqn:C; [|discriminate].
  apply andb_true_iff in C. destruct C as [C C3]. apply andb_true_iff in C. destruct C as [C1 C2].
  apply Nat.ltb_lt in C3. apply negb_true_iff, Nat.eqb_neq in C2.
  set (V0 := map (fun y => Nat.eqb y i3) (seq 0 n)) in H.
  destruct (far_iter G n i2 n V0) as [T|] eqn:FI; [|discriminate]. injection H as <-.
  assert (L0 : length V0 = n) by (unfold V0; now rewrite map_length, seq_length).
  assert (M0 : forall y, y < n -> member V0 y = Nat.eqb y i3) by (intros y Hy; unfold member, V0; now rewrite nth_map_seq).
  (* length, a3 inside, a2 outside *)
  assert (I1 : (length T = n /\ member T i3 = true /\ member T i2 = false) /\ grow G n i2 T = T).
  apply (far_iter_inv G n i2 (fun V => length V = n /\ member V i3 = true /\ member V i2 = false)) with (fuel := n) (V := V0).
  { intros V [HL [H3 H2]]. split; [apply grow_length|]. split; [now apply grow_mono | now apply grow_blocked]. }
  { exact FI. }
  { split; [exact L0|]. split.
    - rewrite M0 by exact C3. apply Nat.eqb_refl.
    - destruct (Nat.lt_ge_cases i2 n) as [L|L].
      + rewrite M0 by exact L. now apply Nat.eqb_neq.
      + apply member_overflow. now rewrite L0. }
  destruct I1 as [[LT [T3 T2]] Fix].
  repeat split; try assumption.
  - intros y Hy. now apply (member_lt T).
  - intros x y Hy Hx Hadj Hb. now apply (grow_fix_closed G n i2 T Fix x y).
  - intros Q Q3 Cl.
    assert (I2 : (length T = n /\ forall y, member T y = true -> Q y) /\ grow G n i2 T = T).
    apply (far_iter_inv G n i2 (fun V => length V = n /\ forall y, member V y = true -> Q y)) with (fuel := n) (V := V0).
    { intros V [HL HV]. split; [apply grow_length | now apply (grow_inv G n i2 Q V)]. }
    { exact FI. }
    { split; [exact L0|]. intros y Hy. assert (Hlt : y < n) by now apply (member_lt V0).
      rewrite M0 in Hy by exact Hlt. apply Nat.eqb_eq in Hy. rewrite Hy. exact Q3. }
    destruct I2 as [[_ HQ] _]. exact HQ.
Qed.

(* connectivity edits, as seen by the next search *)
Lemma adjb_connect G i j x y : adjb ((i, j) :: G) x y = joins (i, j) x y || adjb G x y.
Proof. reflexivity. Qed.
Lemma joins_iff e x y : joins e x y = true <-> (fst e = x /\ snd e = y) \/ (fst e = y /\ snd e = x).
Proof. unfold joins. rewrite orb_true_iff, !andb_true_iff, !Nat.eqb_eq. reflexivity. Qed.
Lemma adjb_del_bond G i j x y : adjb (graph_del_bond i j G) x y = adjb G x y && negb (joins (i, j) x y).
Proof.
  apply Bool.eq_iff_eq_true. unfold adjb, graph_del_bond.
  rewrite andb_true_iff, negb_true_iff, !existsb_exists. split.
  - intros [e [He J]]. apply filter_In in He. destruct He as [He N]. apply negb_true_iff in N. split; [exists e; auto|].
    destruct (joins (i, j) x y) eqn:K; [|reflexivity]. exfalso.
    apply joins_iff in K. apply joins_iff in J. simpl in K.
    assert (joins e i j = true) by (apply joins_iff; intuition congruence). congruence.
  - intros [[e [He J]] K]. exists e. split; [|exact J]. apply filter_In. split; [exact He|]. apply negb_true_iff.
    destruct (joins e i j) eqn:N; [|reflexivity]. exfalso.
    apply joins_iff in N. apply joins_iff in J.
    assert (joins (i, j) x y = true) by (apply joins_iff; simpl; intuition congruence). congruence.
Qed.

Lemma remove_row_nth {A} (d : A) : forall (l : list A) i k,
  nth k (remove_row i l) d = nth (if Nat.ltb k i then k else S k) l d.
Proof.
  induction l as [|x l IH]; intros i k.
  - destruct i, k; simpl; try reflexivity; now destruct (Nat.ltb _ _).
  - destruct i as [|i]; simpl; [reflexivity|].
    destruct k as [|k]; simpl; [reflexivity|]. rewrite IH.
    change (Nat.ltb (S k) (S i)) with (Nat.ltb k i). now destruct (Nat.ltb k i).
Qed.
Lemma remove_row_length {A} : forall (l : list A) i, i < length l -> length (remove_row i l) = Nat.pred (length l).
Proof.
  induction l as [|x l IH]; intros i H; simpl in H; [inversion H|].
  destruct i as [|i]; simpl; [reflexivity|]. rewrite IH by lia. destruct l; simpl in *; [lia | reflexivity].
Qed.

(* ------------------------------------------------------------------ one step over R *)
Local Open Scope R_scope.

Lemma rd_move_origin M o : rd_move M o o = o.
Proof. unfold rd_move. vdestruct. f3. veq; ring. Qed.

(* the arctan2 arguments read from the other end of the chain are the same: dihedral(a,b,c,d) = dihedral(d,c,b,a) *)
Lemma dihedral_args_reverse (p1 p2 p3 p4 : vecR) (n : R) :
  dihedral_args ROps p4 p3 p2 p1 n = dihedral_args ROps p1 p2 p3 p4 n.
Proof. unfold dihedral_args. vdestruct. f3. f_equal; ring. Qed.

Definition bonded_dist_kept (G : graph) (X X' : list vecR) : Prop :=
  forall x y, (x < length X)%nat -> (y < length X)%nat -> adjb G x y = true ->
    dist2 ROps (pt X' x) (pt X' y) = dist2 ROps (pt X x) (pt X y).

(* preconditions of a rotate_dihedral call in the state (X, G) it is applied to *)
Definition rd_pre (X : list vecR) (G : graph) (i1 i2 i3 i4 : nat) (st ct n2 rho : R) : Prop :=
  (i1 < length X)%nat /\ (i2 < length X)%nat /\ (i4 < length X)%nat /\
  adjb G i3 i4 = true /\ i4 <> i2 /\
  (forall sel, far_side G (length X) i2 i3 = Some sel -> sel i1 = false) /\           (* a2 - a3 is not a ring bond *)
  0 < n2 /\ n2 * n2 = norm2 ROps (vsub ROps (pt X i3) (pt X i2)) /\
  0 < rho /\
  rho * rho = fst (dihedral_args ROps (pt X i1) (pt X i2) (pt X i3) (pt X i4) n2) * fst (dihedral_args ROps (pt X i1) (pt X i2) (pt X i3) (pt X i4) n2)
            + snd (dihedral_args ROps (pt X i1) (pt X i2) (pt X i3) (pt X i4) n2) * snd (dihedral_args ROps (pt X i1) (pt X i2) (pt X i3) (pt X i4) n2) /\
  st * st + ct * ct = 1.
(* ... and its effect *)
Definition rd_post (X : list vecR) (G : graph) (i1 i2 i3 i4 : nat) (st ct n2 rho : R) (X' : list vecR) (G' : graph) : Prop :=
  exists sel, far_side G (length X) i2 i3 = Some sel /\ G' = G /\
    dihedral_args ROps (pt X' i1) (pt X' i2) (pt X' i3) (pt X' i4) n2 = (rho * st, rho * ct) /\
    dihedral_args ROps (pt X' i4) (pt X' i3) (pt X' i2) (pt X' i1) n2 = (rho * st, rho * ct) /\
    same_shape_on (fun i => sel i = true) X X' /\
    (forall i, sel i = false -> pt X' i = pt X i) /\
    bonded_dist_kept G X X'.

Theorem seq_rotate_dihedral_step (X : list vecR) (G : graph) (i1 i2 i3 i4 : nat) (st ct n2 rho : R) (X' : list vecR) (G' : graph) :
  sstep ROps (X, G) (SRotDih i1 i2 i3 i4 st ct n2 rho) = Some (X', G') ->
  rd_pre X G i1 i2 i3 i4 st ct n2 rho -> rd_post X G i1 i2 i3 i4 st ct n2 rho X' G'.
Proof.
  intros H [L1 [L2 [L4 [A34 [N42 [Ring [Hn [En [Hr [Er Hsc]]]]]]]]]].
  unfold sstep in H. destruct (far_side G (length X) i2 i3) as [sel|] eqn:FS; [|discriminate].
  injection H as HX HG. exists sel. split; [exact FS|]. split; [now symmetry|].
  destruct (far_side_spec G (length X) i2 i3 sel FS) as [L3 [N23 [A23 [S3 [S2 [Slt [Cl _]]]]]]].
  assert (S4 : sel i4 = true) by (apply (Cl i3 i4); assumption).
  assert (S1 : sel i1 = false) by (apply Ring; reflexivity).
  destruct (rotate_dihedral_correct X i1 i2 i3 i4 sel st ct n2 rho L1 L2 L3 L4 S1 S2 S3 S4 Hn En Hr Er Hsc)
    as [Tgt [_ [Shape Frame]]].
  rewrite HX in Tgt, Shape, Frame.
  split; [exact Tgt|]. split; [rewrite dihedral_args_reverse; exact Tgt|]. split; [exact Shape|]. split; [exact Frame|].
  (* bond lengths *)
  intros x y Lx Ly Axy.
  set (M := rd_matrix (pt X i1) (pt X i2) (pt X i3) (pt X i4) st ct n2 rho).
  assert (PM : proper M) by (apply rd_matrix_proper; assumption).
  assert (Row : forall i, (i < length X)%nat -> pt X' i = if sel i then rd_move M (pt X i2) (pt X i) else pt X i).
  { intros i Li. rewrite <- HX, rotate_dihedral_unfold. now apply update_rows_frame. }
  destruct (rd_move_rigid M (pt X i2) PM) as [Dist _].
  assert (Half : forall a b, (a < length X)%nat -> (b < length X)%nat -> adjb G a b = true -> sel a = true -> sel b = false ->
                 dist2 ROps (pt X' a) (pt X' b) = dist2 ROps (pt X a) (pt X b)).
  { intros a b La Lb Aab Sa Sb.
    assert (b = i2).
    { destruct (Nat.eq_dec b i2) as [E|E]; [exact E|]. rewrite (Cl a b Lb Sa Aab E) in Sb. discriminate. }
    subst b. rewrite (Row a La), (Row i2 Lb), Sa, Sb.
    rewrite <- (rd_move_origin M (pt X i2)) at 2. apply Dist. }
  destruct (sel x) eqn:Sx, (sel y) eqn:Sy.
  - destruct Shape as [_ [D _]]. now apply D.
  - now apply Half.
  - assert (Sym : forall P Q : vecR, dist2 ROps P Q = dist2 ROps Q P) by (intros; vdestruct; f3; ring).
    rewrite (Sym (pt X' x)), (Sym (pt X x)). apply Half; try assumption. now rewrite adjb_sym.
  - now rewrite (Frame x Sx), (Frame y Sy).
Qed.

(* ------------------------------------------------------------------ every step of every sequence *)
Definition sop_pre (s : sstate R) (op : sop R) : Prop :=
  match op with
  | SRotDih i1 i2 i3 i4 st ct n2 rho => rd_pre (fst s) (snd s) i1 i2 i3 i4 st ct n2 rho
  | STransform _ M => proper M
  | _ => True
  end.
Definition sop_post (s : sstate R) (op : sop R) (s' : sstate R) : Prop :=
  let X := fst s in let G := snd s in let X' := fst s' in let G' := snd s' in
  match op with
  | SRotDih i1 i2 i3 i4 st ct n2 rho => rd_post X G i1 i2 i3 i4 st ct n2 rho X' G'
  | STranslate None _ | STransform None _ => G' = G /\ same_shape X X'
  | STranslate (Some idx) _ | STransform (Some idx) _ =>
      G' = G /\ same_shape_on (fun i => in_idx idx i = true) X X' /\ (forall i, in_idx idx i = false -> pt X' i = pt X i)
  | SConnect i j => X' = X /\ forall x y, adjb G' x y = joins (i, j) x y || adjb G x y
  | SDelBond i j => X' = X /\ forall x y, adjb G' x y = adjb G x y && negb (joins (i, j) x y)
  | SAddAtom p => G' = G /\ length X' = S (length X) /\ pt X' (length X) = p /\ forall i, (i < length X)%nat -> pt X' i = pt X i
  | SDelAtom i => length X' = Nat.pred (length X) /\ forall k, pt X' k = pt X (if Nat.ltb k i then k else S k)
  end.

Theorem sstep_effect (s : sstate R) (op : sop R) (s' : sstate R) :
  sstep ROps s op = Some s' -> sop_pre s op -> sop_post s op s'.
Proof.
  destruct s as [X G], s' as [X' G']. intros H Pre.
  destruct op as [i1 i2 i3 i4 st ct n2 rho | idx v | idx M | i j | i j | p | i]; unfold sop_post; cbn [fst snd].
  - now apply seq_rotate_dihedral_step.
  - destruct idx as [idx|]; simpl in H; injection H as <- <-.
    + split; [reflexivity|]. apply sub_translate_rigid.
    + split; [reflexivity|]. apply translate_same_shape.
  - simpl in Pre. destruct idx as [idx|]; simpl in H; injection H as <- <-.
    + split; [reflexivity|]. now apply sub_transform_rigid.
    + split; [reflexivity|]. now apply transform_same_shape.
  - simpl in H. destruct (Nat.ltb i (length X) && Nat.ltb j (length X) && negb (Nat.eqb i j)); [|discriminate].
    injection H as <- <-. split; [reflexivity|]. intros; apply adjb_connect.
  - simpl in H. destruct (adjb G i j); [|discriminate]. injection H as <- <-. split; [reflexivity|]. intros; apply adjb_del_bond.
  - simpl in H. injection H as <- <-. split; [reflexivity|]. split; [rewrite app_length; simpl; lia|]. split.
    + unfold pt. rewrite app_nth2 by lia. now rewrite Nat.sub_diag.
    + intros i Hi. unfold pt. now rewrite app_nth1.
  - simpl in H. destruct (Nat.ltb i (length X)) eqn:L; [|discriminate]. apply Nat.ltb_lt in L.
    injection H as <- <-. split; [now apply remove_row_length|]. intros k. unfold pt. apply remove_row_nth.
Qed.

(* the states a sequence goes through, each step with its effect on the state the previous steps left *)
Inductive trace_ok : sstate R -> list (sop R) -> list (sstate R) -> Prop :=
| trace_nil s : trace_ok s [] []
| trace_cons s op s' ops tr :
    sstep ROps s op = Some s' -> (sop_pre s op -> sop_post s op s') -> trace_ok s' ops tr -> trace_ok s (op :: ops) (s' :: tr).

Theorem srun_trace_ok : forall (ops : list (sop R)) (s : sstate R) (tr : list (sstate R)),
  srun ROps s ops = Some tr -> trace_ok s ops tr.
Proof.
  induction ops as [|op ops IH]; intros s tr H; simpl in H.
  - injection H as <-. constructor.
  - destruct (sstep ROps s op) as [s'|] eqn:E; [|discriminate].
    destruct (srun ROps s' ops) as [t|] eqn:R; [|discriminate]. injection H as <-.
    constructor; [exact E | now apply sstep_effect | now apply IH].
Qed.

(* The same bond driven from one end and then from the other, on the same structure: the second call works on the
   state the first one left -- it reaches ITS target (read from either end), turns the atoms behind a3 -> a2 and
   leaves the atoms the first call had turned (those behind a2 -> a3, a3 excepted: it lies on the axis) where they are. *)
Theorem seq_both_ends (X : list vecR) (G : graph) (i1 i2 i3 i4 : nat) (st ct n2 rho st' ct' n2' rho' : R)
        (s1 s2 : sstate R) :
  srun ROps (X, G) [SRotDih i1 i2 i3 i4 st ct n2 rho; SRotDih i4 i3 i2 i1 st' ct' n2' rho'] = Some [s1; s2] ->
  rd_pre X G i1 i2 i3 i4 st ct n2 rho ->
  rd_pre (fst s1) (snd s1) i4 i3 i2 i1 st' ct' n2' rho' ->
  rd_post X G i1 i2 i3 i4 st ct n2 rho (fst s1) (snd s1) /\
  rd_post (fst s1) (snd s1) i4 i3 i2 i1 st' ct' n2' rho' (fst s2) (snd s2) /\
  dihedral_args ROps (pt (fst s2) i1) (pt (fst s2) i2) (pt (fst s2) i3) (pt (fst s2) i4) n2' = (rho' * st', rho' * ct').
Proof.
  intros H P1 P2. apply srun_trace_ok in H.
  inversion H as [|? ? ? ? ? E1 Eff1 T1]; subst. inversion T1 as [|? ? ? ? ? E2 Eff2 T2]; subst.
  specialize (Eff1 P1). specialize (Eff2 P2). unfold sop_post in Eff1, Eff2.
  split; [exact Eff1|]. split; [exact Eff2|].
  destruct Eff2 as [sel [_ [_ [_ [Rev _]]]]]. exact Rev.
Qed.
