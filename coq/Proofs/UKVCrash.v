(* C03: what every crash image looks like to a reader and to a recovering writer. *)
From Coq Require Import ZArith NArith List Bool Lia ZifyBool ZifyNat ZifyN.
Import ListNotations.
Open Scope N_scope.
From Molli Require Import Model.UKV Proofs.UKVBase Proofs.UKV.

Lemma crash_image_split H rs ps n : Forall wfkv ps ->
  exists tl, torn tl /\ crash_image H rs ps n = H ++ blocks (rs ++ complete n ps) ++ tl.
Proof.
  intros Hwp. destruct (firstn_blocks ps n Hwp) as [tl [Ht Htorn]]. exists tl. split; [exact Htorn|].
  unfold crash_image. rewrite Ht, blocks_app, <- app_assoc. reflexivity.
Qed.

Lemma assoc_app_l rs qs k v : assoc rs k = Some v -> assoc (rs ++ qs) k = Some v.
Proof.
  induction rs as [|p rs IH]; simpl; [discriminate|]. destruct (beq k (fst p)); [tauto|exact IH].
Qed.

(* every get on a crash image, through a handle that has just (re)opened it, is answered from
   committed ++ complete: the exact bytes or KeyError -- never a truncated or padded value *)
Lemma crash_get H rs ps n h' k :
  Forall wfkv ps -> full H (rs ++ complete n ps) h' -> closed h' = false ->
  get (crash_image H rs ps n) h' k =
    match assoc (rs ++ complete n ps) k with Some v => RVal v | None => RErr EKey end
  /\ get (H ++ blocks (rs ++ complete n ps)) h' k =
    match assoc (rs ++ complete n ps) k with Some v => RVal v | None => RErr EKey end.
Proof.
  intros Hwp Hf Hc. destruct (crash_image_split H rs ps n Hwp) as [tl [_ E]]. rewrite E. split.
  - apply get_spec; assumption.
  - pose proof (get_spec H (rs ++ complete n ps) [] h' k Hf Hc) as G. rewrite app_nil_r in G. exact G.
Qed.

Lemma hnth_repeat n i : hnth (repeat h0 n) i = h0.
Proof.
  unfold hnth. destruct (Nat.lt_ge_cases i n) as [L|L]; [apply nth_repeat|].
  apply nth_overflow. rewrite repeat_length. exact L.
Qed.

(* a recovered world: the one handle that reopened the image for append, every other handle object new *)
Lemma inv_single_open H rs h' nh i :
  hdr_ok H -> Forall wfkv rs -> NoDup (map fst rs) -> full H rs h' -> closed h' = false -> (i < nh)%nat ->
  Inv H rs (H ++ blocks rs, upd (repeat h0 nh) i h').
Proof.
  intros Hok Hwf Hnd Hf Hc Hi.
  assert (Hlen : (i < length (repeat h0 nh))%nat) by (rewrite repeat_length; exact Hi).
  constructor; simpl; try assumption; try reflexivity.
  - intros j. unfold hnth. destruct (Nat.eq_dec j i) as [->|Hj].
    + rewrite nth_upd_same by exact Hlen. apply full_snap. exact Hf.
    + rewrite nth_upd_other by assumption. fold (hnth (repeat h0 nh) j). rewrite hnth_repeat. apply snap_h0.
  - intros j. unfold hnth. destruct (Nat.eq_dec j i) as [->|Hj].
    + rewrite nth_upd_same by exact Hlen. intros _. exact Hf.
    + rewrite nth_upd_other by assumption. fold (hnth (repeat h0 nh) j). rewrite hnth_repeat. simpl. discriminate.
  - intros a b Hab. unfold hnth. destruct (Nat.eq_dec b i) as [->|Hb].
    + rewrite (nth_upd_other _ i a) by (try assumption; exact Hab).
      fold (hnth (repeat h0 nh) a). rewrite hnth_repeat. simpl. discriminate.
    + intros _ _. rewrite nth_upd_other by assumption. fold (hnth (repeat h0 nh) b). rewrite hnth_repeat. reflexivity.
Qed.

Theorem crash_recover H rs ps n nh i :
  hdr_ok H -> Forall wfkv (rs ++ ps) -> NoDup (map fst (rs ++ ps)) -> (i < nh)%nat ->
  exists h', open_ (crash_image H rs ps n) h0 MA = (H ++ blocks (rs ++ complete n ps), h') /\
             Inv H (rs ++ complete n ps) (H ++ blocks (rs ++ complete n ps), upd (repeat h0 nh) i h').
Proof.
  intros Hok Hwf Hnd Hi.
  destruct (crash_reopen H rs ps n h0 MA Hok Hwf Hnd (snap_h0 H rs) eq_refl) as [h' [E [Hf [_ Hc]]]].
  exists h'. split; [exact E|].
  destruct (complete_prefix n ps) as [j Hj].
  apply inv_single_open; try assumption.
  - apply Forall_app in Hwf. destruct Hwf as [Hwr Hwp]. apply Forall_app. split; [exact Hwr|].
    rewrite Hj. apply Forall_forall. intros x Hx. rewrite Forall_forall in Hwp. apply Hwp. eapply in_firstn. exact Hx.
  - rewrite Hj. replace (rs ++ firstn j ps) with (firstn (length rs + j) (rs ++ ps)) by (rewrite firstn_app_2; reflexivity).
    rewrite <- firstn_map. apply firstn_incl_nodup. exact Hnd.
Qed.

Lemma inv_header H rs w : Inv H rs w -> firstn (N.to_nat (len H)) (fst w) = H.
Proof. intros I. rewrite (inv_file _ _ _ I). apply firstn_len_app. Qed.
