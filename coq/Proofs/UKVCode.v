(* The code IS the model: the method bodies of molli/storage/ukvfile.py, translated on every run into terms of
   Model/MiniPy.v (Gen/UKVCode.v), run exactly as the hand-written functions of Model/UKV.v say -- for EVERY object
   state and EVERY file content, not for the sampled histories of the differential tie. *)
From Coq Require Import NArith Arith List Bool String Lia ZifyNat ZifyN.
Import ListNotations.
From Molli Require Import Model.UKV Model.MiniPy Gen.UKVCode Proofs.UKVBase.
Open Scope N_scope.
Lemma skipn_add {A} (l : list A) : forall a b, skipn a (skipn b l) = skipn (b + a) l.
Proof. induction l as [|x l IH]; intros a b; [rewrite !skipn_nil; reflexivity|]. destruct b; [reflexivity|]. simpl. apply IH. Qed.

(* two consecutive writes are one write of the concatenation *)
Lemma write_at_app (f : bytes) (e : N) (a b : bytes) :
  write_at (write_at f e a) (e + len a) b = write_at f e (a ++ b).
Proof.
  unfold write_at, len.
  set (n := N.to_nat e). set (la := List.length a). set (lb := List.length b).
  replace (N.to_nat (e + N.of_nat la)) with (n + la)%nat by lia.
  replace (N.to_nat (e + N.of_nat la + N.of_nat lb)) with (n + la + lb)%nat by lia.
  replace (N.to_nat (e + N.of_nat (List.length (a ++ b)))) with (n + la + lb)%nat by (rewrite app_length; lia).
  set (g := firstn n f ++ repeat 0 (n - List.length f) ++ a ++ skipn (n + la) f).
  assert (Lpre : List.length (firstn n f ++ repeat 0 (n - List.length f)) = n).
  { rewrite app_length, firstn_length, repeat_length. lia. }
  assert (Eg : g = (firstn n f ++ repeat 0 (n - List.length f)) ++ a ++ skipn (n + la) f) by (unfold g; rewrite <- app_assoc; reflexivity).
  assert (Lg : (n + la <= List.length g)%nat).
  { rewrite Eg, app_length, Lpre, app_length. lia. }
  replace (n + la - List.length g)%nat with 0%nat by lia. cbn [repeat app].
  assert (F : firstn (n + la) g = (firstn n f ++ repeat 0 (n - List.length f)) ++ a).
  { rewrite Eg, app_assoc. rewrite firstn_app.
    replace (List.length ((firstn n f ++ repeat 0 (n - List.length f)) ++ a)) with (n + la)%nat by (rewrite app_length, Lpre; reflexivity).
    rewrite Nat.sub_diag. cbn [firstn]. rewrite app_nil_r. apply firstn_all2. rewrite app_length, Lpre. lia. }
  assert (S : skipn (n + la + lb) g = skipn (n + la + lb) f).
  { rewrite Eg, app_assoc. rewrite skipn_app.
    replace (List.length ((firstn n f ++ repeat 0 (n - List.length f)) ++ a)) with (n + la)%nat by (rewrite app_length, Lpre; reflexivity).
    rewrite skipn_all2 by (rewrite app_length, Lpre; lia). cbn [app].
    replace (n + la + lb - (n + la))%nat with lb by lia. rewrite skipn_add. reflexivity. }
  rewrite F, S. rewrite <- !app_assoc. reflexivity.
Qed.

Open Scope string_scope.
Open Scope N_scope.

Lemma lookup_set_same e x v : lookup_env (set_env e x v) x = Some v.
Proof. unfold lookup_env, set_env. rewrite String.eqb_refl. reflexivity. Qed.
Lemma lookup_set_other e x y v : x <> y -> lookup_env (set_env e x v) y = lookup_env e y.
Proof. intros N. unfold lookup_env, set_env. destruct (String.eqb x y) eqn:E; [apply String.eqb_eq in E; congruence|reflexivity]. Qed.

Definition vopt_bytes (o : option bytes) : val := match o with Some k => VBytes k | None => VNone end.
Definition vopt_int (o : option N) : val := match o with Some k => VInt k | None => VNone end.

Record Rep (s : state) (h : handle) : Prop := {
  rep_toc : lookup_env (attrs s) "_toc" = Some (VToc (toc h));
  rep_last : lookup_env (attrs s) "_last" = Some (vopt_bytes (last h));
  rep_eof : lookup_env (attrs s) "_eof" = Some (vopt_int (eof h));
  rep_closed : lookup_env (attrs s) "_closed" = Some (VBool (closed h));
  rep_stream : closed h = false -> s_closed (strm s) = false /\ s_wr (strm s) = match md h with MA => true | MR => false end;
  rep_eof_some : closed h = false -> eof h <> None      (* an open handle has mapped its file *)
}.

Definition out_of_res (r : UKV.res) : outcome :=
  match r with
  | ROk => ONormal
  | RVal v => OReturn (VBytes v)
  | RErr EUnsupported => ORaise XUnsupported
  | RErr EKey => ORaise XKey
  | RErr EStruct => ORaise XStruct
  | _ => ORaise XOther
  end.


Arguments write_at : simpl never.
Arguments sub : simpl never.
Arguments lookup : simpl never.
Arguments update : simpl never.
Arguments len : simpl never.
Arguments N.add : simpl never.
Arguments N.ltb : simpl never.
Arguments be32 : simpl never.



Arguments lookup_env : simpl never.
Arguments set_env : simpl never.
Ltac env := cbn in *; repeat (first [rewrite lookup_set_same | rewrite lookup_set_other by discriminate]); cbn in *.
Ltac envg := cbn; repeat (first [rewrite lookup_set_same | rewrite lookup_set_other by discriminate]); cbn.

Theorem get_code fuel s h k :
  Rep s h -> lookup_env (locals s) "key" = Some (VBytes k) ->
  let '(s', o) := exec fuel get_prog s in
  file s' = file s /\ attrs s' = attrs s /\ s_wr (strm s') = s_wr (strm s) /\ s_closed (strm s') = s_closed (strm s) /\
  o = out_of_res (get (file s) h k).
Proof.
  intros R L. destruct s as [f [p w c] at_ lo]. destruct R as [Rt Rl Re Rc Rs Rn]. env.
  unfold get_prog, get. env. rewrite Rc. env.
  destruct (closed h) eqn:Ec; env; [repeat split; reflexivity|].
  rewrite Rt, L. env. destruct (lookup (toc h) k) as [r|] eqn:El; env; [|repeat split; reflexivity].
  destruct (Rs eq_refl) as [Hc Hw]. subst c. env.
  repeat split; try reflexivity. unfold r_posv. do 3 f_equal. lia.
Qed.

Theorem put_code fuel s h k v :
  Rep s h -> lookup_env (locals s) "key" = Some (VBytes k) -> lookup_env (locals s) "value" = Some (VBytes v) ->
  let '(s', o) := exec fuel put_prog s in
  let '(f', h', r) := put (file s) h k v in
  file s' = f' /\ Rep s' h' /\ o = out_of_res r.
Proof.
  intros R Lk Lv. destruct s as [f [p w c] at_ lo]. pose proof R as R0. destruct R as [Rt Rl Re Rc Rs Rn]. env.
  unfold put_prog, put. env. rewrite Rc. env.
  destruct (closed h) eqn:Ec; env; [split; [reflexivity|split; [exact R0|reflexivity]]|].
  destruct (Rs eq_refl) as [Hc Hw]. subst c. env.
  destruct (md h) eqn:Em; subst w; env; [split; [reflexivity|split; [exact R0|reflexivity]]|].
  rewrite Lk, Rt. env. destruct (lookup (toc h) k) as [r0|] eqn:El; env; [split; [reflexivity|split; [exact R0|reflexivity]]|].
  rewrite Lk, Lv. env.
  unfold enc_block, pack_blk. destruct ((len k <? 256) && (len v <? 4294967296)) eqn:Ew; env;
    [|split; [reflexivity|split; [exact R0|reflexivity]]].
  destruct (eof h) as [e|] eqn:Ee; [|exfalso; apply (Rn eq_refl); reflexivity].
  repeat (progress (rewrite ?Lk, ?Lv, ?Re, ?Rt, ?Rc; env)).
  assert (L5 : len (len k :: be32 (len v)) = 5) by reflexivity.
  split; [|split; [|reflexivity]].
  - rewrite ?write_at_app, <- ?app_assoc. reflexivity.
  - repeat rewrite len_app. rewrite ?L5. constructor; cbn [attrs set_attr toc last eof md closed strm s_closed s_wr]; env.
    + reflexivity.
    + exact Rl.
    + first [ rewrite len_encb; apply (f_equal (fun x => Some (VInt x))); lia
            | apply (f_equal (fun l => Some (VInt (e + len l)))); unfold encb; cbn [app]; rewrite <- ?app_assoc; reflexivity ].
    + exact Rc.
    + intros _. split; reflexivity.
    + intros _. discriminate.
Qed.

(* close(): the stream is closed, the handle is marked closed; "x"/"w" (creation modes, not modelled) become "a" *)
Theorem close_code fuel s h :
  Rep s h -> (lookup_env (attrs s) "mode" = Some (VStr "r") \/ lookup_env (attrs s) "mode" = Some (VStr "a")) ->
  let '(s', o) := exec fuel close_prog s in
  file s' = file s /\ Rep s' (close_ h) /\ o = ONormal /\ lookup_env (attrs s') "mode" = lookup_env (attrs s) "mode".
Proof.
  intros R M. destruct s as [f [p w c] at_ lo]. destruct R as [Rt Rl Re Rc Rs Rn]. env.
  unfold close_prog. env.
  destruct M as [M|M]; rewrite M; env; (split; [reflexivity|split; [|split; [reflexivity|exact M]]]);
    (constructor; cbn [attrs toc last eof md closed close_ strm]; env; try assumption; try reflexivity; intros X; discriminate).
Qed.

(* keys(): the keys of the table of contents *)
Theorem keys_code s h : Rep s h -> eval s keys_expr = Val (VToc (toc h)).
Proof. intros R. unfold keys_expr. cbn. rewrite (rep_toc _ _ R). reflexivity. Qed.

(* ================= map_blocks: the scanning loop ================= *)
Fixpoint find_while (c : stmt) : option (stmt * string * stmt) :=
  match c with
  | SWhile a x b => Some (a, x, b)
  | SSeq a b | SIf _ a b => match find_while a with Some r => Some r | None => find_while b end
  | SCall _ a | SCallRet _ a => find_while a
  | STryElse a b c0 => match find_while a with Some r => Some r | None => match find_while b with Some r => Some r | None => find_while c0 end end
  | _ => None
  end.

Lemma sub_skipn f p n : sub f p n = firstn (N.to_nat n) (skipn (N.to_nat p) f).
Proof. reflexivity. Qed.

Lemma skipn_cons_len {A} (f : list A) n x rest : skipn n f = x :: rest -> skipn (S n) f = rest /\ List.length f = (n + S (List.length rest))%nat.
Proof.
  revert n. induction f as [|y f IH]; intros n H.
  - rewrite skipn_nil in H. discriminate.
  - destruct n; simpl in *.
    + inversion H; subst. split; [reflexivity|reflexivity].
    + destruct (IH n H) as [HA HB]. split; [exact HA|lia].
Qed.

Lemma skipn5 (f : bytes) n x1 x2 x3 x4 x5 rest :
  skipn n f = x1 :: x2 :: x3 :: x4 :: x5 :: rest ->
  skipn (n + 5) f = rest /\ List.length f = (n + 5 + List.length rest)%nat.
Proof.
  intros H. destruct (skipn_cons_len f n _ _ H) as [H1 L1]. destruct (skipn_cons_len f _ _ _ H1) as [H2 L2].
  destruct (skipn_cons_len f _ _ _ H2) as [H3 L3]. destruct (skipn_cons_len f _ _ _ H3) as [H4 L4].
  destruct (skipn_cons_len f _ _ _ H4) as [H5 L5]. split; [replace (n + 5)%nat with (S (S (S (S (S n))))) by lia; exact H5|simpl in *; lia].
Qed.

Record LoopSt (f : bytes) (w : bool) (p : N) (t : toc_t) (lk : option bytes) (s : state) : Prop := {
  ls_file : file s = f;
  ls_strm : strm s = mks p w false;
  ls_toc : lookup_env (attrs s) "_toc" = Some (VToc t);
  ls_pos : lookup_env (locals s) "L1" = Some (VInt p);
  ls_size : lookup_env (locals s) "L0" = Some (VInt (len f));
  ls_key : lookup_env (locals s) "L2" = Some (vopt_bytes lk)
}.


(* one evaluation of the loop condition: read five bytes, unpack them *)
Lemma cnd_exec fuel cnd body f w rem p s :
  find_while map_blocks_prog = Some (cnd, "L3", body) ->
  file s = f -> strm s = mks p w false -> rem = skipn (N.to_nat p) f ->
  exists s1, exec fuel cnd s = (s1, ONormal) /\
    file s1 = f /\ strm s1 = mks (p + len (firstn 5 rem)) w false /\ attrs s1 = attrs s /\
    lookup_env (locals s1) "L3" = Some (match unpack HBlock (firstn 5 rem) with Some v => v | None => VNone end) /\
    lookup_env (locals s1) "L1" = lookup_env (locals s) "L1" /\ lookup_env (locals s1) "L0" = lookup_env (locals s) "L0" /\
    lookup_env (locals s1) "L2" = lookup_env (locals s) "L2".
Proof.
  intros Hw Hf Hs Hrem. cbv in Hw. inversion Hw; subst cnd body; clear Hw.
  destruct s as [f0 st at_ lo]. cbn in Hf, Hs. subst f0 st.
  cbn [exec strm s_closed hdr_size]. unfold do_read. cbn [file strm s_pos]. rewrite sub_skipn, <- Hrem. change (N.to_nat 5) with 5%nat.
  destruct (unpack HBlock (firstn 5 rem)) as [v|]; cbn [exec eval set_local set_pos locals file strm attrs s_wr s_closed]; envg;
    (eexists; split; [reflexivity|]; cbn [file strm attrs locals]; repeat split; envg; reflexivity).
Qed.

Lemma len_firstn_le (l : bytes) n : n <= len l -> len (firstn (N.to_nat n) l) = n.
Proof. unfold len. intros H. rewrite firstn_length. lia. Qed.

(* one execution of the loop body on a complete five-byte block header *)
Lemma body_exec fuel cnd body f w p t lk kl a b c d rest s1 :
  find_while map_blocks_prog = Some (cnd, "L3", body) ->
  skipn (N.to_nat p) f = kl :: a :: b :: c :: d :: rest ->
  file s1 = f -> strm s1 = mks (p + 5) w false -> lookup_env (attrs s1) "_toc" = Some (VToc t) ->
  lookup_env (locals s1) "L3" = Some (VTup [VInt kl; VInt (rd32 a b c d)]) ->
  lookup_env (locals s1) "L1" = Some (VInt p) -> lookup_env (locals s1) "L0" = Some (VInt (len f)) ->
  lookup_env (locals s1) "L2" = Some (vopt_bytes lk) ->
  let vl := rd32 a b c d in
  if kl + vl <=? len rest then
    exists s2, exec fuel body s1 = (s2, ONormal) /\
      LoopSt f w (p + 5 + kl + vl) (update t (firstn (N.to_nat kl) rest) (mkrec p kl vl)) (Some (firstn (N.to_nat kl) rest)) s2 /\
      (forall x, x <> "_toc" -> lookup_env (attrs s2) x = lookup_env (attrs s1) x)
  else
    exists s2, exec fuel body s1 = (s2, OBreak) /\ file s2 = f /\ s_wr (strm s2) = w /\ s_closed (strm s2) = false /\
      attrs s2 = attrs s1 /\ lookup_env (locals s2) "L1" = Some (VInt p) /\
      lookup_env (locals s2) "L0" = Some (VInt (len f)) /\ lookup_env (locals s2) "L2" = Some (vopt_bytes lk).
Proof.
  intros Hw Hrem Hf Hs Ht Hb Hp Hz Hk vl. cbv in Hw. inversion Hw; subst cnd body; clear Hw.
  destruct (skipn5 f _ _ _ _ _ _ _ Hrem) as [Hrest Hlen].
  assert (Lf : len f = p + 5 + len rest) by (unfold len; lia).
  destruct s1 as [f0 st at_ lo]. cbn in Hf, Hs, Ht, Hb, Hp, Hz, Hk. subst f0 st.
  fold vl in Hb.
  Ltac stepb Hb Hp Hz Ht := repeat (progress (cbn [exec eval locals attrs file strm s_closed s_wr s_pos set_local set_attr set_pos truthy nth_error]; envg;
                              rewrite ?Hb, ?Hp, ?Hz, ?Ht)).
  destruct (kl + vl <=? len rest) eqn:Ec.
  - apply N.leb_le in Ec.
    assert (Eg : (len f <? p + 5 + kl + vl) = false) by (apply N.ltb_ge; lia).
    eexists. split; [|split].
    + stepb Hb Hp Hz Ht. rewrite Eg. stepb Hb Hp Hz Ht.
      unfold do_read. cbn [file strm s_pos]. rewrite sub_skipn.
      replace (N.to_nat (p + 5)) with (N.to_nat p + 5)%nat by lia. rewrite Hrest.
      rewrite len_firstn_le by lia. stepb Hb Hp Hz Ht. reflexivity.
    + constructor; cbn [file strm attrs locals]; envg; try reflexivity.
      * replace (p + (5 + kl + vl)) with (p + 5 + kl + vl) by lia. reflexivity.
      * exact Hz.
    + intros x Hx. cbn [attrs set_attr set_local set_pos]. rewrite lookup_set_other by congruence. reflexivity.
  - apply N.leb_gt in Ec.
    assert (Eg : (len f <? p + 5 + kl + vl) = true) by (apply N.ltb_lt; lia).
    eexists. split.
    + stepb Hb Hp Hz Ht. rewrite Eg. stepb Hb Hp Hz Ht. reflexivity.
    + cbn [file strm attrs locals s_wr s_closed]. repeat split; envg; assumption.
Qed.

Lemma wloop_scan fuel cnd body f w :
  find_while map_blocks_prog = Some (cnd, "L3", body) ->
  forall n rem p t lk s,
  (List.length rem < n)%nat -> rem = skipn (N.to_nat p) f -> LoopSt f w p t lk s ->
  exists s', wloop (exec fuel cnd) (exec fuel body) "L3" n s = (s', ONormal) /\
    let '(t', lk', p') := scan n rem p t lk in
    file s' = f /\ s_wr (strm s') = w /\ s_closed (strm s') = false /\
    lookup_env (attrs s') "_toc" = Some (VToc t') /\
    (forall x, x <> "_toc" -> lookup_env (attrs s') x = lookup_env (attrs s) x) /\
    lookup_env (locals s') "L1" = Some (VInt p') /\ lookup_env (locals s') "L0" = Some (VInt (len f)) /\
    lookup_env (locals s') "L2" = Some (vopt_bytes lk').
Proof.
  intros Hw. induction n as [|n IH]; intros rem p t lk s Hn Hrem L; [lia|].
  destruct L as [Lf Ls Lt Lp Lz Lk].
  destruct (cnd_exec fuel cnd body f w rem p s Hw Lf Ls Hrem) as [s1 [E1 [F1 [S1 [A1 [B1 [P1 [Z1 K1]]]]]]]].
  cbn [wloop]. rewrite E1. rewrite B1.
  assert (Short : unpack HBlock (firstn 5 rem) = None ->
          scan (S n) rem p t lk = (t, lk, p) ->
          exists s' : state,
            (if truthy VNone then (let '(s2, o2) := exec fuel body s1 in
                 match o2 with ONormal => wloop (exec fuel cnd) (exec fuel body) "L3" n s2 | OBreak => (s2, ONormal) | _ => (s2, o2) end)
             else (s1, ONormal)) = (s', ONormal) /\
            (let '(t', lk', p') := (t, lk, p) in
             file s' = f /\ s_wr (strm s') = w /\ s_closed (strm s') = false /\
             lookup_env (attrs s') "_toc" = Some (VToc t') /\
             (forall x, x <> "_toc" -> lookup_env (attrs s') x = lookup_env (attrs s) x) /\
             lookup_env (locals s') "L1" = Some (VInt p') /\ lookup_env (locals s') "L0" = Some (VInt (len f)) /\
             lookup_env (locals s') "L2" = Some (vopt_bytes lk'))).
  { intros _ _. exists s1. cbn [truthy]. split; [reflexivity|]. rewrite F1, S1, A1, P1, Z1, K1. cbn [s_wr s_closed].
    repeat split; try assumption; intros; reflexivity. }
  destruct rem as [|kl [|a [|b [|c [|d rest]]]]];
    try (cbn [firstn unpack scan]; apply Short; reflexivity).
  cbn [firstn unpack]. cbn [truthy].
  assert (Hrem' : skipn (N.to_nat p) f = kl :: a :: b :: c :: d :: rest) by (symmetry; exact Hrem).
  assert (S1' : strm s1 = mks (p + 5) w false) by (rewrite S1; reflexivity).
  pose proof (body_exec fuel cnd body f w p t lk kl a b c d rest s1 Hw Hrem' F1 S1') as HB.
  rewrite A1 in HB. specialize (HB Lt). cbn [firstn unpack] in B1. specialize (HB B1).
  rewrite P1, Z1, K1 in HB. specialize (HB Lp Lz Lk). cbn zeta in HB.
  cbn [scan]. destruct (kl + rd32 a b c d <=? len rest) eqn:Ec.
  - destruct HB as [s2 [E2 [L2 A2]]]. rewrite E2.
    destruct (skipn5 f _ _ _ _ _ _ _ Hrem') as [Hrest Hlen].
    assert (Ec' := Ec). apply N.leb_le in Ec'.
    destruct (IH (skipn (N.to_nat (kl + rd32 a b c d)) rest) (p + 5 + kl + rd32 a b c d)
                 (update t (firstn (N.to_nat kl) rest) (mkrec p kl (rd32 a b c d))) (Some (firstn (N.to_nat kl) rest)) s2) as [s' [E' R']].
    + rewrite skipn_length. simpl in Hn. lia.
    + rewrite <- Hrest. rewrite skipn_add. f_equal. lia.
    + exact L2.
    + exists s'. split; [exact E'|].
      destruct (scan n (skipn (N.to_nat (kl + rd32 a b c d)) rest) (p + 5 + kl + rd32 a b c d)
                  (update t (firstn (N.to_nat kl) rest) (mkrec p kl (rd32 a b c d))) (Some (firstn (N.to_nat kl) rest))) as [[t' lk'] p'].
      destruct R' as [R1 [R2 [R3 [R4 [R5 [R6 [R7 R8]]]]]]]. repeat split; try assumption.
      intros x Hx. rewrite (R5 x Hx), (A2 x Hx). reflexivity.
  - destruct HB as [s2 [E2 [F2 [W2 [C2 [A2 [P2 [Z2 K2]]]]]]]]. rewrite E2. exists s2. split; [reflexivity|].
    repeat split; try assumption.
    + rewrite A2. exact Lt.
    + intros x Hx. rewrite A2. reflexivity.
Qed.

Lemma scan_fuel : forall n m rem p t lk, (List.length rem < n)%nat -> (List.length rem < m)%nat -> scan n rem p t lk = scan m rem p t lk.
Proof.
  induction n as [|n IH]; intros m rem p t lk Hn Hm; [lia|]. destruct m as [|m]; [lia|].
  cbn [scan]. destruct rem as [|kl [|a [|b [|c [|d rest]]]]]; try reflexivity.
  destruct (kl + rd32 a b c d <=? len rest); [|reflexivity].
  apply IH; rewrite skipn_length; simpl in *; lia.
Qed.

(* the object state while map_blocks runs (the handle is being opened: _closed may still be true) *)
Record Obj (s : state) (h : handle) (h2v b0v : bytes) : Prop := {
  ob_toc : lookup_env (attrs s) "_toc" = Some (VToc (toc h));
  ob_last : lookup_env (attrs s) "_last" = Some (vopt_bytes (last h));
  ob_eof : lookup_env (attrs s) "_eof" = Some (vopt_int (eof h));
  ob_h2 : lookup_env (attrs s) "h2" = Some (VBytes h2v);
  ob_b0 : lookup_env (attrs s) "b0" = Some (VBytes b0v);
  ob_bof : 32 + len b0v + len h2v = bof_of (file s);
  ob_last_in : forall k, last h = Some k -> lookup (toc h) k <> None;
  ob_strm : s_closed (strm s) = false /\ s_wr (strm s) = match md h with MA => true | MR => false end
}.


Fixpoint find_if (c : stmt) : option (expr * stmt * stmt) :=
  match c with
  | SIf e a b => Some (e, a, b)
  | SSeq a b => match find_if a with Some r => Some r | None => find_if b end
  | _ => None
  end.

(* the "nothing changed since I last looked" test of map_blocks is the model's [shortcut] *)
Lemma shortcut_eval cond a b s h h2v b0v :
  find_if map_blocks_prog = Some (cond, a, b) ->
  Obj s h h2v b0v -> lookup_env (locals s) "L0" = Some (VInt (len (file s))) ->
  exists v, eval s cond = Val v /\ truthy v = shortcut (file s) h.
Proof.
  intros Hc O Hz. cbv in Hc. inversion Hc; subst cond a b; clear Hc.
  destruct s as [f [p w c] at_ lo]. destruct O as [Ot Ol Oe O2 O0 Ob Oin [Oc Ow]].
  cbn in Hz, Ot, Ol, Oe, O2, O0, Ob, Oc, Ow. unfold shortcut. cbn [file].
  cbn [eval attrs locals]. rewrite Oe, Hz.
  destruct (eof h) as [e|]; cbn [vopt_int val_eqb truthy]; [|eexists; split; reflexivity].
  destruct (e =? len f) eqn:E1; cbn [truthy andb]; [|eexists; split; reflexivity].
  rewrite Ol. destruct (last h) as [k|] eqn:El; cbn [vopt_bytes truthy].
  - rewrite Ot. destruct (lookup (toc h) k) as [r|] eqn:Er; [|exfalso; apply (Oin k eq_refl); exact Er].
    cbn [String.eqb Ascii.eqb Bool.eqb]. cbn [val_eqb]. eexists. split; [reflexivity|]. cbn [truthy].
    unfold r_end. f_equal. lia.
  - rewrite O0, O2. cbn [val_eqb]. eexists. split; [reflexivity|]. cbn [truthy]. rewrite <- Ob. reflexivity.
Qed.

Arguments scan : simpl never.

Theorem map_blocks_code fuel s h h2v b0v :
  (List.length (file s) < fuel)%nat -> Obj s h h2v b0v ->
  let '(s', o) := exec fuel map_blocks_prog s in
  let '(f', h') := map_blocks (file s) h in
  file s' = f' /\ (o = ONormal \/ o = OReturn VNone) /\
  lookup_env (attrs s') "_toc" = Some (VToc (toc h')) /\ lookup_env (attrs s') "_last" = Some (vopt_bytes (last h')) /\
  lookup_env (attrs s') "_eof" = Some (vopt_int (eof h')) /\
  (forall x, x <> "_toc" -> x <> "_last" -> x <> "_eof" -> lookup_env (attrs s') x = lookup_env (attrs s) x) /\
  s_closed (strm s') = false /\ s_wr (strm s') = s_wr (strm s) /\ md h' = md h /\ closed h' = closed h.
Proof.
  intros Hfuel O.
  destruct (find_if map_blocks_prog) as [[[cond ca] cb]|] eqn:Hif; [|discriminate].
  destruct (find_while map_blocks_prog) as [[[wc wx] wb]|] eqn:Hwh; [|discriminate].
  assert (Hwx : wx = "L3") by (cbv in Hwh; inversion Hwh; reflexivity). subst wx.
  pose proof Hif as Hif0. pose proof Hwh as Hwh0. cbv in Hif0, Hwh0. inversion Hif0 as [[Hcond Hca Hcb]]. inversion Hwh0 as [[Hwc Hwb]].
  destruct s as [f [p w c] at_ lo]. pose proof O as O'. destruct O as [Ot Ol Oe O2 O0 Ob Oin [Oc Ow]].
  cbn in Hfuel, Ot, Ol, Oe, O2, O0, Ob, Oc, Ow. subst c. cbn [file attrs strm s_wr s_closed].
  unfold map_blocks_prog. rewrite Hcond, Hwc, Hwb. clear Hif0 Hwh0 Hcond Hca Hcb Hwc Hwb.
  (* size = self._stream.seek(0, 2) *)
  cbn [exec strm s_closed file]. cbn [eval set_local set_pos locals file strm attrs s_pos s_wr s_closed]. envg.
  set (s1 := mkst f (mks (len f) w false) at_ (set_env (set_env lo "%1" (VInt (len f))) "L0" (VInt (len f)))).
  assert (O1 : Obj s1 h h2v b0v).
  { constructor; cbn [attrs file strm s1 s_closed s_wr]; try assumption. split; [reflexivity|exact Ow]. }
  assert (Z1 : lookup_env (locals s1) "L0" = Some (VInt (len (file s1)))) by (cbn [locals file s1]; envg; reflexivity).
  destruct (shortcut_eval cond ca cb s1 h h2v b0v Hif O1 Z1) as [v [Ev Tv]].
  change (set_local (set_local (set_pos (mkst f (mks p w false) at_ lo) (len f)) "%1" (VInt (len f))) "L0" (VInt (len f))) with s1.
  rewrite Ev, Tv. cbn [file s1]. unfold map_blocks. destruct (shortcut f h) eqn:Esc.
  - (* nothing changed since this handle last looked *)
    cbn [file attrs strm s1 s_closed s_wr]. repeat split; try assumption; try reflexivity. right; reflexivity.
  - set (B := bof_of f).
    (* pos = self._bof; seek(pos); key = None *)
    cbn [exec eval attrs locals file strm s1 s_closed s_wr s_pos set_local set_pos]. rewrite O0, O2. envg.
    replace (32 + len b0v + len h2v) with B by (symmetry; exact Ob).
    set (s2 := set_local (set_pos (set_local s1 "L1" (VInt B)) B) "L2" VNone).
    assert (L2 : LoopSt f w B (toc h) None s2).
    { constructor; cbn [s2 s1 file strm attrs locals set_local set_pos s_wr s_closed]; envg; try reflexivity; assumption. }
    assert (Hlen : (List.length (skipn (N.to_nat B) f) < fuel)%nat) by (rewrite skipn_length; lia).
    destruct (wloop_scan fuel wc wb f w Hwh fuel (skipn (N.to_nat B) f) B (toc h) None s2 Hlen eq_refl L2) as [s3 [E3 R3]].
    rewrite E3.
    rewrite (scan_fuel fuel (S (List.length f)) _ _ _ _ Hlen) in R3 by (rewrite skipn_length; lia).
    destruct (scan (S (List.length f)) (skipn (N.to_nat B) f) B (toc h) None) as [[t' lk'] p'] eqn:Esn.
    destruct R3 as [R1 [R2 [R3 [R4 [R5 [R6 [R7 R8]]]]]]].
    destruct s3 as [f3 [p3 w3 c3] at3 lo3]. cbn [file strm attrs locals s_wr s_closed] in R1, R2, R3, R4, R5, R6, R7, R8. subst f3 w3 c3.
    cbn [locals set_attr attrs file strm s_closed s_wr]. rewrite R8. cbn [locals set_attr attrs file strm]. rewrite R6. cbn [locals set_attr attrs file strm s_closed s_wr].
    rewrite R6, R7. cbn [truthy s_closed s_wr strm].
    assert (Tail : forall x, x <> "_toc" -> x <> "_last" -> x <> "_eof" ->
                   lookup_env (set_env (set_env at3 "_last" (vopt_bytes lk')) "_eof" (VInt p')) x = lookup_env at_ x).
    { intros x X1 X2 X3. rewrite !lookup_set_other by congruence. rewrite (R5 x X1). cbn [s2 s1 attrs set_local set_pos]. reflexivity. }
    destruct (md h) eqn:Em; subst w.
    + (* read mode: the file is left alone *)
      destruct (p' <? len f) eqn:Ep; cbn [truthy set_attr attrs file strm s_closed s_wr toc last eof md closed vopt_bytes vopt_int]; envg;
        (repeat split; try assumption; try reflexivity; try (left; reflexivity)).
    + (* append mode: a torn tail is cut off *)
      destruct (p' <? len f) eqn:Ep; cbn [truthy set_attr attrs file strm s_closed s_wr toc last eof md closed vopt_bytes vopt_int]; envg;
        (repeat split; try assumption; try reflexivity; try (left; reflexivity)).
      apply N.ltb_lt in Ep. replace (N.to_nat p' - List.length f)%nat with 0%nat by (unfold len in Ep; lia). cbn [repeat]. apply app_nil_r.
Qed.

(* ================= read_header ================= *)
Theorem read_header_code fuel s h1 h2 b0 rest :
  file s = (mk_header h1 h2 b0 ++ rest)%list -> List.length h1 = 16%nat -> len h2 < 65536 -> len b0 < 4294967296 ->
  s_closed (strm s) = false ->
  let '(s', o) := exec fuel read_header_prog s in
  o = ONormal /\ file s' = file s /\
  lookup_env (attrs s') "h1" = Some (VBytes h1) /\ lookup_env (attrs s') "h2" = Some (VBytes h2) /\
  lookup_env (attrs s') "b0" = Some (VBytes b0) /\
  (forall x, x <> "h1" -> x <> "h2" -> x <> "b0" -> lookup_env (attrs s') x = lookup_env (attrs s) x) /\
  s_closed (strm s') = false /\ s_wr (strm s') = s_wr (strm s).
Proof.
  intros Hf L1 L2 L0 Hc. destruct s as [f [p w c] at_ lo]. cbn in Hf, Hc. subst c.
  do 16 (destruct h1 as [|? h1]; [discriminate|]). destruct h1; [|discriminate]. clear L1.
  unfold mk_header, be32 in Hf. cbn [app repeat] in Hf.
  set (A := len h2 / 256 mod 256) in *. set (Bb := len h2 mod 256) in *.
  set (C1 := len b0 / 16777216 mod 256) in *. set (C2 := len b0 / 65536 mod 256) in *.
  set (C3 := len b0 / 256 mod 256) in *. set (C4 := len b0 mod 256) in *.
  assert (E2 : A * 256 + Bb = len h2) by (unfold A, Bb; lia).
  assert (E0 : rd32 C1 C2 C3 C4 = len b0) by (unfold rd32, C1, C2, C3, C4; lia).
  remember [n; n0; n1; n2; n3; n4; n5; n6; n7; n8; n9; n10; n11; n12; n13; n14; A; Bb; C1; C2; C3; C4; 0; 0; 0; 0; 0; 0; 0; 0; 0; 0] as pre eqn:Hpre.
  assert (HF : f = (pre ++ h2 ++ b0 ++ rest)%list) by (rewrite Hpre, Hf; cbn [app]; rewrite <- app_assoc; reflexivity).
  assert (Lp : len pre = 32) by (rewrite Hpre; reflexivity).
  assert (Up : unpack HFile pre = Some (VTup [VBytes [n; n0; n1; n2; n3; n4; n5; n6; n7; n8; n9; n10; n11; n12; n13; n14]; VInt (len h2); VInt (len b0)])).
  { rewrite Hpre. cbn. rewrite E2, E0. reflexivity. }
  clear Hf Hpre. subst f.
  unfold read_header_prog. cbn [exec strm s_closed eval]. cbn [set_pos file strm attrs locals s_wr s_closed s_pos hdr_size].
  unfold do_read. cbn [file strm s_pos set_pos]. rewrite sub_skipn. change (N.to_nat 0) with 0%nat. cbn [skipn].
  replace (N.to_nat 32) with (N.to_nat (len pre)) by (rewrite Lp; reflexivity). rewrite firstn_len_app. rewrite Up. rewrite Lp.
  Ltac stp := repeat (progress (cbn [exec eval set_local set_attr set_pos locals attrs file strm s_closed s_wr s_pos nth_error];
                                repeat (first [rewrite lookup_set_same | rewrite lookup_set_other by discriminate]))).
  stp. unfold do_read. stp. replace (0 + 32) with (len pre) by (rewrite Lp; reflexivity).
  rewrite sub_app_mid. stp. unfold do_read. stp.
  replace (len pre + len h2) with (len (pre ++ h2)%list) by (rewrite len_app; reflexivity).
  replace (pre ++ h2 ++ b0 ++ rest)%list with ((pre ++ h2) ++ b0 ++ rest)%list by (rewrite <- app_assoc; reflexivity).
  rewrite sub_app_mid. stp.
  repeat split; try reflexivity.
  intros x X1 X2 X3. rewrite !lookup_set_other by congruence. reflexivity.
Qed.

(* ================= open(mode) ================= *)
Definition mode_str (m : mode) : string := match m with MR => "r" | MA => "a" end.

Lemma len_mk_header h1 h2 b0 : List.length h1 = 16%nat -> len (mk_header h1 h2 b0) = 32 + len h2 + len b0.
Proof.
  intros H1. unfold mk_header. rewrite !len_app. replace (len h1) with 16 by (unfold len; rewrite H1; reflexivity).
  replace (len [len h2 / 256 mod 256; len h2 mod 256]) with 2 by reflexivity.
  replace (len (be32 (len b0))) with 4 by reflexivity. replace (len (repeat 0 10)) with 10 by reflexivity. lia.
Qed.

Opaque read_header_prog map_blocks_prog.

Theorem open_code fuel s h m h1 h2 b0 rest :
  (List.length (file s) < fuel)%nat ->
  file s = (mk_header h1 h2 b0 ++ rest)%list -> List.length h1 = 16%nat -> len h2 < 65536 -> len b0 < 4294967296 ->
  lookup_env (attrs s) "_toc" = Some (VToc (toc h)) -> lookup_env (attrs s) "_last" = Some (vopt_bytes (last h)) ->
  lookup_env (attrs s) "_eof" = Some (vopt_int (eof h)) -> lookup_env (attrs s) "_closed" = Some (VBool (closed h)) ->
  (closed h = false -> s_closed (strm s) = false /\ s_wr (strm s) = match md h with MA => true | MR => false end) ->
  (closed h = false -> eof h <> None) ->
  (forall k, last h = Some k -> lookup (toc h) k <> None) ->
  (lookup_env (locals s) "mode" = Some (VStr (mode_str m)) \/
   (lookup_env (locals s) "mode" = Some VNone /\ lookup_env (attrs s) "mode" = Some (VStr (mode_str m)))) ->
  let '(s', o) := exec fuel open_prog s in
  let '(f', h') := open_ (file s) h m in
  file s' = f' /\ (o = ONormal \/ o = OReturn VNone) /\ Rep s' h'.
Proof.
  intros Hfuel Hf L1 L2 L0 At Al Ae Ac As An Ain Lm0.
  destruct s as [f [p w c] at_ lo]. cbn in Hfuel, Hf, At, Al, Ae, Ac, As, An, Lm0.
  unfold open_prog, open_. cbn [file]. cbn [exec].
  assert (E1 : eval (mkst f (mks p w c) at_ lo) (ENot (EAttr "_closed")) = Val (VBool (negb (closed h)))).
  { cbn [eval attrs]. rewrite Ac. reflexivity. }
  rewrite E1. cbn [truthy].
  destruct (closed h) eqn:Ec; cbn [negb].
  2:{ (* already open: nothing happens *)
      cbn [exec eval]. split; [reflexivity|]. split; [right; reflexivity|].
      constructor; cbn [attrs strm]; try assumption; rewrite Ec; assumption. }
  assert (Tm : (match mode_str m with EmptyString => false | _ => true end) = true) by (destruct m; reflexivity).
  assert (Em : eval (mkst f (mks p w c) at_ lo) (EOr (ELocal "mode") (EAttr "mode")) = Val (VStr (mode_str m))).
  { cbn [eval attrs locals]. destruct Lm0 as [Lm|[Lm Am]]; rewrite Lm; cbn [truthy]; [rewrite Tm; reflexivity|rewrite Am; reflexivity]. }
  cbn [exec]. rewrite Em. cbn [set_attr attrs locals file strm exec eval bind_args]. rewrite !lookup_set_same.
  set (at1 := set_env at_ "mode" (VStr (mode_str m))).
  set (hm := mkh (toc h) (last h) (eof h) m false).
  assert (Main : forall wflag, wflag = match m with MA => true | MR => false end ->
    let s1 := mkst f (mks 0 wflag false) at1 lo in
    let '(sx, ox) := exec fuel read_header_prog s1 in
    ox = ONormal /\
    let '(sy, oy) := exec fuel map_blocks_prog (restore_locals sx lo) in
    let '(f', h') := map_blocks f hm in
    file sy = f' /\ (oy = ONormal \/ oy = OReturn VNone) /\
    lookup_env (attrs sy) "_toc" = Some (VToc (toc h')) /\ lookup_env (attrs sy) "_last" = Some (vopt_bytes (last h')) /\
    lookup_env (attrs sy) "_eof" = Some (vopt_int (eof h')) /\
    lookup_env (attrs sy) "_closed" = Some (VBool true) /\
    s_closed (strm sy) = false /\ s_wr (strm sy) = wflag /\ md h' = m /\ closed h' = false /\ eof h' <> None).
  { intros wflag Hw s1.
    pose proof (read_header_code fuel s1 h1 h2 b0 rest Hf L1 L2 L0 eq_refl) as RH.
    destruct (exec fuel read_header_prog s1) as [sx ox]. destruct RH as [R1 [R2 [R3 [R4 [R5 [R6 [R7 R8]]]]]]].
    split; [exact R1|].
    assert (O : Obj (restore_locals sx lo) hm h2 b0).
    { constructor; cbn [toc last eof md hm restore_locals attrs file strm].
      - rewrite R6 by discriminate. unfold s1, at1; cbn [attrs]. rewrite lookup_set_other by discriminate. exact At.
      - rewrite R6 by discriminate. unfold s1, at1; cbn [attrs]. rewrite lookup_set_other by discriminate. exact Al.
      - rewrite R6 by discriminate. unfold s1, at1; cbn [attrs]. rewrite lookup_set_other by discriminate. exact Ae.
      - exact R4.
      - exact R5.
      - rewrite R2. unfold s1; cbn [file]. rewrite Hf. rewrite (mk_header_ok h1 h2 b0 L1 L2 L0 rest). rewrite len_mk_header by exact L1. lia.
      - exact Ain.
      - split; [exact R7|]. rewrite R8. unfold s1; cbn [strm s_wr]. exact Hw. }
    assert (Hfuel' : (List.length (file (restore_locals sx lo)) < fuel)%nat) by (cbn [restore_locals file]; rewrite R2; exact Hfuel).
    pose proof (map_blocks_code fuel (restore_locals sx lo) hm h2 b0 Hfuel' O) as MB.
    destruct (exec fuel map_blocks_prog (restore_locals sx lo)) as [sy oy]. cbn [restore_locals file attrs strm] in MB. rewrite R2 in MB. unfold s1 in MB; cbn [file] in MB.
    destruct (map_blocks f hm) as [f' h'] eqn:Emb.
    destruct MB as [M1 [M2 [M3 [M4 [M5 [M6 [M7 [M8 [M9 M10]]]]]]]]].
    repeat split; try assumption.
    - rewrite M6 by discriminate. rewrite R6 by discriminate. unfold s1, at1; cbn [attrs]. rewrite lookup_set_other by discriminate. rewrite Ac. reflexivity.
    - rewrite M8, R8. reflexivity.
    - (* an opened handle has mapped its file *)
      unfold map_blocks in Emb. destruct (shortcut f hm) eqn:Esc.
      + inversion Emb; subst. unfold shortcut in Esc. cbn [eof hm] in *. destruct (eof h); [discriminate|discriminate].
      + destruct (scan (S (List.length f)) (skipn (N.to_nat (bof_of f)) f) (bof_of f) (toc hm) None) as [[t0 lk0] p0].
        cbn [md hm] in Emb. destruct m; [inversion Emb; subst; cbn; discriminate|].
        destruct (p0 <? len f); inversion Emb; subst; cbn; discriminate. }
  assert (Fin : forall wflag sy (h' : handle),
            lookup_env (attrs sy) "_toc" = Some (VToc (toc h')) -> lookup_env (attrs sy) "_last" = Some (vopt_bytes (last h')) ->
            lookup_env (attrs sy) "_eof" = Some (vopt_int (eof h')) -> s_closed (strm sy) = false -> s_wr (strm sy) = wflag ->
            wflag = match md h' with MA => true | MR => false end -> closed h' = false -> eof h' <> None ->
            Rep (set_attr sy "_closed" (VBool false)) h').
  { intros wflag sy h' M3 M4 M5 M7 M8 Hw Hc He. constructor; cbn [set_attr attrs strm].
    - rewrite lookup_set_other by discriminate. exact M3.
    - rewrite lookup_set_other by discriminate. exact M4.
    - rewrite lookup_set_other by discriminate. exact M5.
    - rewrite lookup_set_same, Hc. reflexivity.
    - intros _. split; [exact M7|]. rewrite M8. exact Hw.
    - intros _. exact He. }
  destruct m; cbn [mode_str val_eqb String.eqb Ascii.eqb Bool.eqb truthy].
  - specialize (Main false eq_refl). cbn zeta in Main.
    destruct (exec fuel read_header_prog _) as [sx ox]. destruct Main as [Ox Main]. subst ox.
    destruct (exec fuel map_blocks_prog (restore_locals sx lo)) as [sy oy]. destruct (map_blocks f hm) as [f' h'].
    destruct Main as [M1 [M2 [M3 [M4 [M5 [M6 [M7 [M8 [M9 [M10 M11]]]]]]]]]].
    destruct M2 as [M2|M2]; subst oy; (split; [exact M1|]; split; [left; reflexivity|];
      apply (Fin false); cbn [restore_locals attrs strm]; try assumption; rewrite M9; reflexivity).
  - specialize (Main true eq_refl). cbn zeta in Main.
    destruct (exec fuel read_header_prog _) as [sx ox]. destruct Main as [Ox Main]. subst ox.
    destruct (exec fuel map_blocks_prog (restore_locals sx lo)) as [sy oy]. destruct (map_blocks f hm) as [f' h'].
    destruct Main as [M1 [M2 [M3 [M4 [M5 [M6 [M7 [M8 [M9 [M10 M11]]]]]]]]]].
    destruct M2 as [M2|M2]; subst oy; (split; [exact M1|]; split; [left; reflexivity|];
      apply (Fin true); cbn [restore_locals attrs strm]; try assumption; rewrite M9; reflexivity).
Qed.

(* ================= the other spellings: h[k], h[k] = v, with h: ================= *)
Transparent read_header_prog map_blocks_prog.
Opaque get_prog put_prog open_prog close_prog.

Lemma rep_restore s h l : Rep s h -> Rep (restore_locals s l) h.
Proof. intros [A B C D E F]. constructor; assumption. Qed.

Theorem getitem_code fuel s h k :
  Rep s h -> lookup_env (locals s) "key" = Some (VBytes k) ->
  let '(s', o) := exec fuel getitem_prog s in
  file s' = file s /\ attrs s' = attrs s /\ s_wr (strm s') = s_wr (strm s) /\ s_closed (strm s') = s_closed (strm s) /\
  o = out_of_res (get (file s) h k).
Proof.
  intros R L. pose proof (get_code fuel s h k R L) as G. unfold getitem_prog. cbn [exec bind_args].
  destruct (exec fuel get_prog s) as [s1 o1]. destruct G as [G1 [G2 [G3 [G4 G5]]]].
  assert (o1 <> ONormal /\ o1 <> OBreak) as [N1 N2].
  { rewrite G5. unfold get. destruct (closed h); [|destruct (lookup (toc h) k)]; unfold out_of_res; split; discriminate. }
  destruct o1; try contradiction; cbn [restore_locals file attrs strm]; repeat split; assumption.
Qed.

Lemma put_result_kind f h k v : let '(_, _, r) := put f h k v in r = ROk \/ exists e, r = RErr e.
Proof.
  unfold put. destruct (closed h || match md h with MR => true | MA => false end); [right; eexists; reflexivity|].
  destruct (lookup (toc h) k); [right; eexists; reflexivity|].
  destruct (enc_block k v); [|right; eexists; reflexivity]. destruct (eof h); [left; reflexivity|right; eexists; reflexivity].
Qed.

Theorem setitem_code fuel s h k v :
  Rep s h -> lookup_env (locals s) "key" = Some (VBytes k) -> lookup_env (locals s) "val" = Some (VBytes v) ->
  let '(s', o) := exec fuel setitem_prog s in
  let '(f', h', r) := put (file s) h k v in
  file s' = f' /\ Rep s' h' /\ o = out_of_res r.
Proof.
  intros R Lk Lv. unfold setitem_prog. cbn [exec eval bind_args]. rewrite Lv.
  set (s0 := set_local s "value" (VBytes v)).
  assert (R0 : Rep s0 h) by (destruct R; constructor; assumption).
  assert (Lk0 : lookup_env (locals s0) "key" = Some (VBytes k)) by (unfold s0; cbn [set_local locals]; rewrite lookup_set_other by discriminate; exact Lk).
  assert (Lv0 : lookup_env (locals s0) "value" = Some (VBytes v)) by (unfold s0; cbn [set_local locals]; apply lookup_set_same).
  pose proof (put_code fuel s0 h k v R0 Lk0 Lv0) as P. change (file s0) with (file s) in P.
  pose proof (put_result_kind (file s) h k v) as K.
  destruct (exec fuel put_prog s0) as [s1 o1]. destruct (put (file s) h k v) as [[f' h'] r].
  destruct P as [P1 [P2 P3]]. subst o1.
  destruct K as [K|[e K]]; subst r; [|destruct e]; cbn [out_of_res]; (split; [exact P1|split; [apply rep_restore; exact P2|reflexivity]]).
Qed.

Theorem exit_code fuel s h :
  Rep s h -> (lookup_env (attrs s) "mode" = Some (VStr "r") \/ lookup_env (attrs s) "mode" = Some (VStr "a")) ->
  let '(s', o) := exec fuel exit_prog s in
  file s' = file s /\ Rep s' (close_ h) /\ o = ONormal.
Proof.
  intros R M. pose proof (close_code fuel s h R M) as C. unfold exit_prog. cbn [exec bind_args].
  destruct (exec fuel close_prog s) as [s1 o1]. destruct C as [C1 [C2 [C3 C4]]]. subst o1. split; [exact C1|split; [apply rep_restore; exact C2|reflexivity]].
Qed.

(* `with h:` on a closed handle object whose mode attribute is r or a: opens it exactly as open(mode) would, and hands back the object *)
Theorem enter_code fuel s h m h1 h2 b0 rest :
  (List.length (file s) < fuel)%nat ->
  file s = (mk_header h1 h2 b0 ++ rest)%list -> List.length h1 = 16%nat -> len h2 < 65536 -> len b0 < 4294967296 ->
  lookup_env (attrs s) "_toc" = Some (VToc (toc h)) -> lookup_env (attrs s) "_last" = Some (vopt_bytes (last h)) ->
  lookup_env (attrs s) "_eof" = Some (vopt_int (eof h)) -> lookup_env (attrs s) "_closed" = Some (VBool (closed h)) ->
  (closed h = false -> s_closed (strm s) = false /\ s_wr (strm s) = match md h with MA => true | MR => false end) ->
  (closed h = false -> eof h <> None) ->
  (forall k, last h = Some k -> lookup (toc h) k <> None) ->
  lookup_env (attrs s) "mode" = Some (VStr (mode_str m)) ->
  let '(s', o) := exec fuel enter_prog s in
  let '(f', h') := open_ (file s) h m in
  file s' = f' /\ o = OReturn VSelf /\ Rep s' h'.
Proof.
  intros Hfuel Hf L1 L2 L0 At Al Ae Ac As An Ain Am. unfold enter_prog. cbn [exec eval bind_args].
  set (s0 := set_local s "mode" VNone).
  assert (Lm : lookup_env (locals s0) "mode" = Some (VStr (mode_str m)) \/
               (lookup_env (locals s0) "mode" = Some VNone /\ lookup_env (attrs s0) "mode" = Some (VStr (mode_str m)))).
  { right. split; [unfold s0; cbn [set_local locals]; apply lookup_set_same|exact Am]. }
  pose proof (open_code fuel s0 h m h1 h2 b0 rest Hfuel Hf L1 L2 L0 At Al Ae Ac As An Ain Lm) as O.
  change (file s0) with (file s) in O.
  destruct (exec fuel open_prog s0) as [s1 o1]. destruct (open_ (file s) h m) as [f' h'].
  destruct O as [O1 [O2 O3]]. destruct O2 as [O2|O2]; subst o1; cbn [exec eval]; (split; [exact O1|split; [reflexivity|apply rep_restore; exact O3]]).
Qed.


(* UKVFile(path, mode) for mode r / a on an existing file: the object starts as the never-opened handle h0 and is opened *)
Theorem init_code fuel s m hh1 hh2 bb0 rest v1 v2 v0 :
  (List.length (file s) < fuel)%nat ->
  file s = (mk_header hh1 hh2 bb0 ++ rest)%list -> List.length hh1 = 16%nat -> len hh2 < 65536 -> len bb0 < 4294967296 ->
  lookup_env (locals s) "mode" = Some (VStr (mode_str m)) ->
  lookup_env (locals s) "h1" = Some v1 -> lookup_env (locals s) "h2" = Some v2 -> lookup_env (locals s) "b0" = Some v0 ->
  let '(s', o) := exec fuel init_prog s in
  let '(f', h') := open_ (file s) h0 m in
  file s' = f' /\ o = ONormal /\ Rep s' h'.
Proof.
  intros Hfuel Hf L1 L2 L0 Lm Lh1 Lh2 Lb0. unfold init_prog.
  assert (Tm : forall x, (if truthy (VBool (val_eqb (VStr (mode_str m)) (VStr "r"))) then Val (VBool (val_eqb (VStr (mode_str m)) (VStr "r"))) else x) = x \/ m = MR) by (destruct m; [right; reflexivity|left; reflexivity]).
  destruct s as [f st at_ lo]. cbn in Hfuel, Hf, Lm, Lh1, Lh2, Lb0.
  cbn [exec eval locals]. rewrite Lm.
  assert (Em : truthy (match (if truthy (VBool (val_eqb (VStr (mode_str m)) (VStr "r"))) then Val (VBool (val_eqb (VStr (mode_str m)) (VStr "r")))
                              else (if truthy (VBool (val_eqb (VStr (mode_str m)) (VStr "x"))) then Val (VBool (val_eqb (VStr (mode_str m)) (VStr "x")))
                                    else (if truthy (VBool (val_eqb (VStr (mode_str m)) (VStr "w"))) then Val (VBool (val_eqb (VStr (mode_str m)) (VStr "w")))
                                          else Val (VBool (val_eqb (VStr (mode_str m)) (VStr "a")))))) with Val v => v | Exn _ => VNone end) = true)
    by (destruct m; reflexivity).
  destruct m; cbn [mode_str val_eqb String.eqb Ascii.eqb Bool.eqb truthy exec eval locals set_attr attrs file strm];
    repeat (progress (cbn [exec eval locals set_attr attrs file strm bind_args set_local]; rewrite ?Lm, ?Lh1, ?Lh2, ?Lb0;
                      try match goal with |- context [if truthy ?v then _ else _] => destruct (truthy v) end)).
  all: match goal with |- context [exec _ open_prog ?s0] => set (sx := s0) end.
  all: match goal with |- context [open_ _ h0 ?M] =>
    assert (Hm : lookup_env (locals sx) "mode" = Some VNone /\ lookup_env (attrs sx) "mode" = Some (VStr (mode_str M)))
      by (unfold sx; cbn [set_local set_attr locals attrs]; split;
          [apply lookup_set_same | repeat (rewrite lookup_set_other by discriminate); apply lookup_set_same]);
    assert (At : lookup_env (attrs sx) "_toc" = Some (VToc (toc h0)) /\ lookup_env (attrs sx) "_last" = Some (vopt_bytes (last h0)) /\
                 lookup_env (attrs sx) "_eof" = Some (vopt_int (eof h0)) /\ lookup_env (attrs sx) "_closed" = Some (VBool (closed h0)))
      by (unfold sx; cbn [set_local set_attr locals attrs h0 toc last eof closed vopt_bytes vopt_int];
          repeat split; repeat (rewrite lookup_set_other by discriminate); apply lookup_set_same);
    destruct At as [A1 [A2 [A3 A4]]];
    pose proof (open_code fuel sx h0 M hh1 hh2 bb0 rest Hfuel Hf L1 L2 L0 A1 A2 A3 A4
                  (fun X => ltac:(discriminate X)) (fun X => ltac:(discriminate X)) (fun k X => ltac:(discriminate X))
                  (or_intror Hm)) as O;
    destruct (exec fuel open_prog sx) as [s1 o1]; change (file sx) with f in O; destruct (open_ f h0 M) as [f' h'];
    destruct O as [O1 [O2 O3]]; destruct O2 as [O2|O2]; subst o1; (split; [exact O1|split; [reflexivity|apply rep_restore; exact O3]])
  end.
Qed.

Transparent get_prog put_prog open_prog close_prog read_header_prog map_blocks_prog.
