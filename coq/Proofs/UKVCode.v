(* The code IS the model: the method bodies of molli/storage/ukvfile.py, translated on every run into terms of
   Model/MiniPy.v (Gen/UKVCode.v), run exactly as the hand-written functions of Model/UKV.v say -- for EVERY object
   state and EVERY file content, not for the sampled histories of the differential tie. *)
From Coq Require Import NArith Arith List Bool String Lia ZifyNat ZifyN.
Import ListNotations.
From Molli Require Import Model.UKV Model.MiniPy Gen.UKVCode Proofs.UKVBase.
Open Scope N_scope.
Lemma skipn_add {A} (l : list A) : forall a b, skipn a (skipn b l) = skipn (b + a) l.
Proof. induction l as [|x l IH]; intros a b; [rewrite !skipn_nil; reflexivity|]. destruct b; [reflexivity|]. simpl. apply IH. Qed.

(* two consecutive writes are one write of the concatenation *)
Lemma write_at_app (f : bytes) (e : N) (a b : bytes) :
  write_at (write_at f e a) (e + len a) b = write_at f e (a ++ b).
Proof.
  unfold write_at, len.
  set (n := N.to_nat e). set (la := List.length a). set (lb := List.length b).
  replace (N.to_nat (e + N.of_nat la)) with (n + la)%nat by lia.
  replace (N.to_nat (e + N.of_nat la + N.of_nat lb)) with (n + la + lb)%nat by lia.
  replace (N.to_nat (e + N.of_nat (List.length (a ++ b)))) with (n + la + lb)%nat by (rewrite app_length; lia).
  set (g := firstn n f ++ repeat 0 (n - List.length f) ++ a ++ skipn (n + la) f).
  assert (Lpre : List.length (firstn n f ++ repeat 0 (n - List.length f)) = n).
  { rewrite app_length, firstn_length, repeat_length. lia. }
  assert (Eg : g = (firstn n f ++ repeat 0 (n - List.length f)) ++ a ++ skipn (n + la) f) by (unfold g; rewrite <- app_assoc; reflexivity).
  assert (Lg : (n + la <= List.length g)%nat).
  { rewrite Eg, app_length, Lpre, app_length. lia. }
  replace (n + la - List.length g)%nat with 0%nat by lia. cbn [repeat app].
  assert (F : firstn (n + la) g = (firstn n f ++ repeat 0 (n - List.length f)) ++ a).
  { rewrite Eg, app_assoc. rewrite firstn_app.
    replace (List.length ((firstn n f ++ repeat 0 (n - List.length f)) ++ a)) with (n + la)%nat by (rewrite app_length, Lpre; reflexivity).
    rewrite Nat.sub_diag. cbn [firstn]. rewrite app_nil_r. apply firstn_all2. rewrite app_length, Lpre. lia. }
  assert (S : skipn (n + la + lb) g = skipn (n + la + lb) f).
  { rewrite Eg, app_assoc. rewrite skipn_app.
    replace (List.length ((firstn n f ++ repeat 0 (n - List.length f)) ++ a)) with (n + la)%nat by (rewrite app_length, Lpre; reflexivity).
    rewrite skipn_all2 by (rewrite app_length, Lpre; lia). cbn [app].
    replace (n + la + lb - (n + la))%nat with lb by lia. rewrite skipn_add. reflexivity. }
  rewrite F, S. rewrite <- !app_assoc. reflexivity.
Qed.

Open Scope string_scope.
Open Scope N_scope.

Lemma lookup_set_same e x v : lookup_env (set_env e x v) x = Some v.
Proof. unfold lookup_env, set_env. rewrite String.eqb_refl. reflexivity. Qed.
Lemma lookup_set_other e x y v : x <> y -> lookup_env (set_env e x v) y = lookup_env e y.
Proof. intros N. unfold lookup_env, set_env. destruct (String.eqb x y) eqn:E; [apply String.eqb_eq in E; congruence|reflexivity]. Qed.

Definition vopt_bytes (o : option bytes) : val := match o with Some k => VBytes k | None => VNone end.
Definition vopt_int (o : option N) : val := match o with Some k => VInt k | None => VNone end.

Record Rep (s : state) (h : handle) : Prop := {
  rep_toc : lookup_env (attrs s) "_toc" = Some (VToc (toc h));
  rep_last : lookup_env (attrs s) "_last" = Some (vopt_bytes (last h));
  rep_eof : lookup_env (attrs s) "_eof" = Some (vopt_int (eof h));
  rep_closed : lookup_env (attrs s) "_closed" = Some (VBool (closed h));
  rep_stream : closed h = false -> s_closed (strm s) = false /\ s_wr (strm s) = match md h with MA => true | MR => false end;
  rep_eof_some : closed h = false -> eof h <> None      (* an open handle has mapped its file *)
}.

Definition out_of_res (r : UKV.res) : outcome :=
  match r with
  | ROk => ONormal
  | RVal v => OReturn (VBytes v)
  | RErr EUnsupported => ORaise XUnsupported
  | RErr EKey => ORaise XKey
  | RErr EStruct => ORaise XStruct
  | _ => ORaise XOther
  end.


Arguments write_at : simpl never.
Arguments sub : simpl never.
Arguments lookup : simpl never.
Arguments update : simpl never.
Arguments len : simpl never.
Arguments N.add : simpl never.
Arguments N.ltb : simpl never.
Arguments be32 : simpl never.



Arguments lookup_env : simpl never.
Arguments set_env : simpl never.
Ltac env := cbn in *; repeat (first [rewrite lookup_set_same | rewrite lookup_set_other by discriminate]); cbn in *.

Theorem get_code fuel s h k :
  Rep s h -> lookup_env (locals s) "key" = Some (VBytes k) ->
  let '(s', o) := exec fuel get_prog s in
  file s' = file s /\ attrs s' = attrs s /\ s_wr (strm s') = s_wr (strm s) /\ s_closed (strm s') = s_closed (strm s) /\
  o = out_of_res (get (file s) h k).
Proof.
  intros R L. destruct s as [f [p w c] at_ lo]. destruct R as [Rt Rl Re Rc Rs Rn]. env.
  unfold get_prog, get. env. rewrite Rc. env.
  destruct (closed h) eqn:Ec; env; [repeat split; reflexivity|].
  rewrite Rt, L. env. destruct (lookup (toc h) k) as [r|] eqn:El; env; [|repeat split; reflexivity].
  destruct (Rs eq_refl) as [Hc Hw]. subst c. env.
  repeat split; try reflexivity. unfold r_posv. do 3 f_equal. lia.
Qed.

Theorem put_code fuel s h k v :
  Rep s h -> lookup_env (locals s) "key" = Some (VBytes k) -> lookup_env (locals s) "value" = Some (VBytes v) ->
  let '(s', o) := exec fuel put_prog s in
  let '(f', h', r) := put (file s) h k v in
  file s' = f' /\ Rep s' h' /\ o = out_of_res r.
Proof.
  intros R Lk Lv. destruct s as [f [p w c] at_ lo]. pose proof R as R0. destruct R as [Rt Rl Re Rc Rs Rn]. env.
  unfold put_prog, put. env. rewrite Rc. env.
  destruct (closed h) eqn:Ec; env; [split; [reflexivity|split; [exact R0|reflexivity]]|].
  destruct (Rs eq_refl) as [Hc Hw]. subst c. env.
  destruct (md h) eqn:Em; subst w; env; [split; [reflexivity|split; [exact R0|reflexivity]]|].
  rewrite Lk, Rt. env. destruct (lookup (toc h) k) as [r0|] eqn:El; env; [split; [reflexivity|split; [exact R0|reflexivity]]|].
  rewrite Lk, Lv. env.
  unfold enc_block, pack_blk. destruct ((len k <? 256) && (len v <? 4294967296)) eqn:Ew; env;
    [|split; [reflexivity|split; [exact R0|reflexivity]]].
  destruct (eof h) as [e|] eqn:Ee; [|exfalso; apply (Rn eq_refl); reflexivity].
  repeat (progress (rewrite ?Lk, ?Lv, ?Re, ?Rt, ?Rc; env)).
  assert (L5 : len (len k :: be32 (len v)) = 5) by reflexivity.
  split; [|split; [|reflexivity]].
  - rewrite ?write_at_app. reflexivity.
  - rewrite L5. constructor; cbn [attrs set_attr toc last eof md closed strm s_closed s_wr]; env.
    + reflexivity.
    + exact Rl.
    + rewrite len_encb. do 2 f_equal. lia.
    + exact Rc.
    + intros _. split; reflexivity.
    + intros _. discriminate.
Qed.

(* close(): the stream is closed, the handle is marked closed; "x"/"w" (creation modes, not modelled) become "a" *)
Theorem close_code fuel s h :
  Rep s h -> (lookup_env (attrs s) "mode" = Some (VStr "r") \/ lookup_env (attrs s) "mode" = Some (VStr "a")) ->
  let '(s', o) := exec fuel close_prog s in
  file s' = file s /\ Rep s' (close_ h) /\ o = ONormal /\ lookup_env (attrs s') "mode" = lookup_env (attrs s) "mode".
Proof.
  intros R M. destruct s as [f [p w c] at_ lo]. destruct R as [Rt Rl Re Rc Rs Rn]. env.
  unfold close_prog. env.
  destruct M as [M|M]; rewrite M; env; (split; [reflexivity|split; [|split; [reflexivity|exact M]]]);
    (constructor; cbn [attrs toc last eof md closed close_ strm]; env; try assumption; try reflexivity; intros X; discriminate).
Qed.

(* keys(): the keys of the table of contents *)
Theorem keys_code s h : Rep s h -> eval s keys_expr = Val (VToc (toc h)).
Proof. intros R. unfold keys_expr. cbn. rewrite (rep_toc _ _ R). reflexivity. Qed.
