(* C05 -- the spelling of optional arguments does not matter: lemmas about Model/MolEditCall.v *)
From Coq Require Import List Bool Arith ZArith NArith PArith Lia.
Import ListNotations.
From Molli Require Import Model.MolEdit Model.MolEditCall Proofs.MolEdit.

Definition q_or_0 (q : qarg) : Z := match qval q with Some t => t | None => 0%Z end.

(* an omitted charge, an explicit None (positional or keyword) are one operation; the form of a number, of a
   coordinate, keyword or positional, make no difference; same for new_atom and remove_substituent *)
Lemma spelling_irrelevant :
  (forall e l c kw, elab (CallAddAtom e l c (QNone kw)) = elab (CallAddAtom e l c QOmitted)) /\
  (forall e l f f' c nf nf' kw kw' t,
     elab (CallAddAtom e l (CGiven f c) (QNum nf kw t)) = elab (CallAddAtom e l (CGiven f' c) (QNum nf' kw' t))) /\
  (forall ef ef' e i i' l f f' kw kw' c,
     elab (CallNewAtom ef e i l (NCGiven f kw c)) = elab (CallNewAtom ef' e i' l (NCGiven f' kw' c))) /\
  (forall ef e i f kw c,
     elab (CallNewAtom ef e i LOmitted (NCGiven f kw c)) = elab (CallNewAtom ef e i (LGiven None) (NCGiven f kw c))) /\
  (forall ef e i l f kw,
     elab (CallNewAtom ef e i l NCOmitted) = elab (CallNewAtom ef e i l (NCGiven f kw origin_row))) /\
  (forall s1 s2, elab (CallRemoveSubst s1 s2 LOmitted) = elab (CallRemoveSubst s1 s2 (LGiven None))).
Proof. repeat split; reflexivity. Qed.

(* every spelled call is an operation of the alphabet: the invariant survives it, whether it returns or raises *)
Lemma call_inv_step s c s' : Inv s -> (step s (elab c) = Ok s' \/ step s (elab c) = Err s') -> Inv s'.
Proof. intros HI H. exact (inv_step s (elab c) s' HI H). Qed.

(* add_atom, however the optional charge is spelled: the call returns, the new atom is the last one, it shows the
   coordinate it was given and a NUMERIC charge -- the number that was given, 0 when none was -- and the molecule
   still satisfies the invariant (in particular: every charge is a number) *)
Lemma call_add_atom_row s e l f c q : Inv s ->
  exists s', step s (elab (CallAddAtom e l (CGiven f c) q)) = Ok s' /\ Inv s' /\
    ids s' = ids s ++ [next_a s] /\
    row_of s' (next_a s) = Some (c, if has_q s then Some (CNum (q_or_0 q)) else None).
Proof.
  intros HI. destruct (add_atom_row s e l c (qval q) HI) as [s' [H1 [H2 H3]]].
  exists s'. cbn [elab cval]. split; [exact H1|]. split.
  - apply (inv_step s (AddAtom e l (Some c) (qval q)) s' HI). left. exact H1.
  - split; [exact H2|exact H3].
Qed.

(* new_atom, with the coordinate given in any form or left out (then the row is the default [0, 0, 0]) *)
Lemma call_new_atom_row s ef e i l c : Inv s ->
  exists s', step s (elab (CallNewAtom ef e i l c)) = Ok s' /\ Inv s' /\
    ids s' = ids s ++ [next_a s] /\
    row_of s' (next_a s) = Some (ncval c, if has_q s then Some (CNum 0%Z) else None).
Proof.
  intros HI. destruct (add_atom_row s e (lval l) (ncval c) None HI) as [s' [H1 [H2 H3]]].
  exists s'. cbn [elab]. change (step s (NewAtom e (lval l) (ncval c))) with (step s (AddAtom e (lval l) (Some (ncval c)) None)).
  split; [exact H1|]. split.
  - apply (inv_step s (AddAtom e (lval l) (Some (ncval c)) None) s' HI). left. exact H1.
  - split; [exact H2|exact H3].
Qed.

(* storing the argument as is: an explicit None leaves a non-number in the charge array, whatever default the
   signature has; and with the default None (the code as first found) so does an omitted charge *)
Lemma charge_as_is_breaks dflt s e l c kw s' : has_q s = true ->
  add_atom_charge_as_is dflt s e l c (QNone kw) = Ok s' -> ~ Inv s'.
Proof.
  intros Hq H HI. unfold add_atom_charge_as_is, geom_add_atom in H.
  destruct (cval c) as [t|]; cbn [bind] in H; [|discriminate].
  injection H as H. subst s'. destruct HI as [_ [G _]]. cbn in G. rewrite Hq in G. destruct G as [_ G].
  rewrite Forall_forall in G. destruct (G CNone) as [t' Ht]; [|discriminate].
  apply in_or_app. right. left. reflexivity.
Qed.

Lemma charge_as_is_omitted_breaks s e l c s' : has_q s = true ->
  add_atom_charge_as_is None s e l c QOmitted = Ok s' -> ~ Inv s'.
Proof.
  intros Hq H HI. unfold add_atom_charge_as_is, geom_add_atom in H.
  destruct (cval c) as [t|]; cbn [bind] in H; [|discriminate].
  injection H as H. subst s'. destruct HI as [_ [G _]]. cbn in G. rewrite Hq in G. destruct G as [_ G].
  rewrite Forall_forall in G. destruct (G CNone) as [t' Ht]; [|discriminate].
  apply in_or_app. right. left. reflexivity.
Qed.

(* with the normalisation in place the as-is variant and the model agree on every number *)
Lemma charge_as_is_num dflt s e l c nf kw t :
  add_atom_charge_as_is dflt s e l c (QNum nf kw t) = mol_add_atom s e l (cval c) (qval (QNum nf kw t)).
Proof. reflexivity. Qed.
