(* C03: the chain of crashing sessions of UKVCrashChain.v IS a run of the operational model (Model/UKV.v `run`, the
   function the correspondence check drives against the real UKVFile): a history
     Open 0 MA; Put ...; Crash (|file at open| + n);  Open 0 MA; Put ...; Crash ...;  ...;  Open 0 MA
   leaves exactly the bytes  chain (H ++ blocks rs) ss.  So the chain theorems speak about the H-tied model,
   not about a second idealisation. *)
From Coq Require Import ZArith NArith List Bool Lia.
Import ListNotations.
Open Scope N_scope.
From Molli Require Import Model.UKV Proofs.UKVBase Proofs.UKV Proofs.UKVCrash Proofs.UKVCrashChain.

Definition put0 (p : kv) : op := Put 0 (fst p) (snd p).

Fixpoint puts (f : bytes) (h : handle) (ps : list kv) : bytes * handle :=
  match ps with
  | [] => (f, h)
  | p :: ps' => let '(f', h', _) := put f h (fst p) (snd p) in puts f' h' ps'
  end.

Fixpoint chain_ops (H : bytes) (rs : list kv) (ss : list (list kv * nat)) : list op :=
  match ss with
  | [] => []
  | (ps, n) :: ss' => Open 0 MA :: map put0 ps ++ Crash (len (H ++ blocks rs) + N.of_nat n)
                      :: chain_ops H (rs ++ complete n ps) ss'
  end.

Lemma wfkv_wfb p : wfkv p -> wfb (fst p) (snd p) = true.
Proof. intros [Hk Hv]. unfold wfb. apply andb_true_intro. split; apply N.ltb_lt; assumption. Qed.

Lemma puts_ok H : forall ps rs h,
  full H rs h -> closed h = false -> md h = MA -> Forall wfkv ps -> NoDup (map fst (rs ++ ps)) ->
  fst (puts (H ++ blocks rs) h ps) = H ++ blocks (rs ++ ps).
Proof.
  induction ps as [|p ps IH]; intros rs h Hf Hc Hm Hwf Hnd; simpl.
  - rewrite app_nil_r. reflexivity.
  - inversion Hwf as [|p' ps' Hp Hps]; subst.
    assert (Ha : assoc rs (fst p) = None).
    { apply assoc_none_iff. rewrite map_app in Hnd. simpl in Hnd. apply NoDup_remove_2 in Hnd.
      intros Hin. apply Hnd. apply in_or_app. left. exact Hin. }
    destruct (put_ok H rs h (fst p) (snd p) Hf Hc Hm Ha (wfkv_wfb p Hp)) as [h' [E [Hf' [Hm' Hc']]]].
    rewrite E. cbv beta iota. replace (fst p, snd p) with p in * by (destruct p; reflexivity).
    assert (Hnd2 : NoDup (map fst ((rs ++ [p]) ++ ps))) by (rewrite <- app_assoc; exact Hnd).
    rewrite (IH _ _ Hf' Hc' Hm' Hps Hnd2). rewrite <- app_assoc. reflexivity.
Qed.

Lemma run_puts : forall ps f h rest,
  snd (run (f, [h]) (map put0 ps ++ rest)) = snd (run (fst (puts f h ps), [snd (puts f h ps)]) rest).
Proof.
  induction ps as [|p ps IH]; intros f h rest; [reflexivity|].
  simpl. destruct (put f h (fst p) (snd p)) as [[f' h'] r] eqn:E. simpl.
  specialize (IH f' h' rest).
  destruct (run (f', [h']) (map put0 ps ++ rest)) as [o1 w1]. simpl in *. exact IH.
Qed.

Lemma firstn_len_app (l l' : bytes) n : firstn (N.to_nat (len l + N.of_nat n)) (l ++ l') = l ++ firstn n l'.
Proof.
  unfold len. replace (N.to_nat (N.of_nat (length l) + N.of_nat n)) with (length l + n)%nat by lia.
  apply firstn_app_2.
Qed.

Theorem run_chain H : forall ss rs g,
  hdr_ok H -> Forall wfkv (rs ++ all_puts ss) -> NoDup (map fst (rs ++ all_puts ss)) ->
  (exists h', open_ g h0 MA = (H ++ blocks rs, h') /\ full H rs h' /\ md h' = MA /\ closed h' = false) ->
  fst (snd (run (g, [h0]) (chain_ops H rs ss ++ [Open 0 MA]))) = chain (H ++ blocks rs) ss.
Proof.
  induction ss as [|[ps n] ss IH]; intros rs g Hok Hwf Hnd [h' [Eo [Hf [Hm Hc]]]].
  - simpl. rewrite Eo. reflexivity.
  - unfold all_puts in Hwf, Hnd. simpl in Hwf, Hnd. fold (all_puts ss) in Hwf, Hnd.
    destruct (chain_step_hyps rs ps n (all_puts ss) Hwf Hnd) as [Hwf' Hnd'].
    assert (Hwf1 : Forall wfkv (rs ++ ps)).
    { rewrite app_assoc in Hwf. apply Forall_app in Hwf. tauto. }
    assert (Hnd1 : NoDup (map fst (rs ++ ps))).
    { rewrite app_assoc, map_app in Hnd. eapply nodup_app_l. exact Hnd. }
    assert (Hwp : Forall wfkv ps) by (apply Forall_app in Hwf1; tauto).
    cbn [chain_ops app]. cbn [run step nth]. rewrite Eo. cbn [upd].
    match goal with |- fst (snd (let '(rs0, wf) := run ?w ?ops in _)) = _ =>
      replace (fst (snd (let '(rs0, wf) := run w ops in (ROk :: rs0, wf)))) with (fst (snd (run w ops)))
        by (destruct (run w ops); reflexivity) end.
    rewrite <- app_assoc. rewrite run_puts.
    rewrite (surjective_pairing (puts (H ++ blocks rs) h' ps)) at 1.
    rewrite (puts_ok H ps rs h' Hf Hc Hm Hwp Hnd1).
    cbn [app run step map fst]. rewrite blocks_app, (app_assoc H), firstn_len_app.
    match goal with |- fst (snd (let '(rs0, wf) := run ?w ?ops in _)) = _ =>
      replace (fst (snd (let '(rs0, wf) := run w ops in (ROk :: rs0, wf)))) with (fst (snd (run w ops)))
        by (destruct (run w ops); reflexivity) end.
    destruct (crash_reopen H rs ps n h0 MA Hok Hwf1 Hnd1 (snap_h0 H rs) eq_refl) as [h2 [E2 [Hf2 [Hm2 Hc2]]]].
    assert (Eimg : (H ++ blocks rs) ++ firstn n (blocks ps) = crash_image H rs ps n)
      by (unfold crash_image; rewrite <- app_assoc; reflexivity).
    rewrite Eimg.
    assert (Hex : exists h', open_ (crash_image H rs ps n) h0 MA = (H ++ blocks (rs ++ complete n ps), h')
                             /\ full H (rs ++ complete n ps) h' /\ md h' = MA /\ closed h' = false).
    { exists h2. split; [exact E2|]. split; [exact Hf2|]. split; [exact Hm2|exact Hc2]. }
    etransitivity; [exact (IH (rs ++ complete n ps) (crash_image H rs ps n) Hok Hwf' Hnd' Hex)|].
    cbn [chain]. unfold recover, die_after. rewrite Eimg, E2. reflexivity.
Qed.

(* from a cleanly closed file *)
Theorem run_chain_clean H ss rs :
  hdr_ok H -> Forall wfkv (rs ++ all_puts ss) -> NoDup (map fst (rs ++ all_puts ss)) ->
  fst (snd (run (H ++ blocks rs, [h0]) (chain_ops H rs ss ++ [Open 0 MA]))) = H ++ blocks (chain_records rs ss).
Proof.
  intros Hok Hwf Hnd.
  assert (Hwr : Forall wfkv (rs ++ [])) by (rewrite app_nil_r; apply Forall_app in Hwf; tauto).
  assert (Hnr : NoDup (map fst (rs ++ []))) by (rewrite app_nil_r; rewrite map_app in Hnd; eapply nodup_app_l; exact Hnd).
  destruct (crash_reopen H rs [] 0%nat h0 MA Hok Hwr Hnr (snap_h0 H rs) eq_refl) as [h' [E [Hf [Hm Hc]]]].
  unfold crash_image in E. simpl in E, Hf. rewrite !app_nil_r in E. rewrite app_nil_r in Hf.
  etransitivity; [apply (run_chain H ss rs (H ++ blocks rs) Hok Hwf Hnd); exists h'; split; [exact E|]; split; [exact Hf|]; split; [exact Hm|exact Hc]|].
  apply crash_chain; assumption.
Qed.
