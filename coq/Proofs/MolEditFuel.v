(* C05: the fuelled breadth-first search inside remove_substituent never runs out of fuel, hence no operation of
   the model ever returns OutOfFuel: the exclusion "step s o <> OutOfFuel" in the C05 theorems is vacuous and the
   `run` of a history never stops for that reason.
   Argument: every iteration pops one queue element; an element is pushed only if it is not yet in `vis`, it then
   enters `vis`, and it is an endpoint of some bond; so  |queue| + |{bond endpoints not in vis}|  drops by exactly
   one per iteration and is at most 1 + 2 * |bonds| at the start. *)
From Coq Require Import List ZArith NArith PArith Bool Lia.
Import ListNotations.
From Molli Require Import Model.MolEdit.

Definition nf (r : res) : Prop := r <> OutOfFuel.

Lemma bind_nf r f : nf r -> (forall s, nf (f s)) -> nf (bind r f).
Proof. intros Hr Hf. destruct r; simpl; try exact Hr. apply Hf. Qed.

Lemma fold_bind_nf {A} (g : A -> st -> res) : (forall x s, nf (g x s)) ->
  forall l r, nf r -> nf (fold_left (fun r x => bind r (fun s' => g x s')) l r).
Proof.
  intros Hg l. induction l as [|x l IH]; intros r Hr; simpl; [exact Hr|].
  apply IH. apply bind_nf; [exact Hr|]. intros s. apply Hg.
Qed.

Lemma conn_del_bond_nf s x y : nf (conn_del_bond s x y).
Proof. unfold conn_del_bond, nf. destruct (remove_first _ _); discriminate. Qed.

Lemma del_bonds_loop_nf tbd s : nf (del_bonds_loop tbd s).
Proof.
  unfold del_bonds_loop. apply (fold_bind_nf (fun b s' => conn_del_bond s' (b_a1 b) (b_a2 b))).
  - intros b s'. apply conn_del_bond_nf.
  - discriminate.
Qed.

Lemma pm_del_atom_nf s sl : nf (pm_del_atom s sl).
Proof. unfold pm_del_atom, nf. destruct (get_atom s sl); [destruct (remove_first _ _)|]; discriminate. Qed.

Lemma conn_del_atom_nf s sl : nf (conn_del_atom s sl).
Proof.
  unfold conn_del_atom. destruct (get_atom s sl); [|discriminate].
  apply bind_nf; [apply del_bonds_loop_nf|intros s'; apply pm_del_atom_nf].
Qed.

Lemma conn_append_bond_nf s x y : nf (conn_append_bond s x y).
Proof. unfold conn_append_bond, nf. destruct (_ && _)%bool; discriminate. Qed.

Lemma geom_add_atom_nf s e l c : nf (geom_add_atom s e l c).
Proof. unfold geom_add_atom, nf. destruct c; discriminate. Qed.

Lemma geom_del_atom_nf s sl : nf (geom_del_atom s sl).
Proof.
  unfold geom_del_atom. destruct (get_atom_index s sl); [|discriminate].
  destruct (del_nth _ _); [apply conn_del_atom_nf|discriminate].
Qed.

Lemma struct_del_atom_nf s sl : nf (struct_del_atom s sl).
Proof. unfold struct_del_atom. destruct (get_atom s sl); [apply geom_del_atom_nf|discriminate]. Qed.

Lemma mol_add_atom_nf s e l c q : nf (mol_add_atom s e l c q).
Proof. unfold mol_add_atom. apply bind_nf; [apply geom_add_atom_nf|intros s'; discriminate]. Qed.

Lemma mol_del_atom_nf s sl : nf (mol_del_atom s sl).
Proof.
  unfold mol_del_atom. destruct (get_atom_index s sl); [|discriminate].
  apply bind_nf; [apply struct_del_atom_nf|]. intros s'. destruct (del_nth _ _); discriminate.
Qed.

Lemma add_atom_nf s e l c q : nf (add_atom s e l c q).
Proof. unfold add_atom. destruct (has_q s); [apply mol_add_atom_nf|apply geom_add_atom_nf]. Qed.

Lemma del_atom_nf s sl : nf (del_atom s sl).
Proof. unfold del_atom. destruct (has_q s); [apply mol_del_atom_nf|apply struct_del_atom_nf]. Qed.

Lemma conn_connect_nf s s1 s2 : nf (conn_connect s s1 s2).
Proof.
  unfold conn_connect. destruct (get_atom s s1); [|discriminate]. destruct (get_atom s s2); [|discriminate].
  apply conn_append_bond_nf.
Qed.

Lemma append_bonds_nf s l : nf (append_bonds s l).
Proof.
  unfold append_bonds. apply (fold_bind_nf (fun p s' => conn_append_bond s' (fst p) (snd p))).
  - intros p s'. apply conn_append_bond_nf.
  - discriminate.
Qed.

Lemma add_hs_one_nf s x cs : nf (add_hs_one s x cs).
Proof.
  unfold add_hs_one. destruct (is_member s x); [|discriminate].
  apply (fold_bind_nf (fun c s' => bind (add_atom s' el_H None (Some c) None) (fun s'' => conn_append_bond s'' x (next_a s')))).
  - intros c s'. apply bind_nf; [apply add_atom_nf|intros s''; apply conn_append_bond_nf].
  - discriminate.
Qed.

Lemma add_hs_nf s l : nf (add_hs s l).
Proof.
  unfold add_hs. apply (fold_bind_nf (fun p s' => add_hs_one s' (fst p) (snd p))).
  - intros p s'. apply add_hs_one_nf.
  - discriminate.
Qed.

(* ---------------------------------------------------------------- the search *)
Definition endpoints (s : st) : list positive := flat_map (fun b => [b_a1 b; b_a2 b]) (bonds s).

Lemma endpoints_length s : length (endpoints s) = 2 * length (bonds s).
Proof. unfold endpoints. induction (bonds s) as [|b l IH]; simpl; [reflexivity|]. rewrite IH. lia. Qed.

Lemma neighbours_endpoints s x a : In a (neighbours s x) -> In a (endpoints s).
Proof.
  unfold neighbours, endpoints. intros H. apply in_map_iff in H. destruct H as [b [Hb Hin]].
  apply filter_In in Hin. destruct Hin as [Hin _]. apply in_flat_map. exists b. split; [exact Hin|].
  destruct (Pos.eqb (b_a1 b) x); subst a; simpl; auto.
Qed.

(* endpoints not yet visited *)
Definition und (E vis : list positive) : nat := length (filter (fun e => negb (mem e vis)) E).

Lemma mem_cons e a vis : mem e (a :: vis) = (Pos.eqb e a || mem e vis)%bool.
Proof. reflexivity. Qed.

Lemma und_cons_head e E vis : und (e :: E) vis = (if negb (mem e vis) then 1 else 0) + und E vis.
Proof. unfold und. cbn [filter]. destruct (negb (mem e vis)); reflexivity. Qed.

Lemma und_notin E vis a : ~ In a E -> und E (a :: vis) = und E vis.
Proof.
  intros Hn. unfold und. f_equal. apply filter_ext_in. intros e He. rewrite mem_cons.
  assert (Hne : Pos.eqb e a = false) by (apply Pos.eqb_neq; intros ->; contradiction).
  rewrite Hne. reflexivity.
Qed.

Lemma und_push E vis a : NoDup E -> In a E -> mem a vis = false -> und E (a :: vis) + 1 <= und E vis.
Proof.
  induction E as [|e E IH]; intros Hnd Hin Hm; [contradiction|].
  inversion Hnd as [|? ? Hne HndE]; subst. rewrite !und_cons_head, mem_cons.
  destruct (Pos.eqb e a) eqn:Eea.
  - apply Pos.eqb_eq in Eea. subst e. rewrite Hm. cbn [orb negb]. rewrite (und_notin E vis a Hne). lia.
  - cbn [orb]. destruct Hin as [->|Hin]; [rewrite Pos.eqb_refl in Eea; discriminate|].
    specialize (IH HndE Hin Hm). destruct (negb (mem e vis)); lia.
Qed.

Lemma fold_visit_measure E : NoDup E -> forall nb, (forall a, In a nb -> In a E) ->
  forall vis q out, let '(vis', q', _) := fold_left bfs_visit nb (vis, q, out) in
                    length q' + und E vis' <= length q + und E vis.
Proof.
  intros Hnd nb. induction nb as [|a nb IH]; intros Hin vis q out; simpl; [lia|].
  destruct (mem a vis) eqn:Em.
  - apply IH. intros b Hb. apply Hin. right. exact Hb.
  - specialize (IH (fun b Hb => Hin b (or_intror Hb)) (a :: vis) (q ++ [a]) (a :: out)).
    destruct (fold_left bfs_visit nb (a :: vis, q ++ [a], a :: out)) as [[vis' q'] out'].
    rewrite app_length in IH. simpl in IH.
    pose proof (und_push E vis a Hnd (Hin a (or_introl eq_refl)) Em). lia.
Qed.

Lemma bfs_loop_total s E : NoDup E -> (forall x a, In a (neighbours s x) -> In a E) ->
  forall fuel vis q out, length q + und E vis <= fuel -> bfs_loop fuel s vis q out <> None.
Proof.
  intros Hnd Hnb fuel. induction fuel as [|f IH]; intros vis q out Hm.
  - destruct q; simpl in *; [discriminate|lia].
  - destruct q as [|x q']; simpl; [discriminate|].
    pose proof (fold_visit_measure E Hnd (neighbours s x) (Hnb x) vis q' out) as M.
    destruct (fold_left bfs_visit (neighbours s x) (vis, q', out)) as [[vis' q''] out'].
    apply IH. simpl in Hm. lia.
Qed.

Lemma filter_length_le' {A} (p : A -> bool) l : length (filter p l) <= length l.
Proof. induction l as [|x l IH]; simpl; [lia|]. destruct (p x); simpl; lia. Qed.

(* the fuel remove_substituent provides is always enough *)
Theorem bfs_fuel_sufficient s vis out a : bfs_loop (bfs_fuel s) s vis [a] out <> None.
Proof.
  set (E := nodup Pos.eq_dec (endpoints s)).
  apply (bfs_loop_total s E).
  - apply NoDup_nodup.
  - intros x b Hb. apply nodup_In. apply (neighbours_endpoints s x b Hb).
  - unfold bfs_fuel, und. simpl.
    pose proof (filter_length_le' (fun e => negb (mem e vis)) E).
    assert (length E <= length (endpoints s)).
    { apply NoDup_incl_length; [apply NoDup_nodup|]. intros z Hz. apply nodup_In in Hz. exact Hz. }
    rewrite endpoints_length in *. lia.
Qed.

Lemma remove_substituent_nf s s1 s2 l : nf (remove_substituent s s1 s2 l).
Proof.
  unfold remove_substituent. destruct (get_atom s s1) as [a1|]; [|discriminate].
  destruct (get_atom s s2) as [a2|]; [|discriminate].
  destruct (get_atom_index s (ByObj (a_id a2))); [|discriminate].
  destruct (nth_error (coords s) n); [|discriminate].
  destruct (mem (a_id a2) (neighbours s (a_id a1))); [|discriminate].
  destruct (bfs_loop (bfs_fuel s) s [a_id a2; a_id a1] [a_id a2] [a_id a2]) as [o|] eqn:Eb.
  - apply bind_nf.
    + apply (fold_bind_nf (fun x s' => del_atom s' (ByObj x))); [intros x s'; apply del_atom_nf|discriminate].
    + intros s'. apply bind_nf; [apply add_atom_nf|intros s''; apply conn_connect_nf].
  - exfalso. exact (bfs_fuel_sufficient s _ _ _ Eb).
Qed.

(* no operation of the edit model ever reports exhausted fuel *)
Theorem step_never_out_of_fuel s o : step s o <> OutOfFuel.
Proof.
  destruct o; simpl.
  - apply add_atom_nf.
  - apply add_atom_nf.
  - apply del_atom_nf.
  - apply conn_connect_nf.
  - apply conn_append_bond_nf.
  - apply append_bonds_nf.
  - apply conn_del_bond_nf.
  - apply remove_substituent_nf.
  - apply add_hs_nf.
Qed.
