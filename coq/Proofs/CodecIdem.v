(* C01: storing what was read back changes nothing further -- msgpack normalisation is idempotent, so one
   round trip reaches a fixpoint of the codec (read -> store into another library -> read = the first read). *)
From Coq Require Import ZArith NArith List Bool String.
Import ListNotations.
From Molli Require Import Model.Codec Proofs.Codec.

Fixpoint mnorm_idem (v : val) : mnorm (mnorm v) = mnorm v.
Proof.
  destruct v as [| b | z | s | b | bits | d s | l | l | kv | dt xs]; cbn [mnorm]; try reflexivity.
  - f_equal. rewrite map_map. induction l as [|x l IH]; cbn [map]; [reflexivity|].
    f_equal; [apply mnorm_idem|exact IH].
  - f_equal. rewrite map_map. induction l as [|x l IH]; cbn [map]; [reflexivity|].
    f_equal; [apply mnorm_idem|exact IH].
  - f_equal. rewrite map_map. induction kv as [|[k x] kv IH]; cbn [map]; [reflexivity|].
    f_equal; [f_equal; apply mnorm_idem|exact IH].
Qed.

Lemma mnorm_atom_idem a : mnorm_atom (mnorm_atom a) = mnorm_atom a.
Proof. unfold mnorm_atom, abuild. cbn [aget a_element a_isotope a_label a_atype a_stereo a_geom a_fcharge a_fspin a_attrib].
  rewrite !mnorm_idem. reflexivity. Qed.

Lemma mnorm_bond_idem b : mnorm_bond (mnorm_bond b) = mnorm_bond b.
Proof. unfold mnorm_bond. cbn [b_a1 b_a2 b_label b_btype b_stereo b_forder b_attrib]. rewrite !mnorm_idem. reflexivity. Qed.

Theorem mnorm_obj_idem o : mnorm_obj (mnorm_obj o) = mnorm_obj o.
Proof.
  unfold mnorm_obj. cbn [o_name o_charge o_mult o_attrib o_atoms o_bonds o_nconf o_coords o_charges o_weights].
  rewrite !mnorm_idem, !map_map.
  f_equal; apply map_ext; intros x; [apply mnorm_atom_idem|apply mnorm_bond_idem].
Qed.

(* what a round trip returns is msgpack-stable: a second round trip returns it unchanged *)
Theorem mnorm_obj_stable o : msgpack_stable (mnorm_obj o).
Proof. exact (mnorm_obj_idem o). Qed.

(* ---- what a round trip returns is again a well-formed, storable object ---- *)
Lemma forallb_map' {A B} (f : A -> B) (p : B -> bool) l : forallb p (map f l) = forallb (fun x => p (f x)) l.
Proof. induction l as [|x l IH]; cbn [map forallb]; [reflexivity|]. rewrite IH. reflexivity. Qed.

Fixpoint storable_mnorm (v : val) : storable (mnorm v) = true.
Proof.
  destruct v as [| b | z | s | b | bits | d s | l | l | kv | dt xs]; cbn [mnorm storable]; try reflexivity.
  - rewrite forallb_map'. induction l as [|x l IH]; cbn [forallb]; [reflexivity|]. rewrite storable_mnorm, IH. reflexivity.
  - rewrite forallb_map'. induction l as [|x l IH]; cbn [forallb]; [reflexivity|]. rewrite storable_mnorm, IH. reflexivity.
  - induction kv as [|[k x] kv IH]; cbn [map forallb]; [reflexivity|]. rewrite !storable_mnorm, IH. reflexivity.
Qed.

Lemma is_str_mnorm v : is_str (mnorm v) = is_str v.  Proof. destruct v; reflexivity. Qed.
Lemma is_int_mnorm v : is_int (mnorm v) = is_int v.  Proof. destruct v; reflexivity. Qed.
Lemma is_nz_mnorm v : is_nonzero_int (mnorm v) = is_nonzero_int v.  Proof. destruct v; reflexivity. Qed.
Lemma is_map_mnorm v : is_map (mnorm v) = is_map v.  Proof. destruct v; reflexivity. Qed.

Lemma storable_atom_mnorm a : storable_atom (mnorm_atom a) = true.
Proof. unfold storable_atom, mnorm_atom, abuild. cbn [forallb aget a_element a_isotope a_label a_atype a_stereo a_geom a_fcharge a_fspin a_attrib].
  rewrite !storable_mnorm. reflexivity. Qed.

Lemma storable_bond_mnorm b : storable_bond (mnorm_bond b) = true.
Proof. unfold storable_bond, mnorm_bond. cbn [forallb bget b_label b_btype b_stereo b_forder b_attrib].
  rewrite !storable_mnorm. reflexivity. Qed.

Theorem wf_obj_mnorm ens o : wf_obj ens o -> wf_obj ens (mnorm_obj o).
Proof.
  unfold wf_obj, wf_objb. intros Hw.
  repeat (apply andb_prop in Hw; let H2 := fresh "H" in destruct Hw as [Hw H2]).
  unfold mnorm_obj at 1 2 3 4 5 6 7.
  cbn [o_name o_charge o_mult o_attrib o_atoms o_bonds].
  rewrite is_str_mnorm, is_int_mnorm, is_nz_mnorm, is_map_mnorm, map_length, !forallb_map'.
  repeat (apply andb_true_intro; split); try assumption; try apply storable_mnorm.
  all: try (unfold mnorm_obj; cbn [o_atoms o_bonds]; apply forallb_forall; intros x Hx; apply in_map_iff in Hx; destruct Hx as [y [<- _]];
            first [apply storable_atom_mnorm | apply storable_bond_mnorm]).
  all: try (unfold wf_shapeb, mnorm_obj in *; cbn [o_atoms o_nconf o_coords o_charges o_weights] in *; rewrite map_length; assumption).
  match goal with Ha : forallb wf_atomb _ = true |- _ => rewrite forallb_forall in Ha; apply forallb_forall; intros a Hin;
      specialize (Ha a Hin); unfold wf_atomb, mnorm_atom, abuild in *; cbn [a_element aget]; rewrite valid_element_mnorm; exact Ha end.
Qed.
