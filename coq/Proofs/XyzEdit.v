(* C08: write / edit / write sessions (every write reads back as the state at the time of that write, whatever
   was written or edited before), and the path-sensitive unit law for the reader loops. *)
From Coq Require Import List Bool Arith NArith ZArith QArith Ascii String Lia.
From Molli Require Import Common.ParseStr Model.Parse Model.XyzText Model.XyzEdit Proofs.Parse Proofs.XyzText.
Import ListNotations.
Local Open Scope list_scope.

(* ================================================================= sessions *)
Theorem xyz_session_roundtrip names syms : vocab_ok names syms = true -> forall steps e,
  Forall2 (fun out exp => forall ls, out = Some ls -> exists ms, exp = Some ms /\ load_xyz names ls = Ok ms)
          (run_session syms e steps) (session_expect e steps).
Proof.
  intros Hv. induction steps as [|s steps IH]; intros e; cbn [run_session session_expect]; [constructor|].
  destruct s as [o| |k].
  - apply IH.
  - constructor; [|apply IH]. intros ls H. eexists. split; [reflexivity|].
    unfold write_ens in H. now apply (xyz_roundtrip names syms).
  - constructor; [|apply IH]. intros ls H. unfold write_frame in H.
    destruct (nth_error (we_frames e) k) as [f|]; [|discriminate]. cbn [option_map].
    eexists. split; [reflexivity|]. now apply (xyz_roundtrip names syms _ _ Hv) in H.
Qed.

(* the two sides of a session have one entry per write *)
Lemma session_lengths syms steps : forall e, List.length (run_session syms e steps) = List.length (session_expect e steps).
Proof. induction steps as [|s steps IH]; intros e; [reflexivity|]. destruct s; cbn [run_session session_expect]; simpl; auto. Qed.

(* ---------------------------------------------------------------- an edit is visible in the next write *)
Definition wf_ens (e : wens) : Prop := Forall (fun f => List.length f = List.length (we_elems e)) (we_frames e).

Lemma upd_nth_length {A} i (x : A) l : List.length (upd_nth i x l) = List.length l.
Proof. revert i. induction l as [|y l IH]; intros [|i]; simpl; auto. Qed.
Lemma upd_nth_same {A} i (x : A) l : (i < List.length l)%nat -> nth_error (upd_nth i x l) i = Some x.
Proof. revert i. induction l as [|y l IH]; intros [|i] H; simpl in *; try lia; [reflexivity|]. apply IH. lia. Qed.
Lemma upd_nth_other {A} i j (x : A) l : j <> i -> nth_error (upd_nth i x l) j = nth_error l j.
Proof.
  revert i j. induction l as [|y l IH]; intros [|i] [|j] H; simpl; try reflexivity; try contradiction.
  apply IH. intros E. apply H. now subst.
Qed.
Lemma drop_nth_length {A} i (l : list A) : (i < List.length l)%nat -> S (List.length (drop_nth i l)) = List.length l.
Proof. revert i. induction l as [|y l IH]; intros [|i] H; simpl in *; try lia. rewrite IH; lia. Qed.

Lemma wf_set_elem e i z : wf_ens e -> wf_ens (apply_wop (WSetElem i z) e).
Proof. unfold wf_ens. cbn [apply_wop we_elems we_frames]. now rewrite upd_nth_length. Qed.
Lemma wf_add_atom e z p : wf_ens e -> wf_ens (apply_wop (WAddAtom z p) e).
Proof.
  unfold wf_ens. cbn [apply_wop we_elems we_frames]. intros H. apply Forall_map.
  eapply Forall_impl; [|exact H]. intros f Hf. unfold trip in *. cbn beta in *. rewrite !app_length. simpl. lia.
Qed.
Lemma wf_del_atom e i : (i < List.length (we_elems e))%nat -> wf_ens e -> wf_ens (apply_wop (WDelAtom i) e).
Proof.
  unfold wf_ens. cbn [apply_wop we_elems we_frames]. intros Hi H. apply Forall_map.
  eapply Forall_impl; [|exact H]. intros f Hf. unfold trip in *. cbn beta in *.
  pose proof (drop_nth_length i f) as A. pose proof (drop_nth_length i (we_elems e) Hi) as B. rewrite Hf in A. specialize (A Hi). lia.
Qed.

Lemma ens_geoms_elems e : wf_ens e -> Forall (fun m => m_elems m = we_elems e) (map geom_mol (ens_geoms e)).
Proof.
  unfold wf_ens, ens_geoms. intros H. rewrite map_map. apply Forall_map. eapply Forall_impl; [|exact H].
  intros f Hf. cbn beta. now apply frame_elems.
Qed.

(* whatever the object wrote before: once atom i has been given element z, every frame of the next write reads
   back with z at position i and the other elements where they were *)
Theorem xyz_edit_then_write names syms e i z ls : vocab_ok names syms = true -> wf_ens e ->
  (i < List.length (we_elems e))%nat -> write_ens syms (apply_wop (WSetElem i z) e) = Some ls ->
  exists ms, load_xyz names ls = Ok ms /\ List.length ms = List.length (we_frames e) /\
             Forall (fun m => nth_error (m_elems m) i = Some z /\
                              forall j, j <> i -> nth_error (m_elems m) j = nth_error (we_elems e) j) ms.
Proof.
  intros Hv Hw Hi H. set (e' := apply_wop (WSetElem i z) e) in *.
  exists (map geom_mol (ens_geoms e')). split; [now apply (xyz_roundtrip names syms)|]. split.
  - unfold ens_geoms. now rewrite !map_length.
  - pose proof (ens_geoms_elems e' (wf_set_elem e i z Hw)) as HE. eapply Forall_impl; [|exact HE].
    intros m Hm. cbn beta in Hm. rewrite Hm. subst e'. cbn [apply_wop we_elems]. split.
    + now apply upd_nth_same.
    + intros j Hj. now apply upd_nth_other.
Qed.

(* ================================================================= reader tail *)
Lemma run_tail_ext k t : conds_lt k t = true -> forall env1 env2, (forall c, (c < k)%nat -> env1 c = env2 c) ->
  forall n, run_tail env1 t n = run_tail env2 t n.
Proof.
  induction t as [|r IH|r IH| |c a IHa b IHb]; intros Hc env1 env2 He n; cbn [run_tail conds_lt] in *; try reflexivity.
  - now apply IH.
  - f_equal. now apply IH.
  - apply andb_prop in Hc. destruct Hc as [Hc Hb]. apply andb_prop in Hc. destruct Hc as [Hc Ha].
    apply Nat.ltb_lt in Hc. rewrite (He c Hc). destruct (env2 c); [now apply IHa|now apply IHb].
Qed.

Lemma envs_complete k : forall env : nat -> bool, In (map env (seq 0 k)) (envs k).
Proof.
  induction k as [|k IH]; intros env; [now left|].
  cbn [seq map envs]. rewrite <- seq_shift, map_map. apply in_or_app.
  specialize (IH (fun c => env (S c))). destruct (env 0%nat).
  - left. now apply in_map.
  - right. now apply in_map.
Qed.

Lemma env_of_map env k c : (c < k)%nat -> env_of (map env (seq 0 k)) c = env c.
Proof.
  intros H. unfold env_of. rewrite (nth_indep _ false (env 0%nat)) by (now rewrite map_length, seq_length).
  rewrite map_nth. f_equal. now rewrite seq_nth.
Qed.

(* decided on the finitely many valuations, true for every valuation *)
Theorem tail_ok_all k t : tail_ok k t = true -> forall (env : nat -> bool) n, In n (run_tail env t 0) -> n = 1%nat.
Proof.
  unfold tail_ok. intros H env n Hn. apply andb_prop in H. destruct H as [H _]. apply andb_prop in H. destruct H as [Hc Hf].
  rewrite forallb_forall in Hf. specialize (Hf _ (envs_complete k env)).
  rewrite (run_tail_ext k t Hc env (env_of (map env (seq 0 k)))) in Hn by (intros c Hlt; now rewrite env_of_map).
  rewrite forallb_forall in Hf. specialize (Hf _ Hn). apply Nat.eqb_eq in Hf. now subst.
Qed.
Lemma tail_ok_yields k t : tail_ok k t = true -> exists (env : nat -> bool), run_tail env t 0 <> [].
Proof.
  unfold tail_ok. intros H. apply andb_prop in H. destruct H as [_ H]. apply existsb_exists in H. destruct H as [l [_ Hl]].
  exists (env_of l). destruct (run_tail (env_of l) t 0); [discriminate|discriminate].
Qed.

(* ---------------------------------------------------------------- path-sensitive unit law over R *)
From Coq Require Import Reals Qreals Lra.
Local Open Scope R_scope.

Definition read_coord_nR : sexpr -> bool -> R -> nat -> R -> R := read_coord_n Rmult Rdiv Q2R.

Lemma read_coord_once e ang v c : read_coord_nR e ang v 1 c = read_coordR e ang v c.
Proof. reflexivity. Qed.

(* on EVERY path of the loop body (every valuation of its conditions: charge-type header, target class with or
   without per-atom charges, ...) the object that is yielded carries coordinates in Angstrom *)
Theorem units_law_paths e k t (r : unit_row) : row_ok e r = true -> tail_ok k t = true ->
  forall (env : nat -> bool) n, In n (run_tail env t 0) -> forall c : R,
  read_coord_nR e (snd r) (Q2R (snd (fst r))) n (Q2R (snd (fst r)) * c) = c.
Proof.
  intros Hr Ht env n Hn c. rewrite (tail_ok_all k t Ht env n Hn), read_coord_once. now apply units_law.
Qed.

(* the early-exit defect as a refutation: a path that yields before the scale statement breaks the law *)
Lemma units_law_refuted_by_early_yield :
  let t := TIf 0 (TYield TStop) (TScale (TYield TEnd)) in
  tail_ok 1 t = false /\
  exists v c : R, v <> 0 /\ In 0%nat (run_tail (fun _ => true) t 0) /\
                  read_coord_nR (SDiv (SConst 1) SVal) false v 0 (v * c) <> c.
Proof.
  split; [reflexivity|]. exists 2, 1. split; [lra|]. split; [now left|].
  unfold read_coord_nR, read_coord_n. simpl. lra.
Qed.
