(* C14 -- lemmas about Model/Ens.v: the rectangularity invariant over every operation and history, the lens
   laws of the Conformer view, the iteration theorems, dump / io round trip of rectangular ensembles. *)
From Coq Require Import List Bool Arith ZArith Lia ZifyBool Sorted FinFun.
Import ListNotations.
From Molli Require Import Model.Ens.

(* ------------------------------------------------------------------ the invariant *)
Definition Rect (e : ens) : Prop :=
  length (charges e) = length (coords e) /\ length (weights e) = length (coords e) /\
  Forall (fun r => length r = na e) (coords e) /\ Forall (fun r => length r = na e) (charges e).

Definition StoreRect (W : store) : Prop := Forall Rect (enss W).

(* ------------------------------------------------------------------ lists *)
Lemma Forall_repeat {A} (P : A -> Prop) x k : P x -> Forall P (repeat x k).
Proof. intros H. induction k; simpl; constructor; auto. Qed.

Lemma set_nth_length {A} k (x : A) l : length (set_nth k x l) = length l.
Proof. revert k; induction l as [|y l IH]; intros [|k]; simpl; auto. Qed.

Lemma nth_error_set_nth_eq {A} k (x : A) l : k < length l -> nth_error (set_nth k x l) k = Some x.
Proof.
  revert k; induction l as [|y l IH]; intros [|k] H; simpl in *; try lia; auto; try (apply IH; lia).
Qed.

Lemma nth_error_set_nth_neq {A} k j (x : A) l : j <> k -> nth_error (set_nth k x l) j = nth_error l j.
Proof.
  revert k j; induction l as [|y l IH]; intros [|k] [|j] H; simpl in *; auto; try lia; try (apply IH; lia).
Qed.

Lemma Forall_set_nth {A} (P : A -> Prop) k x l : Forall P l -> P x -> Forall P (set_nth k x l).
Proof.
  intros Hl Hx. revert k; induction Hl as [|y l Hy Hl IH]; intros [|k]; simpl; constructor; auto.
Qed.

Lemma set_nth_same {A} k (x : A) l : nth_error l k = Some x -> set_nth k x l = l.
Proof.
  revert k; induction l as [|y l IH]; intros [|k] H; simpl in *; try discriminate; auto.
  - congruence.
  - f_equal; auto.
Qed.

Lemma zipw_length {A B C} (f : A -> B -> C) l1 l2 : length l1 = length l2 -> length (zipw f l1 l2) = length l2.
Proof.
  revert l2; induction l1 as [|a l1 IH]; intros [|b l2] H; simpl in *; try discriminate; auto.
Qed.

Lemma Forall_zipw {A B C} (P : C -> Prop) (Q : B -> Prop) (f : A -> B -> C) l1 l2 :
  (forall a b, Q b -> P (f a b)) -> Forall Q l2 -> Forall P (zipw f l1 l2).
Proof.
  intros Hf Hq. revert l1; induction Hq as [|b l2 Hb Hq IH]; intros [|a l1]; simpl; constructor; auto.
Qed.

Lemma py_index_lt len i j : py_index len i = Some j -> j < len.
Proof.
  unfold py_index. intros H.
  destruct (0 <=? i)%Z eqn:E1.
  - destruct (i <? Z.of_nat len)%Z eqn:E2; inversion H; subst. lia.
  - destruct (- Z.of_nat len <=? i)%Z eqn:E3; inversion H; subst. lia.
Qed.

Lemma py_index_nat len j : j < len -> py_index len (Z.of_nat j) = Some j.
Proof.
  intros H. unfold py_index.
  destruct (0 <=? Z.of_nat j)%Z eqn:E1; [|lia].
  destruct (Z.of_nat j <? Z.of_nat len)%Z eqn:E2; [|lia]. f_equal. lia.
Qed.

Lemma lens_forallb {A} (a : nat) (l : list (list A)) :
  forallb (fun r => length r =? a) l = true <-> Forall (fun r => length r = a) l.
Proof.
  rewrite forallb_forall, Forall_forall. split; intros H x Hx.
  - apply Nat.eqb_eq; auto.
  - apply Nat.eqb_eq; auto.
Qed.

Lemma shape2_spec {A} k a (v : list (list A)) :
  shape2 k a v = true <-> length v = k /\ Forall (fun r => length r = a) v.
Proof.
  unfold shape2. rewrite andb_true_iff, Nat.eqb_eq, lens_forallb. tauto.
Qed.

(* ---- rows *)
Lemma upd_row_spec {A} k f (l l' : list (list A)) : upd_row k f l = Some l' ->
  exists j r r', py_index (length l) k = Some j /\ nth_error l j = Some r /\ f r = Some r' /\ l' = set_nth j r' l.
Proof.
  unfold upd_row. intros H.
  destruct (py_index (length l) k) as [j|] eqn:E1; [|discriminate].
  destruct (nth_error l j) as [r|] eqn:E2; [|discriminate].
  destruct (f r) as [r'|] eqn:E3; [|discriminate].
  inversion H; subst. eauto 8.
Qed.

Lemma upd_row_some {A} k f (l : list (list A)) j r r' :
  py_index (length l) k = Some j -> nth_error l j = Some r -> f r = Some r' -> upd_row k f l = Some (set_nth j r' l).
Proof. unfold upd_row. intros -> -> ->. reflexivity. Qed.

Lemma get_row_spec {A} k (l : list (list A)) r :
  get_row k l = Some r <-> exists j, py_index (length l) k = Some j /\ nth_error l j = Some r.
Proof.
  unfold get_row. destruct (py_index (length l) k) as [j|]; split.
  - eauto.
  - intros [j' [E H]]. inversion E; subst; auto.
  - discriminate.
  - intros [j' [E _]]. discriminate.
Qed.

Lemma set_elem_length {A} a (x : A) r r' : set_elem a x r = Some r' -> length r' = length r.
Proof.
  unfold set_elem. destruct (py_index (length r) a); intros H; inversion H; subst. apply set_nth_length.
Qed.

(* the generic lens facts about one array: writing row k makes row k read back as written, leaves every
   other row alone and keeps the number of rows *)
Lemma upd_row_length {A} k f (l l' : list (list A)) : upd_row k f l = Some l' -> length l' = length l.
Proof. intros H. apply upd_row_spec in H as (j & r & r' & _ & _ & _ & ->). apply set_nth_length. Qed.

Lemma upd_row_get_same {A} k f (l l' : list (list A)) : upd_row k f l = Some l' ->
  exists r, get_row k l = Some r /\ get_row k l' = f r.
Proof.
  intros H. apply upd_row_spec in H as (j & r & r' & E1 & E2 & E3 & ->).
  exists r. split.
  - apply get_row_spec; eauto.
  - rewrite E3. apply get_row_spec. exists j. rewrite set_nth_length. split; auto.
    apply nth_error_set_nth_eq. eapply py_index_lt; eauto.
Qed.

Lemma upd_row_get_other {A} k k' f (l l' : list (list A)) : upd_row k f l = Some l' ->
  py_index (length l) k' <> py_index (length l) k -> get_row k' l' = get_row k' l.
Proof.
  intros H Hne. apply upd_row_spec in H as (j & r & r' & E1 & E2 & E3 & ->).
  unfold get_row. rewrite set_nth_length.
  destruct (py_index (length l) k') as [j'|] eqn:E; auto.
  apply nth_error_set_nth_neq. congruence.
Qed.

Lemma upd_row_Forall {A} (a : nat) k f (l l' : list (list A)) :
  (forall r r', length r = a -> f r = Some r' -> length r' = a) ->
  Forall (fun r => length r = a) l -> upd_row k f l = Some l' -> Forall (fun r => length r = a) l'.
Proof.
  intros Hf Hl H. apply upd_row_spec in H as (j & r & r' & E1 & E2 & E3 & ->).
  apply Forall_set_nth; auto. eapply Hf; eauto.
  rewrite Forall_forall in Hl. apply Hl. eapply nth_error_In; eauto.
Qed.

(* ------------------------------------------------------------------ Rect: constructors *)
Lemma Rect_alloc k a : Rect (alloc k a).
Proof.
  unfold Rect, alloc; simpl. rewrite !repeat_length. repeat split.
  - apply Forall_repeat. apply repeat_length.
  - apply Forall_repeat. apply repeat_length.
Qed.

Lemma rect_b_iff e : rect_b e = true <-> Rect e.
Proof.
  unfold rect_b, Rect. rewrite !andb_true_iff, !Nat.eqb_eq, !lens_forallb. tauto.
Qed.

Lemma set_all_coords_rect v e e' : Rect e -> set_all_coords v e = Some e' -> Rect e'.
Proof.
  unfold set_all_coords. intros (H1 & H2 & H3 & H4) H.
  destruct (shape2 _ _ v) eqn:E; inversion H; subst. apply shape2_spec in E as [E1 E2].
  unfold Rect; simpl. repeat split; auto; congruence.
Qed.

Lemma set_all_charges_rect v e e' : Rect e -> set_all_charges v e = Some e' -> Rect e'.
Proof.
  unfold set_all_charges. intros (H1 & H2 & H3 & H4) H.
  destruct (shape2 _ _ v) eqn:E; inversion H; subst. apply shape2_spec in E as [E1 E2].
  unfold Rect; simpl. repeat split; auto; congruence.
Qed.

Lemma set_all_weights_rect v e e' : Rect e -> set_all_weights v e = Some e' -> Rect e'.
Proof.
  unfold set_all_weights. intros (H1 & H2 & H3 & H4) H.
  destruct (length v =? _) eqn:E; inversion H; subst. apply Nat.eqb_eq in E.
  unfold Rect; simpl. repeat split; auto; congruence.
Qed.

Lemma opt_apply_rect {A} (x : option A) f e e' :
  (forall v e e', Rect e -> f v e = Some e' -> Rect e') -> Rect e -> opt_apply x f e = Some e' -> Rect e'.
Proof.
  intros Hf He H. destruct x as [v|]; simpl in H.
  - eapply Hf; eauto.
  - inversion H; subst; auto.
Qed.

Lemma init_base_rect W src k a e : StoreRect W -> init_base W src k a = CSome e -> Rect e.
Proof.
  intros HW H. destruct src as [|a'|gs|j|g]; cbn [init_base] in H.
  - inversion H; subst. apply Rect_alloc.
  - inversion H; subst. apply Rect_alloc.
  - destruct (all_some (map (resolve W) gs)) as [[|[c0 q0] rest]|] eqn:E; try discriminate.
    + inversion H; subst. apply Rect_alloc.
    + destruct (all_some (map snd ((c0, q0) :: rest))) as [qs|] eqn:E2; try discriminate.
      destruct (set_all_charges qs _) as [e1|] eqn:E3; try discriminate.
      destruct (set_all_coords _ e1) as [e2|] eqn:E4; try discriminate.
      inversion H; subst.
      eapply set_all_coords_rect; [|eauto]. eapply set_all_charges_rect; [|eauto]. apply Rect_alloc.
  - destruct (nth_error (enss W) j) as [o|] eqn:E; inversion H; subst.
    assert (Ho : Rect o). { unfold StoreRect in HW. rewrite Forall_forall in HW. apply HW. eapply nth_error_In; eauto. }
    destruct Ho as (H1 & H2 & H3 & H4). unfold Rect; simpl. auto.
  - destruct (resolve W g) as [[c [q|]]|]; try discriminate.
    + destruct k as [[|k']|]; try discriminate; inversion H; subst; apply Rect_alloc.
    + inversion H; subst. apply Rect_alloc.
Qed.

Lemma init_rect W src k a xc xq xw e : StoreRect W -> init W src k a xc xq xw = CSome e -> Rect e.
Proof.
  intros HW H. unfold init in H.
  destruct (init_base W src k a) as [e0| |] eqn:E0; try discriminate.
  destruct (opt_apply xc set_all_coords e0) as [e1|] eqn:E1; try discriminate.
  destruct (opt_apply xq set_all_charges e1) as [e2|] eqn:E2; try discriminate.
  destruct (opt_apply xw set_all_weights e2) as [e3|] eqn:E3; try discriminate.
  inversion H; subst.
  eapply opt_apply_rect; [apply set_all_weights_rect| |eauto].
  eapply opt_apply_rect; [apply set_all_charges_rect| |eauto].
  eapply opt_apply_rect; [apply set_all_coords_rect| |eauto].
  eapply init_base_rect; eauto.
Qed.

Lemma ser_roundtrip_rect W e0 e : StoreRect W -> ser_roundtrip W e0 = CSome e -> Rect e.
Proof.
  intros HW H. unfold ser_roundtrip in H.
  destruct (reshape _ _ (concat (coords e0))); try discriminate.
  destruct (reshape _ _ (concat (charges e0))); try discriminate.
  eapply init_rect; eauto.
Qed.

(* ------------------------------------------------------------------ Rect: every operation on one ensemble *)
Lemma map_coords_rect f e : Rect e -> Rect (map_coords f e).
Proof.
  intros (H1 & H2 & H3 & H4). unfold Rect, map_coords; simpl. rewrite !map_length. repeat split; auto.
  rewrite Forall_forall in *. intros r Hr. apply in_map_iff in Hr as [r0 [<- Hr0]]. rewrite map_length. auto.
Qed.

Lemma per_conf_rect {B} (g : B -> row3 -> row3) ps e e' : Rect e -> per_conf g ps e = Some e' -> Rect e'.
Proof.
  intros He H. unfold per_conf in H.
  destruct (length ps =? nc e) eqn:E.
  - inversion H; subst. apply Nat.eqb_eq in E. unfold nc in E.
    destruct He as (H1 & H2 & H3 & H4). unfold Rect; simpl. rewrite zipw_length by auto. repeat split; auto.
    eapply Forall_zipw; [|exact H3]. intros p r Hr. simpl in *. rewrite map_length. auto.
  - destruct ps as [|p [|]]; try discriminate. inversion H; subst. apply map_coords_rect; auto.
Qed.

Lemma e_extend_rect gs e e' : Rect e -> e_extend gs e = Some e' -> Rect e'.
Proof.
  intros (H1 & H2 & H3 & H4) H. unfold e_extend in H.
  destruct gs as [|g0 gs0]; [discriminate|]. remember (g0 :: gs0) as gs eqn:Egs. clear Egs.
  destruct (forallb _ gs) eqn:E; inversion H; subst. clear H.
  rewrite forallb_forall in E.
  unfold Rect; simpl. rewrite !app_length, !map_length, repeat_length. repeat split; try lia.
  - apply Forall_app; split; auto. rewrite Forall_forall. intros r Hr.
    apply in_map_iff in Hr as [g [<- Hg]]. apply E in Hg. apply andb_true_iff in Hg as [Hg _]. apply Nat.eqb_eq; auto.
  - apply Forall_app; split; auto. rewrite Forall_forall. intros r Hr.
    apply in_map_iff in Hr as [g [<- Hg]]. apply E in Hg. apply andb_true_iff in Hg as [_ Hg]. apply Nat.eqb_eq; auto.
Qed.

Lemma e_extend_ens_rect o e e' : Rect o -> Rect e -> e_extend_ens o e = Some e' -> Rect e'.
Proof.
  intros (O1 & O2 & O3 & O4) (H1 & H2 & H3 & H4) H. unfold e_extend_ens in H.
  destruct (na o =? na e) eqn:E; inversion H; subst. apply Nat.eqb_eq in E.
  unfold Rect; simpl. rewrite !app_length. repeat split; try lia.
  - apply Forall_app; split; auto. rewrite <- E; auto.
  - apply Forall_app; split; auto. rewrite <- E; auto.
Qed.

Lemma with_coords_rect e cs : Rect e -> length cs = length (coords e) -> Forall (fun r => length r = na e) cs ->
  Rect (with_coords e cs).
Proof. intros (H1 & H2 & H3 & H4) L F. unfold Rect; simpl. repeat split; auto; congruence. Qed.

Lemma with_charges_rect e qs : Rect e -> length qs = length (charges e) -> Forall (fun r => length r = na e) qs ->
  Rect (with_charges e qs).
Proof. intros (H1 & H2 & H3 & H4) L F. unfold Rect; simpl. repeat split; auto; congruence. Qed.

Lemma upd_coords_rect k f e e' :
  (forall r r', length r = na e -> f r = Some r' -> length r' = na e) ->
  Rect e -> option_map (with_coords e) (upd_row k f (coords e)) = Some e' -> Rect e'.
Proof.
  intros Hf He H. destruct (upd_row k f (coords e)) as [cs|] eqn:E; inversion H; subst.
  apply with_coords_rect; auto.
  - eapply upd_row_length; eauto.
  - destruct He as (_ & _ & H3 & _). exact (upd_row_Forall (na e) k f (coords e) cs Hf H3 E).
Qed.

Lemma upd_charges_rect k f e e' :
  (forall r r', length r = na e -> f r = Some r' -> length r' = na e) ->
  Rect e -> option_map (with_charges e) (upd_row k f (charges e)) = Some e' -> Rect e'.
Proof.
  intros Hf He H. destruct (upd_row k f (charges e)) as [qs|] eqn:E; inversion H; subst.
  apply with_charges_rect; auto.
  - eapply upd_row_length; eauto.
  - destruct He as (_ & _ & _ & H4). exact (upd_row_Forall (na e) k f (charges e) qs Hf H4 E).
Qed.

Lemma c_map_rect k f e e' : Rect e -> c_map k f e = Some e' -> Rect e'.
Proof.
  intros He H. unfold c_map in H. eapply upd_coords_rect; [|exact He|exact H].
  intros r r' L E. inversion E; subst. rewrite map_length; auto.
Qed.

Lemma c_map_all_rect ks f : forall e e', Rect e -> c_map_all ks f e = Some e' -> Rect e'.
Proof.
  induction ks as [|k r IH]; intros e e' He H; simpl in H.
  - inversion H; subst; auto.
  - destruct (c_map k f e) as [e1|] eqn:E; [|discriminate]. eapply IH; [|exact H]. eapply c_map_rect; eauto.
Qed.

Lemma slice_map_rect a b c f e e' : Rect e -> slice_map a b c f e = Some e' -> Rect e'.
Proof. unfold slice_map. intros He H. destruct (slice_ids _ a b c); [|discriminate]. eapply c_map_all_rect; eauto. Qed.

Lemma StoreRect_nth W i e : StoreRect W -> nth_error (enss W) i = Some e -> Rect e.
Proof. unfold StoreRect. rewrite Forall_forall. intros H E. apply H. eapply nth_error_In; eauto. Qed.

(* every operation that mutates one ensemble preserves Rect of that ensemble *)
Lemma ens_fun_rect_aux W o e e' : StoreRect W -> Rect e ->
  match ens_fun W o with Some (i, f) => f e = Some e' -> Rect e' | None => True end.
Proof.
  intros HW He.
  destruct o; cbn [ens_fun]; auto; intros Hf.
  - (* Append *) destruct (resolve W g); [|discriminate]. exact (e_extend_rect _ _ _ He Hf).
  - (* Extend *) destruct (all_some _); [|discriminate]. exact (e_extend_rect _ _ _ He Hf).
  - (* ExtendEns *) destruct (nth_error (enss W) j) as [o|] eqn:E; [|discriminate].
    exact (e_extend_ens_rect _ _ _ (StoreRect_nth _ _ _ HW E) He Hf).
  - (* Scale *) unfold e_scale in Hf. destruct (scale_ok _ inv); inversion Hf; subst. apply map_coords_rect; auto.
  - (* Invert *) unfold e_scale in Hf. simpl in Hf. inversion Hf; subst. apply map_coords_rect; auto.
  - inversion Hf; subst. apply map_coords_rect; auto.
  - eapply per_conf_rect; eauto.
  - inversion Hf; subst. apply map_coords_rect; auto.
  - eapply per_conf_rect; eauto.
  - eapply set_all_coords_rect; eauto.
  - eapply set_all_charges_rect; eauto.
  - eapply set_all_weights_rect; eauto.
  - (* ConfSetCoords *) unfold c_set_coords in Hf. destruct (length v =? na e) eqn:E; [|discriminate]. apply Nat.eqb_eq in E.
    eapply upd_coords_rect; [|exact He|exact Hf]. intros r r' _ Hr. inversion Hr; subst; auto.
  - (* ConfSetCoordElem *) unfold c_set_coord_elem in Hf.
    eapply upd_coords_rect; [|exact He|exact Hf]. intros r0 r' L Hr. apply set_elem_length in Hr. congruence.
  - (* ConfSetCharges *) unfold c_set_charges in Hf. destruct (length v =? na e) eqn:E; [|discriminate]. apply Nat.eqb_eq in E.
    eapply upd_charges_rect; [|exact He|exact Hf]. intros r r' _ Hr. inversion Hr; subst; auto.
  - (* ConfSetChargeElem *) unfold c_set_charge_elem in Hf.
    eapply upd_charges_rect; [|exact He|exact Hf]. intros r0 r' L Hr. apply set_elem_length in Hr. congruence.
  - (* ConfScale *) destruct (scale_ok _ false); [|discriminate]. eapply c_map_rect; eauto.
  - eapply c_map_rect; eauto.
  - eapply c_map_rect; eauto.
  - (* SliceTranslate *) eapply slice_map_rect; eauto.
Qed.

Lemma ens_fun_rect W o i f e e' :
  StoreRect W -> ens_fun W o = Some (i, f) -> Rect e -> f e = Some e' -> Rect e'.
Proof. intros HW Ho He Hf. pose proof (ens_fun_rect_aux W o e e' HW He) as H. rewrite Ho in H. auto. Qed.

(* ... keeps the number of atoms, and -- unless it is append / extend -- the number of conformers *)
Lemma upd_coords_frame k f e e' : option_map (with_coords e) (upd_row k f (coords e)) = Some e' ->
  na e' = na e /\ nc e' = nc e /\ charges e' = charges e /\ weights e' = weights e.
Proof.
  intros H. destruct (upd_row k f (coords e)) as [cs|] eqn:E; inversion H; subst. unfold nc; simpl.
  repeat split; auto. eapply upd_row_length; eauto.
Qed.

Lemma upd_charges_frame k f e e' : option_map (with_charges e) (upd_row k f (charges e)) = Some e' ->
  na e' = na e /\ nc e' = nc e /\ coords e' = coords e /\ weights e' = weights e.
Proof.
  intros H. destruct (upd_row k f (charges e)) as [cs|] eqn:E; inversion H; subst. unfold nc; simpl. auto.
Qed.

Lemma c_map_all_frame ks f : forall e e', c_map_all ks f e = Some e' ->
  na e' = na e /\ nc e' = nc e /\ charges e' = charges e /\ weights e' = weights e.
Proof.
  induction ks as [|k r IH]; intros e e' H; simpl in H.
  - inversion H; subst; auto.
  - destruct (c_map k f e) as [e1|] eqn:E; [|discriminate]. unfold c_map in E. apply upd_coords_frame in E as (A1 & A2 & A3 & A4).
    apply IH in H as (B1 & B2 & B3 & B4). repeat split; congruence.
Qed.

Lemma per_conf_nc {B} (g : B -> row3 -> row3) ps e e' : per_conf g ps e = Some e' -> na e' = na e /\ nc e' = nc e.
Proof.
  unfold per_conf. intros H. destruct (length ps =? nc e) eqn:E.
  - inversion H; subst. apply Nat.eqb_eq in E. unfold nc in *; simpl. rewrite zipw_length; auto.
  - destruct ps as [|p [|]]; try discriminate. inversion H; subst. unfold nc; simpl. rewrite map_length; auto.
Qed.

Lemma ens_fun_frame_aux W o e e' :
  match ens_fun W o with
  | Some (i, f) => f e = Some e' -> na e' = na e /\ (resizing o = false -> nc e' = nc e)
  | None => True
  end.
Proof.
  destruct o; cbn [ens_fun resizing]; auto; intros Hf.
  - destruct (resolve W g); [|discriminate]. unfold e_extend in Hf.
    destruct (forallb _ _); inversion Hf; subst; simpl. split; auto; discriminate.
  - destruct (all_some _) as [rs|]; [|discriminate]. unfold e_extend in Hf.
    destruct (map with_zeros rs); [discriminate|]. destruct (forallb _ _); inversion Hf; subst; simpl. split; auto; discriminate.
  - destruct (nth_error (enss W) j); [|discriminate]. unfold e_extend_ens in Hf.
    destruct (_ =? _); inversion Hf; subst; simpl. split; auto; discriminate.
  - unfold e_scale in Hf. destruct (scale_ok _ inv); inversion Hf; subst. unfold nc; simpl. rewrite map_length; auto.
  - unfold e_scale in Hf. simpl in Hf. inversion Hf; subst. unfold nc; simpl. rewrite map_length; auto.
  - inversion Hf; subst. unfold nc; simpl. rewrite map_length; auto.
  - apply per_conf_nc in Hf. tauto.
  - inversion Hf; subst. unfold nc; simpl. rewrite map_length; auto.
  - apply per_conf_nc in Hf. tauto.
  - unfold set_all_coords in Hf. destruct (shape2 _ _ v) eqn:E; inversion Hf; subst. apply shape2_spec in E as [E _].
    unfold nc; simpl. auto.
  - unfold set_all_charges in Hf. destruct (shape2 _ _ v); inversion Hf; subst. unfold nc; simpl; auto.
  - unfold set_all_weights in Hf. destruct (_ =? _); inversion Hf; subst. unfold nc; simpl; auto.
  - unfold c_set_coords in Hf. destruct (_ =? _); [|discriminate]. apply upd_coords_frame in Hf. tauto.
  - unfold c_set_coord_elem in Hf. apply upd_coords_frame in Hf. tauto.
  - unfold c_set_charges in Hf. destruct (_ =? _); [|discriminate]. apply upd_charges_frame in Hf. tauto.
  - unfold c_set_charge_elem in Hf. apply upd_charges_frame in Hf. tauto.
  - destruct (scale_ok _ false); [|discriminate]. unfold c_map in Hf. apply upd_coords_frame in Hf. tauto.
  - unfold c_map in Hf. apply upd_coords_frame in Hf. tauto.
  - unfold c_map in Hf. apply upd_coords_frame in Hf. tauto.
  - unfold slice_map in Hf. destruct (slice_ids _ _ _ _); [|discriminate]. apply c_map_all_frame in Hf. tauto.
Qed.

Lemma ens_fun_frame W o i f e e' :
  ens_fun W o = Some (i, f) -> f e = Some e' -> na e' = na e /\ (resizing o = false -> nc e' = nc e).
Proof. intros Ho Hf. pose proof (ens_fun_frame_aux W o e e') as H. rewrite Ho in H. auto. Qed.

(* ------------------------------------------------------------------ inversion of one step *)
Inductive Rect_src (W : store) (o : op) (e : ens) : Prop :=
| RS_new src k a xc xq xw : o = New src k a xc xq xw -> init W src k a xc xq xw = CSome e -> Rect_src W o e
| RS_ser i e0 : o = Serialise i -> nth_error (enss W) i = Some e0 -> ser_roundtrip W e0 = CSome e -> Rect_src W o e.

Inductive step_shape (W : store) (o : op) (W' : store) (w : out) : Prop :=
| SS_new e : W' = push_ens W e -> w = ONone -> Rect_src W o e -> step_shape W o W' w
| SS_iter_new i : o = IterNew i -> nth_error (enss W) i <> None ->
    W' = mkStore (enss W) (iters W ++ [(i, O)]) -> w = ONone -> step_shape W o W' w
| SS_iter_yield t i c e : o = IterNext t -> nth_error (iters W) t = Some (i, c) -> nth_error (enss W) i = Some e ->
    c < nc e -> W' = mkStore (enss W) (set_nth t (i, S c) (iters W)) -> w = OYield (Some c) -> step_shape W o W' w
| SS_iter_stop t i c e : o = IterNext t -> nth_error (iters W) t = Some (i, c) -> nth_error (enss W) i = Some e ->
    nc e <= c -> W' = W -> w = OYield None -> step_shape W o W' w
| SS_ens i f e e' : ens_fun W o = Some (i, f) -> nth_error (enss W) i = Some e -> f e = Some e' ->
    W' = set_ens W i e' -> w = ONone -> step_shape W o W' w
| SS_read i f e : ens_fun W o = None -> read_fun o = Some (i, f) -> nth_error (enss W) i = Some e -> f e = Some w ->
    W' = W -> step_shape W o W' w.

Ltac inv_generic H :=
  cbn [step ens_fun read_fun] in H;
  match type of H with context [nth_error (enss ?W) ?i] =>
    let e := fresh "e" in let E0 := fresh "E0" in
    destruct (nth_error (enss W) i) as [e|] eqn:E0; [|discriminate];
    try (destruct (atomless_empty e); [discriminate|]);
    try (match type of H with context [match ?x with Some _ => _ | None => Err end] =>
           let E1 := fresh "E1" in destruct x eqn:E1; [|discriminate] end);
    inversion H; subst;
    first [ eapply SS_ens; [reflexivity|eassumption|first [eassumption|reflexivity]|reflexivity|reflexivity]
          | eapply SS_read; [reflexivity|reflexivity|eassumption|first [eassumption|reflexivity]|reflexivity] ]
  end.

Lemma step_ok_inv W o W' w : step W o = Ok W' w -> step_shape W o W' w.
Proof.
  intros H. destruct o; try solve [inv_generic H].
  - (* New *) cbn [step] in H. destruct (init W src nc_arg na_arg xc xq xw) as [e| |] eqn:E; simpl in H; try discriminate.
    inversion H; subst. eapply SS_new; eauto. eapply RS_new; eauto.
  - (* Serialise *) cbn [step] in H. destruct (nth_error (enss W) i) as [e0|] eqn:E0; try discriminate.
    destruct (ser_roundtrip W e0) as [e| |] eqn:E; simpl in H; try discriminate.
    inversion H; subst. eapply SS_new; eauto. eapply RS_ser; eauto.
  - (* IterNew *) cbn [step] in H. destruct (nth_error (enss W) i) eqn:E0; try discriminate.
    inversion H; subst. eapply SS_iter_new; eauto. congruence.
  - (* IterNext *) cbn [step] in H. destruct (nth_error (iters W) t) as [[i c]|] eqn:E0; try discriminate.
    destruct (nth_error (enss W) i) as [e|] eqn:E1; try discriminate.
    destruct (c <? nc e) eqn:E2; inversion H; subst.
    + apply Nat.ltb_lt in E2. eapply SS_iter_yield; eauto.
    + apply Nat.ltb_ge in E2. eapply SS_iter_stop; eauto.
Qed.

(* ------------------------------------------------------------------ Rect over steps and histories *)
Lemma StoreRect_push W e : StoreRect W -> Rect e -> StoreRect (push_ens W e).
Proof. unfold StoreRect, push_ens; simpl. intros H He. apply Forall_app; split; auto. Qed.

Lemma StoreRect_set W i e : StoreRect W -> Rect e -> StoreRect (set_ens W i e).
Proof. unfold StoreRect, set_ens; simpl. intros H He. apply Forall_set_nth; auto. Qed.

Lemma Rect_src_rect W o e : StoreRect W -> Rect_src W o e -> Rect e.
Proof.
  intros HW [src k a xc xq xw _ H | i e0 _ _ H].
  - eapply init_rect; eauto.
  - eapply ser_roundtrip_rect; eauto.
Qed.

Theorem step_rect W o W' w : StoreRect W -> step W o = Ok W' w -> StoreRect W'.
Proof.
  intros HW H. apply step_ok_inv in H.
  destruct H as [e -> _ Hs | i _ _ -> _ | t i c e _ _ _ _ -> _ | t i c e _ _ _ _ -> _ | i f e e' Ho He Hf -> _ | i f e _ _ _ _ ->]; auto.
  - apply StoreRect_push; auto. eapply Rect_src_rect; eauto.
  - apply StoreRect_set; auto. eapply ens_fun_rect; eauto. eapply StoreRect_nth; eauto.
Qed.

Lemma StoreRect_empty : StoreRect empty_store.
Proof. constructor. Qed.

Theorem run_rect h : forall W W', StoreRect W -> run W h = Some W' -> StoreRect W'.
Proof.
  induction h as [|o r IH]; intros W W' HW H; simpl in H.
  - inversion H; subst; auto.
  - destruct (step W o) as [W1 w| |] eqn:E; try discriminate.
    + eapply IH; [|eauto]. eapply step_rect; eauto.
    + eapply IH; eauto.
Qed.

(* every correspondence case the kernel accepts is a run of the model from the empty store, hence ends in a
   rectangular store *)
Lemma run_check_sound steps : forall W, run_check W steps = true -> StoreRect W ->
  exists W', run W (map fst steps) = Some W' /\ StoreRect W'.
Proof.
  induction steps as [|[o ob] r IH]; intros W H HW; simpl in *.
  - eauto.
  - destruct (step W o) as [W1 w| |] eqn:E; try discriminate.
    + rewrite !andb_true_iff in H. destruct H as [_ H]. apply IH; auto. eapply step_rect; eauto.
    + rewrite !andb_true_iff in H. destruct H as [_ H]. apply IH; auto.
Qed.

Theorem check_case_sound c : check_case c = true ->
  exists W', run empty_store (map fst c) = Some W' /\ StoreRect W'.
Proof. intros H. apply run_check_sound; auto. apply StoreRect_empty. Qed.

(* ------------------------------------------------------------------ the Conformer view is a lens *)
Lemma with_coords_id e : with_coords e (coords e) = e.
Proof. destruct e; reflexivity. Qed.
Lemma with_charges_id e : with_charges e (charges e) = e.
Proof. destruct e; reflexivity. Qed.

Theorem lens_coords_get_set k v e e' : c_set_coords k v e = Some e' -> c_get_coords k e' = Some v.
Proof.
  unfold c_set_coords, c_get_coords. destruct (length v =? na e); [|discriminate].
  destruct (upd_row k _ (coords e)) as [cs|] eqn:E; intros H; inversion H; subst; simpl.
  apply upd_row_get_same in E as (r & _ & E). exact E.
Qed.

Theorem lens_coords_other k k' v e e' : c_set_coords k v e = Some e' ->
  py_index (nc e) k' <> py_index (nc e) k -> c_get_coords k' e' = c_get_coords k' e.
Proof.
  unfold c_set_coords, c_get_coords, nc. destruct (length v =? na e); [|discriminate].
  destruct (upd_row k _ (coords e)) as [cs|] eqn:E; intros H Hne; inversion H; subst; simpl.
  eapply upd_row_get_other; eauto.
Qed.

Theorem lens_coords_frame k v e e' : c_set_coords k v e = Some e' ->
  na e' = na e /\ nc e' = nc e /\ charges e' = charges e /\ weights e' = weights e.
Proof. unfold c_set_coords. destruct (length v =? na e); [|discriminate]. apply upd_coords_frame. Qed.

Theorem lens_coords_set_get k v e : Rect e -> c_get_coords k e = Some v -> c_set_coords k v e = Some e.
Proof.
  intros (_ & _ & H3 & _) H. unfold c_get_coords in H. apply get_row_spec in H as (j & E1 & E2).
  unfold c_set_coords.
  assert (L : length v = na e). { rewrite Forall_forall in H3. apply H3. eapply nth_error_In; eauto. }
  rewrite L, Nat.eqb_refl.
  rewrite (upd_row_some k (fun _ => Some v) (coords e) j v v E1 E2 eq_refl). simpl.
  rewrite (set_nth_same j v (coords e) E2). f_equal. apply with_coords_id.
Qed.

Theorem lens_charges_get_set k v e e' : c_set_charges k v e = Some e' -> c_get_charges k e' = Some v.
Proof.
  unfold c_set_charges, c_get_charges. destruct (length v =? na e); [|discriminate].
  destruct (upd_row k _ (charges e)) as [cs|] eqn:E; intros H; inversion H; subst; simpl.
  apply upd_row_get_same in E as (r & _ & E). exact E.
Qed.

Theorem lens_charges_other k k' v e e' : c_set_charges k v e = Some e' ->
  py_index (length (charges e)) k' <> py_index (length (charges e)) k -> c_get_charges k' e' = c_get_charges k' e.
Proof.
  unfold c_set_charges, c_get_charges. destruct (length v =? na e); [|discriminate].
  destruct (upd_row k _ (charges e)) as [cs|] eqn:E; intros H Hne; inversion H; subst; simpl.
  eapply upd_row_get_other; eauto.
Qed.

Theorem lens_charges_frame k v e e' : c_set_charges k v e = Some e' ->
  na e' = na e /\ nc e' = nc e /\ coords e' = coords e /\ weights e' = weights e.
Proof. unfold c_set_charges. destruct (length v =? na e); [|discriminate]. apply upd_charges_frame. Qed.

Theorem lens_charges_set_get k v e : Rect e -> c_get_charges k e = Some v -> c_set_charges k v e = Some e.
Proof.
  intros (_ & _ & _ & H4) H. unfold c_get_charges in H. apply get_row_spec in H as (j & E1 & E2).
  unfold c_set_charges.
  assert (L : length v = na e). { rewrite Forall_forall in H4. apply H4. eapply nth_error_In; eauto. }
  rewrite L, Nat.eqb_refl.
  rewrite (upd_row_some k (fun _ => Some v) (charges e) j v v E1 E2 eq_refl). simpl.
  rewrite (set_nth_same j v (charges e) E2). f_equal. apply with_charges_id.
Qed.

(* EVERY write through a conformer (whole row, one element, scale / translate / transform of the view) touches
   row k of ONE array of ONE ensemble *)
Definition conf_write (o : op) : option (nat * Z) :=
  match o with
  | ConfSetCoords i k _ | ConfSetCoordElem i k _ _ | ConfSetCharges i k _ | ConfSetChargeElem i k _ _
  | ConfScale i k _ | ConfTranslate i k _ | ConfTransform i k _ => Some (i, k)
  | _ => None
  end.

Definition row_frame (k : Z) (e e' : ens) : Prop :=
  na e' = na e /\ nc e' = nc e /\ weights e' = weights e /\
  forall k', py_index (nc e) k' <> py_index (nc e) k ->
    c_get_coords k' e' = c_get_coords k' e /\ c_get_charges k' e' = c_get_charges k' e.

Lemma upd_coords_row_frame k f e e' :
  option_map (with_coords e) (upd_row k f (coords e)) = Some e' -> row_frame k e e'.
Proof.
  intros H. pose proof (upd_coords_frame _ _ _ _ H) as (F1 & F2 & F3 & F4).
  unfold row_frame. repeat split; auto.
  - destruct (upd_row k f (coords e)) as [cs|] eqn:E; inversion H; subst.
    unfold c_get_coords; simpl. eapply upd_row_get_other; eauto.
  - unfold c_get_charges. rewrite F3. reflexivity.
Qed.

Lemma upd_charges_row_frame k f e e' : Rect e ->
  option_map (with_charges e) (upd_row k f (charges e)) = Some e' -> row_frame k e e'.
Proof.
  intros (R1 & _) H. pose proof (upd_charges_frame _ _ _ _ H) as (F1 & F2 & F3 & F4).
  unfold row_frame. repeat split; auto.
  - unfold c_get_coords. rewrite F3. reflexivity.
  - destruct (upd_row k f (charges e)) as [cs|] eqn:E; inversion H; subst.
    unfold c_get_charges; simpl. eapply upd_row_get_other; eauto. unfold nc in *. rewrite R1. auto.
Qed.

Lemma conf_write_aux W o e e' : Rect e ->
  match conf_write o, ens_fun W o with
  | Some (i, k), Some (i', f) => i' = i /\ (f e = Some e' -> row_frame k e e')
  | Some _, None => False
  | None, _ => True
  end.
Proof.
  intros He. destruct o; cbn [conf_write ens_fun]; auto; split; auto; intros Hf.
  - unfold c_set_coords in Hf. destruct (_ =? _); [|discriminate]. eapply upd_coords_row_frame; eauto.
  - unfold c_set_coord_elem in Hf. eapply upd_coords_row_frame; eauto.
  - unfold c_set_charges in Hf. destruct (_ =? _); [|discriminate]. eapply upd_charges_row_frame; eauto.
  - unfold c_set_charge_elem in Hf. eapply upd_charges_row_frame; eauto.
  - destruct (scale_ok _ false); [|discriminate]. unfold c_map in Hf. eapply upd_coords_row_frame; eauto.
  - unfold c_map in Hf. eapply upd_coords_row_frame; eauto.
  - unfold c_map in Hf. eapply upd_coords_row_frame; eauto.
Qed.

Theorem conf_write_frame W o i k W' w : StoreRect W -> conf_write o = Some (i, k) -> step W o = Ok W' w ->
  iters W' = iters W /\ length (enss W') = length (enss W) /\
  (forall j, j <> i -> nth_error (enss W') j = nth_error (enss W) j) /\
  exists e e', nth_error (enss W) i = Some e /\ nth_error (enss W') i = Some e' /\ row_frame k e e'.
Proof.
  intros HW Hc H. apply step_ok_inv in H.
  destruct H as [e -> _ Hs | i0 Ho _ _ _ | t i0 c e Ho _ _ _ _ _ | t i0 c e Ho _ _ _ _ _ | i0 f e e' Ho He Hf -> _ | i0 f e Ho _ He _ _].
  - destruct Hs; subst; discriminate.
  - subst; discriminate.
  - subst; discriminate.
  - subst; discriminate.
  - pose proof (conf_write_aux W o e e' (StoreRect_nth _ _ _ HW He)) as A. rewrite Hc, Ho in A. destruct A as [-> A].
    unfold set_ens; simpl. rewrite set_nth_length. repeat split; auto.
    + intros j Hj. apply nth_error_set_nth_neq; auto.
    + exists e, e'. split; [exact He|]. split; [|exact (A Hf)].
      apply nth_error_set_nth_eq. apply nth_error_Some. congruence.
  - pose proof (conf_write_aux W o e e (StoreRect_nth _ _ _ HW He)) as A. rewrite Hc, Ho in A. destruct A.
Qed.

(* ------------------------------------------------------------------ iteration *)
Lemma drain_seq fuel : forall cur len, len - cur <= fuel -> drain fuel cur len = seq cur (len - cur).
Proof.
  induction fuel as [|f IH]; intros cur len H; simpl.
  - replace (len - cur) with 0 by lia. reflexivity.
  - destruct (cur <? len) eqn:E.
    + apply Nat.ltb_lt in E. rewrite IH by lia. replace (len - cur) with (S (len - S cur)) by lia. reflexivity.
    + apply Nat.ltb_ge in E. replace (len - cur) with 0 by lia. reflexivity.
Qed.

Theorem for_ids_seq len : for_ids len = seq 0 len.
Proof. unfold for_ids. rewrite drain_seq by lia. f_equal. lia. Qed.

Lemma flat_map_prod {A B} (l : list A) (l' : list B) : flat_map (fun a => map (pair a) l') l = list_prod l l'.
Proof. induction l as [|x l IH]; simpl; auto. rewrite IH. reflexivity. Qed.

Theorem nested_ids_prod len : nested_ids len = list_prod (seq 0 len) (seq 0 len).
Proof. unfold nested_ids. rewrite for_ids_seq. apply flat_map_prod. Qed.

(* the protocol before the repair (one cursor on the ensemble): the inner loop runs the shared cursor to the end *)
Lemma shared_inner_spec fuel : forall cur len a acc, len - cur <= fuel ->
  shared_inner fuel cur len a acc = (acc ++ map (pair a) (seq cur (len - cur)), Nat.max cur len).
Proof.
  induction fuel as [|f IH]; intros cur len a acc H; cbn [shared_inner].
  - replace (len - cur) with 0 by lia. rewrite Nat.max_l by lia. cbn [seq map]. rewrite app_nil_r. reflexivity.
  - destruct (cur <? len) eqn:E.
    + apply Nat.ltb_lt in E. rewrite IH by lia. rewrite !Nat.max_r by lia.
      replace (len - cur) with (S (len - S cur)) by lia. cbn [seq map]. rewrite <- app_assoc. reflexivity.
    + apply Nat.ltb_ge in E. replace (len - cur) with 0 by lia. rewrite Nat.max_l by lia. cbn [seq map].
      rewrite app_nil_r. reflexivity.
Qed.

Theorem nested_ids_shared_spec len : nested_ids_shared len = map (pair 0) (seq 0 len).
Proof.
  unfold nested_ids_shared. destruct len as [|m]; [reflexivity|].
  cbn [shared_outer]. replace (0 <? S m) with true by reflexivity.
  rewrite shared_inner_spec by lia. rewrite Nat.sub_0_r, Nat.max_0_l. simpl app.
  destruct m as [|m']; cbn [shared_outer]; rewrite Nat.ltb_irrefl; reflexivity.
Qed.

Theorem shared_cursor_refuted len : 2 <= len -> nested_ids_shared len <> nested_ids len.
Proof.
  intros H E. apply (f_equal (@length _)) in E.
  rewrite nested_ids_shared_spec, nested_ids_prod, map_length, prod_length, seq_length in E. nia.
Qed.

(* ---- any interleaving of next() calls *)
Definition IterAt (W : store) (t i c len : nat) : Prop :=
  nth_error (iters W) t = Some (i, c) /\ exists e, nth_error (enss W) i = Some e /\ nc e = len.

Lemma nth_error_app_l {A} (l l' : list A) i x : nth_error l i = Some x -> nth_error (l ++ l') i = Some x.
Proof. intros H. rewrite nth_error_app1; auto. apply nth_error_Some. congruence. Qed.

Lemma IterAt_ens_fun W o t i c len i' f e e' :
  IterAt W t i c len -> resizing o = false -> ens_fun W o = Some (i', f) -> nth_error (enss W) i' = Some e ->
  f e = Some e' -> IterAt (set_ens W i' e') t i c len.
Proof.
  intros [Ht (e0 & He0 & Hn)] Hr Ho He Hf. split; [exact Ht|]. unfold set_ens; simpl.
  destruct (Nat.eq_dec i i') as [->|Hne].
  - exists e'. split.
    + apply nth_error_set_nth_eq. apply nth_error_Some. congruence.
    + pose proof (ens_fun_frame W o i' f e e' Ho Hf) as [_ F]. rewrite F by auto. congruence.
  - exists e0. split; auto. rewrite nth_error_set_nth_neq; auto.
Qed.

Lemma iter_step W o W' w t i c len : IterAt W t i c len -> resizing o = false -> step W o = Ok W' w ->
  (is_next t o = true /\ ((c < len /\ w = OYield (Some c) /\ IterAt W' t i (S c) len) \/
                          (len <= c /\ w = OYield None /\ IterAt W' t i c len)))
  \/ (is_next t o = false /\ IterAt W' t i c len /\ (forall t', o = IterNext t' -> t' <> t)).
Proof.
  intros HI Hr H. pose proof HI as [Ht (e0 & He0 & Hn)]. apply step_ok_inv in H.
  destruct H as [e -> _ Hs | i0 -> _ -> _ | t' i0 c0 e -> Ht' He Hc -> -> | t' i0 c0 e -> Ht' He Hc -> -> | i0 f e e' Ho He Hf -> _ | i0 f e Hn0 Ho He Hf ->].
  - right. assert (En : is_next t o = false) by (destruct Hs; subst; reflexivity).
    split; [exact En|]. split.
    + split; [exact Ht|]. exists e0. split; auto. unfold push_ens; simpl. apply nth_error_app_l; auto.
    + intros t' ->. destruct Hs; discriminate.
  - right. split; [reflexivity|]. split.
    + split; simpl; [apply nth_error_app_l; auto|]. exists e0; auto.
    + intros t' E; discriminate.
  - simpl. destruct (t' =? t) eqn:Et.
    + apply Nat.eqb_eq in Et; subst t'. left. split; auto. left.
      rewrite Ht in Ht'. inversion Ht'; subst i0 c0. rewrite He0 in He. inversion He; subst e.
      split; [congruence|]. split; auto. split; simpl.
      * apply nth_error_set_nth_eq. apply nth_error_Some. congruence.
      * exists e0; auto.
    + apply Nat.eqb_neq in Et. right. split; auto. split.
      * split; simpl; [rewrite nth_error_set_nth_neq; auto|]. exists e0; auto.
      * intros t'' E. inversion E; subst; auto.
  - simpl. destruct (t' =? t) eqn:Et.
    + apply Nat.eqb_eq in Et; subst t'. left. split; auto. right.
      rewrite Ht in Ht'. inversion Ht'; subst i0 c0. rewrite He0 in He. inversion He; subst e.
      split; [congruence|]. auto.
    + apply Nat.eqb_neq in Et. right. split; auto. split; auto. intros t'' E. inversion E; subst; auto.
  - right. assert (En : is_next t o = false) by (destruct o; try reflexivity; discriminate).
    split; [exact En|]. split.
    + eapply IterAt_ens_fun; eauto.
    + intros t' ->. discriminate.
  - right. assert (En : is_next t o = false) by (destruct o; try reflexivity; discriminate).
    split; [exact En|]. split; auto. intros t' ->. discriminate.
Qed.

Lemma iter_next_not_err W t i c len : IterAt W t i c len -> step W (IterNext t) <> Err.
Proof.
  intros [Ht (e & He & _)]. cbn [step]. rewrite Ht, He. destruct (c <? nc e); discriminate.
Qed.

Definition count_next (t : nat) (h : list op) : nat := length (filter (is_next t) h).
Definition no_resize (h : list op) : Prop := Forall (fun o => resizing o = false) h.

Lemma yield_of_other t o w : (forall t', o = IterNext t' -> t' <> t) ->
  match o, w with
  | IterNext t', OYield (Some k) => if t' =? t then [k] else []
  | _, _ => []
  end = [].
Proof.
  intros H. destruct o; try reflexivity. destruct w; try reflexivity. destruct k; try reflexivity.
  destruct (t0 =? t) eqn:E; auto. apply Nat.eqb_eq in E. exfalso. eapply H; eauto.
Qed.

(* an iterator standing at cursor c over an ensemble of `len` conformers: whatever else happens in between
   (other iterators advancing, writes, transforms, new ensembles, dumps -- anything that does not resize), its
   k-th next() from now on yields c + k, until len is reached, and then it stops *)
Theorem iter_interleaved h : forall W Wf t i c len,
  IterAt W t i c len -> no_resize h -> run W h = Some Wf ->
  iter_yields t W h = firstn (count_next t h) (seq c (len - c)).
Proof.
  induction h as [|o r IH]; intros W Wf t i c len HI Hn Hrun.
  - reflexivity.
  - inversion Hn as [|? ? Ho Hr]; subst. cbn [iter_yields run] in *. unfold count_next. cbn [filter].
    destruct (step W o) as [W1 w| |] eqn:E; try discriminate.
    + destruct (iter_step W o W1 w t i c len HI Ho E) as [[En [(Hc & -> & HI') | (Hc & -> & HI')]] | (En & HI' & Hoth)].
      * rewrite En. destruct o; try discriminate. simpl in En. rewrite En. cbn [length].
        rewrite (IH W1 Wf t i (S c) len HI' Hr Hrun). fold (count_next t r).
        replace (len - c) with (S (len - S c)) by lia. reflexivity.
      * rewrite En. destruct o; try discriminate. cbn [length app].
        rewrite (IH W1 Wf t i c len HI' Hr Hrun). fold (count_next t r).
        replace (len - c) with 0 by lia. simpl. destruct (count_next t r); reflexivity.
      * rewrite En. rewrite (yield_of_other t o w Hoth). simpl app.
        apply (IH W1 Wf t i c len HI' Hr Hrun).
    + assert (En : is_next t o = false).
      { destruct (is_next t o) eqn:En; auto. destruct o; try discriminate. simpl in En. apply Nat.eqb_eq in En; subst.
        exfalso. eapply iter_next_not_err; eauto. }
      rewrite En. apply (IH W Wf t i c len HI Hr Hrun).
Qed.

(* a FRESH iterator (iter(ens)): every conformer exactly once, in order *)
Theorem iter_fresh W i e h Wf :
  nth_error (enss W) i = Some e -> no_resize h ->
  run W (IterNew i :: h) = Some Wf ->
  let t := length (iters W) in
  iter_yields t W (IterNew i :: h) = firstn (count_next t h) (seq 0 (nc e)) /\
  (nc e <= count_next t h -> iter_yields t W (IterNew i :: h) = seq 0 (nc e)).
Proof.
  intros He Hn Hrun t. cbn [iter_yields run] in *. cbn [step] in *. rewrite He in *. simpl app.
  assert (HI : IterAt (mkStore (enss W) (iters W ++ [(i, 0)])) t i 0 (nc e)).
  { split; simpl.
    - unfold t. rewrite nth_error_app2 by lia. rewrite Nat.sub_diag. reflexivity.
    - exists e; auto. }
  pose proof (iter_interleaved h _ Wf t i 0 (nc e) HI Hn Hrun) as Y. rewrite Nat.sub_0_r in Y.
  split; [exact Y|]. intros Hc. rewrite Y. apply firstn_all2. rewrite seq_length. exact Hc.
Qed.

(* ------------------------------------------------------------------ a rectangular ensemble can be written and stored *)
Lemma zip_rows_rect cs : forall qs, length qs = length cs -> zip_rows cs qs = Some (zipw (@combine row3 num) cs qs).
Proof.
  induction cs as [|c cs IH]; intros [|q qs] H; simpl in *; try discriminate; auto.
  rewrite IH by lia. reflexivity.
Qed.

Theorem dump_rect e : Rect e ->
  dump_mol2 e = Some (zipw (@combine row3 num) (coords e) (charges e)) /\ length (dump_xyz e) = nc e.
Proof. intros (H1 & _). split; [|reflexivity]. apply zip_rows_rect; auto. Qed.

(* every conformer of a rectangular ensemble is a FULL view: na coordinate rows and na charges *)
Theorem conf_view_full e k j : Rect e -> py_index (nc e) k = Some j ->
  exists c q, c_get_coords k e = Some c /\ c_get_charges k e = Some q /\ length c = na e /\ length q = na e.
Proof.
  intros (H1 & _ & H3 & H4) Hk. unfold nc in Hk. pose proof (py_index_lt _ _ _ Hk) as Hj.
  destruct (nth_error (coords e) j) as [c|] eqn:Ec; [|apply nth_error_None in Ec; lia].
  destruct (nth_error (charges e) j) as [q|] eqn:Eq; [|apply nth_error_None in Eq; lia].
  exists c, q. unfold c_get_coords, c_get_charges, get_row. rewrite H1, Hk. repeat split; auto.
  - rewrite Forall_forall in H3. apply H3. eapply nth_error_In; eauto.
  - rewrite Forall_forall in H4. apply H4. eapply nth_error_In; eauto.
Qed.

Lemma chunk_concat {A} a (rows : list (list A)) : Forall (fun r => length r = a) rows ->
  chunk (length rows) a (concat rows) = rows /\ length (concat rows) = length rows * a.
Proof.
  induction 1 as [|r rows Hr _ [IH1 IH2]]; simpl; auto.
  rewrite app_length, IH2, Hr. split; [|lia].
  rewrite <- Hr at 1 3. rewrite firstn_app, firstn_all, Nat.sub_diag. simpl. rewrite app_nil_r.
  rewrite skipn_app, skipn_all, Nat.sub_diag. simpl. rewrite IH1. reflexivity.
Qed.

Lemma set_all_coords_ok v e : length v = length (coords e) -> Forall (fun r => length r = na e) v ->
  set_all_coords v e = Some (mkEns (na e) v (charges e) (weights e)).
Proof. intros L F. unfold set_all_coords. replace (shape2 _ _ v) with true; auto. symmetry. apply shape2_spec; auto. Qed.
Lemma set_all_charges_ok v e : length v = length (charges e) -> Forall (fun r => length r = na e) v ->
  set_all_charges v e = Some (mkEns (na e) (coords e) v (weights e)).
Proof. intros L F. unfold set_all_charges. replace (shape2 _ _ v) with true; auto. symmetry. apply shape2_spec; auto. Qed.

(* molli.chem.io: what comes back is the ensemble that went in *)
Theorem ser_roundtrip_id W e : Rect e -> ser_roundtrip W e = CSome e.
Proof.
  intros (H1 & H2 & H3 & H4). unfold ser_roundtrip, reshape, nc.
  destruct (chunk_concat (na e) (coords e) H3) as [C1 C2]. destruct (chunk_concat (na e) (charges e) H4) as [Q1 Q2].
  rewrite H1 in Q1, Q2.
  rewrite C2, Q2, Nat.eqb_refl, C1, Q1.
  unfold init. cbn [init_base opt_apply].
  rewrite set_all_coords_ok; [|unfold alloc; simpl; rewrite repeat_length; reflexivity|exact H3].
  cbn [na coords charges weights alloc].
  rewrite set_all_charges_ok; [|simpl; rewrite repeat_length; auto|exact H4].
  unfold set_all_weights. cbn [na coords charges weights]. rewrite repeat_length, H2, Nat.eqb_refl.
  destruct e; reflexivity.
Qed.

(* ------------------------------------------------------------------ slices name conformers that exist *)
Lemma adj_bounds len lower upper x : (0 <= len)%Z ->
  (lower = 0 /\ upper = len)%Z \/ (lower = -1 /\ upper = len - 1)%Z ->
  (lower <= adj len lower upper x <= upper)%Z.
Proof. intros Hl H. unfold adj. destruct (x <? 0)%Z eqn:E; lia. Qed.

Lemma py_range_bounds lo hi st x : st <> 0%Z -> In x (py_range lo hi st) ->
  ((0 < st /\ lo <= x < hi) \/ (st < 0 /\ hi < x <= lo))%Z.
Proof.
  unfold py_range, range_len. intros Hne H. apply in_map_iff in H as (j & <- & Hj). apply in_seq in Hj. simpl in Hj.
  destruct (0 <? st)%Z eqn:Es.
  - left. assert (0 < st)%Z by lia. destruct (lo <? hi)%Z eqn:E; [|simpl in Hj; lia].
    assert (Hq : (st * ((hi - lo - 1) / st) <= hi - lo - 1)%Z) by (apply Z.mul_div_le; lia).
    assert (0 <= (hi - lo - 1) / st)%Z by (apply Z.div_pos; lia).
    assert (Z.of_nat j <= (hi - lo - 1) / st)%Z by lia. nia.
  - destruct (hi <? lo)%Z eqn:E; [|simpl in Hj; lia].
    right. assert (0 < - st)%Z by lia.
    assert (Hq : (- st * ((lo - hi - 1) / - st) <= lo - hi - 1)%Z) by (apply Z.mul_div_le; lia).
    assert (0 <= (lo - hi - 1) / - st)%Z by (apply Z.div_pos; lia).
    assert (Z.of_nat j <= (lo - hi - 1) / - st)%Z by lia. nia.
Qed.

Theorem slice_ids_in_range len a b c ids x : slice_ids len a b c = Some ids -> In x ids ->
  (0 <= x < Z.of_nat len)%Z.
Proof.
  unfold slice_ids, slice_indices. set (st := match c with Some s => s | None => 1%Z end).
  destruct (st =? 0)%Z eqn:E0; [discriminate|]. intros H Hx. inversion H; subst ids; clear H.
  apply py_range_bounds in Hx; [|lia].
  assert (Hl : (0 <= Z.of_nat len)%Z) by lia.
  destruct (st <? 0)%Z eqn:En.
  - pose proof (fun x => adj_bounds (Z.of_nat len) (-1) (Z.of_nat len - 1) x Hl (or_intror (conj eq_refl eq_refl))) as B.
    destruct a as [a0|], b as [b0|]; try pose proof (B a0); try pose proof (B b0); lia.
  - pose proof (fun x => adj_bounds (Z.of_nat len) 0 (Z.of_nat len) x Hl (or_introl (conj eq_refl eq_refl))) as B.
    destruct a as [a0|], b as [b0|]; try pose proof (B a0); try pose proof (B b0); lia.
Qed.

(* ------------------------------------------------------------------ a slice is the list slice of 0 .. len-1 *)
Lemma slice_ids_none len a b c : slice_ids len a b c = None <-> c = Some 0%Z.
Proof.
  unfold slice_ids, slice_indices. destruct c as [s|]; cbv zeta.
  - destruct (s =? 0)%Z eqn:E.
    + split; intros _; [f_equal; lia|reflexivity].
    + split; intros H; [discriminate|]. inversion H; subst. discriminate.
  - change (1 =? 0)%Z with false. cbv iota. split; discriminate.
Qed.

(* range(lo, hi, st) holds exactly lo, lo+st, lo+2st, ... strictly before hi (in the direction of st) ... *)
Lemma py_range_In lo hi st x : st <> 0%Z ->
  In x (py_range lo hi st) <->
  exists j : nat, x = (lo + Z.of_nat j * st)%Z /\ ((0 < st /\ x < hi) \/ (st < 0 /\ hi < x))%Z.
Proof.
  intros Hne. split.
  - intros H. pose proof (py_range_bounds lo hi st x Hne H) as B.
    unfold py_range in H. apply in_map_iff in H as (j & <- & _). exists j. split; [reflexivity|lia].
  - intros (j & -> & B). unfold py_range. apply in_map_iff. exists j. split; [reflexivity|].
    apply in_seq. split; [lia|]. simpl. unfold range_len.
    destruct B as [[Hs Hx]|[Hs Hx]].
    + destruct (0 <? st)%Z eqn:E; [|lia]. destruct (lo <? hi)%Z eqn:E2; [|nia].
      assert (Z.of_nat j <= (hi - lo - 1) / st)%Z by (apply Z.div_le_lower_bound; nia). lia.
    + destruct (0 <? st)%Z eqn:E; [lia|]. destruct (hi <? lo)%Z eqn:E2; [|nia].
      assert (Z.of_nat j <= (lo - hi - 1) / - st)%Z by (apply Z.div_le_lower_bound; nia). lia.
Qed.

(* ... each once, in that order *)
Lemma sorted_map_seq {A} (R : A -> A -> Prop) (g : nat -> A) n : forall s,
  (forall i j, i < j -> R (g i) (g j)) -> StronglySorted R (map g (seq s n)).
Proof.
  induction n as [|n IH]; intros s H; simpl; constructor; auto.
  apply Forall_forall. intros y Hy. apply in_map_iff in Hy as (j & <- & Hj). apply in_seq in Hj. apply H. lia.
Qed.

Lemma py_range_sorted lo hi st : st <> 0%Z ->
  StronglySorted (fun x y => if (0 <? st)%Z then (x < y)%Z else (y < x)%Z) (py_range lo hi st).
Proof.
  intros Hne. unfold py_range. apply sorted_map_seq. intros i j Hij. destruct (0 <? st)%Z eqn:E; nia.
Qed.

Lemma py_range_NoDup lo hi st : st <> 0%Z -> NoDup (py_range lo hi st).
Proof.
  intros Hne. unfold py_range. apply Injective_map_NoDup; [|apply seq_NoDup].
  intros i j H. assert (Z.of_nat i * st = Z.of_nat j * st)%Z as H' by lia. apply Z.mul_reg_r in H'; [lia|exact Hne].
Qed.

(* the general statement, for EVERY slice (negative / out-of-range / missing start and stop, any non-zero step):
   with (lo, hi, st) the clipped bounds of slice.indices, ens[a:b:c] lists -- without repetition, in the direction of
   the step -- exactly the existing conformers lo + j*st that lie before hi *)
Theorem slice_ids_spec len a b c ids : slice_ids len a b c = Some ids ->
  exists lo hi st, slice_indices (Z.of_nat len) a b c = Some (lo, hi, st) /\ st <> 0%Z /\ NoDup ids /\
    StronglySorted (fun x y => if (0 <? st)%Z then (x < y)%Z else (y < x)%Z) ids /\
    forall x, In x ids <->
      (0 <= x < Z.of_nat len)%Z /\
      exists j : nat, x = (lo + Z.of_nat j * st)%Z /\ ((0 < st /\ x < hi) \/ (st < 0 /\ hi < x))%Z.
Proof.
  intros H. pose proof (slice_ids_in_range len a b c ids) as R. specialize (R) with (1 := H).
  unfold slice_ids in H. destruct (slice_indices (Z.of_nat len) a b c) as [[[lo hi] st]|] eqn:E; [|discriminate].
  inversion H; subst ids; clear H. exists lo, hi, st.
  assert (Hne : st <> 0%Z).
  { unfold slice_indices in E. destruct (_ =? 0)%Z eqn:E0; [discriminate|]. inversion E; subst. lia. }
  split; [reflexivity|]. split; [exact Hne|]. split; [apply py_range_NoDup; exact Hne|].
  split; [apply py_range_sorted; exact Hne|].
  intros x. rewrite (py_range_In lo hi st x Hne). split.
  - intros Hx. split; [|exact Hx]. apply R. apply py_range_In; auto.
  - tauto.
Qed.

(* ---- the slice forms by name *)
Lemma map_of_nat_shift n : forall a s,
  map (fun j => (Z.of_nat a + Z.of_nat j)%Z) (seq s n) = map Z.of_nat (seq (a + s) n).
Proof.
  induction n as [|n IH]; intros a s; simpl; [reflexivity|]. f_equal; [lia|]. rewrite IH, Nat.add_succ_r. reflexivity.
Qed.

Lemma py_range_1 lo hi : (0 <= lo)%Z ->
  py_range lo hi 1 = map Z.of_nat (seq (Z.to_nat lo) (Z.to_nat (hi - lo))).
Proof.
  intros Hlo. unfold py_range, range_len. change (0 <? 1)%Z with true. cbv iota.
  replace (Z.to_nat (if (lo <? hi)%Z then ((hi - lo - 1) / 1 + 1)%Z else 0%Z)) with (Z.to_nat (hi - lo)).
  2:{ destruct (lo <? hi)%Z eqn:E; [rewrite Z.div_1_r|]; lia. }
  transitivity (map (fun j => (Z.of_nat (Z.to_nat lo) + Z.of_nat j)%Z) (seq 0 (Z.to_nat (hi - lo)))).
  - apply map_ext. intros j. lia.
  - rewrite map_of_nat_shift, Nat.add_0_r. reflexivity.
Qed.

Lemma down_rev n : map (fun j => (Z.of_nat n - 1 - Z.of_nat j)%Z) (seq 0 n) = rev (map Z.of_nat (seq 0 n)).
Proof.
  induction n as [|n IH]; [reflexivity|].
  rewrite (seq_S n 0) at 2. rewrite map_app, rev_app_distr.
  change (rev (map Z.of_nat [0 + n])) with [Z.of_nat n]. change ([Z.of_nat n] ++ ?x) with (Z.of_nat n :: x).
  rewrite <- IH. change (seq 0 (S n)) with (0 :: seq 1 n). rewrite <- seq_shift, map_cons, map_map.
  f_equal; [lia|]. apply map_ext. intros j. lia.
Qed.

Lemma py_range_down n : py_range (Z.of_nat n - 1) (-1) (-1) = rev (map Z.of_nat (seq 0 n)).
Proof.
  unfold py_range, range_len. change (0 <? -1)%Z with false. cbv iota.
  replace (Z.to_nat (if (-1 <? Z.of_nat n - 1)%Z then ((Z.of_nat n - 1 - -1 - 1) / - -1 + 1)%Z else 0%Z)) with n.
  2:{ destruct (-1 <? Z.of_nat n - 1)%Z eqn:E; [change (- -1)%Z with 1%Z; rewrite Z.div_1_r|]; lia. }
  rewrite <- down_rev. apply map_ext. intros j. lia.
Qed.

Lemma slice_ids_fwd len a b : let L := Z.of_nat len in
  slice_ids len a b None =
  Some (py_range (match a with None => 0%Z | Some x => adj L 0 L x end) (match b with None => L | Some x => adj L 0 L x end) 1).
Proof. reflexivity. Qed.

(* ens[:] : every conformer, in order *)
Theorem slice_full len : slice_ids len None None None = Some (map Z.of_nat (seq 0 len)).
Proof. rewrite slice_ids_fwd. cbv zeta. rewrite py_range_1 by lia. do 3 f_equal; lia. Qed.

(* ens[::-1] : every conformer, in reverse order *)
Theorem slice_reversed len : slice_ids len None None (Some (-1)%Z) = Some (rev (map Z.of_nat (seq 0 len))).
Proof.
  unfold slice_ids, slice_indices. change (-1 =? 0)%Z with false. change (-1 <? 0)%Z with true. cbv iota.
  rewrite py_range_down. reflexivity.
Qed.

(* ens[:k], k >= 0 : the first k conformers; nothing at all for k = 0; all of them for k beyond the end *)
Theorem slice_prefix len k : slice_ids len None (Some (Z.of_nat k)) None = Some (map Z.of_nat (seq 0 (Nat.min k len))).
Proof.
  rewrite slice_ids_fwd. cbv zeta. unfold adj. destruct (Z.of_nat k <? 0)%Z eqn:E; [lia|].
  rewrite py_range_1 by lia. do 3 f_equal; lia.
Qed.

(* ens[k:], k >= 0 : conformers k .. len-1; nothing for k beyond the end *)
Theorem slice_suffix len k : slice_ids len (Some (Z.of_nat k)) None None = Some (map Z.of_nat (seq (Nat.min k len) (len - k))).
Proof.
  rewrite slice_ids_fwd. cbv zeta. unfold adj. destruct (Z.of_nat k <? 0)%Z eqn:E; [lia|].
  rewrite py_range_1 by lia. do 3 f_equal; lia.
Qed.

(* ens[-k:], k > 0 : the LAST k conformers (all of them when k exceeds the size), in order, none twice *)
Theorem slice_neg_start len k : 0 < k ->
  slice_ids len (Some (- Z.of_nat k)%Z) None None = Some (map Z.of_nat (seq (len - k) (Nat.min k len))).
Proof.
  intros Hk. rewrite slice_ids_fwd. cbv zeta. unfold adj. destruct (- Z.of_nat k <? 0)%Z eqn:E; [|lia].
  rewrite py_range_1 by lia. do 3 f_equal; lia.
Qed.

(* ens[:-k], k > 0 : all but the last k conformers *)
Theorem slice_neg_stop len k : 0 < k ->
  slice_ids len None (Some (- Z.of_nat k)%Z) None = Some (map Z.of_nat (seq 0 (len - k))).
Proof.
  intros Hk. rewrite slice_ids_fwd. cbv zeta. unfold adj. destruct (- Z.of_nat k <? 0)%Z eqn:E; [|lia].
  rewrite py_range_1 by lia. do 3 f_equal; lia.
Qed.

(* ens[::s], s > 0 : the conformers whose index is a multiple of s *)
Theorem slice_stride len s ids : (0 < s)%Z -> slice_ids len None None (Some s) = Some ids ->
  forall x, In x ids <-> (0 <= x < Z.of_nat len)%Z /\ (x mod s = 0)%Z.
Proof.
  intros Hs H x. apply slice_ids_spec in H as (lo & hi & st & E & Hne & _ & _ & M).
  unfold slice_indices in E. destruct (s =? 0)%Z eqn:E0; [lia|]. destruct (s <? 0)%Z eqn:E1; [lia|].
  inversion E; subst lo hi st; clear E. rewrite M. split.
  - intros (B & j & -> & _). split; [exact B|]. rewrite Z.add_0_l. apply Z.mod_mul. lia.
  - intros (B & Hm). split; [exact B|]. apply Z.mod_divide in Hm; [|lia]. destruct Hm as [z Hz].
    exists (Z.to_nat z). assert (0 <= z)%Z by nia. split; [|left; lia]. rewrite Z2Nat.id by lia. lia.
Qed.

(* ---- writing through the elements of a slice: exactly the rows the slice names are transformed, once each *)
Lemma c_map_some k f e j r : py_index (nc e) k = Some j -> nth_error (coords e) j = Some r ->
  c_map k f e = Some (with_coords e (set_nth j (map f r) (coords e))).
Proof.
  intros H1 H2. unfold c_map. unfold nc in H1.
  rewrite (upd_row_some k (fun r => Some (map f r)) (coords e) j r (map f r) H1 H2 eq_refl). reflexivity.
Qed.

Lemma c_map_all_spec f ks : forall e, NoDup ks -> (forall k, In k ks -> (0 <= k < Z.of_nat (nc e))%Z) ->
  exists e', c_map_all ks f e = Some e' /\ na e' = na e /\ nc e' = nc e /\ charges e' = charges e /\ weights e' = weights e /\
    forall j, (In (Z.of_nat j) ks -> nth_error (coords e') j = option_map (map f) (nth_error (coords e) j)) /\
              (~ In (Z.of_nat j) ks -> nth_error (coords e') j = nth_error (coords e) j).
Proof.
  induction ks as [|k r IH]; intros e Hnd Hb.
  - exists e. simpl. repeat split; auto. intros [].
  - inversion Hnd as [|? ? Hk Hr]; subst.
    assert (Bk : (0 <= k < Z.of_nat (nc e))%Z) by (apply Hb; left; reflexivity).
    set (j0 := Z.to_nat k).
    assert (P : py_index (nc e) k = Some j0). { rewrite <- (Z2Nat.id k) by lia. apply py_index_nat. lia. }
    destruct (nth_error (coords e) j0) as [r0|] eqn:E0.
    2:{ apply nth_error_None in E0. unfold nc in Bk. lia. }
    pose proof (c_map_some k f e j0 r0 P E0) as C. set (e1 := with_coords e (set_nth j0 (map f r0) (coords e))) in *.
    assert (N1 : nc e1 = nc e) by (unfold nc, e1; simpl; apply set_nth_length).
    destruct (IH e1 Hr) as (e' & R & A1 & A2 & A3 & A4 & A5).
    { intros k' Hk'. rewrite N1. apply Hb. right. exact Hk'. }
    exists e'. simpl. rewrite C. split; [exact R|]. split; [rewrite A1; reflexivity|]. split; [congruence|].
    split; [rewrite A3; reflexivity|]. split; [rewrite A4; reflexivity|].
    intros j. destruct (A5 j) as [I1 I2]. split.
    + intros [Hj|Hj].
      * assert (j = j0) by lia. subst j. rewrite I2 by (rewrite <- Hj; exact Hk).
        unfold e1; simpl. rewrite nth_error_set_nth_eq by (apply nth_error_Some; congruence). rewrite E0. reflexivity.
      * assert (j <> j0) by (intros ->; apply Hk; unfold j0 in Hj; rewrite Z2Nat.id in Hj by lia; exact Hj).
        rewrite I1 by exact Hj. unfold e1; simpl. rewrite nth_error_set_nth_neq by auto. reflexivity.
    + intros Hn. assert (j <> j0) by (intros ->; apply Hn; left; unfold j0; lia).
      rewrite I2 by (intros Hj; apply Hn; right; exact Hj). unfold e1; simpl. apply nth_error_set_nth_neq; auto.
Qed.

Theorem slice_map_spec a b c f e ids : slice_ids (nc e) a b c = Some ids ->
  exists e', slice_map a b c f e = Some e' /\ na e' = na e /\ nc e' = nc e /\ charges e' = charges e /\ weights e' = weights e /\
    forall j, (In (Z.of_nat j) ids -> nth_error (coords e') j = option_map (map f) (nth_error (coords e) j)) /\
              (~ In (Z.of_nat j) ids -> nth_error (coords e') j = nth_error (coords e) j).
Proof.
  intros H. unfold slice_map. rewrite H. apply c_map_all_spec.
  - apply slice_ids_spec in H as (lo & hi & st & _ & _ & Hnd & _). exact Hnd.
  - intros k Hk. eapply slice_ids_in_range; eauto.
Qed.

(* ------------------------------------------------------------------ the two recorded findings, as the code does them today *)
(* append onto ConformerEnsemble() (shape (0, 0, 3)): the geometry's coordinate block is adopted as it is *)
Definition append_atomless_as_coded (c : list row3) (q : list num) (e : ens) : ens := mkEns (na e) [c] [q] [n 1].

Lemma atomless_append_breaks c q e : atomless_empty e = true -> c <> [] -> ~ Rect (append_atomless_as_coded c q e).
Proof.
  unfold atomless_empty. intros H Hc (_ & _ & H3 & _). apply andb_true_iff in H as [H _]. apply Nat.eqb_eq in H.
  simpl in H3. inversion H3 as [|? ? L _]; subst. rewrite H in L. destruct c; [congruence|discriminate].
Qed.

(* ConformerEnsemble(molecule, n_conformers=0): `n_conformers or 1` *)
Definition ctor_mol_zero_as_coded (a : nat) : ens := alloc (if 0 =? 0 then 1 else 0) a.
Lemma ctor_mol_zero_yields_one a : Rect (ctor_mol_zero_as_coded a) /\ nc (ctor_mol_zero_as_coded a) = 1.
Proof. split; [apply Rect_alloc|reflexivity]. Qed.

(* ------------------------------------------------------------------ DETACHED views *)
(* detaching adds one ensemble -- a copy of ensemble i -- at the end of the store and touches nothing else *)
Lemma detach_spec W i W1 : detach W i = Some W1 ->
  exists e, nth_error (enss W) i = Some e /\ W1 = push_ens W e /\ nth_error (enss W1) (length (enss W)) = Some e /\
            iters W1 = iters W /\ (forall j, j < length (enss W) -> nth_error (enss W1) j = nth_error (enss W) j) /\
            (StoreRect W -> StoreRect W1).
Proof.
  unfold detach. destruct (nth_error (enss W) i) as [e|] eqn:E; [|discriminate]. cbn [option_map]. intros H. inversion H; subst.
  exists e. split; [reflexivity|]. split; [reflexivity|]. unfold push_ens; cbn [enss iters]. split.
  - rewrite nth_error_app2 by lia. now rewrite Nat.sub_diag.
  - split; [reflexivity|]. split.
    + intros j Hj. now rewrite nth_error_app1.
    + intros HW. apply (StoreRect_push W e HW). unfold StoreRect in HW. rewrite Forall_forall in HW. apply HW.
      eapply nth_error_In; eauto.
Qed.

(* every use of the detached conformer is the ordinary operation through conformer k of ensemble j of the store *)
Lemma detached_write_is_step W j k u e e' : u <> DRead -> nth_error (enss W) j = Some e -> duse_fun k u e = Some e' ->
  step W (duse_op j k u) = Ok (set_ens W j e') ONone.
Proof.
  intros Hu He Hf. destruct u; [contradiction| | | |]; cbn [duse_op step ens_fun duse_fun] in *; rewrite He; cbn; rewrite Hf; reflexivity.
Qed.
Lemma detached_read_is_step W j k e c q : nth_error (enss W) j = Some e -> c_get_coords k e = Some c -> c_get_charges k e = Some q ->
  step W (duse_op j k DRead) = Ok W (OConf c q) /\ duse_fun k DRead e = Some e.
Proof. intros He Hc Hq. cbn [duse_op step ens_fun read_fun duse_fun]. rewrite He, Hc, Hq. split; reflexivity. Qed.
(* hence whatever is written through a detached conformer stays in the copy: every ensemble that was there before
   (the one it was copied from included) reads as before *)
Lemma detached_original_untouched W i W1 e' : detach W i = Some W1 ->
  forall j, j < length (enss W) -> nth_error (enss (set_ens W1 (length (enss W)) e')) j = nth_error (enss W) j.
Proof.
  intros H j Hj. destruct (detach_spec W i W1 H) as [e [_ [_ [_ [_ [Hk _]]]]]].
  unfold set_ens; cbn [enss]. rewrite nth_error_set_nth_neq by lia. now apply Hk.
Qed.
