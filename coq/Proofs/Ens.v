(* C14 -- lemmas about Model/Ens.v: the rectangularity invariant over every operation and history, the lens
   laws of the Conformer view, the iteration theorems, dump / io round trip of rectangular ensembles. *)
From Coq Require Import List Bool Arith ZArith Lia.
Import ListNotations.
From Molli Require Import Model.Ens.

(* ------------------------------------------------------------------ the invariant *)
Definition Rect (e : ens) : Prop :=
  length (charges e) = length (coords e) /\ length (weights e) = length (coords e) /\
  Forall (fun r => length r = na e) (coords e) /\ Forall (fun r => length r = na e) (charges e).

Definition StoreRect (W : store) : Prop := Forall Rect (enss W).

(* ------------------------------------------------------------------ lists *)
Lemma Forall_repeat {A} (P : A -> Prop) x k : P x -> Forall P (repeat x k).
Proof. intros H. induction k; simpl; constructor; auto. Qed.

Lemma set_nth_length {A} k (x : A) l : length (set_nth k x l) = length l.
Proof. revert k; induction l as [|y l IH]; intros [|k]; simpl; auto. Qed.

Lemma nth_error_set_nth_eq {A} k (x : A) l : k < length l -> nth_error (set_nth k x l) k = Some x.
Proof.
  revert k; induction l as [|y l IH]; intros [|k] H; simpl in *; try lia; auto; try (apply IH; lia).
Qed.

Lemma nth_error_set_nth_neq {A} k j (x : A) l : j <> k -> nth_error (set_nth k x l) j = nth_error l j.
Proof.
  revert k j; induction l as [|y l IH]; intros [|k] [|j] H; simpl in *; auto; try lia; try (apply IH; lia).
Qed.

Lemma Forall_set_nth {A} (P : A -> Prop) k x l : Forall P l -> P x -> Forall P (set_nth k x l).
Proof.
  intros Hl Hx. revert k; induction Hl as [|y l Hy Hl IH]; intros [|k]; simpl; constructor; auto.
Qed.

Lemma set_nth_same {A} k (x : A) l : nth_error l k = Some x -> set_nth k x l = l.
Proof.
  revert k; induction l as [|y l IH]; intros [|k] H; simpl in *; try discriminate; auto.
  - congruence.
  - f_equal; auto.
Qed.

Lemma zipw_length {A B C} (f : A -> B -> C) l1 l2 : length l1 = length l2 -> length (zipw f l1 l2) = length l2.
Proof.
  revert l2; induction l1 as [|a l1 IH]; intros [|b l2] H; simpl in *; try discriminate; auto.
Qed.

Lemma Forall_zipw {A B C} (P : C -> Prop) (Q : B -> Prop) (f : A -> B -> C) l1 l2 :
  (forall a b, Q b -> P (f a b)) -> Forall Q l2 -> Forall P (zipw f l1 l2).
Proof.
  intros Hf Hq. revert l1; induction Hq as [|b l2 Hb Hq IH]; intros [|a l1]; simpl; constructor; auto.
Qed.

Lemma py_index_lt len i j : py_index len i = Some j -> j < len.
Proof.
  unfold py_index. intros H.
  destruct (0 <=? i)%Z eqn:E1.
  - destruct (i <? Z.of_nat len)%Z eqn:E2; inversion H; subst. lia.
  - destruct (- Z.of_nat len <=? i)%Z eqn:E3; inversion H; subst. lia.
Qed.

Lemma py_index_nat len j : j < len -> py_index len (Z.of_nat j) = Some j.
Proof.
  intros H. unfold py_index.
  destruct (0 <=? Z.of_nat j)%Z eqn:E1; [|lia].
  destruct (Z.of_nat j <? Z.of_nat len)%Z eqn:E2; [|lia]. f_equal. lia.
Qed.

Lemma lens_forallb {A} (a : nat) (l : list (list A)) :
  forallb (fun r => length r =? a) l = true <-> Forall (fun r => length r = a) l.
Proof.
  rewrite forallb_forall, Forall_forall. split; intros H x Hx.
  - apply Nat.eqb_eq; auto.
  - apply Nat.eqb_eq; auto.
Qed.

Lemma shape2_spec {A} k a (v : list (list A)) :
  shape2 k a v = true <-> length v = k /\ Forall (fun r => length r = a) v.
Proof.
  unfold shape2. rewrite andb_true_iff, Nat.eqb_eq, lens_forallb. tauto.
Qed.

(* ---- rows *)
Lemma upd_row_spec {A} k f (l l' : list (list A)) : upd_row k f l = Some l' ->
  exists j r r', py_index (length l) k = Some j /\ nth_error l j = Some r /\ f r = Some r' /\ l' = set_nth j r' l.
Proof.
  unfold upd_row. intros H.
  destruct (py_index (length l) k) as [j|] eqn:E1; [|discriminate].
  destruct (nth_error l j) as [r|] eqn:E2; [|discriminate].
  destruct (f r) as [r'|] eqn:E3; [|discriminate].
  inversion H; subst. eauto 8.
Qed.

Lemma upd_row_some {A} k f (l : list (list A)) j r r' :
  py_index (length l) k = Some j -> nth_error l j = Some r -> f r = Some r' -> upd_row k f l = Some (set_nth j r' l).
Proof. unfold upd_row. intros -> -> ->. reflexivity. Qed.

Lemma get_row_spec {A} k (l : list (list A)) r :
  get_row k l = Some r <-> exists j, py_index (length l) k = Some j /\ nth_error l j = Some r.
Proof.
  unfold get_row. destruct (py_index (length l) k) as [j|]; split.
  - eauto.
  - intros [j' [E H]]. inversion E; subst; auto.
  - discriminate.
  - intros [j' [E _]]. discriminate.
Qed.

Lemma set_elem_length {A} a (x : A) r r' : set_elem a x r = Some r' -> length r' = length r.
Proof.
  unfold set_elem. destruct (py_index (length r) a); intros H; inversion H; subst. apply set_nth_length.
Qed.

(* the generic lens facts about one array: writing row k makes row k read back as written, leaves every
   other row alone and keeps the number of rows *)
Lemma upd_row_length {A} k f (l l' : list (list A)) : upd_row k f l = Some l' -> length l' = length l.
Proof. intros H. apply upd_row_spec in H as (j & r & r' & _ & _ & _ & ->). apply set_nth_length. Qed.

Lemma upd_row_get_same {A} k f (l l' : list (list A)) : upd_row k f l = Some l' ->
  exists r, get_row k l = Some r /\ get_row k l' = f r.
Proof.
  intros H. apply upd_row_spec in H as (j & r & r' & E1 & E2 & E3 & ->).
  exists r. split.
  - apply get_row_spec; eauto.
  - rewrite E3. apply get_row_spec. exists j. rewrite set_nth_length. split; auto.
    apply nth_error_set_nth_eq. eapply py_index_lt; eauto.
Qed.

Lemma upd_row_get_other {A} k k' f (l l' : list (list A)) : upd_row k f l = Some l' ->
  py_index (length l) k' <> py_index (length l) k -> get_row k' l' = get_row k' l.
Proof.
  intros H Hne. apply upd_row_spec in H as (j & r & r' & E1 & E2 & E3 & ->).
  unfold get_row. rewrite set_nth_length.
  destruct (py_index (length l) k') as [j'|] eqn:E; auto.
  apply nth_error_set_nth_neq. congruence.
Qed.

Lemma upd_row_Forall {A} (a : nat) k f (l l' : list (list A)) :
  (forall r r', length r = a -> f r = Some r' -> length r' = a) ->
  Forall (fun r => length r = a) l -> upd_row k f l = Some l' -> Forall (fun r => length r = a) l'.
Proof.
  intros Hf Hl H. apply upd_row_spec in H as (j & r & r' & E1 & E2 & E3 & ->).
  apply Forall_set_nth; auto. eapply Hf; eauto.
  rewrite Forall_forall in Hl. apply Hl. eapply nth_error_In; eauto.
Qed.

(* ------------------------------------------------------------------ Rect: constructors *)
Lemma Rect_alloc k a : Rect (alloc k a).
Proof.
  unfold Rect, alloc; simpl. rewrite !repeat_length. repeat split.
  - apply Forall_repeat. apply repeat_length.
  - apply Forall_repeat. apply repeat_length.
Qed.

Lemma rect_b_iff e : rect_b e = true <-> Rect e.
Proof.
  unfold rect_b, Rect. rewrite !andb_true_iff, !Nat.eqb_eq, !lens_forallb. tauto.
Qed.

Lemma set_all_coords_rect v e e' : Rect e -> set_all_coords v e = Some e' -> Rect e'.
Proof.
  unfold set_all_coords. intros (H1 & H2 & H3 & H4) H.
  destruct (shape2 _ _ v) eqn:E; inversion H; subst. apply shape2_spec in E as [E1 E2].
  unfold Rect; simpl. repeat split; auto; congruence.
Qed.

Lemma set_all_charges_rect v e e' : Rect e -> set_all_charges v e = Some e' -> Rect e'.
Proof.
  unfold set_all_charges. intros (H1 & H2 & H3 & H4) H.
  destruct (shape2 _ _ v) eqn:E; inversion H; subst. apply shape2_spec in E as [E1 E2].
  unfold Rect; simpl. repeat split; auto; congruence.
Qed.

Lemma set_all_weights_rect v e e' : Rect e -> set_all_weights v e = Some e' -> Rect e'.
Proof.
  unfold set_all_weights. intros (H1 & H2 & H3 & H4) H.
  destruct (length v =? _) eqn:E; inversion H; subst. apply Nat.eqb_eq in E.
  unfold Rect; simpl. repeat split; auto; congruence.
Qed.

Lemma opt_apply_rect {A} (x : option A) f e e' :
  (forall v e e', Rect e -> f v e = Some e' -> Rect e') -> Rect e -> opt_apply x f e = Some e' -> Rect e'.
Proof.
  intros Hf He H. destruct x as [v|]; simpl in H.
  - eapply Hf; eauto.
  - inversion H; subst; auto.
Qed.

Lemma init_base_rect W src k a e : StoreRect W -> init_base W src k a = CSome e -> Rect e.
Proof.
  intros HW H. destruct src as [|a'|gs|j|g]; cbn [init_base] in H.
  - inversion H; subst. apply Rect_alloc.
  - inversion H; subst. apply Rect_alloc.
  - destruct (all_some (map (resolve W) gs)) as [[|[c0 q0] rest]|] eqn:E; try discriminate.
    + inversion H; subst. apply Rect_alloc.
    + destruct (all_some (map snd ((c0, q0) :: rest))) as [qs|] eqn:E2; try discriminate.
      destruct (set_all_charges qs _) as [e1|] eqn:E3; try discriminate.
      destruct (set_all_coords _ e1) as [e2|] eqn:E4; try discriminate.
      inversion H; subst.
      eapply set_all_coords_rect; [|eauto]. eapply set_all_charges_rect; [|eauto]. apply Rect_alloc.
  - destruct (nth_error (enss W) j) as [o|] eqn:E; inversion H; subst.
    assert (Ho : Rect o). { unfold StoreRect in HW. rewrite Forall_forall in HW. apply HW. eapply nth_error_In; eauto. }
    destruct Ho as (H1 & H2 & H3 & H4). unfold Rect; simpl. auto.
  - destruct (resolve W g) as [[c [q|]]|]; try discriminate.
    + destruct k as [[|k']|]; try discriminate; inversion H; subst; apply Rect_alloc.
    + inversion H; subst. apply Rect_alloc.
Qed.

Lemma init_rect W src k a xc xq xw e : StoreRect W -> init W src k a xc xq xw = CSome e -> Rect e.
Proof.
  intros HW H. unfold init in H.
  destruct (init_base W src k a) as [e0| |] eqn:E0; try discriminate.
  destruct (opt_apply xc set_all_coords e0) as [e1|] eqn:E1; try discriminate.
  destruct (opt_apply xq set_all_charges e1) as [e2|] eqn:E2; try discriminate.
  destruct (opt_apply xw set_all_weights e2) as [e3|] eqn:E3; try discriminate.
  inversion H; subst.
  eapply opt_apply_rect; [apply set_all_weights_rect| |eauto].
  eapply opt_apply_rect; [apply set_all_charges_rect| |eauto].
  eapply opt_apply_rect; [apply set_all_coords_rect| |eauto].
  eapply init_base_rect; eauto.
Qed.

Lemma ser_roundtrip_rect W e0 e : StoreRect W -> ser_roundtrip W e0 = CSome e -> Rect e.
Proof.
  intros HW H. unfold ser_roundtrip in H.
  destruct (reshape _ _ (concat (coords e0))); try discriminate.
  destruct (reshape _ _ (concat (charges e0))); try discriminate.
  eapply init_rect; eauto.
Qed.

(* ------------------------------------------------------------------ Rect: every operation on one ensemble *)
Lemma map_coords_rect f e : Rect e -> Rect (map_coords f e).
Proof.
  intros (H1 & H2 & H3 & H4). unfold Rect, map_coords; simpl. rewrite !map_length. repeat split; auto.
  rewrite Forall_forall in *. intros r Hr. apply in_map_iff in Hr as [r0 [<- Hr0]]. rewrite map_length. auto.
Qed.

Lemma per_conf_rect {B} (g : B -> row3 -> row3) ps e e' : Rect e -> per_conf g ps e = Some e' -> Rect e'.
Proof.
  intros He H. unfold per_conf in H.
  destruct (length ps =? nc e) eqn:E.
  - inversion H; subst. apply Nat.eqb_eq in E. unfold nc in E.
    destruct He as (H1 & H2 & H3 & H4). unfold Rect; simpl. rewrite zipw_length by auto. repeat split; auto.
    eapply Forall_zipw; [|exact H3]. intros p r Hr. simpl in *. rewrite map_length. auto.
  - destruct ps as [|p [|]]; try discriminate. inversion H; subst. apply map_coords_rect; auto.
Qed.

Lemma e_extend_rect gs e e' : Rect e -> e_extend gs e = Some e' -> Rect e'.
Proof.
  intros (H1 & H2 & H3 & H4) H. unfold e_extend in H.
  destruct gs as [|g0 gs0]; [discriminate|]. remember (g0 :: gs0) as gs eqn:Egs. clear Egs.
  destruct (forallb _ gs) eqn:E; inversion H; subst. clear H.
  rewrite forallb_forall in E.
  unfold Rect; simpl. rewrite !app_length, !map_length, repeat_length. repeat split; try lia.
  - apply Forall_app; split; auto. rewrite Forall_forall. intros r Hr.
    apply in_map_iff in Hr as [g [<- Hg]]. apply E in Hg. apply andb_true_iff in Hg as [Hg _]. apply Nat.eqb_eq; auto.
  - apply Forall_app; split; auto. rewrite Forall_forall. intros r Hr.
    apply in_map_iff in Hr as [g [<- Hg]]. apply E in Hg. apply andb_true_iff in Hg as [_ Hg]. apply Nat.eqb_eq; auto.
Qed.

Lemma e_extend_ens_rect o e e' : Rect o -> Rect e -> e_extend_ens o e = Some e' -> Rect e'.
Proof.
  intros (O1 & O2 & O3 & O4) (H1 & H2 & H3 & H4) H. unfold e_extend_ens in H.
  destruct (na o =? na e) eqn:E; inversion H; subst. apply Nat.eqb_eq in E.
  unfold Rect; simpl. rewrite !app_length. repeat split; try lia.
  - apply Forall_app; split; auto. rewrite <- E; auto.
  - apply Forall_app; split; auto. rewrite <- E; auto.
Qed.

Lemma with_coords_rect e cs : Rect e -> length cs = length (coords e) -> Forall (fun r => length r = na e) cs ->
  Rect (with_coords e cs).
Proof. intros (H1 & H2 & H3 & H4) L F. unfold Rect; simpl. repeat split; auto; congruence. Qed.

Lemma with_charges_rect e qs : Rect e -> length qs = length (charges e) -> Forall (fun r => length r = na e) qs ->
  Rect (with_charges e qs).
Proof. intros (H1 & H2 & H3 & H4) L F. unfold Rect; simpl. repeat split; auto; congruence. Qed.

Lemma upd_coords_rect k f e e' :
  (forall r r', length r = na e -> f r = Some r' -> length r' = na e) ->
  Rect e -> option_map (with_coords e) (upd_row k f (coords e)) = Some e' -> Rect e'.
Proof.
  intros Hf He H. destruct (upd_row k f (coords e)) as [cs|] eqn:E; inversion H; subst.
  apply with_coords_rect; auto.
  - eapply upd_row_length; eauto.
  - destruct He as (_ & _ & H3 & _). exact (upd_row_Forall (na e) k f (coords e) cs Hf H3 E).
Qed.

Lemma upd_charges_rect k f e e' :
  (forall r r', length r = na e -> f r = Some r' -> length r' = na e) ->
  Rect e -> option_map (with_charges e) (upd_row k f (charges e)) = Some e' -> Rect e'.
Proof.
  intros Hf He H. destruct (upd_row k f (charges e)) as [qs|] eqn:E; inversion H; subst.
  apply with_charges_rect; auto.
  - eapply upd_row_length; eauto.
  - destruct He as (_ & _ & _ & H4). exact (upd_row_Forall (na e) k f (charges e) qs Hf H4 E).
Qed.

Lemma c_map_rect k f e e' : Rect e -> c_map k f e = Some e' -> Rect e'.
Proof.
  intros He H. unfold c_map in H. eapply upd_coords_rect; [|exact He|exact H].
  intros r r' L E. inversion E; subst. rewrite map_length; auto.
Qed.

Lemma StoreRect_nth W i e : StoreRect W -> nth_error (enss W) i = Some e -> Rect e.
Proof. unfold StoreRect. rewrite Forall_forall. intros H E. apply H. eapply nth_error_In; eauto. Qed.

(* every operation that mutates one ensemble preserves Rect of that ensemble *)
Lemma ens_fun_rect_aux W o e e' : StoreRect W -> Rect e ->
  match ens_fun W o with Some (i, f) => f e = Some e' -> Rect e' | None => True end.
Proof.
  intros HW He.
  destruct o; cbn [ens_fun]; auto; intros Hf.
  - (* Append *) destruct (resolve W g); [|discriminate]. exact (e_extend_rect _ _ _ He Hf).
  - (* Extend *) destruct (all_some _); [|discriminate]. exact (e_extend_rect _ _ _ He Hf).
  - (* ExtendEns *) destruct (nth_error (enss W) j) as [o|] eqn:E; [|discriminate].
    exact (e_extend_ens_rect _ _ _ (StoreRect_nth _ _ _ HW E) He Hf).
  - (* Scale *) unfold e_scale in Hf. destruct (scale_ok _ inv); inversion Hf; subst. apply map_coords_rect; auto.
  - (* Invert *) unfold e_scale in Hf. simpl in Hf. inversion Hf; subst. apply map_coords_rect; auto.
  - inversion Hf; subst. apply map_coords_rect; auto.
  - eapply per_conf_rect; eauto.
  - inversion Hf; subst. apply map_coords_rect; auto.
  - eapply per_conf_rect; eauto.
  - eapply set_all_coords_rect; eauto.
  - eapply set_all_charges_rect; eauto.
  - eapply set_all_weights_rect; eauto.
  - (* ConfSetCoords *) unfold c_set_coords in Hf. destruct (length v =? na e) eqn:E; [|discriminate]. apply Nat.eqb_eq in E.
    eapply upd_coords_rect; [|exact He|exact Hf]. intros r r' _ Hr. inversion Hr; subst; auto.
  - (* ConfSetCoordElem *) unfold c_set_coord_elem in Hf.
    eapply upd_coords_rect; [|exact He|exact Hf]. intros r0 r' L Hr. apply set_elem_length in Hr. congruence.
  - (* ConfSetCharges *) unfold c_set_charges in Hf. destruct (length v =? na e) eqn:E; [|discriminate]. apply Nat.eqb_eq in E.
    eapply upd_charges_rect; [|exact He|exact Hf]. intros r r' _ Hr. inversion Hr; subst; auto.
  - (* ConfSetChargeElem *) unfold c_set_charge_elem in Hf.
    eapply upd_charges_rect; [|exact He|exact Hf]. intros r0 r' L Hr. apply set_elem_length in Hr. congruence.
  - (* ConfScale *) destruct (scale_ok _ false); [|discriminate]. eapply c_map_rect; eauto.
  - eapply c_map_rect; eauto.
  - eapply c_map_rect; eauto.
Qed.

Lemma ens_fun_rect W o i f e e' :
  StoreRect W -> ens_fun W o = Some (i, f) -> Rect e -> f e = Some e' -> Rect e'.
Proof. intros HW Ho He Hf. pose proof (ens_fun_rect_aux W o e e' HW He) as H. rewrite Ho in H. auto. Qed.

(* ... keeps the number of atoms, and -- unless it is append / extend -- the number of conformers *)
Lemma upd_coords_frame k f e e' : option_map (with_coords e) (upd_row k f (coords e)) = Some e' ->
  na e' = na e /\ nc e' = nc e /\ charges e' = charges e /\ weights e' = weights e.
Proof.
  intros H. destruct (upd_row k f (coords e)) as [cs|] eqn:E; inversion H; subst. unfold nc; simpl.
  repeat split; auto. eapply upd_row_length; eauto.
Qed.

Lemma upd_charges_frame k f e e' : option_map (with_charges e) (upd_row k f (charges e)) = Some e' ->
  na e' = na e /\ nc e' = nc e /\ coords e' = coords e /\ weights e' = weights e.
Proof.
  intros H. destruct (upd_row k f (charges e)) as [cs|] eqn:E; inversion H; subst. unfold nc; simpl. auto.
Qed.

Lemma per_conf_nc {B} (g : B -> row3 -> row3) ps e e' : per_conf g ps e = Some e' -> na e' = na e /\ nc e' = nc e.
Proof.
  unfold per_conf. intros H. destruct (length ps =? nc e) eqn:E.
  - inversion H; subst. apply Nat.eqb_eq in E. unfold nc in *; simpl. rewrite zipw_length; auto.
  - destruct ps as [|p [|]]; try discriminate. inversion H; subst. unfold nc; simpl. rewrite map_length; auto.
Qed.

Lemma ens_fun_frame_aux W o e e' :
  match ens_fun W o with
  | Some (i, f) => f e = Some e' -> na e' = na e /\ (resizing o = false -> nc e' = nc e)
  | None => True
  end.
Proof.
  destruct o; cbn [ens_fun resizing]; auto; intros Hf.
  - destruct (resolve W g); [|discriminate]. unfold e_extend in Hf.
    destruct (forallb _ _); inversion Hf; subst; simpl. split; auto; discriminate.
  - destruct (all_some _) as [rs|]; [|discriminate]. unfold e_extend in Hf.
    destruct (map with_zeros rs); [discriminate|]. destruct (forallb _ _); inversion Hf; subst; simpl. split; auto; discriminate.
  - destruct (nth_error (enss W) j); [|discriminate]. unfold e_extend_ens in Hf.
    destruct (_ =? _); inversion Hf; subst; simpl. split; auto; discriminate.
  - unfold e_scale in Hf. destruct (scale_ok _ inv); inversion Hf; subst. unfold nc; simpl. rewrite map_length; auto.
  - unfold e_scale in Hf. simpl in Hf. inversion Hf; subst. unfold nc; simpl. rewrite map_length; auto.
  - inversion Hf; subst. unfold nc; simpl. rewrite map_length; auto.
  - apply per_conf_nc in Hf. tauto.
  - inversion Hf; subst. unfold nc; simpl. rewrite map_length; auto.
  - apply per_conf_nc in Hf. tauto.
  - unfold set_all_coords in Hf. destruct (shape2 _ _ v) eqn:E; inversion Hf; subst. apply shape2_spec in E as [E _].
    unfold nc; simpl. auto.
  - unfold set_all_charges in Hf. destruct (shape2 _ _ v); inversion Hf; subst. unfold nc; simpl; auto.
  - unfold set_all_weights in Hf. destruct (_ =? _); inversion Hf; subst. unfold nc; simpl; auto.
  - unfold c_set_coords in Hf. destruct (_ =? _); [|discriminate]. apply upd_coords_frame in Hf. tauto.
  - unfold c_set_coord_elem in Hf. apply upd_coords_frame in Hf. tauto.
  - unfold c_set_charges in Hf. destruct (_ =? _); [|discriminate]. apply upd_charges_frame in Hf. tauto.
  - unfold c_set_charge_elem in Hf. apply upd_charges_frame in Hf. tauto.
  - destruct (scale_ok _ false); [|discriminate]. unfold c_map in Hf. apply upd_coords_frame in Hf. tauto.
  - unfold c_map in Hf. apply upd_coords_frame in Hf. tauto.
  - unfold c_map in Hf. apply upd_coords_frame in Hf. tauto.
Qed.

Lemma ens_fun_frame W o i f e e' :
  ens_fun W o = Some (i, f) -> f e = Some e' -> na e' = na e /\ (resizing o = false -> nc e' = nc e).
Proof. intros Ho Hf. pose proof (ens_fun_frame_aux W o e e') as H. rewrite Ho in H. auto. Qed.

(* ------------------------------------------------------------------ inversion of one step *)
Inductive Rect_src (W : store) (o : op) (e : ens) : Prop :=
| RS_new src k a xc xq xw : o = New src k a xc xq xw -> init W src k a xc xq xw = CSome e -> Rect_src W o e
| RS_ser i e0 : o = Serialise i -> nth_error (enss W) i = Some e0 -> ser_roundtrip W e0 = CSome e -> Rect_src W o e.

Inductive step_shape (W : store) (o : op) (W' : store) (w : out) : Prop :=
| SS_new e : W' = push_ens W e -> w = ONone -> Rect_src W o e -> step_shape W o W' w
| SS_iter_new i : o = IterNew i -> nth_error (enss W) i <> None ->
    W' = mkStore (enss W) (iters W ++ [(i, O)]) -> w = ONone -> step_shape W o W' w
| SS_iter_yield t i c e : o = IterNext t -> nth_error (iters W) t = Some (i, c) -> nth_error (enss W) i = Some e ->
    c < nc e -> W' = mkStore (enss W) (set_nth t (i, S c) (iters W)) -> w = OYield (Some c) -> step_shape W o W' w
| SS_iter_stop t i c e : o = IterNext t -> nth_error (iters W) t = Some (i, c) -> nth_error (enss W) i = Some e ->
    nc e <= c -> W' = W -> w = OYield None -> step_shape W o W' w
| SS_ens i f e e' : ens_fun W o = Some (i, f) -> nth_error (enss W) i = Some e -> f e = Some e' ->
    W' = set_ens W i e' -> w = ONone -> step_shape W o W' w
| SS_read i f e : ens_fun W o = None -> read_fun o = Some (i, f) -> nth_error (enss W) i = Some e -> f e = Some w ->
    W' = W -> step_shape W o W' w.

Ltac inv_generic H :=
  cbn [step ens_fun read_fun] in H;
  match type of H with context [nth_error (enss ?W) ?i] =>
    let e := fresh "e" in let E0 := fresh "E0" in
    destruct (nth_error (enss W) i) as [e|] eqn:E0; [|discriminate];
    try (destruct (atomless_empty e); [discriminate|]);
    try (match type of H with context [match ?x with Some _ => _ | None => Err end] =>
           let E1 := fresh "E1" in destruct x eqn:E1; [|discriminate] end);
    inversion H; subst;
    first [ eapply SS_ens; [reflexivity|eassumption|first [eassumption|reflexivity]|reflexivity|reflexivity]
          | eapply SS_read; [reflexivity|reflexivity|eassumption|first [eassumption|reflexivity]|reflexivity] ]
  end.

Lemma step_ok_inv W o W' w : step W o = Ok W' w -> step_shape W o W' w.
Proof.
  intros H. destruct o; try solve [inv_generic H].
  - (* New *) cbn [step] in H. destruct (init W src nc_arg na_arg xc xq xw) as [e| |] eqn:E; simpl in H; try discriminate.
    inversion H; subst. eapply SS_new; eauto. eapply RS_new; eauto.
  - (* Serialise *) cbn [step] in H. destruct (nth_error (enss W) i) as [e0|] eqn:E0; try discriminate.
    destruct (ser_roundtrip W e0) as [e| |] eqn:E; simpl in H; try discriminate.
    inversion H; subst. eapply SS_new; eauto. eapply RS_ser; eauto.
  - (* IterNew *) cbn [step] in H. destruct (nth_error (enss W) i) eqn:E0; try discriminate.
    inversion H; subst. eapply SS_iter_new; eauto. congruence.
  - (* IterNext *) cbn [step] in H. destruct (nth_error (iters W) t) as [[i c]|] eqn:E0; try discriminate.
    destruct (nth_error (enss W) i) as [e|] eqn:E1; try discriminate.
    destruct (c <? nc e) eqn:E2; inversion H; subst.
    + apply Nat.ltb_lt in E2. eapply SS_iter_yield; eauto.
    + apply Nat.ltb_ge in E2. eapply SS_iter_stop; eauto.
Qed.
