(* C14 -- lemmas about Model/Ens.v *)
From Coq Require Import List Bool Arith ZArith Lia.
Import ListNotations.
From Molli Require Import Model.Ens.

Definition Rect (e : ens) : Prop :=
  length (charges e) = length (coords e) /\ length (weights e) = length (coords e) /\
  Forall (fun r => length r = na e) (coords e) /\ Forall (fun r => length r = na e) (charges e).

Lemma Forall_repeat {A} (P : A -> Prop) x k : P x -> Forall P (repeat x k).
Proof. intros H. induction k; simpl; constructor; auto. Qed.

Lemma Rect_alloc k a : Rect (alloc k a).
Proof.
  unfold Rect, alloc; simpl. rewrite !repeat_length. repeat split.
  - apply Forall_repeat. apply repeat_length.
  - apply Forall_repeat. apply repeat_length.
Qed.
