(* The effects of the translated methods on the file: replay = exec; put only appends; hence the crash images of a put
   are exactly the family C03_crash_reopen quantifies over (committed file followed by a prefix of the new block). *)
From Coq Require Import NArith Arith List Bool String Lia ZifyNat ZifyN.
Import ListNotations.
From Molli Require Import Model.UKV Model.MiniPy Gen.UKVCode Proofs.UKVBase Proofs.UKV Proofs.UKVCode.
Open Scope string_scope.
Open Scope N_scope.

Lemma replay_app f a b : replay f (a ++ b)%list = replay (replay f a) b.
Proof. unfold replay. apply fold_left_app. Qed.

(* replaying the loop's effects gives the loop's final file, given that for its two parts *)
Lemma wloop_eff_replay ec eb fc fb x :
  (forall s, replay (file s) (fc s) = file (fst (ec s))) ->
  (forall s, replay (file s) (fb s) = file (fst (eb s))) ->
  forall n s, replay (file s) (wloop_eff ec eb fc fb x n s) = file (fst (wloop ec eb x n s)).
Proof.
  intros Hc Hb. induction n as [|n IH]; intros s; [reflexivity|].
  cbn [wloop wloop_eff]. specialize (Hc s). destruct (ec s) as [s1 o] eqn:E1. cbn [fst] in Hc.
  rewrite replay_app, Hc.
  destruct o; cbn [replay fold_left fst]; try reflexivity.
  destruct (lookup_env (locals s1) x) as [v|]; [|reflexivity].
  destruct (truthy v); [|reflexivity].
  specialize (Hb s1). destruct (eb s1) as [s2 o2] eqn:E2. cbn [fst] in Hb.
  rewrite replay_app, Hb. destruct o2; cbn [replay fold_left fst]; try reflexivity. apply IH.
Qed.

(* replaying the effects of a run reproduces the file the run ends with *)
Theorem effects_replay fuel : forall c s, replay (file s) (effects fuel c s) = file (fst (exec fuel c s)).
Proof.
  induction c as [ |a IHa b IHb|x e|a e|k v|cnd a IHa b IHb|cnd IHcnd x body IHbody| |z|e|e|e|x|x n|e|e| |w|x h d|args body IHbody|args body IHbody
                 |body IHbody handler IHh els IHe| ]; intros s; cbn [effects exec]; try reflexivity.
  - (* SSeq *) specialize (IHa s). destruct (exec fuel a s) as [s1 o] eqn:E1. cbn [fst] in IHa.
    rewrite replay_app, IHa. destruct o; cbn [replay fold_left]; try reflexivity. apply IHb.
  - (* SAssign *) destruct (eval s e); reflexivity.
  - (* SSetAttr *) destruct (eval s e); reflexivity.
  - (* STocSet *) destruct (eval s k) as [[]|]; try reflexivity. destruct (eval s v) as [[]|]; try reflexivity.
    destruct (lookup_env (attrs s) "_toc") as [[]|]; reflexivity.
  - (* SIf *) destruct (eval s cnd) as [v|]; [|reflexivity]. destruct (truthy v); [apply IHa|apply IHb].
  - (* SWhile *) apply wloop_eff_replay; assumption.
  - (* SReturn *) destruct (eval s e); reflexivity.
  - (* SSeek *) destruct (s_closed (strm s)); [reflexivity|]. destruct (eval s e) as [[]|]; reflexivity.
  - (* SSeekRel *) destruct (s_closed (strm s)); [reflexivity|]. destruct (eval s e) as [[]|]; reflexivity.
  - (* SSeekEnd *) destruct (s_closed (strm s)); reflexivity.
  - (* SRead *) destruct (s_closed (strm s)); [reflexivity|]. destruct (eval s n) as [[]|]; reflexivity.
  - (* SWrite *) destruct (s_closed (strm s)); [reflexivity|]. destruct (eval s e) as [[]|]; try reflexivity.
    destruct (s_wr (strm s)); reflexivity.
  - (* STruncate *) destruct (s_closed (strm s)); [reflexivity|]. destruct (eval s e) as [[]|]; try reflexivity.
    destruct (s_wr (strm s)); reflexivity.
  - (* SUnpackRead *) destruct (s_closed (strm s)); [reflexivity|]. unfold do_read. destruct (unpack h _); reflexivity.
  - (* SCall *) assert (Fb : forall s0, bind_args s s0 args = Val s0 \/ True) by (intros; right; exact I).
    assert (Ff : forall a acc s0, bind_args s acc a = Val s0 -> file s0 = file acc).
    { induction a as [|[p e] a IHa]; intros acc s0 H; cbn [bind_args] in H; [inversion H; reflexivity|].
      destruct (eval s e); [|discriminate]. rewrite (IHa _ _ H). reflexivity. }
    destruct (bind_args s s args) as [s0|z] eqn:Eb; [|reflexivity]. pose proof (Ff _ _ _ Eb) as F0.
    specialize (IHbody s0). destruct (exec fuel body s0) as [s1 o]. cbn [fst restore_locals file] in *. rewrite <- F0, IHbody. destruct o; reflexivity.
  - (* SCallRet *)
    assert (Ff : forall a acc s0, bind_args s acc a = Val s0 -> file s0 = file acc).
    { induction a as [|[p e] a IHa]; intros acc s0 H; cbn [bind_args] in H; [inversion H; reflexivity|].
      destruct (eval s e); [|discriminate]. rewrite (IHa _ _ H). reflexivity. }
    destruct (bind_args s s args) as [s0|z] eqn:Eb; [|reflexivity]. pose proof (Ff _ _ _ Eb) as F0.
    specialize (IHbody s0). destruct (exec fuel body s0) as [s1 o]. cbn [fst restore_locals file] in *. rewrite <- F0, IHbody. destruct o; reflexivity.
  - (* STryElse *) specialize (IHbody s). destruct (exec fuel body s) as [s1 o] eqn:E1. cbn [fst] in IHbody.
    rewrite replay_app, IHbody. destruct o; cbn [replay fold_left]; try reflexivity.
    + apply IHe.
    + specialize (IHh s1). destruct (exec fuel handler s1) as [s2 o2]. cbn [fst] in *. fold (replay (file s1) (effects fuel handler s1)).
      rewrite IHh. destruct o2; reflexivity.
Qed.

(* effects that append: replay is concatenation, and every crash image is the file followed by a prefix of the appended bytes *)
Lemma appended_replay : forall l f b, appended (len f) l = Some b -> replay f l = (f ++ b)%list.
Proof.
  induction l as [|[p w|n] l IH]; intros f b H; cbn [appended] in H.
  - inversion H. cbn. symmetry. apply app_nil_r.
  - destruct (p =? len f) eqn:Ep; [|discriminate]. apply N.eqb_eq in Ep. subst p.
    destruct (appended (len f + len w) l) as [r|] eqn:Er; [|discriminate]. inversion H; subst b.
    cbn [replay fold_left apply_effect]. rewrite write_at_end. fold (replay (f ++ w)%list l).
    rewrite (IH (f ++ w)%list r) by (rewrite len_app; exact Er). rewrite <- app_assoc. reflexivity.
  - discriminate.
Qed.

Lemma firstn_app_prefix (w r : bytes) j : (j <= List.length w)%nat -> firstn j w = firstn j (w ++ r).
Proof. intros H. rewrite firstn_app. replace (j - List.length w)%nat with 0%nat by lia. cbn. rewrite app_nil_r. reflexivity. Qed.

Theorem appended_images : forall l f b img, appended (len f) l = Some b -> is_image f l img ->
  exists n, img = (f ++ firstn n b)%list.
Proof.
  induction l as [|e l IH]; intros f b img H I.
  - inversion I; subst. exists 0%nat. cbn. symmetry. apply app_nil_r.
  - inversion I; subst.
    + exists 0%nat. cbn. symmetry. apply app_nil_r.
    + destruct e as [p w|n]; cbn [appended] in H; [|discriminate].
      destruct (p =? len f) eqn:Ep; [|discriminate]. apply N.eqb_eq in Ep. subst p.
      destruct (appended (len f + len w) l) as [r|] eqn:Er; [|discriminate]. inversion H; subst b.
      cbn [apply_effect] in *. rewrite write_at_end in *.
      destruct (IH (f ++ w)%list r img) as [n Hn]; [rewrite len_app; exact Er|assumption|].
      exists (List.length w + n)%nat. rewrite Hn, <- app_assoc. f_equal.
      rewrite firstn_app. rewrite (firstn_all2 w) by lia. replace (List.length w + n - List.length w)%nat with n by lia. reflexivity.
    + cbn [appended] in H. destruct (p =? len f) eqn:Ep; [|discriminate]. apply N.eqb_eq in Ep. subst p.
      destruct (appended (len f + len b0) l) as [r|]; [|discriminate]. inversion H; subst b.
      exists j. rewrite write_at_end. f_equal. apply firstn_app_prefix. lia.
Qed.

(* put(key, value) of a fresh key of legal size through an open append handle: its effects on the file are writes only,
   contiguous from the handle's end of file, and what they append is exactly the encoded block *)
Theorem put_effects fuel s h k v e :
  Rep s h -> lookup_env (locals s) "key" = Some (VBytes k) -> lookup_env (locals s) "value" = Some (VBytes v) ->
  closed h = false -> md h = MA -> lookup (toc h) k = None -> wfb k v = true -> eof h = Some e ->
  appended e (effects fuel put_prog s) = Some (encb k v).
Proof.
  intros R Lk Lv Hc Hm Hl Hw He. destruct s as [f [p w c] at_ lo]. destruct R as [Rt Rl Re Rc Rs Rn]. env.
  rewrite Hc in *. destruct (Rs eq_refl) as [Hcl Hwr]. subst c. rewrite Hm in Hwr. subst w.
  unfold wfb in Hw.
  unfold put_prog.
  repeat (progress (cbn [effects exec eval attrs locals strm s_closed s_wr s_pos file truthy negb set_local set_attr set_pos app vopt_int vopt_bytes];
                    repeat (first [rewrite lookup_set_same | rewrite lookup_set_other by discriminate]);
                    rewrite ?Rc, ?Rt, ?Lk, ?Lv, ?Re, ?Hl, ?He; unfold pack_blk; rewrite ?Hw)).
  cbn [appended vopt_int]. rewrite ?N.eqb_refl.
  repeat (match goal with |- context [?a =? ?a] => rewrite (N.eqb_refl a) end).
  cbn [appended]. unfold encb. cbn [app]. rewrite ?app_nil_r, <- ?app_assoc. reflexivity.
Qed.

(* hence: when the handle's end of file is the end of the file (every open append handle under C02's invariant), every
   crash image of a put -- the file after any number of its complete writes plus any proper prefix of the next --
   is the committed file followed by a prefix of the encoded block: the family C03_crash_reopen quantifies over *)
Theorem put_crash_images fuel s h k v img :
  Rep s h -> lookup_env (locals s) "key" = Some (VBytes k) -> lookup_env (locals s) "value" = Some (VBytes v) ->
  closed h = false -> md h = MA -> lookup (toc h) k = None -> wfb k v = true -> eof h = Some (len (file s)) ->
  is_image (file s) (effects fuel put_prog s) img ->
  exists n, img = (file s ++ firstn n (encb k v))%list.
Proof.
  intros R Lk Lv Hc Hm Hl Hw He I.
  apply (appended_images _ _ _ _ (put_effects fuel s h k v _ R Lk Lv Hc Hm Hl Hw He) I).
Qed.

(* ---------- opening a file writes nothing, except possibly one cut of a torn tail ---------- *)
Fixpoint no_writes (c : stmt) : bool :=
  match c with
  | SWrite _ | STruncate _ => false
  | SSeq a b | SIf _ a b | SWhile a _ b => no_writes a && no_writes b
  | SCall _ a | SCallRet _ a => no_writes a
  | STryElse a b c0 => no_writes a && no_writes b && no_writes c0
  | _ => true
  end.

Lemma wloop_eff_nil ec eb fc fb x : (forall s, fc s = []) -> (forall s, fb s = []) -> forall n s, wloop_eff ec eb fc fb x n s = [].
Proof.
  intros Hc Hb. induction n as [|n IH]; intros s; [reflexivity|]. cbn [wloop_eff].
  destruct (ec s) as [s1 o]. rewrite Hc. destruct o; try reflexivity. destruct (lookup_env (locals s1) x); [|reflexivity].
  destruct (truthy v); [|reflexivity]. destruct (eb s1) as [s2 o2]. rewrite Hb. destruct o2; try reflexivity. apply IH.
Qed.

Lemma no_writes_no_effects fuel : forall c s, no_writes c = true -> effects fuel c s = [].
Proof.
  induction c as [ |a IHa b IHb|x e|a e|k v|cnd a IHa b IHb|cnd IHcnd x body IHbody| |z|e|e|e|x|x n|e|e| |w|x h d|args body IHbody|args body IHbody
                 |body IHbody handler IHh els IHe| ]; intros s H; cbn [effects no_writes] in *; try reflexivity; try discriminate.
  - apply andb_prop in H. destruct H as [Ha Hb]. destruct (exec fuel a s) as [s1 o]. rewrite IHa by exact Ha.
    destruct o; try reflexivity. apply IHb; exact Hb.
  - apply andb_prop in H. destruct H as [Ha Hb]. destruct (eval s cnd) as [v|]; [|reflexivity]. destruct (truthy v); [apply IHa|apply IHb]; assumption.
  - apply andb_prop in H. destruct H as [Ha Hb]. apply wloop_eff_nil; intros s0; [apply IHcnd|apply IHbody]; assumption.
  - destruct (bind_args s s args); [apply IHbody; exact H|reflexivity].
  - destruct (bind_args s s args); [apply IHbody; exact H|reflexivity].
  - apply andb_prop in H. destruct H as [H Hc]. apply andb_prop in H. destruct H as [Ha Hb].
    destruct (exec fuel body s) as [s1 o]. rewrite IHbody by exact Ha. destruct o; try reflexivity; [apply IHe|apply IHh]; assumption.
Qed.

(* effects of a statement whose writes are confined to its last part *)
Lemma effects_seq_pure fuel a b s : no_writes a = true ->
  effects fuel (SSeq a b) s = (let '(s1, o) := exec fuel a s in match o with ONormal => effects fuel b s1 | _ => [] end).
Proof. intros H. cbn [effects]. destruct (exec fuel a s) as [s1 o]. rewrite (no_writes_no_effects fuel a s H). reflexivity. Qed.

Definition at_most_one_cut (l : list effect) : Prop := l = [] \/ exists n, l = [ET n].

Lemma effects_if_truncate fuel c e s : at_most_one_cut (effects fuel (SIf c (STruncate e) SSkip) s).
Proof.
  cbn [effects]. destruct (eval s c) as [v|]; [|left; reflexivity]. destruct (truthy v); [|left; reflexivity].
  destruct (s_closed (strm s)); [left; reflexivity|]. destruct (eval s e) as [[]|]; try (left; reflexivity).
  destruct (s_wr (strm s)); [right; eexists; reflexivity|left; reflexivity].
Qed.

(* map_blocks: every statement before the final `if pos < size and writable: truncate(pos)` is free of writes *)
Theorem map_blocks_effects fuel s : at_most_one_cut (effects fuel map_blocks_prog s).
Proof.
  unfold map_blocks_prog.
  repeat (rewrite effects_seq_pure by reflexivity;
          match goal with |- at_most_one_cut (let '(s1, o) := ?x in _) => destruct x as [? []]; try (left; reflexivity) end).
  apply effects_if_truncate.
Qed.

(* read_header writes nothing; so opening a handle (read_header; map_blocks) changes the file by at most one cut *)
Theorem read_header_effects fuel s : effects fuel read_header_prog s = [].
Proof. apply no_writes_no_effects. reflexivity. Qed.
