(* C13: lemmas about Model/Cdx.v.
   Part 1 (lists, Z, Q, strings only): the per-node / per-bond decisions, fragment assembly, nested joins,
           wedge <-> hash at the decision level, the label cache.
   Part 2 (over the real numbers, reusing the C11 development): the 3-D interpretation of stereo bonds and
           its behaviour under the mirror through the drawing plane. *)
From Coq Require Import List ZArith NArith QArith String Bool Lia.
From Coq Require Import Reals Nsatz Lra.
From Molli Require Import Common.Field3 Common.Field3R Model.Rot Proofs.Rot Model.Cdx.
Import ListNotations.

(* ====================================================================== Part 1 *)
(* ---------------- per-node / per-bond decisions ---------------- *)
Lemma parse_atom_node_spec (n : xnode) (a : atom) : parse_atom_node n = Ok a ->
  a_iso a = n_iso n /\ a_charge a = odflt 0%Z (n_charge n) /\ a_spin a = rad_code (n_rad n) /\ a_implh a = n_numh n /\
  (if is_special (n_type n) then a_atype a = ATAttachment /\ a_elem a = 0%Z
   else a_atype a = ATRegular /\ a_elem a = odflt 6%Z (n_elem n) /\ a_label a = n_anum n).
Proof.
  unfold parse_atom_node. intros H.
  destruct (n_type n); simpl in *;
    try (destruct (valid_element _); [|discriminate]);
    try (destruct (n_text n); [|discriminate]);
    inversion H; subst; simpl; repeat split; reflexivity.
Qed.

Lemma parse_atom_node_total (n : xnode) :
  (is_special (n_type n) = false -> valid_element (odflt 6%Z (n_elem n)) = true) ->
  (n_type n = NTUnspecified -> n_text n <> None) ->
  exists a, parse_atom_node n = Ok a.
Proof.
  unfold parse_atom_node. intros Hv Ht.
  destruct (n_type n) eqn:E; simpl in *; try (rewrite Hv by reflexivity); eauto.
  destruct (n_text n); [eauto | exfalso; apply Ht; reflexivity].
Qed.

Lemma parse_bond_type_drawn (o : xorder) (d : display) (q : Q) :
  drawn_order o = Some q -> d <> DDash -> exists t, parse_bond_type o d = Ok t /\ Qeq (order_of_btype t) q.
Proof.
  intros Ho Hd. destruct o as [|z| |]; simpl in Ho; try discriminate.
  - inversion Ho; subst. exists BT_Single. split; [destruct d; try reflexivity; contradiction | reflexivity].
  - destruct ((1 <=? z)%Z && (z <=? 6)%Z) eqn:R; [|discriminate]. inversion Ho; subst.
    apply andb_true_iff in R. destruct R as [R1 R2]. apply Z.leb_le in R1. apply Z.leb_le in R2.
    assert (Hz : (z = 1 \/ z = 2 \/ z = 3 \/ z = 4 \/ z = 5 \/ z = 6)%Z) by lia.
    destruct Hz as [->|[->|[->|[->|[->| ->]]]]];
      (eexists; split; [destruct d; try reflexivity; contradiction | reflexivity]).
  - inversion Ho; subst. exists BT_Aromatic. split; [destruct d; try reflexivity; contradiction | reflexivity].
Qed.
Lemma parse_bond_type_dash (o : xorder) (t : N) : parse_bond_type o DDash = Ok t -> t = BT_Ligand.
Proof.
  unfold parse_bond_type. destruct o as [|z| |]; try discriminate.
  - intros H; inversion H; reflexivity.
  - destruct (zmem z bondtype_values); [|discriminate]. intros H; inversion H; reflexivity.
  - intros H; inversion H; reflexivity.
Qed.

(* ---------------- mirror: decision level ---------------- *)
Lemma mirror_display_invol d : mirror_display (mirror_display d) = d.
Proof. destruct d; reflexivity. Qed.
Lemma display_action_mirror d : display_action (mirror_display d) = neg_action (display_action d).
Proof. destruct d; reflexivity. Qed.
Lemma mirror_fixes_unmarked d : display_action d = None -> mirror_display d = d.
Proof. destruct d; simpl; intros H; try reflexivity; discriminate. Qed.
Lemma mirror_marked d : display_action d <> None -> mirror_display d <> d.
Proof. destruct d; simpl; intros H; try discriminate; contradiction. Qed.
Lemma parse_bond_type_mirror o d : parse_bond_type o (mirror_display d) = parse_bond_type o d.
Proof. destruct o as [|z| |]; destruct d; reflexivity. Qed.

Lemma pat_eqb_eq x y : pat_eqb x y = true -> x = y.
Proof.
  destruct x as [[[zb ze] c] [[[mb me] mc] s]]. destruct y as [[[zb' ze'] c'] [[[mb' me'] mc'] s']]. simpl. intros H.
  repeat (apply andb_true_iff in H; destruct H as [H ?]).
  repeat match goal with
         | E : Z.eqb _ _ = true |- _ => apply Z.eqb_eq in E
         | E : Bool.eqb _ _ = true |- _ => apply Bool.eqb_prop in E
         end.
  subst. assert (c = c') by (destruct c, c'; try reflexivity; discriminate). subst. reflexivity.
Qed.
Lemma mirror_table_sound (tbl : list display_row) : mirror_table_ok tbl = true -> forall d, In d all_displays ->
  exists r r', row_of tbl d = Some r /\ row_of tbl (mirror_display d) = Some r' /\ (snd (fst r'), snd r') = neg_row r.
Proof.
  unfold mirror_table_ok. intros H d Hd. rewrite forallb_forall in H. specialize (H d Hd).
  destruct (row_of tbl d) as [r|]; [|discriminate]. destruct (row_of tbl (mirror_display d)) as [r'|]; [|discriminate].
  exists r, r'. repeat split. symmetry. apply pat_eqb_eq, H.
Qed.
Lemma all_displays_complete d : In d all_displays.
Proof. destruct d; simpl; tauto. Qed.

(* ---------------- assembly ---------------- *)
Definition is_multi (n : xnode) : bool := match n_type n with NTMulti => true | _ => false end.
Definition plain (ns : list xnode) : list xnode := filter (fun n => negb (is_multi n)) ns.

Lemma scan_nodes_spec (ns : list xnode) : forall ma ats, scan_nodes ns = Ok (ma, ats) ->
  map fst ats = map n_id (plain ns) /\
  Forall2 (fun n a => parse_atom_node n = Ok a) (plain ns) (map snd ats) /\
  ma = map (fun n => (n_id n, n_attach n)) (filter is_multi ns).
Proof.
  induction ns as [|n ns IH]; intros ma ats H; simpl in H.
  - inversion H; subst. simpl. repeat split; constructor.
  - unfold plain, is_multi in *. simpl.
    destruct (n_type n) eqn:T; simpl in *;
    try (destruct (parse_atom_node n) as [a|] eqn:P; simpl in H; [|discriminate]);
    destruct (scan_nodes ns) as [[ma' ats']|] eqn:S; simpl in H; try discriminate;
    inversion H; subst; destruct (IH _ _ eq_refl) as [I1 [I2 I3]]; simpl;
    repeat split; try (f_equal; assumption); try (constructor; assumption); try assumption.
Qed.

Lemma mark_from_length cs l : forall i, List.length (mark_from cs i l) = List.length l.
Proof. induction l as [|a l IH]; intros i; simpl; [reflexivity | now rewrite IH]. Qed.
Lemma set_atype_charge t a : a_charge (set_atype t a) = a_charge a. Proof. reflexivity. Qed.
Lemma mark_from_charge cs l : forall i, map a_charge (mark_from cs i l) = map a_charge l.
Proof. induction l as [|a l IH]; intros i; simpl; [reflexivity|]. rewrite IH. now destruct (existsb _ cs). Qed.
Lemma mark_from_spin cs l : forall i, map a_spin (mark_from cs i l) = map a_spin l.
Proof. induction l as [|a l IH]; intros i; simpl; [reflexivity|]. rewrite IH. now destruct (existsb _ cs). Qed.
Lemma mark_from_nil l : forall i, mark_from [] i l = l.
Proof. induction l as [|a l IH]; intros i; simpl; [reflexivity | now rewrite IH]. Qed.
(* every atom is the parsed one, except that hapto centres are re-typed *)
Lemma mark_from_rel cs l : forall i, Forall2 (fun a0 a => a = a0 \/ a = set_atype ATCoord a0) l (mark_from cs i l).
Proof. induction l as [|a l IH]; intros i; simpl; constructor; [destruct (existsb _ cs); auto | apply IH]. Qed.

(* the drawn formal charges / radical codes *)
Definition drawn_charge (n : xnode) : Z := odflt 0%Z (n_charge n).
Definition drawn_spin (n : xnode) : Z := rad_code (n_rad n).

Lemma Forall2_len {A B} (R : A -> B -> Prop) l m : Forall2 R l m -> List.length l = List.length m.
Proof. induction 1; simpl; congruence. Qed.
Lemma Forall2_map_eq {A B C} (f : A -> C) (g : B -> C) (R : A -> B -> Prop) l m :
  Forall2 R l m -> (forall x y, R x y -> f x = g y) -> map f l = map g m.
Proof. induction 1; intros H'; simpl; [reflexivity|]. f_equal; auto. Qed.

Theorem assemble_atoms (ns : list xnode) (xbs : list xbond) (m : mol) : assemble ns xbs = Ok m ->
  List.length (m_atoms m) = List.length (plain ns) /\
  Forall2 (fun n a => exists a0, parse_atom_node n = Ok a0 /\ (a = a0 \/ a = set_atype ATCoord a0)) (plain ns) (m_atoms m) /\
  m_charge m = zsum (map drawn_charge (plain ns)) /\
  m_mult m = (zsum (map drawn_spin (plain ns)) + 1)%Z.
Proof.
  unfold assemble. intros H.
  destruct (scan_nodes ns) as [[ma ats]|] eqn:S; simpl in H; [|discriminate].
  destruct (scan_bonds ma (map fst ats) xbs) as [[bs cs]|] eqn:B; simpl in H; [|discriminate].
  inversion H; subst; clear H. simpl.
  destruct (scan_nodes_spec _ _ _ S) as [I1 [I2 I3]].
  assert (L : List.length (map snd ats) = List.length (plain ns)) by (symmetry; eapply Forall2_len; eauto).
  unfold mark_centers, total_charge, total_spin. rewrite mark_from_length, mark_from_charge, mark_from_spin.
  repeat split.
  - exact L.
  - pose proof (mark_from_rel cs (map snd ats) 0) as M. clear - I2 M.
    revert M. generalize (mark_from cs 0 (map snd ats)). induction I2; intros lm M; inversion M; subst; constructor; eauto.
  - f_equal. symmetry. eapply Forall2_map_eq; [exact I2|]. intros n a P. apply parse_atom_node_spec in P. unfold drawn_charge. symmetry. tauto.
  - f_equal. f_equal. symmetry. eapply Forall2_map_eq; [exact I2|]. intros n a P. apply parse_atom_node_spec in P. unfold drawn_spin. symmetry. tauto.
Qed.

(* ---------------- bonds ---------------- *)
Definition bond_of_drawn (ids : list string) (xb : xbond) (b : bond) : Prop :=
  atom_index ids (xb_B xb) = Ok (b_a1 b) /\ atom_index ids (xb_E xb) = Ok (b_a2 b) /\
  parse_bond_type (xb_order xb) (xb_disp xb) = Ok (b_type b) /\ b_forder b = 1%Q.

Lemma bonds_of_plain ma ids xb g c :
  dict_get (xb_B xb) ma = None -> dict_get (xb_E xb) ma = None -> bonds_of ma ids xb = Ok (g, c) ->
  c = None /\ exists b, g = b :: nil /\ bond_of_drawn ids xb b.
Proof.
  unfold bonds_of. intros HB HE. rewrite HB, HE.
  destruct (atom_index ids (xb_B xb)) as [i|] eqn:I; simpl; [|discriminate].
  destruct (atom_index ids (xb_E xb)) as [j|] eqn:J; simpl; [|discriminate].
  destruct (parse_bond_type (xb_order xb) (xb_disp xb)) as [t|] eqn:T; simpl; [|discriminate].
  intros H; inversion H; subst. split; [reflexivity|]. eexists; split; [reflexivity|].
  unfold bond_of_drawn; simpl. rewrite I, J. repeat split; try reflexivity; exact T.
Qed.

Lemma mapM_length {A B} (f : A -> res B) l : forall r, mapM f l = Ok r -> List.length r = List.length l.
Proof.
  induction l as [|x l IH]; intros r H; simpl in H; [inversion H; reflexivity|].
  destruct (f x); simpl in H; [|discriminate]. destruct (mapM f l) eqn:M; simpl in H; [|discriminate].
  inversion H; subst. simpl. f_equal. apply IH. reflexivity.
Qed.
Lemma mapM_Forall2 {A B} (f : A -> res B) l : forall r, mapM f l = Ok r -> Forall2 (fun x y => f x = Ok y) l r.
Proof.
  induction l as [|x l IH]; intros r H; simpl in H; [inversion H; constructor|].
  destruct (f x) eqn:Fx; simpl in H; [|discriminate]. destruct (mapM f l) eqn:M; simpl in H; [|discriminate].
  inversion H; subst. constructor; [exact Fx | apply IH; reflexivity].
Qed.

(* a bond drawn to a multi-attachment node: one Ligand bond per attached atom, fractional order 1/n *)
Definition hapto_bond (ids : list string) (center : string) (n : nat) (t : string) (b : bond) : Prop :=
  atom_index ids center = Ok (b_a1 b) /\ atom_index ids t = Ok (b_a2 b) /\ b_type b = BT_Ligand /\
  b_forder b = (1 / inject_Z (Z.of_nat n))%Q.
Lemma bonds_of_hapto ma ids xb g c center att :
  (dict_get (xb_B xb) ma = Some att /\ center = xb_E xb) \/
  (dict_get (xb_B xb) ma = None /\ dict_get (xb_E xb) ma = Some att /\ center = xb_B xb) ->
  bonds_of ma ids xb = Ok (g, c) ->
  att <> [] /\ (exists ci, atom_index ids center = Ok ci /\ c = Some ci) /\
  Forall2 (hapto_bond ids center (List.length att)) att g.
Proof.
  unfold bonds_of. intros Hc H.
  assert (H' : match att with
               | [] => Raise
               | _ => bind (mapM (fun t => bind (atom_index ids center) (fun c0 => bind (atom_index ids t) (fun j =>
                                  Ok (mkBond c0 j BT_Ligand (1 / inject_Z (Z.of_nat (List.length att)))%Q)))) att)
                           (fun bs => bind (atom_index ids center) (fun c0 => Ok (bs, Some c0)))
               end = Ok (g, c)).
  { destruct Hc as [[E1 ->]|[E1 [E2 ->]]]; [rewrite E1 in H | rewrite E1, E2 in H]; exact H. }
  clear H Hc. remember (List.length att) as n eqn:En. clear En.
  assert (Hne : att <> []) by (destruct att; [discriminate H' | discriminate]).
  split; [exact Hne|].
  assert (H2 : bind (mapM (fun t => bind (atom_index ids center) (fun c0 => bind (atom_index ids t) (fun j =>
                                  Ok (mkBond c0 j BT_Ligand (1 / inject_Z (Z.of_nat n))%Q)))) att)
                           (fun bs => bind (atom_index ids center) (fun c0 => Ok (bs, Some c0))) = Ok (g, c))
    by (destruct att; [contradiction | exact H']).
  clear H'.
  destruct (mapM _ att) as [bs|] eqn:M; simpl in H2; [|discriminate].
  destruct (atom_index ids center) as [ci|] eqn:C; simpl in H2; [|discriminate].
  inversion H2; subst g c. split; [eauto|].
  apply mapM_Forall2 in M. clear - M C.
  induction M as [|t b l r Hb _ IH]; constructor; [|exact IH].
  simpl in Hb. destruct (atom_index ids t) as [j|] eqn:J; simpl in Hb; [|discriminate].
  inversion Hb; subst. unfold hapto_bond; simpl. rewrite J. repeat split; try reflexivity; exact C.
Qed.

(* the bond list is the concatenation, in drawing order, of what each drawn bond contributes *)
Lemma scan_bonds_groups ma ids xbs : forall bs cs, scan_bonds ma ids xbs = Ok (bs, cs) ->
  exists groups, bs = List.concat groups /\ Forall2 (fun xb g => exists c, bonds_of ma ids xb = Ok (g, c)) xbs groups.
Proof.
  induction xbs as [|xb xbs IH]; intros bs cs H; simpl in H.
  - inversion H; subst. exists []. split; [reflexivity | constructor].
  - destruct (bonds_of ma ids xb) as [[g c]|] eqn:B; simpl in H; [|discriminate].
    destruct (scan_bonds ma ids xbs) as [[rb rc]|] eqn:S; simpl in H; [|discriminate].
    inversion H; subst. destruct (IH _ _ eq_refl) as [gs [E F]]. exists (g :: gs). split; [simpl; now rewrite E|].
    constructor; [eauto | exact F].
Qed.

(* without multi-attachment nodes: exactly one bond per drawn bond, same order, drawn ends and drawn type *)
Lemma scan_bonds_plain ids xbs : forall bs cs, scan_bonds [] ids xbs = Ok (bs, cs) ->
  cs = [] /\ Forall2 (bond_of_drawn ids) xbs bs.
Proof.
  induction xbs as [|xb xbs IH]; intros bs cs H; simpl in H.
  - inversion H; subst. split; [reflexivity | constructor].
  - destruct (bonds_of [] ids xb) as [[g c]|] eqn:B; simpl in H; [|discriminate].
    destruct (scan_bonds [] ids xbs) as [[rb rc]|] eqn:S; simpl in H; [|discriminate].
    inversion H; subst. destruct (IH _ _ eq_refl) as [-> F].
    destruct (bonds_of_plain [] ids xb g c eq_refl eq_refl B) as [-> [b [-> Hb]]].
    split; [reflexivity|]. simpl. constructor; assumption.
Qed.

Theorem assemble_bonds_plain (ns : list xnode) (xbs : list xbond) (m : mol) :
  filter is_multi ns = [] -> assemble ns xbs = Ok m ->
  Forall2 (bond_of_drawn (map n_id ns)) xbs (m_bonds m) /\
  Forall2 (fun n a => parse_atom_node n = Ok a) ns (m_atoms m).
Proof.
  unfold assemble. intros Hm H.
  destruct (scan_nodes ns) as [[ma ats]|] eqn:S; simpl in H; [|discriminate].
  destruct (scan_nodes_spec _ _ _ S) as [I1 [I2 I3]]. rewrite Hm in I3. simpl in I3. subst ma.
  assert (Hp : plain ns = ns).
  { clear - Hm. unfold plain. induction ns as [|n ns IH]; simpl in *; [reflexivity|].
    destruct (is_multi n); simpl in *; [discriminate | f_equal; auto]. }
  rewrite Hp in *.
  destruct (scan_bonds [] (map fst ats) xbs) as [[bs cs]|] eqn:B; simpl in H; [|discriminate].
  inversion H; subst; clear H. simpl.
  destruct (scan_bonds_plain _ _ _ _ B) as [-> F]. rewrite I1 in F.
  split; [exact F|]. unfold mark_centers. rewrite mark_from_nil. exact I2.
Qed.

(* ---------------- mirroring leaves the constitution unchanged ---------------- *)
Lemma bonds_of_mirror ma ids xb : bonds_of ma ids (mirror_bond xb) = bonds_of ma ids xb.
Proof. unfold bonds_of, mirror_bond; simpl. now rewrite parse_bond_type_mirror. Qed.
Lemma scan_bonds_mirror ma ids xbs : scan_bonds ma ids (map mirror_bond xbs) = scan_bonds ma ids xbs.
Proof. induction xbs as [|xb xbs IH]; simpl; [reflexivity|]. now rewrite bonds_of_mirror, IH. Qed.
Theorem assemble_mirror ns xbs : assemble ns (map mirror_bond xbs) = assemble ns xbs.
Proof.
  unfold assemble. destruct (scan_nodes ns) as [[ma ats]|]; simpl; [|reflexivity].
  now rewrite scan_bonds_mirror.
Qed.

Fixpoint mirror_frag (f : xfrag) : xfrag :=
  match f with
  | XFrag nodes xbs =>
      XFrag (map (fun p => (fst p, match snd p with Some s => Some (mirror_frag s) | None => None end)) nodes)
            (map mirror_bond xbs)
  end.

Section XfragInd.
  Variable P : xfrag -> Prop.
  Definition sub_ok (p : xnode * option xfrag) : Prop := match snd p with Some s => P s | None => True end.
  Hypothesis H : forall nodes xbs, Forall sub_ok nodes -> P (XFrag nodes xbs).
  Fixpoint xfrag_ind' (f : xfrag) : P f :=
    match f with
    | XFrag nodes xbs =>
        H nodes xbs
          ((fix go (l : list (xnode * option xfrag)) : Forall sub_ok l :=
              match l with
              | [] => Forall_nil sub_ok
              | p :: r =>
                  @Forall_cons _ sub_ok p r
                    (match p as p0 return sub_ok p0 with
                     | (n, Some s) => xfrag_ind' s
                     | (n, None) => I
                     end) (go r)
              end) nodes)
    end.
End XfragInd.

Definition expand_step (acc : res mol) (p : xnode * option xfrag) : res mol :=
  match snd p with
  | None => acc
  | Some sub => bind acc (fun r => bind (expand sub) (fun s => join_sub r (n_id (fst p)) s))
  end.
Lemma expand_unfold nodes xbs : expand (XFrag nodes xbs) = fold_left expand_step nodes (assemble (map fst nodes) xbs).
Proof. reflexivity. Qed.

Theorem expand_mirror (f : xfrag) : expand (mirror_frag f) = expand f.
Proof.
  induction f as [nodes xbs IH] using xfrag_ind'.
  change (mirror_frag (XFrag nodes xbs)) with
    (XFrag (map (fun p => (fst p, match snd p with Some s => Some (mirror_frag s) | None => None end)) nodes) (map mirror_bond xbs)).
  rewrite !expand_unfold.
  match goal with |- context [map fst (map ?g nodes)] =>
    assert (E : map fst (map g nodes) = map fst nodes) by (rewrite map_map; apply map_ext; reflexivity) end.
  rewrite E, assemble_mirror. clear E.
  generalize (assemble (map fst nodes) xbs). induction IH as [|p l Hp _ IHl]; intros acc; simpl; [reflexivity|].
  rewrite <- IHl. f_equal. unfold expand_step, sub_ok in *. simpl. destruct (snd p) as [s|]; [|reflexivity]. now rewrite Hp.
Qed.

(* ---------------- nested fragments: one join ---------------- *)
Lemma remove_nth_length {A} (l : list A) : forall i, (i < List.length l)%nat -> S (List.length (remove_nth i l)) = List.length l.
Proof.
  induction l as [|x l IH]; intros i Hi; simpl in *; [lia|].
  destruct i as [|i]; [reflexivity|]. simpl. f_equal. apply IH. lia.
Qed.
Lemma find_label_lt k l : forall i0 i, find_label k l i0 = Some i -> (i0 <= i < i0 + List.length l)%nat.
Proof.
  induction l as [|a l IH]; intros i0 i H; simpl in H; [discriminate|].
  destruct (a_label a) as [s|].
  - destruct (String.eqb s k); [inversion H; subst; simpl; lia | apply IH in H; simpl; lia].
  - apply IH in H; simpl; lia.
Qed.
Lemma find_ap_lt l : forall i0 i, find_ap l i0 = Some i -> (i0 <= i < i0 + List.length l)%nat.
Proof.
  induction l as [|a l IH]; intros i0 i H; simpl in H; [discriminate|].
  destruct (a_atype a); try (apply IH in H; simpl; lia). inversion H; subst; simpl; lia.
Qed.
Lemma filter_split_length {A} (f : A -> bool) (l : list A) :
  (List.length (filter f l) + List.length (filter (fun x => negb (f x)) l) = List.length l)%nat.
Proof. induction l as [|x l IH]; simpl; [reflexivity|]. destruct (f x); simpl; lia. Qed.

Theorem join_sub_counts (r s m : mol) (key : string) : join_sub r key s = Ok m ->
  exists i j, find_label key (m_atoms r) 0 = Some i /\ find_ap (m_atoms s) 0 = Some j /\
    m_atoms m = remove_nth i (m_atoms r) ++ remove_nth j (m_atoms s) /\
    (List.length (m_atoms m) + 2 = List.length (m_atoms r) + List.length (m_atoms s))%nat /\
    (List.length (m_bonds m) + 1 = List.length (m_bonds r) + List.length (m_bonds s))%nat.
Proof.
  unfold join_sub. intros H.
  destruct (find_label key (m_atoms r) 0) as [i|] eqn:Fi; [|discriminate].
  destruct (find_ap (m_atoms s) 0) as [j|] eqn:Fj; [|discriminate].
  destruct (filter (touches i) (m_bonds r)) as [|bi [|? ?]] eqn:Bi; try discriminate.
  destruct (filter (touches j) (m_bonds s)) as [|bj [|? ?]] eqn:Bj; try discriminate.
  inversion H; subst; clear H. exists i, j. simpl. repeat split; try reflexivity.
  - apply find_label_lt in Fi. apply find_ap_lt in Fj.
    pose proof (remove_nth_length (m_atoms r) i ltac:(lia)). pose proof (remove_nth_length (m_atoms s) j ltac:(lia)).
    rewrite app_length. lia.
  - pose proof (filter_split_length (touches i) (m_bonds r)) as P1. pose proof (filter_split_length (touches j) (m_bonds s)) as P2.
    rewrite Bi in P1. rewrite Bj in P2. simpl in P1, P2.
    rewrite !app_length, !map_length. simpl. lia.
Qed.

(* with hapto centres: the bond list is, in drawing order, what each drawn bond contributes (one bond, or one
   Ligand bond per attached atom: bonds_of_plain / bonds_of_hapto) *)
Theorem assemble_bonds_groups (ns : list xnode) (xbs : list xbond) (m : mol) : assemble ns xbs = Ok m ->
  let ma := map (fun n => (n_id n, n_attach n)) (filter is_multi ns) in
  let ids := map n_id (plain ns) in
  exists groups, m_bonds m = List.concat groups /\
                 Forall2 (fun xb g => exists c, bonds_of ma ids xb = Ok (g, c)) xbs groups.
Proof.
  unfold assemble. intros H.
  destruct (scan_nodes ns) as [[ma ats]|] eqn:S; simpl in H; [|discriminate].
  destruct (scan_bonds ma (map fst ats) xbs) as [[bs cs]|] eqn:B; simpl in H; [|discriminate].
  inversion H; subst; clear H. simpl.
  destruct (scan_nodes_spec _ _ _ S) as [I1 [_ I3]]. subst ma. rewrite I1 in B.
  eapply scan_bonds_groups; eauto.
Qed.

(* total charge = sum of the formal charges of the atoms, multiplicity = sum of the radical codes + 1,
   also after nested fragments were joined in *)
Definition charge_mult_ok (m : mol) : Prop :=
  m_charge m = total_charge (m_atoms m) /\ m_mult m = (total_spin (m_atoms m) + 1)%Z.
Lemma assemble_charge_mult ns xbs m : assemble ns xbs = Ok m -> charge_mult_ok m.
Proof.
  unfold assemble. intros H.
  destruct (scan_nodes ns) as [[ma ats]|]; simpl in H; [|discriminate].
  destruct (scan_bonds ma (map fst ats) xbs) as [[bs cs]|]; simpl in H; [|discriminate].
  inversion H; subst. split; reflexivity.
Qed.
Lemma join_sub_charge_mult r key s m : join_sub r key s = Ok m -> charge_mult_ok m.
Proof.
  unfold join_sub. intros H.
  destruct (find_label key (m_atoms r) 0); [|discriminate]. destruct (find_ap (m_atoms s) 0); [|discriminate].
  destruct (filter _ (m_bonds r)) as [|? [|? ?]]; try discriminate.
  destruct (filter _ (m_bonds s)) as [|? [|? ?]]; try discriminate.
  inversion H; subst. split; reflexivity.
Qed.
Theorem expand_charge_mult (f : xfrag) (m : mol) : expand f = Ok m -> charge_mult_ok m.
Proof.
  destruct f as [nodes xbs]. rewrite expand_unfold.
  assert (G : forall acc, (forall m0, acc = Ok m0 -> charge_mult_ok m0) ->
              forall m0, fold_left expand_step nodes acc = Ok m0 -> charge_mult_ok m0).
  { induction nodes as [|p l IH]; intros acc Hacc m0 H; simpl in H; [apply Hacc, H|].
    eapply IH; [|exact H]. unfold expand_step. destruct (snd p) as [sub|]; [|exact Hacc].
    intros m1 H1. destruct acc as [r|]; simpl in H1; [|discriminate].
    destruct (expand sub) as [s|]; simpl in H1; [|discriminate]. eapply join_sub_charge_mult, H1. }
  apply G. intros m0. apply assemble_charge_mult.
Qed.

(* ---------------- label cache: __getitem__ is a function of (file, key) ---------------- *)
Definition cache_ok (f : string -> option nat) (c : cache) : Prop := forall k v, cache_get k c = Some v -> f k = Some v.
Lemma getitem_spec f c k : cache_ok f c -> fst (getitem f c k) = f k /\ cache_ok f (snd (getitem f c k)).
Proof.
  unfold getitem. intros Hc. destruct (cache_get k c) as [i|] eqn:G.
  - simpl. split; [symmetry; apply Hc, G | exact Hc].
  - destruct (f k) as [i|] eqn:Fk; simpl; split; try reflexivity; try exact Hc.
    intros k' v. simpl. destruct (String.eqb k' k) eqn:E; [|apply Hc].
    apply String.eqb_eq in E. subst. intros H; inversion H; subst. exact Fk.
Qed.
Theorem run_gets_spec f keys : forall c, cache_ok f c -> run_gets f c keys = map f keys.
Proof.
  induction keys as [|k keys IH]; intros c Hc; simpl; [reflexivity|].
  destruct (getitem f c k) as [a c'] eqn:G. destruct (getitem_spec f c k Hc) as [E1 E2]. rewrite G in E1, E2. simpl in *.
  subst a. f_equal. apply IH, E2.
Qed.
Lemma cache_ok_nil f : cache_ok f []. Proof. intros k v H; discriminate. Qed.

(* ---------------- sessions: a lookup always answers the drawing; a molecule handed out is the caller's ---------------- *)
Definition caches_ok (f : string -> option nat) (st : sstate) : Prop := forall o, cache_ok f (s_caches st o).
Lemma sev_next_caches_ok f parse st e : caches_ok f st -> caches_ok f (sev_next f parse st e).
Proof.
  intros H. destruct e as [o k obs|i obs|h m|h obs]; simpl; try exact H.
  destruct (getitem f (s_caches st o) k) as [a c'] eqn:G. intros o'. simpl.
  destruct (Nat.eqb o' o); [|apply H].
  pose proof (getitem_spec f (s_caches st o) k (H o)) as [_ E]. rewrite G in E. exact E.
Qed.
(* what a lookup event must answer, read off the FILE alone *)
Definition lookup_spec (f : string -> option nat) (parse : option nat -> res mol) (e : sev) : option (res mol) :=
  match e with
  | EGet _ k _ => Some (parse (f k))
  | EParse i _ => Some (parse (Some i))
  | _ => None
  end.
Fixpoint somes {A} (l : list (option A)) : list A :=
  match l with [] => [] | Some a :: r => a :: somes r | None :: r => somes r end.
Theorem session_answers_spec f parse evs : forall st, caches_ok f st ->
  session_answers f parse st evs = somes (map (lookup_spec f parse) evs).
Proof.
  induction evs as [|e evs IH]; intros st H; [reflexivity|].
  simpl. rewrite (IH _ (sev_next_caches_ok f parse st e H)).
  destruct e as [o k obs|i obs|h m|h obs]; simpl; try reflexivity.
  pose proof (getitem_spec f (s_caches st o) k (H o)) as [E _]. rewrite E. reflexivity.
Qed.
Lemma caches_ok_init f : caches_ok f s_init. Proof. intros o. apply cache_ok_nil. Qed.

Lemma alloc_keeps r hp h m : nth_error hp h = Some m -> nth_error (alloc r hp) h = Some m.
Proof.
  intros H. destruct r as [x|]; simpl; [|exact H].
  rewrite nth_error_app1; [exact H|]. apply nth_error_Some. rewrite H. discriminate.
Qed.
Lemma set_nth_other {A} (x : A) : forall l h h', h <> h' -> nth_error (set_nth h' x l) h = nth_error l h.
Proof.
  induction l as [|y l IH]; intros h h' N; [destruct h'; reflexivity|].
  destruct h' as [|h']; destruct h as [|h]; simpl; try reflexivity; [congruence|].
  apply IH. congruence.
Qed.
Definition edits_of (h : nat) (e : sev) : bool := match e with EEdit h' _ => Nat.eqb h' h | _ => false end.
(* frame: a molecule the caller holds changes only through the caller's own edits of it -- not through lookups (of the
   same label or another, on any object), not through edits of other molecules *)
Theorem session_frame f parse evs : forall st h m,
  nth_error (s_heap st) h = Some m -> forallb (fun e => negb (edits_of h e)) evs = true ->
  nth_error (s_heap (session_end f parse st evs)) h = Some m.
Proof.
  unfold session_end. induction evs as [|e evs IH]; intros st h m H N; [exact H|].
  simpl in N. apply andb_true_iff in N as [N1 N2]. simpl. apply IH; [|exact N2].
  destruct e as [o k obs|i obs|h' m'|h' obs]; simpl.
  - destruct (getitem f (s_caches st o) k) as [a c']. simpl. apply alloc_keeps, H.
  - apply alloc_keeps, H.
  - simpl in N1. rewrite set_nth_other; [exact H|]. intros E. subst. rewrite Nat.eqb_refl in N1. discriminate.
  - exact H.
Qed.
(* ... and its own edit is all that is seen of it afterwards *)
Lemma set_nth_same {A} (x : A) : forall l h, (h < length l)%nat -> nth_error (set_nth h x l) h = Some x.
Proof.
  induction l as [|y l IH]; intros h L; simpl in L; [lia|].
  destruct h as [|h]; simpl; [reflexivity|]. apply IH. lia.
Qed.

(* ====================================================================== Part 2 *)
Local Open Scope R_scope.

Ltac cdx := cbv [ez mirror Mz outa_tol outa_R outa_plane rot_from_vectors rot_from_axis axis_rot skew rodrigues antiparallel].

Lemma vm_Mz (p : vecR) : vm ROps p (Mz ROps) = mirror ROps p.
Proof. vdestruct. cdx. f3. veq; ring. Qed.

Lemma mirror_invol (p : vecR) : mirror ROps (mirror ROps p) = p.
Proof. vdestruct. cdx. f3. veq; ring. Qed.

Lemma mirror_vzero : mirror ROps (vzero ROps) = vzero ROps.
Proof. cdx. f3. veq; ring. Qed.

Lemma signed_volume_mirror (p0 p1 p2 p3 : vecR) :
  signed_volume ROps (mirror ROps p0) (mirror ROps p1) (mirror ROps p2) (mirror ROps p3) = - signed_volume ROps p0 p1 p2 p3.
Proof. vdestruct. cdx. f3. ring. Qed.

(* the rotation about an in-plane axis: conjugation by the mirror reverses the sense *)
Lemma rot_from_axis_mirror (w : vecR) (nax s c : R) :
  rot_from_axis ROps (cross ROps (ez ROps) (mirror ROps w)) nax (- s) c
  = mmul ROps (Mz ROps) (mmul ROps (rot_from_axis ROps (cross ROps (ez ROps) w) nax s c) (Mz ROps)).
Proof. vdestruct. cdx. f3. unfold Rdiv. veq; ring. Qed.

Lemma outa_R_up (nz : R) (ov : vecR) : 0 < nz -> outa_R ROps (0, 0, nz) nz ov = eye ROps.
Proof.
  intros Hnz. unfold outa_R, rot_from_vectors.
  assert (Hc : dot ROps (vdiv ROps (0, 0, nz) nz) (vdiv ROps (ez ROps) (f1 ROps)) = 1).
  { cdx. f3. field. lra. }
  rewrite Hc.
  change (fleb ROps 1 (fadd ROps (fopp ROps (f1 ROps)) (outa_tol ROps))) with (Rleb 1 (- (1) + outa_tol ROps)).
  destruct (Rleb 1 (- (1) + outa_tol ROps)) eqn:Br.
  - apply Rleb_true in Br. exfalso. unfold outa_tol in Br. f3_in Br. simpl in Br. lra.
  - cdx. f3. veq; field; lra.
Qed.

Lemma mmul_eye_conj (A : matR) : mmul ROps (mmul ROps (eye ROps) A) (mtrans (eye ROps)) = A.
Proof. vdestruct. f3. veq; ring. Qed.

Lemma outa_plane_mirror (w : vecR) (nax s c nz : R) (ov ov' : vecR) : 0 < nz ->
  outa_plane ROps (mirror ROps w) nax (- s) c (0, 0, nz) nz ov'
  = mmul ROps (Mz ROps) (mmul ROps (outa_plane ROps w nax s c (0, 0, nz) nz ov) (Mz ROps)).
Proof.
  intros Hnz. unfold outa_plane. rewrite !outa_R_up by exact Hnz. rewrite !mmul_eye_conj.
  apply rot_from_axis_mirror.
Qed.

Lemma mirror_vsub (x y : vecR) : vsub ROps (mirror ROps x) (mirror ROps y) = mirror ROps (vsub ROps x y).
Proof. vdestruct. cdx. f3. veq; ring. Qed.

(* rotating the mirrored point about the mirrored pivot by the conjugated matrix = mirroring the rotated point *)
Lemma conj_pointwise (A : matR) (x v : vecR) :
  vadd ROps (vm ROps (vadd ROps (mirror ROps x) (vopp ROps (mirror ROps v))) (mmul ROps (Mz ROps) (mmul ROps A (Mz ROps)))) (mirror ROps v)
  = mirror ROps (vadd ROps (vm ROps (vadd ROps x (vopp ROps v)) A) v).
Proof. vdestruct. cdx. f3. veq; ring. Qed.

Lemma update_from_map {A} (sel : nat -> bool) (f f' g : A -> A) (l : list A) :
  (forall x, f' (g x) = g (f x)) -> forall i, update_from sel f' i (map g l) = map g (update_from sel f i l).
Proof.
  intros H. induction l as [|x l IH]; intros i; simpl; [reflexivity|].
  rewrite IH. destruct (sel i); [rewrite H|]; reflexivity.
Qed.
Lemma update_rows_map {A} (sel : nat -> bool) (f f' g : A -> A) (l : list A) :
  (forall x, f' (g x) = g (f x)) -> update_rows sel f' (map g l) = map g (update_rows sel f l).
Proof. intros H. apply update_from_map, H. Qed.

Lemma nth_map_mirror (X : list vecR) k : List.nth k (map (mirror ROps) X) (vzero ROps) = mirror ROps (List.nth k X (vzero ROps)).
Proof. rewrite <- mirror_vzero at 1. apply map_nth. Qed.

Theorem step_acyclic_mirror (X : list vecR) sel i1 i2 (s c nz nax : R) (ov ov' : vecR) : 0 < nz ->
  step_acyclic ROps (map (mirror ROps) X) sel i1 i2 (- s) c (0, 0, nz) nz ov' nax
  = map (mirror ROps) (step_acyclic ROps X sel i1 i2 s c (0, 0, nz) nz ov nax).
Proof.
  intros Hnz. unfold step_acyclic, sub_translate, sub_transform.
  rewrite !update_rows_compose.
  rewrite !nth_map_mirror, mirror_vsub, (outa_plane_mirror _ _ _ _ _ ov ov' Hnz).
  apply update_rows_map. intros x. apply conj_pointwise.
Qed.

(* translation branches *)
Lemma sub_translate_mirror (sel : nat -> bool) (d : vecR) (X : list vecR) :
  sub_translate ROps sel (mirror ROps d) (map (mirror ROps) X) = map (mirror ROps) (sub_translate ROps sel d X).
Proof.
  unfold sub_translate. apply update_rows_map. intros x. vdestruct. cdx. f3. veq; ring.
Qed.
Theorem step_shift_mirror (moves : list (list nat * vecR)) : forall (X : list vecR),
  step_shift ROps (map (mirror ROps) X) (shift_mirror ROps moves) = map (mirror ROps) (step_shift ROps X moves).
Proof.
  unfold step_shift, shift_mirror. induction moves as [|m moves IH]; intros X; simpl; [reflexivity|].
  rewrite sub_translate_mirror. apply IH.
Qed.

Lemma vertical_neg_mirror (d : vecR) : vertical ROps d -> vopp ROps d = mirror ROps d.
Proof. vdestruct. unfold vertical. cdx. f3. intros [-> ->]. veq; ring. Qed.
Lemma shift_neg_vertical (moves : list (list nat * vecR)) :
  Forall (fun m => vertical ROps (snd m)) moves -> shift_neg ROps moves = shift_mirror ROps moves.
Proof.
  unfold shift_neg, shift_mirror. induction 1 as [|m l Hm _ IH]; simpl; [reflexivity|].
  rewrite IH, (vertical_neg_mirror _ Hm). reflexivity.
Qed.

(* ---------------- the code's branches under wedge <-> hash ---------------- *)
Lemma flat_moves_mirror (x : R) a1 a2 s1 s2 :
  flat_moves ROps (- x) a1 a2 s1 s2 = shift_mirror ROps (flat_moves ROps x a1 a2 s1 s2).
Proof.
  assert (E : vscale ROps (fdiv ROps (- x) (fofZ ROps 2)) (ez ROps) = mirror ROps (vscale ROps (fdiv ROps x (fofZ ROps 2)) (ez ROps))).
  { cdx. f3. simpl. veq; field. }
  unfold flat_moves. rewrite E. unfold shift_mirror. simpl. rewrite map_map. reflexivity.
Qed.

Lemma ring_moves_mirror (x : R) a1 a2 s1 s2 :
  ring_moves ROps (- x) a1 a2 s1 s2 = shift_mirror ROps (ring_moves ROps x a1 a2 s1 s2).
Proof.
  assert (E1 : ((f0 ROps, fdiv ROps (f1 ROps) (fofZ ROps 2), fmul ROps (- x) (fdiv ROps (fofZ ROps 3) (fofZ ROps 4))) : vecR)
               = mirror ROps (f0 ROps, fdiv ROps (f1 ROps) (fofZ ROps 2), fmul ROps x (fdiv ROps (fofZ ROps 3) (fofZ ROps 4)))).
  { cdx. f3. simpl. veq; field. }
  assert (E2 : ((f0 ROps, fdiv ROps (f1 ROps) (fofZ ROps 2), fmul ROps (- x) (fdiv ROps (fofZ ROps 3) (fofZ ROps 2))) : vecR)
               = mirror ROps (f0 ROps, fdiv ROps (f1 ROps) (fofZ ROps 2), fmul ROps x (fdiv ROps (fofZ ROps 3) (fofZ ROps 2)))).
  { cdx. f3. simpl. veq; field. }
  unfold ring_moves. rewrite E1, E2. unfold shift_mirror. simpl. rewrite map_app, !map_map. reflexivity.
Qed.

Definition good_kind (k : ckind R) : Prop :=
  match k with
  | KAcyc _ _ _ _ _ normal nn _ _ => exists nz, 0 < nz /\ normal = (0, 0, nz) /\ nn = nz
  | KRing _ _ _ _ => True
  | KFlat _ _ _ _ => True
  end.

Lemma code_step_mirror (sg : R) (k : ckind R) (X : list vecR) : good_kind k ->
  run_step ROps (map (mirror ROps) X) (code_step ROps (- sg) k) = map (mirror ROps) (run_step ROps X (code_step ROps sg k)).
Proof.
  destruct k as [sel i1 i2 s c normal nn ov nax | a1 a2 s1 s2 | a1 a2 s1 s2]; intros G; cbn [code_step run_step good_kind] in *.
  - destruct G as [nz [Hnz [-> ->]]].
    replace (fmul ROps (- sg) s) with (- (fmul ROps sg s)) by (cbn; ring). apply step_acyclic_mirror, Hnz.
  - rewrite ring_moves_mirror. apply step_shift_mirror.
  - replace (fmul ROps (- sg) (fofZ ROps 2)) with (- (fmul ROps sg (fofZ ROps 2))) by (cbn; ring).
    rewrite flat_moves_mirror. apply step_shift_mirror.
Qed.

Theorem run_plan_mirror (p : plan R) : Forall (fun q => good_kind (snd q)) p -> forall X : list vecR,
  run_plan ROps (map (mirror ROps) X) (mirror_plan ROps p) = map (mirror ROps) (run_plan ROps X p).
Proof.
  unfold run_plan, run_steps, mirror_plan. induction 1 as [|q p Hq _ IH]; intros X; simpl; [reflexivity|].
  rewrite (code_step_mirror (fst q) (snd q) X Hq). apply IH.
Qed.

Definition planar (X : list vecR) : Prop := forall p, In p X -> mirror ROps p = p.
Lemma planar_mirror X : planar X -> map (mirror ROps) X = X.
Proof.
  intros H. induction X as [|x X IH]; simpl; [reflexivity|].
  rewrite (H x (or_introl eq_refl)), IH; [reflexivity|]. intros p Hp. apply H. right. exact Hp.
Qed.

(* mirrored stereo marks on a planar drawing: the 3-D model is the mirror image, every signed volume changes sign *)
Theorem mirror_inverts_handedness (p : plan R) (X : list vecR) : planar X -> Forall (fun q => good_kind (snd q)) p ->
  run_plan ROps X (mirror_plan ROps p) = map (mirror ROps) (run_plan ROps X p) /\
  forall i j k l,
    let Y := run_plan ROps X p in let Y' := run_plan ROps X (mirror_plan ROps p) in
    signed_volume ROps (List.nth i Y' (vzero ROps)) (List.nth j Y' (vzero ROps)) (List.nth k Y' (vzero ROps)) (List.nth l Y' (vzero ROps))
    = - signed_volume ROps (List.nth i Y (vzero ROps)) (List.nth j Y (vzero ROps)) (List.nth k Y (vzero ROps)) (List.nth l Y (vzero ROps)).
Proof.
  intros HX Hp.
  assert (E : run_plan ROps X (mirror_plan ROps p) = map (mirror ROps) (run_plan ROps X p)).
  { rewrite <- (planar_mirror X HX) at 1. apply run_plan_mirror, Hp. }
  split; [exact E|]. intros i j k l Y Y'. subst Y Y'. rewrite E, !nth_map_mirror. apply signed_volume_mirror.
Qed.

(* ---------------- the ring branch BEFORE the repair was not a mirror image ---------------- *)
Lemma ring_moves_before_repair_not_mirror a1 a2 s1 s2 :
  ring_moves_before_repair ROps (- (1)) a1 a2 s1 s2 <> shift_mirror ROps (ring_moves_before_repair ROps 1 a1 a2 s1 s2).
Proof.
  intros H. apply (f_equal (fun l : list (list nat * vecR) => match l with (_, (_, y, _)) :: _ => y | _ => 0 end)) in H.
  cbv [ring_moves_before_repair shift_mirror map fst snd vscale mirror fmul fdiv f0 f1 fofZ fopp ROps app] in H. lra.
Qed.

(* a ring stereo centre a1 = p0 with in-ring neighbours a2 = p1 (marked bond) and p2, and a substituent p3:
   before the repair the wedge and the hash model had the SAME handedness; with the repaired displacement they
   are mirror images, of opposite non-zero handedness *)
Definition ring_witness : list vecR := [(0, 0, 0); (1, 0, 0); (- (1/2), 4/5, 0); (- (1/2), - (4/5), 0)].
Lemma ring_branch_same_handedness_before_repair :
  planar ring_witness /\
  let Y s := step_shift ROps ring_witness (ring_moves_before_repair ROps s 0%nat 1%nat ((3%nat :: nil) :: nil) nil) in
  let vol Y := signed_volume ROps (List.nth 0 Y (vzero ROps)) (List.nth 1 Y (vzero ROps)) (List.nth 2 Y (vzero ROps)) (List.nth 3 Y (vzero ROps)) in
  vol (Y 1) = - (3 / 16) /\ vol (Y (- (1))) = - (3 / 16).
Proof.
  split.
  - intros p [<-|[<-|[<-|[<-|[]]]]]; cdx; f3; veq; ring.
  - cbv [ring_moves_before_repair step_shift sub_translate update_rows update_from in_idx existsb
         map fold_left fst snd app List.nth ring_witness Nat.eqb orb]. cdx. f3. simpl. split; field.
Qed.
Lemma ring_branch_opposite_handedness :
  let Y s := run_plan ROps ring_witness ((s, KRing 0%nat 1%nat ((3%nat :: nil) :: nil) nil) :: nil) in
  let vol Y := signed_volume ROps (List.nth 0 Y (vzero ROps)) (List.nth 1 Y (vzero ROps)) (List.nth 2 Y (vzero ROps)) (List.nth 3 Y (vzero ROps)) in
  vol (Y (- (1))) = - vol (Y 1) /\ vol (Y 1) <> 0.
Proof.
  cbv [run_plan run_steps run_step code_step ring_moves step_shift sub_translate update_rows update_from in_idx existsb
       map fold_left fst snd app List.nth ring_witness Nat.eqb orb]. cdx. f3. simpl. split; [field | lra].
Qed.

(* non-vacuity: a centre with three neighbours and one wedge bond (quarter turn) *)
Lemma mirror_nonvacuous :
  let X : list vecR := [(0, 0, 0); (1, 0, 0); (- (1/2), 4/5, 0); (- (1/2), - (4/5), 0)] in
  let p : plan R := ((1, KAcyc (1%nat :: nil) 0%nat 1%nat 1 0 (0, 0, 1) 1 (1, 0, 0) 1) :: nil) in
  planar X /\ Forall (fun q => good_kind (snd q)) p /\
  let Y := run_plan ROps X p in
  signed_volume ROps (List.nth 0 Y (vzero ROps)) (List.nth 1 Y (vzero ROps)) (List.nth 2 Y (vzero ROps)) (List.nth 3 Y (vzero ROps)) <> 0.
Proof.
  intros X p. split; [|split].
  - intros q [<-|[<-|[<-|[<-|[]]]]]; cdx; f3; veq; ring.
  - constructor; [|constructor]. simpl. exists 1. repeat split. lra.
  - subst X p. unfold run_plan, run_steps. cbn [map fold_left fst snd code_step run_step].
    unfold step_acyclic, outa_plane. rewrite !outa_R_up by lra. rewrite mmul_eye_conj.
    match goal with |- ?v <> 0 => assert (E : v = 4 / 5) end.
    { cbv [sub_translate sub_transform update_rows update_from in_idx existsb Nat.eqb orb List.nth]. cdx. f3. simpl. field. }
    rewrite E. lra.
Qed.
