(* C02, the write buffer of a collection: what is buffered is lost only by failing -- a flush takes the queue apart into
   the items it wrote, at most ONE item it dropped (the one whose write failed, reported), and the items still buffered;
   and outside a writing session no get / listing / items / values / contains / len and no begin or end of a reading
   session touches the buffer (or anything else of the handle: such a get is a pure read). *)
From Coq Require Import ZArith NArith List Bool Lia.
Import ListNotations.
From Molli Require Import Model.UKV Model.UKVViews Model.Backend.
Open Scope N_scope.

Lemma put_kind f h k v :
  (exists f' h', put f h k v = (f', h', ROk)) \/ (exists e, put f h k v = (f, h, RErr e)).
Proof.
  unfold put. destruct (closed h || match md h with MR => true | MA => false end); [right; eexists; reflexivity|].
  destruct (lookup (toc h) k); [right; eexists; reflexivity|].
  destruct (enc_block k v); [|right; eexists; reflexivity].
  destruct (eof h); [left; eexists; eexists; reflexivity|right; eexists; reflexivity].
Qed.

(* flush: queue before = written ++ dropped ++ queue after; success empties the queue and drops nothing; a failure drops
   exactly one item -- the first one whose write fails -- and keeps every later one buffered *)
Theorem flush_loop_takes_apart : forall fuel f b f' b' e,
  (length (queue b) < fuel)%nat -> flush_loop fuel f b = (f', b', e) ->
  exists written dropped,
    queue b = written ++ dropped ++ queue b' /\
    match e with
    | None => dropped = [] /\ queue b' = []
    | Some _ => length dropped = 1%nat
    end /\ st b' = st b /\ ro b' = ro b /\ bufsize b' = bufsize b /\ has_uk b' = has_uk b.
Proof.
  induction fuel as [|fuel IH]; intros f b f' b' e Hn E; [lia|].
  cbn [flush_loop] in E. destruct (queue b) as [|[k v] q'] eqn:Eq.
  - inversion E; subst. exists [], []. cbn. repeat split; try reflexivity.
  - destruct (negb (has_uk b)) eqn:Hh.
    + inversion E; subst. exists [], [(k, v)]. cbn. repeat split; try reflexivity.
    + destruct (put_kind f (uk b) k v) as [[f1 [h1 Ep]]|[x Ep]]; rewrite Ep in E.
      * apply IH in E; [|cbn [queue]; simpl in Hn; lia].
        destruct E as [w [d [E1 [E2 [E3 [E4 [E5 E6]]]]]]]. cbn [queue st ro bufsize has_uk] in *.
        exists ((k, v) :: w), d. rewrite E1. repeat split; try assumption; try reflexivity.
      * inversion E; subst. exists [], [(k, v)]. cbn. repeat split; try reflexivity.
Qed.

Theorem flush_takes_apart f b f' b' e :
  flush f b = (f', b', e) ->
  exists written dropped,
    queue b = written ++ dropped ++ queue b' /\
    match e with None => dropped = [] /\ queue b' = [] | Some _ => length dropped = 1%nat end /\ st b' = st b.
Proof.
  intros E. unfold flush in E. apply flush_loop_takes_apart in E; [|lia].
  destruct E as [w [d [E1 [E2 [E3 _]]]]]. exists w, d. repeat split; assumption.
Qed.

(* ---------- outside a writing session ---------- *)
Theorem get_outside_writing f b k : writing b = false -> exists r, b_get f b k = (f, b, r).
Proof.
  intros W. unfold b_get. rewrite W. cbn [andb]. destruct (negb (has_uk b)); [eexists; reflexivity|].
  destruct (get f (uk b) k); eexists; reflexivity.
Qed.

Lemma items_loop_outside_writing : forall ks f b acc, writing b = false -> exists r, b_items_loop ks f b acc = (f, b, r).
Proof.
  induction ks as [|k ks IH]; intros f b acc W; cbn [b_items_loop]; [eexists; reflexivity|].
  destruct (get_outside_writing f b k W) as [r E]. rewrite E. destruct r; try (eexists; reflexivity). apply IH. exact W.
Qed.

Lemma upd_nth_same {A} : forall (l : list A) i d, (i < length l)%nat -> upd l i (nth i l d) = l.
Proof.
  induction l as [|a l IH]; intros i d Hi; [simpl in Hi; lia|].
  destruct i as [|i]; [reflexivity|]. simpl. rewrite IH; [reflexivity|simpl in Hi; lia].
Qed.

(* the operations of the property's histories that only read *)
Definition reads (o : bop) : option nat :=
  match o with
  | CGet i _ | CKeys i | CContains i _ | CLen i | CItems i | CValues i => Some i
  | _ => None
  end.

(* ... change nothing at all when the handle is not inside a writing session: not the file, not any handle, not the buffer *)
Theorem reading_changes_nothing f bs o i :
  reads o = Some i -> (i < length bs)%nat -> writing (nth i bs b0) = false ->
  exists r, bstep (f, bs) o = ((f, bs), r).
Proof.
  intros Ho Hi W. destruct o; try discriminate; cbn [reads] in Ho; inversion Ho; subst; cbn [bstep].
  - destruct (get_outside_writing f (nth i bs b0) k W) as [r E]. rewrite E. rewrite upd_nth_same by exact Hi. eexists; reflexivity.
  - eexists; reflexivity.
  - eexists; reflexivity.
  - eexists; reflexivity.
  - unfold b_items. destruct (items_loop_outside_writing (bkeys (nth i bs b0)) f (nth i bs b0) [] W) as [r E]. rewrite E.
    rewrite upd_nth_same by exact Hi. eexists; reflexivity.
  - unfold b_values, b_items. destruct (items_loop_outside_writing (bkeys (nth i bs b0)) f (nth i bs b0) [] W) as [r E]. rewrite E.
    rewrite upd_nth_same by exact Hi. eexists; reflexivity.
Qed.

(* a reading session begins and ends without touching the buffer *)
Theorem read_session_keeps_buffer f b :
  queue (snd (fst (b_begin_r f b))) = queue b /\ queue (snd (fst (b_end_r f b))) = queue b /\ fst (fst (b_end_r f b)) = f.
Proof.
  unfold b_begin_r, b_end_r. destruct (open_ f (uk b) MR) as [f' h']. cbn. repeat split; reflexivity.
Qed.

(* a whole reading session: begin, any reads, end -- the buffered puts are all still there, in order *)
Definition in_read_session (i : nat) (o : bop) : bool :=
  match reads o with Some j => Nat.eqb i j | None => false end.

Lemma upd_nth_eq {A} : forall (l : list A) i x d, (i < length l)%nat -> nth i (upd l i x) d = x.
Proof.
  induction l as [|a l IH]; intros i x d Hi; [simpl in Hi; lia|].
  destruct i as [|i]; [reflexivity|]. simpl. apply IH. simpl in Hi. lia.
Qed.
Lemma upd_length {A} : forall (l : list A) i x, (i < length l)%nat -> length (upd l i x) = length l.
Proof.
  induction l as [|a l IH]; intros i x Hi; [simpl in Hi; lia|].
  destruct i as [|i]; [reflexivity|]. simpl. rewrite IH; [reflexivity|simpl in Hi; lia].
Qed.

Theorem reads_run_changes_nothing i : forall ops f bs,
  forallb (in_read_session i) ops = true -> (i < length bs)%nat -> writing (nth i bs b0) = false ->
  snd (brun (f, bs) ops) = (f, bs).
Proof.
  induction ops as [|o ops IH]; intros f bs Ha Hi W; [reflexivity|].
  cbn [forallb] in Ha. apply andb_true_iff in Ha. destruct Ha as [Ho Ha].
  unfold in_read_session in Ho. destruct (reads o) as [j|] eqn:Er; [|discriminate]. apply Nat.eqb_eq in Ho. subst j.
  destruct (reading_changes_nothing f bs o i Er Hi W) as [r E]. cbn [brun]. rewrite E.
  specialize (IH f bs Ha Hi W). destruct (brun (f, bs) ops) as [rs wf]. cbn [snd] in *. exact IH.
Qed.

Theorem reading_session_keeps_buffer i ops f bs :
  forallb (in_read_session i) ops = true -> (i < length bs)%nat ->
  let w := snd (brun (f, bs) (BeginR i :: ops ++ [EndR i])) in
  queue (nth i (snd w) b0) = queue (nth i bs b0).
Proof.
  intros Ha Hi. cbn [brun bstep]. unfold b_begin_r. destruct (open_ f (uk (nth i bs b0)) MR) as [f1 h1].
  set (b1 := mkb h1 true (queue (nth i bs b0)) (keys h1) (used (nth i bs b0)) (bufsize (nth i bs b0)) (ro (nth i bs b0)) SReading).
  assert (Hi1 : (i < length (upd bs i b1))%nat) by (rewrite upd_length; assumption).
  assert (W1 : writing (nth i (upd bs i b1) b0) = false) by (rewrite upd_nth_eq by exact Hi; reflexivity).
  assert (App : forall ops1 ops2 w, snd (brun w (ops1 ++ ops2)) = snd (brun (snd (brun w ops1)) ops2)).
  { induction ops1 as [|o1 ops1 IH1]; intros ops2 w; [reflexivity|]. cbn [app brun].
    destruct (bstep w o1) as [w1 r1]. specialize (IH1 ops2 w1).
    destruct (brun w1 (ops1 ++ ops2)) as [rs1 wf1]. destruct (brun w1 ops1) as [rs2 wf2]. cbn [snd] in *.
    destruct (brun wf2 ops2) as [rs3 wf3]. cbn [snd] in *. exact IH1. }
  pose proof (App ops [EndR i] (f1, upd bs i b1)) as A.
  rewrite (reads_run_changes_nothing i ops f1 (upd bs i b1) Ha Hi1 W1) in A.
  destruct (brun (f1, upd bs i b1) (ops ++ [EndR i])) as [rs wf]. cbn [snd] in *. subst wf.
  cbn [brun bstep snd]. unfold b_end_r. rewrite !upd_nth_eq by assumption. cbn [snd].
  rewrite upd_nth_eq by exact Hi1. reflexivity.
Qed.
