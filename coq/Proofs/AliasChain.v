(* C06 -- chains of copy routes: a copy of a copy (of a copy ...) along rows that meet the specification is
   faithful to the object the chain started from on every field all steps have to reproduce, is separated from
   that object and from EVERY object that existed before the last step, and no step changes what any earlier
   object shows. *)
From Coq Require Import List Bool ZArith Lia.
Import ListNotations.
From Molli Require Import Model.Alias Model.AliasChain Proofs.Alias.

Lemma copy_wf : forall r g d h o h' o',
  heap_wf h -> row_indep r = true -> copy_row r g d h o = Some (h', o') -> heap_wf h'.
Proof.
  intros r g d h o h' o' Hwf Hind Hc.
  destruct (copy_independent _ _ _ _ _ _ _ Hwf Hind Hc) as [_ [Hlt [_ [HA HB]]]].
  intros l Hl p Hp. destruct (Nat.lt_ge_cases l (length h)) as [Hlo|Hhi].
  - destruct (HB l Hlo) as [_ Hcl]. specialize (Hcl p Hp). simpl in Hcl. lia.
  - destruct (HA l (conj Hhi Hl)) as [_ Hcl]. specialize (Hcl p Hp). simpl in Hcl. lia.
Qed.

(* one copy leaves EVERY object of the old heap as it was, and its result is separated from each of them *)
Lemma copy_old_untouched : forall r g d h o h' o',
  heap_wf h -> row_indep r = true -> copy_row r g d h o = Some (h', o') ->
  forall x, x < length h -> obs h' x = obs h x /\ separated h' o' x.
Proof.
  intros r g d h o h' o' Hwf Hind Hc x Hx.
  destruct (copy_independent _ _ _ _ _ _ _ Hwf Hind Hc) as [Ho' [Hlt [Hold [HA HB]]]].
  split.
  - apply (obs_local h h' (fun l => l < length h) x).
    + intros l Hl. split; auto. apply (Hwf l Hl).
    + exact Hx.
    + intros l Hl. apply Hold. exact Hl.
  - exists (fun l => length h <= l < length h'), (fun l => l < length h).
    split; [exact HA|]. split; [exact HB|]. split; [intros l H1 H2; lia|]. split; [lia|exact Hx].
Qed.

Lemma need_meet_full : forall nd, need_meet nd full_need = nd.
Proof. intros [a b c d e f]. unfold need_meet. simpl. rewrite !andb_true_r. reflexivity. Qed.

Lemma faithful_trans : forall n1 n2 a b c,
  faithful_on n1 a b -> faithful_on n2 b c -> faithful_on (need_meet n1 n2) a c.
Proof.
  intros n1 n2 a b c [A1 [A2 [A3 [A4 [A5 [A6 [A7 A8]]]]]]] [B1 [B2 [B3 [B4 [B5 [B6 [B7 B8]]]]]]].
  unfold faithful_on, need_meet. simpl.
  split; [congruence|]. split; [exact B2|].
  split.
  { intros Hn Hs. apply andb_true_iff in Hn. destruct Hn as [Hn1 Hn2].
    destruct (A3 Hn1 Hs) as [E1 _].
    assert (Hb : o_bonds b <> None).
    { intro Hb. rewrite Hb in E1. simpl in E1. destruct (o_bonds a); simpl in E1; [discriminate|contradiction]. }
    destruct (B3 Hn2 Hb) as [E2 F2]. split; [congruence|exact F2]. }
  split. { intros Hn. apply andb_true_iff in Hn. destruct Hn as [Hn1 Hn2]. rewrite (B4 Hn2). apply A4. exact Hn1. }
  split. { intros Hn. apply andb_true_iff in Hn. destruct Hn as [Hn1 Hn2]. rewrite (B5 Hn2). apply A5. exact Hn1. }
  split. { intros Hn. apply andb_true_iff in Hn. destruct Hn as [Hn1 Hn2]. rewrite (B6 Hn2). apply A6. exact Hn1. }
  split. { intros Hn. apply andb_true_iff in Hn. destruct Hn as [Hn1 Hn2]. rewrite (B7 Hn2). apply A7. exact Hn1. }
  intros Hn. apply andb_true_iff in Hn. destruct Hn as [Hn1 Hn2]. rewrite (B8 Hn2). apply A8. exact Hn1.
Qed.

Definition steps_ok (nds : list need) (steps : list step) : Prop :=
  Forall2 (fun nd s => row_ok nd (fst (fst s)) = true) nds steps.

Theorem chain_sound : forall steps nds h o h' o',
  steps <> [] -> steps_ok nds steps -> heap_wf h -> copy_chain steps h o = Some (h', o') ->
  heap_wf h' /\ length h <= length h'
  /\ (forall x, x < length h -> obs h' x = obs h x /\ separated h' o' x)
  /\ exists ob ob', obs h o = Some ob /\ obs h' o' = Some ob' /\ faithful_on (meet_all nds) ob ob'.
Proof.
  induction steps as [|s rest IH]; intros nds h o h' o' Hne Hok Hwf Hc; [congruence|].
  destruct s as [[r g] d]. inversion Hok as [|nd s' nds' rest' Hrow Hrest]; subst. simpl in Hrow.
  simpl in Hc. destruct (copy_row r g d h o) as [[h1 o1]|] eqn:Ec; [|discriminate].
  pose proof Hrow as Hrow'. unfold row_ok in Hrow'. apply andb_true_iff in Hrow'. destruct Hrow' as [Hind _].
  pose proof (copy_wf _ _ _ _ _ _ _ Hwf Hind Ec) as Hwf1.
  destruct (copy_independent _ _ _ _ _ _ _ Hwf Hind Ec) as [_ [Hlt _]].
  destruct (copy_row_sound _ _ _ _ _ _ _ _ Hwf Hrow Ec) as [_ [_ [ob [ob1 [Ho [_ [Ho1 [_ Hf]]]]]]]].
  destruct rest as [|s2 rest2].
  - simpl in Hc. inversion Hc; subst h' o'. inversion Hrest; subst.
    split; [exact Hwf1|]. split; [lia|].
    split; [apply (copy_old_untouched _ _ _ _ _ _ _ Hwf Hind Ec)|].
    exists ob, ob1. split; [exact Ho|]. split; [exact Ho1|]. simpl. rewrite need_meet_full. exact Hf.
  - assert (Hne2 : s2 :: rest2 <> []) by discriminate.
    destruct (IH nds' h1 o1 h' o' Hne2 Hrest Hwf1 Hc) as [Hwf' [Hlen [Hold [ob1' [ob' [Ho1' [Ho' Hf']]]]]]].
    split; [exact Hwf'|]. split; [lia|].
    split.
    + intros x Hx. assert (Hx1 : x < length h1) by lia. destruct (Hold x Hx1) as [E S]. split; [|exact S].
      rewrite E. apply (copy_old_untouched _ _ _ _ _ _ _ Hwf Hind Ec). exact Hx.
    + rewrite Ho1 in Ho1'. inversion Ho1'; subst ob1'.
      exists ob, ob'. split; [exact Ho|]. split; [exact Ho'|]. simpl. apply (faithful_trans _ _ _ ob1); assumption.
Qed.

(* chains of tabulated routes: k0 -r1-> dst_of k0 r1 -r2-> ... *)
Lemma route_chain_ok : forall known t, table_ok known t = true ->
  forall rs k ss ns, route_chain t known k rs = Some (ss, ns) -> steps_ok ns ss /\ length ss = length rs.
Proof.
  intros known t Ht. induction rs as [|[r g] rest IH]; intros k ss ns H; simpl in H.
  - inversion H; subst. split; [constructor|reflexivity].
  - destruct (lookup_row t k r) as [x|] eqn:El; [|discriminate].
    destruct (route_chain t known (dst_of k r) rest) as [[ss' ns']|] eqn:Er; [|discriminate].
    destruct (lone k) eqn:Elone; [discriminate|]. inversion H; subst.
    destruct (IH _ _ _ Er) as [I1 I2]. split; [|simpl; congruence].
    constructor; [|exact I1]. simpl.
    unfold table_ok in Ht. apply andb_true_iff in Ht. destruct Ht as [_ Hall]. rewrite forallb_forall in Hall.
    specialize (Hall _ (lookup_row_In _ _ _ _ El)). unfold entry_ok in Hall.
    apply andb_true_iff in Hall. destruct Hall as [Hall _]. rewrite Elone in Hall. exact Hall.
Qed.

Theorem table_chain_sound : forall known t, table_ok known t = true ->
  forall k rs ss ns, rs <> [] -> route_chain t known k rs = Some (ss, ns) ->
  forall h o h' o', heap_wf h -> copy_chain ss h o = Some (h', o') ->
  heap_wf h' /\ length h <= length h'
  /\ (forall x, x < length h -> obs h' x = obs h x /\ separated h' o' x)
  /\ exists ob ob', obs h o = Some ob /\ obs h' o' = Some ob' /\ faithful_on (meet_all ns) ob ob'.
Proof.
  intros known t Ht k rs ss ns Hne Hr h o h' o' Hwf Hc.
  destruct (route_chain_ok known t Ht rs k ss ns Hr) as [Hok Hlen].
  apply (chain_sound ss ns h o h' o'); auto.
  intro E. subst ss. destruct rs; [congruence|discriminate].
Qed.
